(* C15, part 1: strz.ParseUint — the digit loop on 64-bit words (cutoff test, wrap-around test) computes what the
   unbounded left-to-right scan computes, for every base 2..36 and every bit size 1..64; lifted through the grammar layer
   to: parse_uint = spec_parse_uint for EVERY text, base and bit size. *)
From Coq Require Import List ZArith Lia Bool.
From V Require Import Lib.Enc Gen.StrzStd Model.Strconv.
Import ListNotations.
Local Open Scope Z_scope.
Arguments Z.mul : simpl never.
Arguments Z.add : simpl never.
Arguments Z.sub : simpl never.
Arguments Z.div : simpl never.
Arguments Z.modulo : simpl never.
Arguments Z.pow : simpl never.

(* the constants read from the source *)
Lemma consts : g_max_uint64 = M64 - 1 /\ g_cutoff_add = 1 /\ g_base_lo = 2 /\ g_base_hi = 36 /\ g_bits_min = 0 /\ g_bits_max = 64.
Proof. repeat split; reflexivity. Qed.

Lemma maxval_ok bits : 1 <= bits <= 64 -> maxval bits = 2 ^ bits - 1.
Proof.
  intros H. unfold maxval, w64, M64.
  destruct (Z.ltb_spec bits 64) as [Hlt|Hge].
  - assert (0 < 2 ^ bits < 2 ^ 64) by (split; [apply Z.pow_pos_nonneg; lia|apply Z.pow_lt_mono_r; lia]).
    rewrite (Z.mod_small (2 ^ bits)) by lia. apply Z.mod_small. lia.
  - assert (bits = 64) by lia. subst. reflexivity.
Qed.

(* the one arithmetic fact behind the cutoff test *)
Lemma cutoff_spec base n : 2 <= base -> 0 <= n -> (cutoff base <= n <-> M64 <= n * base).
Proof.
  intros Hb Hn. unfold cutoff. destruct consts as (-> & -> & _).
  pose proof (Z.div_mod (M64 - 1) base ltac:(lia)) as E.
  pose proof (Z.mod_pos_bound (M64 - 1) base ltac:(lia)) as B.
  split; intros H; nia.
Qed.

Lemma digit_of_range c d : digit_of c = Some d -> 0 <= d <= 35.
Proof.
  unfold digit_of. destruct (Z.leb_spec 48 c); destruct (Z.leb_spec c 57); cbn [andb]; try (intros E; inversion E; lia).
  all: destruct (Z.leb_spec 97 (lower c)); destruct (Z.leb_spec (lower c) 122); cbn [andb]; try discriminate; intros E; inversion E; lia.
Qed.

Theorem loop_refines_spec base0 base bits : 2 <= base <= 36 -> 1 <= bits <= 64 ->
  forall s n us, 0 <= n <= 2 ^ bits - 1 -> digit_loop base0 base bits s n us = spec_loop base0 base bits s n us.
Proof.
  intros Hb Hbits. pose proof (maxval_ok bits Hbits) as HM.
  assert (Hp : 0 < 2 ^ bits <= M64).
  { unfold M64. split; [apply Z.pow_pos_nonneg; lia|apply Z.pow_le_mono_r; lia]. }
  assert (HM64 : M64 = 18446744073709551616) by reflexivity.
  induction s as [|c t IH]; intros n us Hn; cbn [digit_loop spec_loop]; [reflexivity|].
  destruct ((c =? 95) && base0); [apply IH; exact Hn|].
  destruct (digit_of c) as [d|] eqn:Ed; [|reflexivity].
  pose proof (digit_of_range c d Ed) as Hd.
  rewrite (Z.mod_small base 256) by lia.
  destruct (Z.leb_spec base d) as [|Hdb]; [reflexivity|].
  rewrite HM.
  destruct (Z.leb_spec (cutoff base) n) as [Hc|Hc].
  - apply cutoff_spec in Hc; [|lia|lia].
    destruct (Z.ltb_spec (2 ^ bits - 1) (n * base + d)); [reflexivity|lia].
  - assert (Hnb : n * base < M64) by (destruct (Z_lt_le_dec (n * base) M64) as [|l]; auto; apply cutoff_spec in l; lia).
    assert (E1 : w64 (n * base) = n * base) by (unfold w64; apply Z.mod_small; nia).
    cbv zeta. rewrite E1.
    destruct (Z_lt_le_dec (n * base + d) M64) as [Hs|Hs].
    + assert (E2 : w64 (n * base + d) = n * base + d) by (unfold w64; apply Z.mod_small; nia).
      rewrite E2. destruct (Z.ltb_spec (n * base + d) (n * base)) as [H1|H1]; [lia|]. cbn [orb].
      destruct (Z.ltb_spec (2 ^ bits - 1) (n * base + d)) as [H2|H2]; [reflexivity|].
      apply IH. nia.
    + (* the addition wraps: caught by n1 < n *)
      assert (E2 : w64 (n * base + d) = n * base + d - M64).
      { unfold w64. symmetry. apply (Z.mod_unique _ _ 1); lia. }
      rewrite E2. destruct (Z.ltb_spec (n * base + d - M64) (n * base)) as [H1|H1]; [|lia]. cbn [orb].
      destruct (Z.ltb_spec (2 ^ bits - 1) (n * base + d)); [reflexivity|lia].
Qed.

(* the grammar layer hands the loop only bases 2..36 and bit sizes 1..64 *)
Lemma frame_ext (f g : bool -> Z -> Z -> list Z -> Z -> bool -> presult + (Z * bool)) :
  (forall base0 b bits body, 2 <= b <= 36 -> 1 <= bits <= 64 -> f base0 b bits body 0 false = g base0 b bits body 0 false) ->
  forall s base bitSize, parse_frame f s base bitSize = parse_frame g s base bitSize.
Proof.
  intros Hfg s base bitSize. unfold parse_frame. destruct s as [|c0 t]; [reflexivity|].
  destruct consts as (_ & _ & -> & -> & -> & ->).
  set (pre := if (2 <=? base) && (base <=? 36) then _ else _).
  assert (Hpre : match pre with Some (b, _) => 2 <= b <= 36 | None => True end).
  { unfold pre. destruct (Z.leb_spec 2 base); destruct (Z.leb_spec base 36); cbn [andb]; try lia.
    all: destruct (base =? 0); [|exact I].
    all: destruct (c0 =? 48); [|lia].
    all: destruct t as [|c1 [|c2 t2]]; cbn [tl]; try lia.
    all: destruct (lower c1 =? 98); [lia|]; destruct (lower c1 =? 111); [lia|]; destruct (lower c1 =? 120); lia. }
  destruct pre as [[b body]|]; [|reflexivity].
  destruct (Z.ltb_spec bitSize 0); cbn [orb]; [reflexivity|].
  destruct (Z.ltb_spec 64 bitSize); [reflexivity|].
  rewrite Hfg; [reflexivity|exact Hpre|].
  destruct (Z.eqb_spec bitSize 0); unfold word_bits; lia.
Qed.

(* ParseUint = the specification (unbounded scan), for every text, every base (-inf..inf) and every bit size *)
Theorem parse_uint_refines_spec s base bitSize : parse_uint s base bitSize = spec_parse_uint s base bitSize.
Proof.
  unfold parse_uint, spec_parse_uint. apply frame_ext. intros base0 b bits body Hb Hbits.
  apply loop_refines_spec; auto. assert (0 < 2 ^ bits) by (apply Z.pow_pos_nonneg; lia). lia.
Qed.

(* what the slip `cutoff = maxUint64/base` (no + 1) would do: reject a representable value *)
Example slip_is_visible : exists n, g_max_uint64 / 10 <= n /\ n * 10 + 5 <= g_max_uint64.
Proof. exists 1844674407370955161. split; vm_compute; discriminate. Qed.

(* ---- a declarative reading for an explicit base: success means "all characters are digits of the base and the
        positional value fits", and the value returned is the positional value *)
Fixpoint digits_in (base : Z) (s : list Z) : option (list Z) :=
  match s with
  | [] => Some []
  | c :: t => match digit_of c, digits_in base t with
              | Some d, Some ds => if d <? base then Some (d :: ds) else None
              | _, _ => None
              end
  end.
Fixpoint value_from (base : Z) (ds : list Z) (acc : Z) : Z :=
  match ds with [] => acc | d :: t => value_from base t (acc * base + d) end.

Lemma value_from_ge base ds : 2 <= base -> Forall (fun d => 0 <= d) ds -> forall acc, 0 <= acc -> acc <= value_from base ds acc.
Proof.
  intros Hb. induction ds as [|d t IH]; intros F acc Ha; cbn [value_from]; [lia|].
  inversion F; subst. eapply Z.le_trans; [|apply IH; auto; nia]. nia.
Qed.

Lemma digits_in_nonneg base : forall t ds, digits_in base t = Some ds -> Forall (fun d => 0 <= d) ds.
Proof.
  induction t as [|c' t' IH']; intros ds' E; cbn [digits_in] in E; [inversion E; constructor|].
  destruct (digit_of c') as [d'|] eqn:Ed'; [|discriminate]. destruct (digits_in base t') as [r|]; [|discriminate].
  destruct (d' <? base); [|discriminate]. inversion E; subst. constructor; [apply digit_of_range in Ed'; lia|apply IH'; reflexivity].
Qed.

Lemma spec_loop_explicit base bits : 2 <= base <= 36 -> 1 <= bits ->
  forall s acc, 0 <= acc <= 2 ^ bits - 1 ->
  match spec_loop false base bits s acc false with
  | inr (v, us) => us = false /\ exists ds, digits_in base s = Some ds /\ value_from base ds acc = v /\ v <= 2 ^ bits - 1
  | inl e => (forall m, e <> POk m) /\ forall ds, digits_in base s = Some ds -> 2 ^ bits - 1 < value_from base ds acc
  end.
Proof.
  intros Hb Hbits. induction s as [|c t IH]; intros acc Ha; cbn [spec_loop digits_in].
  - split; [reflexivity|]. exists []. cbn [value_from]. repeat split; lia.
  - rewrite andb_false_r. destruct (digit_of c) as [d|] eqn:Ed; [|split; [discriminate|intros ds; discriminate]].
    pose proof (digit_of_range c d Ed) as Hd.
    destruct (Z.leb_spec base d) as [Hbd|Hbd].
    + split; [discriminate|]. intros ds. destruct (digits_in base t); [|discriminate]. destruct (Z.ltb_spec d base); [lia|discriminate].
    + cbv zeta. destruct (Z.ltb_spec (2 ^ bits - 1) (acc * base + d)) as [Hov|Hok].
      * split; [discriminate|]. intros ds E. destruct (digits_in base t) as [ds'|] eqn:Et; [|discriminate].
        destruct (Z.ltb_spec d base); [|lia]. inversion E; subst. cbn [value_from].
        pose proof (value_from_ge base ds' ltac:(lia) (digits_in_nonneg base t ds' Et) (acc * base + d) ltac:(nia)). lia.
      * specialize (IH (acc * base + d) ltac:(nia)).
        destruct (spec_loop false base bits t (acc * base + d) false) as [e|[v us]].
        -- destruct IH as [IH1 IH2]. split; [exact IH1|]. intros ds E. destruct (digits_in base t) as [ds'|] eqn:Et; [|discriminate].
           destruct (Z.ltb_spec d base); [|lia]. inversion E; subst. cbn [value_from]. apply IH2. reflexivity.
        -- destruct IH as (-> & ds' & Et & Ev & Hv). split; [reflexivity|]. exists (d :: ds'). rewrite Et.
           destruct (Z.ltb_spec d base); [|lia]. cbn [value_from]. auto.
Qed.

Theorem parse_uint_ok_explicit s base bits n : 2 <= base <= 36 -> 1 <= bits <= 64 ->
  (parse_uint s base bits = POk n <->
   s <> [] /\ exists ds, digits_in base s = Some ds /\ value_from base ds 0 = n /\ n <= 2 ^ bits - 1).
Proof.
  intros Hb Hbits. rewrite parse_uint_refines_spec. unfold spec_parse_uint, parse_frame.
  destruct s as [|c0 t]; [split; [discriminate|intros [H _]; congruence]|].
  destruct consts as (_ & _ & -> & -> & -> & ->).
  destruct (Z.leb_spec 2 base); [|lia]. destruct (Z.leb_spec base 36); [|lia]. cbn [andb].
  destruct (Z.eqb_spec bits 0); [lia|]. destruct (Z.ltb_spec bits 0); [lia|]. destruct (Z.ltb_spec 64 bits); [lia|]. cbn [orb].
  destruct (Z.eqb_spec base 0); [lia|].
  assert (Hz0 : 0 <= 0 <= 2 ^ bits - 1) by (assert (0 < 2 ^ bits) by (apply Z.pow_pos_nonneg; lia); lia).
  pose proof (spec_loop_explicit base bits Hb ltac:(lia) (c0 :: t) 0 Hz0) as G.
  destruct (spec_loop false base bits (c0 :: t) 0 false) as [e|[v us]].
  - destruct G as [G1 G2]. split.
    + intros E. destruct (G1 n E).
    + intros (_ & ds & Ed & Ev & Hn). specialize (G2 ds Ed). lia.
  - destruct G as (-> & ds & Ed & Ev & Hv). cbn [andb]. split.
    + intros E. inversion E; subst. split; [discriminate|]. eauto.
    + intros (_ & ds' & Ed' & Ev' & Hn). rewrite Ed in Ed'. inversion Ed'; subst. reflexivity.
Qed.
