(* C12, linearizability of the call-driven machine, part 4: corollaries stated on histories.
   - only calls the schedule starts appear in the history;
   - exactly one of several concurrent SetNx on an absent key returns true;
   - SetX never creates a key;
   - every call returns what the specification returns on ONE map: the state of the linearization before it (here), and the
     shared map of the machine at one step between its invocation and its response (Proofs/SafeKVLinearizeSnap.v). *)
From Coq Require Import List Arith Lia Bool ZArith Permutation.
From V Require Import Lib.Enc Gen.SafeKVSkel Model.SafeKV Model.SafeKVCalls Model.SafeKVHist
  Proofs.SafeKVInv Proofs.SafeKVConc Proofs.SafeKVSkelOk Proofs.SafeKVExec Proofs.SafeKVCalls Proofs.SafeKVSeq Proofs.SafeKVLin
  Proofs.SafeKVLinearizeStep Proofs.SafeKVLinearize Proofs.SafeKVLinearizeThm.
Import ListNotations.

(* ---------------------------------------------------------------- the calls of a history are calls the schedule started *)
Section CallsFrom.
Variable P : call -> Prop.

Definition calls_ok (h : hconfig) : Prop :=
  (forall i t cl, nth_error (cths (hc h)) i = Some t -> ccall t = Some cl -> P cl) /\ Forall (fun hp => P (h_call hp)) (hhist h).

Lemma hstep_calls h sc : CInv (hc h) -> P (snd sc) -> calls_ok h -> calls_ok (hstep h sc).
Proof.
  intros HC Hnc [Hth Hh]. destruct sc as [i nc]. cbn [snd] in Hnc. unfold calls_ok. rewrite hstep_hc. unfold hstep. cbn [fst].
  destruct (nth_error (cths (hc h)) i) as [t|] eqn:Hi.
  2: { assert (E0 : cstep (hc h) (i, nc) = hc h) by (unfold cstep; rewrite Hi; reflexivity). rewrite E0. cbn [hhist]. auto. }
  destruct (cstep_kind (hc h) i nc t HC Hi) as (l' & m' & t' & Hstep & Hk). rewrite Hstep. cbn [cths]. split.
  - intros j y cl Hj Hc. rewrite (nth_error_upd _ i t t' j Hi) in Hj. destruct (Nat.eqb_spec j i) as [->|Hne]; [|eauto].
    inversion Hj; subst y. clear Hj.
    destruct Hk as [? ? ? Ec' | ? ? ? ? ? Ec' | cl0 Ec ? ? Ec' | cl0 ? Ec ? ? ? ? Ec' | cl0 ? Ec ? ? ? ? Ec']; try congruence.
    all: apply (Hth i t cl); auto; congruence.
  - destruct (ccall t) as [cl|] eqn:Ec; [|exact Hh]. destruct (returning t); cbn [hhist]; [|exact Hh].
    apply Forall_app. split; auto. constructor; auto. cbn [h_call]. eapply Hth; eauto.
Qed.

Lemma hfold_calls sched : forall h, CInv (hc h) -> Forall (fun sc => P (snd sc)) sched -> calls_ok h -> calls_ok (fold_left hstep sched h).
Proof.
  induction sched as [|sc s IH]; intros h HC Hs Hok; cbn [fold_left]; auto. inversion Hs; subst. apply IH; auto.
  - rewrite hstep_hc. apply cstep_cinv. exact HC.
  - apply hstep_calls; auto.
Qed.

Lemma completion_calls K : forall ps hs, completion K ps hs -> Forall (fun p => P (snd p)) ps -> Forall (fun hp => P (h_call hp)) hs.
Proof. intros ps hs H. induction H; intros Hp; auto; inversion Hp; subst; auto. Qed.

(* every completed call, and every completed pending call, is a call some schedule entry carries *)
Theorem history_calls n m0 sched K extra : Forall (fun sc => P (snd sc)) sched -> completion K (cpending n m0 sched) extra ->
  Forall (fun hp => P (h_call hp)) (chistory n m0 sched ++ extra).
Proof.
  intros Hs Hc. assert (Hok : calls_ok (hrun n m0 sched)).
  { apply hfold_calls; auto; [apply cinit_cinv|]. split; [|constructor]. cbn [hinit hc cinit cths]. intros i t cl Hi Hcl.
    apply nth_error_In, repeat_spec in Hi. subst. discriminate. }
  destruct Hok as [Hth Hh]. apply Forall_app. split; [exact Hh|]. eapply completion_calls; eauto.
  unfold cpending, pending_of. apply Forall_forall. intros p Hp. apply in_flat_map in Hp as (i & Hi & Hp). apply in_seq in Hi.
  set (ts := cths (hc (hrun n m0 sched))) in *. destruct (ccall (nth i ts cidle)) as [cl|] eqn:Ec; [|destruct Hp].
  destruct Hp as [<-|[]]. cbn [snd]. apply (Hth i (nth i ts cidle) cl); auto. apply nth_error_nth'. lia.
Qed.
End CallsFrom.

(* ---------------------------------------------------------------- permutations and filters *)
Lemma Permutation_filter_ {A} (f : A -> bool) l l' : Permutation l l' -> Permutation (filter f l) (filter f l').
Proof.
  induction 1 as [|x l l' _ IH|x y l|l l' l'' _ IH1 _ IH2]; cbn [filter].
  - constructor.
  - destruct (f x); auto.
  - destruct (f x), (f y); auto. apply perm_swap.
  - eapply perm_trans; eauto.
Qed.
Lemma filter_none {A} (f : A -> bool) l : (forall x, In x l -> f x = false) -> filter f l = [].
Proof. induction l as [|a l IH]; intros H; cbn [filter]; auto. rewrite (H a (or_introl eq_refl)). apply IH. intros x Hx. apply H. right; auto. Qed.

(* ---------------------------------------------------------------- SetNx *)
Section SetNx.
Variable k : Z.
Local Notation okc c := (is_setnx k c = true \/ keeps_key k c).

Lemma is_setnx_inv c : is_setnx k c = true -> exists v, c = CSetNx k v.
Proof. destruct c; try discriminate. cbn [is_setnx]. intros H. apply Z.eqb_eq in H. subst. eauto. Qed.

Lemma seq_setnx_present : forall l m, seq_legal l m -> Forall (fun h => okc (h_call h)) l -> has m k = true ->
  forall h, In h l -> is_setnx k (h_call h) = true -> h_res h = [0%Z].
Proof.
  induction l as [|x l IH]; intros m Hs Hok Hm h Hin Hh; [destruct Hin|]. cbn [seq_legal] in Hs. destruct Hs as [S1 S2].
  inversion Hok as [|? ? Ox Ol]; subst.
  assert (Hm' : has (fst (sem (h_call x) m)) k = true).
  { destruct (is_setnx k (h_call x)) eqn:Ex.
    - destruct (is_setnx_inv _ Ex) as [v ->]. cbn [sem]. rewrite Hm. exact Hm.
    - destruct Ox as [Ox|Ox]; [discriminate|]. rewrite Ox. exact Hm. }
  destruct Hin as [<-|Hin]; [|eapply IH; eauto].
  destruct (is_setnx_inv _ Hh) as [v Ev]. rewrite S1, Ev. cbn [sem]. rewrite Hm. reflexivity.
Qed.

Lemma seq_setnx_absent : forall l m, seq_legal l m -> Forall (fun h => okc (h_call h)) l -> has m k = false ->
  (forall h, In h l -> is_setnx k (h_call h) = true -> h_res h = [1%Z] \/ h_res h = [0%Z]) /\
  length (filter (setnx_win k) l) <= 1 /\
  ((exists h, In h l /\ is_setnx k (h_call h) = true) -> length (filter (setnx_win k) l) = 1).
Proof.
  induction l as [|x l IH]; intros m Hs Hok Hm.
  - cbn [filter length]. split; [intros h []|]. split; [lia|]. intros (h & [] & _).
  - cbn [seq_legal] in Hs. destruct Hs as [S1 S2]. inversion Hok as [|? ? Ox Ol]; subst.
    destruct (is_setnx k (h_call x)) eqn:Ex.
    + (* the first SetNx on k in the order: it wins, every later one finds the key *)
      destruct (is_setnx_inv _ Ex) as [v Ev]. rewrite Ev in S1, S2. cbn [sem] in S1, S2. rewrite Hm in S1, S2. cbn [fst snd] in S1, S2.
      assert (Hp : has (put m k v) k = true) by (unfold has; rewrite get_put_same; reflexivity).
      pose proof (seq_setnx_present l _ S2 Ol Hp) as Hrest.
      assert (Hnone : filter (setnx_win k) l = []).
      { apply filter_none. intros h Hin. unfold setnx_win. destruct (is_setnx k (h_call h)) eqn:Eh; [|reflexivity].
        rewrite (Hrest h Hin Eh). reflexivity. }
      assert (Hwin : setnx_win k x = true) by (unfold setnx_win; rewrite Ex, S1; reflexivity).
      cbn [filter]. rewrite Hwin, Hnone. cbn [length]. split; [|split; [lia|auto]].
      intros h [<-|Hin] Hh; [left; auto|right; eauto].
    + destruct Ox as [Ox|Ox]; [discriminate|].
      assert (Hm' : has (fst (sem (h_call x) m)) k = false) by (rewrite Ox; exact Hm).
      destruct (IH _ S2 Ol Hm') as (I1 & I2 & I3).
      assert (Hwin : setnx_win k x = false) by (unfold setnx_win; rewrite Ex; reflexivity).
      cbn [filter]. rewrite Hwin. split; [|split; auto].
      * intros h [<-|Hin] Hh; [congruence|eauto].
      * intros (h & [<-|Hin] & Hh); [congruence|]. apply I3. eauto.
Qed.

(* on any history that has a linearization from a map without k, all of whose calls are SetNx on k or calls that do not change
   whether k is present: every such SetNx reported true or false, at most one reported true, and one did if there was any *)
Theorem setnx_unique_lin hist m0 l : linearization hist m0 l -> has m0 k = false ->
  Forall (fun h => okc (h_call h)) hist ->
  (forall h, In h hist -> is_setnx k (h_call h) = true -> h_res h = [1%Z] \/ h_res h = [0%Z]) /\
  length (filter (setnx_win k) hist) <= 1 /\
  ((exists h, In h hist /\ is_setnx k (h_call h) = true) -> length (filter (setnx_win k) hist) = 1).
Proof.
  intros (Hp & _ & Hs) Hm Hok.
  assert (Hokl : Forall (fun h => okc (h_call h)) l).
  { rewrite Forall_forall in *. intros h Hin. apply Hok. eapply Permutation_in; eauto. }
  destruct (seq_setnx_absent l m0 Hs Hokl Hm) as (A1 & A2 & A3).
  assert (El : length (filter (setnx_win k) hist) = length (filter (setnx_win k) l))
    by (apply Permutation_length, Permutation_filter_, Permutation_sym, Hp).
  rewrite El. split; [|split; auto].
  - intros h Hin. apply A1. eapply Permutation_in; [apply Permutation_sym|]; eauto.
  - intros (h & Hin & Hh). apply A3. exists h. split; auto. eapply Permutation_in; [apply Permutation_sym|]; eauto.
Qed.
End SetNx.

(* ---------------------------------------------------------------- SetX *)
Lemma setx_never_creates_key a v k : never_creates k (CSetX a v).
Proof.
  intros m Hm. destruct (has (fst (sem (CSetX a v) m)) k) eqn:E0; auto. apply setx_never_creates in E0. congruence.
Qed.

Lemma seq_absent_stays k : forall l m, seq_legal l m -> Forall (fun h => never_creates k (h_call h)) l -> has m k = false ->
  forall h, In h l -> exists s, has s k = false /\ h_res h = snd (sem (h_call h) s).
Proof.
  induction l as [|x l IH]; intros m Hs Hok Hm h Hin; [destruct Hin|]. cbn [seq_legal] in Hs. destruct Hs as [S1 S2].
  inversion Hok as [|? ? Ox Ol]; subst. destruct Hin as [<-|Hin]; [eauto|]. eapply IH; eauto.
Qed.

(* on any history that has a linearization from a map without k, all of whose calls never create k (SetX on any key is one):
   every call saw a map without k — Has/Contains k answer false, Get k finds nothing, SetX k reports that it did not write *)
Theorem setx_never_creates_lin hist m0 l k : linearization hist m0 l -> has m0 k = false ->
  Forall (fun h => never_creates k (h_call h)) hist ->
  forall h, In h hist ->
    (exists s, has s k = false /\ h_res h = snd (sem (h_call h) s)) /\
    (h_call h = CHas k \/ h_call h = CContains k -> h_res h = [0%Z]) /\
    (forall v, h_call h = CSetX k v -> h_res h = [0%Z]) /\
    (h_call h = CGet k -> h_res h = [0%Z; 0%Z]) /\
    (h_call h = CGetWithLock k -> h_res h = [0%Z]).
Proof.
  intros (Hp & _ & Hs) Hm Hok h Hin.
  assert (Hokl : Forall (fun h => never_creates k (h_call h)) l).
  { rewrite Forall_forall in *. intros x Hx. apply Hok. eapply Permutation_in; eauto. }
  assert (Hinl : In h l) by (eapply Permutation_in; [apply Permutation_sym|]; eauto).
  destruct (seq_absent_stays k l m0 Hs Hokl Hm h Hinl) as (s & Hsk & Hr). split; [eauto|].
  assert (Hg : get s k = None) by (unfold has in Hsk; destruct (get s k); [discriminate|reflexivity]).
  repeat split.
  - intros [E0|E0]; rewrite Hr, E0; cbn [sem snd]; rewrite Hsk; reflexivity.
  - intros v E0. rewrite Hr, E0. cbn [sem]. rewrite Hsk. reflexivity.
  - intros E0. rewrite Hr, E0. cbn [sem snd]. rewrite Hg. reflexivity.
  - intros E0. rewrite Hr, E0. cbn [sem snd]. rewrite Hg. reflexivity.
Qed.

(* ---------------------------------------------------------------- one snapshot: the state of the linearization *)
Lemma state_after_app a b m : state_after (a ++ b) m = state_after b (state_after a m).
Proof. apply fold_left_app. Qed.

Lemma seq_legal_split : forall l m, seq_legal l m -> forall h, In h l ->
  exists l1 l2, l = l1 ++ h :: l2 /\ h_res h = snd (sem (h_call h) (state_after l1 m)).
Proof.
  induction l as [|x l IH]; intros m Hs h Hin; [destruct Hin|]. cbn [seq_legal] in Hs. destruct Hs as [S1 S2].
  destruct Hin as [<-|Hin].
  - exists [], l. split; auto.
  - destruct (IH _ S2 h Hin) as (l1 & l2 & -> & Hr). exists (x :: l1), l2. split; auto.
Qed.

(* what the iteration methods return on a map s: as many keys / values / pairs as s has entries *)
Lemma snapshot_sizes s :
  hd0 (snd (sem CKeys s)) = Z.of_nat (length s) /\ snd (sem CKeys s) = put_list (map fst s) /\
  hd0 (snd (sem CValues s)) = Z.of_nat (length s) /\
  hd0 (snd (sem (CRange 0) s)) = Z.of_nat (2 * length s) /\ hd0 (snd (sem (CAll 0) s)) = Z.of_nat (2 * length s) /\
  (forall stop, stop <> 0 -> snd (sem (CRange stop) s) = [Z.of_nat (Nat.min stop (length s)); 1%Z] /\
                             snd (sem (CAll stop) s) = [Z.of_nat (Nat.min stop (length s)); 1%Z]) /\
  snd (sem CLen s) = [Z.of_nat (length s)] /\
  (forall f a b, snd (sem (CMap f a b) s) = [Z.of_nat (length s)]).
Proof.
  assert (Hflat : length (flat s) = 2 * length s).
  { unfold flat. induction s as [|p s IH]; cbn [flat_map length app]; [reflexivity|]. rewrite IH. lia. }
  cbn [sem snd iter_result put_list hd0]. rewrite map_length, zsort_length, map_length, Hflat.
  repeat split; auto; destruct stop; try congruence; reflexivity.
Qed.

(* every call of a linearizable history returns what the specification returns on one map, the one its predecessors in the
   order left; for the iteration methods the number of entries returned is the size of that map *)
Theorem one_snapshot_lin hist m0 l : linearization hist m0 l -> forall h, In h hist ->
  exists l1 l2, l = l1 ++ h :: l2 /\ h_res h = snd (sem (h_call h) (state_after l1 m0)).
Proof.
  intros (Hp & _ & Hs) h Hin. apply seq_legal_split; auto. eapply Permutation_in; [apply Permutation_sym|]; eauto.
Qed.
