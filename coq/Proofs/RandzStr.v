(* C20, part 3: StrGenerator — NewStrGenerator's fields, the rejection loop, rune-level and byte-level shape of the result. *)
From Coq Require Import List ZArith Lia Bool Arith.
From V Require Import Lib.Enc Lib.Utf8 Proofs.Utf8Facts Gen.Randz Model.Randz Proofs.RandzBase32.
Import ListNotations.
Local Open Scope Z_scope.
Arguments Z.mul : simpl never.
Arguments Z.add : simpl never.
Arguments Z.sub : simpl never.
Arguments Z.div : simpl never.
Arguments Z.modulo : simpl never.
Arguments Z.pow : simpl never.

(* ---- the loop `for l := len(r); l != 0; bits++ { l >>= 1 }` *)
Lemma bits_loop_bounds : forall fuel l bits k, 0 <= k <= Z.of_nat fuel -> 0 <= l < 2 ^ k ->
  bits <= bits_loop fuel l bits <= bits + k /\ (0 < l -> bits + 1 <= bits_loop fuel l bits).
Proof.
  induction fuel as [|f IH]; intros l bits k Hk Hl; cbn [bits_loop].
  - assert (k = 0) by lia. subst. change (2 ^ 0) with 1 in Hl. lia.
  - destruct (Z.eqb_spec l 0) as [->|Hne]; [lia|].
    assert (Hk1 : 1 <= k). { destruct (Z.eq_dec k 0) as [->|]; [change (2 ^ 0) with 1 in Hl; lia|lia]. }
    rewrite Z.shiftr_div_pow2 by lia. change (2 ^ 1) with 2.
    assert (Hh : 0 <= l / 2 < 2 ^ (k - 1)).
    { split; [apply Z.div_pos; lia|]. apply Z.div_lt_upper_bound; [lia|].
      replace k with (Z.succ (k - 1)) in Hl by lia. rewrite Z.pow_succ_r in Hl by lia. lia. }
    destruct (IH (l / 2) (bits + 1) (k - 1) ltac:(lia) Hh) as [B _]. lia.
Qed.

Lemma new_sgen_spec cs g : new_sgen cs = Some g ->
  charset g = Utf8.runes cs /\ charset g <> [] /\ 0 <= cmask g /\ 1 <= cbits g /\ cmask g = 2 ^ cbits g - 1 /\
  imax g = Z.to_nat (g_str_word_bits / cbits g).
Proof.
  unfold new_sgen. set (r := Utf8.runes cs). set (bits := bits_loop 64 (Z.of_nat (length r)) 0).
  destruct (Z.eqb_spec bits 0) as [|Hne]; [discriminate|]. intros E. inversion E; subst g; clear E. cbn [charset cmask cbits imax].
  assert (Hb : 0 <= bits).
  { destruct (Z_lt_le_dec (Z.of_nat (length r)) (2 ^ 64)) as [Hs|Hbig].
    - destruct (bits_loop_bounds 64 (Z.of_nat (length r)) 0 64 ltac:(lia) ltac:(lia)) as [B _]. fold bits in B. lia.
    - (* not reachable for a real string; the loop still only counts upwards *)
      assert (G : forall fuel l b, b <= bits_loop fuel l b) by (induction fuel as [|f IH]; intros l b; cbn [bits_loop]; [lia|destruct (l =? 0); [lia|specialize (IH (Z.shiftr l 1) (b + 1)); lia]]).
      apply G. }
  assert (0 < 2 ^ bits) by (apply Z.pow_pos_nonneg; lia).
  split; [reflexivity|]. split; [|split; [lia|split; [lia|split; reflexivity]]].
  intros E0. unfold bits in Hne. rewrite E0 in Hne. cbn in Hne. lia.
Qed.
(* every non-empty character set (of fewer than 2^63 runes) is accepted, with at least one index field per word *)
Lemma new_sgen_total cs : Utf8.runes cs <> [] -> Z.of_nat (length (Utf8.runes cs)) < 2 ^ 63 ->
  exists g, new_sgen cs = Some g /\ (1 <= imax g)%nat.
Proof.
  intros Hne Hlen. unfold new_sgen. set (r := Utf8.runes cs) in *. set (bits := bits_loop 64 (Z.of_nat (length r)) 0).
  assert (Hl : 0 < Z.of_nat (length r)) by (destruct r; [congruence|cbn [length]; lia]).
  destruct (bits_loop_bounds 64 (Z.of_nat (length r)) 0 63 ltac:(lia) ltac:(lia)) as [B1 B2]. fold bits in B1, B2. specialize (B2 Hl).
  destruct (Z.eqb_spec bits 0); [lia|]. eexists. split; [reflexivity|]. cbn [imax].
  unfold g_str_word_bits. assert (1 <= 63 / bits) by (apply Z.div_le_lower_bound; lia). lia.
Qed.

(* ---- one cache word *)
Lemma draw_spec g : forall remain cache need acc,
  0 <= cmask g ->
  let '(acc', need') := draw g remain cache need acc in
  (need' <= need)%nat /\ exists new, acc' = acc ++ new /\ (length new = need - need')%nat /\ Forall (fun c => In c (charset g)) new.
Proof.
  induction remain as [|r IH]; intros cache need acc Hm; destruct need as [|k]; cbn [draw].
  1-3: (split; [lia|]; exists []; rewrite app_nil_r; split; [reflexivity|split; [cbn [length]; lia|constructor]]).
  destruct (Z.ltb_spec (Z.land cache (cmask g)) (Z.of_nat (length (charset g)))) as [Hlt|Hge].
  - specialize (IH (Z.shiftr cache (cbits g)) k (acc ++ [nth (Z.to_nat (Z.land cache (cmask g))) (charset g) 0]) Hm).
    destruct (draw g r _ k _) as [acc' need']. destruct IH as (H1 & new & E & L & F). split; [lia|].
    exists (nth (Z.to_nat (Z.land cache (cmask g))) (charset g) 0 :: new). rewrite E, <- app_assoc. repeat split; auto.
    + cbn [length]. lia.
    + constructor; auto. apply nth_In.
      assert (0 <= Z.land cache (cmask g)) by (apply Z.land_nonneg; right; exact Hm). lia.
  - specialize (IH (Z.shiftr cache (cbits g)) (S k) acc Hm). destruct (draw g r _ (S k) acc) as [acc' need']. exact IH.
Qed.

Lemma generate_go_spec g : 0 <= cmask g -> forall stream need acc used out u,
  generate_go g stream need acc used = Some (out, u) ->
  exists new, out = acc ++ new /\ length new = need /\ Forall (fun c => In c (charset g)) new.
Proof.
  intros Hm. induction stream as [|w rest IH]; intros need acc used out u H; destruct need as [|k]; cbn [generate_go] in H; try discriminate.
  1,2: inversion H; subst; exists []; rewrite app_nil_r; repeat split; auto.
  pose proof (draw_spec g (imax g) w (S k) acc Hm) as D. destruct (draw g (imax g) w (S k) acc) as [acc' need'].
  destruct D as (D1 & new & -> & L & F). destruct (IH _ _ _ _ _ H) as (new2 & -> & L2 & F2).
  exists (new ++ new2). rewrite app_assoc. repeat split; auto; [rewrite app_length; lia|apply Forall_app; auto].
Qed.

(* whatever the random words are: if Generate returns, it returns exactly n characters of the character set *)
Theorem generate_shape g : 0 <= cmask g ->
  forall stream n out u, generate g stream n = Some (out, u) -> length out = n /\ Forall (fun c => In c (charset g)) out.
Proof.
  intros Hm stream n out u H. unfold generate in H. destruct stream as [|w rest]; [discriminate|].
  pose proof (draw_spec g (imax g) w n [] Hm) as D. destruct (draw g (imax g) w n []) as [acc need].
  destruct D as (D1 & new & -> & L & F). destruct (generate_go_spec g Hm _ _ _ _ _ _ H) as (new2 & -> & L2 & F2). cbn [app].
  split; [rewrite app_length; lia|apply Forall_app; auto].
Qed.

(* ---- the scripted source of the check (script, then zeros) always lets the loop finish: the model's fuel suffices *)
Lemma draw_zero_progress g remain need acc : 0 <= cmask g -> charset g <> [] -> (1 <= remain)%nat -> (1 <= need)%nat ->
  (snd (draw g remain 0 need acc) < need)%nat.
Proof.
  intros Hm Hc Hr Hn. destruct remain as [|r]; [lia|]. destruct need as [|k]; [lia|]. cbn [draw].
  rewrite Z.land_0_l. destruct (Z.ltb_spec 0 (Z.of_nat (length (charset g)))) as [_|Hz].
  - pose proof (draw_spec g r (Z.shiftr 0 (cbits g)) k (acc ++ [nth (Z.to_nat 0) (charset g) 0]) Hm) as D.
    destruct (draw g r _ k _) as [a n']. cbn [snd]. lia.
  - destruct (charset g); [congruence|cbn [length] in Hz; lia].
Qed.
Lemma generate_go_zeros g : 0 <= cmask g -> charset g <> [] -> (1 <= imax g)%nat ->
  forall k need acc used, (need <= k)%nat -> generate_go g (repeat 0 k) need acc used <> None.
Proof.
  intros Hm Hc Hi. induction k as [|k IH]; intros need acc used Hn.
  - assert (need = 0%nat) by lia. subst. cbn. discriminate.
  - destruct need as [|n']; [cbn; discriminate|]. cbn [repeat generate_go].
    pose proof (draw_zero_progress g (imax g) (S n') acc Hm Hc Hi ltac:(lia)) as P.
    destruct (draw g (imax g) 0 (S n') acc) as [a n2]. cbn [snd] in P. apply IH. lia.
Qed.
Lemma generate_go_script g : 0 <= cmask g -> charset g <> [] -> (1 <= imax g)%nat ->
  forall script k need acc used, (need <= k)%nat -> generate_go g (script ++ repeat 0 k) need acc used <> None.
Proof.
  intros Hm Hc Hi. induction script as [|w rest IH]; intros k need acc used Hn; [apply generate_go_zeros; auto|].
  destruct need as [|n']; [cbn; discriminate|]. cbn [app generate_go].
  pose proof (draw_spec g (imax g) w (S n') acc Hm) as D. destruct (draw g (imax g) w (S n') acc) as [a n2].
  destruct D as [D _]. apply IH. lia.
Qed.
Theorem generate_fuel_suffices g script n : 0 <= cmask g -> charset g <> [] -> (1 <= imax g)%nat ->
  generate g (script ++ repeat 0 (S n)) n <> None.
Proof.
  intros Hm Hc Hi. unfold generate. destruct script as [|w rest].
  - cbn [app repeat]. pose proof (draw_spec g (imax g) 0 n [] Hm) as D. destruct (draw g (imax g) 0 n []) as [a n2].
    destruct D as [D _]. apply generate_go_zeros; auto; lia.
  - cbn [app]. pose proof (draw_spec g (imax g) w n [] Hm) as D. destruct (draw g (imax g) w n []) as [a n2].
    destruct D as [D _]. apply generate_go_script; auto; lia.
Qed.

(* ---- bytes: []rune(charSet) only yields Unicode scalar values, WriteRune writes their UTF-8, and the result decodes back *)
Lemma decode_valid s : Forall is_byte s -> valid_scalar (fst (decode s)).
Proof.
  assert (RE : valid_scalar RuneError) by (unfold valid_scalar, RuneError; lia).
  intros Hb. unfold decode. destruct s as [|b0 t]; [exact RE|]. inversion Hb as [|? ? Hy0 Ht]; subst. unfold is_byte in Hy0.
  destruct (Z.ltb_spec b0 128); [cbn [fst]; unfold valid_scalar; lia|].
  unfold inr, cont.
  destruct (Z.leb_spec 194 b0); destruct (Z.leb_spec b0 223); cbn [andb].
  { destruct t as [|b1 t1]; [exact RE|]. inversion Ht as [|? ? Hy1 _]; subst. unfold is_byte in Hy1.
    destruct (Z.leb_spec 128 b1); destruct (Z.leb_spec b1 191); cbn [andb fst]; try exact RE.
    unfold valid_scalar. Z.div_mod_to_equations. lia. }
  all: destruct (Z.leb_spec 224 b0); destruct (Z.leb_spec b0 239); cbn [andb].
  all: try (destruct t as [|b1 [|b2 t2]]; try exact RE;
            inversion Ht as [|? ? Hy1 Ht1]; subst; inversion Ht1 as [|? ? Hy2 _]; subst; unfold is_byte in Hy1, Hy2;
            destruct (Z.eqb_spec b0 224); destruct (Z.eqb_spec b0 237);
            repeat match goal with |- context [Z.leb ?a ?b] => destruct (Z.leb_spec a b) end; cbn [andb fst]; try exact RE;
            unfold valid_scalar; Z.div_mod_to_equations; lia).
  all: destruct (Z.leb_spec 240 b0); destruct (Z.leb_spec b0 244); cbn [andb]; try exact RE.
  all: destruct t as [|b1 [|b2 [|b3 t3]]]; try exact RE;
       inversion Ht as [|? ? Hy1 Ht1]; subst; inversion Ht1 as [|? ? Hy2 Ht2]; subst; inversion Ht2 as [|? ? Hy3 _]; subst;
       unfold is_byte in Hy1, Hy2, Hy3;
       destruct (Z.eqb_spec b0 240); destruct (Z.eqb_spec b0 244);
       repeat match goal with |- context [Z.leb ?a ?b] => destruct (Z.leb_spec a b) end; cbn [andb fst]; try exact RE;
       unfold valid_scalar; Z.div_mod_to_equations; lia.
Qed.

Lemma skipn_bytes n s : Forall is_byte s -> Forall is_byte (skipn n s).
Proof. revert s. induction n as [|n IH]; intros s H; [exact H|]. destruct s; [constructor|]. inversion H; subst. cbn [skipn]. apply IH. assumption. Qed.
Lemma runes_valid cs : Forall is_byte cs -> Forall valid_scalar (Utf8.runes cs).
Proof.
  unfold Utf8.runes, decode_all. generalize (length cs) as fuel. intros fuel. revert cs.
  induction fuel as [|f IH]; intros cs Hb; cbn [decode_all_fuel map]; [constructor|].
  destruct cs as [|b t] eqn:E; [constructor|]. rewrite <- E in *. clear E b t.
  pose proof (decode_valid cs Hb) as V. destruct (decode cs) as [r w]. cbn [map fst] in *.
  constructor; [exact V|]. apply IH. apply skipn_bytes. exact Hb.
Qed.

Lemma encode_nonempty r : encode r <> [].
Proof. unfold encode. destruct (r <? 128); [discriminate|]. destruct (r <? 2048); [discriminate|]. destruct (r <? 65536); discriminate. Qed.
Lemma encode_rune_valid r : valid_scalar r -> encode_rune r = encode r.
Proof.
  intros V. unfold encode_rune, valid_scalar in *.
  destruct (Z.ltb_spec r 0); [lia|]. destruct (Z.ltb_spec 1114111 r); [lia|]. cbn [orb].
  destruct (Z.leb_spec 55296 r); destruct (Z.leb_spec r 57343); cbn [andb]; try reflexivity. lia.
Qed.

Lemma decode_all_encoded : forall rs fuel, Forall valid_scalar rs -> (length rs <= fuel)%nat ->
  map fst (decode_all_fuel fuel (flat_map encode_rune rs)) = rs.
Proof.
  induction rs as [|r rs IH]; intros fuel V Hf.
  - cbn [flat_map]. destruct fuel; reflexivity.
  - inversion V as [|? ? Vr Vrs]; subst. destruct fuel as [|f]; [cbn [length] in Hf; lia|].
    cbn [flat_map decode_all_fuel]. rewrite (encode_rune_valid r Vr).
    destruct (encode r ++ flat_map encode_rune rs) as [|b t] eqn:E.
    { apply app_eq_nil in E. destruct E as [E _]. destruct (encode_nonempty r E). }
    rewrite <- E. rewrite (decode_encode r _ Vr). cbn [map fst]. f_equal.
    assert (Hl : (1 <= length (encode r))%nat) by (pose proof (encode_nonempty r); destruct (encode r); [congruence|cbn [length]; lia]).
    rewrite Nat.max_l by lia. rewrite skipn_app, Nat.sub_diag, skipn_all. cbn [skipn app].
    apply IH; [exact Vrs|cbn [length] in Hf; lia].
Qed.
Lemma flat_map_length_ge rs : (length rs <= length (flat_map encode_rune rs))%nat.
Proof.
  induction rs as [|r rs IH]; [cbn; lia|]. cbn [flat_map length]. rewrite app_length.
  assert (1 <= length (encode_rune r))%nat.
  { unfold encode_rune. destruct (_ || _); [pose proof (encode_nonempty RuneError) as N|pose proof (encode_nonempty r) as N];
    match goal with |- (1 <= length ?l)%nat => destruct l; [congruence|cbn [length]; lia] end. }
  lia.
Qed.
Theorem runes_of_written rs : Forall valid_scalar rs -> Utf8.runes (runes_to_bytes rs) = rs.
Proof. intros V. unfold Utf8.runes, decode_all, runes_to_bytes. apply decode_all_encoded; [exact V|apply flat_map_length_ge]. Qed.

(* ---- the property at byte level, and the tie to the judge of the check:
        for every non-empty character set (any bytes, multi-byte or invalid UTF-8 included), every n >= 0, every
        scripted word list: the model's output has exactly n runes, all from the set. *)
Theorem str_generate_shape cs n script :
  Forall is_byte cs -> Utf8.runes cs <> [] -> Z.of_nat (length (Utf8.runes cs)) < 2 ^ 63 -> 0 <= n ->
  exists g rs used,
    new_sgen cs = Some g /\ generate g (script ++ repeat 0 (S (Z.to_nat n))) (Z.to_nat n) = Some (rs, used) /\
    m_str n cs script = put_list (runes_to_bytes rs) ++ [Z.of_nat used] /\
    Utf8.runes (runes_to_bytes rs) = rs /\ Z.of_nat (length rs) = n /\ Forall (fun c => In c (Utf8.runes cs)) rs.
Proof.
  intros Hb Hne Hlen Hn. destruct (new_sgen_total cs Hne Hlen) as (g & Eg & Hi).
  destruct (new_sgen_spec cs g Eg) as (Ec & Hc & Hm & _).
  pose proof (generate_fuel_suffices g script (Z.to_nat n) Hm Hc Hi) as T.
  destruct (generate g _ (Z.to_nat n)) as [[rs used]|] eqn:G; [|congruence].
  destruct (generate_shape g Hm _ _ _ _ G) as [L F]. rewrite Ec in F.
  exists g, rs, used. split; [exact Eg|]. split; [exact G|]. split.
  - unfold m_str. destruct (Z.ltb_spec n 0); [lia|]. rewrite Eg, G. reflexivity.
  - split; [|split; [lia|exact F]]. apply runes_of_written.
    pose proof (runes_valid cs Hb) as V. rewrite Forall_forall in *. intros r Hr. apply V. apply F. exact Hr.
Qed.

Theorem str_meets_spec cs n script :
  Forall is_byte cs -> Z.of_nat (length (Utf8.runes cs)) < 2 ^ 63 -> ok_str n cs (m_str n cs script) = true.
Proof.
  intros Hb Hlen. unfold ok_str. destruct (Z.ltb_spec n 0); [reflexivity|]. cbn [orb].
  destruct (Utf8.runes cs) as [|c0 cr] eqn:Er; [reflexivity|].
  destruct (str_generate_shape cs n script Hb ltac:(rewrite Er; discriminate) ltac:(rewrite Er; exact Hlen) ltac:(lia))
    as (g & rs & used & _ & _ & -> & R & L & F).
  rewrite get_put_list. rewrite list_eqb_refl. cbn [andb].
  unfold Utf8.rune_count. replace (length (decode_all (runes_to_bytes rs))) with (length (Utf8.runes (runes_to_bytes rs)))
    by (unfold Utf8.runes; apply map_length).
  rewrite R, L, Z.eqb_refl. cbn [andb]. apply forallb_forall. intros c Hc. apply existsb_exists.
  exists c. split; [|apply Z.eqb_refl]. rewrite Er in F. rewrite Forall_forall in F. apply F. exact Hc.
Qed.
