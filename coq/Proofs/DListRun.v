(* C13 — DList: the model refines the sequence specification for every operation sequence the specification
   defines, from zero-value or initialised lists; R (dlist_inv) holds in every reachable state. *)
From Coq Require Import List ZArith Arith Lia Bool.
From V Require Import Model.DList Proofs.DListChains Proofs.DListPrims Proofs.DListRel Proofs.DListStep.
Import ListNotations.

Lemma R_heap0 z0 z1 : R (heap0 z0 z1) dspec0.
Proof.
  constructor; cbn [heap0 dspec0 nxt prv own val llen fresh sval sfresh].
  - intros L HL. destruct (lt2_cases L HL) as [-> | ->]; cbn [seq_of dspec0 s0 s1 Nat.eqb].
    + destruct z0; [left|right]; cbn [links heap0 nxt prv root_ptr Nat.eqb]; auto.
    + destruct z1; [left|right]; cbn [links heap0 nxt prv root_ptr Nat.eqb]; auto.
  - intros L HL. destruct (lt2_cases L HL) as [-> | ->]; constructor.
  - intros x [].
  - intros L x HL Hin. destruct (lt2_cases L HL) as [-> | ->]; destruct Hin.
  - intros L HL. destruct (lt2_cases L HL) as [-> | ->]; reflexivity.
  - intros x Hx. reflexivity.
  - intros x Hx _. destruct x as [|[|x]]; [lia|lia|]. cbn [Nat.eqb]. auto.
  - reflexivity.
  - reflexivity.
  - lia.
Qed.

Lemma run_refines : forall ops h s acc outs, R h s -> srun_acc s ops acc = Some outs -> run_acc h ops acc = ROut outs.
Proof.
  induction ops as [|o ops IH]; intros h s acc outs HR Hs; cbn [srun_acc run_acc] in *.
  - inversion Hs. reflexivity.
  - destruct (sstep s o) as [[s' r]|] eqn:Es; [|discriminate].
    destruct (step_refines h s o s' r HR Es) as (h' & E & HR'). rewrite E. eapply IH; eauto.
Qed.

(* for every operation sequence inside the specification (known handles; Init only of an empty list; node insertion
   only of nodes that are in no list), from every combination of zero-value / initialised lists: the model neither
   panics nor runs out of fuel and returns exactly the specification's results *)
Theorem dlist_refines_seq : forall z0 z1 ops outs, dspec_case ops = Some outs -> dlist_case z0 z1 ops = ROut outs.
Proof. intros z0 z1 ops outs H. unfold dlist_case. eapply run_refines; [apply R_heap0|exact H]. Qed.

Lemma exec_refines : forall ops h s s', R h s -> sexec s ops = Some s' -> exists h', dexec h ops = Some h' /\ R h' s'.
Proof.
  induction ops as [|o ops IH]; intros h s s' HR Hs; cbn [sexec dexec] in *.
  - inversion Hs; subst. eauto.
  - destruct (sstep s o) as [[s1 r]|] eqn:Es; [|discriminate].
    destruct (step_refines h s o s1 r HR Es) as (h1 & E & HR1). rewrite E. eapply IH; eauto.
Qed.

(* the heap invariant R (rings through the sentinels = the sequences, prev inverse, owner = membership, removed and
   never-inserted nodes fully cleared, len = length) holds in every reachable state *)
Theorem dlist_inv : forall z0 z1 ops s', sexec dspec0 ops = Some s' ->
  exists h', dexec (heap0 z0 z1) ops = Some h' /\ R h' s'.
Proof. intros z0 z1 ops s' H. eapply exec_refines; [apply R_heap0|exact H]. Qed.

(* what R says about the pointers, spelled out for a member e of list L with neighbours *)
Theorem dlist_inv_pointers : forall h s L A e B, R h s -> L < 2 -> seq_of s L = A ++ e :: B ->
  nxt h e = Some (hd L B) /\ prv h e = Some (last A L) /\ own h e = Some L /\ 2 <= e < fresh h.
Proof. exact neighbours. Qed.
