(* C05 — FuzzySearch of the executable model never panics and returns only inserted patterns:
   the automaton walk ends in the longest suffix of the key's rune word that is a trie word; for that node and every node
   on its fail chain the key's tail of `size` bytes is the node's byte string, and the DFS appends the byte strings of
   end-marked nodes below it. *)
From Coq Require Import List ZArith Lia Bool Arith.
From V Require Import Lib.Utf8 Model.Trie Proofs.TrieTable Proofs.TrieInsert Proofs.TrieRunes Proofs.TrieAbs Proofs.TrieBuild Proofs.TrieFind
  Proofs.TrieOcc Proofs.TriePrefix Proofs.TrieTop.
Import ListNotations.

Module M := V.Model.Trie.
Module A := V.Proofs.TrieAbs.

Section Fuzzy.
Variable ps : list (list Z).
Variable T : trie.
Hypothesis Hps : Forall is_bytes ps.
Notation T0 := (inserts ps).
Hypothesis HS : SE T0 T.
Hypothesis HF : FailOK T0 T.
Hypothesis HL : length T = length T0.
Notation inT0 := (inT0 T0).
Notation kids0 := (kids0 T0).
Notation lsuf := (A.lsuf inT0).

Let HI : INS ps T0 := INS_inserts ps.
Let HW : WF T0 := ins_wf _ _ HI.
Let HE : forall w, is_end T0 w = true -> w <> [] := INS_end_nonroot ps T0 HI.
Let inT_nil := inT_nil T0 HW.
Let kids_spec := kids_spec T0 HW.

Definition good_out (y : list Z) : Prop := In y ps /\ y <> [].

Lemma end_out x : is_end T0 x = true -> good_out (wbytes x).
Proof.
  intros H. apply (ins_end _ _ HI) in H. destruct H as (p & Hp & Hne & <-).
  rewrite wbytes_runes_of by (rewrite Forall_forall in Hps; apply Hps; exact Hp). split; assumption.
Qed.

(* the DFS loop, membership only *)
Lemma dfs_mem : forall fuel stack buf ret,
  StackOK stack buf -> (forall f, In f stack -> inT0 (fnode f) = true) -> phi T0 stack < fuel ->
  exists buf' ret', M.dfs fuel T stack buf ret = Ok (buf', ret') /\
    (forall y, In y ret' -> In y ret \/ exists x, is_end T0 x = true /\ y = wbytes x).
Proof.
  induction fuel as [|k IH]; intros stack buf ret HB HT Hfu; [lia|].
  cbn [M.dfs]. destruct stack as [|cur rest].
  - exists buf, ret. split; [reflexivity|]. auto.
  - cbn [StackOK] in HB. destruct HB as ((p & E1 & E2 & E3 & E4) & HB2 & HB3).
    destruct cur as [r d w]. cbn [fr fdepth fnode] in *. subst w. subst d.
    assert (Hw : inT0 (p ++ [r]) = true) by (apply (HT (mkF r (Z.of_nat (length (wbytes p))) (p ++ [r]))); left; reflexivity).
    destruct (Z.leb_spec 0 (Z.of_nat (length (wbytes p)))); [|lia].
    destruct (Z.leb_spec (Z.of_nat (length (wbytes p))) (Z.of_nat (length buf))); [|lia]. cbn [andb].
    rewrite Nat2Z.id, E3. rewrite <- wbytes_snoc. set (w := p ++ [r]) in *. set (buf' := wbytes w).
    rewrite (SE_end T0 T w HS).
    set (ret1 := if is_end T0 w then buf' :: ret else ret).
    assert (Hlen : length (wbytes p) <= length buf') by (unfold buf', w; rewrite wbytes_snoc, app_length; lia).
    destruct (IH (push_kids T w (Z.of_nat (length buf')) rest) buf' ret1) as (b2 & r2 & E & M2).
    + unfold push_kids. rewrite (SE_kids T0 T w HS).
      assert (Hrest : StackOK rest buf').
      { apply (StackOK_buf T0 T HL rest buf buf' (length (wbytes p))); [exact HB3|exact HB2| |exact Hlen].
        unfold buf', w. rewrite wbytes_snoc, firstn_app, Nat.sub_diag, firstn_all. cbn [firstn]. rewrite app_nil_r. symmetry. exact E3. }
      assert (G : forall l, StackOK (rev (map (fun c => mkF c (Z.of_nat (length buf')) (w ++ [c])) l) ++ rest) buf').
      { induction l as [|c l IHl] using rev_ind; [exact Hrest|]. rewrite map_app, rev_app_distr. cbn [map rev app StackOK].
        split; [|split; [|exact IHl]].
        - exists w. cbn [fnode fr fdepth]. split; [reflexivity|]. split; [reflexivity|]. split; [apply firstn_all|unfold buf'; lia].
        - intros g Hg. cbn [fdepth]. apply in_app_or in Hg. destruct Hg as [Hg|Hg].
          + apply in_rev in Hg. apply in_map_iff in Hg. destruct Hg as (c' & <- & _). cbn [fdepth]. lia.
          + specialize (HB2 g Hg). lia. }
      apply G.
    + intros f Hf'. unfold push_kids in Hf'. rewrite (SE_kids T0 T w HS) in Hf'. apply in_app_or in Hf'. destruct Hf' as [Hf'|Hf'].
      * apply in_rev in Hf'. apply in_map_iff in Hf'. destruct Hf' as (c & <- & Hc). cbn [fnode]. apply kids_spec. exact Hc.
      * apply HT. right. exact Hf'.
    + rewrite (phi_push T0 T HS). unfold phi in Hfu. cbn [map fnode] in Hfu. rewrite ?ls_cons, ?ls_nil in Hfu. fold (phi T0 rest) in Hfu.
      pose proof (cnt_kids T0 T HW HL w Hw). lia.
    + exists b2, r2. split; [exact E|]. intros y Hy. apply M2 in Hy. destruct Hy as [Hy|Hy]; [|right; exact Hy].
      unfold ret1 in Hy. destruct (is_end T0 w) eqn:Ee; [destruct Hy as [<-|Hy]|]; auto.
      right. exists w. auto.
Qed.

(* DFS below one node nd with the buffer holding the node's bytes *)
Lemma dfs_below nd ret : inT0 nd = true ->
  exists buf' ret', M.dfs (S (length T)) T (push_kids T nd (Z.of_nat (length (wbytes nd))) []) (wbytes nd) ret = Ok (buf', ret') /\
    (forall y, In y ret' -> In y ret \/ exists x, is_end T0 x = true /\ y = wbytes x).
Proof.
  intros Hn. apply dfs_mem.
  - unfold push_kids. rewrite (SE_kids T0 T nd HS).
    assert (G : forall l, StackOK (rev (map (fun c => mkF c (Z.of_nat (length (wbytes nd))) (nd ++ [c])) l) ++ []) (wbytes nd)).
    { induction l as [|c l IHl] using rev_ind; [exact I|]. rewrite map_app, rev_app_distr. cbn [map rev app StackOK].
      split; [|split; [|exact IHl]].
      - exists nd. cbn [fnode fr fdepth]. split; [reflexivity|]. split; [reflexivity|]. split; [apply firstn_all|lia].
      - intros g Hg. rewrite app_nil_r in Hg. apply in_rev in Hg. apply in_map_iff in Hg. destruct Hg as (c' & <- & _). cbn [fdepth]. lia. }
    apply G.
  - intros f Hf'. unfold push_kids in Hf'. rewrite (SE_kids T0 T nd HS), app_nil_r in Hf'.
    apply in_rev in Hf'. apply in_map_iff in Hf'. destruct Hf' as (c & <- & Hc). cbn [fnode]. apply kids_spec. exact Hc.
  - rewrite (phi_push T0 T HS). change (phi T0 []) with 0. pose proof (cnt_kids T0 T HW HL nd Hn) as H1.
    assert (cnt (K0 T0) nd <= length T0) by (unfold cnt, K0; rewrite <- (map_length fst T0); apply filter_len_le).
    lia.
Qed.

(* the key's tail of size(nd) bytes is the byte string of nd, for every suffix nd of the key's rune word that is a node *)
Lemma tail_slice key nd : is_bytes key -> inT0 nd = true -> A.is_suffix nd (runes_of key) ->
  slice key (Z.of_nat (length key) - size_of T0 nd) (Z.of_nat (length key)) = Some (wbytes nd).
Proof.
  intros Hb Hn (q & Eq). rewrite (ins_size _ _ HI (tok_ps ps Hps) nd Hn).
  pose proof (wbytes_runes_of key Hb) as Hw. rewrite Eq, wbytes_app in Hw.
  assert (Hlen : length key = length (wbytes q) + length (wbytes nd)) by (rewrite <- Hw, app_length; reflexivity).
  unfold slice, SZ.
  destruct (Z.leb_spec 0 (Z.of_nat (length key) - Z.of_nat (length (wbytes nd)))); [|lia].
  destruct (Z.leb_spec (Z.of_nat (length key) - Z.of_nat (length (wbytes nd))) (Z.of_nat (length key))); [|lia].
  rewrite Z.leb_refl. cbn [andb]. f_equal.
  replace (Z.to_nat (Z.of_nat (length key) - (Z.of_nat (length key) - Z.of_nat (length (wbytes nd))))) with (length (wbytes nd)) by lia.
  replace (Z.to_nat (Z.of_nat (length key) - Z.of_nat (length (wbytes nd)))) with (length (wbytes q)) by lia.
  rewrite <- Hw. rewrite skipn_app, skipn_all, Nat.sub_diag. cbn [skipn app]. apply firstn_all.
Qed.

Lemma suffix_trans (a b c : list Z) : A.is_suffix a b -> A.is_suffix b c -> A.is_suffix a c.
Proof. intros (p & ->) (q & ->). exists (q ++ p). rewrite app_assoc. reflexivity. Qed.

Lemma fuzzy_loop_sound key : is_bytes key -> forall fuel nd ret,
  inT0 nd = true -> A.is_suffix nd (runes_of key) -> length nd < fuel -> Forall good_out ret ->
  exists l, M.fuzzy_loop fuel T key nd ret = Ok l /\ Forall good_out l.
Proof.
  intros Hb. induction fuel as [|k IH]; intros nd ret Hn Hsuf Hf Hret; [lia|]. cbn [M.fuzzy_loop].
  destruct nd as [|a t].
  - exists (rev ret). split; [reflexivity|]. rewrite Forall_forall in Hret |- *. intros y Hy. apply Hret. apply in_rev. exact Hy.
  - pose proof (HS (a :: t)) as Hse. unfold TrieBuild.inT0, inT in Hn.
    destruct (get T (a :: t)) as [n|] eqn:Eg; [|destruct (get T0 (a :: t)); [discriminate|discriminate]].
    assert (Hsz : nsize n = size_of T0 (a :: t)) by (rewrite <- (SE_size T0 T (a :: t) HS); unfold size_of; rewrite Eg; reflexivity).
    assert (Hend : isEnd n = is_end T0 (a :: t)) by (rewrite <- (SE_end T0 T (a :: t) HS); unfold is_end; rewrite Eg; reflexivity).
    assert (Hfl : fail n = Some (A.lps inT0 (a :: t))).
    { assert (Hn' : inT0 (a :: t) = true) by (unfold TrieBuild.inT0, inT; destruct (get T0 (a :: t)); [reflexivity|discriminate]).
      pose proof (HF (a :: t) Hn' ltac:(discriminate)) as H. unfold fail_of in H. rewrite Eg in H. exact H. }
    assert (Hn' : inT0 (a :: t) = true) by (unfold TrieBuild.inT0, inT; destruct (get T0 (a :: t)); [reflexivity|discriminate]).
    rewrite Hsz, (tail_slice key (a :: t) Hb Hn' Hsuf).
    set (ret1 := if isEnd n then wbytes (a :: t) :: ret else ret).
    destruct (dfs_below (a :: t) ret1 Hn') as (b2 & r2 & E & M2). rewrite E, Hfl.
    apply IH.
    + apply A.lps_inT; [exact inT_nil|discriminate].
    + eapply suffix_trans; [|exact Hsuf]. apply (A.lps_spec inT0 inT_nil (a :: t)). discriminate.
    + pose proof (A.lps_shorter inT0 a t). cbn [length] in Hf. lia.
    + rewrite Forall_forall in Hret |- *. intros y Hy. apply M2 in Hy. destruct Hy as [Hy|(x & He & ->)]; [|apply end_out; exact He].
      unfold ret1 in Hy. rewrite Hend in Hy. destruct (is_end T0 (a :: t)) eqn:Ee; [destruct Hy as [<-|Hy]|]; auto.
      apply end_out. exact Ee.
Qed.

(* the walk *)
Lemma lsuf_suffix x : A.is_suffix (lsuf x) x.
Proof.
  unfold A.lsuf. destruct (A.best_inT_some inT0 inT_nil x) as [v Hv]. rewrite Hv.
  revert v Hv. induction x as [|b t IH]; cbn [A.best]; intros v H.
  - rewrite inT_nil in H. inversion H; subst. exists []. reflexivity.
  - destruct (inT0 (b :: t)) eqn:E; [inversion H; subst; exists []; reflexivity|].
    destruct (IH v H) as (p & Ep). exists (b :: p). cbn [app]. rewrite Ep at 1. reflexivity.
Qed.

Lemma fuzzy_walk_sim : forall toks x, exists o, M.fuzzy_walk T (lsuf x) toks = Ok o /\
  (forall nd, o = Some nd -> nd = lsuf (x ++ map fst toks) /\ (toks <> [] -> nd <> [])).
Proof.
  induction toks as [|[v w] rest IH]; intros x; cbn [M.fuzzy_walk map fst].
  - exists (Some (lsuf x)). split; [reflexivity|]. intros nd E. inversion E; subst. rewrite app_nil_r. split; [reflexivity|congruence].
  - destruct (step_sim T0 T HW HS HF x v) as (n & idx & E & H1 & H2). rewrite E.
    destruct (0 <=? idx)%Z eqn:Ei.
    + rewrite (H1 eq_refl). destruct (IH (x ++ [v])) as (o & Eo & Ho). exists o. split; [exact Eo|].
      intros nd Hnd. destruct (Ho nd Hnd) as [H3 H4]. rewrite <- app_assoc in H3. cbn [app] in H3. split; [exact H3|].
      intros _. destruct rest as [|tk rest'].
      * rewrite H3. cbn [map]. rewrite <- (H1 eq_refl). unfold child_at. destruct n; discriminate.
      * apply H4. discriminate.
    + exists None. split; [reflexivity|]. intros nd Hnd. discriminate.
Qed.

Theorem fuzzy_sound key : is_bytes key -> built ps T ->
  exists l, M.fuzzy_search T key = Ok l /\ Forall good_out l.
Proof.
  intros Hb Hbuilt. unfold M.fuzzy_search. destruct key as [|b0 key'] eqn:Ek.
  - destruct (prefix_search_correct ps [] T Hps Hb Hbuilt) as (l & El & _ & Hl). exists l. split; [exact El|].
    rewrite Forall_forall. intros y Hy. apply Hl in Hy. split; tauto.
  - rewrite <- Ek in *. clear Ek.
    assert (Hl0 : A.lsuf inT0 [] = []) by (unfold A.lsuf; cbn [A.best]; rewrite inT_nil; reflexivity).
    destruct (fuzzy_walk_sim (tokens key) []) as (o & Eo & Ho). rewrite Hl0 in Eo. rewrite Eo.
    destruct o as [nd|]; [|exists []; split; [reflexivity|constructor]].
    destruct (Ho nd eq_refl) as [Hnd Hne]. cbn [app] in Hnd. fold (runes_of key) in Hnd.
    assert (Hn : inT0 nd = true) by (rewrite Hnd; apply (lsuf_inT T0 HW)).
    assert (Hsuf : A.is_suffix nd (runes_of key)) by (rewrite Hnd; apply lsuf_suffix).
    pose proof (HS nd) as Hse. unfold TrieBuild.inT0, inT in Hn.
    destruct (get T nd) as [n|] eqn:Eg; [|destruct (get T0 nd); discriminate].
    assert (Hn' : inT0 nd = true) by (unfold TrieBuild.inT0, inT; destruct (get T0 nd); [reflexivity|discriminate]).
    assert (Hsz : nsize n = size_of T0 nd) by (rewrite <- (SE_size T0 T nd HS); unfold size_of; rewrite Eg; reflexivity).
    assert (Hend : isEnd n = is_end T0 nd) by (rewrite <- (SE_end T0 T nd HS); unfold is_end; rewrite Eg; reflexivity).
    destruct ((match kids n with [] => true | _ => false end) && (match fail n with Some [] => true | _ => false end)).
    + destruct (isEnd n) eqn:Ee.
      * rewrite Hsz, (tail_slice key nd Hb Hn' Hsuf). exists [wbytes nd]. split; [reflexivity|]. constructor; [|constructor].
        apply end_out. symmetry. exact Hend.
      * exists []. split; [reflexivity|constructor].
    + apply (fuzzy_loop_sound key Hb); auto.
Qed.
End Fuzzy.

Theorem fuzzy_search_sound ps key T : Forall is_bytes ps -> is_bytes key -> built ps T ->
  exists l, M.fuzzy_search T key = Ok l /\ forall y, In y l -> In y ps /\ y <> [].
Proof.
  intros Hps Hb E. destruct (built_facts ps T E) as [HS HF].
  destruct (fuzzy_sound ps T Hps HS HF (built_length ps T E) key Hb E) as (l & El & Hl).
  exists l. split; [exact El|]. rewrite Forall_forall in Hl. exact Hl.
Qed.
