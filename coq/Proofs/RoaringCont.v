(* C03: the two container kinds as sets of 16-bit values.  [cset c] is the strictly ascending member list of a container;
   Add / Remove / Contains of either kind are s_insert / s_delete / s_mem on it, the conversion at the threshold included
   (the hand-written cardinality conv_len is the true one). *)
From Coq Require Import List ZArith NArith Lia Bool Arith ZifyN ZifyNat ZifyBool Sorted.
From V Require Import Lib.Enc Gen.Roaring Model.Bits Model.Roaring.
From V Require Import Proofs.BitsBasic Proofs.BitsBulk Proofs.BitsIter Proofs.BitsRefine Proofs.RoaringArr.
Import ListNotations.
Local Open Scope N_scope.
Ltac Zify.zify_post_hook ::= Z.div_mod_to_equations.

Definition cset (c : container) : list N := match c with Arr v => v | Bmp b => mlist 0 (words b) end.

(* well-formed container: members ascending and 16-bit; an array holds at most arr_max values; a bitmap has bmp_words words
   and its cache is its cardinality *)
Definition cwf (c : container) : Prop :=
  StronglySorted N.lt (cset c) /\ Forall (fun v => v < 65536) (cset c) /\
  match c with
  | Arr v => lenN v <= arr_max
  | Bmp b => length (words b) = N.to_nat bmp_words /\ cached b = Z.of_nat (len (words b))
  end.

Lemma c_len_spec c : cwf c -> c_len c = Z.of_nat (length (cset c)).
Proof. intros (_ & _ & H). destruct c as [v|b]; cbn [c_len cset]; [reflexivity|]. destruct H as [_ H]. rewrite H, mlist_length. reflexivity. Qed.

(* ---------------------------------------------------------------- lengths of s_insert / s_delete *)
Lemma s_insert_length x l : StronglySorted N.lt l -> length (s_insert x l) = if s_mem x l then length l else S (length l).
Proof.
  unfold s_mem. induction l as [|a l IH]; intros S; cbn [s_insert existsb length]; [reflexivity|].
  inversion S as [|? ? S' A]; subst. rewrite Forall_forall in A.
  destruct (N.ltb_spec x a) as [Hlt|Hge].
  - destruct (N.eqb_spec x a); [lia|]. cbn [orb length].
    destruct (existsb (N.eqb x) l) eqn:E; [|reflexivity].
    apply existsb_exists in E. destruct E as (y & Hy & E). apply N.eqb_eq in E. subst y. specialize (A _ Hy). lia.
  - destruct (N.eqb_spec x a) as [->|Hne]; cbn [orb length]; [reflexivity|]. rewrite IH by auto.
    destruct (existsb (N.eqb x) l); reflexivity.
Qed.
Lemma s_delete_length x l : StronglySorted N.lt l -> (length (s_delete x l) + (if s_mem x l then 1 else 0))%nat = length l.
Proof.
  unfold s_mem. induction l as [|a l IH]; intros S; cbn [s_delete existsb length]; [reflexivity|].
  inversion S as [|? ? S' A]; subst.
  destruct (N.eqb_spec x a) as [->|Hne]; cbn [orb length]; [lia|]. specialize (IH S'). destruct (existsb (N.eqb x) l); lia.
Qed.
Lemma s_insert_bound x l (B : N) : x < B -> Forall (fun v => v < B) l -> Forall (fun v => v < B) (s_insert x l).
Proof. intros Hx H. rewrite Forall_forall in *. intros y Hy. apply s_insert_In in Hy. destruct Hy as [->|Hy]; auto. Qed.
Lemma s_delete_bound x l (B : N) : StronglySorted N.lt l -> Forall (fun v => v < B) l -> Forall (fun v => v < B) (s_delete x l).
Proof. intros S H. rewrite Forall_forall in *. intros y Hy. apply s_delete_In in Hy; auto. apply H. tauto. Qed.

(* ---------------------------------------------------------------- the private Bitmap.add and the conversion loop *)
Lemma set_bit_length set n : length (set_bit set n) = length set.
Proof. unfold set_bit. apply upd_length. Qed.
Lemma set_bit_mem set n m : (widx n < length set)%nat -> mem (set_bit set n) m = (N.eqb m n) || mem set m.
Proof.
  intros Hi. unfold set_bit, mem. rewrite nth_upd by exact Hi. rewrite widx_div, bidx_mod in *.
  set (i := N.to_nat (n / 64)) in *.
  destruct (Nat.eqb_spec (N.to_nat (m / 64)) i) as [E|E].
  - change (N.lor (nth i set 0) (mask (n mod 64))) with (N.setbit (nth i set 0) (n mod 64)).
    rewrite N.setbit_eqb. rewrite <- E.
    destruct (N.eqb_spec (n mod 64) (m mod 64)) as [E2|E2].
    + assert (m = n) by (apply same_word_bit; unfold i in E; auto). subst. rewrite N.eqb_refl. reflexivity.
    + destruct (N.eqb_spec m n) as [->|_]; [congruence|]. reflexivity.
  - destruct (N.eqb_spec m n) as [->|_]; [unfold i in E; congruence|]. reflexivity.
Qed.
Lemma fold_set_bit_length : forall l set, length (fold_left set_bit l set) = length set.
Proof. induction l as [|a l IH]; intros set; cbn [fold_left]; [reflexivity|]. rewrite IH. apply set_bit_length. Qed.
Lemma fold_set_bit_mem : forall l set m, Forall (fun n => (widx n < length set)%nat) l ->
  mem (fold_left set_bit l set) m = existsb (N.eqb m) l || mem set m.
Proof.
  induction l as [|a l IH]; intros set m H; cbn [fold_left existsb]; [reflexivity|].
  inversion H as [|? ? Ha Hl]; subst. rewrite IH.
  - rewrite set_bit_mem by exact Ha. destruct (N.eqb m a), (existsb (N.eqb m) l), (mem set m); reflexivity.
  - eapply Forall_impl; [|exact Hl]. cbv beta. intros n Hn. rewrite set_bit_length. exact Hn.
Qed.
Lemma mem_zero k m : mem (repeat 0 k) m = false.
Proof. unfold mem. rewrite nth_repeat. apply N.bits_0. Qed.
Lemma widx_16bit n : n < 65536 -> (widx n < N.to_nat bmp_words)%nat.
Proof. intros H. rewrite widx_div. unfold bmp_words. lia. Qed.

(* members of a bitmap with bmp_words words are 16-bit values *)
Lemma mlist_bound set : length set = N.to_nat bmp_words -> Forall (fun v => v < 65536) (mlist 0 set).
Proof.
  intros Hl. apply Forall_forall. intros p Hp. apply mlist_In in Hp.
  destruct (N.ltb_spec p 65536) as [|Hge]; [assumption|].
  rewrite (mem_beyond set (length set) 0 p) in Hp; [discriminate|lia|]. rewrite Hl. unfold bmp_words. lia.
Qed.

(* the conversion: for ANY arr_max distinct ascending 16-bit values and a new x, the bitmap holds exactly them and x,
   has bmp_words words, and the hand-written cache conv_len is its cardinality *)
Theorem convert_spec v buf x : StronglySorted N.lt v -> Forall (fun y => y < 65536) v -> x < 65536 ->
  lenN v = arr_max -> length buf = N.to_nat buf_len -> s_mem x v = false ->
  let (b, buf') := convert v buf x in
  mlist 0 (words b) = s_insert x v /\ length (words b) = N.to_nat bmp_words /\ cached b = Z.of_nat (len (words b)) /\
  length buf' = N.to_nat buf_len.
Proof.
  intros S B Hx Hl Hb Hm. unfold convert. cbn [words cached].
  rewrite lenN_length in Hl.
  assert (Hlen : length v = length buf) by (rewrite Hb; unfold arr_max, buf_len in *; lia).
  assert (Hbuf : firstn (length buf) v ++ skipn (length v) buf = v).
  { rewrite <- Hlen, firstn_all, Hlen, skipn_all, app_nil_r. reflexivity. }
  rewrite Hbuf.
  assert (Hmem : forall m, mem (fold_left set_bit (v ++ [x]) (repeat 0 (N.to_nat bmp_words))) m = (N.eqb m x) || s_mem m v).
  { intros m. rewrite fold_set_bit_mem.
    - rewrite mem_zero, orb_false_r, existsb_app. cbn [existsb]. rewrite orb_false_r. unfold s_mem. apply orb_comm.
    - rewrite repeat_length. apply Forall_app. split; [|constructor; [apply widx_16bit, Hx|constructor]].
      eapply Forall_impl; [|exact B]. cbv beta. intros; apply widx_16bit; assumption. }
  assert (E : mlist 0 (fold_left set_bit (v ++ [x]) (repeat 0 (N.to_nat bmp_words))) = s_insert x v).
  { apply sorted_ext; [apply mlist_sorted0|apply s_insert_sorted, S|].
    intros p. rewrite mlist_In, Hmem, s_insert_In, orb_true_iff, N.eqb_eq, s_mem_In. reflexivity. }
  split; [exact E|]. split; [rewrite fold_set_bit_length, repeat_length; reflexivity|]. split; [|rewrite Hlen; exact Hb].
  rewrite <- (mlist_length _ 0), E, s_insert_length, Hm by exact S.
  replace (length v) with (N.to_nat arr_max) by lia. reflexivity.
Qed.

(* ---------------------------------------------------------------- container operations *)
Theorem c_contains_spec c x : cwf c -> c_contains c x = s_mem x (cset c).
Proof.
  intros (S & _ & _). destruct c as [v|b]; cbn [c_contains cset] in *.
  - apply a_contains_spec, S.
  - rewrite contains_mem, s_mem_mlist. reflexivity.
Qed.

Theorem c_remove_spec c x : cwf c ->
  let (c', ok) := c_remove c x in cwf c' /\ cset c' = s_delete x (cset c) /\ ok = s_mem x (cset c).
Proof.
  intros (S & B & W). destruct c as [v|b]; cbn [c_remove cset] in *.
  - rewrite a_remove_spec by exact S. split; [|split; reflexivity].
    split; [apply s_delete_sorted, S|]. split; [apply s_delete_bound; auto|]. cbn [cset].
    pose proof (s_delete_length x v S). rewrite !lenN_length in *. lia.
  - destruct W as [Wl Wc].
    assert (HR : R b {| elems := mlist 0 (words b); scap := cap (words b) |}) by (repeat split; auto).
    destruct (R_remove b _ x HR) as [(E & C & _) F]. cbn [elems scap] in *.
    pose proof (remove_length (words b) x) as Hn. unfold b_remove in *.
    destruct (remove (words b) x) as [w ch]. cbn [fst snd words cached] in *.
    split; [|split; [symmetry; exact E|exact F]].
    split; [cbn [cset words]; apply mlist_sorted0|]. split; [cbn [cset words]; apply mlist_bound; lia|].
    cbn [words cached]. split; [lia|exact C].
Qed.

Theorem c_add_spec c x buf : cwf c -> x < 65536 -> length buf = N.to_nat buf_len ->
  let '(c', ok, buf') := c_add c x buf in
  cwf c' /\ cset c' = s_insert x (cset c) /\ ok = negb (s_mem x (cset c)) /\ length buf' = N.to_nat buf_len.
Proof.
  intros (S & B & W) Hx Hb. destruct c as [v|b]; cbn [c_add cset] in *.
  - cbv zeta. rewrite a_found_spec by exact S. destruct (s_mem x v) eqn:Em.
    + split; [repeat split; auto|]. split; [|split; auto].
      symmetry. apply sorted_ext; auto using s_insert_sorted. intros p. rewrite s_insert_In. split; [intros [->|H]; auto; apply s_mem_In, Em|auto].
    + destruct (N.ltb_spec (lenN v) arr_max) as [Hlt|Hge].
      * destruct (a_insert_spec v x S) as [E|E]; [|congruence]. rewrite E.
        split; [|split; auto]. split; [apply s_insert_sorted, S|]. split; [apply s_insert_bound; auto|]. cbn [cset].
        pose proof (s_insert_length x v S) as L. rewrite Em in L. rewrite !lenN_length in *. lia.
      * pose proof (convert_spec v buf x S B Hx ltac:(lia) Hb Em) as C. destruct (convert v buf x) as [b buf'].
        destruct C as (E & L & C & Lb). split; [|split; auto].
        split; [cbn [cset]; rewrite E; apply s_insert_sorted, S|]. split; [cbn [cset]; apply mlist_bound, L|]. split; assumption.
  - destruct W as [Wl Wc].
    assert (HR : R b {| elems := mlist 0 (words b); scap := cap (words b) |}) by (repeat split; auto).
    destruct (R_add b _ x HR) as [(E & C & _) F]. cbn [elems scap] in *.
    pose proof (add_length (words b) x) as Hn. pose proof (widx_16bit x Hx) as Hw. unfold b_add in *.
    destruct (add (words b) x) as [w ch]. cbn [fst snd words cached] in *.
    split; [|split; [symmetry; exact E|split; [exact F|exact Hb]]].
    split; [cbn [cset words]; apply mlist_sorted0|]. split; [cbn [cset words]; apply mlist_bound; lia|].
    cbn [words cached]. split; [lia|exact C].
Qed.
Print Assumptions c_add_spec.
Print Assumptions convert_spec.
