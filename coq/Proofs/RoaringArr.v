(* C03: the array container (sorted uint16 slice): binary search = lower bound; Contains / insert / delete
   are membership / sorted insertion / deletion on strictly ascending lists (s_mem / s_insert / s_delete). *)
From Coq Require Import List ZArith NArith Lia Bool Arith ZifyN ZifyNat ZifyBool Sorted.
From V Require Import Lib.Enc Gen.Roaring Model.Bits Model.Roaring.
From V Require Import Proofs.BitsBasic Proofs.BitsBulk Proofs.BitsRefine.
Import ListNotations.
Local Open Scope N_scope.
Ltac Zify.zify_post_hook ::= Z.div_mod_to_equations.

(* ---------------------------------------------------------------- binary-index list functions = the nat-index ones *)
Lemma nthN_nth : forall l i, nthN l i = nth (N.to_nat i) l 0.
Proof.
  induction l as [|a l IH]; intros i; cbn [nthN]; [destruct (N.to_nat i); reflexivity|].
  destruct (N.eqb_spec i 0) as [->|Hne]; [reflexivity|].
  rewrite IH. replace (N.to_nat i) with (S (N.to_nat (N.pred i))) by lia. reflexivity.
Qed.
Lemma lenN_length : forall l, lenN l = N.of_nat (length l).
Proof. induction l as [|a l IH]; cbn [lenN length]; [reflexivity|]. rewrite IH. lia. Qed.
Lemma skipN_skipn : forall l n, skipN l n = skipn (N.to_nat n) l.
Proof.
  induction l as [|a l IH]; intros n; cbn [skipN]; [destruct (N.to_nat n); reflexivity|].
  destruct (N.eqb_spec n 0) as [->|Hne]; [reflexivity|].
  rewrite IH. replace (N.to_nat n) with (S (N.to_nat (N.pred n))) by lia. reflexivity.
Qed.
Lemma insert_at_eq : forall l p x, insert_at l p x = firstn (N.to_nat p) l ++ x :: skipn (N.to_nat p) l.
Proof.
  induction l as [|a l IH]; intros p x; cbn [insert_at]; [destruct (N.to_nat p); reflexivity|].
  destruct (N.eqb_spec p 0) as [->|Hne]; [reflexivity|].
  rewrite IH. replace (N.to_nat p) with (S (N.to_nat (N.pred p))) by lia. reflexivity.
Qed.
Lemma delete_at_eq : forall l p, delete_at l p = firstn (N.to_nat p) l ++ skipn (S (N.to_nat p)) l.
Proof.
  induction l as [|a l IH]; intros p; cbn [delete_at]; [destruct (N.to_nat p); reflexivity|].
  destruct (N.eqb_spec p 0) as [->|Hne]; [reflexivity|].
  rewrite IH. replace (N.to_nat p) with (S (N.to_nat (N.pred p))) by lia. reflexivity.
Qed.
Lemma hd_skipn : forall (l : list N) n, hd 0 (skipn n l) = nth n l 0.
Proof. induction l as [|a l IH]; intros [|n]; cbn [skipn hd nth]; auto. Qed.
Lemma tl_skipn : forall (l : list N) n, tl (skipn n l) = skipn (S n) l.
Proof. induction l as [|a l IH]; intros [|n]; cbn [skipn tl]; auto. rewrite IH. reflexivity. Qed.
Lemma skipn_skipn : forall (l : list N) a b, skipn a (skipn b l) = skipn (a + b) l.
Proof.
  induction l as [|x l IH]; intros a [|b]; cbn [skipn]; rewrite ?Nat.add_0_r; auto.
  - destruct a; reflexivity.
  - rewrite IH. replace (a + S b)%nat with (S (a + b)) by lia. reflexivity.
Qed.

(* ---------------------------------------------------------------- sortedness by index *)
Definition sortedI (v : list N) : Prop := forall i j, (i < j)%nat -> (j < length v)%nat -> nth i v 0 < nth j v 0.
Lemma asc_sortedI v : StronglySorted N.lt v -> sortedI v.
Proof.
  induction v as [|a v IH]; intros S i j Hij Hj; [cbn in Hj; lia|].
  inversion S as [|? ? S' A]; subst. rewrite Forall_forall in A. cbn [length] in Hj.
  destruct j as [|j]; [lia|]. destruct i as [|i]; cbn [nth].
  - apply A. apply nth_In. lia.
  - apply IH; auto; lia.
Qed.

(* ---------------------------------------------------------------- search = lower bound *)
Lemma search_loop_spec v x : sortedI v -> forall fuel w low high,
  w = skipn (N.to_nat low) v -> low <= high -> high <= N.of_nat (length v) -> (N.to_nat (high - low) < fuel)%nat ->
  (forall i, (i < N.to_nat low)%nat -> nth i v 0 < x) ->
  (forall i, (N.to_nat high <= i)%nat -> (i < length v)%nat -> x <= nth i v 0) ->
  let r := search_loop fuel w x low high in
  r <= N.of_nat (length v) /\ (forall i, (i < N.to_nat r)%nat -> nth i v 0 < x) /\
  (forall i, (N.to_nat r <= i)%nat -> (i < length v)%nat -> x <= nth i v 0).
Proof.
  intros Hs. induction fuel as [|f IH]; intros w low high Hw H1 H2 H3 Hlo Hhi; [lia|]. cbn [search_loop].
  destruct (N.ltb_spec low high) as [Hlt|Hge].
  - rewrite N.shiftr_div_pow2. change (2 ^ 1) with 2.
    assert (Hm : low <= (low + high) / 2 < high) by lia.
    set (mid := (low + high) / 2) in *.
    assert (Hw' : skipN w (mid - low) = skipn (N.to_nat mid) v).
    { rewrite skipN_skipn, Hw, skipn_skipn. f_equal. lia. }
    rewrite Hw', hd_skipn, tl_skipn.
    destruct (N.ltb_spec (nth (N.to_nat mid) v 0) x) as [Hc|Hc].
    + apply IH.
      * f_equal. lia.
      * lia.
      * lia.
      * lia.
      * intros i Hi. destruct (Nat.eq_dec i (N.to_nat mid)) as [->|Hne]; auto.
        destruct (Nat.lt_ge_cases i (N.to_nat low)); [auto|].
        assert (nth i v 0 < nth (N.to_nat mid) v 0) by (apply Hs; lia). lia.
      * exact Hhi.
    + apply IH.
      * exact Hw.
      * lia.
      * lia.
      * lia.
      * exact Hlo.
      * intros i Hi Hl. destruct (Nat.eq_dec i (N.to_nat mid)) as [->|Hne]; auto.
        assert (nth (N.to_nat mid) v 0 < nth i v 0) by (apply Hs; lia). lia.
  - cbv zeta. assert (low = high) by lia. subst. repeat split; auto; lia.
Qed.

Theorem search_lower_bound v x : sortedI v ->
  let r := search v (lenN v) x in
  r <= N.of_nat (length v) /\ (forall i, (i < N.to_nat r)%nat -> nth i v 0 < x) /\
  (forall i, (N.to_nat r <= i)%nat -> (i < length v)%nat -> x <= nth i v 0).
Proof.
  intros Hs. unfold search. rewrite lenN_length. apply search_loop_spec; auto; try (intros; lia).
Qed.

(* ---------------------------------------------------------------- position facts -> list-level facts *)
(* everything before position p is below x *)
Definition below (v : list N) (p : nat) (x : N) : Prop := forall i, (i < p)%nat -> nth i v 0 < x.

Lemma below_tl a v p x : below (a :: v) (S p) x -> a < x /\ below v p x.
Proof. intros H. split; [apply (H 0%nat); lia|]. intros i Hi. apply (H (S i)). lia. Qed.

(* found at p: x is a member, inserting changes nothing, deleting removes position p *)
Lemma found_facts : forall v p x, below v p x -> (p < length v)%nat -> nth p v 0 = x ->
  s_mem x v = true /\ s_insert x v = v /\ s_delete x v = firstn p v ++ skipn (S p) v.
Proof.
  induction v as [|a v IH]; intros p x Hb Hp Hn; [cbn in Hp; lia|]. cbn [length] in Hp.
  destruct p as [|p].
  - cbn [nth] in Hn. subst a. cbn [s_mem existsb s_insert s_delete firstn skipn app].
    rewrite N.eqb_refl, N.ltb_irrefl. auto.
  - apply below_tl in Hb. destruct Hb as [Ha Hb]. cbn [nth] in Hn.
    destruct (IH p x Hb ltac:(lia) Hn) as (M & I & D).
    unfold s_mem in *. cbn [existsb s_insert s_delete firstn skipn app].
    destruct (N.ltb_spec x a); [lia|]. destruct (N.eqb_spec x a); [lia|].
    rewrite M, I, D. rewrite orb_true_r. auto.
Qed.

(* not found: everything before p is below x, everything from p on is above x *)
Lemma absent_facts : forall v p x, below v p x -> (p <= length v)%nat ->
  (forall i, (p <= i)%nat -> (i < length v)%nat -> x < nth i v 0) ->
  s_mem x v = false /\ s_insert x v = firstn p v ++ x :: skipn p v.
Proof.
  induction v as [|a v IH]; intros p x Hb Hp Ha.
  - cbn [length] in Hp. assert (p = 0%nat) by lia. subst. auto.
  - cbn [length] in Hp. destruct p as [|p].
    + cbn [firstn skipn app]. pose proof (Ha 0%nat ltac:(lia) ltac:(cbn [length]; lia)) as H0. cbn [nth] in H0.
      unfold s_mem. cbn [existsb s_insert]. destruct (N.ltb_spec x a); [|lia]. destruct (N.eqb_spec x a); [lia|].
      split; auto. cbn [orb]. clear -Ha.
      assert (G : forall y, In y v -> x < y).
      { intros y Hy. destruct (In_nth _ _ 0 Hy) as (k & Hk & Ek). specialize (Ha (S k) ltac:(lia) ltac:(cbn [length]; lia)).
        cbn [nth] in Ha. lia. }
      clear Ha. induction v as [|b v IHv]; [reflexivity|]. cbn [existsb].
      destruct (N.eqb_spec x b) as [->|_]; [specialize (G b (or_introl eq_refl)); lia|]. cbn [orb]. apply IHv. intros; apply G; right; auto.
    + apply below_tl in Hb. destruct Hb as [Hlt Hb].
      destruct (IH p x Hb ltac:(lia)) as (M & I).
      { intros i Hi Hl. apply (Ha (S i)); cbn [length]; lia. }
      unfold s_mem in *. cbn [existsb s_insert firstn skipn app].
      destruct (N.ltb_spec x a); [lia|]. destruct (N.eqb_spec x a); [lia|]. rewrite M, I. auto.
Qed.

(* ---------------------------------------------------------------- the three array-container operations *)
Section Arr.
Variables (v : list N) (x : N).
Hypothesis Hasc : StronglySorted N.lt v.
Let p := search v (lenN v) x.

Lemma search_cases :
  (a_found v (lenN v) x p = true /\ below v (N.to_nat p) x /\ (N.to_nat p < length v)%nat /\ nth (N.to_nat p) v 0 = x) \/
  (a_found v (lenN v) x p = false /\ below v (N.to_nat p) x /\ (N.to_nat p <= length v)%nat /\
   forall i, (N.to_nat p <= i)%nat -> (i < length v)%nat -> x < nth i v 0).
Proof.
  pose proof (asc_sortedI v Hasc) as Hs.
  destruct (search_lower_bound v x Hs) as (A & B & C). fold p in A, B, C.
  unfold a_found. rewrite lenN_length, nthN_nth.
  destruct (N.ltb_spec p (N.of_nat (length v))) as [Hlt|Hge]; cbn [andb].
  - destruct (N.eqb_spec (nth (N.to_nat p) v 0) x) as [E|E].
    + left. repeat split; auto. lia.
    + right. repeat split; auto; try lia. intros i H1 H2. pose proof (C i H1 H2).
      destruct (Nat.eq_dec i (N.to_nat p)) as [->|Hne]; [lia|].
      assert (nth (N.to_nat p) v 0 < nth i v 0) by (apply Hs; lia). specialize (C (N.to_nat p) ltac:(lia) ltac:(lia)). lia.
  - right. repeat split; auto; try (intros; lia).
Qed.

Theorem a_contains_spec : a_contains v x = s_mem x v.
Proof.
  unfold a_contains. cbv zeta. fold p. destruct search_cases as [(F & B & L & E)|(F & B & L & A)]; rewrite F.
  - symmetry. apply (found_facts v (N.to_nat p) x); auto.
  - symmetry. apply (absent_facts v (N.to_nat p) x); auto.
Qed.

Theorem a_found_spec : a_found v (lenN v) x p = s_mem x v.
Proof. exact a_contains_spec. Qed.

Theorem a_insert_spec : insert_at v p x = s_insert x v \/ s_mem x v = true.
Proof.
  destruct search_cases as [(F & B & L & E)|(F & B & L & A)].
  - right. apply (found_facts v (N.to_nat p) x); auto.
  - left. rewrite insert_at_eq. symmetry. apply (absent_facts v (N.to_nat p) x); auto.
Qed.

Theorem a_remove_spec : a_remove v x = (s_delete x v, s_mem x v).
Proof.
  unfold a_remove. cbv zeta. fold p. destruct search_cases as [(F & B & L & E)|(F & B & L & A)]; rewrite F.
  - destruct (found_facts v (N.to_nat p) x B L E) as (M & _ & D). rewrite delete_at_eq, D, M. reflexivity.
  - destruct (absent_facts v (N.to_nat p) x B L A) as (M & _). rewrite M. f_equal.
    (* deleting an absent value changes nothing *)
    clear -M. induction v as [|a l IH]; [reflexivity|]. unfold s_mem in M. cbn [existsb] in M. apply orb_false_iff in M. destruct M as [M1 M2].
    cbn [s_delete]. rewrite M1. f_equal. apply IH. exact M2.
Qed.
End Arr.
Print Assumptions a_remove_spec.
