(* C05 — from runes to bytes: the scopes find emits are exactly the byte-for-byte occurrences of the inserted
   non-empty patterns that start and end on rune boundaries of the text, each once (byte strings; every pattern set). *)
From Coq Require Import List ZArith Lia Bool Arith.
From V Require Import Lib.Utf8 Model.Trie Proofs.TrieTable Proofs.TrieInsert Proofs.TrieRunes Proofs.TrieAbs Proofs.TrieAbsFind
  Proofs.TrieBuild Proofs.TrieFind.
Import ListNotations.

Module M := V.Model.Trie.
Module A := V.Proofs.TrieAbs.
Module AF := V.Proofs.TrieAbsFind.

(* ---- small list facts ---- *)
Lemma is_prefix_iff p t : is_prefix p t = true <-> firstn (length p) t = p.
Proof.
  revert t; induction p as [|x p IH]; intros [|y t]; cbn [is_prefix firstn length]; split; intros H; try reflexivity; try discriminate.
  - apply andb_prop in H. destruct H as [H1 H2]. apply Z.eqb_eq in H1. apply IH in H2. subst. rewrite H2. reflexivity.
  - injection H as H1 H2. subst y. rewrite Z.eqb_refl. cbn [andb]. apply IH. exact H2.
Qed.
Lemma is_prefix_app p t : is_prefix p t = true <-> exists c, t = p ++ c.
Proof.
  rewrite is_prefix_iff. split.
  - intros H. exists (skipn (length p) t). rewrite <- H at 1. symmetry. apply firstn_skipn.
  - intros (c & ->). rewrite firstn_app, Nat.sub_diag, firstn_all. cbn [firstn]. apply app_nil_r.
Qed.

Lemma write_rune_pos r : (1 <= length (write_rune r))%nat.
Proof.
  unfold write_rune. destruct (Gen.Trie.invalid_byte_base <=? r)%Z; [cbn; lia|].
  unfold encode_rune, encode. repeat match goal with |- context [if ?c then _ else _] => destruct c end; cbn [length]; lia.
Qed.
Lemma SZ_nil : SZ [] = 0%Z.
Proof. reflexivity. Qed.
Lemma SZ_app a b : SZ (a ++ b) = (SZ a + SZ b)%Z.
Proof. unfold SZ, wbytes. rewrite map_app, concat_app, app_length. lia. Qed.
Lemma SZ_pos u : u <> [] -> (0 < SZ u)%Z.
Proof.
  destruct u as [|r u]; [congruence|]. intros _. change (r :: u) with ([r] ++ u). rewrite SZ_app.
  unfold SZ at 1, wbytes. cbn [map concat]. rewrite app_nil_r. pose proof (write_rune_pos r). unfold SZ. lia.
Qed.
Lemma SZ_nonneg u : (0 <= SZ u)%Z.
Proof. unfold SZ. lia. Qed.
Lemma wbytes_app a b : wbytes (a ++ b) = wbytes a ++ wbytes b.
Proof. unfold wbytes. rewrite map_app, concat_app. reflexivity. Qed.

(* sum of the widths of a token list *)
Definition W (toks : list (Z * nat)) : Z := fold_right (fun rw acc => (Z.of_nat (snd rw) + acc)%Z) 0%Z toks.
Lemma W_SZ l : Forall (fun rw => length (write_rune (fst rw)) = snd rw) l -> W l = SZ (map fst l).
Proof.
  induction l as [|[r w] l IH]; intros H; [reflexivity|]. inversion H as [|? ? H1 H2]; subst. cbn [fst snd] in H1.
  cbn [W fold_right map fst snd]. fold (W l). rewrite (IH H2). change (r :: map fst l) with ([r] ++ map fst l).
  rewrite SZ_app. unfold SZ at 2, wbytes. cbn [map concat]. rewrite app_nil_r, H1. reflexivity.
Qed.

Lemma bounds_le s : forall k, In k (bounds s) -> (k <= length s)%nat.
Proof.
  induction s as [|s Hs IH] using tokens_ind; intros k Hk.
  - destruct Hk as [<-|[]]. cbn. lia.
  - rewrite (bounds_cons s Hs) in Hk. destruct Hk as [<-|Hk]; [lia|]. apply in_map_iff in Hk. destruct Hk as (j & <- & Hj).
    apply IH in Hj. rewrite skipn_length in Hj. pose proof (decode_rune_width s Hs). lia.
Qed.
Lemma bounds_zero s : In 0%nat (bounds s).
Proof. unfold bounds. destruct (tokens s) as [|[? ?] ?]; left; reflexivity. Qed.

(* the byte length of a prefix of the rune word is a rune boundary *)
Lemma bounds_prefix_runes : forall q s r, is_bytes s -> runes_of s = q ++ r -> In (length (wbytes q)) (bounds s).
Proof.
  induction q as [|v q IH]; intros s r Hb E; [apply bounds_zero|].
  assert (Hs : s <> []) by (intros ->; discriminate).
  unfold runes_of in E. rewrite (tokens_cons s Hs) in E. cbn [map app] in E. injection E as Ev Er.
  rewrite (bounds_cons s Hs). right. apply in_map_iff.
  exists (length (wbytes q)). split.
  - change (v :: q) with ([v] ++ q). rewrite wbytes_app, app_length. f_equal.
    unfold wbytes. cbn [map concat]. rewrite app_nil_r. rewrite <- Ev, (decode_rune_write s Hb Hs), firstn_length.
    pose proof (decode_rune_width s Hs). lia.
  - apply (IH _ r); [apply is_bytes_skipn; exact Hb|exact Er].
Qed.

Lemma suffix_compare (u1 u2 y : list Z) : A.is_suffix u1 y -> A.is_suffix u2 y -> length u1 <= length u2 -> A.is_suffix u1 u2.
Proof.
  intros (p1 & E1) (p2 & E2) Hl.
  assert (Hp : length p2 <= length p1).
  { apply (f_equal (@length Z)) in E1. apply (f_equal (@length Z)) in E2. rewrite app_length in *. lia. }
  exists (skipn (length p2) p1).
  assert (E : p1 = firstn (length p2) p1 ++ skipn (length p2) p1) by (symmetry; apply firstn_skipn).
  rewrite E in E1. rewrite <- app_assoc in E1. rewrite E1 in E2.
  assert (Hf : length (firstn (length p2) p1) = length p2) by (rewrite firstn_length; lia).
  apply (f_equal (skipn (length p2))) in E2.
  rewrite <- Hf in E2 at 1. rewrite !skipn_app, !skipn_all, Hf, !Nat.sub_diag in E2. cbn [skipn app] in E2. symmetry. exact E2.
Qed.

Section Occ.
Variable ps : list (list Z).
Variable T : trie.
Hypothesis Hps : Forall is_bytes ps.
Notation T0 := (inserts ps).
Hypothesis HS : SE T0 T.
Hypothesis HF : FailOK T0 T.

Let HI : INS ps T0 := INS_inserts ps.
Let HW : WF T0 := ins_wf _ _ HI.
Let HE : forall w, is_end T0 w = true -> w <> [] := INS_end_nonroot ps T0 HI.

Lemma tok_ps : Forall tok_ok ps.
Proof. eapply Forall_impl; [|exact Hps]. intros p. apply tok_ok_bytes. Qed.

Lemma end_word u : is_end T0 u = true <-> exists p, In p ps /\ p <> [] /\ runes_of p = u.
Proof. apply (ins_end _ _ HI). Qed.
Lemma end_size u : is_end T0 u = true -> size_of T0 u = SZ u.
Proof.
  intros H. apply (ins_size _ _ HI tok_ps). unfold is_end in H. unfold inT. destruct (get T0 u); [reflexivity|discriminate].
Qed.

Lemma in_ends u y : In u (ends T0 y) <-> is_end T0 u = true /\ A.is_suffix u y.
Proof. unfold ends. rewrite filter_In, A.suffixes_spec. unfold isEnd0. tauto. Qed.

(* membership in the emitted scope list, rune level *)
Lemma afind_spec : forall toks x i s e,
  In (s, e) (afind T0 x i toks) <->
  exists k u, 1 <= k <= length toks /\ In u (ends T0 (x ++ map fst (firstn k toks))) /\
              e = (i + W (firstn k toks))%Z /\ s = (e - size_of T0 u)%Z.
Proof.
  induction toks as [|[v w] rest IH]; intros x i s e; cbn [afind].
  - split; [intros []|]. intros (k & u & Hk & _). cbn in Hk. lia.
  - cbv zeta. rewrite in_app_iff, in_map_iff, IH. split.
    + intros [(u & E & Hu)|(k & u & Hk & Hu & He & Hs')].
      * inversion E; subst. exists 1, u. cbn [firstn map fst length W fold_right snd]. repeat split; try lia; auto.
      * exists (S k), u. cbn [firstn map fst length W fold_right snd]. fold (W (firstn k rest)).
        rewrite <- app_assoc in Hu. cbn [app] in Hu. repeat split; try lia; auto.
    + intros (k & u & Hk & Hu & He & Hs'). destruct k as [|k]; [lia|].
      cbn [firstn map fst length W fold_right snd] in *. fold (W (firstn k rest)) in He.
      destruct k as [|k].
      * left. exists u. cbn [firstn map W fold_right] in *. split; [f_equal; lia|exact Hu].
      * right. exists (S k), u. rewrite <- app_assoc. cbn [app]. repeat split; try lia; auto.
Qed.

(* ---- the byte-level reading of an occurrence ---- *)
Definition OccB (text : list Z) (s e : Z) : Prop :=
  exists p, In p ps /\ p <> [] /\ (0 <= s)%Z /\ e = (s + Z.of_nat (length p))%Z /\ M.occ_at true p text (Z.to_nat s) = true.

Lemma firstn_map {X Y} (f : X -> Y) k l : firstn k (map f l) = map f (firstn k l).
Proof. revert l; induction k as [|k IH]; intros [|a l]; cbn [firstn map]; [reflexivity..|]. rewrite IH. reflexivity. Qed.

Theorem afind_bytes text : is_bytes text -> forall s e,
  In (s, e) (afind T0 [] 0 (tokens text)) <-> OccB text s e.
Proof.
  intros Hb s e. rewrite afind_spec. cbn [app]. set (toks := tokens text). set (rs := runes_of text).
  assert (Htok : Forall (fun rw => length (write_rune (fst rw)) = snd rw) toks) by (apply tok_ok_bytes; exact Hb).
  assert (Hw : wbytes rs = text) by (apply wbytes_runes_of; exact Hb).
  split.
  - intros (k & u & Hk & Hu & He & Hs'). apply in_ends in Hu. destruct Hu as [Hend (q & Eq)].
    rewrite (end_size u Hend) in Hs'. apply end_word in Hend. destruct Hend as (p & Hp & Hne & Hr).
    assert (Hpb : is_bytes p) by (rewrite Forall_forall in Hps; apply Hps; exact Hp).
    assert (Hfk : Forall (fun rw => length (write_rune (fst rw)) = snd rw) (firstn k toks)).
    { rewrite Forall_forall in *. intros x Hx. apply Htok. rewrite <- (firstn_skipn k toks). apply in_or_app. left. exact Hx. }
    rewrite (W_SZ _ Hfk), Eq, SZ_app in He. rewrite Z.add_0_l in He.
    assert (Hsq : s = SZ q) by lia.
    assert (Hup : wbytes u = p) by (rewrite <- Hr; apply wbytes_runes_of; exact Hpb).
    assert (Hrs : rs = q ++ u ++ skipn k rs).
    { rewrite <- (firstn_skipn k rs) at 1. unfold rs, runes_of at 1. rewrite firstn_map. fold toks. rewrite Eq, <- app_assoc. reflexivity. }
    assert (Ht : text = wbytes q ++ p ++ wbytes (skipn k rs)).
    { transitivity (wbytes (q ++ u ++ skipn k rs)); [rewrite <- Hrs; symmetry; exact Hw|rewrite !wbytes_app, Hup; reflexivity]. }
    exists p. split; [exact Hp|]. split; [exact Hne|]. split; [rewrite Hsq; apply SZ_nonneg|]. split.
    + rewrite He, Hsq. f_equal. unfold SZ. rewrite Hup. reflexivity.
    + unfold M.occ_at. cbn [negb orb]. rewrite Hsq. unfold SZ. rewrite Nat2Z.id.
      apply andb_true_intro. split; [|apply andb_true_intro; split].
      * apply is_prefix_app. exists (wbytes (skipn k rs)). rewrite Ht at 1.
        rewrite skipn_app, skipn_all, Nat.sub_diag. reflexivity.
      * apply is_bound_iff. apply (bounds_prefix_runes q text (u ++ skipn k rs) Hb). exact Hrs.
      * apply is_bound_iff. rewrite <- Hup, <- app_length, <- wbytes_app.
        apply (bounds_prefix_runes (q ++ u) text (skipn k rs) Hb). rewrite <- app_assoc. exact Hrs.
  - intros (p & Hp & Hne & Hs0 & He & Hocc).
    assert (Hpb : is_bytes p) by (rewrite Forall_forall in Hps; apply Hps; exact Hp).
    unfold M.occ_at in Hocc. cbn [negb orb] in Hocc. apply andb_prop in Hocc. destruct Hocc as [Hpre Hbd].
    apply andb_prop in Hbd. destruct Hbd as [Hb1 Hb2]. apply is_bound_iff in Hb1. apply is_bound_iff in Hb2.
    apply is_prefix_app in Hpre. destruct Hpre as (C & EC).
    set (sn := Z.to_nat s) in *. set (Aa := firstn sn text).
    assert (Hsl : (sn <= length text)%nat) by (apply bounds_le; exact Hb1).
    assert (LA : length Aa = sn) by (unfold Aa; rewrite firstn_length; lia).
    assert (Et : text = Aa ++ p ++ C) by (rewrite <- (firstn_skipn sn text) at 1; fold Aa; rewrite EC; reflexivity).
    assert (HbA : is_bytes Aa) by (apply is_bytes_firstn; exact Hb).
    rewrite Et in Hb1, Hb2. rewrite <- LA in Hb1.
    pose proof (tokens_app Aa (p ++ C) Hb1) as T1.
    apply (bounds_app Aa (p ++ C) Hb1) in Hb2. destruct Hb2 as [Hb2|(j & Hj & Ej)].
    { apply bounds_le in Hb2. destruct p; [congruence|]. cbn [length] in Hb2. lia. }
    assert (Ejp : j = length p) by lia. subst j.
    pose proof (tokens_app p C Hj) as T2.
    assert (Erun : rs = runes_of Aa ++ runes_of p ++ runes_of C).
    { unfold rs, runes_of. rewrite Et at 1. rewrite T1, T2, !map_app. reflexivity. }
    set (k := (length (runes_of Aa) + length (runes_of p))%nat).
    assert (Efk : map fst (firstn k toks) = runes_of Aa ++ runes_of p).
    { rewrite <- firstn_map. change (map fst toks) with rs. rewrite Erun, app_assoc. unfold k. rewrite <- app_length.
      rewrite firstn_app, Nat.sub_diag, firstn_all. cbn [firstn]. apply app_nil_r. }
    assert (Hrp : runes_of p <> []) by (apply runes_of_nonempty; exact Hne).
    exists k, (runes_of p). split; [|split; [|split]].
    + split.
      * unfold k. destruct (runes_of p); [congruence|cbn [length]; lia].
      * rewrite <- (map_length fst toks). change (map fst toks) with rs. rewrite Erun, !app_length. unfold k. lia.
    + rewrite Efk. apply in_ends. split; [apply end_word; exists p; auto|]. exists (runes_of Aa). reflexivity.
    + assert (Hfk : Forall (fun rw => length (write_rune (fst rw)) = snd rw) (firstn k toks)).
      { rewrite Forall_forall in *. intros x Hx. apply Htok. rewrite <- (firstn_skipn k toks). apply in_or_app. left. exact Hx. }
      rewrite (W_SZ _ Hfk), Efk, SZ_app. unfold SZ. rewrite (wbytes_runes_of Aa HbA), (wbytes_runes_of p Hpb). lia.
    + rewrite end_size by (apply end_word; exists p; auto). unfold SZ. rewrite (wbytes_runes_of p Hpb). lia.
Qed.

(* ---- each occurrence once; scopes are non-empty, inside the text, sorted by stop ---- *)
Lemma tokens_width_pos s : Forall (fun rw => (1 <= snd rw)%nat) (tokens s).
Proof.
  induction s as [|s Hs IH] using tokens_ind; [constructor|]. rewrite (tokens_cons s Hs). constructor; [|exact IH].
  pose proof (decode_rune_width s Hs). lia.
Qed.

Lemma afind_stop_gt : forall toks x i s e, Forall (fun rw => (1 <= snd rw)%nat) toks ->
  In (s, e) (afind T0 x i toks) -> (i < e)%Z.
Proof.
  induction toks as [|[v w] rest IH]; intros x i s e Hp Hin; [destruct Hin|]. inversion Hp as [|? ? H1 H2]; subst. cbn [snd] in H1.
  cbn [afind] in Hin. cbv zeta in Hin. apply in_app_or in Hin. destruct Hin as [Hin|Hin].
  - apply in_map_iff in Hin. destruct Hin as (u & E & _). inversion E; subst. lia.
  - apply IH in Hin; auto. lia.
Qed.

Lemma NoDup_map_on {X Y} (f : X -> Y) l : NoDup l -> (forall a b, In a l -> In b l -> f a = f b -> a = b) -> NoDup (map f l).
Proof.
  induction l as [|a l IH]; intros Hn Hi; cbn [map]; [constructor|]. inversion Hn; subst. constructor.
  - intros Hin. apply in_map_iff in Hin. destruct Hin as (b & E & Hb). assert (b = a) by (apply Hi; [right; auto|left; auto|exact E]). subst. contradiction.
  - apply IH; auto. intros x y Hx Hy. apply Hi; right; auto.
Qed.

Lemma ends_nodup_scopes y i : NoDup (map (fun u => ((i - size_of T0 u)%Z, i)) (ends T0 y)).
Proof.
  apply NoDup_map_on.
  - unfold ends. apply NoDup_filter. apply (NoDup_map_inv (@length Z)). apply AF.suffixes_lengths_nodup.
  - intros a b Ha Hb E. apply in_ends in Ha. apply in_ends in Hb. destruct Ha as [Ea Sa]. destruct Hb as [Eb Sb].
    rewrite (end_size a Ea), (end_size b Eb) in E. assert (Hsz : SZ a = SZ b) by (inversion E; lia).
    assert (G : forall u1 u2, A.is_suffix u1 y -> A.is_suffix u2 y -> length u1 <= length u2 -> SZ u1 = SZ u2 -> u1 = u2).
    { intros u1 u2 S1 S2 Hl Hs. destruct (suffix_compare u1 u2 y S1 S2 Hl) as (z & Ez). subst u2. rewrite SZ_app in Hs.
      destruct z as [|c z]; [reflexivity|]. pose proof (SZ_pos (c :: z) ltac:(discriminate)). lia. }
    destruct (Nat.le_ge_cases (length a) (length b)); [apply G; auto|symmetry; apply G; auto].
Qed.

Theorem afind_nodup : forall toks x i, Forall (fun rw => (1 <= snd rw)%nat) toks -> NoDup (afind T0 x i toks).
Proof.
  induction toks as [|[v w] rest IH]; intros x i Hp; cbn [afind]; [constructor|]. inversion Hp as [|? ? H1 H2]; subst. cbv zeta.
  apply AF.nodup_app.
  - apply ends_nodup_scopes.
  - apply IH. exact H2.
  - intros [s e] Hin1 Hin2. apply in_map_iff in Hin1. destruct Hin1 as (u & E & _). inversion E; subst.
    apply afind_stop_gt in Hin2; auto. lia.
Qed.
End Occ.
