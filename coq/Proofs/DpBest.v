(* C18: DpSolvers.Best / BestAllowMinOverflow — independent of the map iteration order.  From design-notes/proto/BestSelect_proto.v. *)
From Coq Require Import List ZArith Lia Bool Arith.
From V Require Import Model.Dp.
Import ListNotations.
Local Open Scope Z_scope.

Lemma best_go_spec maxV : forall keys seen bst md,
  (forall k, In k keys -> maxV - k < maxint) ->
  match bst with
  | Some b => In b seen /\ b <= maxV /\ md = maxV - b /\ (forall k, In k seen -> k <= maxV -> k <= b)
  | None => md = maxint /\ forall k, In k seen -> maxV < k
  end ->
  is_best maxV (seen ++ keys) (best_go maxV keys bst md).
Proof.
  induction keys as [|v t IH]; intros seen bst md Hb H; cbn [best_go].
  - rewrite app_nil_r. destruct bst as [b|]; cbn [is_best]; tauto.
  - replace (seen ++ v :: t) with ((seen ++ [v]) ++ t) by (rewrite <- app_assoc; reflexivity).
    assert (Hb' : forall k, In k t -> maxV - k < maxint) by (intros; apply Hb; right; auto).
    specialize (Hb v (or_introl eq_refl)).
    destruct (Z.leb_spec 0 (maxV - v)) as [Hc1|Hc1]; cbn [andb].
    + destruct (Z.ltb_spec (maxV - v) md) as [Hc2|Hc2].
      * apply IH; auto. repeat split; try lia; [apply in_or_app; right; left; auto|].
        intros k Hk Hle. apply in_app_or in Hk. destruct Hk as [Hk|[<-|[]]]; [|lia].
        destruct bst as [b|]; [destruct H as (_ & _ & -> & H); specialize (H k Hk Hle); lia|destruct H as [_ H]; specialize (H k Hk); lia].
      * apply IH; auto. destruct bst as [b|].
        -- destruct H as (H1 & H2 & H3 & H4). repeat split; auto; [apply in_or_app; left; auto|].
           intros k Hk Hle. apply in_app_or in Hk. destruct Hk as [Hk|[<-|[]]]; [auto|lia].
        -- destruct H as [-> H]. lia.
    + apply IH; auto. destruct bst as [b|].
      * destruct H as (H1 & H2 & H3 & H4). repeat split; auto; [apply in_or_app; left; auto|].
        intros k Hk Hle. apply in_app_or in Hk. destruct Hk as [Hk|[<-|[]]]; [auto|lia].
      * destruct H as [-> H]. split; auto. intros k Hk. apply in_app_or in Hk. destruct Hk as [Hk|[<-|[]]]; [auto|lia].
Qed.

(* for every iteration order: Best is the largest key not above maxValue (nil if there is none) *)
Theorem best_spec maxV keys : (forall k, In k keys -> maxV - k < maxint) -> is_best maxV keys (best maxV keys).
Proof.
  intros Hb. unfold best. destruct (existsb (Z.eqb maxV) keys) eqn:E.
  - apply existsb_exists in E. destruct E as (k & Hk & Ek). apply Z.eqb_eq in Ek. subst k. cbn [is_best]. repeat split; auto; lia.
  - apply (best_go_spec maxV keys [] None maxint); auto. split; auto. intros k [].
Qed.

Lemma over_go_spec maxV : forall keys seen bst md,
  ~ In maxV (seen ++ keys) -> (forall k, In k keys -> maxV - k < maxint) ->
  match bst with
  | Some b => In b seen /\ md = maxV - b /\
              ((maxV < b /\ forall k, In k seen -> maxV < k -> b <= k) \/
               (b < maxV /\ (forall k, In k seen -> k <= maxV) /\ forall k, In k seen -> k <= b))
  | None => md = maxint /\ seen = []
  end ->
  is_best_over maxV (seen ++ keys) (over_go maxV keys bst md).
Proof.
  induction keys as [|v t IH]; intros seen bst md Hne Hb H; cbn [over_go].
  - rewrite app_nil_r in *. destruct bst as [b|]; cbn [is_best_over]; [|tauto].
    destruct H as (H1 & _ & [[H2 H3]|(H2 & H3 & H4)]); split; auto.
  - replace (seen ++ v :: t) with ((seen ++ [v]) ++ t) in * by (rewrite <- app_assoc; reflexivity).
    assert (Hb' : forall k, In k t -> maxV - k < maxint) by (intros; apply Hb; right; auto).
    specialize (Hb v (or_introl eq_refl)).
    assert (Hv : v <> maxV) by (intros ->; apply Hne; apply in_or_app; left; apply in_or_app; right; left; auto).
    assert (Hin : forall k, In k (seen ++ [v]) -> In k seen \/ k = v) by (intros k Hk; apply in_app_or in Hk; destruct Hk as [Hk|[<-|[]]]; auto).
    destruct (Z.ltb_spec (maxV - v) 0) as [Hov|Hun].
    + (* v overshoots *)
      destruct bst as [b|].
      * destruct H as (H1 & -> & [[H2 H3]|(H2 & H3 & H4)]).
        -- destruct (Z.ltb_spec 0 (maxV - b)) as [Hc3|Hc3]; [lia|]. cbn [orb]. destruct (Z.ltb_spec (maxV - b) (maxV - v)) as [Hc4|Hc4].
           ++ apply IH; auto. split; [apply in_or_app; right; left; auto|]. split; auto. left. split; [lia|].
              intros k Hk Hgt. destruct (Hin k Hk) as [Hk'| ->]; [specialize (H3 k Hk' Hgt); lia|lia].
           ++ apply IH; auto. split; [apply in_or_app; left; auto|]. split; auto. left. split; auto.
              intros k Hk Hgt. destruct (Hin k Hk) as [Hk'| ->]; [auto|lia].
        -- destruct (Z.ltb_spec 0 (maxV - b)) as [Hc5|Hc5]; [|lia]. cbn [orb].
           apply IH; auto. split; [apply in_or_app; right; left; auto|]. split; auto. left. split; [lia|].
           intros k Hk Hgt. destruct (Hin k Hk) as [Hk'| ->]; [specialize (H3 k Hk'); lia|lia].
      * destruct H as [-> ->]. cbn [orb Z.ltb maxint]. 
        apply IH; auto. split; [left; auto|]. split; auto. left. split; [lia|]. intros k [<-|[]] _. lia.
    + (* v does not overshoot *)
      destruct bst as [b|].
      * destruct H as (H1 & -> & [[H2 H3]|(H2 & H3 & H4)]).
        -- destruct (Z.ltb_spec (maxV - v) (maxV - b)) as [Hc6|Hc6]; [lia|].
           apply IH; auto. split; [apply in_or_app; left; auto|]. split; auto. left. split; auto.
           intros k Hk Hgt. destruct (Hin k Hk) as [Hk'| ->]; [auto|lia].
        -- destruct (Z.ltb_spec (maxV - v) (maxV - b)) as [Hc7|Hc7].
           ++ apply IH; auto. split; [apply in_or_app; right; left; auto|]. split; auto. right. split; [lia|]. split.
              ** intros k Hk. destruct (Hin k Hk) as [Hk'| ->]; [auto|lia].
              ** intros k Hk. destruct (Hin k Hk) as [Hk'| ->]; [specialize (H4 k Hk'); lia|lia].
           ++ apply IH; auto. split; [apply in_or_app; left; auto|]. split; auto. right. split; auto. split.
              ** intros k Hk. destruct (Hin k Hk) as [Hk'| ->]; [auto|lia].
              ** intros k Hk. destruct (Hin k Hk) as [Hk'| ->]; [auto|lia].
      * destruct H as [-> ->]. destruct (Z.ltb_spec (maxV - v) maxint) as [Hc8|Hc8]; [|lia].
        apply IH; auto. split; [left; auto|]. split; auto. right. split; [lia|]. split; intros k [<-|[]]; lia.
Qed.

(* for every iteration order: the exact total if present, else the smallest overshoot, else the largest total *)
Theorem best_over_spec maxV keys : (forall k, In k keys -> maxV - k < maxint) -> is_best_over maxV keys (best_over maxV keys).
Proof.
  intros Hb. unfold best_over. destruct (existsb (Z.eqb maxV) keys) eqn:E.
  - apply existsb_exists in E. destruct E as (k & Hk & Ek). apply Z.eqb_eq in Ek. subst k. cbn [is_best_over]. auto.
  - apply (over_go_spec maxV keys [] None maxint); auto.
    cbn [app]. intros Hin. assert (existsb (Z.eqb maxV) keys = true) by (apply existsb_exists; exists maxV; split; auto; apply Z.eqb_refl). congruence.
Qed.
Print Assumptions best_spec.
Print Assumptions best_over_spec.
