(* C12: the judge of observed histories (lin_search, Model/SafeKV.v) accepts exactly the histories that have a linearisation:
   an ordering of all calls that respects real time (nobody is placed before a call that had already returned when he was
   invoked) and in which every call returns what the specification returns on the map left by its predecessors. *)
From Coq Require Import List ZArith Lia Bool Arith Permutation.
From V Require Import Lib.Enc Gen.SafeKVSkel Model.SafeKV.
Import ListNotations.
Local Open Scope Z_scope.

Fixpoint legal (l : list hop) (m : map_) : Prop :=
  match l with
  | [] => True
  | h :: t => (forall h', In h' (h :: t) -> h_inv h < h_resp h') /\ snd (sem (h_call h) m) = h_res h /\
              legal t (fst (sem (h_call h) m))
  end.

Lemma min_resp_acc : forall l a, exists b, min_resp l (Some a) = Some b /\ (forall x, x < b <-> x < a /\ forall h, In h l -> x < h_resp h).
Proof.
  induction l as [|h t IH]; intros a; cbn [min_resp].
  - exists a. split; auto. intros x. split; [intros; split; auto; intros ? []|tauto].
  - destruct (IH (Z.min a (h_resp h))) as (b & Hb & Hs). exists b. split; auto. intros x. rewrite Hs. split.
    + intros [H1 H2]. split; [lia|]. intros h' [<-|Hin]; [lia|auto].
    + intros [H1 H2]. split; [specialize (H2 h (or_introl eq_refl)); lia|]. intros h' Hin. apply H2. right; auto.
Qed.
Lemma min_resp_spec h t : exists b, min_resp (h :: t) None = Some b /\ (forall x, x < b <-> forall h', In h' (h :: t) -> x < h_resp h').
Proof.
  cbn [min_resp]. destruct (min_resp_acc t (h_resp h)) as (b & Hb & Hs). exists b. split; auto. intros x. rewrite Hs. split.
  - intros [H1 H2] h' [<-|Hin]; auto.
  - intros H. split; [apply H; left; auto|]. intros h' Hin. apply H. right; auto.
Qed.

Lemma remove_nth_perm {A} : forall i (l : list A) x, nth_error l i = Some x -> Permutation l (x :: remove_nth i l).
Proof.
  induction i as [|i IH]; intros [|a l] x H; cbn [nth_error remove_nth] in *; try discriminate.
  - inversion H; subst. apply Permutation_refl.
  - apply (perm_trans (l' := a :: x :: remove_nth i l)); [apply perm_skip; apply IH; auto|apply perm_swap].
Qed.
Lemma remove_nth_length {A} : forall i (l : list A) x, nth_error l i = Some x -> S (length (remove_nth i l)) = length l.
Proof.
  induction i as [|i IH]; intros [|a l] x H; cbn [nth_error remove_nth length] in *; try discriminate; auto. f_equal. eapply IH; eauto.
Qed.

Theorem lin_sound : forall fuel p m, lin_search fuel p m = true -> exists l, Permutation l p /\ legal l m.
Proof.
  induction fuel as [|f IH]; intros p m H.
  - destruct p; [exists []; split; [constructor|exact I]|discriminate].
  - destruct p as [|h0 t0]; [exists []; split; [constructor|exact I]|]. cbn [lin_search] in H.
    destruct (min_resp_spec h0 t0) as (b & Hb & Hs). rewrite Hb in H.
    apply existsb_exists in H as (i & _ & Hi). destruct (nth_error (h0 :: t0) i) as [h|] eqn:En; [|discriminate].
    apply andb_prop in Hi as [Hinv Hi]. destruct (sem (h_call h) m) as [m' r] eqn:Es. apply andb_prop in Hi as [Hr Hrec].
    destruct (IH _ _ Hrec) as (l & Hp & Hl). exists (h :: l). split.
    + apply (perm_trans (l' := h :: remove_nth i (h0 :: t0))); [apply perm_skip; auto|apply Permutation_sym, remove_nth_perm; auto].
    + cbn [legal]. rewrite Es. cbn [fst snd]. split; [|split; auto].
      * apply Z.ltb_lt in Hinv. rewrite Hs in Hinv. intros h' Hin. apply Hinv.
        apply (Permutation_in (l := h :: l)); auto.
        apply (perm_trans (l' := h :: remove_nth i (h0 :: t0))); [apply perm_skip; auto|apply Permutation_sym, remove_nth_perm; auto].
      * clear -Hr. revert Hr. generalize (h_res h). induction r as [|x r IHr]; intros [|y l] H; cbn [list_eqb] in H; try discriminate; auto.
        apply andb_prop in H as [H1 H2]. apply Z.eqb_eq in H1. subst. f_equal. auto.
Qed.

Lemma list_eqb_refl l : list_eqb l l = true.
Proof. induction l as [|x l IH]; cbn [list_eqb]; auto. rewrite Z.eqb_refl. exact IH. Qed.

Theorem lin_complete : forall fuel l p m, Permutation l p -> legal l m -> (length p <= fuel)%nat -> lin_search fuel p m = true.
Proof.
  induction fuel as [|f IH]; intros l p m Hp Hl Hf.
  - destruct p; [reflexivity|cbn [length] in Hf; lia].
  - destruct p as [|h0 t0]; [reflexivity|]. cbn [lin_search].
    destruct l as [|h l]; [apply Permutation_nil in Hp; discriminate|].
    destruct (min_resp_spec h0 t0) as (b & Hb & Hs). rewrite Hb.
    assert (Hin : In h (h0 :: t0)) by (apply (Permutation_in (l := h :: l)); auto; left; auto).
    apply In_nth_error in Hin as [i Hi]. apply existsb_exists. exists i. split.
    + apply in_seq. split; [lia|]. cbn [plus]. apply nth_error_Some. congruence.
    + rewrite Hi. cbn [legal] in Hl. destruct Hl as (H1 & H2 & H3). apply andb_true_intro. split.
      * apply Z.ltb_lt. apply Hs. intros h' Hin'. apply H1. apply (Permutation_in (l := h0 :: t0)); auto. apply Permutation_sym; auto.
      * destruct (sem (h_call h) m) as [m' r]. cbn [fst snd] in *. subst r. rewrite list_eqb_refl. cbn [andb].
        apply (IH l); auto.
        -- apply (Permutation_cons_inv (a := h)). apply (perm_trans (l' := h0 :: t0)); auto. apply remove_nth_perm; auto.
        -- pose proof (remove_nth_length i (h0 :: t0) h Hi). cbn [length] in *. lia.
Qed.

(* the judge: a history is accepted iff it has a linearisation *)
Theorem linearizable_iff hist m0 : linearizable hist m0 = true <-> exists l, Permutation l hist /\ legal l m0.
Proof.
  unfold linearizable. split; [apply lin_sound|]. intros (l & Hp & Hl). apply (lin_complete _ l); auto.
Qed.
