(* C05 — end-to-end ORDER statements: PrefixSearch returns, as a list, the specification's prefix set sorted by the
   depth-first order [pat_before] (Model/TrieOrder.v); what that order means; the executable sort is correct; and the
   three order-sensitive outputs of the model equal the specification lists in the reading the run's judge selects. *)
From Coq Require Import List ZArith Lia Bool Arith Sorted.
From V Require Import Lib.Utf8 Model.Trie Model.TrieOrder Proofs.TrieTable Proofs.TrieInsert Proofs.TrieRunes Proofs.TrieBuild
  Proofs.TrieOcc Proofs.TriePrefix Proofs.TrieTop Proofs.TrieValid Proofs.TrieJudge
  Proofs.TrieOrderSorted Proofs.TrieOrderFind Proofs.TrieOrderPrefix.
Import ListNotations.

Module M := V.Model.Trie.

(* ------------------------------------------------------------------ what dfs_before means *)
Theorem dfs_before_iff : forall x y, dfs_before x y = true <->
  (exists e, e <> [] /\ y = x ++ e) \/
  (exists q c d x' y', x = q ++ c :: x' /\ y = q ++ d :: y' /\ (d < c)%Z).
Proof.
  intros x y. split.
  - revert y. induction x as [|a x IH]; intros [|b y]; cbn [dfs_before]; try discriminate.
    + intros _. left. exists (b :: y). split; [discriminate|reflexivity].
    + destruct (Z.eqb_spec a b) as [->|Hn].
      * intros H. destruct (IH y H) as [(e & He & ->)|(q & c & d & x' & y' & -> & -> & Hl)].
        -- left. exists e. auto.
        -- right. exists (b :: q), c, d, x', y'. auto.
      * intros H. apply Z.ltb_lt in H. right. exists [], a, b, x, y. auto.
  - intros [(e & He & ->)|H]; [apply ext_before; exact He|apply sib_lt_before; exact H].
Qed.

(* ------------------------------------------------------------------ the insertion sort of the specification *)
Section Sort.
Variable lt : list Z -> list Z -> bool.
Let R (x y : list Z) : Prop := lt x y = true.
Hypothesis trans : forall x y z, R x y -> R y z -> R x z.

Lemma insert_by_in x y : forall l, In y (insert_by lt x l) <-> y = x \/ In y l.
Proof.
  induction l as [|z l IH]; cbn [insert_by In]; [intuition|]. destruct (lt z x); cbn [In]; [rewrite IH|]; intuition.
Qed.
Lemma sort_by_in y : forall l, In y (sort_by lt l) <-> In y l.
Proof.
  induction l as [|z l IH]; cbn [sort_by fold_right In]; [tauto|]. fold (sort_by lt l). rewrite insert_by_in, IH. intuition.
Qed.

Lemma insert_by_sorted x : forall l, StronglySorted R l -> (forall y, In y l -> R y x \/ R x y) ->
  StronglySorted R (insert_by lt x l).
Proof.
  induction l as [|z l IH]; intros Hs Ht; cbn [insert_by]; [constructor; [constructor|constructor]|].
  inversion Hs as [|? ? S F]; subst. rewrite Forall_forall in F. destruct (lt z x) eqn:E.
  - apply ss_cons; [apply IH; [exact S|intros y Hy; apply Ht; right; exact Hy]|].
    intros y Hy. apply insert_by_in in Hy. destruct Hy as [->|Hy]; [exact E|apply F; exact Hy].
  - assert (Hxz : R x z) by (destruct (Ht z (or_introl eq_refl)) as [H|H]; [unfold R in H; congruence|exact H]).
    apply ss_cons; [exact Hs|]. intros y [<-|Hy]; [exact Hxz|]. apply (trans x z y Hxz). apply F. exact Hy.
Qed.

Lemma sort_by_sorted : forall l, NoDup l -> (forall x y, In x l -> In y l -> x <> y -> R x y \/ R y x) ->
  StronglySorted R (sort_by lt l).
Proof.
  induction l as [|x l IH]; intros Hn Ht; cbn [sort_by fold_right]; [constructor|]. fold (sort_by lt l).
  inversion Hn as [|? ? Hx Hn']; subst. apply insert_by_sorted.
  - apply IH; [exact Hn'|]. intros a b Ha Hb. apply Ht; right; assumption.
  - intros y Hy. apply (proj1 (sort_by_in y l)) in Hy. apply or_comm. apply Ht; [left; reflexivity|right; exact Hy|].
    intros ->. contradiction.
Qed.
End Sort.

(* ------------------------------------------------------------------ the order on byte strings *)
Definition plt (p q : list Z) : Prop := pat_before p q = true.
Lemma plt_asym p q : plt p q -> plt q p -> False.
Proof. unfold plt, pat_before. apply dfs_before_asym. Qed.
Lemma plt_trans p q r : plt p q -> plt q r -> plt p r.
Proof. unfold plt, pat_before. apply dfs_before_trans. Qed.
Lemma plt_total p q : is_bytes p -> is_bytes q -> p <> q -> plt p q \/ plt q p.
Proof.
  intros Hp Hq Hne. unfold plt, pat_before. apply dfs_before_total. intros E. apply Hne.
  rewrite <- (wbytes_runes_of p Hp), <- (wbytes_runes_of q Hq), E. reflexivity.
Qed.

(* the specification list: sorted, and a rearrangement of the prefix set *)
Theorem spec_prefix_ordered_sorted al ps key : Forall is_bytes ps ->
  StronglySorted plt (spec_prefix_ordered al ps key) /\
  (forall y, In y (spec_prefix_ordered al ps key) <-> In y (spec_prefix al ps key)).
Proof.
  intros Hps. split; [|intros y; apply sort_by_in].
  apply (sort_by_sorted pat_before plt_trans); [apply spec_prefix_nodup|].
  assert (Hb : forall x, In x (spec_prefix al ps key) -> is_bytes x).
  { intros x Hx. unfold spec_prefix in Hx. apply filter_In in Hx. destruct Hx as [Hx _]. apply patterns_in in Hx.
    rewrite Forall_forall in Hps. apply Hps. tauto. }
  intros x y Hx Hy. apply plt_total; auto.
Qed.
Theorem spec_prefix_order_unique al ps key l : Forall is_bytes ps ->
  StronglySorted plt l -> (forall y, In y l <-> In y (spec_prefix al ps key)) -> l = spec_prefix_ordered al ps key.
Proof.
  intros Hps Hs Hi. destruct (spec_prefix_ordered_sorted al ps key Hps) as [S2 I2].
  apply (ss_unique plt plt_asym); [exact Hs|exact S2|]. intros y. rewrite Hi, I2. tauto.
Qed.

Theorem spec_prefix_ordered_meaning al ps key : Forall is_bytes ps ->
  StronglySorted (fun p q => pat_before p q = true) (spec_prefix_ordered al ps key) /\
  (forall y, In y (spec_prefix_ordered al ps key) <-> In y (spec_prefix al ps key)) /\
  (forall l, StronglySorted (fun p q => pat_before p q = true) l -> (forall y, In y l <-> In y (spec_prefix al ps key)) ->
             l = spec_prefix_ordered al ps key).
Proof.
  intros Hps. destruct (spec_prefix_ordered_sorted al ps key Hps) as [H1 H2]. split; [exact H1|]. split; [exact H2|].
  intros l. apply (spec_prefix_order_unique al ps key l Hps).
Qed.

(* ------------------------------------------------------------------ PrefixSearch, as a list *)
Theorem prefix_search_order ps key T : Forall is_bytes ps -> is_bytes key -> built ps T ->
  M.prefix_search T key = Ok (spec_prefix_ordered true ps key).
Proof.
  intros Hps Hb E. destruct (prefix_search_spec ps key T Hps Hb E) as (l & El & _ & Hi).
  rewrite El. f_equal. apply (spec_prefix_order_unique true ps key l Hps); [|exact Hi].
  destruct (built_facts ps T E) as [HS _]. pose proof (INS_inserts ps) as HI.
  destruct (prefix_search_sorted (inserts ps) T (ins_wf _ _ HI) HS (built_length ps T E) key l (wbytes_runes_of key Hb) El)
    as (out & -> & Hs & Hin).
  apply (ss_map wlt plt wbytes out Hs). intros a b Ha Hb' H. unfold plt, pat_before.
  rewrite (canon_nodes ps Hps a (Hin a Ha)), (canon_nodes ps Hps b (Hin b Hb')). exact H.
Qed.

(* ------------------------------------------------------------------ the model's order-sensitive outputs are the
   specification's lists, in the reading the run's judge selects (Model/TrieCase.v) *)
Theorem model_equals_ordered_spec ps text T : Forall is_bytes ps -> is_bytes text -> built ps T ->
  M.match_ T text = Ok (spec_match (mode_of ps) ps text) /\
  M.find_all T text = Ok (spec_find_all (mode_of ps) ps text) /\
  M.prefix_search T text = Ok (spec_prefix_ordered (negb (valid_utf8 text)) ps text).
Proof.
  intros Hps Hb E. split; [apply (model_accepted ps text T Hps Hb E)|]. split; [apply find_all_order_judge; assumption|].
  rewrite (prefix_search_order ps text T Hps Hb E). f_equal. unfold spec_prefix_ordered. f_equal.
  destruct (valid_utf8 text) eqn:Ev; [|reflexivity]. cbn [negb]. symmetry. apply spec_prefix_valid_eq; assumption.
Qed.

(* premises are satisfiable and the lists are not trivially empty: patterns "a", "ab", "b", "ac"; key "a" *)
Example order_example :
  (spec_prefix_ordered true [[97]; [97;98]; [98]; [97;99]] [97] = [[97]; [97;99]; [97;98]] /\
   map scope_of (occs true [[97]; [97;98]; [98]; [97;99]] [97;98;99]) = [(0,1); (0,2); (1,2)])%Z.
Proof. vm_compute. split; reflexivity. Qed.
