From Coq Require Import List ZArith NArith Lia Bool Arith ZifyN ZifyNat ZifyBool Sorted Permutation.
From V Require Import Lib.Enc Model.Bits.
From V Require Import Proofs.BitsBasic.
Import ListNotations.
Local Open Scope N_scope.
Ltac Zify.zify_post_hook ::= Z.div_mod_to_equations.   (* beyond b: append other.set[i] *)

(* on 64-bit words, x & ^y is ldiff *)
Lemma and_not_64 x y : x < 2 ^ 64 -> N.land x (N.lxor y (N.ones 64)) = N.ldiff x y.
Proof.
  intros Hx. apply N.bits_inj. intros n. rewrite N.land_spec, N.lxor_spec, N.ldiff_spec.
  destruct (N.ltb_spec n 64) as [Hn|Hn].
  - rewrite N.ones_spec_low by lia. destruct (N.testbit y n); reflexivity.
  - assert (N.testbit x n = false) as ->; [|reflexivity].
    destruct (N.eq_dec x 0) as [->|Hne]; [apply N.bits_0|]. apply N.bits_above_log2.
    apply N.log2_lt_pow2; try lia. eapply N.lt_le_trans; [exact Hx|]. apply N.pow_le_mono_r; lia.
Qed.

Lemma nth_diff : forall b o i, nth i (diff b o) 0 = N.ldiff (nth i b 0) (nth i o 0).
Proof.
  induction b as [|x b IH]; intros [|y o] [|i]; cbn [diff nth]; auto using N.ldiff_0_l, N.ldiff_0_r.
  all: try (symmetry; apply N.ldiff_0_r). all: destruct i; symmetry; apply N.ldiff_0_l.
Qed.
Lemma nth_inter : forall b o i, nth i (inter b o) 0 = N.land (nth i b 0) (nth i o 0).
Proof.
  induction b as [|x b IH]; intros o i; cbn [inter].
  - destruct i; cbn [nth]; rewrite N.land_0_l; reflexivity.
  - destruct o as [|y o]; destruct i as [|i]; cbn [nth].
    + rewrite N.land_0_r; reflexivity.
    + rewrite IH. destruct i; cbn [nth]; rewrite !N.land_0_r; reflexivity.
    + reflexivity.
    + apply IH.
Qed.
Lemma nth_merge : forall b o i, nth i (merge b o) 0 = N.lor (nth i b 0) (nth i o 0).
Proof.
  induction b as [|x b IH]; intros [|y o] [|i]; cbn [merge nth]; auto using N.lor_0_l, N.lor_0_r.
  all: try (rewrite N.lor_0_r; reflexivity). all: destruct i; reflexivity.
Qed.

Theorem diff_spec b o m : mem (diff b o) m = mem b m && negb (mem o m).
Proof. unfold mem. rewrite nth_diff, N.ldiff_spec. reflexivity. Qed.
Theorem inter_spec b o m : mem (inter b o) m = mem b m && mem o m.
Proof. unfold mem. rewrite nth_inter, N.land_spec. reflexivity. Qed.
Theorem merge_spec b o m : mem (merge b o) m = mem b m || mem o m.
Proof. unfold mem. rewrite nth_merge, N.lor_spec. reflexivity. Qed.
Lemma diff_length : forall b o, length (diff b o) = length b.           (* Diff never resizes the receiver *)
Proof. induction b as [|x b IH]; intros [|y o]; cbn [diff length]; auto. Qed.
Lemma merge_length : forall b o, length (merge b o) = Nat.max (length b) (length o).
Proof. induction b as [|x b IH]; intros [|y o]; cbn [merge length]; auto; rewrite ?IH; lia. Qed.
Lemma mlist_length : forall set k, length (mlist k set) = len set.
Proof. induction set as [|w t IH]; intros k; cbn [mlist len]; [reflexivity|]. rewrite app_length, map_length, IH. unfold popcount. reflexivity. Qed.

Lemma in_bits64 j : In j bits64 <-> j < 64.
Proof.
  unfold bits64. rewrite in_map_iff. split.
  - intros (n & <- & Hn). apply in_seq in Hn. lia.
  - intros H. exists (N.to_nat j). split; [lia|]. apply in_seq. lia.
Qed.
Lemma mem_cons_lo w t q : q < 64 -> mem (w :: t) q = N.testbit w q.
Proof. intros H. unfold mem. replace (q / 64) with 0 by lia. replace (q mod 64) with q by lia. reflexivity. Qed.
Lemma mem_cons_hi w t q : 64 <= q -> mem (w :: t) q = mem t (q - 64).
Proof.
  intros H. unfold mem. replace (N.to_nat (q / 64)) with (S (N.to_nat ((q - 64) / 64))) by lia.
  replace (q mod 64) with ((q - 64) mod 64) by lia. reflexivity.
Qed.

Lemma in_mlist : forall set k p, In p (mlist k set) <-> 64 * k <= p /\ mem set (p - 64 * k) = true.
Proof.
  induction set as [|w t IH]; intros k p; cbn [mlist].
  - split; [intros []|]. intros [_ H]. unfold mem in H. rewrite nth_overflow in H by (cbn [length]; lia). rewrite N.bits_0 in H. discriminate.
  - rewrite in_app_iff, in_map_iff, IH. split.
    + intros [(j & <- & Hj) | [H1 H2]].
      * apply filter_In in Hj. destruct Hj as [Hj Hb]. apply in_bits64 in Hj. split; [lia|].
        replace (64 * k + j - 64 * k) with j by lia. rewrite mem_cons_lo; auto.
      * split; [lia|]. rewrite mem_cons_hi by lia. replace (p - 64 * k - 64) with (p - 64 * (k + 1)) by lia. exact H2.
    + intros [H1 H2]. destruct (N.ltb_spec (p - 64 * k) 64) as [Hlo|Hhi].
      * left. exists (p - 64 * k). split; [lia|]. apply filter_In. split; [apply in_bits64; auto|]. rewrite mem_cons_lo in H2; auto.
      * right. split; [lia|]. rewrite mem_cons_hi in H2 by lia. replace (p - 64 * (k + 1)) with (p - 64 * k - 64) by lia. exact H2.
Qed.

Lemma bits64_sorted : StronglySorted N.lt bits64.
Proof.
  unfold bits64. generalize 64%nat. intros n. generalize 0%nat. induction n as [|n IH]; intros a; cbn [seq map]; constructor; auto.
  apply Forall_forall. intros x Hx. apply in_map_iff in Hx. destruct Hx as (y & <- & Hy). apply in_seq in Hy. lia.
Qed.
Lemma sorted_filter (f : N -> bool) l : StronglySorted N.lt l -> StronglySorted N.lt (filter f l).
Proof.
  induction l as [|x l IH]; intros H; cbn [filter]; [constructor|]. inversion H as [|? ? Hs Hall]; subst.
  destruct (f x); auto. constructor; auto. rewrite Forall_forall in *. intros y Hy. apply filter_In in Hy. apply Hall. tauto.
Qed.
Lemma sorted_map_add c l : StronglySorted N.lt l -> StronglySorted N.lt (map (fun j => c + j) l).
Proof.
  induction l as [|x l IH]; intros H; cbn [map]; [constructor|]. inversion H as [|? ? Hs Hall]; subst. constructor; auto.
  rewrite Forall_forall in *. intros y Hy. apply in_map_iff in Hy. destruct Hy as (z & <- & Hz). specialize (Hall z Hz). lia.
Qed.
Lemma sorted_appN a b : StronglySorted N.lt a -> StronglySorted N.lt b -> (forall x y, In x a -> In y b -> x < y) -> StronglySorted N.lt (a ++ b).
Proof.
  induction a as [|x a IH]; intros Ha Hb H; cbn [app]; auto. inversion Ha; subst. constructor.
  - apply IH; auto. intros; apply H; auto. right; auto.
  - apply Forall_app. split; auto. apply Forall_forall. intros y Hy. apply H; auto. left; auto.
Qed.
Lemma mlist_sorted : forall set k, StronglySorted N.lt (mlist k set).
Proof.
  induction set as [|w t IH]; intros k; cbn [mlist]; [constructor|]. apply sorted_appN; auto.
  - apply sorted_map_add, sorted_filter, bits64_sorted.
  - intros x y Hx Hy. apply in_map_iff in Hx. destruct Hx as (j & <- & Hj). apply filter_In in Hj. destruct Hj as [Hj _].
    apply in_bits64 in Hj. apply in_mlist in Hy. lia.
Qed.
Lemma sorted_NoDup l : StronglySorted N.lt l -> NoDup l.
Proof.
  induction l as [|x l IH]; intros H; constructor; inversion H as [|? ? Hs Hall]; subst; auto.
  intros Hin. rewrite Forall_forall in Hall. specialize (Hall x Hin). lia.
Qed.

(* Len counts the members: a duplicate-free ascending list of exactly the members has Len elements *)
Theorem len_spec set :
  let l := mlist 0 set in length l = len set /\ StronglySorted N.lt l /\ forall p, In p l <-> mem set p = true.
Proof.
  cbv zeta. split; [apply mlist_length|]. split; [apply mlist_sorted|]. intros p. rewrite in_mlist.
  replace (p - 64 * 0) with p by lia. split; [tauto|]. intros; split; [lia|auto].
Qed.

(* any two word arrays with the same members have the same Len; so Len depends on the set only *)
Corollary len_ext s1 s2 : (forall p, mem s1 p = mem s2 p) -> len s1 = len s2.
Proof.
  intros H. destruct (len_spec s1) as (L1 & S1 & I1). destruct (len_spec s2) as (L2 & S2 & I2). cbv zeta in *.
  rewrite <- L1, <- L2. apply Permutation_length. apply NoDup_Permutation; auto using sorted_NoDup.
  intros p. rewrite I1, I2, H. reflexivity.
Qed.

(* the cached length of setz.Bits: Add/Remove adjust it by exactly what Len changes by *)
Theorem add_len set num : len (fst (add set num)) = (len set + if snd (add set num) then 1 else 0)%nat.
Proof.
  destruct (add_spec set num) as [Hf Hm]. destruct (len_spec set) as (L1 & S1 & I1). destruct (len_spec (fst (add set num))) as (L2 & S2 & I2).
  cbv zeta in *. rewrite <- L1, <- L2, Hf. destruct (mem set num) eqn:E; cbn [negb].
  - rewrite Nat.add_0_r. apply Permutation_length. apply NoDup_Permutation; auto using sorted_NoDup.
    intros p. rewrite I1, I2, Hm. destruct (N.eqb_spec p num) as [->|_]; cbn [orb]; [rewrite E|]; tauto.
  - rewrite Nat.add_1_r. change (S (length (mlist 0 set))) with (length (num :: mlist 0 set)).
    apply Permutation_length. apply NoDup_Permutation; auto using sorted_NoDup.
    + constructor; auto using sorted_NoDup. rewrite I1, E. discriminate.
    + intros p. cbn [In]. rewrite I1, I2, Hm. destruct (N.eqb_spec p num) as [->|Hne]; cbn [orb]; [tauto|]. split; auto. intros [H|H]; congruence.
Qed.
Theorem remove_len set num : (len (fst (Bits.remove set num)) + if snd (Bits.remove set num) then 1 else 0)%nat = len set.
Proof.
  destruct (remove_spec set num) as [Hf Hm]. destruct (len_spec set) as (L1 & S1 & I1). destruct (len_spec (fst (Bits.remove set num))) as (L2 & S2 & I2).
  cbv zeta in *. rewrite <- L1, <- L2, Hf. destruct (mem set num) eqn:E.
  - rewrite Nat.add_1_r. change (S (length (mlist 0 (fst (Bits.remove set num))))) with (length (num :: mlist 0 (fst (Bits.remove set num)))).
    apply Permutation_length. apply NoDup_Permutation; auto using sorted_NoDup.
    + constructor; auto using sorted_NoDup. rewrite I2, Hm, N.eqb_refl. discriminate.
    + intros p. cbn [In]. rewrite I1, I2, Hm. destruct (N.eqb_spec p num) as [->|Hne]; cbn [negb andb]; [tauto|]. split; auto. intros [H|H]; congruence.
  - rewrite Nat.add_0_r. apply Permutation_length. apply NoDup_Permutation; auto using sorted_NoDup.
    intros p. rewrite I1, I2, Hm. destruct (N.eqb_spec p num) as [->|_]; cbn [negb andb]; [rewrite E|]; split; auto; discriminate.
Qed.
Print Assumptions len_spec.
Print Assumptions add_len.
Print Assumptions remove_len.
Print Assumptions merge_spec.
