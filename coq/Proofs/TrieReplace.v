(* C06 — Replace over merged scopes: never slices out of range, equals the splice; with an empty replacement exactly
   the uncovered bytes remain, in order.  Byte level, any stop-sorted scope list inside the text: independent of the
   automaton.  From design-notes/proto/ReplaceSplice_proto.v, carried to the Z offsets of Model.Trie. *)
From Coq Require Import List ZArith Lia Bool.
From V Require Import Model.Trie Proofs.TrieMerge.
Import ListNotations.
Local Open Scope Z_scope.

(* merged scopes: disjoint, increasing, non-empty, inside the text, starting at or after `from` *)
Fixpoint goodz (from len : Z) (m : list iv) : Prop :=
  match m with [] => 0 <= from <= len | (a, b) :: t => 0 <= from <= a /\ a < b /\ goodz b len t end.

(* the text from offset `from` on, with every scope replaced by one copy of repl *)
Fixpoint splicez (text repl : bytes) (from : Z) (m : list iv) : bytes :=
  match m with
  | [] => skipn (Z.to_nat from) text
  | (a, b) :: t => firstn (Z.to_nat (a - from)) (skipn (Z.to_nat from) text) ++ repl ++ splicez text repl b t
  end.

Lemma goodz_bound from len m : goodz from len m -> 0 <= from <= len.
Proof.
  revert from; induction m as [|[a b] t IH]; cbn [goodz]; intros from H; [exact H|].
  destruct H as (H1 & H2 & H3). apply IH in H3. lia.
Qed.

Lemma slice_ok (s : bytes) a b : 0 <= a -> a <= b -> b <= Z.of_nat (length s) ->
  slice s a b = Some (firstn (Z.to_nat (b - a)) (skipn (Z.to_nat a) s)).
Proof.
  intros H1 H2 H3. unfold slice.
  destruct (Z.leb_spec 0 a); [|lia]. destruct (Z.leb_spec a b); [|lia].
  destruct (Z.leb_spec b (Z.of_nat (length s))); [|lia]. reflexivity.
Qed.

Theorem replace_go_spec text repl : forall m from out, goodz from (Z.of_nat (length text)) m ->
  replace_go text repl from m out = Some (out ++ splicez text repl from m).
Proof.
  induction m as [|[a b] t IH]; intros from out Hg; cbn [replace_go splicez goodz] in *.
  - rewrite slice_ok by lia.
    rewrite firstn_all2 by (rewrite skipn_length; lia). reflexivity.
  - destruct Hg as (H1 & H2 & H3). pose proof (goodz_bound _ _ _ H3) as Hb.
    rewrite slice_ok by lia. rewrite IH by auto. rewrite <- !app_assoc. reflexivity.
Qed.

(* disjoint, increasing, non-empty scopes inside [from, len] are good *)
Lemma disj_goodz len : forall m from, disj m -> wf m -> 0 <= from <= len ->
  (forall x, In x m -> from <= fst x /\ snd x <= len) -> goodz from len m.
Proof.
  induction m as [|[a b] t IH]; intros from Hd Hw Hf Hin; cbn [goodz]; [exact Hf|].
  inversion Hw as [|? ? Hab Hw']; subst. cbn [fst snd] in Hab.
  destruct (Hin (a, b) (or_introl eq_refl)) as [Ha Hb]. cbn [fst snd] in Ha, Hb.
  split; [lia|]. split; [lia|]. apply IH; auto.
  - destruct t; [exact I|]. cbn [disj] in Hd. tauto.
  - lia.
  - intros x Hx. split; [|apply Hin; right; exact Hx].
    (* b <= fst x by disjointness and order *)
    clear IH Hin Hf Ha Hb Hw Hab. revert a b Hd Hw' x Hx. induction t as [|[c d] t IHt]; intros a b Hd Hw' x Hx; [destruct Hx|].
    cbn [disj] in Hd. destruct Hd as [Hbc Hd]. cbn [fst snd] in Hbc.
    destruct Hx as [<-|Hx]; [cbn [fst]; lia|].
    inversion Hw' as [|? ? Hcd Hw'']; subst. cbn [fst snd] in Hcd.
    specialize (IHt c d Hd Hw'' x Hx). lia.
Qed.

(* ---- C06: Replace is total over any stop-sorted list of non-empty scopes inside the text ---- *)
Definition in_text (len : Z) (sc : list iv) : Prop := forall o, In o sc -> 0 <= fst o /\ snd o <= len.

Theorem replace_total text repl sc : stop_sorted sc -> wf sc -> in_text (Z.of_nat (length text)) sc ->
  exists m, merge_scopes sc = Some m /\
    replace_go text repl 0 m [] = Some (splicez text repl 0 m) /\
    goodz 0 (Z.of_nat (length text)) m /\
    (forall i, covered m i <-> covered sc i) /\
    (forall o, In o sc -> exists x, In x m /\ inside o x) /\
    (forall x, In x m -> exists o, In o sc /\ inside o x).
Proof.
  intros Hss Hwf Hin. destruct (merge_spec sc Hss Hwf) as (m & E & Hd & Hw & Hc & Hi & Hh).
  exists m. split; [exact E|].
  assert (Hg : goodz 0 (Z.of_nat (length text)) m).
  { apply disj_goodz; auto; [lia|]. intros x Hx. destruct (Hh x Hx) as (o & Ho & Hio).
    unfold wf in Hw. rewrite Forall_forall in Hw. specialize (Hw x Hx). cbn beta in Hw.
    (* both end points of x are end points of covered positions *)
    assert (C1 : covered sc (fst x)) by (apply Hc; exists x; split; auto; lia).
    assert (C2 : covered sc (snd x - 1)) by (apply Hc; exists x; split; auto; lia).
    destruct C1 as (o1 & Ho1 & R1). destruct C2 as (o2 & Ho2 & R2).
    destruct (Hin o1 Ho1). destruct (Hin o2 Ho2). lia. }
  split; [|repeat (split; [assumption|]); assumption].
  rewrite (replace_go_spec text repl m 0 [] Hg). reflexivity.
Qed.

(* ---- with an empty replacement, exactly the uncovered bytes remain, in order ---- *)
Definition coveredb (m : list iv) (i : Z) : bool := existsb (fun x => (fst x <=? i) && (i <? snd x)) m.
(* the bytes of l (which starts at absolute offset i) that no scope covers *)
Fixpoint uncovered (m : list iv) (i : Z) (l : bytes) : bytes :=
  match l with
  | [] => []
  | x :: t => if coveredb m i then uncovered m (i + 1) t else x :: uncovered m (i + 1) t
  end.

Lemma coveredb_iff m i : coveredb m i = true <-> covered m i.
Proof.
  unfold coveredb, covered. rewrite existsb_exists. split; intros (x & Hx & H); exists x; split; auto.
  - apply andb_prop in H. destruct H as [H1 H2]. apply Z.leb_le in H1. apply Z.ltb_lt in H2. lia.
  - apply andb_true_intro. split; [apply Z.leb_le|apply Z.ltb_lt]; lia.
Qed.

Lemma uncovered_app m : forall a b i, uncovered m i (a ++ b) = uncovered m i a ++ uncovered m (i + Z.of_nat (length a)) b.
Proof.
  induction a as [|x a IH]; intros b i; cbn [app uncovered length].
  - rewrite Z.add_0_r. reflexivity.
  - rewrite IH. replace (i + 1 + Z.of_nat (length a)) with (i + Z.of_nat (S (length a))) by lia.
    destruct (coveredb m i); reflexivity.
Qed.
Lemma uncovered_none m : forall l i, (forall j, i <= j < i + Z.of_nat (length l) -> coveredb m j = false) -> uncovered m i l = l.
Proof.
  induction l as [|x l IH]; intros i H; cbn [uncovered]; [reflexivity|].
  rewrite H by (cbn [length]; lia). f_equal. apply IH. intros j Hj. apply H. cbn [length]. lia.
Qed.
Lemma uncovered_all m : forall l i, (forall j, i <= j < i + Z.of_nat (length l) -> coveredb m j = true) -> uncovered m i l = [].
Proof.
  induction l as [|x l IH]; intros i H; cbn [uncovered]; [reflexivity|].
  rewrite H by (cbn [length]; lia). apply IH. intros j Hj. apply H. cbn [length]. lia.
Qed.

Lemma goodz_not_before len : forall m from, goodz from len m -> forall j, j < from -> coveredb m j = false.
Proof.
  induction m as [|[a b] t IH]; intros from H j Hj; [reflexivity|]. cbn [goodz] in H. destruct H as (H1 & H2 & H3).
  cbn [coveredb existsb fst snd]. destruct (Z.leb_spec a j); [lia|]. cbn [andb orb]. apply (IH b); auto. lia.
Qed.

Lemma skipn_skipn {A} x y (l : list A) : skipn x (skipn y l) = skipn (x + y) l.
Proof.
  revert l; induction y as [|y IH]; intros l; [rewrite Nat.add_0_r; reflexivity|].
  destruct l as [|a l]; [rewrite !skipn_nil; reflexivity|]. cbn [skipn]. rewrite IH.
  replace (x + S y)%nat with (S (x + y)) by lia. reflexivity.
Qed.

Theorem splice_uncovered text : forall m from, goodz from (Z.of_nat (length text)) m ->
  splicez text [] from m = uncovered m from (skipn (Z.to_nat from) text).
Proof.
  induction m as [|[a b] t IH]; intros from Hg; cbn [splicez goodz] in *.
  - symmetry. apply uncovered_none. intros j _. reflexivity.
  - destruct Hg as (H1 & H2 & H3). pose proof (goodz_bound _ _ _ H3) as Hb.
    set (R := skipn (Z.to_nat from) text).
    assert (LR : length R = Z.to_nat (Z.of_nat (length text) - from)) by (unfold R; rewrite skipn_length; lia).
    assert (ER : R = firstn (Z.to_nat (a - from)) R ++ firstn (Z.to_nat (b - a)) (skipn (Z.to_nat (a - from)) R)
                       ++ skipn (Z.to_nat (b - a)) (skipn (Z.to_nat (a - from)) R))
      by (rewrite !firstn_skipn; reflexivity).
    rewrite ER at 2. rewrite !uncovered_app.
    assert (L1 : length (firstn (Z.to_nat (a - from)) R) = Z.to_nat (a - from)) by (rewrite firstn_length; lia).
    assert (L2 : length (firstn (Z.to_nat (b - a)) (skipn (Z.to_nat (a - from)) R)) = Z.to_nat (b - a))
      by (rewrite firstn_length, skipn_length; lia).
    rewrite L1, L2. cbn [app]. f_equal.
    + symmetry. apply uncovered_none. rewrite L1. intros j Hj. cbn [coveredb existsb fst snd].
      destruct (Z.leb_spec a j); [lia|]. cbn [andb orb]. apply (goodz_not_before _ t b H3). lia.
    + rewrite uncovered_all.
      2:{ rewrite L2. intros j Hj. cbn [coveredb existsb fst snd].
          destruct (Z.leb_spec a j); [|lia]. destruct (Z.ltb_spec j b); [|lia]. reflexivity. }
      cbn [app]. rewrite IH by auto.
      replace (from + Z.of_nat (Z.to_nat (a - from)) + Z.of_nat (Z.to_nat (b - a))) with b by lia.
      unfold R. rewrite !skipn_skipn.
      replace (Z.to_nat (b - a) + Z.to_nat (a - from) + Z.to_nat from)%nat with (Z.to_nat b) by lia.
      (* beyond b only the later scopes matter *)
      generalize (skipn (Z.to_nat b) text) as rest. intros rest.
      assert (G : forall rest i, b <= i -> uncovered ((a, b) :: t) i rest = uncovered t i rest).
      { induction rest0 as [|c r IHr]; intros i Hi; cbn [uncovered]; [reflexivity|]. rewrite IHr by lia.
        cbn [coveredb existsb fst snd]. destruct (Z.ltb_spec i b); [lia|]. rewrite andb_false_r. reflexivity. }
      symmetry. apply G. lia.
Qed.

(* ---- how many copies of the replacement a region gets: one per merged interval inside it; between one and the number
        of occurrences inside it for a maximal covered region ---- *)
Definition inR (a b : Z) (x : iv) : bool := (a <=? fst x) && (snd x <=? b).

Fixpoint disjS (l : list iv) : Prop :=
  match l with [] => True | a :: t => (forall b, In b t -> snd a <= fst b) /\ disjS t end.
Lemma disj_disjS : forall m, disj m -> wf m -> disjS m.
Proof.
  induction m as [|a m IH]; intros Hd Hw; [exact I|]. inversion Hw as [|? ? Ha Hw']; subst. cbn beta in Ha.
  assert (Hd' : disj m) by (destruct m; [exact I|cbn [disj] in Hd; tauto]).
  split; [|apply IH; auto].
  specialize (IH Hd' Hw'). destruct m as [|c m]; [intros b []|]. cbn [disj] in Hd. destruct Hd as [Hac _].
  intros b [<-|Hb]; [exact Hac|]. destruct IH as [IH1 _]. specialize (IH1 b Hb).
  inversion Hw' as [|? ? Hc _]; subst. cbn beta in Hc. lia.
Qed.
Lemma disjS_filter f : forall m, disjS m -> disjS (filter f m).
Proof.
  induction m as [|a m IH]; intros H; [exact I|]. destruct H as [H1 H2]. cbn [filter]. destruct (f a); [|apply IH; exact H2].
  split; [|apply IH; exact H2]. intros b Hb. apply filter_In in Hb. apply H1. tauto.
Qed.
Lemma choose_all {X Y} (P : X -> Y -> Prop) : forall l, (forall x, In x l -> exists o, P x o) -> exists os, Forall2 P l os.
Proof.
  induction l as [|x l IH]; intros H; [exists []; constructor|].
  destruct (H x (or_introl eq_refl)) as (o & Ho). destruct (IH (fun y Hy => H y (or_intror Hy))) as (os & Hos).
  exists (o :: os). constructor; assumption.
Qed.

Lemma F2_length {X Y} (P : X -> Y -> Prop) l os : Forall2 P l os -> length l = length os.
Proof. induction 1; cbn [length]; congruence. Qed.

Theorem copies_at_most sc m a b : disj m -> wf m -> wf sc ->
  (forall x, In x m -> exists o, In o sc /\ inside o x) ->
  (length (filter (inR a b) m) <= length (filter (inR a b) sc))%nat.
Proof.
  intros Hd Hw Hws Hhas.
  pose proof (disjS_filter (inR a b) m (disj_disjS m Hd Hw)) as HD.
  set (mR := filter (inR a b) m) in *.
  destruct (choose_all (fun x o => In o sc /\ inside o x) mR) as (os & Hos).
  { intros x Hx. apply Hhas. apply filter_In in Hx. tauto. }
  rewrite (F2_length _ _ _ Hos). apply NoDup_incl_length.
  - (* the chosen occurrences are pairwise different: they lie in disjoint intervals and are non-empty *)
    clear -Hos HD Hws. induction Hos as [|x o l os [Ho Hi] Hrest IH]; [constructor|]. destruct HD as [HD1 HD2]. constructor; [|apply IH; exact HD2].
    intros Hin. clear IH. induction Hrest as [|y o' l' os' [Ho' Hi'] Hr IHr]; [destruct Hin|].
    destruct Hin as [E|Hin].
    + subst o'. specialize (HD1 y (or_introl eq_refl)). unfold wf in Hws. rewrite Forall_forall in Hws. specialize (Hws o Ho).
      unfold inside in *. cbn beta in Hws. lia.
    + apply IHr; auto. intros b0 Hb0. apply HD1. right. exact Hb0. destruct HD2; assumption.
  - intros o Ho. apply filter_In.
    assert (G : forall l os, Forall2 (fun x o => In o sc /\ inside o x) l os -> (forall x, In x l -> inR a b x = true) ->
                forall o, In o os -> In o sc /\ inR a b o = true).
    { clear. induction 1 as [|x o l os [H1 H2] Hr IH]; intros Hl o' Ho'; [destruct Ho'|]. destruct Ho' as [<-|Ho'].
      - split; [exact H1|]. specialize (Hl x (or_introl eq_refl)). unfold inR, inside in *.
        apply andb_prop in Hl. destruct Hl as [L1 L2]. apply Z.leb_le in L1. apply Z.leb_le in L2.
        apply andb_true_intro. split; apply Z.leb_le; lia.
      - apply IH; auto. intros y Hy. apply Hl. right. exact Hy. }
    apply (G mR os Hos); [|exact Ho]. intros x Hx. apply filter_In in Hx. tauto.
Qed.

Theorem copies_at_least_one sc m a b : wf m -> (forall i, covered m i <-> covered sc i) ->
  a < b -> (forall i, a <= i < b -> covered sc i) -> ~ covered sc (a - 1) -> ~ covered sc b ->
  exists x, In x m /\ inR a b x = true.
Proof.
  intros Hw Hc Hab Hin Hlo Hhi.
  assert (Ca : covered m a) by (apply Hc, Hin; lia). destruct Ca as (x & Hx & Hr).
  exists x. split; [exact Hx|]. unfold inR. apply andb_true_intro. split; apply Z.leb_le.
  - destruct (Z_lt_le_dec (fst x) a) as [H|H]; [|exact H]. exfalso. apply Hlo. apply Hc. exists x. split; [exact Hx|lia].
  - destruct (Z_lt_le_dec b (snd x)) as [H|H]; [|exact H]. exfalso. apply Hhi. apply Hc. exists x. split; [exact Hx|lia].
Qed.
