(* C10 — the code GENERATED from ringz/ring.go and roundupPowOfTwo (coq/Gen/RingCode.v, by gen/trans.go on every run)
   is equal to the hand-written model of Model/RingSeq.v / Model/SyncRingSeq.v, function by function, for all arguments
   and states.  Proof style: unfold both sides completely, case analysis on every condition / option, lia. *)
From Coq Require Import List ZArith Lia Bool Arith.
From V Require Import Lib.GoSem Proofs.GoSemFacts Gen.Ringz Gen.RingCode Model.RingSeq Model.SyncRingSeq Proofs.SyncRingCap Lib.Enc Run.C10 Run.C10Code.
Import ListNotations.
Local Open Scope Z_scope.

(* ---- the explicit, total conversions between the generated Record and the model's record *)
Definition to_model (r : Ring) : ring :=
  {| vals := Ring_values r; head := Ring_head r; tail := Ring_tail r; cap := Ring_cap r |}.
Definition of_model (r : ring) : Ring := mkRing (vals r) (head r) (tail r) (cap r).
Lemma of_to r : of_model (to_model r) = r. Proof. destruct r; reflexivity. Qed.
Lemma to_of r : to_model (of_model r) = r. Proof. destruct r; reflexivity. Qed.

(* result conversions: Go returns (value, ok), the model (ok, value) *)
Definition st_res {A} (p : ring * A) : Ring * A := (of_model (fst p), snd p).
Definition swap_res (p : bool * Z) : Z * bool := (snd p, fst p).
Definition st_swap_res (p : ring * (bool * Z)) : Ring * (Z * bool) := (of_model (fst p), swap_res (snd p)).

Ltac unfold_code :=
  repeat autounfold with go2v;
  cbv beta iota zeta delta [g_New g_Ring_Init g_Ring_IsEmpty g_Ring_IsFull g_Ring_Push g_Ring_Pop g_Ring_Peek g_Ring_Len
    g_Ring_Cap g_Ring_Recap g_Ring_PushWithExpand
    set_Ring_values set_Ring_head set_Ring_tail set_Ring_cap Ring_values Ring_head Ring_tail Ring_cap zero_Ring
    to_model of_model st_res swap_res st_swap_res fst snd vals head tail cap
    bind mmap lift m_rem m_quot m_get m_set m_slice m_make m_shl m_shr copy_all zlen
    init is_empty is_full push pop peek len recap push_expand
    ring_init_head ring_init_tail ring_empty ring_expand_factor ring_push_first_head ring_pop_last_head
    ring_pop_last_tail ring_recap_empty_head ring_recap_head ring_recap_empty_tail
    gorem goquot get_at set_at].

Ltac break1 :=
  match goal with
  | |- context [if ?c then _ else _] => destruct c eqn:?
  | |- context [match ?x with Some _ => _ | None => _ end] => destruct x eqn:?
  | |- context [match ?x with Ret _ => _ | Panic => _ | NoFuel => _ end] => destruct x eqn:?
  | |- context [match ?x with (_, _) => _ end] => destruct x eqn:?
  end.
Ltac zb :=
  repeat match goal with
  | H : (_ =? _) = true |- _ => apply Z.eqb_eq in H
  | H : (_ =? _) = false |- _ => apply Z.eqb_neq in H
  | H : (_ <=? _) = true |- _ => apply Z.leb_le in H
  | H : (_ <=? _) = false |- _ => apply Z.leb_gt in H
  | H : (_ <? _) = true |- _ => apply Z.ltb_lt in H
  | H : (_ <? _) = false |- _ => apply Z.ltb_ge in H
  | H : negb _ = true |- _ => apply negb_true_iff in H
  | H : negb _ = false |- _ => apply negb_false_iff in H
  | H : orb _ _ = true |- _ => apply orb_true_iff in H
  | H : orb _ _ = false |- _ => apply orb_false_iff in H; destruct H
  | H : andb _ _ = true |- _ => apply andb_true_iff in H; destruct H
  | H : andb _ _ = false |- _ => apply andb_false_iff in H
  end.
Ltac finish := try reflexivity; try congruence; zb; try lia; try (exfalso; intuition lia); try (repeat f_equal; lia).
Ltac crush := intros; unfold_code;
  repeat first [rewrite m_copy_tail by (rewrite gocopy_length; apply Nat.le_min_l) | break1]; finish.

Theorem code_Init : forall r c, g_Ring_Init r c = mmap of_model (lift (init c)).
Proof. destruct r; crush. Qed.
Theorem code_New : forall c, g_New c = mmap of_model (lift (init c)).
Proof. crush. Qed.
Theorem code_IsEmpty : forall r, g_Ring_IsEmpty r = Ret (is_empty (to_model r)).
Proof. destruct r; crush. Qed.
Theorem code_IsFull : forall r, g_Ring_IsFull r = lift (is_full (to_model r)).
Proof. destruct r; crush. Qed.
Theorem code_Push : forall r v, g_Ring_Push r v = mmap st_res (lift (push (to_model r) v)).
Proof. destruct r; crush. Qed.
Theorem code_Pop : forall r, g_Ring_Pop r = mmap st_swap_res (lift (pop (to_model r))).
Proof. destruct r; crush. Qed.
Theorem code_Peek : forall r, g_Ring_Peek r = mmap swap_res (lift (peek (to_model r))).
Proof. destruct r; crush. Qed.
Theorem code_Len : forall r, g_Ring_Len r = Ret (len (to_model r)).
Proof. destruct r; crush. Qed.
Theorem code_Cap : forall r, g_Ring_Cap r = Ret (cap (to_model r)).
Proof. destruct r; crush. Qed.

Theorem code_Recap : forall r c, g_Ring_Recap r c = mmap st_res (lift (recap (to_model r) c)).
Proof. destruct r; crush. Qed.
Theorem code_PushWithExpand : forall r v, g_Ring_PushWithExpand r v = mmap of_model (lift (push_expand (to_model r) v)).
Proof. destruct r; crush. Qed.

(* ---------------------------------------------------------------- roundupPowOfTwo (ringz/sync.go): a loop *)
(* the generated loop, taken out of the generated definition itself: state = (pos, i) *)
Definition rp_while (fuel : nat) (s : Z * Z) : M (Z * Z + Z) :=
  ltac:(let t := eval cbv beta zeta delta [g_roundupPowOfTwo] in (g_roundupPowOfTwo fuel 0) in
        match t with context [while fuel ?c ?b ?p _] => exact (while fuel c b p s) end).

(* what the generated function does with the loop's result *)
Definition rp_after : (Z * Z + Z) -> M Z :=
  ltac:(let t := eval cbv beta zeta delta [g_roundupPowOfTwo] in (g_roundupPowOfTwo 0%nat 0) in
        match t with bind (while _ _ _ _ _) ?k => exact k end).

(* ... is the model's bits_loop, fuel for fuel, for every start state *)
Lemma rp_while_bits : forall fuel i pos,
  rp_while fuel (pos, i) = match bits_loop fuel i pos with Some p => Ret (inl (p, 0)) | None => NoFuel end.
Proof.
  unfold rp_while. induction fuel as [|f IH]; intros i pos; [reflexivity|].
  rewrite while_step. cbn [bits_loop]. unfold roundup_stop, roundup_shift. cbv beta iota zeta delta [bind].
  destruct (i =? 0) eqn:E; cbn [negb]; cbv beta iota zeta.
  - apply Z.eqb_eq in E. subst i. reflexivity.
  - apply IH.
Qed.

Lemma bits_loop_ge : forall fuel i pos p, bits_loop fuel i pos = Some p -> pos <= p.
Proof.
  induction fuel as [|f IH]; intros i pos p; cbn [bits_loop]; [discriminate|].
  destruct (i =? roundup_stop); [intros [= <-]; lia|]. intros H. apply IH in H. lia.
Qed.
Lemma bits_loop_more : forall k fuel i pos p, bits_loop fuel i pos = Some p -> bits_loop (fuel + k) i pos = Some p.
Proof.
  induction fuel as [|f IH]; intros i pos p; cbn [bits_loop Nat.add]; [discriminate|].
  destruct (i =? roundup_stop); [trivial|]. apply IH.
Qed.

(* for EVERY fuel and EVERY x: the generated function is the model's loop with that fuel followed by u32 (1 << pos) *)
Theorem code_roundup_fuel : forall fuel x,
  g_roundupPowOfTwo fuel x = lift_fuel (option_map (fun pos => u32 (Z.shiftl roundup_base pos)) (bits_loop fuel x 0)).
Proof.
  intros. change (g_roundupPowOfTwo fuel x) with (bind (rp_while fuel (0, x)) rp_after).
  rewrite rp_while_bits. destruct (bits_loop fuel x 0) as [p|] eqn:E; [|reflexivity].
  apply bits_loop_ge in E. cbv beta iota zeta delta [rp_after bind m_shl option_map lift_fuel].
  destruct (Z.ltb_spec p 0); [lia|]. reflexivity.
Qed.

(* with fuel 64, on the model's domain (the model runs its loop with fuel 40; uint32 arguments are below 2^32) *)
Theorem code_roundup : forall x, 0 <= x < 2 ^ 39 -> g_roundupPowOfTwo 64 x = lift_fuel (roundup x).
Proof.
  intros x Hx. rewrite code_roundup_fuel. unfold roundup.
  destruct (bits_loop_spec 40 x 0 Hx) as (n & E & _). rewrite E.
  change 64%nat with (40 + 24)%nat. rewrite (bits_loop_more 24 40 x 0 _ E). reflexivity.
Qed.

(* fuel 64 suffices for every n < 2^63 *)
Theorem code_roundup_fuel64 : forall x, 0 <= x < 2 ^ 63 -> exists v, g_roundupPowOfTwo 64 x = Ret v.
Proof.
  intros x Hx. rewrite code_roundup_fuel. destruct (bits_loop_spec 64 x 0 Hx) as (n & E & _). rewrite E. eexists. reflexivity.
Qed.

(* ---------------------------------------------------------------- the case interpreter through the generated code *)
Lemma gstep_step : forall r o, gstep r o = mmap st_res (lift (step (to_model r) o)).
Proof.
  intros r o. destruct o; cbn [gstep step];
    rewrite ?code_Push, ?code_Pop, ?code_Peek, ?code_Len, ?code_IsEmpty, ?code_IsFull, ?code_Cap, ?code_Recap,
            ?code_PushWithExpand, ?code_Init;
    repeat match goal with
    | |- context [match ?x with Some _ => _ | None => _ end] => destruct x as [?|]
    | p : (_ * _)%type |- _ => destruct p
    end; unfold st_res, st_swap_res, swap_res; cbn [lift mmap bind fst snd]; rewrite ?of_to; try reflexivity.
Qed.

Lemma grun_run : forall ops r acc, grun_acc r ops acc = lift (run_acc (to_model r) ops acc).
Proof.
  induction ops as [|o t IH]; intros r acc; cbn [grun_acc run_acc]; [reflexivity|].
  rewrite gstep_step. destruct (step (to_model r) o) as [[r' x]|]; [|reflexivity].
  cbn [lift mmap bind st_res fst snd]. rewrite IH, to_of. reflexivity.
Qed.

Lemma gring_case_ring_case : forall c ops, gring_case c ops = lift (ring_case c ops).
Proof.
  intros. unfold gring_case, ring_case, run. rewrite code_New. destruct (init c) as [r|]; [|reflexivity].
  cbn [lift mmap bind]. rewrite grun_run, to_of. reflexivity.
Qed.

(* what the check executes as `entry 0` IS the generated code *)
Theorem entry_code_is_entry : forall sub args, entry_code sub args = entry sub args.
Proof.
  intros sub args. unfold entry_code, entry. destruct args as [|k [|c [|inj r]]]; try reflexivity.
  destruct (k =? 0) eqn:Ek; cbn [andb]; [|reflexivity].
  destruct (sub =? 0) eqn:Es; [|reflexivity].
  destruct (dec_ops dec_op r []) as [ops|]; [|reflexivity].
  rewrite gring_case_ring_case. destruct (ring_case c ops); reflexivity.
Qed.

(* in-kernel anchor: the generated code computes (same case as Run/C10.v anchor_ring) *)
Example anchor_ring_code : entry_code 0 [0; 3; -1; 0;5; 0;6; 1;0; 7;5; 8;9; 3;0; 6;0; 10;0] = [1; 1; 1; 5; 1; 2; 5; 7; 0; 1; 6; 9; 0; 0; 0].
Proof. vm_compute. reflexivity. Qed.
