(* C01: the Fresh hypothesis is necessary.  A state that satisfies the invariant in which one pusher is parked in front of
   its CAS with a ticket loaded 2^32 positions ago (the ring has been filled and emptied 2^31 times since, and is full now):
   its CAS succeeds, a third element enters a 2-slot ring, and the log is no longer a legal run of a bounded FIFO.
   This is the known finding F10 (32-bit ticket ABA), here for the model; the check replays it on the real code. *)
From Coq Require Import List ZArith Lia Bool Arith.
Import ListNotations.
From V Require Import Model.SyncRingConc Proofs.SyncRingConc Proofs.SyncRingSeqState.
Local Open Scope Z_scope.

Definition aba_state : config :=
  let c := seq_state 1 (2 ^ 32 - 2) 2 1 in
  {| sh := sh c; ths := [PuCas 111 0 0 0]; hist := [] |}.

Lemma aba_state_inv : Inv 1 aba_state.
Proof.
  pose proof (seq_state_inv 1 (2 ^ 32 - 2) 2 1 ltac:(lia) ltac:(lia) ltac:(cbn; lia)) as [HG _ _ _ HO].
  constructor; cbn [aba_state sh ths hist].
  - exact HG.
  - intros i j p1 p2 f Hij Hi Hj Ho. destruct i as [|i]; cbn [nth_error] in Hi; [inversion Hi; subst; discriminate|].
    destruct i; discriminate.
  - constructor; [|constructor]. cbn [tassert]. repeat split; try reflexivity.
    + cbn. lia.
    + intros E. exfalso. cbn in E. lia.
  - constructor.
  - intros i f Hf Hof. destruct (HO i f Hf Hof) as (j & pj & Hj & Hp).
    cbn [seq_state ths] in Hj. destruct j as [|j]; cbn [repeat nth_error] in Hj; [inversion Hj; subst; discriminate|].
    destruct j; discriminate.
Qed.

(* the parked pusher is not fresh: its ticket is 2^32 behind *)
Lemma aba_state_not_fresh : ~ fresh_ok aba_state 0.
Proof. intros H. vm_compute in H. discriminate H. Qed.

Theorem syncring_aba_refuted :
  exists c', step aba_state (0%nat, OpPop) = Some c' /\
             Z.of_nat (length (q (sh c'))) = 3 /\ cap (sh c') = 2 /\
             replay (cap (sh c')) (lin (sh c')) [] = None.
Proof. eexists. split; [vm_compute; reflexivity|]. vm_compute. repeat split; reflexivity. Qed.
