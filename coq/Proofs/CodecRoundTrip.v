(* C07 — round trips and embedded escapes.  First on the list-level specification (short inductions), then carried to
   the index-level model through the refinement theorems of CodecSpec / CodecUtf16Spec and the format-shape theorems. *)
From Coq Require Import List ZArith Lia Bool Arith ZifyBool.
From V Require Import Lib.Utf8 Proofs.Utf8Facts Model.Codec Proofs.CodecBase Proofs.CodecParse Proofs.CodecSpec Proofs.CodecUtf16Spec
  Proofs.CodecUtf8 Proofs.CodecFormat.
Import ListNotations.
Local Open Scope Z_scope.
Arguments Z.mul : simpl never.
Arguments Z.add : simpl never.
Arguments Z.sub : simpl never.
Arguments Z.div : simpl never.
Arguments Z.modulo : simpl never.
Arguments Z.of_nat : simpl never.
Ltac Zify.zify_post_hook ::= Z.div_mod_to_equations.

Lemma firstn_app_exact {A} (a b : list A) : firstn (length a) (a ++ b) = a.
Proof. rewrite firstn_app, Nat.sub_diag, firstn_all. cbn [firstn]. apply app_nil_r. Qed.
Lemma skipn_app_exact {A} (a b : list A) : skipn (length a) (a ++ b) = b.
Proof. rewrite skipn_app, Nat.sub_diag, skipn_all. reflexivity. Qed.

(* ---- digit strings the formatters write parse back to the value ---- *)
Lemma digit_hexd n : 0 <= n < 16 -> digit (hexd n) = Some n.
Proof.
  intros H. assert (F : forallb (fun k => match digit (hexd (Z.of_nat k)) with Some m => m =? Z.of_nat k | None => false end) (seq 0 16) = true) by (vm_compute; reflexivity).
  rewrite forallb_forall in F. specialize (F (Z.to_nat n) ltac:(apply in_seq; lia)). rewrite Z2Nat.id in F by lia.
  destruct (digit (hexd n)) as [m|]; [|discriminate]. apply Z.eqb_eq in F. subst. reflexivity.
Qed.
Lemma pus_app base maxv : forall a b n, pus base maxv n (a ++ b) = match pus base maxv n a with Some m => pus base maxv m b | None => None end.
Proof.
  induction a as [|c a IH]; intros b n; [reflexivity|]. cbn [app pus]. destruct (digit c); [|reflexivity].
  destruct (base <=? z); [reflexivity|]. cbv zeta. destruct (maxv <? n * base + z); [reflexivity|]. apply IH.
Qed.
Lemma pus_hex4_gen maxv n v : 0 <= n -> 0 <= v < 65536 -> n * 65536 + v <= maxv -> pus 16 maxv n (hex4 v) = Some (n * 65536 + v).
Proof.
  intros Hn Hv Hm. unfold hex4. cbn [pus]. rewrite !digit_hexd by lia. cbv zeta.
  destruct (Z.leb_spec 16 (v / 4096)); [lia|]. destruct (Z.ltb_spec maxv (n * 16 + v / 4096)); [lia|].
  destruct (Z.leb_spec 16 ((v / 256) mod 16)); [lia|]. destruct (Z.ltb_spec maxv ((n * 16 + v / 4096) * 16 + (v / 256) mod 16)); [lia|].
  destruct (Z.leb_spec 16 ((v / 16) mod 16)); [lia|].
  destruct (Z.ltb_spec maxv (((n * 16 + v / 4096) * 16 + (v / 256) mod 16) * 16 + (v / 16) mod 16)); [lia|].
  destruct (Z.leb_spec 16 (v mod 16)); [lia|].
  destruct (Z.ltb_spec maxv ((((n * 16 + v / 4096) * 16 + (v / 256) mod 16) * 16 + (v / 16) mod 16) * 16 + v mod 16)); [lia|].
  f_equal; lia.
Qed.
Lemma pus_hex4 v : 0 <= v < 65536 -> pus 16 65535 0 (hex4 v) = Some v.
Proof. intros H. rewrite pus_hex4_gen by lia. f_equal; lia. Qed.
Lemma pus_hex8 v : 0 <= v < 4294967296 -> pus 16 4294967295 0 (hex8 v) = Some v.
Proof.
  intros H. unfold hex8. rewrite pus_app, pus_hex4_gen by lia. rewrite pus_hex4_gen by lia. f_equal; lia.
Qed.
Lemma pus_hex2 b : 0 <= b < 256 -> pus 16 255 0 (hex2 b) = Some b.
Proof.
  intros H. unfold hex2. cbn [pus]. rewrite !digit_hexd by lia. cbv zeta.
  destruct (Z.leb_spec 16 (b / 16)); [lia|]. destruct (Z.ltb_spec 255 (0 * 16 + b / 16)); [lia|].
  destruct (Z.leb_spec 16 (b mod 16)); [lia|]. destruct (Z.ltb_spec 255 ((0 * 16 + b / 16) * 16 + b mod 16)); [lia|]. f_equal; lia.
Qed.
Lemma pus_oct3 b : 0 <= b < 256 -> pus 8 255 0 (tl (esc_o b)) = Some b.
Proof.
  intros H. assert (F : forallb (fun k => match pus 8 255 0 (tl (esc_o (Z.of_nat k))) with Some m => m =? Z.of_nat k | None => false end) (seq 0 256) = true) by (vm_compute; reflexivity).
  rewrite forallb_forall in F. specialize (F (Z.to_nat b) ltac:(apply in_seq; lia)). rewrite Z2Nat.id in F by lia.
  destruct (pus 8 255 0 (tl (esc_o b))) as [m|]; [|discriminate]. apply Z.eqb_eq in F. subst. reflexivity.
Qed.

(* ---- the generic scan: a well-formed escape is recognised; escapes in a row; an escape between plain text ---- *)
Section Emb.
Variable W P : nat.
Variable ptl : list Z.
Variable base maxv : Z.
Variable semit : Z -> option (list Z).
Local Notation prefix := (92 :: ptl).
Hypothesis P_lt_W : (P < W)%nat.
Hypothesis prefix_len : length prefix = P.
Local Notation esc_at := (esc_at W P prefix base maxv semit).
Local Notation s_scan := (s_scan W P prefix base maxv semit).
Local Notation s_parse := (s_parse W P prefix base maxv semit).

Lemma esc_at_wf ds rest v bs : length ds = (W - P)%nat -> pus base maxv 0 ds = Some v -> semit v = Some bs ->
  esc_at (prefix ++ ds ++ rest) = Some bs.
Proof.
  intros Hl Hp He. unfold Model.Codec.esc_at.
  assert (E0 : (W <=? length (prefix ++ ds ++ rest))%nat = true) by (apply Nat.leb_le; rewrite !app_length, prefix_len; lia).
  assert (E1 : firstn P (prefix ++ ds ++ rest) = prefix) by (rewrite <- prefix_len; apply firstn_app_exact).
  assert (E2 : firstn (W - P) (skipn P (prefix ++ ds ++ rest)) = ds).
  { rewrite <- prefix_len at 2. rewrite skipn_app_exact. rewrite <- Hl. apply firstn_app_exact. }
  rewrite E0, E1, E2, list_eqb_refl, Hp. exact He.
Qed.
Lemma s_scan_wf ds rest v bs : length ds = (W - P)%nat -> pus base maxv 0 ds = Some v -> semit v = Some bs ->
  s_scan 0 ((prefix ++ ds) ++ rest) = bs ++ s_scan 0 rest.
Proof.
  intros Hl Hp He. rewrite <- app_assoc.
  rewrite (s_scan_accept W P ptl base maxv semit P_lt_W prefix_len _ bs (esc_at_wf ds rest v bs Hl Hp He)).
  f_equal. f_equal. rewrite app_assoc. replace W with (length (prefix ++ ds)) by (rewrite app_length, prefix_len; lia). apply skipn_app_exact.
Qed.
(* escapes in a row *)
Lemma s_parse_concat {A} (esc : A -> list Z) (dg : A -> list Z) (val : A -> Z) (dec : A -> list Z) (xs : list A) :
  (forall x, In x xs -> esc x = prefix ++ dg x /\ length (dg x) = (W - P)%nat /\ pus base maxv 0 (dg x) = Some (val x) /\ semit (val x) = Some (dec x)) ->
  s_parse (concat (map esc xs)) = concat (map dec xs).
Proof.
  unfold Model.Codec.s_parse. induction xs as [|x xs IH]; intros H; [reflexivity|]. cbn [map concat].
  destruct (H x (or_introl eq_refl)) as (E & Hl & Hp & He). rewrite E, (s_scan_wf _ _ _ _ Hl Hp He). f_equal.
  apply IH. intros y Hy. apply H. right. exact Hy.
Qed.
(* one well-formed escape between backslash-free text *)
Theorem s_parse_embedded pre ds post v bs : backslash_free pre -> backslash_free post ->
  length ds = (W - P)%nat -> pus base maxv 0 ds = Some v -> semit v = Some bs ->
  s_parse (pre ++ (prefix ++ ds) ++ post) = pre ++ bs ++ post.
Proof.
  intros Hpre Hpost Hl Hp He. unfold Model.Codec.s_parse.
  rewrite (s_scan_nbs W P ptl base maxv semit P_lt_W prefix_len pre _ Hpre). f_equal.
  rewrite (s_scan_wf _ _ _ _ Hl Hp He). f_equal.
  rewrite <- (app_nil_r post) at 1. rewrite (s_scan_nbs W P ptl base maxv semit P_lt_W prefix_len post [] Hpost). apply app_nil_r.
Qed.
End Emb.

(* ================================================================================================================ *)
(* octal *)
Lemma s_octal_roundtrip s : bytes s -> s_octal_parse (s_octal_format s) = s.
Proof.
  intros Hb. unfold s_octal_parse, s_octal_format.
  rewrite (s_parse_concat 4 1 [] 8 255 s_byte_emit ltac:(lia) eq_refl esc_o (fun b => tl (esc_o b)) (fun b => b) (fun b => [b])).
  - clear. induction s; [reflexivity|]. cbn [map concat app]. f_equal. assumption.
  - intros b Hin. unfold bytes in Hb. rewrite Forall_forall in Hb. specialize (Hb b Hin). unfold is_byte in Hb.
    split; [reflexivity|]. split; [reflexivity|]. split; [apply pus_oct3; exact Hb|reflexivity].
Qed.
Theorem octal_roundtrip s : bytes s ->
  exists e, octal_format s = Some e /\ forall dl, (length e <= dl)%nat -> octal_parse dl e = Some s.
Proof.
  intros Hb. exists (s_octal_format s). split; [apply octal_format_shape; exact Hb|].
  intros dl Hd. rewrite octal_parse_spec by exact Hd. rewrite s_octal_roundtrip by exact Hb. reflexivity.
Qed.
(* any well-formed octal escape (three octal digits, value at most 255) between backslash-free text *)
Theorem octal_parse_embedded dl pre ds post v : backslash_free pre -> backslash_free post ->
  length ds = 3%nat -> pus 8 255 0 ds = Some v -> (length (pre ++ (92%Z :: ds) ++ post) <= dl)%nat ->
  octal_parse dl (pre ++ (92 :: ds) ++ post) = Some (pre ++ [v] ++ post).
Proof.
  intros Hpre Hpost Hl Hp Hd. rewrite octal_parse_spec by exact Hd. f_equal.
  apply (s_parse_embedded 4 1 [] 8 255 s_byte_emit ltac:(lia) eq_refl pre ds post v [v] Hpre Hpost Hl Hp eq_refl).
Qed.

(* hex *)
Lemma s_hex_roundtrip s : bytes s -> s_hex_parse (s_hex_format s) = s.
Proof.
  intros Hb. unfold s_hex_parse, s_hex_format.
  rewrite (s_parse_concat 4 2 [120] 16 255 s_byte_emit ltac:(lia) eq_refl esc_x hex2 (fun b => b) (fun b => [b])).
  - clear. induction s; [reflexivity|]. cbn [map concat app]. f_equal. assumption.
  - intros b Hin. unfold bytes in Hb. rewrite Forall_forall in Hb. specialize (Hb b Hin). unfold is_byte in Hb.
    split; [reflexivity|]. split; [reflexivity|]. split; [apply pus_hex2; exact Hb|reflexivity].
Qed.
Theorem hex_roundtrip s : bytes s ->
  exists e, hex_format s = Some e /\ forall dl, (length e <= dl)%nat -> hex_parse dl e = Some s.
Proof.
  intros Hb. exists (s_hex_format s). split; [apply hex_format_shape; exact Hb|].
  intros dl Hd. rewrite hex_parse_spec by exact Hd. rewrite s_hex_roundtrip by exact Hb. reflexivity.
Qed.
Theorem hex_parse_embedded dl pre ds post v : backslash_free pre -> backslash_free post ->
  length ds = 2%nat -> pus 16 255 0 ds = Some v -> (length (pre ++ (92%Z :: 120%Z :: ds) ++ post) <= dl)%nat ->
  hex_parse dl (pre ++ (92 :: 120 :: ds) ++ post) = Some (pre ++ [v] ++ post).
Proof.
  intros Hpre Hpost Hl Hp Hd. rewrite hex_parse_spec by exact Hd. f_equal.
  apply (s_parse_embedded 4 2 [120] 16 255 s_byte_emit ltac:(lia) eq_refl pre ds post v [v] Hpre Hpost Hl Hp eq_refl).
Qed.

(* unicode *)
Lemma s_unicode_roundtrip_runes rs : Forall valid_scalar rs -> s_unicode_parse (concat (map esc_U rs)) = concat (map encode_rune rs).
Proof.
  intros Hv. unfold s_unicode_parse.
  apply (s_parse_concat 10 2 [85] 16 4294967295 s_unicode_emit ltac:(lia) eq_refl esc_U hex8 (fun r => r) encode_rune).
  intros r Hin. rewrite Forall_forall in Hv. specialize (Hv r Hin). unfold valid_scalar in Hv.
  split; [reflexivity|]. split; [reflexivity|]. split; [apply pus_hex8; lia|].
  unfold s_unicode_emit. destruct (Z.ltb_spec 1114111 r); [lia|reflexivity].
Qed.
Theorem unicode_roundtrip_any s : bytes s ->
  exists e, unicode_format s = Some e /\ forall dl, (length e <= dl)%nat -> unicode_parse dl e = Some (sanitize s).
Proof.
  intros Hb. exists (s_unicode_format s). split; [apply unicode_format_shape; exact Hb|].
  intros dl Hd. rewrite unicode_parse_spec by exact Hd. unfold s_unicode_format, sanitize.
  rewrite s_unicode_roundtrip_runes by (apply runes_valid; exact Hb). reflexivity.
Qed.
Theorem unicode_roundtrip s : bytes s -> valid_utf8 s = true ->
  exists e, unicode_format s = Some e /\ forall dl, (length e <= dl)%nat -> unicode_parse dl e = Some s.
Proof.
  intros Hb Hv. destruct (unicode_roundtrip_any s Hb) as (e & He & Hp). exists e. split; [exact He|].
  intros dl Hd. rewrite (Hp dl Hd), sanitize_valid by assumption. reflexivity.
Qed.
(* any \U escape with eight hex digits (either case) of a value up to U+10FFFF: replaced by its UTF-8 encoding
   (utf8.EncodeRune: a surrogate value is written as U+FFFD) *)
Theorem unicode_parse_embedded dl pre ds post v : backslash_free pre -> backslash_free post ->
  length ds = 8%nat -> pus 16 4294967295 0 ds = Some v -> v <= 1114111 -> (length (pre ++ (92%Z :: 85%Z :: ds) ++ post) <= dl)%nat ->
  unicode_parse dl (pre ++ (92 :: 85 :: ds) ++ post) = Some (pre ++ encode_rune v ++ post).
Proof.
  intros Hpre Hpost Hl Hp Hv Hd. rewrite unicode_parse_spec by exact Hd. f_equal.
  apply (s_parse_embedded 10 2 [85] 16 4294967295 s_unicode_emit ltac:(lia) eq_refl pre ds post v (encode_rune v) Hpre Hpost Hl Hp).
  unfold s_unicode_emit. destruct (Z.ltb_spec 1114111 v); [lia|reflexivity].
Qed.
(* ... and above U+10FFFF the escape stays as it is *)
Theorem unicode_parse_too_large dl pre ds post v : backslash_free pre -> backslash_free post ->
  length ds = 8%nat -> pus 16 4294967295 0 ds = Some v -> 1114111 < v -> (length (pre ++ (92%Z :: 85%Z :: ds) ++ post) <= dl)%nat ->
  unicode_parse dl (pre ++ (92 :: 85 :: ds) ++ post) = Some (pre ++ (92 :: 85 :: ds) ++ post).
Proof.
  intros Hpre Hpost Hl Hp Hv Hd. rewrite unicode_parse_spec by exact Hd. f_equal. unfold s_unicode_parse, s_parse.
  rewrite (s_scan_nbs 10 2 [85] 16 4294967295 s_unicode_emit ltac:(lia) eq_refl pre _ Hpre). f_equal.
  pose proof (pus_digits _ _ _ _ _ Hp) as Hdg.
  destruct ds as [|a [|b [|c [|d [|e [|f [|g [|h [|]]]]]]]]]; try discriminate.
  assert (Hn : esc_at 10 2 [92; 85] 16 4294967295 s_unicode_emit ((92 :: 85 :: [a; b; c; d; e; f; g; h]) ++ post) = None).
  { unfold esc_at. cbn [app length Nat.leb firstn skipn list_eqb andb Nat.sub]. rewrite !Z.eqb_refl. cbn [andb]. rewrite Hp.
    unfold s_unicode_emit. destruct (Z.ltb_spec 1114111 v); [reflexivity|lia]. }
  rewrite (s_scan_reject 10 2 [85] 16 4294967295 s_unicode_emit ltac:(lia) eq_refl ltac:(repeat constructor; lia) _ 8%nat);
    [|cbn [app length]; lia|reflexivity|exact Hn|lia|exact Hdg].
  cbn [app firstn skipn Nat.add]. do 10 f_equal.
  rewrite <- (app_nil_r post) at 1.
  rewrite (s_scan_nbs 10 2 [85] 16 4294967295 s_unicode_emit ltac:(lia) eq_refl post [] Hpost). apply app_nil_r.
Qed.

(* ================================================================================================================ *)
(* UTF-16 *)
Lemma s16_nil : s_utf16_parse [] = [].
Proof. reflexivity. Qed.
Lemma s16_plain post : backslash_free post -> s_utf16_parse post = post.
Proof. intros H. rewrite <- (app_nil_r post) at 1. rewrite s16_nbs by exact H. rewrite s16_nil. apply app_nil_r. Qed.
Lemma u_at_wf ds rest : length ds = 4%nat -> u_at ((92 :: 117 :: ds) ++ rest) = pus 16 65535 0 ds.
Proof.
  intros Hl. destruct ds as [|a [|b [|c [|d [|]]]]]; try discriminate. cbn [app]. rewrite u_at_cons6. reflexivity.
Qed.
Lemma skipn6_wf ds rest : length ds = 4%nat -> skipn 6 ((92 :: 117 :: ds) ++ rest) = rest.
Proof. intros Hl. destruct ds as [|a [|b [|c [|d [|]]]]]; try discriminate. reflexivity. Qed.
Lemma firstn6_wf ds rest : length ds = 4%nat -> firstn 6 ((92 :: 117 :: ds) ++ rest) = 92 :: 117 :: ds.
Proof. intros Hl. destruct ds as [|a [|b [|c [|d [|]]]]]; try discriminate. reflexivity. Qed.

(* one escape of a code unit that is not a surrogate *)
Lemma s16_step_bmp ds rest v : length ds = 4%nat -> pus 16 65535 0 ds = Some v -> is_hi v = false -> is_lo v = false ->
  s_utf16_parse ((92 :: 117 :: ds) ++ rest) = encode_rune v ++ s_utf16_parse rest.
Proof.
  intros Hl Hp Hh Hlo. rewrite s_utf16_parse_eq. rewrite u_at_wf, Hp, Hh, Hlo by exact Hl. rewrite skipn6_wf by exact Hl.
  destruct ds; [discriminate|]. reflexivity.
Qed.
(* a high surrogate escape directly followed by a low surrogate escape *)
Lemma s16_step_pair ds1 ds2 rest h l : length ds1 = 4%nat -> length ds2 = 4%nat ->
  pus 16 65535 0 ds1 = Some h -> pus 16 65535 0 ds2 = Some l -> is_hi h = true -> is_lo l = true ->
  s_utf16_parse ((92 :: 117 :: ds1) ++ (92 :: 117 :: ds2) ++ rest) = encode_rune (65536 + (h - 55296) * 1024 + (l - 56320)) ++ s_utf16_parse rest.
Proof.
  intros Hl1 Hl2 Hp1 Hp2 Hh Hlo. rewrite s_utf16_parse_eq. rewrite u_at_wf, Hp1, Hh by exact Hl1. rewrite skipn6_wf by exact Hl1.
  rewrite u_at_wf, Hp2, Hlo by exact Hl2.
  replace (skipn 12 ((92 :: 117 :: ds1) ++ (92 :: 117 :: ds2) ++ rest)) with rest.
  - destruct ds1; [discriminate|]. reflexivity.
  - destruct ds1 as [|a [|b [|c [|d [|]]]]]; try discriminate. destruct ds2 as [|a' [|b' [|c' [|d' [|]]]]]; try discriminate. reflexivity.
Qed.

Lemma s_utf16_roundtrip_runes rs : Forall valid_scalar rs -> s_utf16_parse (concat (map esc_u rs)) = concat (map encode_rune rs).
Proof.
  induction rs as [|r rs IH]; intros Hv; [reflexivity|]. inversion Hv as [|? ? Hr Hrs]; subst. cbn [map concat].
  unfold esc_u at 1. unfold valid_scalar in Hr. destruct (Z.ltb_spec r 65536) as [Hb|Hb].
  - change ([92; 117] ++ hex4 r) with (92 :: 117 :: hex4 r).
    rewrite (s16_step_bmp (hex4 r) _ r eq_refl (pus_hex4 r ltac:(lia))); [rewrite IH by exact Hrs; reflexivity| |]; unfold is_hi, is_lo; lia.
  - change (([92; 117] ++ hex4 (hi_s r)) ++ [92; 117] ++ hex4 (lo_s r)) with ((92 :: 117 :: hex4 (hi_s r)) ++ (92 :: 117 :: hex4 (lo_s r))).
    rewrite <- app_assoc.
    assert (Hh : 55296 <= hi_s r < 56320) by (unfold hi_s; lia).
    assert (Hl : 56320 <= lo_s r < 57344) by (unfold lo_s; lia).
    rewrite (s16_step_pair (hex4 (hi_s r)) (hex4 (lo_s r)) _ (hi_s r) (lo_s r) eq_refl eq_refl (pus_hex4 (hi_s r) ltac:(lia)) (pus_hex4 (lo_s r) ltac:(lia)));
      [|unfold is_hi; lia|unfold is_lo; lia].
    rewrite IH by exact Hrs. f_equal. f_equal. unfold hi_s, lo_s. lia.
Qed.
Theorem utf16_roundtrip_any s : bytes s ->
  exists e, utf16_format s = Some e /\ forall dl, (length e <= dl)%nat -> utf16_parse dl e = Some (sanitize s).
Proof.
  intros Hb. exists (s_utf16_format s). split; [apply utf16_format_shape; exact Hb|].
  intros dl Hd. rewrite utf16_parse_spec by exact Hd. unfold s_utf16_format, sanitize.
  rewrite s_utf16_roundtrip_runes by (apply runes_valid; exact Hb). reflexivity.
Qed.
Theorem utf16_roundtrip s : bytes s -> valid_utf8 s = true ->
  exists e, utf16_format s = Some e /\ forall dl, (length e <= dl)%nat -> utf16_parse dl e = Some s.
Proof.
  intros Hb Hv. destruct (utf16_roundtrip_any s Hb) as (e & He & Hp). exists e. split; [exact He|].
  intros dl Hd. rewrite (Hp dl Hd), sanitize_valid by assumption. reflexivity.
Qed.

(* embedded: a non-surrogate \uXXXX; a high+low pair; a lone surrogate (left verbatim) *)
Theorem utf16_parse_embedded_bmp dl pre ds post v : backslash_free pre -> backslash_free post ->
  length ds = 4%nat -> pus 16 65535 0 ds = Some v -> ~ (55296 <= v < 57344) -> (length (pre ++ (92%Z :: 117%Z :: ds) ++ post) <= dl)%nat ->
  utf16_parse dl (pre ++ (92 :: 117 :: ds) ++ post) = Some (pre ++ encode_rune v ++ post).
Proof.
  intros Hpre Hpost Hl Hp Hv Hd. rewrite utf16_parse_spec by exact Hd. f_equal. rewrite s16_nbs by exact Hpre. f_equal.
  rewrite (s16_step_bmp ds post v Hl Hp); [rewrite s16_plain by exact Hpost; reflexivity| |]; unfold is_hi, is_lo; lia.
Qed.
Theorem utf16_parse_embedded_pair dl pre ds1 ds2 post h l : backslash_free pre -> backslash_free post ->
  length ds1 = 4%nat -> length ds2 = 4%nat -> pus 16 65535 0 ds1 = Some h -> pus 16 65535 0 ds2 = Some l ->
  55296 <= h < 56320 -> 56320 <= l < 57344 -> (length (pre ++ ((92%Z :: 117%Z :: ds1) ++ (92%Z :: 117%Z :: ds2)) ++ post) <= dl)%nat ->
  utf16_parse dl (pre ++ ((92 :: 117 :: ds1) ++ (92 :: 117 :: ds2)) ++ post) =
  Some (pre ++ encode (65536 + (h - 55296) * 1024 + (l - 56320)) ++ post).
Proof.
  intros Hpre Hpost Hl1 Hl2 Hp1 Hp2 Hh Hlo Hd. rewrite utf16_parse_spec by exact Hd. f_equal. rewrite s16_nbs by exact Hpre. f_equal.
  rewrite <- app_assoc. rewrite (s16_step_pair ds1 ds2 post h l Hl1 Hl2 Hp1 Hp2); [|unfold is_hi; lia|unfold is_lo; lia].
  rewrite s16_plain by exact Hpost. f_equal. apply encode_rune_scalar. unfold valid_scalar. lia.
Qed.
Theorem utf16_parse_lone_surrogate dl pre ds post v : backslash_free pre -> backslash_free post ->
  length ds = 4%nat -> pus 16 65535 0 ds = Some v -> 55296 <= v < 57344 -> (length (pre ++ (92%Z :: 117%Z :: ds) ++ post) <= dl)%nat ->
  utf16_parse dl (pre ++ (92 :: 117 :: ds) ++ post) = Some (pre ++ (92 :: 117 :: ds) ++ post).
Proof.
  intros Hpre Hpost Hl Hp Hv Hd. rewrite utf16_parse_spec by exact Hd. f_equal. rewrite s16_nbs by exact Hpre. f_equal.
  rewrite s_utf16_parse_eq. rewrite u_at_wf, Hp by exact Hl. rewrite skipn6_wf, firstn6_wf by exact Hl.
  assert (Hu : u_at post = None).
  { destruct post as [|c t]; [reflexivity|]. apply u_at_nbs. inversion Hpost; assumption. }
  rewrite Hu, s16_plain by exact Hpost.
  cbn [app]. destruct (is_hi v) eqn:Eh; [reflexivity|]. destruct (is_lo v) eqn:El; [reflexivity|]. unfold is_hi, is_lo in *. lia.
Qed.

(* ---- the premises of the theorems above are satisfiable ---- *)
Example wf_digits_hex : pus 16 255 0 [102; 70] = Some 255.                      (* "fF", either case *)
Proof. reflexivity. Qed.
Example wf_digits_octal : pus 8 255 0 [49; 48; 49] = Some 65 /\ pus 8 255 0 [55; 55; 55] = None.   (* \101 ; \777 is not well formed *)
Proof. split; reflexivity. Qed.
Example wf_valid_utf8 : valid_utf8 [65; 228; 184; 173; 240; 159; 152; 128] = true /\ valid_utf8 [65; 255] = false.
Proof. split; vm_compute; reflexivity. Qed.
Example emb_hex_example : hex_parse 6 [97; 92; 120; 52; 49; 98] = Some [97; 65; 98].                 (* a\x41b -> aAb *)
Proof. exact (hex_parse_embedded 6 [97] [52; 49] [98] 65 ltac:(repeat constructor; lia) ltac:(repeat constructor; lia) eq_refl eq_refl (le_n _)). Qed.
Example emb_pair_example :                                                                             (* 😀 -> F0 9F 98 80 *)
  utf16_parse 12 [92;117;68;56;51;68; 92;117;68;69;48;48] = Some [240; 159; 152; 128].
Proof. vm_compute. reflexivity. Qed.
