(* C18: the slice pool of FindDpSolvers.  Buffer-level model (Model/Dp.v, hsolve): in every reachable state no two live
   cells share a buffer and no recycled buffer is referenced by a live cell ([cells_private]); and the buffer-level model
   computes the same map as the value-level model ([hsolve_erase]).  For every tie-breaker, map order, commit order and
   append growth policy. *)
From Coq Require Import List ZArith Lia Bool Arith Permutation.
From V Require Import Model.Dp.
Import ListNotations.
Arguments Z.add : simpl never.
Arguments Z.sub : simpl never.

Definition wf (heap : list buf) (s : slice) : Prop := sid s < length heap /\ slen s <= length (nth (sid s) heap []).

Lemma set_nth_length {A} (l : list A) i x : length (set_nth l i x) = length l.
Proof. revert i; induction l as [|a l IH]; intros [|i]; cbn [set_nth length]; auto. Qed.
Lemma nth_set_nth_eq {A} (l : list A) i x d : i < length l -> nth i (set_nth l i x) d = x.
Proof. revert i; induction l as [|a l IH]; intros [|i] H; cbn [set_nth nth length] in *; try lia; auto; apply IH; lia. Qed.
Lemma nth_set_nth_ne {A} (l : list A) i j x d : i <> j -> nth j (set_nth l i x) d = nth j l d.
Proof. revert i j; induction l as [|a l IH]; intros [|i] [|j] H; cbn [set_nth nth]; auto; try lia; apply IH; lia. Qed.

(* append: the result holds the old contents followed by xs; it lives in the same buffer or in a brand-new one;
   every other buffer is untouched *)
Lemma happend_spec grow heap s xs heap' s' : happend grow heap s xs = (heap', s') -> wf heap s ->
  content heap' s' = content heap s ++ xs /\ wf heap' s' /\ length heap <= length heap' /\
  (sid s' = sid s \/ sid s' = length heap) /\
  (forall j, j <> sid s -> j < length heap -> nth j heap' [] = nth j heap []).
Proof.
  unfold happend. intros E [Hs Hl]. set (data := nth (sid s) heap []) in *. set (need := slen s + length xs) in *.
  destruct (Nat.leb_spec need (length data)) as [Hfit|Hbig]; inversion E; subst heap' s'; clear E; unfold content, wf; cbn [sid slen].
  - rewrite set_nth_length. rewrite nth_set_nth_eq by exact Hs. split; [|split; [|split; [|split]]].
    + rewrite firstn_app. rewrite firstn_length. replace (Nat.min (slen s) (length data)) with (slen s) by lia.
      rewrite firstn_firstn. replace (Nat.min need (slen s)) with (slen s) by lia.
      replace (need - slen s) with (length xs) by lia. rewrite firstn_app, Nat.sub_diag, firstn_all. cbn [firstn]. rewrite app_nil_r. reflexivity.
    + split; [exact Hs|]. rewrite !app_length, firstn_length, skipn_length. lia.
    + lia.
    + left; reflexivity.
    + intros j Hj _. apply nth_set_nth_ne. lia.
  - rewrite app_length. cbn [length]. rewrite app_nth2 by lia. rewrite Nat.sub_diag. cbn [nth]. split; [|split; [|split; [|split]]].
    + rewrite firstn_app. rewrite firstn_length. replace (Nat.min (slen s) (length data)) with (slen s) by lia.
      rewrite firstn_firstn. replace (Nat.min need (slen s)) with (slen s) by lia.
      replace (need - slen s) with (length xs) by lia. rewrite firstn_app, Nat.sub_diag, firstn_all. cbn [firstn]. rewrite app_nil_r. reflexivity.
    + split; [lia|]. rewrite !app_length, firstn_length, repeat_length. lia.
    + lia.
    + right; reflexivity.
    + intros j _ Hj. apply app_nth1. exact Hj.
Qed.

Lemma wf_mono (heap heap' : list buf) s : wf heap s -> length heap <= length heap' -> nth (sid s) heap' [] = nth (sid s) heap [] -> wf heap' s.
Proof. intros [H1 H2] Hl E. split; [lia|rewrite E; exact H2]. Qed.

(* Get; append(solver...); append(item): the new solver lives in a buffer that no slice of L (the live cells and what
   remains in the pool) points to, and no buffer of L is touched *)
Lemma mk_spec grow heap pool xs idx heap3 pool1 ns3 (live : list slice) :
  mk grow heap pool xs idx = (heap3, pool1, ns3) ->
  NoDup (map sid (live ++ pool)) -> Forall (wf heap) (live ++ pool) ->
  content heap3 ns3 = xs ++ [idx] /\ wf heap3 ns3 /\ length heap <= length heap3 /\
  ~ In (sid ns3) (map sid (live ++ pool1)) /\ NoDup (map sid (live ++ pool1)) /\
  (exists used, pool = used ++ pool1) /\
  (forall t, In t (live ++ pool1) -> nth (sid t) heap3 [] = nth (sid t) heap []) /\
  Forall (wf heap3) (live ++ pool1).
Proof.
  unfold mk. intros E Hnd Hwf.
  (* Get *)
  destruct (hget heap pool (length xs + 1)) as [[heap1 pool1'] ns] eqn:Eg.
  destruct (happend grow heap1 ns xs) as [heap2 ns2] eqn:E1.
  destruct (happend grow heap2 ns2 [idx]) as [heap3' ns3'] eqn:E2.
  inversion E; subst heap3' pool1' ns3'; clear E.
  assert (Hget : wf heap1 ns /\ slen ns = 0 /\ length heap <= length heap1 /\
                 ~ In (sid ns) (map sid (live ++ pool1)) /\ NoDup (map sid (live ++ pool1)) /\ (exists used, pool = used ++ pool1) /\
                 (forall t, In t (live ++ pool1) -> sid t < length heap /\ nth (sid t) heap1 [] = nth (sid t) heap []) /\
                 (forall j, j < length heap -> nth j heap1 [] = nth j heap [])).
  { unfold hget in Eg. destruct pool as [|s rest]; inversion Eg; subst heap1 pool1 ns; clear Eg; cbn [sid slen].
    - split; [split; cbn [sid slen]; [rewrite app_length; cbn [length]; lia|lia]|]. split; [reflexivity|].
      split; [rewrite app_length; lia|]. split.
      + intros Hin. apply in_map_iff in Hin. destruct Hin as (t & Et & Hin). rewrite Forall_forall in Hwf. destruct (Hwf t Hin) as [H1 _]. lia.
      + split; [exact Hnd|]. split; [exists []; reflexivity|]. split.
        * intros t Hin. rewrite Forall_forall in Hwf. destruct (Hwf t Hin) as [H1 _]. split; [exact H1|]. apply app_nth1. exact H1.
        * intros j Hj. apply app_nth1. exact Hj.
    - assert (Hperm : Permutation (live ++ s :: rest) (s :: live ++ rest)) by (symmetry; apply Permutation_middle).
      assert (Hnd' : NoDup (map sid (s :: live ++ rest))) by (eapply Permutation_NoDup; [apply Permutation_map; exact Hperm|exact Hnd]).
      cbn [map] in Hnd'. inversion Hnd' as [|? ? Hnin Hnd'']; subst.
      rewrite Forall_forall in Hwf.
      assert (Hws : wf heap s) by (apply Hwf; apply in_or_app; right; left; reflexivity).
      split; [destruct Hws as [Hw1 Hw2]; split; cbn [sid slen]; [exact Hw1|lia]|].
      split; [|split; [lia|split; [exact Hnin|split; [exact Hnd''|split; [exists [s]; reflexivity|split]]]]].
      + reflexivity.
      + intros t Hin. split; [|reflexivity]. apply (Hwf t). apply in_app_or in Hin. apply in_or_app. destruct Hin; [left|right; right]; auto.
      + intros j _. reflexivity. }
  destruct Hget as (Hw0 & Hl0 & Hlen0 & Hnin & Hnd1 & Hused & Hsame0 & Hold0).
  (* wf heap1 ns with slen 0, even when ns re-uses a recycled slice of positive length *)
  assert (Hw0' : wf heap1 ns) by exact Hw0.
  destruct (happend_spec grow heap1 ns xs heap2 ns2 E1 Hw0') as (C1 & W1 & L1 & I1 & S1).
  destruct (happend_spec grow heap2 ns2 [idx] heap3 ns3 E2 W1) as (C2 & W2 & L2 & I2 & S2).
  assert (Hc0 : content heap1 ns = []) by (unfold content; rewrite Hl0; reflexivity).
  (* the in-flight buffer id is never one of L's *)
  assert (Hid1 : ~ In (sid ns2) (map sid (live ++ pool1)) /\ (sid ns2 = sid ns \/ length heap <= sid ns2)).
  { destruct I1 as [->| ->]; [split; [exact Hnin|left; reflexivity]|]. split; [|right; lia].
    intros Hin. apply in_map_iff in Hin. destruct Hin as (t & Et & Hin). destruct (Hsame0 t Hin) as [H1 _]. lia. }
  assert (Hid2 : ~ In (sid ns3) (map sid (live ++ pool1))).
  { destruct I2 as [->| ->]; [exact (proj1 Hid1)|].
    intros Hin. apply in_map_iff in Hin. destruct Hin as (t & Et & Hin). destruct (Hsame0 t Hin) as [H1 _]. lia. }
  assert (Hsame : forall t, In t (live ++ pool1) -> nth (sid t) heap3 [] = nth (sid t) heap []).
  { intros t Hin. destruct (Hsame0 t Hin) as [Ht E0].
    assert (N1 : sid t <> sid ns) by (intros Eq; apply Hnin; rewrite <- Eq; apply in_map; exact Hin).
    assert (N2 : sid t <> sid ns2) by (intros Eq; apply (proj1 Hid1); rewrite <- Eq; apply in_map; exact Hin).
    rewrite (S2 (sid t) N2) by lia. rewrite (S1 (sid t) N1) by lia. exact E0. }
  split; [rewrite C2, C1, Hc0; reflexivity|]. split; [exact W2|]. split; [lia|]. split; [exact Hid2|]. split; [exact Hnd1|].
  split; [exact Hused|]. split; [exact Hsame|].
  apply Forall_forall. intros t Hin. destruct (Hsame0 t Hin) as [Ht _].
  assert (Hwt : wf heap t).
  { rewrite Forall_forall in Hwf. apply Hwf. destruct Hused as [used ->]. apply in_app_or in Hin. apply in_or_app.
    destruct Hin; [left; auto|right; apply in_or_app; right; auto]. }
  apply (wf_mono heap); [exact Hwt|lia|apply Hsame; exact Hin].
Qed.

Lemma private_iff heap cells pool :
  private heap cells pool <-> NoDup (map sid (map snd cells ++ pool)) /\ Forall (wf heap) (map snd cells ++ pool).
Proof. unfold private, wf. tauto. Qed.

Lemma herase_same (heap heap' : list buf) L :
  (forall c, In c L -> nth (sid (snd c)) heap' [] = nth (sid (snd c)) heap []) -> herase heap' L = herase heap L.
Proof.
  intros H. unfold herase. apply map_ext_in. intros c Hc. unfold content. rewrite (H c Hc). reflexivity.
Qed.
Lemma hlookup_In k s dp : hlookup k dp = Some s -> In (k, s) dp.
Proof.
  induction dp as [|[k' s'] t IH]; cbn [hlookup]; [discriminate|]. destruct (Z.eqb_spec k' k).
  - intros E. inversion E; subst. left; reflexivity.
  - intros E. right; auto.
Qed.
Lemma lookup_herase heap k dp : lookup k (herase heap dp) = option_map (content heap) (hlookup k dp).
Proof.
  induction dp as [|[k' s'] t IH]; [reflexivity|]. cbn [herase map fst snd lookup hlookup]. destruct (k' =? k)%Z; [reflexivity|]. exact IH.
Qed.
Lemma has_herase heap k dp : has k (herase heap dp) = hhas k dp.
Proof. unfold has, hhas, herase. induction dp as [|c t IH]; [reflexivity|]. cbn [map existsb fst]. rewrite IH. reflexivity. Qed.

Section HRound.
Variables (brk : breaker) (grow : nat -> nat -> nat) (maxV v : Z) (idx : nat) (allow : bool) (dp : list hcell).

Lemma hround_spec : forall entries st,
  (forall c, In c entries -> In c dp) ->
  private (h_heap st) (dp ++ h_tmp st) (h_pool st) ->
  let st' := hround brk grow maxV v idx allow dp entries st in
  private (h_heap st') (dp ++ h_tmp st') (h_pool st') /\
  (forall c, In c dp -> nth (sid (snd c)) (h_heap st') [] = nth (sid (snd c)) (h_heap st) []) /\
  (herase (h_heap st') (h_tmp st'), h_ovf st') =
    round_go brk maxV v idx allow (herase (h_heap st) dp) (herase (h_heap st) entries) (herase (h_heap st) (h_tmp st)) (h_ovf st).
Proof.
  induction entries as [|[cur s] t IH]; intros st Hsub Hp; cbv zeta.
  - cbn [hround herase map round_go]. split; [exact Hp|]. split; [reflexivity|reflexivity].
  - assert (Hsub' : forall c, In c t -> In c dp) by (intros c Hc; apply Hsub; right; exact Hc).
    cbn [hround]. cbn [herase map fst snd round_go]. fold (herase (h_heap st) t).
    destruct (((maxV <? cur + v) && (negb allow || (0 <? h_ovf st) && (h_ovf st <? cur + v)))%Z) eqn:Eskip.
    { apply (IH st Hsub' Hp). }
    set (ovf' := if (maxV <? cur + v)%Z then (cur + v)%Z else h_ovf st).
    rewrite lookup_herase.
    (* the step that builds a new solver *)
    assert (Hmk : forall oldo, (oldo = hlookup (cur + v)%Z dp) ->
      let '(heap3, pool1, ns3) := mk grow (h_heap st) (h_pool st) (content (h_heap st) s) idx in
      forall keep : bool,
      let st1 := if keep then {| h_heap := heap3; h_tmp := ((cur + v)%Z, ns3) :: h_tmp st; h_pool := pool1; h_ovf := ovf' |}
                 else {| h_heap := heap3; h_tmp := h_tmp st; h_pool := ns3 :: pool1; h_ovf := ovf' |} in
      private (h_heap st1) (dp ++ h_tmp st1) (h_pool st1) /\
      (forall c, In c (dp ++ h_tmp st) -> nth (sid (snd c)) heap3 [] = nth (sid (snd c)) (h_heap st) []) /\
      content heap3 ns3 = content (h_heap st) s ++ [idx]).
    { intros oldo _. destruct (mk grow (h_heap st) (h_pool st) (content (h_heap st) s) idx) as [[heap3 pool1] ns3] eqn:Em.
      apply private_iff in Hp. destruct Hp as [Hnd Hwf].
      destruct (mk_spec grow _ _ _ _ _ _ _ (map snd (dp ++ h_tmp st)) Em Hnd Hwf) as (C & W & L & Nin & Nd & _ & Same & Wf3).
      intros keep. split; [|split; [|exact C]].
      - apply private_iff. destruct keep; cbn [h_heap h_tmp h_pool].
        + assert (Hperm : Permutation (map snd (dp ++ ((cur + v)%Z, ns3) :: h_tmp st) ++ pool1) (ns3 :: map snd (dp ++ h_tmp st) ++ pool1)).
          { rewrite !map_app. cbn [map snd]. rewrite <- !app_assoc. cbn [app]. symmetry. apply Permutation_middle. }
          split.
          * eapply Permutation_NoDup; [apply Permutation_map; symmetry; exact Hperm|]. cbn [map]. constructor; assumption.
          * eapply Permutation_Forall; [symmetry; exact Hperm|]. constructor; assumption.
        + assert (Hperm : Permutation (map snd (dp ++ h_tmp st) ++ ns3 :: pool1) (ns3 :: map snd (dp ++ h_tmp st) ++ pool1))
            by (symmetry; apply Permutation_middle).
          split.
          * eapply Permutation_NoDup; [apply Permutation_map; symmetry; exact Hperm|]. cbn [map]. constructor; assumption.
          * eapply Permutation_Forall; [symmetry; exact Hperm|]. constructor; assumption.
      - intros c Hc. apply Same. apply in_or_app. left. apply in_map. exact Hc. }
    assert (Hfin : forall keep : bool,
      let '(heap3, pool1, ns3) := mk grow (h_heap st) (h_pool st) (content (h_heap st) s) idx in
      let st1 := if keep then {| h_heap := heap3; h_tmp := ((cur + v)%Z, ns3) :: h_tmp st; h_pool := pool1; h_ovf := ovf' |}
                 else {| h_heap := heap3; h_tmp := h_tmp st; h_pool := ns3 :: pool1; h_ovf := ovf' |} in
      let st' := hround brk grow maxV v idx allow dp t st1 in
      private (h_heap st') (dp ++ h_tmp st') (h_pool st') /\
      (forall c, In c dp -> nth (sid (snd c)) (h_heap st') [] = nth (sid (snd c)) (h_heap st) []) /\
      (herase (h_heap st') (h_tmp st'), h_ovf st') =
        round_go brk maxV v idx allow (herase (h_heap st) dp) (herase (h_heap st) t)
          (if keep then ((cur + v)%Z, content (h_heap st) s ++ [idx]) :: herase (h_heap st) (h_tmp st) else herase (h_heap st) (h_tmp st)) ovf').
    { intros keep. specialize (Hmk _ eq_refl).
      destruct (mk grow (h_heap st) (h_pool st) (content (h_heap st) s) idx) as [[heap3 pool1] ns3].
      specialize (Hmk keep). cbv zeta in Hmk. destruct Hmk as (P1 & Same & C).
      cbv zeta. set (st1 := if keep then _ else _) in *.
      assert (Hh : h_heap st1 = heap3) by (unfold st1; destruct keep; reflexivity).
      destruct (IH st1 Hsub' P1) as (P2 & S2 & R2). cbv zeta in *.
      split; [exact P2|]. split.
      - intros c Hc. rewrite (S2 c Hc), Hh. apply Same. apply in_or_app. left; exact Hc.
      - rewrite R2, Hh.
        assert (E1 : herase heap3 dp = herase (h_heap st) dp) by (apply herase_same; intros c Hc; apply Same; apply in_or_app; left; exact Hc).
        assert (E2 : herase heap3 t = herase (h_heap st) t) by (apply herase_same; intros c Hc; apply Same; apply in_or_app; left; auto).
        assert (E3 : herase heap3 (h_tmp st) = herase (h_heap st) (h_tmp st)) by (apply herase_same; intros c Hc; apply Same; apply in_or_app; right; exact Hc).
        rewrite E1, E2. unfold st1. destruct keep; cbn [h_tmp h_ovf herase map fst snd]; fold (herase heap3 (h_tmp st)); rewrite E3; [rewrite C|]; reflexivity. }
    destruct (hlookup (cur + v)%Z dp) as [old|] eqn:El; cbn [option_map].
    + destruct brk as [f|].
      * (* tie-breaker consulted *)
        specialize (Hmk _ eq_refl).
        destruct (mk grow (h_heap st) (h_pool st) (content (h_heap st) s) idx) as [[heap3 pool1] ns3] eqn:Em.
        destruct (Hmk true) as (_ & Same & C).
        assert (Eold : content heap3 old = content (h_heap st) old).
        { unfold content. pose proof (Same ((cur + v)%Z, old)) as Sm. cbn [snd] in Sm. rewrite Sm; [reflexivity|]. apply in_or_app. left. apply hlookup_In. exact El. }
        rewrite Eold, C.
        pose proof (Hfin (f (content (h_heap st) old) (content (h_heap st) s ++ [idx]))) as F.
        destruct (f (content (h_heap st) old) (content (h_heap st) s ++ [idx])); exact F.
      * (* key exists, no tie-breaker: only ovf changes *)
        set (st1 := {| h_heap := h_heap st; h_tmp := h_tmp st; h_pool := h_pool st; h_ovf := ovf' |}).
        apply (IH st1 Hsub' Hp).
    + (* new key *)
      pose proof (Hfin true) as F.
      destruct (mk grow (h_heap st) (h_pool st) (content (h_heap st) s) idx) as [[heap3 pool1] ns3].
      destruct brk; exact F.
Qed.
End HRound.

Lemma filter_partition {A} (p : A -> bool) l : Permutation (filter p l ++ filter (fun x => negb (p x)) l) l.
Proof.
  induction l as [|a l IH]; [constructor|]. cbn [filter]. destruct (p a); cbn [negb app].
  - constructor. exact IH.
  - etransitivity; [symmetry; apply Permutation_middle|]. constructor. exact IH.
Qed.

Lemma hmerge_spec pord heap dp tmp pool : (forall L, Permutation (pord L) L) ->
  private heap (dp ++ tmp) pool ->
  private heap (fst (hmerge pord dp tmp pool)) (snd (hmerge pord dp tmp pool)) /\
  herase heap (fst (hmerge pord dp tmp pool)) = merge (herase heap dp) (herase heap tmp).
Proof.
  intros Hpord Hp. unfold hmerge. cbn [fst snd]. split.
  - apply private_iff in Hp. apply private_iff.
    set (p := fun c : hcell => hhas (fst c) tmp).
    assert (Hperm : Permutation (map snd (tmp ++ filter (fun c => negb (p c)) dp) ++ pord (map snd (filter p dp)) ++ pool)
                                (map snd (dp ++ tmp) ++ pool)).
    { rewrite !map_app. rewrite app_assoc. apply Permutation_app_tail.
      etransitivity; [apply Permutation_app_head; apply Hpord|].
      etransitivity; [|apply Permutation_app_comm]. rewrite <- app_assoc. apply Permutation_app_head.
      rewrite <- map_app. apply Permutation_map. etransitivity; [apply Permutation_app_comm|]. apply filter_partition. }
    destruct Hp as [Hnd Hwf]. split.
    + eapply Permutation_NoDup; [apply Permutation_map; symmetry; exact Hperm|exact Hnd].
    + eapply Permutation_Forall; [symmetry; exact Hperm|exact Hwf].
  - clear Hp. unfold merge, herase. rewrite map_app. f_equal.
    induction dp as [|c dp IH]; [reflexivity|]. cbn [filter map fst]. fold (herase heap tmp). rewrite has_herase.
    destruct (hhas (fst c) tmp); cbn [negb map]; [exact IH|]. f_equal. exact IH.
Qed.

Section HSolve.
Variables (brk : breaker) (grow : nat -> nat -> nat) (maxV : Z) (allow : bool).
Variable ord : nat -> list hcell -> list hcell.
Variable pord : list slice -> list slice.
Hypothesis ord_perm : forall k dp, Permutation (ord k dp) dp.
Hypothesis pord_perm : forall L, Permutation (pord L) L.
Variable vals : list Z.
Local Notation hs := (hsolve brk grow maxV allow ord pord vals).

Lemma hsolve_S k : hs (S k) =
  let st := hs k in
  let r := hround brk grow maxV (nth k vals 0%Z) k allow (s_dp st) (ord k (s_dp st))
             {| h_heap := s_heap st; h_tmp := []; h_pool := s_pool st; h_ovf := s_ovf st |} in
  {| s_heap := h_heap r; s_dp := fst (hmerge pord (s_dp st) (h_tmp r) (h_pool r));
     s_pool := snd (hmerge pord (s_dp st) (h_tmp r) (h_pool r)); s_ovf := h_ovf r |}.
Proof. cbn [hsolve]. cbv zeta. destruct (hmerge _ _ _ _). reflexivity. Qed.

(* pool privacy: in every state FindDpSolvers reaches between rounds, the live cells and the recycled slices occupy
   pairwise different buffers, and every slice stays inside its buffer *)
Theorem cells_private : forall n, private (s_heap (hs n)) (s_dp (hs n)) (s_pool (hs n)).
Proof.
  induction n as [|k IH].
  - cbn [hsolve s_heap s_dp s_pool]. apply private_iff. cbn [map snd app sid]. split; [constructor; [intros []|constructor]|].
    constructor; [|constructor]. split; cbn [sid slen length nth]; lia.
  - rewrite hsolve_S. cbv zeta. cbn [s_heap s_dp s_pool].
    set (st0 := {| h_heap := s_heap (hs k); h_tmp := []; h_pool := s_pool (hs k); h_ovf := s_ovf (hs k) |}).
    assert (Hp0 : private (h_heap st0) (s_dp (hs k) ++ h_tmp st0) (h_pool st0)) by (cbn [st0 h_heap h_tmp h_pool]; rewrite app_nil_r; exact IH).
    destruct (hround_spec brk grow maxV (nth k vals 0%Z) k allow (s_dp (hs k)) (ord k (s_dp (hs k))) st0) as (P & _ & _); auto.
    { intros c Hc. eapply Permutation_in; [apply ord_perm|exact Hc]. }
    apply (hmerge_spec pord _ _ _ _ pord_perm P).
Qed.

(* the buffer-level model computes the value-level model's map, provided the value-level order function is the
   buffer-level one seen through the contents *)
Variable ord' : nat -> list dcell -> list dcell.
Hypothesis ord_compat : forall k heap dp, ord' k (herase heap dp) = herase heap (ord k dp).
Theorem hsolve_erase : forall n, (herase (s_heap (hs n)) (s_dp (hs n)), s_ovf (hs n)) = solve brk maxV allow ord' vals n.
Proof.
  induction n as [|k IH]; [reflexivity|]. rewrite hsolve_S. cbv zeta. cbn [s_heap s_dp s_pool s_ovf solve]. rewrite <- IH.
  set (st0 := {| h_heap := s_heap (hs k); h_tmp := []; h_pool := s_pool (hs k); h_ovf := s_ovf (hs k) |}).
  pose proof (cells_private k) as Hpk.
  assert (Hp0 : private (h_heap st0) (s_dp (hs k) ++ h_tmp st0) (h_pool st0)) by (cbn [st0 h_heap h_tmp h_pool]; rewrite app_nil_r; exact Hpk).
  destruct (hround_spec brk grow maxV (nth k vals 0%Z) k allow (s_dp (hs k)) (ord k (s_dp (hs k))) st0) as (P & Same & R); auto.
  { intros c Hc. eapply Permutation_in; [apply ord_perm|exact Hc]. }
  cbv zeta in *. unfold st0 in *. cbn [h_heap h_tmp h_ovf herase map] in *. rewrite ord_compat.
  match goal with |- _ = (let '(tmp, ovf') := ?rg in _) =>
    match type of R with ?lhs = _ => assert (R' : rg = lhs) by (rewrite R; reflexivity) end end.
  rewrite R'.
  destruct (hmerge_spec pord _ _ _ _ pord_perm P) as [_ E]. rewrite E. f_equal. f_equal.
  apply herase_same. exact Same.
Qed.
End HSolve.

(* the order hypotheses are satisfiable: identity orders on both levels *)
Example orders_example : (forall (k : nat) (dp : list hcell), Permutation ((fun _ d => d) k dp) dp)
  /\ (forall L : list slice, Permutation ((fun l => l) L) L)
  /\ (forall (k : nat) heap dp, (fun (_ : nat) (d : list dcell) => d) k (herase heap dp) = herase heap ((fun (_ : nat) (d : list hcell) => d) k dp)).
Proof. repeat split; intros; reflexivity || apply Permutation_refl. Qed.
