(* C20, part 4: CountGenerator — Generate is bounded by Min and Max and non-decreasing in the elapsed time,
   for every rule set with positive parameters added in any order (AddRule keeps the list sorted by period). *)
From Coq Require Import List ZArith Lia Bool Arith.
From V Require Import Lib.Enc Gen.Randz Model.Randz.
Import ListNotations.
Local Open Scope Z_scope.
Arguments Z.mul : simpl never.
Arguments Z.add : simpl never.
Arguments Z.sub : simpl never.
Arguments Z.div : simpl never.
Arguments Z.quot : simpl never.
Arguments Z.modulo : simpl never.
Arguments Z.pow : simpl never.

Definition positive (r : rule) : Prop :=
  0 < period r /\ 0 < end_max r < 2 ^ 32 /\ 0 < interval r /\ 0 < int_max r < 2 ^ 32.
Fixpoint sorted_from (last : Z) (rules : list rule) : Prop :=
  match rules with [] => True | r :: t => last <= period r /\ sorted_from (period r) t end.

Lemma rule_positive_iff r : rule_positive r = true <-> positive r.
Proof.
  unfold rule_positive, positive. rewrite !andb_true_iff, !Z.ltb_lt. tauto.
Qed.
Lemma forallb_positive rs : forallb rule_positive rs = true <-> Forall positive rs.
Proof. rewrite forallb_forall, Forall_forall. split; intros H r Hr; apply rule_positive_iff; auto. Qed.

(* ---- AddRule keeps the rules sorted by period, whatever the order of the calls (ties in either order) *)
Lemma insert_sorted r : forall l lo, sorted_from lo l -> lo <= period r -> sorted_from lo (insert_rule r l).
Proof.
  induction l as [|x t IH]; intros lo Hs Hl; cbn [insert_rule sorted_from]; [auto|].
  destruct Hs as [H1 H2]. destruct (Z.ltb_spec (period r) (period x)); cbn [sorted_from]; [repeat split; auto; lia|].
  split; [exact H1|]. apply IH; auto.
Qed.
Lemma insert_positive r l : positive r -> Forall positive l -> Forall positive (insert_rule r l).
Proof.
  intros Hr. induction l as [|x t IH]; intros Hl; cbn [insert_rule]; [constructor; [exact Hr|constructor]|].
  pose proof (Forall_inv Hl) as Hx. pose proof (Forall_inv_tail Hl) as Ht. destruct (period r <? period x); constructor; auto.
Qed.
Lemma add_rules_ok rs : Forall positive rs -> Forall positive (add_rules rs) /\ sorted_from 0 (add_rules rs).
Proof.
  unfold add_rules. assert (G : forall rs acc, Forall positive rs -> Forall positive acc -> sorted_from 0 acc ->
    Forall positive (fold_left (fun l r => insert_rule r l) rs acc) /\ sorted_from 0 (fold_left (fun l r => insert_rule r l) rs acc)).
  { clear rs. induction rs as [|r t IH]; intros acc Hp Ha Hs; cbn [fold_left]; [auto|].
    pose proof (Forall_inv Hp) as Hr. pose proof (Forall_inv_tail Hp) as Ht.
    apply IH; auto; [apply insert_positive; auto|apply insert_sorted; auto]. destruct Hr as [? _]. lia. }
  intros H. apply G; [exact H|constructor|exact I].
Qed.

(* ---- getRand for a positive bound that fits uint32 *)
Definition rnd (hn mx : Z) : Z := hn mod mx + 1.
Lemma get_rand_pos hn mx : 0 < mx < 2 ^ 32 -> get_rand hn mx = Some (rnd hn mx) /\ 1 <= rnd hn mx <= mx.
Proof.
  intros H. unfold get_rand, rnd, u32. destruct (Z.eqb_spec mx 0); [lia|].
  rewrite (Z.mod_small mx) by lia. destruct (Z.eqb_spec mx 0); [lia|].
  pose proof (Z.mod_pos_bound hn mx ltac:(lia)). rewrite Z.mod_small by lia. split; [reflexivity|lia].
Qed.

(* ---- under positive parameters the Go loop (truncated division, panics) is the pure walk *)
Lemma walk_is_pure (f g : rule -> option Z) (f' g' : rule -> Z) :
  (forall r, positive r -> f r = Some (f' r) /\ g r = Some (g' r)) ->
  forall rules diff count last, Forall positive rules -> sorted_from last rules -> last <= diff ->
  walk f g rules diff count last = Some (walk_pure f' g' rules diff count last).
Proof.
  intros Hfg. induction rules as [|r t IH]; intros diff count last Hp Hs Hd; cbn [walk walk_pure]; [reflexivity|].
  inversion Hp as [|? ? Hr Ht]; subst. destruct Hs as [Hl Hs]. destruct (Hfg r Hr) as [-> ->].
  destruct Hr as (P1 & P2 & P3 & P4). unfold qdiv. destruct (Z.eqb_spec (interval r) 0); [lia|].
  destruct (Z.ltb_spec diff (period r)).
  - rewrite Z.quot_div_nonneg by lia. reflexivity.
  - rewrite Z.quot_div_nonneg by lia. apply IH; auto.
Qed.

Definition genZ (hn : Z) (rules : list rule) (diff : Z) : Z :=
  if diff <=? 0 then 0 else walk_pure (fun r => rnd hn (int_max r)) (fun r => rnd hn (end_max r)) rules diff 0 0.
Definition minZ (rules : list rule) (diff : Z) : Z := if diff <=? 0 then 0 else walk_pure (fun _ => 1) (fun _ => 1) rules diff 0 0.
Definition maxZ (rules : list rule) (diff : Z) : Z := if diff <=? 0 then 0 else walk_pure int_max end_max rules diff 0 0.

Lemma count_total hn rules diff : Forall positive rules -> sorted_from 0 rules ->
  generate_count hn rules diff = Some (genZ hn rules diff) /\
  count_min rules diff = Some (minZ rules diff) /\ count_max rules diff = Some (maxZ rules diff).
Proof.
  intros Hp Hs. unfold generate_count, count_min, count_max, genZ, minZ, maxZ.
  destruct (Z.leb_spec diff 0); [auto|]. repeat split; apply walk_is_pure; auto; try lia.
  intros r (P1 & P2 & P3 & P4). split; apply get_rand_pos; lia.
Qed.

(* ---- the two order facts on the pure walk (from the design prototype) *)
Lemma walk_le (f1 g1 f2 g2 : rule -> Z) : forall rules diff c1 c2 last,
  Forall positive rules -> sorted_from last rules -> last <= diff -> c1 <= c2 ->
  (forall r, positive r -> 0 <= f1 r <= f2 r /\ 0 <= g1 r <= g2 r) ->
  walk_pure f1 g1 rules diff c1 last <= walk_pure f2 g2 rules diff c2 last.
Proof.
  induction rules as [|r t IH]; intros diff c1 c2 last Hp Hs Hd Hc Hfg; cbn [walk_pure]; [lia|].
  inversion Hp as [|? ? Hr Ht]; subst. destruct Hs as [Hl Hs]. destruct (Hfg r Hr) as [Hf Hg]. destruct Hr as (P1 & P2 & P3 & P4).
  destruct (Z.ltb_spec diff (period r)).
  - assert (0 <= (diff - last) / interval r) by (apply Z.div_pos; lia). nia.
  - apply IH; auto; try lia.
    assert (0 <= (period r - last) / interval r) by (apply Z.div_pos; lia). nia.
Qed.

Lemma walk_ge_count (f g : rule -> Z) : (forall r, positive r -> 0 <= f r /\ 0 <= g r) ->
  forall rs d c l, Forall positive rs -> sorted_from l rs -> l <= d -> c <= walk_pure f g rs d c l.
Proof.
  intros Hfg. induction rs as [|r' t' IH']; intros d c l Hp' Hs' Hl'; cbn [walk_pure]; [lia|].
  inversion Hp' as [|? ? Hr' Ht']; subst. destruct Hs' as [Hl2 Hs2]. destruct (Hfg r' Hr') as [Hf' Hg']. destruct Hr' as (Q1 & Q2 & Q3 & Q4).
  destruct (Z.ltb_spec d (period r')).
  - assert (0 <= (d - l) / interval r') by (apply Z.div_pos; lia). nia.
  - assert (0 <= (period r' - l) / interval r') by (apply Z.div_pos; lia).
    eapply Z.le_trans; [|apply IH'; auto; lia]. nia.
Qed.

Lemma walk_mono (f g : rule -> Z) : (forall r, positive r -> 0 <= f r /\ 0 <= g r) ->
  forall rules d1 d2 count last, Forall positive rules -> sorted_from last rules -> last <= d1 <= d2 ->
  walk_pure f g rules d1 count last <= walk_pure f g rules d2 count last.
Proof.
  intros Hfg. induction rules as [|r t IH]; intros d1 d2 count last Hp Hs Hd; cbn [walk_pure]; [lia|].
  inversion Hp as [|? ? Hr Ht]; subst. destruct Hs as [Hl Hs]. destruct (Hfg r Hr) as [Hf Hg]. pose proof Hr as (P1 & P2 & P3 & P4).
  destruct (Z.ltb_spec d1 (period r)); destruct (Z.ltb_spec d2 (period r)); try lia.
  - assert ((d1 - last) / interval r <= (d2 - last) / interval r) by (apply Z.div_le_mono; lia). nia.
  - assert ((d1 - last) / interval r <= (period r - last) / interval r) by (apply Z.div_le_mono; lia).
    eapply Z.le_trans; [|apply walk_ge_count; auto; lia]. nia.
  - apply IH; auto. lia.
Qed.

Theorem count_bounds_pure hn rules diff : Forall positive rules -> sorted_from 0 rules ->
  minZ rules diff <= genZ hn rules diff <= maxZ rules diff.
Proof.
  intros Hp Hs. unfold minZ, genZ, maxZ. destruct (Z.leb_spec diff 0); [lia|]. split.
  - apply walk_le; auto; try lia. intros r (P1 & P2 & P3 & P4).
    pose proof (get_rand_pos hn (int_max r) P4) as [_ ?]. pose proof (get_rand_pos hn (end_max r) P2) as [_ ?]. lia.
  - apply walk_le; auto; try lia. intros r (P1 & P2 & P3 & P4).
    pose proof (get_rand_pos hn (int_max r) P4) as [_ ?]. pose proof (get_rand_pos hn (end_max r) P2) as [_ ?]. lia.
Qed.

Theorem count_monotone_pure hn rules d1 d2 : Forall positive rules -> sorted_from 0 rules -> d1 <= d2 ->
  genZ hn rules d1 <= genZ hn rules d2.
Proof.
  intros Hp Hs Hd.
  assert (NN : forall r, positive r -> 0 <= rnd hn (int_max r) /\ 0 <= rnd hn (end_max r)).
  { intros r (P1 & P2 & P3 & P4). pose proof (get_rand_pos hn (int_max r) P4) as [_ ?]. pose proof (get_rand_pos hn (end_max r) P2) as [_ ?]. lia. }
  unfold genZ. destruct (Z.leb_spec d1 0); destruct (Z.leb_spec d2 0); try lia.
  - apply (walk_ge_count _ _ NN); auto; lia.
  - apply (walk_mono _ _ NN); auto; lia.
Qed.

(* ---- the property on the model of the Go code: rules added in any order, any hash value, any elapsed times *)
Theorem count_bounds hn added diff : Forall positive added ->
  exists g mn mx, generate_count hn (add_rules added) diff = Some g /\ count_min (add_rules added) diff = Some mn /\
                  count_max (add_rules added) diff = Some mx /\ mn <= g <= mx.
Proof.
  intros H. destruct (add_rules_ok added H) as [Hp Hs]. destruct (count_total hn _ diff Hp Hs) as (-> & -> & ->).
  do 3 eexists. repeat split; try reflexivity; apply count_bounds_pure; auto.
Qed.
Theorem count_monotone hn added d1 d2 : Forall positive added -> d1 <= d2 ->
  exists g1 g2, generate_count hn (add_rules added) d1 = Some g1 /\ generate_count hn (add_rules added) d2 = Some g2 /\ g1 <= g2.
Proof.
  intros H Hd. destruct (add_rules_ok added H) as [Hp Hs].
  destruct (count_total hn _ d1 Hp Hs) as (-> & _). destruct (count_total hn _ d2 Hp Hs) as (-> & _).
  do 2 eexists. repeat split; try reflexivity. apply count_monotone_pure; auto.
Qed.

(* ---- tie to the judge of the check *)
Lemma m_count_go_total hn rules diffs : Forall positive rules -> sorted_from 0 rules ->
  m_count_go hn rules diffs = Some (flat_map (fun d => [genZ hn rules d; minZ rules d; maxZ rules d]) diffs).
Proof.
  intros Hp Hs. induction diffs as [|d t IH]; [reflexivity|]. cbn [m_count_go flat_map].
  destruct (count_total hn rules d Hp Hs) as (-> & -> & ->). rewrite IH. reflexivity.
Qed.
Lemma triples_flat (G Mn Mx : Z -> Z) diffs :
  triples (flat_map (fun d => [G d; Mn d; Mx d]) diffs) = Some (map (fun d => (G d, Mn d, Mx d)) diffs).
Proof. induction diffs as [|d t IH]; [reflexivity|]. cbn [flat_map app triples map]. rewrite IH. reflexivity. Qed.
Lemma mono_ok_graph (G : Z -> Z) : (forall a b, a <= b -> G a <= G b) ->
  forall diffs, mono_ok (map (fun d => (d, G d)) diffs) = true.
Proof.
  intros HG. induction diffs as [|d t IH]; [reflexivity|]. cbn [map mono_ok]. rewrite IH, andb_true_r.
  apply forallb_forall. intros [d2 g2] Hin. apply in_map_iff in Hin. destruct Hin as (x & E & _). inversion E; subst.
  apply andb_true_intro. split.
  - destruct (Z.leb_spec d d2); [apply Z.leb_le; auto|reflexivity].
  - destruct (Z.leb_spec d2 d); [apply Z.leb_le; auto|reflexivity].
Qed.

Theorem count_meets_spec idt added diffs : ok_count added diffs (m_count idt added diffs) = true.
Proof.
  unfold ok_count. destruct (forallb rule_positive added) eqn:Ep; [|reflexivity]. cbn [negb].
  apply forallb_positive in Ep. destruct (add_rules_ok added Ep) as [Hp Hs].
  unfold m_count. rewrite (m_count_go_total _ _ diffs Hp Hs).
  rewrite (triples_flat (genZ (bkdr idt) (add_rules added)) (minZ (add_rules added)) (maxZ (add_rules added))).
  rewrite map_length, Nat.eqb_refl. cbn [andb]. apply andb_true_intro. split.
  - apply forallb_forall. intros [[g mn] mx] Hin. apply in_map_iff in Hin. destruct Hin as (d & E & _). inversion E; subst.
    pose proof (count_bounds_pure (bkdr idt) _ d Hp Hs). apply andb_true_intro. split; apply Z.leb_le; lia.
  - rewrite map_map.
    replace (combine diffs (map (fun d => genZ (bkdr idt) (add_rules added) d) diffs))
      with (map (fun d => (d, genZ (bkdr idt) (add_rules added) d)) diffs)
      by (clear; induction diffs as [|d t IH]; [reflexivity|cbn [map combine]; rewrite IH; reflexivity]).
    apply mono_ok_graph. intros a b Hab. apply count_monotone_pure; auto.
Qed.
