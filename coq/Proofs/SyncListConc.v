From Coq Require Import List ZArith Lia Bool Arith.
Import ListNotations.
From V Require Import Model.SyncListConc.
Local Open Scope Z_scope.
Arguments Z.add : simpl never.
Arguments Z.sub : simpl never.
Arguments Z.of_nat : simpl never.
Lemma replay_app l1 l2 q0 : replay (l1 ++ l2) q0 = match replay l1 q0 with Some q1 => replay l2 q1 | None => None end.
Proof.
  revert q0; induction l1 as [|e l1 IH]; intros q0; cbn [app replay]; auto. destruct e; auto.
  - destruct q0 as [|x q']; auto. destruct (x =? v); auto.
  - destruct q0; auto.
Qed.

(* ---- list bookkeeping ---- *)
Lemma sumw_upd l i p p' : nth_error l i = Some p -> sumw (upd l i p') = sumw l - wlen p + wlen p'.
Proof.
  revert i; induction l as [|a l IH]; intros [|i] H; cbn [upd sumw nth_error] in *; try discriminate.
  - inversion H; subst; lia.
  - rewrite (IH _ H); lia.
Qed.
Lemma nlinked_upd l i p p' : nth_error l i = Some p ->
  nlinked (upd l i p') = nlinked l - (if linked p then 1 else 0) + (if linked p' then 1 else 0).
Proof.
  revert i; induction l as [|a l IH]; intros [|i] H; cbn [upd nlinked nth_error] in *; try discriminate.
  - inversion H; subst; destruct (linked p), (linked p'); lia.
  - rewrite (IH _ H); lia.
Qed.
Lemma sumw_nonneg l : 0 <= sumw l.
Proof. induction l as [|a l IH]; cbn [sumw]; [lia|]. destruct a; cbn [wlen]; lia. Qed.
Lemma nlinked_nonneg l : 0 <= nlinked l.
Proof. induction l as [|a l IH]; cbn [nlinked]; [lia|]. destruct (linked a); lia. Qed.
Lemma nlinked_in l p : In p l -> linked p = true -> 1 <= nlinked l.
Proof.
  induction l as [|a l IH]; cbn [nlinked In]; [tauto|]. intros [->|H] Hl.
  - rewrite Hl. pose proof (nlinked_nonneg l). lia.
  - specialize (IH H Hl). destruct (linked a); lia.
Qed.
Lemma linked_two l i j p q0 : i <> j -> nth_error l i = Some p -> nth_error l j = Some q0 ->
  linked p = true -> linked q0 = true -> 2 <= nlinked l.
Proof.
  revert i j; induction l as [|a l IH]; intros [|i] [|j] Hij Hi Hj Hp Hq; cbn [nth_error nlinked] in *; try discriminate; try lia.
  - inversion Hi; subst. rewrite Hp. pose proof (nlinked_in l q0 (nth_error_In _ _ Hj) Hq). lia.
  - inversion Hj; subst. rewrite Hq. pose proof (nlinked_in l p (nth_error_In _ _ Hi) Hp). lia.
  - assert (i <> j) by lia. specialize (IH _ _ H Hi Hj Hp Hq). destruct (linked a); lia.
Qed.
Lemma Forall_upd_others {A} (P : A -> Prop) l i x :
  (forall j y, j <> i -> nth_error l j = Some y -> P y) -> P x -> Forall P (upd l i x).
Proof.
  revert i; induction l as [|a l IH]; intros [|i] H Hx; cbn [upd]; constructor; auto.
  - apply Forall_forall. intros y Hy. apply In_nth_error in Hy as [j Hj]. apply (H (S j)); [lia|exact Hj].
  - apply (H 0%nat); [lia|reflexivity].
  - apply IH; auto. intros j y Hj Hy. apply (H (S j)); [lia|exact Hy].
Qed.
Lemma upd_length {A} (l : list A) i x : length (upd l i x) = length l.
Proof. revert i; induction l as [|a l IH]; intros [|i]; cbn [upd length]; auto. Qed.
Lemma nth_upd_ne {A} (l : list A) i j x dflt : i <> j -> nth j (upd l i x) dflt = nth j l dflt.
Proof. revert i j; induction l as [|a l IH]; intros [|i] [|j] H; cbn [upd nth]; auto; try lia; apply IH; lia. Qed.
Lemma nth_error_upd_cases {A} (l : list A) i j x y :
  nth_error (upd l i x) j = Some y -> (j = i /\ y = x) \/ (j <> i /\ nth_error l j = Some y).
Proof.
  revert i j; induction l as [|a l IH]; intros [|i] [|j] H; cbn [upd nth_error] in *; try discriminate.
  - inversion H; subst. left; auto.
  - right. split; [lia|exact H].
  - right. split; [lia|exact H].
  - apply IH in H. destruct H as [[-> ->]|[Hne H]]; [left; auto|right; split; [lia|exact H]].
Qed.
Lemma Uniq_same l i p p' : Uniq l -> nth_error l i = Some p -> (owns p' = None \/ owns p' = owns p) -> Uniq (upd l i p').
Proof.
  intros HU Hi Ho a b p1 p2 n Hab H1 H2 Hf1 Hf2.
  apply nth_error_upd_cases in H1. apply nth_error_upd_cases in H2.
  destruct H1 as [[-> ->]|[Ha H1]]; destruct H2 as [[-> ->]|[Hb H2]]; try lia.
  - destruct Ho as [Ho|Ho]; [congruence|]. rewrite Ho in Hf1. exact (HU i b p p2 n Hab Hi H2 Hf1 Hf2).
  - destruct Ho as [Ho|Ho]; [congruence|]. rewrite Ho in Hf2. exact (HU a i p1 p n Hab H1 Hi Hf1 Hf2).
  - exact (HU a b p1 p2 n Hab H1 H2 Hf1 Hf2).
Qed.
Lemma Uniq_new l i p' n : Uniq l -> owns p' = Some n ->
  (forall j pj, j <> i -> nth_error l j = Some pj -> owns pj <> Some n) -> Uniq (upd l i p').
Proof.
  intros HU Ho Hnew a b p1 p2 m Hab H1 H2 Hf1 Hf2.
  apply nth_error_upd_cases in H1. apply nth_error_upd_cases in H2.
  destruct H1 as [[-> ->]|[Ha H1]]; destruct H2 as [[-> ->]|[Hb H2]]; try lia.
  - rewrite Ho in Hf1. inversion Hf1; subst. exact (Hnew b p2 Hb H2 Hf2).
  - rewrite Ho in Hf2. inversion Hf2; subst. exact (Hnew a p1 Ha H1 Hf1).
  - exact (HU a b p1 p2 m Hab H1 H2 Hf1 Hf2).
Qed.

Ltac other_threads HT :=
  apply Forall_upd_others; [intros j pj Hj Hpj;
    let Hq := fresh "Hq" in
    assert (Hq : tassert _ pj) by (rewrite Forall_forall in HT; apply HT; eapply nth_error_In; eauto) | ].

Theorem step_inv c e : Inv c -> Inv (step c e).
Proof.
  destruct e as [i o]. unfold step. destruct (nth_error (ths c) i) as [p|] eqn:Hi; [|auto].
  intros [Hht Hlen Hone Hq Hvals Hcnt Hlin Huniq HT HH].
  assert (Hp : tassert (sh c) p) by (rewrite Forall_forall in HT; apply HT; eapply nth_error_In; eauto).
  assert (Hin : In p (ths c)) by (eapply nth_error_In; eauto).
  pose proof (sumw_upd (ths c) i p) as SW. pose proof (nlinked_upd (ths c) i p) as NL. specialize (SW ltac:(idtac) Hi) || idtac.
  destruct c as [s l h]. cbn [sh ths hist] in *.
  destruct p; cbn [tstep].
  - (* Idle *)
    destruct o; constructor; cbn [sh ths hist]; auto; try (rewrite (nlinked_upd _ _ _ _ Hi)); try (rewrite (sumw_upd _ _ _ _ Hi)); cbn [linked wlen]; try lia.
    all: try (eapply Uniq_same; eauto; left; reflexivity).
    all: other_threads HT; auto; try exact I.
  - (* PushLoadTail *)
    constructor; cbn [sh ths hist]; auto; try (rewrite (nlinked_upd _ _ _ _ Hi)); try (rewrite (sumw_upd _ _ _ _ Hi)); cbn [linked wlen]; try lia.
    + eapply Uniq_same; eauto; left; reflexivity.
    + other_threads HT; auto. cbn [tassert]. lia.
  - (* PushLoadNext *)
    constructor; cbn [sh ths hist]; auto; try (rewrite (nlinked_upd _ _ _ _ Hi)); try (rewrite (sumw_upd _ _ _ _ Hi)); cbn [linked wlen]; try lia.
    + eapply Uniq_same; eauto; left; reflexivity.
    + other_threads HT; auto.
  - (* PushCas *)
    cbn [tassert] in Hp.
    assert (Hlocal : Inv {| sh := s; ths := upd l i (PushYield v); hist := h |}).
    { constructor; cbn [sh ths hist]; auto; try (rewrite (nlinked_upd _ _ _ _ Hi)); try (rewrite (sumw_upd _ _ _ _ Hi)); cbn [linked wlen]; try lia.
      - eapply Uniq_same; eauto; left; reflexivity.
      - other_threads HT; auto; try exact I. }
    destruct nx; [exact Hlocal|]. unfold next_of. destruct (Nat.ltb_spec (S t) (length (vals s))) as [Hlt|Hge]; [exact Hlocal|].
    (* the link succeeds: nobody else is linked, t is the tail *)
    assert (Hnl : nlinked l = 0) by lia. assert (Ht : t = tail s) by lia.
    constructor; cbn [sh ths hist vals head tail len q lin]; auto;
      try (rewrite (nlinked_upd _ _ _ _ Hi)); try (rewrite (sumw_upd _ _ _ _ Hi)); cbn [linked wlen]; try lia.
    + rewrite app_length. cbn [length]. lia.
    + intros j Hj. rewrite app_nth1 by lia. apply Hvals; auto.
    + eapply Uniq_same; eauto; left; reflexivity.
    + other_threads HT.
      * destruct pj; cbn [tassert vals head tail] in *; auto; try lia.
        all: try (exfalso; pose proof (nlinked_in l _ (nth_error_In _ _ Hpj) eq_refl); lia).
        all: try (destruct Hq0 as [H1 H2]; split; auto; rewrite app_nth1; auto; lia).
      * cbn [tassert vals tail]. rewrite app_length. cbn [length]. repeat split; try lia.
        rewrite app_nth2 by lia. rewrite Nat.sub_diag. reflexivity.
  - (* PushAdd *)
    cbn [tassert] in Hp.
    constructor; cbn [sh ths hist vals head tail len q lin]; auto;
      try (rewrite (nlinked_upd _ _ _ _ Hi)); try (rewrite (sumw_upd _ _ _ _ Hi)); cbn [linked wlen]; try lia.
    + eapply Uniq_same; eauto; left; reflexivity.
    + other_threads HT; auto.
  - (* PushStoreTail: publish *)
    cbn [tassert] in Hp. destruct Hp as (Hn & HSn & Hv).
    assert (Hnl : nlinked l = 1) by (pose proof (nlinked_in l _ Hin eq_refl); lia).
    constructor; cbn [sh ths hist vals head tail len q lin push_hist]; auto;
      try (rewrite (nlinked_upd _ _ _ _ Hi)); try (rewrite (sumw_upd _ _ _ _ Hi)); cbn [linked wlen]; try lia.
    + rewrite app_length. cbn [length]. lia.
    + intros j Hj. rewrite app_length in Hj. cbn [length] in Hj.
      destruct (Nat.eq_dec j (length (q s))) as [->|Hne].
      * rewrite app_nth2 by lia. rewrite Nat.sub_diag. cbn [nth]. rewrite <- Hv. f_equal. lia.
      * rewrite app_nth1 by lia. apply Hvals. lia.
    + rewrite replay_app, Hlin. reflexivity.
    + eapply Uniq_same; eauto; left; reflexivity.
    + other_threads HT.
      * destruct pj; cbn [tassert vals head tail] in *; auto; try lia.
        all: try (exfalso; pose proof (linked_two l _ _ _ _ Hj Hpj Hi eq_refl eq_refl); lia).
        all: try (destruct Hq0 as [H1 H2]; split; auto; intros E; specialize (H2 E); lia).
        all: try (destruct Hq0 as [H1 H2]; split; auto; intros E; specialize (H2 E); destruct H2; split; auto; lia).
      * exact I.
    + apply Forall_app; split; auto; repeat constructor.
  - (* PushYield *)
    constructor; cbn [sh ths hist]; auto; try (rewrite (nlinked_upd _ _ _ _ Hi)); try (rewrite (sumw_upd _ _ _ _ Hi)); cbn [linked wlen]; try lia.
    + eapply Uniq_same; eauto; left; reflexivity.
    + other_threads HT; auto; try exact I.
  - (* PopLoadHead *)
    constructor; cbn [sh ths hist]; auto; try (rewrite (nlinked_upd _ _ _ _ Hi)); try (rewrite (sumw_upd _ _ _ _ Hi)); cbn [linked wlen]; try lia.
    + eapply Uniq_same; eauto; left; reflexivity.
    + other_threads HT; auto. cbn [tassert]. lia.
  - (* PopLoadTail *)
    cbn [tassert] in Hp. destruct (Nat.eqb_spec h0 (tail s)) as [E|E].
    + (* empty: head = tail at this instant *)
      assert (Hemp : q s = []) by (destruct (q s); [reflexivity|cbn [length] in Hq; lia]).
      constructor; cbn [sh ths hist vals head tail len q lin push_hist]; auto;
        try (rewrite (nlinked_upd _ _ _ _ Hi)); try (rewrite (sumw_upd _ _ _ _ Hi)); cbn [linked wlen]; try lia.
      * rewrite replay_app, Hlin, Hemp. reflexivity.
      * eapply Uniq_same; eauto; left; reflexivity.
      * other_threads HT; auto; try exact I.
      * apply Forall_app; split; auto; repeat constructor.
    + constructor; cbn [sh ths hist]; auto; try (rewrite (nlinked_upd _ _ _ _ Hi)); try (rewrite (sumw_upd _ _ _ _ Hi)); cbn [linked wlen]; try lia.
      * eapply Uniq_same; eauto; left; reflexivity.
      * other_threads HT; auto. cbn [tassert]. split; auto. lia.
  - (* PopLoadNext *)
    cbn [tassert] in Hp. destruct Hp as [H1 H2].
    constructor; cbn [sh ths hist]; auto; try (rewrite (nlinked_upd _ _ _ _ Hi)); try (rewrite (sumw_upd _ _ _ _ Hi)); cbn [linked wlen]; try lia.
    + eapply Uniq_same; eauto; left; reflexivity.
    + other_threads HT; auto. cbn [tassert]. split; auto. intros E. specialize (H2 E). split; auto.
      unfold next_of. destruct (Nat.ltb_spec (S h0) (length (vals s))); [reflexivity|lia].
  - (* PopCas *)
    cbn [tassert] in Hp. destruct Hp as [H1 H2].
    assert (Hlocal : Inv {| sh := s; ths := upd l i Idle; hist := h |}).
    { constructor; cbn [sh ths hist]; auto; try (rewrite (nlinked_upd _ _ _ _ Hi)); try (rewrite (sumw_upd _ _ _ _ Hi)); cbn [linked wlen]; try lia.
      - eapply Uniq_same; eauto; left; reflexivity.
      - other_threads HT; auto; try exact I. }
    assert (Hbusy : Inv {| sh := s; ths := upd l i Idle; hist := h ++ [(i, RPopBusy)] |}).
    { destruct Hlocal as [A1 A2 A3 A4 A5 A6 A7 A8 A9 A10]. constructor; cbn [sh ths hist] in *; auto.
      apply Forall_app; split; auto; repeat constructor. }
    destruct (Nat.eqb_spec (head s) h0) as [E|E]; [|exact Hbusy]. symmetry in E. destruct (H2 E) as [Hlt ->]. subst h0.
    assert (Hq1 : (1 <= length (q s))%nat) by lia.
    destruct (q s) as [|g q'] eqn:Eq; [cbn [length] in Hq1; lia|]. cbn [nth List.tl].
    constructor; cbn [sh ths hist vals head tail len q lin push_hist]; auto;
      try (rewrite (nlinked_upd _ _ _ _ Hi)); try (rewrite (sumw_upd _ _ _ _ Hi)); cbn [linked wlen]; try lia.
    + cbn [length] in Hq. lia.
    + intros j Hj. specialize (Hvals (S j) ltac:(cbn [length]; lia)). cbn [nth] in Hvals. rewrite <- Hvals. f_equal. lia.
    + rewrite replay_app, Hlin. cbn [replay]. rewrite Z.eqb_refl. reflexivity.
    + eapply Uniq_new; eauto; [reflexivity|]. intros j pj Hj Hpj Ho.
      assert (Hqj : tassert s pj) by (rewrite Forall_forall in HT; apply HT; eapply nth_error_In; eauto).
      destruct pj; cbn [owns] in Ho; try discriminate; inversion Ho; subst; cbn [tassert] in Hqj; lia.
    + other_threads HT.
      * destruct pj; cbn [tassert vals head tail] in *; auto; try lia; try (intuition lia).
      * cbn [tassert vals head]. split; [lia|]. specialize (Hvals 0%nat ltac:(cbn [length]; lia)). cbn [nth] in Hvals.
        rewrite <- Hvals. f_equal. lia.
  - (* PopRead *)
    cbn [tassert] in Hp. destruct Hp as [H1 H2].
    constructor; cbn [sh ths hist]; auto; try (rewrite (nlinked_upd _ _ _ _ Hi)); try (rewrite (sumw_upd _ _ _ _ Hi)); cbn [linked wlen]; try lia.
    + eapply Uniq_same; eauto; right; reflexivity.
    + other_threads HT; auto. cbn [tassert]. split; auto.
  - (* PopClear *)
    cbn [tassert] in Hp. destruct Hp as [H1 H2].
    constructor; cbn [sh ths hist vals head tail len q lin]; auto;
      try (rewrite (nlinked_upd _ _ _ _ Hi)); try (rewrite (sumw_upd _ _ _ _ Hi)); cbn [linked wlen]; try lia.
    + rewrite upd_length. lia.
    + intros j Hj. rewrite nth_upd_ne by lia. apply Hvals; auto.
    + eapply Uniq_same; eauto; left; reflexivity.
    + other_threads HT.
      * destruct pj; cbn [tassert vals head tail] in *; auto; try lia.
        all: try (destruct Hq0 as (A & B & C); rewrite upd_length; repeat split; auto; rewrite nth_upd_ne by lia; exact C).
        all: try (destruct Hq0 as [A B]; split; auto; rewrite nth_upd_ne; auto;
                  intros ->; exact (Huniq i j _ _ _ ltac:(auto) Hi Hpj eq_refl eq_refl)).
      * cbn [tassert]. exact H2.
  - (* PopDec *)
    cbn [tassert] in Hp.
    constructor; cbn [sh ths hist vals head tail len q lin push_hist]; auto;
      try (rewrite (nlinked_upd _ _ _ _ Hi)); try (rewrite (sumw_upd _ _ _ _ Hi)); cbn [linked wlen]; try lia.
    + eapply Uniq_same; eauto; left; reflexivity.
    + other_threads HT; auto; try exact I.
    + apply Forall_app; split; auto; repeat constructor; exact Hp.
  - (* LenLoad *)
    constructor; cbn [sh ths hist push_hist]; auto; try (rewrite (nlinked_upd _ _ _ _ Hi)); try (rewrite (sumw_upd _ _ _ _ Hi)); cbn [linked wlen]; try lia.
    + eapply Uniq_same; eauto; left; reflexivity.
    + other_threads HT; auto; try exact I.
    + apply Forall_app; split; auto; repeat constructor. unfold res_ok; cbn [snd].
      all: pose proof (sumw_nonneg l); try rewrite Hcnt; try rewrite Hq; lia.
Qed.

Lemma init_inv n : Inv (init n).
Proof.
  assert (Hs : sumw (repeat Idle n) = 0) by (induction n as [|n IH]; cbn [repeat sumw wlen]; lia).
  assert (Hl : nlinked (repeat Idle n) = 0) by (clear; induction n as [|n IH]; cbn [repeat nlinked linked]; lia).
  constructor; cbn [init sh ths hist vals head tail len q lin length]; rewrite ?Hs, ?Hl; auto; try (cbn; lia).
  all: try (intros a b p1 p2 m _ Ha _ Ho; apply nth_error_In, repeat_spec in Ha; subst; discriminate).
  all: try (intros j Hj; exfalso; cbn [length] in Hj; lia).
  all: try (apply Forall_forall; intros p Hp; apply repeat_spec in Hp; subst; exact I).
Qed.
Lemma run_inv sched : forall c, Inv c -> Inv (run c sched).
Proof. induction sched as [|e t IH]; intros c H; cbn [run fold_left]; auto. apply IH, step_inv, H. Qed.

(* C11 on the repaired order, for every number of goroutines and every schedule *)
Theorem synclist_linearizable n sched : let c := run (init n) sched in
  (* operations in the order of their linearisation points form a legal run of an unbounded FIFO
     (push at its tail store, pop at its head CAS, empty pop at its tail load) ending in content q *)
  replay (lin (sh c)) [] = Some (q (sh c)) /\
  (* every successful Pop returns the value the log recorded for it *)
  (forall i v g, In (i, RPop v g) (hist c) -> v = Some g) /\
  (* Len() is never negative and never below the number of values that can be popped *)
  0 <= Z.of_nat (length (q (sh c))) <= len (sh c).
Proof.
  cbv zeta. destruct (run_inv sched (init n) (init_inv n)) as [Hht _ _ Hq _ Hcnt Hlin _ _ HH].
  split; [exact Hlin|]. split.
  - intros i v g Hin. rewrite Forall_forall in HH. apply (HH _ Hin).
  - pose proof (sumw_nonneg (ths (run (init n) sched))). lia.
Qed.

(* at quiescence Len() is exact *)
Theorem synclist_len_exact n sched : let c := run (init n) sched in
  Forall (fun p => p = Idle) (ths c) -> len (sh c) = Z.of_nat (length (q (sh c))).
Proof.
  cbv zeta. intros Hidle. destruct (run_inv sched (init n) (init_inv n)) as [Hht _ _ Hq _ Hcnt _ _ _ _].
  assert (sumw (ths (run (init n) sched)) = 0).
  { induction (ths (run (init n) sched)) as [|p l IH]; [reflexivity|]. inversion Hidle; subst. cbn [sumw wlen]. rewrite IH; auto. }
  lia.
Qed.
Print Assumptions synclist_linearizable.
Print Assumptions synclist_len_exact.
