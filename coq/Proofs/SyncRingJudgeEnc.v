(* C01, refinement model -> judge: the token level.  The judge's walk over the encoded trace is the fold of [jstep] over
   the events; the per-thread result lists and the final-state section decode to what the model produced. *)
From Coq Require Import List ZArith Lia Bool Arith.
Import ListNotations.
From V Require Import Lib.Enc Model.SyncRingConc Model.SyncRingJudge Proofs.SyncRingConc Proofs.SyncRingConcTop
  Run.C01 Proofs.SyncRingJudgeSim Proofs.SyncRingJudgeThread Proofs.SyncRingJudgeStep Proofs.SyncRingJudgeEntry.
Local Open Scope Z_scope.
Arguments Z.add : simpl never.
Arguments Z.sub : simpl never.
Arguments Z.mul : simpl never.
Arguments Z.modulo : simpl never.
Arguments Z.div : simpl never.
Arguments Z.pow : simpl never.
Arguments Z.of_nat : simpl never.
Arguments Z.to_nat : simpl never.

Lemma get_list_put_app l r : get_list (put_list l ++ r) = (l, r).
Proof.
  unfold put_list, get_list. cbn [app]. rewrite Nat2Z.id.
  rewrite firstn_app, firstn_all, Nat.sub_diag, skipn_app, skipn_all, Nat.sub_diag. cbn [firstn skipn app]. rewrite app_nil_r. reflexivity.
Qed.
Lemma get_list_put l : get_list (put_list l) = (l, []).
Proof. rewrite <- (app_nil_r (put_list l)). apply get_list_put_app. Qed.

Lemma judge_steps_evs cap progs : forall evs fuel s rest, (length evs < fuel)%nat ->
  judge_steps fuel cap progs s (flat_map enc_jev evs ++ -1 :: rest) = (fold_left (jstep cap progs) evs s, rest).
Proof.
  induction evs as [|e evs IH]; intros fuel s rest Hf; (destruct fuel as [|f]; [cbn [length] in Hf; lia|]).
  - reflexivity.
  - cbn [length] in Hf. cbn [flat_map fold_left]. rewrite <- app_assoc.
    assert (Hx : forall i : nat, (Z.of_nat i =? -1) = false /\ (Z.of_nat i <? -1) = false).
    { intros i. split; [apply Z.eqb_neq|apply Z.ltb_ge]; lia. }
    destruct e as [i|i|i ek loc a b res]; cbn [enc_jev app judge_steps]; destruct (Hx i) as [-> ->]; rewrite ?Nat2Z.id.
    + cbn [jstep]. apply IH. lia.
    + cbn [jstep]. apply IH. lia.
    + cbn [jstep]. fold (jlook cap s).
      destruct ((ek =? EvCasU32) && (res =? 1) && (loc =? LocTail)); [apply IH; lia|].
      destruct ((ek =? EvCasU32) && (res =? 1) && (loc =? LocHead)); apply IH; lia.
Qed.

Lemma enc_jev_len e : (1 <= length (enc_jev e))%nat.
Proof. destruct e; cbn [enc_jev length]; lia. Qed.
Lemma flat_map_enc_len evs : (length evs <= length (flat_map enc_jev evs))%nat.
Proof.
  induction evs as [|e evs IH]; cbn [flat_map length]; [lia|]. rewrite app_length. pose proof (enc_jev_len e). lia.
Qed.

(* ---- results ---- *)
Lemma check_results_fits cap recs ress : Forall2 (res_fits cap) recs ress -> check_results cap recs (flat_map enc_res ress) = true.
Proof.
  induction 1 as [|r x recs ress Hfit _ IH]; [reflexivity|].
  cbn [flat_map]. destruct x as [b|[v|] g|k0 z cp]; cbn [enc_res app check_results res_fits] in *.
  - destruct Hfit as (A & B & C). rewrite A, B, IH. destruct b; cbn [zb Z.eqb negb Bool.eqb orb andb]; [reflexivity|].
    rewrite (C eq_refl). reflexivity.
  - destruct Hfit as (A & B & C). rewrite A, B, IH, C, Z.eqb_refl. reflexivity.
  - destruct Hfit as (A & B & C). rewrite A, B, IH. cbn [negb Z.eqb Bool.eqb andb]. rewrite C. reflexivity.
  - destruct Hfit as (A & (B1 & B2) & C). rewrite IH, A.
    assert (Hneg : obs_code k0 <? 0 = true) by (destruct k0; reflexivity). rewrite Hneg. cbn [andb]. rewrite andb_true_r.
    rewrite A in B2. destruct (o_excuse r) eqn:Ex.
    + apply andb_true_iff. split; [apply Z.leb_le; lia|apply Z.geb_le; lia].
    + rewrite (C eq_refl). apply Z.eqb_refl.
Qed.

Lemma Forall2_nth {A B} (P : A -> B -> Prop) : forall l1 l2, length l1 = length l2 ->
  (forall i a b, nth_error l1 i = Some a -> nth_error l2 i = Some b -> P a b) -> Forall2 P l1 l2.
Proof.
  induction l1 as [|a l1 IH]; intros [|b l2] Hl H; cbn [length] in Hl; try lia; constructor.
  - apply (H 0%nat); reflexivity.
  - apply IH; [lia|]. intros i x y Hx Hy. apply (H (S i)); assumption.
Qed.

Lemma check_threads_ok cap : forall ths rts rest,
  Forall2 (fun t rt => check_results cap (rev (t_done (finish t))) (rev' (r_res rt)) = true) ths rts ->
  check_threads cap ths (flat_map (fun rt => put_list (rev' (r_res rt))) rts ++ rest) = (true, rest).
Proof.
  induction 1 as [|t rt ths rts Hok _ IH]; [reflexivity|].
  cbn [flat_map check_threads]. rewrite <- app_assoc, get_list_put_app, Hok, IH. reflexivity.
Qed.

Lemma thread_results_ok cap s rt t prog :
  TR cap s Idle rt t prog -> r_wait rt = 0 -> check_results cap (rev (t_done (finish t))) (rev' (r_res rt)) = true.
Proof.
  intros [(ress & dn & H1 & H2 & H3 & H4) _] Hw. unfold rev'. rewrite <- rev_alt, H1. apply check_results_fits.
  unfold finish. destruct (t_cur t) as [r|].
  - rewrite Hw in H4. cbn in H4. destruct H4 as ((x & -> & Hx) & _). cbn [t_done rev]. apply Forall2_app; auto.
  - destruct H4 as (_ & _ & ->). exact H3.
Qed.

(* ---- final state ---- *)
Lemma slot_vals_enc sl : slot_vals (flat_map enc_slot sl) = map (fun x : option Z * Z => match fst x with Some v => v | None => 0 end) sl.
Proof. induction sl as [|x sl IH]; [reflexivity|]. cbn [flat_map enc_slot app slot_vals map]. rewrite IH. reflexivity. Qed.

Lemma list_eqb_refl l : list_eqb l l = true.
Proof. induction l as [|x l IH]; [reflexivity|]. cbn [list_eqb]. rewrite Z.eqb_refl, IH. reflexivity. Qed.

Lemma map_seq_nth (f : nat -> Z) l : (forall j, (j < length l)%nat -> f j = nth j l 0) -> map f (seq 0 (length l)) = l.
Proof.
  intros H. apply (nth_ext _ _ 0 0).
  - rewrite map_length, seq_length. reflexivity.
  - intros n Hn. rewrite map_length, seq_length in Hn.
    rewrite (nth_indep _ 0 (f 0%nat)) by (rewrite map_length, seq_length; exact Hn).
    rewrite (map_nth f (seq 0 (length l)) 0%nat n), seq_nth by exact Hn. cbn [Nat.add]. apply H. exact Hn.
Qed.

Lemma final_slot k c : Inv k c -> Forall (fun p => p = Idle) (ths c) ->
  forall j, (j < length (q (sh c)))%nat ->
  exists sq, nth_error (slots (sh c)) (sidx (sh c) (hd (sh c) + Z.of_nat j)) = Some (Some (nth j (q (sh c)) 0), sq).
Proof.
  intros HI Hidle j Hj. pose proof (inv_g _ _ HI) as HG. set (s := sh c) in *. set (p := hd s + Z.of_nat j).
  destruct (phase_exists k s p HG) as [f Hf]. destruct (phase_facts k s p f HG Hf) as ([xv xs] & Hx & (Hidx & Hsq & Hr)).
  pose proof (quiescent_unowned k c HI Hidle _ _ Hf) as Hno.
  destruct (cap_bounds k (g_k _ _ HG)) as [[H2 H31] _]. pose proof (g_cap _ _ HG) as Hc.
  pose proof (g_q _ _ HG) as Hq. pose proof (g_full _ _ HG) as Hfull. fold s in Hq, Hfull, Hc.
  destruct f as [p'|p'|p'|p']; cbn [is_owned ticket seq_of fst] in *; try discriminate.
  - exfalso. assert (p' = p) by (eapply (same_index_ticket k s); eauto; unfold p; lia). unfold p in *. lia.
  - destruct Hr as [Hr Hv]. assert (p' = p) by (eapply (same_index_ticket k s); eauto; unfold p; lia). subst p'.
    exists xs. unfold slot_at in Hx. rewrite Hx, Hv. replace (Z.to_nat (p - hd s)) with j by (unfold p; lia). reflexivity.
Qed.

Lemma check_final_ok k c : Inv k c -> Forall (fun p => p = Idle) (ths c) ->
  check_final (2 ^ k) (q (sh c)) ([-2; u32 (hd (sh c)); u32 (tl (sh c))] ++ flat_map enc_slot (slots (sh c))) = true.
Proof.
  intros HI Hidle. pose proof (inv_g _ _ HI) as HG. cbn [app check_final]. rewrite slot_vals_enc.
  rewrite (cnt_exact k _ HG), !Z.eqb_refl. cbn [andb].
  rewrite map_seq_nth; [apply list_eqb_refl|]. intros j Hj.
  destruct (final_slot k c HI Hidle j Hj) as (sq & Hs).
  assert (Hidx : Z.to_nat ((u32 (hd (sh c)) + Z.of_nat j) mod 2 ^ k) = sidx (sh c) (hd (sh c) + Z.of_nat j)).
  { unfold sidx. rewrite (g_cap _ _ HG). f_equal. rewrite Zplus_mod, (u32_mod_cap k _ (g_k _ _ HG)), <- Zplus_mod. reflexivity. }
  rewrite Hidx. set (g := fun x : option Z * Z => match fst x with Some v => v | None => 0 end).
  rewrite (nth_indep _ (-1) (g (None, 0))).
  - rewrite map_nth. rewrite (nth_error_nth _ _ _ Hs). reflexivity.
  - rewrite map_length. apply nth_error_Some. congruence.
Qed.
