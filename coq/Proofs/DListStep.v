(* C13 — DList: every public method of the model against the sequence specification, one step at a time. *)
From Coq Require Import List ZArith Arith Lia Bool Permutation.
From V Require Import Model.DList Proofs.DListChains Proofs.DListPrims Proofs.DListRel.
Import ListNotations.

Lemma set_seq_id s L : set_seq s L (seq_of s L) = s.
Proof. unfold set_seq, seq_of. destruct s. destruct (Nat.eqb L 0); reflexivity. Qed.

Lemma is_list_lt L : is_list L = true <-> L < 2.
Proof. unfold is_list. apply Nat.ltb_lt. Qed.

Lemma is_node_snode h s e : R h s -> is_node h e = snode s e.
Proof. intros HR. unfold is_node, snode. rewrite (r_fresh _ _ HR). reflexivity. Qed.
Lemma snode_range h s e : R h s -> snode s e = true -> 2 <= e < fresh h.
Proof.
  intros HR H. unfold snode in H. rewrite <- (r_fresh _ _ HR) in H. apply andb_true_iff in H. destruct H as [H1 H2].
  apply Nat.leb_le in H1. apply Nat.ltb_lt in H2. lia.
Qed.

Lemma owner_in h s L e : R h s -> L < 2 -> In e (seq_of s L) -> owner_of s e = Some L.
Proof.
  intros HR HL Hin. rewrite (owner_of_cases s L e HL). apply mem_In in Hin as Hm. rewrite Hm.
  assert (Hm2 : mem e (seq_of s (other L)) = false).
  { apply mem_false. intros Hin2. exact (disj_LL h s L e HR HL Hin Hin2). }
  rewrite Hm2. reflexivity.
Qed.

Lemma owned_mem h s L e : R h s -> L < 2 -> 2 <= e -> owned h e L = mem e (seq_of s L).
Proof.
  intros HR HL He. unfold owned. rewrite (r_own _ _ HR e He). destruct (mem e (seq_of s L)) eqn:Em.
  - apply mem_In in Em. rewrite (owner_in h s L e HR HL Em). apply Nat.eqb_refl.
  - rewrite (owner_of_cases s L e HL), Em. destruct (mem e (seq_of s (other L))); [|reflexivity].
    apply Nat.eqb_neq. unfold other. lia.
Qed.

Lemma detached_spec s e : detached s e = true <-> forall L, L < 2 -> ~ In e (seq_of s L).
Proof.
  unfold detached. rewrite andb_true_iff, !negb_true_iff, !mem_false. split.
  - intros [H0 H1] L HL. destruct (lt2_cases L HL) as [-> | ->]; auto.
  - intros H. split; [apply (H 0)|apply (H 1)]; lia.
Qed.

(* the pointers of a member *)
Lemma neighbours h s L A e B : R h s -> L < 2 -> seq_of s L = A ++ e :: B ->
  nxt h e = Some (hd L B) /\ prv h e = Some (last A L) /\ own h e = Some L /\ 2 <= e < fresh h.
Proof.
  intros HR HL Hq.
  assert (Hin : In e (seq_of s L)) by (rewrite Hq; apply in_app_iff; right; left; reflexivity).
  pose proof (r_range _ _ HR L e HL Hin) as He.
  assert (Hl : links (nxt h) (prv h) L (A ++ e :: B) L).
  { rewrite <- Hq. apply ring_links; auto. rewrite Hq. destruct A; discriminate. }
  apply links_app in Hl. destruct Hl as [H1 H2].
  split; [apply (links_first _ _ _ _ _ H2)|]. split; [apply (links_last _ _ _ _ _ H1)|]. split; [|exact He].
  rewrite (r_own _ _ HR e) by lia. eapply owner_in; eauto.
Qed.

Lemma home_in h s L e : R h s -> L < 2 -> In e (seq_of s L) -> home s e = seq_of s L.
Proof.
  intros HR HL Hin. unfold home. destruct (lt2_cases L HL) as [-> | ->].
  - change (s0 s) with (seq_of s 0). apply mem_In in Hin. rewrite Hin. reflexivity.
  - change (s0 s) with (seq_of s 0). change (s1 s) with (seq_of s 1).
    assert (Hm : mem e (seq_of s 0) = false) by (apply mem_false; intros H0; exact (r_disj _ _ HR e H0 Hin)).
    rewrite Hm. apply mem_In in Hin. rewrite Hin. reflexivity.
Qed.
Lemma home_detached s e : detached s e = true -> home s e = [].
Proof.
  unfold detached, home. intros H. apply andb_true_iff in H. destruct H as [H0 H1]. apply negb_true_iff in H0, H1.
  rewrite H0, H1. reflexivity.
Qed.
Lemma detached_or_in s e : detached s e = true \/ exists L, L < 2 /\ In e (seq_of s L).
Proof.
  unfold detached. destruct (mem e (s0 s)) eqn:E0.
  - right. exists 0. split; [lia|]. apply mem_In. exact E0.
  - destruct (mem e (s1 s)) eqn:E1; [|left; reflexivity]. right. exists 1. split; [lia|]. apply mem_In. exact E1.
Qed.

Lemma node_next_spec h s e : R h s -> 2 <= e -> node_next h e = succ_of e (home s e).
Proof.
  intros HR He. unfold node_next. destruct (detached_or_in s e) as [Hd|(L & HL & Hin)].
  - rewrite (home_detached s e Hd). rewrite (r_own _ _ HR e He). unfold owner_of.
    unfold detached in Hd. apply andb_true_iff in Hd. destruct Hd as [H0 H1]. apply negb_true_iff in H0, H1.
    change (seq_of s 0) with (s0 s). change (seq_of s 1) with (s1 s). rewrite H0, H1. reflexivity.
  - rewrite (home_in h s L e HR HL Hin). destruct (in_split_first e _ Hin) as (A & B & Hq & HnA).
    destruct (neighbours h s L A e B HR HL Hq) as (Hn & _ & Ho & _). rewrite Ho, Hn, Hq, (succ_of_split e A B HnA).
    destruct B as [|b B']; cbn [hd first_opt].
    + rewrite Nat.eqb_refl. reflexivity.
    + assert (Hb : In b (seq_of s L)) by (rewrite Hq; apply in_app_iff; right; right; left; reflexivity).
      pose proof (r_range _ _ HR L b HL Hb). destruct (Nat.eqb_spec b L); [lia|reflexivity].
Qed.

Lemma node_prev_spec h s e : R h s -> 2 <= e -> node_prev h e = pred_of e (home s e).
Proof.
  intros HR He. unfold node_prev. destruct (detached_or_in s e) as [Hd|(L & HL & Hin)].
  - rewrite (home_detached s e Hd). rewrite (r_own _ _ HR e He). unfold owner_of.
    unfold detached in Hd. apply andb_true_iff in Hd. destruct Hd as [H0 H1]. apply negb_true_iff in H0, H1.
    change (seq_of s 0) with (s0 s). change (seq_of s 1) with (s1 s). rewrite H0, H1. reflexivity.
  - rewrite (home_in h s L e HR HL Hin). destruct (in_split_first e _ Hin) as (A & B & Hq & HnA).
    destruct (neighbours h s L A e B HR HL Hq) as (_ & Hp & Ho & _). rewrite Ho, Hp, Hq.
    assert (HnB : ~ In e B).
    { pose proof (r_nodup _ _ HR L HL) as Hnd. rewrite Hq in Hnd. apply NoDup_remove_2 in Hnd. intros Hb. apply Hnd. apply in_app_iff. right. exact Hb. }
    rewrite (pred_of_split e A B HnB). rewrite (last_opt_last A L).
    destruct A as [|a A']; [cbn [last]; rewrite Nat.eqb_refl; reflexivity|].
    assert (Hb : In (last (a :: A') L) (seq_of s L)).
    { rewrite Hq. apply in_app_iff. left. destruct (@exists_last _ (a :: A') ltac:(discriminate)) as (M & z & E). rewrite E, last_last.
      apply in_app_iff. right. left. reflexivity. }
    pose proof (r_range _ _ HR L _ HL Hb). destruct (Nat.eqb_spec (last (a :: A') L) L); [lia|reflexivity].
Qed.

Lemma front_spec h s L : R h s -> L < 2 -> front h L = first_opt (seq_of s L).
Proof.
  intros HR HL. unfold front. rewrite (r_len _ _ HR L HL). destruct (seq_of s L) as [|x q] eqn:Hq; [reflexivity|].
  cbn [length]. destruct (Z.eqb_spec (Z.of_nat (S (length q))) 0); [lia|].
  pose proof (ring_links h s L HR HL) as Hl. rewrite Hq in Hl. specialize (Hl ltac:(discriminate)).
  apply (links_first _ _ _ _ _ Hl).
Qed.
Lemma back_spec h s L : R h s -> L < 2 -> back h L = last_opt (seq_of s L).
Proof.
  intros HR HL. unfold back. rewrite (r_len _ _ HR L HL). destruct (seq_of s L) as [|x q] eqn:Hq; [reflexivity|].
  cbn [length]. destruct (Z.eqb_spec (Z.of_nat (S (length q))) 0); [lia|].
  pose proof (ring_links h s L HR HL) as Hl. rewrite Hq in Hl. specialize (Hl ltac:(discriminate)).
  rewrite (links_last _ _ _ _ _ Hl). rewrite (last_opt_last (x :: q) L). reflexivity.
Qed.

(* ---- allocation, Init, lazyInit *)
Lemma seq_of_alloc s v L : seq_of (fst (salloc s v)) L = seq_of s L.
Proof. reflexivity. Qed.

Lemma R_alloc h s v : R h s ->
  snd (alloc h v) = fresh h /\ snd (salloc s v) = fresh h /\ R (fst (alloc h v)) (fst (salloc s v)) /\
  (forall L, L < 2 -> ~ In (fresh h) (seq_of s L)) /\ fresh (fst (alloc h v)) = S (fresh h) /\
  (forall x, nxt (fst (alloc h v)) x = if Nat.eqb x (fresh h) then None else nxt h x) /\
  (forall x, prv (fst (alloc h v)) x = if Nat.eqb x (fresh h) then None else prv h x) /\
  val (fst (alloc h v)) (fresh h) = v.
Proof.
  intros HR. pose proof (r_fresh _ _ HR) as Hf. pose proof (r_fresh2 _ _ HR) as Hf2.
  assert (Hno : forall L, L < 2 -> ~ In (fresh h) (seq_of s L)).
  { intros L HL Hin. pose proof (r_range _ _ HR L _ HL Hin). lia. }
  unfold alloc, salloc. cbn [fst snd]. split; [reflexivity|]. split; [symmetry; exact Hf|].
  split; [|split; [exact Hno|split; [reflexivity|split; [intros x; reflexivity|split; [intros x; reflexivity|cbn [val]; apply fupd_eq]]]]].
  constructor; cbn [nxt prv own val llen fresh].
  - intros L HL. change (seq_of {| s0 := s0 s; s1 := s1 s; sval := fupd (sval s) (sfresh s) v; sfresh := S (sfresh s) |} L) with (seq_of s L).
    eapply ring_ok_frame; [apply (r_ring _ _ HR); auto|]. cbn [nxt prv]. intros x Hin.
    assert (x <> fresh h).
    { destruct Hin as [<-|Hin]; [lia|]. pose proof (r_range _ _ HR L x HL Hin). lia. }
    rewrite !fupd_ne by auto. auto.
  - intros L HL. apply (r_nodup _ _ HR L HL).
  - apply (r_disj _ _ HR).
  - intros L x HL Hin. pose proof (r_range _ _ HR L x HL Hin). lia.
  - intros L HL. apply (r_len _ _ HR L HL).
  - intros x Hx. destruct (Nat.eq_dec x (fresh h)) as [->|Hne].
    + rewrite fupd_eq. unfold owner_of.
      change (seq_of {| s0 := s0 s; s1 := s1 s; sval := fupd (sval s) (sfresh s) v; sfresh := S (sfresh s) |} 0) with (seq_of s 0).
      change (seq_of {| s0 := s0 s; s1 := s1 s; sval := fupd (sval s) (sfresh s) v; sfresh := S (sfresh s) |} 1) with (seq_of s 1).
      assert (E0 : mem (fresh h) (seq_of s 0) = false) by (apply mem_false; apply Hno; lia).
      assert (E1 : mem (fresh h) (seq_of s 1) = false) by (apply mem_false; apply Hno; lia).
      rewrite E0, E1. reflexivity.
    + rewrite fupd_ne by auto. apply (r_own _ _ HR x Hx).
  - intros x Hx Hn. destruct (Nat.eq_dec x (fresh h)) as [->|Hne].
    + rewrite !fupd_eq. auto.
    + rewrite !fupd_ne by auto. apply (r_det _ _ HR x Hx). exact Hn.
  - intros x. cbn [sval]. rewrite <- Hf. unfold fupd. destruct (Nat.eqb x (fresh h)); [reflexivity|apply (r_val _ _ HR)].
  - cbn [sfresh]. rewrite Hf. reflexivity.
  - lia.
Qed.

Lemma R_init h s L : R h s -> L < 2 -> seq_of s L = [] -> R (init h L) s /\ nxt (init h L) L = Some L.
Proof.
  intros HR HL Hq. destruct (other_lt L HL) as (HoL & HoNe & _). split; [|unfold init, set_len, set_prv, set_nxt; cbn [nxt]; apply fupd_eq].
  unfold init, set_len, set_prv, set_nxt. constructor; cbn [nxt prv own val llen fresh].
  - intros L' HL'. destruct (Nat.eq_dec L' L) as [->|Hne].
    + right. rewrite Hq. cbn [links]. cbn [nxt prv]. rewrite !fupd_eq. auto.
    + eapply ring_ok_frame; [apply (r_ring _ _ HR); auto|]. cbn [nxt prv]. intros x Hin.
      assert (x <> L).
      { destruct Hin as [<-|Hin]; [auto|]. pose proof (r_range _ _ HR L' x HL' Hin). lia. }
      rewrite !fupd_ne by auto. auto.
  - apply (r_nodup _ _ HR).
  - apply (r_disj _ _ HR).
  - apply (r_range _ _ HR).
  - intros L' HL'. destruct (Nat.eq_dec L' L) as [->|Hne].
    + rewrite fupd_eq, Hq. reflexivity.
    + rewrite fupd_ne by auto. apply (r_len _ _ HR L' HL').
  - apply (r_own _ _ HR).
  - intros x Hx Hn. rewrite !fupd_ne by lia. apply (r_det _ _ HR x Hx Hn).
  - apply (r_val _ _ HR).
  - apply (r_fresh _ _ HR).
  - apply (r_fresh2 _ _ HR).
Qed.

Lemma ring_links_init h s L : R h s -> L < 2 -> nxt h L <> None -> links (nxt h) (prv h) L (seq_of s L) L.
Proof. intros HR HL Hn. destruct (r_ring _ _ HR L HL) as [(E & _)|Hl]; [congruence|exact Hl]. Qed.

Lemma R_lazy h s L : R h s -> L < 2 ->
  R (lazy_init h L) s /\ links (nxt (lazy_init h L)) (prv (lazy_init h L)) L (seq_of s L) L /\
  (forall x, 2 <= x -> prv (lazy_init h L) x = prv h x) /\ val (lazy_init h L) = val h /\ fresh (lazy_init h L) = fresh h.
Proof.
  intros HR HL. unfold lazy_init. destruct (nxt h L) as [y|] eqn:En.
  - split; [exact HR|]. split; [apply ring_links_init; auto; congruence|]. auto.
  - destruct (r_ring _ _ HR L HL) as [(_ & _ & Hq)|Hl].
    + destruct (R_init h s L HR HL Hq) as [HR' Hn']. split; [exact HR'|]. split; [apply ring_links_init; auto; congruence|].
      split; [|split; reflexivity]. intros x Hx. unfold init, set_len, set_prv, set_nxt. cbn [prv]. apply fupd_ne. lia.
    + exfalso. apply links_first in Hl. congruence.
Qed.

(* ---------------------------------------------------------------- insertion of a new / a detached node at a position *)
Lemma R_insert_value h s L A B v :
  R h s -> L < 2 -> seq_of s L = A ++ B -> links (nxt h) (prv h) L (A ++ B) L ->
  exists h', insert_value h L v (last A L) = Some (h', fresh h) /\
             R h' (set_seq (fst (salloc s v)) L (A ++ fresh h :: B)).
Proof.
  intros HR HL Hq Hl. unfold insert_value.
  destruct (R_alloc h s v HR) as (Ea & Es & HR0 & Hno & Hf0 & Hn0 & _ & _).
  destruct (alloc h v) as [h0 e] eqn:Eal. cbn [fst snd] in *. subst e.
  assert (Hl0 : links (nxt h0) (prv h0) L (A ++ B) L).
  { rewrite <- Hq. rewrite <- (seq_of_alloc s v L). apply ring_links_init; auto.
    rewrite Hn0. pose proof (r_fresh2 _ _ HR). destruct (Nat.eqb_spec L (fresh h)); [lia|].
    apply links_first in Hl. congruence. }
  destruct (R_insert h0 (fst (salloc s v)) L A B (fresh h) HR0 HL) as (h' & Ei & HR'); auto.
  - pose proof (r_fresh2 _ _ HR). lia.
  - rewrite Ei. exists h'. auto.
Qed.

Lemma last_snoc (A : list nat) x d : last (A ++ [x]) d = x.
Proof. apply last_last. Qed.

Lemma salloc_eta s v : salloc s v = (fst (salloc s v), sfresh s).
Proof. reflexivity. Qed.

(* the four value insertions *)
Lemma step_push_front h s L v : R h s -> L < 2 ->
  exists h', step h (OPushFront L v) = Ok h' (RHandle (Some (sfresh s))) /\
             R h' (set_seq (fst (salloc s v)) L (sfresh s :: seq_of s L)).
Proof.
  intros HR HL. cbn [step]. apply is_list_lt in HL as HL'. rewrite HL'.
  destruct (R_lazy h s L HR HL) as (HR1 & Hl1 & _ & _ & Hf1).
  destruct (R_insert_value (lazy_init h L) s L [] (seq_of s L) v HR1 HL eq_refl Hl1) as (h' & Ei & HR').
  cbn [last] in Ei. rewrite Ei. rewrite Hf1, (r_fresh _ _ HR) in *. exists h'. auto.
Qed.

Lemma step_push_back h s L v : R h s -> L < 2 ->
  exists h', step h (OPushBack L v) = Ok h' (RHandle (Some (sfresh s))) /\
             R h' (set_seq (fst (salloc s v)) L (seq_of s L ++ [sfresh s])).
Proof.
  intros HR HL. cbn [step]. apply is_list_lt in HL as HL'. rewrite HL'.
  destruct (R_lazy h s L HR HL) as (HR1 & Hl1 & _ & _ & Hf1).
  rewrite (links_last _ _ _ _ _ Hl1).
  destruct (R_insert_value (lazy_init h L) s L (seq_of s L) [] v HR1 HL) as (h' & Ei & HR').
  { rewrite app_nil_r. reflexivity. } { rewrite app_nil_r. exact Hl1. }
  rewrite Ei. rewrite Hf1, (r_fresh _ _ HR) in *. exists h'. auto.
Qed.

Lemma step_insert_before h s L v mark : R h s -> L < 2 -> snode s mark = true ->
  exists h', step h (OInsertBefore L v mark) =
               Ok h' (RHandle (if mem mark (seq_of s L) then Some (sfresh s) else None)) /\
             R h' (if mem mark (seq_of s L) then set_seq (fst (salloc s v)) L (ins_before (sfresh s) mark (seq_of s L)) else s).
Proof.
  intros HR HL Hm. cbn [step]. apply is_list_lt in HL as HL'. rewrite HL', (is_node_snode h s mark HR), Hm. cbn [andb].
  pose proof (snode_range h s mark HR Hm) as Hmr. rewrite (owned_mem h s L mark HR HL) by lia.
  destruct (mem mark (seq_of s L)) eqn:Em; cbn [negb]; [|exists h; auto].
  apply mem_In in Em. destruct (in_split_first mark _ Em) as (A & B & Hq & HnA).
  destruct (neighbours h s L A mark B HR HL Hq) as (_ & Hp & _ & _). rewrite Hp.
  assert (Hl : links (nxt h) (prv h) L (A ++ mark :: B) L).
  { rewrite <- Hq. apply ring_links; auto. rewrite Hq. destruct A; discriminate. }
  destruct (R_insert_value h s L A (mark :: B) v HR HL Hq Hl) as (h' & Ei & HR').
  rewrite Ei. rewrite (r_fresh _ _ HR) in *. exists h'. split; [reflexivity|].
  rewrite Hq, (ins_before_split _ mark A B HnA). exact HR'.
Qed.

Lemma step_insert_after h s L v mark : R h s -> L < 2 -> snode s mark = true ->
  exists h', step h (OInsertAfter L v mark) =
               Ok h' (RHandle (if mem mark (seq_of s L) then Some (sfresh s) else None)) /\
             R h' (if mem mark (seq_of s L) then set_seq (fst (salloc s v)) L (ins_after (sfresh s) mark (seq_of s L)) else s).
Proof.
  intros HR HL Hm. cbn [step]. apply is_list_lt in HL as HL'. rewrite HL', (is_node_snode h s mark HR), Hm. cbn [andb].
  pose proof (snode_range h s mark HR Hm) as Hmr. rewrite (owned_mem h s L mark HR HL) by lia.
  destruct (mem mark (seq_of s L)) eqn:Em; cbn [negb]; [|exists h; auto].
  apply mem_In in Em. destruct (in_split_first mark _ Em) as (A & B & Hq & HnA).
  assert (Hq' : seq_of s L = (A ++ [mark]) ++ B) by (rewrite <- app_assoc; exact Hq).
  assert (Hl : links (nxt h) (prv h) L ((A ++ [mark]) ++ B) L).
  { rewrite <- Hq'. apply ring_links; auto. rewrite Hq. destruct A; discriminate. }
  destruct (R_insert_value h s L (A ++ [mark]) B v HR HL Hq' Hl) as (h' & Ei & HR').
  rewrite last_snoc in Ei. rewrite Ei. rewrite (r_fresh _ _ HR) in *. exists h'. split; [reflexivity|].
  rewrite Hq, (ins_after_split _ mark A B HnA). rewrite <- app_assoc in HR'. exact HR'.
Qed.

(* the four node insertions (e detached) *)
Lemma step_push_front_node h s L e : R h s -> L < 2 -> snode s e = true -> detached s e = true ->
  exists h', step h (OPushFrontNode L e) = Ok h' RUnit /\ R h' (set_seq s L (e :: seq_of s L)).
Proof.
  intros HR HL He Hd. cbn [step]. apply is_list_lt in HL as HL'. rewrite HL', (is_node_snode h s e HR), He. cbn [andb].
  destruct (R_lazy h s L HR HL) as (HR1 & Hl1 & _ & _ & Hf1).
  pose proof (snode_range h s e HR He) as Her. rewrite <- Hf1 in Her.
  destruct (R_insert (lazy_init h L) s L [] (seq_of s L) e HR1 HL eq_refl Hl1 Her) as (h' & Ei & HR').
  { apply detached_spec. exact Hd. }
  cbn [last] in Ei. rewrite Ei. exists h'. auto.
Qed.

Lemma step_push_back_node h s L e : R h s -> L < 2 -> snode s e = true -> detached s e = true ->
  exists h', step h (OPushBackNode L e) = Ok h' RUnit /\ R h' (set_seq s L (seq_of s L ++ [e])).
Proof.
  intros HR HL He Hd. cbn [step]. apply is_list_lt in HL as HL'. rewrite HL', (is_node_snode h s e HR), He. cbn [andb].
  destruct (R_lazy h s L HR HL) as (HR1 & Hl1 & _ & _ & Hf1).
  pose proof (snode_range h s e HR He) as Her. rewrite <- Hf1 in Her.
  rewrite (links_last _ _ _ _ _ Hl1).
  destruct (R_insert (lazy_init h L) s L (seq_of s L) [] e HR1 HL) as (h' & Ei & HR'); auto.
  { rewrite app_nil_r. reflexivity. } { rewrite app_nil_r. exact Hl1. } { apply detached_spec. exact Hd. }
  rewrite Ei. exists h'. auto.
Qed.

Lemma step_insert_node_before h s L e mark : R h s -> L < 2 -> snode s e = true -> snode s mark = true ->
  (mem mark (seq_of s L) = true -> detached s e = true) ->
  exists h', step h (OInsertNodeBefore L e mark) = Ok h' RUnit /\
             R h' (if mem mark (seq_of s L) then set_seq s L (ins_before e mark (seq_of s L)) else s).
Proof.
  intros HR HL He Hm Hd. cbn [step]. apply is_list_lt in HL as HL'.
  rewrite HL', !(is_node_snode h s _ HR), He, Hm. cbn [andb].
  pose proof (snode_range h s mark HR Hm) as Hmr. rewrite (owned_mem h s L mark HR HL) by lia.
  destruct (mem mark (seq_of s L)) eqn:Em; cbn [negb]; [|exists h; auto].
  specialize (Hd eq_refl).
  apply mem_In in Em. destruct (in_split_first mark _ Em) as (A & B & Hq & HnA).
  destruct (neighbours h s L A mark B HR HL Hq) as (_ & Hp & _ & _). rewrite Hp.
  assert (Hl : links (nxt h) (prv h) L (A ++ mark :: B) L).
  { rewrite <- Hq. apply ring_links; auto. rewrite Hq. destruct A; discriminate. }
  destruct (R_insert h s L A (mark :: B) e HR HL Hq Hl (snode_range h s e HR He)) as (h' & Ei & HR').
  { apply detached_spec. exact Hd. }
  rewrite Ei. exists h'. split; [reflexivity|]. rewrite Hq, (ins_before_split _ mark A B HnA). exact HR'.
Qed.

Lemma step_insert_node_after h s L e mark : R h s -> L < 2 -> snode s e = true -> snode s mark = true ->
  (mem mark (seq_of s L) = true -> detached s e = true) ->
  exists h', step h (OInsertNodeAfter L e mark) = Ok h' RUnit /\
             R h' (if mem mark (seq_of s L) then set_seq s L (ins_after e mark (seq_of s L)) else s).
Proof.
  intros HR HL He Hm Hd. cbn [step]. apply is_list_lt in HL as HL'.
  rewrite HL', !(is_node_snode h s _ HR), He, Hm. cbn [andb].
  pose proof (snode_range h s mark HR Hm) as Hmr. rewrite (owned_mem h s L mark HR HL) by lia.
  destruct (mem mark (seq_of s L)) eqn:Em; cbn [negb]; [|exists h; auto].
  specialize (Hd eq_refl).
  apply mem_In in Em. destruct (in_split_first mark _ Em) as (A & B & Hq & HnA).
  assert (Hq' : seq_of s L = (A ++ [mark]) ++ B) by (rewrite <- app_assoc; exact Hq).
  assert (Hl : links (nxt h) (prv h) L ((A ++ [mark]) ++ B) L).
  { rewrite <- Hq'. apply ring_links; auto. rewrite Hq. destruct A; discriminate. }
  destruct (R_insert h s L (A ++ [mark]) B e HR HL Hq' Hl (snode_range h s e HR He)) as (h' & Ei & HR').
  { apply detached_spec. exact Hd. }
  rewrite last_snoc in Ei. rewrite Ei. exists h'. split; [reflexivity|].
  rewrite Hq, (ins_after_split _ mark A B HnA). rewrite <- app_assoc in HR'. exact HR'.
Qed.

(* Remove *)
Lemma step_remove h s L e : R h s -> L < 2 -> snode s e = true ->
  exists h', step h (ORemove L e) = Ok h' (RInt (sval s e)) /\ R h' (set_seq s L (rem e (seq_of s L))).
Proof.
  intros HR HL He. cbn [step]. apply is_list_lt in HL as HL'. rewrite HL', (is_node_snode h s e HR), He. cbn [andb].
  pose proof (snode_range h s e HR He) as Her. rewrite (owned_mem h s L e HR HL) by lia.
  destruct (mem e (seq_of s L)) eqn:Em.
  - apply mem_In in Em. destruct (in_split_first e _ Em) as (A & B & Hq & HnA).
    destruct (R_remove h s L A B e HR HL Hq) as (h' & Er & HR' & Hv). rewrite Er. exists h'.
    rewrite Hv, (r_val _ _ HR). split; [reflexivity|]. rewrite Hq, (rem_split e A B HnA). exact HR'.
  - apply mem_false in Em. rewrite (rem_notin e _ Em), set_seq_id. exists h. rewrite (r_val _ _ HR). auto.
Qed.

(* ---------------------------------------------------------------- moves *)
Lemma nodup_mid (A B : list nat) e : NoDup (A ++ e :: B) ->
  ~ In e A /\ ~ In e B /\ (forall x, In x A -> ~ In x B) /\ NoDup (A ++ B).
Proof.
  intros H. pose proof (NoDup_remove_1 _ _ _ H) as H1. pose proof (NoDup_remove_2 _ _ _ H) as H2.
  split; [intros Hi; apply H2; apply in_app_iff; left; exact Hi|].
  split; [intros Hi; apply H2; apply in_app_iff; right; exact Hi|]. split; [|exact H1].
  intros x Ha Hb. clear H H2. induction A as [|a A IH]; [destruct Ha|].
  cbn [app] in H1. inversion H1 as [|? ? Hn Hnd]; subst. destruct Ha as [->|Ha].
  - apply Hn. apply in_app_iff. right. exact Hb.
  - apply IH; auto.
Qed.

Lemma last_skip (A B : list nat) e d : B <> [] -> last (A ++ e :: B) d = last (A ++ B) d.
Proof.
  intros HB. destruct (@exists_last _ B HB) as (M & z & ->).
  replace (A ++ e :: M ++ [z]) with ((A ++ e :: M) ++ [z]) by (rewrite <- app_assoc; reflexivity).
  rewrite app_assoc. rewrite !last_last. reflexivity.
Qed.

Lemma step_move_to_front h s L e : R h s -> L < 2 -> snode s e = true ->
  exists h', step h (OMoveToFront L e) = Ok h' RUnit /\
             R h' (if mem e (seq_of s L) then set_seq s L (e :: rem e (seq_of s L)) else s).
Proof.
  intros HR HL He. cbn [step]. apply is_list_lt in HL as HL'. rewrite HL', (is_node_snode h s e HR), He. cbn [andb].
  pose proof (snode_range h s e HR He) as Her. rewrite (owned_mem h s L e HR HL) by lia.
  destruct (mem e (seq_of s L)) eqn:Em; cbn [negb orb]; [|exists h; auto].
  apply mem_In in Em. destruct (in_split_first e _ Em) as (A & B & Hq & HnA).
  assert (Hl : links (nxt h) (prv h) L (A ++ e :: B) L).
  { rewrite <- Hq. apply ring_links; auto. rewrite Hq. destruct A; discriminate. }
  rewrite (links_first _ _ _ _ _ Hl). rewrite Hq, (rem_split e A B HnA).
  destruct A as [|a A']; cbn [app hd oeqb].
  - rewrite Nat.eqb_refl. exists h. split; [reflexivity|]. cbn [app] in Hq. rewrite <- Hq, set_seq_id. exact HR.
  - destruct (Nat.eqb_spec a e) as [->|Hne]; [exfalso; apply HnA; left; reflexivity|].
    destruct (R_move h s L (a :: A') B e [] ((a :: A') ++ B) HR HL Hq eq_refl) as (h' & Em' & HR').
    cbn [last] in Em'. rewrite Em'. exists h'. auto.
Qed.

Lemma step_move_to_back h s L e : R h s -> L < 2 -> snode s e = true ->
  exists h', step h (OMoveToBack L e) = Ok h' RUnit /\
             R h' (if mem e (seq_of s L) then set_seq s L (rem e (seq_of s L) ++ [e]) else s).
Proof.
  intros HR HL He. cbn [step]. apply is_list_lt in HL as HL'. rewrite HL', (is_node_snode h s e HR), He. cbn [andb].
  pose proof (snode_range h s e HR He) as Her. rewrite (owned_mem h s L e HR HL) by lia.
  destruct (mem e (seq_of s L)) eqn:Em; cbn [negb orb]; [|exists h; auto].
  apply mem_In in Em. destruct (in_split_first e _ Em) as (A & B & Hq & HnA).
  assert (Hl : links (nxt h) (prv h) L (A ++ e :: B) L).
  { rewrite <- Hq. apply ring_links; auto. rewrite Hq. destruct A; discriminate. }
  rewrite (links_last _ _ _ _ _ Hl). rewrite Hq, (rem_split e A B HnA).
  pose proof (r_nodup _ _ HR L HL) as Hnd. rewrite Hq in Hnd. destruct (nodup_mid A B e Hnd) as (_ & HnB & _ & _).
  destruct B as [|b B'].
  - rewrite last_last. cbn [oeqb]. rewrite Nat.eqb_refl. exists h. split; [reflexivity|]. rewrite app_nil_r, <- Hq, set_seq_id. exact HR.
  - rewrite last_skip by discriminate. cbn [oeqb].
    destruct (Nat.eqb_spec (last (A ++ b :: B') L) e) as [E|_].
    { exfalso. pose proof (last_in L (A ++ b :: B')) as Hi. rewrite E in Hi. destruct Hi as [E2|Hi]; [lia|].
      apply in_app_iff in Hi. destruct Hi; auto. }
    destruct (R_move h s L A (b :: B') e (A ++ b :: B') [] HR HL Hq) as (h' & Em' & HR'). { rewrite app_nil_r. reflexivity. }
    rewrite Em'. exists h'. auto.
Qed.

Lemma in_mid_cases (A B : list nat) e x : In x (A ++ e :: B) -> x <> e -> In x A \/ In x B.
Proof. intros H Hne. apply in_app_iff in H. destruct H as [H|[H|H]]; [left; auto|congruence|right; auto]. Qed.

Lemma step_move_before h s L e mark : R h s -> L < 2 -> snode s e = true -> snode s mark = true ->
  exists h', step h (OMoveBefore L e mark) = Ok h' RUnit /\
             R h' (if mem e (seq_of s L) && mem mark (seq_of s L) && negb (Nat.eqb e mark)
                   then set_seq s L (ins_before e mark (rem e (seq_of s L))) else s).
Proof.
  intros HR HL He Hm. cbn [step]. apply is_list_lt in HL as HL'.
  rewrite HL', !(is_node_snode h s _ HR), He, Hm. cbn [andb].
  pose proof (snode_range h s e HR He) as Her. pose proof (snode_range h s mark HR Hm) as Hmr.
  rewrite !(owned_mem h s L _ HR HL) by lia.
  destruct (mem e (seq_of s L)) eqn:Em; cbn [negb orb andb]; [|exists h; auto].
  destruct (Nat.eqb_spec e mark) as [->|Hne]; cbn [negb orb andb]; [rewrite andb_false_r; exists h; auto|].
  destruct (mem mark (seq_of s L)) eqn:Emk; cbn [negb orb andb]; [|exists h; auto].
  apply mem_In in Em, Emk. destruct (in_split_first e _ Em) as (A & B & Hq & HnA).
  pose proof (r_nodup _ _ HR L HL) as Hnd. rewrite Hq in Hnd. destruct (nodup_mid A B e Hnd) as (_ & HnB & HAB & Hnd1).
  rewrite Hq in Emk. rewrite Hq, (rem_split e A B HnA).
  destruct (in_mid_cases A B e mark Emk ltac:(auto)) as [HmA|HmB].
  - destruct (in_split_first mark _ HmA) as (A1 & A2 & -> & Hn1).
    assert (Hq2 : seq_of s L = A1 ++ mark :: (A2 ++ e :: B)) by (rewrite Hq, <- app_assoc; reflexivity).
    destruct (neighbours h s L A1 mark _ HR HL Hq2) as (_ & Hp & _ & _). rewrite Hp.
    destruct (R_move h s L (A1 ++ mark :: A2) B e A1 (mark :: A2 ++ B) HR HL Hq) as (h' & Em' & HR').
    { rewrite <- app_assoc. reflexivity. }
    rewrite Em'. exists h'. split; [reflexivity|]. rewrite <- app_assoc. cbn [app].
    rewrite (ins_before_split e mark A1 (A2 ++ B) Hn1). exact HR'.
  - destruct (in_split_first mark _ HmB) as (B1 & B2 & -> & Hn1).
    assert (HmA : ~ In mark A) by (intros Hi; apply (HAB mark Hi); apply in_app_iff; right; left; reflexivity).
    assert (Hq2 : seq_of s L = (A ++ e :: B1) ++ mark :: B2) by (rewrite Hq, <- app_assoc; reflexivity).
    destruct (neighbours h s L _ mark _ HR HL Hq2) as (_ & Hp & _ & _). rewrite Hp.
    assert (HnAB1 : ~ In mark (A ++ B1)) by (intros Hi; apply in_app_iff in Hi; destruct Hi; auto).
    replace (A ++ B1 ++ mark :: B2) with ((A ++ B1) ++ mark :: B2) by (rewrite <- app_assoc; reflexivity).
    rewrite (ins_before_split e mark (A ++ B1) B2 HnAB1).
    destruct B1 as [|b B1'].
    + rewrite last_last. unfold move. rewrite Nat.eqb_refl. cbn [ok_unit]. exists h. split; [reflexivity|].
      rewrite app_nil_r. cbn [app] in Hq. rewrite <- Hq, set_seq_id. exact HR.
    + rewrite last_skip by discriminate.
      destruct (R_move h s L A ((b :: B1') ++ mark :: B2) e (A ++ b :: B1') (mark :: B2) HR HL Hq) as (h' & Em' & HR').
      { rewrite <- app_assoc. reflexivity. }
      rewrite Em'. exists h'. auto.
Qed.

Lemma step_move_after h s L e mark : R h s -> L < 2 -> snode s e = true -> snode s mark = true ->
  exists h', step h (OMoveAfter L e mark) = Ok h' RUnit /\
             R h' (if mem e (seq_of s L) && mem mark (seq_of s L) && negb (Nat.eqb e mark)
                   then set_seq s L (ins_after e mark (rem e (seq_of s L))) else s).
Proof.
  intros HR HL He Hm. cbn [step]. apply is_list_lt in HL as HL'.
  rewrite HL', !(is_node_snode h s _ HR), He, Hm. cbn [andb].
  pose proof (snode_range h s e HR He) as Her. pose proof (snode_range h s mark HR Hm) as Hmr.
  rewrite !(owned_mem h s L _ HR HL) by lia.
  destruct (mem e (seq_of s L)) eqn:Em; cbn [negb orb andb]; [|exists h; auto].
  destruct (Nat.eqb_spec e mark) as [->|Hne]; cbn [negb orb andb]; [rewrite andb_false_r; exists h; auto|].
  destruct (mem mark (seq_of s L)) eqn:Emk; cbn [negb orb andb]; [|exists h; auto].
  apply mem_In in Em, Emk. destruct (in_split_first e _ Em) as (A & B & Hq & HnA).
  pose proof (r_nodup _ _ HR L HL) as Hnd. rewrite Hq in Hnd. destruct (nodup_mid A B e Hnd) as (_ & HnB & HAB & Hnd1).
  rewrite Hq in Emk. rewrite Hq, (rem_split e A B HnA).
  destruct (in_mid_cases A B e mark Emk ltac:(auto)) as [HmA|HmB].
  - destruct (in_split_first mark _ HmA) as (A1 & A2 & -> & Hn1).
    destruct (R_move h s L (A1 ++ mark :: A2) B e (A1 ++ [mark]) (A2 ++ B) HR HL Hq) as (h' & Em' & HR').
    { rewrite <- !app_assoc. reflexivity. }
    rewrite last_snoc in Em'. rewrite Em'. exists h'. split; [reflexivity|]. rewrite <- app_assoc. cbn [app].
    rewrite (ins_after_split e mark A1 (A2 ++ B) Hn1). rewrite <- app_assoc in HR'. exact HR'.
  - destruct (in_split_first mark _ HmB) as (B1 & B2 & -> & Hn1).
    assert (HmA : ~ In mark A) by (intros Hi; apply (HAB mark Hi); apply in_app_iff; right; left; reflexivity).
    assert (HnAB1 : ~ In mark (A ++ B1)) by (intros Hi; apply in_app_iff in Hi; destruct Hi; auto).
    replace (A ++ B1 ++ mark :: B2) with ((A ++ B1) ++ mark :: B2) by (rewrite <- app_assoc; reflexivity).
    rewrite (ins_after_split e mark (A ++ B1) B2 HnAB1).
    destruct (R_move h s L A (B1 ++ mark :: B2) e ((A ++ B1) ++ [mark]) B2 HR HL Hq) as (h' & Em' & HR').
    { rewrite <- !app_assoc. reflexivity. }
    rewrite last_snoc in Em'. rewrite Em'. exists h'. split; [reflexivity|]. rewrite <- app_assoc in HR'. exact HR'.
Qed.

(* ---------------------------------------------------------------- traversals *)
Lemma seq_length_bound h s L : R h s -> L < 2 -> length (seq_of s L) <= fresh h.
Proof.
  intros HR HL. rewrite <- (seq_length (fresh h) 0). apply NoDup_incl_length; [apply (r_nodup _ _ HR L HL)|].
  intros x Hin. apply in_seq. pose proof (r_range _ _ HR L x HL Hin). lia.
Qed.

Lemma ids_vals_cons s x l : ids_vals s (x :: l) = Z.of_nat x :: sval s x :: ids_vals s l.
Proof. reflexivity. Qed.

Lemma walk_next_spec h s L : R h s -> L < 2 -> forall rest pre fuel acc,
  seq_of s L = pre ++ rest -> length rest < fuel ->
  walk fuel h node_next (first_opt rest) acc = Some (rev acc ++ ids_vals s rest).
Proof.
  intros HR HL. induction rest as [|x rest IH]; intros pre fuel acc Hq Hf.
  - destruct fuel; cbn [first_opt walk ids_vals flat_map]; rewrite app_nil_r; reflexivity.
  - destruct fuel as [|f]; [cbn [length] in Hf; lia|]. cbn [first_opt walk].
    assert (Hin : In x (seq_of s L)) by (rewrite Hq; apply in_app_iff; right; left; reflexivity).
    pose proof (r_range _ _ HR L x HL Hin) as Hx.
    rewrite (node_next_spec h s x HR) by lia. rewrite (home_in h s L x HR HL Hin), Hq.
    pose proof (r_nodup _ _ HR L HL) as Hnd. rewrite Hq in Hnd. destruct (nodup_mid pre rest x Hnd) as (HnP & _ & _ & _).
    rewrite (succ_of_split x pre rest HnP).
    rewrite (IH (pre ++ [x]) f); [|rewrite <- app_assoc; exact Hq|cbn [length] in Hf; lia].
    cbn [rev]. rewrite (r_val _ _ HR), ids_vals_cons. rewrite <- !app_assoc. reflexivity.
Qed.

Lemma walk_prev_spec h s L : R h s -> L < 2 -> forall rest pre fuel acc,
  rev (seq_of s L) = pre ++ rest -> length rest < fuel ->
  walk fuel h node_prev (first_opt rest) acc = Some (rev acc ++ ids_vals s rest).
Proof.
  intros HR HL. induction rest as [|x rest IH]; intros pre fuel acc Hq Hf.
  - destruct fuel; cbn [first_opt walk ids_vals flat_map]; rewrite app_nil_r; reflexivity.
  - destruct fuel as [|f]; [cbn [length] in Hf; lia|]. cbn [first_opt walk].
    assert (Hin : In x (seq_of s L)) by (apply in_rev; rewrite Hq; apply in_app_iff; right; left; reflexivity).
    pose proof (r_range _ _ HR L x HL Hin) as Hx.
    rewrite (node_prev_spec h s x HR) by lia. rewrite (home_in h s L x HR HL Hin). unfold pred_of. rewrite Hq.
    pose proof (r_nodup _ _ HR L HL) as Hnd. apply NoDup_rev in Hnd. rewrite Hq in Hnd.
    destruct (nodup_mid pre rest x Hnd) as (HnP & _ & _ & _).
    rewrite (succ_of_split x pre rest HnP).
    rewrite (IH (pre ++ [x]) f); [|rewrite <- app_assoc; exact Hq|cbn [length] in Hf; lia].
    cbn [rev]. rewrite (r_val _ _ HR), ids_vals_cons. rewrite <- !app_assoc. reflexivity.
Qed.

Lemma take_all_cons k v (l : list Z) : k <> 1 -> take_all k (v :: l) = v :: take_all (Nat.pred k) l.
Proof. destruct k as [|[|k]]; intros H; try reflexivity. congruence. Qed.

Lemma walk_all_spec h s L : R h s -> L < 2 -> forall rest pre fuel k acc,
  seq_of s L = pre ++ rest -> length rest < fuel ->
  walk_all fuel h (first_opt rest) k acc = Some (rev acc ++ take_all k (map (sval s) rest)).
Proof.
  intros HR HL. induction rest as [|x rest IH]; intros pre fuel k acc Hq Hf.
  - destruct fuel; cbn [first_opt walk_all map]; destruct k; cbn [take_all firstn]; rewrite app_nil_r; reflexivity.
  - destruct fuel as [|f]; [cbn [length] in Hf; lia|]. cbn [first_opt walk_all map].
    assert (Hin : In x (seq_of s L)) by (rewrite Hq; apply in_app_iff; right; left; reflexivity).
    pose proof (r_range _ _ HR L x HL Hin) as Hx.
    destruct (Nat.eqb_spec k 1) as [->|Hk].
    + cbn [take_all firstn rev]. rewrite (r_val _ _ HR). reflexivity.
    + rewrite (node_next_spec h s x HR) by lia. rewrite (home_in h s L x HR HL Hin), Hq.
      pose proof (r_nodup _ _ HR L HL) as Hnd. rewrite Hq in Hnd. destruct (nodup_mid pre rest x Hnd) as (HnP & _ & _ & _).
      rewrite (succ_of_split x pre rest HnP).
      rewrite (IH (pre ++ [x]) f); [|rewrite <- app_assoc; exact Hq|cbn [length] in Hf; lia].
      cbn [rev]. rewrite (r_val _ _ HR), (take_all_cons k _ _ Hk). rewrite <- app_assoc. reflexivity.
Qed.

(* ---------------------------------------------------------------- PushBackDList / PushFrontDList *)
(* the cursor after one more node was appended to the (possibly same) list it walks *)
Lemma cursor_step (cur cur1 pre post : list nat) x new n' :
  cur = pre ++ x :: post -> (cur1 = cur \/ cur1 = cur ++ [new]) -> NoDup cur1 -> n' <= length post ->
  succ_of x cur1 = nth_error cur1 (S (length pre)) /\
  firstn n' (skipn (S (length pre)) cur1) = firstn n' post.
Proof.
  intros Hc H1 Hnd Hn.
  assert (E : exists post1, cur1 = pre ++ x :: post1 /\ firstn n' post1 = firstn n' post).
  { destruct H1 as [-> | ->]; subst cur.
    - exists post. auto.
    - exists (post ++ [new]). split; [rewrite <- app_assoc; reflexivity|].
      rewrite firstn_app. replace (n' - length post) with 0 by lia. cbn [firstn]. apply app_nil_r. }
  destruct E as (post1 & -> & Ef). destruct (nodup_mid pre post1 x Hnd) as (HnP & _ & _ & _).
  rewrite (succ_of_split x pre post1 HnP). split.
  - rewrite nth_error_app2 by lia. replace (S (length pre) - length pre) with 1 by lia. destruct post1; reflexivity.
  - replace (pre ++ x :: post1) with ((pre ++ [x]) ++ post1) by (rewrite <- app_assoc; reflexivity).
    rewrite skipn_app. replace (S (length pre) - length (pre ++ [x])) with 0 by (rewrite app_length; cbn [length]; lia).
    rewrite skipn_all2 by (rewrite app_length; cbn [length]; lia). cbn [skipn app]. exact Ef.
Qed.

Lemma firstn_In_sub {A} n (l : list A) y : In y (firstn n l) -> In y l.
Proof. intros H. rewrite <- (firstn_skipn n l). apply in_app_iff. left. exact H. Qed.

Lemma map_sval_fresh h s v (l : list nat) : R h s -> (forall x, In x l -> x < fresh h) ->
  map (sval (fst (salloc s v))) l = map (sval s) l.
Proof.
  intros HR Hl. apply map_ext_in. intros x Hx. cbn [salloc fst sval]. apply fupd_ne. rewrite <- (r_fresh _ _ HR).
  specialize (Hl x Hx). lia.
Qed.

Lemma copy_back_refines L L' : L < 2 -> L' < 2 -> forall n h s i,
  R h s -> nxt h L <> None -> i + n <= length (seq_of s L') ->
  exists h', copy_back n h L (nth_error (seq_of s L') i) = Some h' /\
             R h' (scopy_back (map (sval s) (firstn n (skipn i (seq_of s L')))) s L).
Proof.
  intros HL HL'. induction n as [|n IH]; intros h s i HR Hinit Hlen.
  - cbn [copy_back firstn map scopy_back]. exists h. auto.
  - cbn [copy_back].
    destruct (nth_error (seq_of s L') i) as [x|] eqn:Ex; [|apply nth_error_None in Ex; lia].
    destruct (nth_error_split _ _ Ex) as (pre & post & Hcur & Hpre).
    pose proof (ring_links_init h s L HR HL Hinit) as Hl. rewrite (links_last _ _ _ _ _ Hl).
    destruct (R_insert_value h s L (seq_of s L) [] (val h x) HR HL) as (h1 & Ei & HR1).
    { rewrite app_nil_r. reflexivity. } { rewrite app_nil_r. exact Hl. }
    rewrite Ei. set (s1 := set_seq (fst (salloc s (val h x))) L (seq_of s L ++ [fresh h])) in *.
    (* the specification's first step *)
    assert (Hskip : skipn i (seq_of s L') = x :: post).
    { rewrite Hcur. rewrite skipn_app. rewrite skipn_all2 by lia. replace (i - length pre) with 0 by lia. reflexivity. }
    rewrite Hskip. cbn [firstn map scopy_back]. rewrite salloc_eta. rewrite <- (r_val _ _ HR x).
    rewrite <- (r_fresh _ _ HR). change (seq_of (fst (salloc s (val h x))) L) with (seq_of s L). fold s1.
    (* the other list after this step *)
    assert (Hcur1 : seq_of s1 L' = seq_of s L' \/ seq_of s1 L' = seq_of s L' ++ [fresh h]).
    { unfold s1. destruct (Nat.eq_dec L' L) as [->|Hne].
      - right. rewrite seq_set_same. reflexivity.
      - left. rewrite seq_set_other by auto. reflexivity. }
    assert (Hlenp : length (seq_of s L') = i + S (length post)).
    { rewrite Hcur, app_length. cbn [length]. lia. }
    destruct (cursor_step (seq_of s L') (seq_of s1 L') pre post x (fresh h) n Hcur Hcur1 (r_nodup _ _ HR1 L' HL')) as [Hsucc Hfirst]; [lia|].
    assert (Hx1 : In x (seq_of s1 L')).
    { destruct Hcur1 as [-> | ->]; [|apply in_app_iff; left]; rewrite Hcur; apply in_app_iff; right; left; reflexivity. }
    pose proof (r_range _ _ HR1 L' x HL' Hx1) as Hxr.
    rewrite (node_next_spec h1 s1 x HR1) by lia. rewrite (home_in h1 s1 L' x HR1 HL' Hx1), Hsucc, Hpre.
    destruct (IH h1 s1 (S i) HR1) as (h' & Ec & HR').
    { assert (Hne : seq_of s1 L <> []) by (unfold s1; rewrite seq_set_same; destruct (seq_of s L); discriminate).
      pose proof (ring_links h1 s1 L HR1 HL Hne) as Hl1. apply links_first in Hl1. congruence. }
    { destruct Hcur1 as [-> | ->]; [|rewrite app_length; cbn [length]]; lia. }
    rewrite Ec. exists h'. split; [reflexivity|].
    rewrite <- Hpre in HR'. rewrite Hfirst in HR'.
    assert (Em : map (sval s1) (firstn n post) = map (sval s) (firstn n post)).
    { unfold s1. rewrite sval_set. apply (map_sval_fresh h s _ _ HR). intros y Hy.
      assert (In y (seq_of s L')) by (rewrite Hcur; apply in_app_iff; right; right; eapply firstn_In_sub; eauto).
      pose proof (r_range _ _ HR L' y HL' H). lia. }
    rewrite Em in HR'. exact HR'.
Qed.

Lemma copy_front_refines L L' : L < 2 -> L' < 2 -> forall n h s i,
  R h s -> nxt h L <> None -> i + n <= length (seq_of s L') ->
  exists h', copy_front n h L (nth_error (rev (seq_of s L')) i) = Some h' /\
             R h' (scopy_front (map (sval s) (firstn n (skipn i (rev (seq_of s L'))))) s L).
Proof.
  intros HL HL'. induction n as [|n IH]; intros h s i HR Hinit Hlen.
  - cbn [copy_front firstn map scopy_front]. exists h. auto.
  - cbn [copy_front].
    destruct (nth_error (rev (seq_of s L')) i) as [x|] eqn:Ex; [|apply nth_error_None in Ex; rewrite rev_length in Ex; lia].
    destruct (nth_error_split _ _ Ex) as (pre & post & Hcur & Hpre).
    pose proof (ring_links_init h s L HR HL Hinit) as Hl.
    destruct (R_insert_value h s L [] (seq_of s L) (val h x) HR HL eq_refl Hl) as (h1 & Ei & HR1).
    cbn [last app] in Ei, HR1. rewrite Ei. set (s1 := set_seq (fst (salloc s (val h x))) L (fresh h :: seq_of s L)) in *.
    assert (Hskip : skipn i (rev (seq_of s L')) = x :: post).
    { rewrite Hcur. rewrite skipn_app. rewrite skipn_all2 by lia. replace (i - length pre) with 0 by lia. reflexivity. }
    rewrite Hskip. cbn [firstn map scopy_front]. rewrite salloc_eta. rewrite <- (r_val _ _ HR x).
    rewrite <- (r_fresh _ _ HR). change (seq_of (fst (salloc s (val h x))) L) with (seq_of s L). fold s1.
    assert (Hcur1 : rev (seq_of s1 L') = rev (seq_of s L') \/ rev (seq_of s1 L') = rev (seq_of s L') ++ [fresh h]).
    { unfold s1. destruct (Nat.eq_dec L' L) as [->|Hne].
      - right. rewrite seq_set_same. reflexivity.
      - left. rewrite seq_set_other by auto. reflexivity. }
    assert (Hlenp : length (seq_of s L') = i + S (length post)).
    { rewrite <- rev_length, Hcur, app_length. cbn [length]. lia. }
    destruct (cursor_step (rev (seq_of s L')) (rev (seq_of s1 L')) pre post x (fresh h) n Hcur Hcur1) as [Hsucc Hfirst];
      [apply NoDup_rev; apply (r_nodup _ _ HR1 L' HL')|lia|].
    assert (Hx1 : In x (seq_of s1 L')).
    { apply in_rev. destruct Hcur1 as [-> | ->]; [|apply in_app_iff; left]; rewrite Hcur; apply in_app_iff; right; left; reflexivity. }
    pose proof (r_range _ _ HR1 L' x HL' Hx1) as Hxr.
    rewrite (node_prev_spec h1 s1 x HR1) by lia. rewrite (home_in h1 s1 L' x HR1 HL' Hx1). unfold pred_of. rewrite Hsucc, Hpre.
    destruct (IH h1 s1 (S i) HR1) as (h' & Ec & HR').
    { assert (Hne : seq_of s1 L <> []) by (unfold s1; rewrite seq_set_same; discriminate).
      pose proof (ring_links h1 s1 L HR1 HL Hne) as Hl1. apply links_first in Hl1. congruence. }
    { rewrite <- (rev_length (seq_of s1 L')). destruct Hcur1 as [-> | ->]; [|rewrite app_length; cbn [length]]; rewrite rev_length; lia. }
    rewrite Ec. exists h'. split; [reflexivity|].
    rewrite <- Hpre in HR'. rewrite Hfirst in HR'.
    assert (Em : map (sval s1) (firstn n post) = map (sval s) (firstn n post)).
    { unfold s1. rewrite sval_set. apply (map_sval_fresh h s _ _ HR). intros y Hy.
      assert (In y (seq_of s L')) by (apply in_rev; rewrite Hcur; apply in_app_iff; right; right; eapply firstn_In_sub; eauto).
      pose proof (r_range _ _ HR L' y HL' H). lia. }
    rewrite Em in HR'. exact HR'.
Qed.

(* ---------------------------------------------------------------- one step, every operation *)
Ltac guards H :=
  repeat match type of H with
         | context [?a && ?b] => let E := fresh "G" in destruct a eqn:E; cbn [andb] in H
         end.

Theorem step_refines h s o s' r : R h s -> sstep s o = Some (s', r) -> exists h', step h o = Ok h' r /\ R h' s'.
Proof.
  intros HR Hs. destruct o; cbn [sstep] in Hs.
  - (* Init *)
    destruct (is_list L) eqn:GL; cbn [andb] in Hs; [|discriminate]. apply is_list_lt in GL as HL.
    destruct (seq_of s L) eqn:Hq; [|discriminate]. inversion Hs; subst. cbn [step]. rewrite GL.
    exists (init h L). split; [reflexivity|]. apply R_init; auto.
  - (* Len *)
    destruct (is_list L) eqn:GL; [|discriminate]. apply is_list_lt in GL as HL. inversion Hs; subst. cbn [step]. rewrite GL.
    exists h. rewrite (r_len _ _ HR L HL). auto.
  - (* Front *)
    destruct (is_list L) eqn:GL; [|discriminate]. apply is_list_lt in GL as HL. inversion Hs; subst. cbn [step]. rewrite GL.
    exists h. rewrite (front_spec h s' L HR HL). auto.
  - (* Back *)
    destruct (is_list L) eqn:GL; [|discriminate]. apply is_list_lt in GL as HL. inversion Hs; subst. cbn [step]. rewrite GL.
    exists h. rewrite (back_spec h s' L HR HL). auto.
  - (* Next *)
    destruct (snode s e) eqn:Ge; [|discriminate]. inversion Hs; subst. cbn [step]. rewrite (is_node_snode h s' e HR), Ge.
    pose proof (snode_range h s' e HR Ge). exists h. rewrite (node_next_spec h s' e HR) by lia. auto.
  - (* Prev *)
    destruct (snode s e) eqn:Ge; [|discriminate]. inversion Hs; subst. cbn [step]. rewrite (is_node_snode h s' e HR), Ge.
    pose proof (snode_range h s' e HR Ge). exists h. rewrite (node_prev_spec h s' e HR) by lia. auto.
  - (* Value *)
    destruct (snode s e) eqn:Ge; [|discriminate]. inversion Hs; subst. cbn [step]. rewrite (is_node_snode h s' e HR), Ge.
    exists h. rewrite (r_val _ _ HR). auto.
  - (* Remove *)
    destruct (is_list L) eqn:GL; cbn [andb] in Hs; [|discriminate]. apply is_list_lt in GL as HL.
    destruct (snode s e) eqn:Ge; [|discriminate]. inversion Hs; subst. apply step_remove; auto.
  - (* PushFront *)
    destruct (is_list L) eqn:GL; [|discriminate]. apply is_list_lt in GL as HL. unfold salloc in Hs. inversion Hs; subst.
    destruct (step_push_front h s L v HR HL) as (h' & E & HR'). exists h'. split; [exact E|exact HR'].
  - (* PushBack *)
    destruct (is_list L) eqn:GL; [|discriminate]. apply is_list_lt in GL as HL. unfold salloc in Hs. inversion Hs; subst.
    destruct (step_push_back h s L v HR HL) as (h' & E & HR'). exists h'. split; [exact E|exact HR'].
  - (* InsertBefore *)
    destruct (is_list L) eqn:GL; cbn [andb] in Hs; [|discriminate]. apply is_list_lt in GL as HL.
    destruct (snode s mark) eqn:Gm; [|discriminate].
    destruct (step_insert_before h s L v mark HR HL Gm) as (h' & E & HR').
    destruct (mem mark (seq_of s L)); [unfold salloc in Hs|]; inversion Hs; subst; exists h'; (split; [exact E|exact HR']).
  - (* InsertAfter *)
    destruct (is_list L) eqn:GL; cbn [andb] in Hs; [|discriminate]. apply is_list_lt in GL as HL.
    destruct (snode s mark) eqn:Gm; [|discriminate].
    destruct (step_insert_after h s L v mark HR HL Gm) as (h' & E & HR').
    destruct (mem mark (seq_of s L)); [unfold salloc in Hs|]; inversion Hs; subst; exists h'; (split; [exact E|exact HR']).
  - (* PushFrontNode *)
    destruct (is_list L) eqn:GL; cbn [andb] in Hs; [|discriminate]. apply is_list_lt in GL as HL.
    destruct (snode s e) eqn:Ge; cbn [andb] in Hs; [|discriminate]. destruct (detached s e) eqn:Gd; [|discriminate].
    inversion Hs; subst. apply step_push_front_node; auto.
  - (* PushBackNode *)
    destruct (is_list L) eqn:GL; cbn [andb] in Hs; [|discriminate]. apply is_list_lt in GL as HL.
    destruct (snode s e) eqn:Ge; cbn [andb] in Hs; [|discriminate]. destruct (detached s e) eqn:Gd; [|discriminate].
    inversion Hs; subst. apply step_push_back_node; auto.
  - (* InsertNodeBefore *)
    destruct (is_list L) eqn:GL; cbn [andb] in Hs; [|discriminate]. apply is_list_lt in GL as HL.
    destruct (snode s e) eqn:Ge; cbn [andb] in Hs; [|discriminate]. destruct (snode s mark) eqn:Gm; [|discriminate].
    destruct (mem mark (seq_of s L)) eqn:Em.
    + destruct (detached s e) eqn:Gd; [|discriminate]. inversion Hs; subst.
      destruct (step_insert_node_before h s L e mark HR HL Ge Gm (fun _ => Gd)) as (h' & E & HR'). rewrite Em in HR'. exists h'. auto.
    + inversion Hs; subst.
      destruct (step_insert_node_before h s' L e mark HR HL Ge Gm) as (h' & E & HR'); [congruence|]. rewrite Em in HR'. exists h'. auto.
  - (* InsertNodeAfter *)
    destruct (is_list L) eqn:GL; cbn [andb] in Hs; [|discriminate]. apply is_list_lt in GL as HL.
    destruct (snode s e) eqn:Ge; cbn [andb] in Hs; [|discriminate]. destruct (snode s mark) eqn:Gm; [|discriminate].
    destruct (mem mark (seq_of s L)) eqn:Em.
    + destruct (detached s e) eqn:Gd; [|discriminate]. inversion Hs; subst.
      destruct (step_insert_node_after h s L e mark HR HL Ge Gm (fun _ => Gd)) as (h' & E & HR'). rewrite Em in HR'. exists h'. auto.
    + inversion Hs; subst.
      destruct (step_insert_node_after h s' L e mark HR HL Ge Gm) as (h' & E & HR'); [congruence|]. rewrite Em in HR'. exists h'. auto.
  - (* MoveToFront *)
    destruct (is_list L) eqn:GL; cbn [andb] in Hs; [|discriminate]. apply is_list_lt in GL as HL.
    destruct (snode s e) eqn:Ge; [|discriminate].
    destruct (step_move_to_front h s L e HR HL Ge) as (h' & E & HR').
    destruct (mem e (seq_of s L)); inversion Hs; subst; exists h'; auto.
  - (* MoveToBack *)
    destruct (is_list L) eqn:GL; cbn [andb] in Hs; [|discriminate]. apply is_list_lt in GL as HL.
    destruct (snode s e) eqn:Ge; [|discriminate].
    destruct (step_move_to_back h s L e HR HL Ge) as (h' & E & HR').
    destruct (mem e (seq_of s L)); inversion Hs; subst; exists h'; auto.
  - (* MoveBefore *)
    destruct (is_list L) eqn:GL; cbn [andb] in Hs; [|discriminate]. apply is_list_lt in GL as HL.
    destruct (snode s e) eqn:Ge; cbn [andb] in Hs; [|discriminate]. destruct (snode s mark) eqn:Gm; [|discriminate].
    destruct (step_move_before h s L e mark HR HL Ge Gm) as (h' & E & HR').
    destruct (mem e (seq_of s L) && mem mark (seq_of s L) && negb (Nat.eqb e mark)); inversion Hs; subst; exists h'; auto.
  - (* MoveAfter *)
    destruct (is_list L) eqn:GL; cbn [andb] in Hs; [|discriminate]. apply is_list_lt in GL as HL.
    destruct (snode s e) eqn:Ge; cbn [andb] in Hs; [|discriminate]. destruct (snode s mark) eqn:Gm; [|discriminate].
    destruct (step_move_after h s L e mark HR HL Ge Gm) as (h' & E & HR').
    destruct (mem e (seq_of s L) && mem mark (seq_of s L) && negb (Nat.eqb e mark)); inversion Hs; subst; exists h'; auto.
  - (* PushBackDList *)
    destruct (is_list L) eqn:GL; cbn [andb] in Hs; [|discriminate]. apply is_list_lt in GL as HL.
    destruct (is_list L') eqn:GL'; [|discriminate]. apply is_list_lt in GL' as HL'. inversion Hs; subst.
    cbn [step]. rewrite GL, GL'. cbn [andb].
    destruct (R_lazy h s L HR HL) as (HR1 & Hl1 & _ & _ & _).
    rewrite (r_len _ _ HR1 L' HL'), Nat2Z.id, (front_spec _ s L' HR1 HL').
    destruct (copy_back_refines L L' HL HL' (length (seq_of s L')) (lazy_init h L) s 0 HR1) as (h' & Ec & HR').
    { apply links_first in Hl1. congruence. } { lia. }
    replace (nth_error (seq_of s L') 0) with (first_opt (seq_of s L')) in Ec by (destruct (seq_of s L'); reflexivity).
    rewrite Ec. cbn [skipn] in HR'. rewrite firstn_all in HR'. exists h'. auto.
  - (* PushFrontDList *)
    destruct (is_list L) eqn:GL; cbn [andb] in Hs; [|discriminate]. apply is_list_lt in GL as HL.
    destruct (is_list L') eqn:GL'; [|discriminate]. apply is_list_lt in GL' as HL'. inversion Hs; subst.
    cbn [step]. rewrite GL, GL'. cbn [andb].
    destruct (R_lazy h s L HR HL) as (HR1 & Hl1 & _ & _ & _).
    rewrite (r_len _ _ HR1 L' HL'), Nat2Z.id, (back_spec _ s L' HR1 HL').
    destruct (copy_front_refines L L' HL HL' (length (seq_of s L')) (lazy_init h L) s 0 HR1) as (h' & Ec & HR').
    { apply links_first in Hl1. congruence. } { lia. }
    replace (nth_error (rev (seq_of s L')) 0) with (last_opt (seq_of s L')) in Ec by (unfold last_opt; destruct (rev (seq_of s L')); reflexivity).
    rewrite Ec. cbn [skipn] in HR'. rewrite <- (rev_length (seq_of s L')) in HR'. rewrite firstn_all in HR'. exists h'. auto.
  - (* Fwd *)
    destruct (is_list L) eqn:GL; [|discriminate]. apply is_list_lt in GL as HL. inversion Hs; subst. cbn [step]. rewrite GL.
    rewrite (front_spec h s' L HR HL).
    rewrite (walk_next_spec h s' L HR HL (seq_of s' L) [] (S (fresh h)) [] eq_refl); [|pose proof (seq_length_bound h s' L HR HL); lia].
    exists h. auto.
  - (* Bwd *)
    destruct (is_list L) eqn:GL; [|discriminate]. apply is_list_lt in GL as HL. inversion Hs; subst. cbn [step]. rewrite GL.
    rewrite (back_spec h s' L HR HL).
    change (last_opt (seq_of s' L)) with (first_opt (rev (seq_of s' L))).
    rewrite (walk_prev_spec h s' L HR HL (rev (seq_of s' L)) [] (S (fresh h)) [] eq_refl);
      [|rewrite rev_length; pose proof (seq_length_bound h s' L HR HL); lia].
    exists h. auto.
  - (* All *)
    destruct (is_list L) eqn:GL; [|discriminate]. apply is_list_lt in GL as HL. inversion Hs; subst. cbn [step]. rewrite GL.
    rewrite (front_spec h s' L HR HL).
    rewrite (walk_all_spec h s' L HR HL (seq_of s' L) [] (S (fresh h)) k [] eq_refl); [|pose proof (seq_length_bound h s' L HR HL); lia].
    exists h. auto.
  - (* NewNode *)
    unfold salloc in Hs. inversion Hs; subst. cbn [step].
    destruct (R_alloc h s v HR) as (Ea & _ & HR0 & _). destruct (alloc h v) as [h0 e]. cbn [fst snd] in *. subst e.
    rewrite (r_fresh _ _ HR). exists h0. split; [reflexivity|exact HR0].
Qed.
