(* C01: every sequential state the harness starts from (any number of completed push/pop pairs [base], counters
   beyond 2^32 included, then [fill] stored values) satisfies the invariant: the theorems' premise is satisfiable
   exactly where the correspondence run starts. *)
From Coq Require Import List ZArith Lia Bool Arith.
Import ListNotations.
From V Require Import Model.SyncRingConc Proofs.SyncRingConc.
Local Open Scope Z_scope.

Lemma replay_pushes c : forall vs q0, Z.of_nat (length q0) + Z.of_nat (length vs) <= c ->
  replay c (map LPush vs) q0 = Some (q0 ++ vs).
Proof.
  induction vs as [|v vs IH]; intros q0 H; cbn [map replay].
  - rewrite app_nil_r. reflexivity.
  - cbn [length] in H. destruct (Z.ltb_spec (Z.of_nat (length q0)) c); [|lia].
    rewrite IH by (rewrite app_length; cbn [length]; lia). rewrite <- app_assoc. reflexivity.
Qed.

Lemma nth_map_seq {A} (f : Z -> A) n i d : (i < n)%nat -> nth i (map f (map Z.of_nat (seq 0 n))) d = f (Z.of_nat i).
Proof.
  intros H. rewrite map_map. rewrite (nth_indep _ d (f (Z.of_nat 0%nat))) by (rewrite map_length, seq_length; auto).
  rewrite (map_nth (fun x => f (Z.of_nat x)) (seq 0 n) 0%nat i). rewrite seq_nth by auto. reflexivity.
Qed.

Theorem seq_state_inv k base fill n :
  1 <= k <= 31 -> 0 <= base -> 0 <= fill <= 2 ^ k -> Inv k (seq_state k base fill n).
Proof.
  intros Hk Hb Hf. destruct (cap_bounds k Hk) as [[H2 H31] _].
  unfold seq_state. cbv zeta.
  remember (2 ^ k) as c eqn:Hc.
  assert (Hidx : forall (A : Type) (g : Z -> A) i, (i < Z.to_nat c)%nat ->
            nth_error (map g (map Z.of_nat (seq 0 (Z.to_nat c)))) i = Some (g (Z.of_nat i))).
  { intros A g i Hi. rewrite map_map. rewrite nth_error_map_seq by auto. reflexivity. }
  constructor; cbn [sh ths hist].
  - constructor; cbn [slots ph hd tl cap q lin]; auto; try lia.
    + rewrite !map_length, seq_length. lia.
    + rewrite !map_length. reflexivity.
    + rewrite !map_length, seq_length. lia.
    + rewrite !map_length, seq_length. lia.
    + intros i x f Hx Hfph.
      assert (Hi : (i < Z.to_nat c)%nat).
      { assert (Hn : nth_error (map (fun i0 : Z => snd (if base + (i0 - base) mod c <? base + fill
                       then (Some (fill_val (base + (i0 - base) mod c - base)), u32 (base + (i0 - base) mod c + 1), Published (base + (i0 - base) mod c))
                       else (None, u32 (base + (i0 - base) mod c), Free (base + (i0 - base) mod c))))
                     (map Z.of_nat (seq 0 (Z.to_nat c)))) i <> None) by congruence.
        apply nth_error_Some in Hn. rewrite !map_length, seq_length in Hn. exact Hn. }
      rewrite Hidx in Hx by auto. rewrite Hidx in Hfph by auto. inversion Hx; inversion Hfph; subst x f. clear Hx Hfph.
      set (p := base + (Z.of_nat i - base) mod c).
      assert (Hp : base <= p < base + c) by (unfold p; pose proof (Z.mod_pos_bound (Z.of_nat i - base) c ltac:(lia)); lia).
      assert (Hpm : p mod c = Z.of_nat i).
      { unfold p. rewrite Zplus_mod_idemp_r. replace (base + (Z.of_nat i - base)) with (Z.of_nat i) by lia.
        apply Z.mod_small. lia. }
      destruct (Z.ltb_spec p (base + fill)) as [Hlt|Hge]; cbn [fst snd]; unfold slot_ok, sidx; cbn [ticket seq_of fst snd cap hd tl q].
      * repeat split; try lia.
        all: try (rewrite Hpm; lia).
        all: try (rewrite nth_map_seq by lia; f_equal; f_equal; lia).
      * repeat split; try lia.
        all: try (rewrite Hpm; lia).
    + rewrite (replay_pushes c _ []); [reflexivity|]. cbn [length]. rewrite !map_length, seq_length. lia.
  - intros a b p1 p2 f _ Ha _ Ho. apply nth_error_In, repeat_spec in Ha. subst. discriminate.
  - apply Forall_forall. intros p Hp. apply repeat_spec in Hp. subst. exact I.
  - constructor.
  - intros a f Hfph Hof. exfalso. cbn [ph] in Hfph.
    assert (Ha : (a < Z.to_nat c)%nat).
    { assert (Hn : nth_error (map (fun i0 : Z => snd (if base + (i0 - base) mod c <? base + fill
                       then (Some (fill_val (base + (i0 - base) mod c - base)), u32 (base + (i0 - base) mod c + 1), Published (base + (i0 - base) mod c))
                       else (None, u32 (base + (i0 - base) mod c), Free (base + (i0 - base) mod c))))
                     (map Z.of_nat (seq 0 (Z.to_nat c)))) a <> None) by congruence.
      apply nth_error_Some in Hn. rewrite !map_length, seq_length in Hn. exact Hn. }
    rewrite Hidx in Hfph by auto. inversion Hfph; subst f.
    destruct (base + (Z.of_nat a - base) mod c <? base + fill); cbn [snd is_owned] in Hof; discriminate.
Qed.

(* non-vacuity across the wrap: a state whose counters are beyond 2^32 *)
Example seq_state_wrap_ok : Inv 1 (seq_state 1 (2 ^ 32 + 5) 1 3).
Proof. apply seq_state_inv; cbn; lia. Qed.
