(* C06 — the judge of the differential run accepts the model: on every canonical case (insert the patterns, build, then
   Replace / ReplaceWithMask on a text) the two outputs of the executable model satisfy exactly what Model/TrieCase.c06_ok
   checks on the implementation's outputs:
     Replace          parses as u0 repl^k1 u1 ... repl^kn un over the maximal covered regions of the specification's
                      occurrence list, 1 <= ki <= #occurrences inside region i  (spec_replace_ok = true);
     ReplaceWithMask  equals spec_mask (rune by rune: the mask where the rune lies inside an occurrence).
   Pieces: Proofs/TrieReplaceJudge.v (the parse over any good intervals), TrieReplaceTop.v / TrieMaskTop.v (what the model
   returns), TrieValid.v (the reading the judge selects is the aligned one), TrieJudge.v (encoders round-trip). *)
From Coq Require Import List ZArith Lia Bool Arith.
From V Require Import Lib.Utf8 Proofs.Utf8Facts Lib.Enc Model.Trie Model.TrieCase Proofs.TrieRunes Proofs.TrieOcc Proofs.TrieTop Proofs.TrieValid
  Proofs.TrieMerge Proofs.TrieReplace Proofs.TrieReplaceTop Proofs.TrieMask Proofs.TrieMaskTop Proofs.TrieJudge Proofs.TrieReplaceJudge.
Import ListNotations.

Module M := V.Model.Trie.
Local Notation zz := TrieMask.zz.

(* ---- ReplaceWithMask: the rune-by-rune specification over `tokens` is mask_spec over the chunks ---- *)
Lemma off_0 cs : off cs 0 = 0.
Proof. reflexivity. Qed.
Lemma off_cons c cs k : off (c :: cs) (S k) = length c + off cs k.
Proof. unfold off. cbn [firstn concat]. apply app_length. Qed.

Lemma mask_runes_spec oc mk m' : forall s i j,
  (forall j', j' < length (uchunks s) ->
     existsb (fun se => (fst se <=? i + off (uchunks s) j') && (i + off (uchunks s) (S j') <=? snd se)) oc = ncov m' (j + j')) ->
  mask_runes oc mk i s (tokens s) = concat (mask_spec mk m' j (uchunks s)).
Proof.
  intros s. induction s as [|s Hs IH] using tokens_ind; intros i j H; [reflexivity|].
  assert (Ew : snd (decode_rune s) = width s) by (rewrite decode_rune_snd; reflexivity).
  rewrite Ew in IH. rewrite (tokens_cons s Hs), Ew. rewrite (uchunks_cons s Hs) in *.
  destruct (decode_rune s) as [r w]. cbn [snd] in Ew. subst w.
  pose proof (width_pos s Hs) as Hw.
  assert (Lc : length (firstn (width s) s) = width s) by (rewrite firstn_length; lia).
  cbn [mask_runes mask_spec concat]. f_equal.
  - specialize (H 0 ltac:(cbn [length]; lia)). rewrite off_cons, !off_0, Lc, !Nat.add_0_r in H. rewrite H. reflexivity.
  - apply IH. intros j' Hj'. specialize (H (S j') ltac:(cbn [length]; lia)). rewrite !off_cons, Lc, !Nat.add_assoc in H.
    rewrite H. f_equal. lia.
Qed.

Theorem mask_judged ps text mask T : Forall is_bytes ps -> is_bytes text -> built ps T ->
  M.replace_with_mask T text mask = Ok (spec_mask true ps text mask).
Proof.
  intros Hps Hb E. destruct (mask_correct ps text mask T Hps Hb E) as (m' & Em & _ & Hcov). rewrite Em. f_equal.
  unfold spec_mask. symmetry. apply mask_runes_spec. intros j' Hj'. cbn [Nat.add]. apply eq_true_iff_eq.
  rewrite (Hcov j' Hj'), existsb_exists. split.
  - intros ([s e] & Hin & Hc). cbn [fst snd] in Hc. apply andb_prop in Hc. destruct Hc as [H1 H2]. apply Nat.leb_le in H1. apply Nat.leb_le in H2.
    exists (Z.of_nat s), (Z.of_nat e). split; [|lia]. apply occurrence_occs. rewrite !Nat2Z.id. split; [lia|]. split; [lia|exact Hin].
  - intros (s & e & Ho & H1 & H2). apply occurrence_occs in Ho. destruct Ho as (Hs & He & Hin).
    exists (Z.to_nat s, Z.to_nat e). split; [exact Hin|]. cbn [fst snd]. apply andb_true_intro. split; apply Nat.leb_le; lia.
Qed.

(* ---- Replace: the parse of the splice over the maximal covered regions ---- *)
Theorem replace_judged ps text repl T : Forall is_bytes ps -> is_bytes text -> built ps T ->
  exists o, M.replace T text repl = Ok o /\ spec_replace_ok true ps text repl o = true.
Proof.
  intros Hps Hb E.
  destruct (replace_correct ps text repl T Hps Hb E) as (sc & m & _ & Hocc & _ & Er & Hg & Hcov & _ & Hi2).
  exists (splicez text repl 0 m). split; [exact Er|].
  set (oc := occs true ps text).
  assert (Hset : forall x, In x sc <-> In x (map zz oc)).
  { intros [s e]. rewrite Hocc, occurrence_occs, in_map_iff. split.
    - intros (Hs & He & Hin). exists (Z.to_nat s, Z.to_nat e). split; [unfold TrieMask.zz; cbn [fst snd]; f_equal; lia|exact Hin].
    - intros ([a b] & Ez & Hin). unfold TrieMask.zz in Ez. cbn [fst snd] in Ez. inversion Ez; subst. rewrite !Nat2Z.id.
      split; [lia|]. split; [lia|exact Hin]. }
  pose proof (judge_replace_splice text repl oc m Hg) as H.
  unfold spec_replace_ok. fold oc. destruct (segments text oc 0 (regions oc (length text))) as [sg tl]. cbn [fst snd] in H. apply H.
  - intros i. rewrite Hcov. unfold covered. split; intros (x & Hx & Hr); exists x; (split; [apply Hset; exact Hx|exact Hr]).
  - unfold wf. rewrite Forall_forall. intros x Hx. apply in_map_iff in Hx. destruct Hx as ([s e] & <- & Hin).
    unfold oc in Hin. apply occs_spec in Hin. unfold TrieMask.zz. cbn [fst snd]. lia.
  - intros x Hx. destruct (Hi2 x Hx) as (o & Ho & Hio). exists o. split; [apply Hset; exact Ho|exact Hio].
Qed.

(* ---- both, in the reading the judge selects ---- *)
Theorem model_accepted ps text repl mask T : Forall is_bytes ps -> is_bytes text -> built ps T ->
  (exists o, M.replace T text repl = Ok o /\ spec_replace_ok (mode_of ps) ps text repl o = true) /\
  M.replace_with_mask T text mask = Ok (spec_mask (mode_of ps) ps text mask).
Proof.
  intros Hps Hb E.
  assert (Hocc : occs (mode_of ps) ps text = occs true ps text).
  { destruct (mode_of ps) eqn:Em; [reflexivity|]. pose proof (proj1 (judge_plain_is_aligned ps text Hps Hb) Em) as H. rewrite Em in H. exact H. }
  unfold spec_replace_ok, spec_mask. rewrite Hocc. split.
  - apply replace_judged; assumption.
  - apply mask_judged; assumption.
Qed.

(* ---- the same statement on the integer encoding Run/C06.v executes: sub 2 answers 1 on the model's own output ---- *)
Local Open Scope Z_scope.

Lemma get_bytes_put (x rest : list Z) : get_bytes (put_list x ++ rest) = (Some x, rest).
Proof.
  unfold get_bytes, put_list. cbn [app]. destruct (Z.ltb_spec (Z.of_nat (length x)) 0); [lia|]. rewrite Nat2Z.id. f_equal.
  - f_equal. rewrite firstn_app, Nat.sub_diag, firstn_all. cbn [firstn]. apply app_nil_r.
  - rewrite skipn_app, skipn_all, Nat.sub_diag. reflexivity.
Qed.

Theorem judge_accepts_model ps text repl mask : Forall is_bytes ps -> is_bytes text ->
  let ops := map OInsert ps ++ [OBuild] in
  c06_ok ops text repl mask (c06_model ops text repl mask) = true.
Proof.
  intros Hps Hb ops. destruct (built_exists ps) as (T & E).
  destruct (model_accepted ps text repl mask T Hps Hb E) as ((o & Er & Ho) & Em).
  unfold c06_model, c06_ok, ops. rewrite run_ops_inserts, canonical_inserts, inserted_inserts. cbn [negb].
  unfold built, inserts in E. rewrite E, Er, Em.
  cbn [enc_bytes_res cat_opts out_of]. rewrite get_bytes_put. cbv beta iota. rewrite get_bytes_put. cbv beta iota.
  rewrite Ho, beqb_refl. reflexivity.
Qed.

(* ---- ... and through Run.C06.entry: for every integer list that decodes as such a case, the judge (sub 2) answers 1 on
        the case followed by the model's output (sub 0) ---- *)
From V Require Run.C06.

Lemma get_list_put0 (x : list Z) : get_list (put_list x) = (x, []).
Proof. rewrite <- (app_nil_r (put_list x)). apply get_list_put. Qed.

Theorem entry_accepts_model case ps text repl mask :
  Run.C06.dec_case case = Some (map OInsert ps ++ [OBuild], text, repl, mask) -> Forall is_bytes ps -> is_bytes text ->
  Run.C06.entry 2 (put_list case ++ put_list (Run.C06.entry 0 case)) = [1].
Proof.
  intros Hd Hps Hb. unfold Run.C06.entry. rewrite Z.eqb_refl.
  change (0 =? 2) with false. change (0 =? 0) with true. cbv beta iota.
  rewrite get_list_put. cbv beta iota. rewrite get_list_put0. cbv beta iota. rewrite Hd.
  rewrite (judge_accepts_model ps text repl mask Hps Hb). reflexivity.
Qed.

(* the premises are satisfiable: the F5 witness (patterns a, c, abcde; text abcde; repl "*"; mask '*') *)
Example entry_accepts_witness :
  let case := [4; 0;1;97; 0;1;99; 0;5;97;98;99;100;101; 1;0; 5;97;98;99;100;101; 1;42; 42] in
  Run.C06.dec_case case = Some (map OInsert [[97]; [99]; [97;98;99;100;101]] ++ [OBuild], [97;98;99;100;101], [42], 42) /\
  Run.C06.entry 2 (put_list case ++ put_list (Run.C06.entry 0 case)) = [1].
Proof. vm_compute. split; reflexivity. Qed.
