(* C14: the token level.  For every list of integers that Run/C14.v decodes as a case, the judge entry (sub 2) applied
   to the case and to what the model entry (sub 0) prints answers [1]: encoders and decoders of Run/C14.v round-trip,
   and the structured theorems (judge_model, flex_judge_model) carry over to exactly what the harness executes. *)
From Coq Require Import List ZArith Bool Arith Lia.
From V Require Import Lib.Enc Model.Slices Model.Flex Run.C14 Proofs.SlicesBase Proofs.SlicesCase Proofs.Flex.
Import ListNotations.
Local Open Scope Z_scope.

Lemma get_put (a b : list Z) : get_list (put_list a ++ b) = (a, b).
Proof.
  unfold put_list, get_list. cbn [app]. rewrite Nat2Z.id. f_equal.
  - rewrite firstn_app, Nat.sub_diag, firstn_all. cbn [firstn]. apply app_nil_r.
  - rewrite skipn_app, Nat.sub_diag, skipn_all. reflexivity.
Qed.
Lemma get_put0 (a : list Z) : get_list (put_list a) = (a, []).
Proof. rewrite <- (app_nil_r (put_list a)). apply get_put. Qed.
Lemma get_lists_put : forall ls b, get_lists (length ls) (put_lists ls ++ b) = (ls, b).
Proof.
  induction ls as [|l ls IH]; intros b; cbn [length get_lists put_lists app]; [reflexivity|].
  rewrite <- app_assoc. rewrite get_put. rewrite IH. reflexivity.
Qed.
Lemma list_eqb_refl l : list_eqb l l = true.
Proof. induction l as [|x l IH]; cbn [list_eqb]; auto. rewrite Z.eqb_refl. exact IH. Qed.
Lemma list_eqb_eq a b : list_eqb a b = true -> a = b.
Proof.
  revert b; induction a as [|x a IH]; intros [|y b] H; cbn [list_eqb] in H; try discriminate; auto.
  apply andb_true_iff in H. destruct H as [H1 H2]. apply Z.eqb_eq in H1. f_equal; auto.
Qed.
Lemma bz_zb b : bz (Slices.zb b) = b.
Proof. destruct b; reflexivity. Qed.

Lemma dec_rss_enc : forall rs b, dec_rss (length rs) (flat_map enc_rs rs ++ b) = (rs, b).
Proof.
  induction rs as [|r rs IH]; intros b; cbn [length dec_rss flat_map app]; [reflexivity|].
  unfold enc_rs at 1. cbn [app]. rewrite <- !app_assoc. rewrite get_put. cbn [app]. rewrite IH.
  rewrite bz_zb. destruct r; reflexivity.
Qed.

Lemma dec_out_enc k o : o_panic o = false -> length (o_arrs o) = k -> dec_out k (enc_out o) = o.
Proof.
  intros P L. destruct o as [p rs sc arrs]. cbn [o_panic o_arrs] in *. subst p k.
  unfold enc_out at 1. cbn [o_panic o_res o_scal o_arrs]. unfold dec_out. rewrite Nat2Z.id.
  rewrite dec_rss_enc. rewrite get_put. rewrite <- (app_nil_r (put_lists arrs)). rewrite get_lists_put.
  rewrite app_nil_r.
  change (Z.of_nat (length rs) :: flat_map enc_rs rs ++ put_list sc ++ put_lists arrs)
    with (enc_out (mkOut false rs sc arrs)).
  rewrite list_eqb_refl, Nat.eqb_refl. reflexivity.
Qed.

Lemma wf_not_flex c : wf_case c = true -> (c_f c =? F_FLEX) = false.
Proof.
  unfold wf_case. destruct (c_mem c) as [|[|? ?] ?]; try discriminate. intros H. apply andb_true_iff in H. destruct H as [_ H].
  unfold args_ok in H. apply Z.eqb_neq.
  unfold F_FLEX, F_UNIQKEY, F_UNIQKEY_IP, F_FILTER, F_FILTER_IP, F_INDEXFN, F_CONTAINSFN, F_VALUES in *.
  destruct (Z.eqb_spec (c_f c) 7); [lia|]. destruct (Z.eqb_spec (c_f c) 8); [lia|]. cbn [orb] in H.
  destruct (Z.eqb_spec (c_f c) 9); [lia|]. destruct (Z.eqb_spec (c_f c) 10); [lia|].
  destruct (Z.eqb_spec (c_f c) 13); [lia|]. destruct (Z.eqb_spec (c_f c) 16); [lia|]. cbn [orb] in H.
  destruct (Z.eqb_spec (c_f c) 20); [lia|]. apply andb_true_iff in H. destruct H as [H1 H2]. apply Z.leb_le in H1, H2. lia.
Qed.

Lemma dec_case_some args c : dec_case args = Some c -> enc_case c = args /\ wf_case c = true.
Proof.
  unfold dec_case. destruct args as [|f [|k0 r]]; try discriminate.
  destruct (get_lists (Z.to_nat k0) r) as [arrs r1]. destruct r1 as [|nsl r2]; [discriminate|].
  destruct (dec_slices (Z.to_nat nsl) r2) as [ss r3].
  destruct (list_eqb _ _ && wf_case _) eqn:E; [|discriminate]. intros H. injection H as <-.
  apply andb_true_iff in E. destruct E as [E1 E2]. split; [apply list_eqb_eq; exact E1|exact E2].
Qed.

(* slices.go cases *)
Lemma entry0_cons f r c : (f =? F_FLEX) = false -> dec_case (f :: r) = Some c -> entry 0 (f :: r) = enc_out (run_case c).
Proof. intros NF D. unfold entry. cbn [Z.eqb]. rewrite NF, D. reflexivity. Qed.
Lemma entry2_cons f r impl c : (f =? F_FLEX) = false -> dec_case (f :: r) = Some c ->
  entry 2 (put_list (f :: r) ++ put_list impl) = [Slices.zb (judge c (dec_out (Nat.pred (length (c_mem c))) impl))].
Proof. intros NF D. unfold entry. cbn [Z.eqb Pos.eqb]. rewrite get_put, get_put0. rewrite NF, D. reflexivity. Qed.

Theorem entry_slices args c : dec_case args = Some c ->
  entry 0 args = enc_out (run_case c) /\ entry 2 (put_list args ++ put_list (entry 0 args)) = [1].
Proof.
  intros D. destruct (dec_case_some args c D) as (En & W). pose proof (wf_not_flex c W) as NF.
  assert (Hd : exists r, args = c_f c :: r) by (rewrite <- En; unfold enc_case; eexists; reflexivity).
  destruct Hd as (r & ->).
  rewrite (entry0_cons _ _ c NF D). split; [reflexivity|]. rewrite (entry2_cons _ _ _ c NF D).
  destruct (unclaimed_sel c) eqn:U.
  - unfold judge. rewrite U. reflexivity.
  - destruct (run_case_shape c W U) as (P & L). rewrite (dec_out_enc _ _ P L). rewrite (judge_model c W). reflexivity.
Qed.

(* FlexSlice cases *)
Lemma dec_obs_enc : forall g, dec_obs (length g) (flat_map enc_obs g) = Some g.
Proof.
  induction g as [|o g IH]; cbn [length dec_obs flat_map]; [reflexivity|].
  unfold enc_obs at 1. rewrite <- !app_assoc. rewrite get_put, get_put. cbn [app]. rewrite IH. destruct o; reflexivity.
Qed.
Lemma s_run_length : forall ops l, length (s_run l ops) = length ops.
Proof. induction ops as [|o ops IH]; intros l; cbn [s_run length]; [reflexivity|]. destruct (s_step l o). cbn [length]. rewrite IH. reflexivity. Qed.

Lemma dec_flex_wf r f0 ops : dec_flex r = Some (f0, ops) -> fwf f0.
Proof.
  unfold dec_flex. destruct r as [|cnt r0]; [discriminate|].
  destruct ((cnt <? 0) || (Z.of_nat (length (cnt :: r0)) - 1 <? cnt)); [discriminate|].
  destruct (get_list (cnt :: r0)) as [buf r1]. destruct r1 as [|n [|nops r']]; try discriminate.
  destruct (Z.leb_spec 0 n); cbn [andb]; [|discriminate]. destruct (Z.leb_spec n (Z.of_nat (length buf))); cbn [andb]; [|discriminate].
  destruct (0 <=? nops); [|discriminate]. destruct (dec_fops (Z.to_nat nops) r'); [|discriminate].
  intros Hx. injection Hx as <- <-. unfold fwf. cbn [fb fl]. lia.
Qed.

Theorem entry_flex r f0 ops : dec_flex r = Some (f0, ops) ->
  entry 0 (F_FLEX :: r) = enc_fout (f_run f0 ops) /\
  entry 2 (put_list (F_FLEX :: r) ++ put_list (entry 0 (F_FLEX :: r))) = [1].
Proof.
  intros D. pose proof (dec_flex_wf r f0 ops D) as W.
  assert (E0 : entry 0 (F_FLEX :: r) = enc_fout (f_run f0 ops)).
  { unfold entry. cbn [Z.eqb]. rewrite Z.eqb_refl. rewrite D. reflexivity. }
  split; [exact E0|]. rewrite E0. unfold entry. cbn [Z.eqb Pos.eqb]. rewrite get_put, get_put0. rewrite Z.eqb_refl. rewrite D. f_equal.
  destruct (flex_refines_seq ops f0 W) as (g & E & M & _).
  assert (Lg : length g = length ops) by (rewrite <- (s_run_length ops (fvals f0)), <- M, map_length; reflexivity).
  pose proof (flex_judge_model ops f0 W) as J. rewrite E in *.
  unfold dec_fout. cbn [enc_fout]. rewrite <- Lg. rewrite dec_obs_enc. rewrite list_eqb_refl. rewrite J. reflexivity.
Qed.
