(* C12: the REGENERATED method bodies (Gen/SafeKVCode.v, dumped from mapz/safekv.go on every run) do what the hand-written
   specification [sem] says, for every argument and every map.  The scripts do not mention the shape of a body beyond
   "straight-line code with lookups" (and one loop over the variadic parameter for Delete). *)
From Coq Require Import List Arith ZArith Bool.
From V Require Import Lib.Enc Lib.MapLang Gen.SafeKVCode Model.SafeKV Model.SafeKVCode Proofs.SafeKVExec.
Import ListNotations.

Ltac code_run :=
  intros; unfold run_method, sem, has;
  cbn [exec eval m_body s_ret s_map s_env s_sl env_set env_set_opt sl_set Nat.eqb nth map zb fold_left
       code_Get code_Has code_Contains code_Set code_SetNx code_SetX code_Delete code_Len code_Clear code_Keys code_Values];
  repeat match goal with
         | |- context [get ?m ?k] => destruct (get m k) eqn:?
         end;
  cbn [exec eval m_body s_ret s_map s_env s_sl env_set env_set_opt sl_set Nat.eqb nth map zb fold_left Z.eqb];
  try reflexivity.

Lemma code_Get_ok k m : run_method code_Get [k] [] m = sem (CGet k) m.
Proof. code_run. Qed.
Lemma code_Has_ok k m : run_method code_Has [k] [] m = sem (CHas k) m.
Proof. code_run. Qed.
Lemma code_Contains_ok k m : run_method code_Contains [k] [] m = sem (CContains k) m.
Proof. code_run. Qed.
Lemma code_Set_ok k v m : run_method code_Set [k; v] [] m = sem (CSet k v) m.
Proof. code_run. Qed.
Lemma code_SetNx_ok k v m : run_method code_SetNx [k; v] [] m = sem (CSetNx k v) m.
Proof. code_run. Qed.
Lemma code_SetX_ok k v m : run_method code_SetX [k; v] [] m = sem (CSetX k v) m.
Proof. code_run. Qed.
Lemma code_Len_ok m : run_method code_Len [] [] m = sem CLen m.
Proof. code_run. Qed.
Lemma code_Clear_ok m : run_method code_Clear [] [] m = sem CClear m.
Proof. code_run. Qed.

(* Delete: the loop over the variadic parameter deletes key after key, whatever the locals hold (also when the body first
   asks whether the key is there) *)
Lemma del_absent m k : get m k = None -> del m k = m.
Proof.
  induction m as [|[a b] t IH]; cbn; intros H. reflexivity.
  destruct (a =? k)%Z. discriminate. rewrite IH by assumption. reflexivity.
Qed.
Lemma delete_loop ks : forall m e l,
  let st := exec [] ks (m_body code_Delete) {| s_map := m; s_env := e; s_sl := l; s_ret := None |} in
  s_map st = fold_left del ks m /\ s_ret st = None.
Proof.
  cbn [exec m_body code_Delete s_ret s_map s_env s_sl].
  induction ks as [|k ks IH]; intros m e l.
  - cbn. split; reflexivity.
  - cbn [fold_left exec eval s_ret s_map s_env s_sl env_set env_set_opt Nat.eqb].
    repeat match goal with
           | |- context [get ?m ?k] => destruct (get m k) eqn:?
           end;
    cbn [fold_left exec eval s_ret s_map s_env s_sl env_set env_set_opt Nat.eqb Z.eqb];
    rewrite ?del_absent by assumption; apply IH.
Qed.
Lemma code_Delete_ok ks m : run_method code_Delete [] ks m = sem (CDelete ks) m.
Proof.
  unfold run_method, sem. destruct (delete_loop ks m (fun _ => 0%Z) (fun _ => [])) as [Hm Hr]. cbv zeta in Hm, Hr.
  rewrite Hm, Hr. reflexivity.
Qed.

(* Keys, Values: a loop over the map whose body appends one component of the pair to slice x and leaves the map alone
   collects that component of every pair, in the model's order *)
Lemma range_acc (F : cstate -> Z * Z -> cstate) (x : nat) (f : Z * Z -> Z) :
  (forall st kv, s_ret st = None ->
     s_map (F st kv) = s_map st /\ s_ret (F st kv) = None /\ s_sl (F st kv) x = s_sl st x ++ [f kv]) ->
  forall l st, s_ret st = None ->
     s_map (fold_left F l st) = s_map st /\ s_ret (fold_left F l st) = None /\ s_sl (fold_left F l st) x = s_sl st x ++ map f l.
Proof.
  intros H. induction l as [|kv l IH]; intros st Hr; cbn [fold_left map].
  - rewrite app_nil_r. auto.
  - destruct (H st kv Hr) as (Hm & Hr' & Hs). destruct (IH (F st kv) Hr') as (Hm2 & Hr2 & Hs2).
    rewrite Hm2, Hr2, Hs2, Hm, Hs, <- app_assoc. auto.
Qed.
Fixpoint ret_slice (s : stmt) : nat :=
  match s with SSeq a b => ret_slice a + ret_slice b | SReturnSlice x => x | _ => 0 end.
Ltac range_run md f :=
  intros; unfold run_method; cbn [m_body md];
  let x := eval cbv in (ret_slice (m_body md)) in
  cbn [exec eval m_body s_ret s_map s_env s_sl env_set env_set_opt sl_set Nat.eqb fold_left];
  match goal with
  | |- context [fold_left ?F ?m ?st] =>
      let P := fresh "P" in
      assert (P : s_map (fold_left F m st) = s_map st /\ s_ret (fold_left F m st) = None /\
                  s_sl (fold_left F m st) x = s_sl st x ++ map f m)
        by (apply (range_acc F x f);
            [ intros [mm ee ll rr] [k v] Hr; cbn [s_ret] in Hr; subst rr;
              cbn [exec eval m_body s_ret s_map s_env s_sl env_set env_set_opt sl_set Nat.eqb fst snd]; auto
            | reflexivity ]);
      destruct (fold_left F m st) as [mm ee ll rr]; cbn [s_map s_ret s_sl sl_set Nat.eqb] in P;
      destruct P as (-> & -> & P);
  cbn [exec eval m_body s_ret s_map s_env s_sl env_set env_set_opt sl_set Nat.eqb]; rewrite ?P; cbn [app]
  end.

Lemma code_Keys_ok m : run_method code_Keys [] [] m = sem CKeys m.
Proof. range_run code_Keys (@fst Z Z). reflexivity. Qed.
Lemma code_Values_ok m : let '(m', r) := run_method code_Values [] [] m in (m', sort_out r) = sem CValues m.
Proof. range_run code_Values (@snd Z Z). cbn [sem sort_out]. unfold put_list. rewrite zsort_length. reflexivity. Qed.

Theorem code_is_sem c m r : code_effect c m = Some r -> r = sem c m.
Proof.
  unfold code_effect. destruct c; cbn [code_of]; intros H; inversion H; clear H.
  - apply code_Get_ok.
  - apply code_Set_ok.
  - apply code_SetNx_ok.
  - apply code_SetX_ok.
  - apply code_Delete_ok.
  - apply code_Has_ok.
  - apply code_Contains_ok.
  - apply code_Len_ok.
  - apply code_Keys_ok.
  - apply code_Clear_ok.
Qed.

Theorem code_is_model :
  (forall k m, run_method code_Get [k] [] m = sem (CGet k) m) /\
  (forall k m, run_method code_Has [k] [] m = sem (CHas k) m) /\
  (forall k m, run_method code_Contains [k] [] m = sem (CContains k) m) /\
  (forall k v m, run_method code_Set [k; v] [] m = sem (CSet k v) m) /\
  (forall k v m, run_method code_SetNx [k; v] [] m = sem (CSetNx k v) m) /\
  (forall k v m, run_method code_SetX [k; v] [] m = sem (CSetX k v) m) /\
  (forall ks m, run_method code_Delete [] ks m = sem (CDelete ks) m) /\
  (forall m, run_method code_Len [] [] m = sem CLen m) /\
  (forall m, run_method code_Clear [] [] m = sem CClear m) /\
  (forall m, run_method code_Keys [] [] m = sem CKeys m) /\
  (forall m, let '(m', r) := run_method code_Values [] [] m in (m', sort_out r) = sem CValues m) /\
  (forall c m, translated c = true -> code_effect c m = Some (sem c m) /\ code_effect c m = exec_call c m).
Proof.
  repeat split; try (intros; first [apply code_Get_ok | apply code_Has_ok | apply code_Contains_ok | apply code_Set_ok
    | apply code_SetNx_ok | apply code_SetX_ok | apply code_Delete_ok | apply code_Len_ok | apply code_Clear_ok | apply code_Keys_ok | apply code_Values_ok]).
  - destruct (code_effect c m) as [r|] eqn:E.
    + rewrite (code_is_sem c m r E). reflexivity.
    + unfold code_effect, translated in *. destruct (code_of c) as [[[? ?] ?]|]; discriminate.
  - rewrite exec_call_is_sem. destruct (code_effect c m) as [r|] eqn:E.
    + rewrite (code_is_sem c m r E). reflexivity.
    + unfold code_effect, translated in *. destruct (code_of c) as [[[? ?] ?]|]; discriminate.
Qed.

(* which calls are covered *)
Lemma translated_calls c : translated c = true <->
  match c with
  | CGet _ | CSet _ _ | CSetNx _ _ | CSetX _ _ | CDelete _ | CHas _ | CContains _ | CLen | CClear | CKeys => True
  | _ => False
  end.
Proof. destruct c; cbn; split; intros; try discriminate; try contradiction; trivial. Qed.
