(* C12: the REGENERATED method bodies (Gen/SafeKVCode.v, dumped from mapz/safekv.go on every run) do what the hand-written
   specification [sem] says, for every argument and every map.  The scripts do not mention the shape of a body beyond
   "straight-line code with lookups" (and one loop over the variadic parameter for Delete). *)
From Coq Require Import List Arith ZArith Bool.
From V Require Import Lib.Enc Lib.MapLang Gen.SafeKVCode Model.SafeKV Model.SafeKVCode Proofs.SafeKVExec.
Import ListNotations.

Ltac code_run :=
  intros; unfold run_method, sem, has;
  cbn [exec eval m_body s_ret s_map s_env env_set env_set_opt Nat.eqb nth map zb fold_left
       code_Get code_Has code_Contains code_Set code_SetNx code_SetX code_Delete code_Len code_Clear];
  repeat match goal with
         | |- context [get ?m ?k] => destruct (get m k) eqn:?
         end;
  cbn [exec eval m_body s_ret s_map s_env env_set env_set_opt Nat.eqb nth map zb fold_left Z.eqb];
  try reflexivity.

Lemma code_Get_ok k m : run_method code_Get [k] [] m = sem (CGet k) m.
Proof. code_run. Qed.
Lemma code_Has_ok k m : run_method code_Has [k] [] m = sem (CHas k) m.
Proof. code_run. Qed.
Lemma code_Contains_ok k m : run_method code_Contains [k] [] m = sem (CContains k) m.
Proof. code_run. Qed.
Lemma code_Set_ok k v m : run_method code_Set [k; v] [] m = sem (CSet k v) m.
Proof. code_run. Qed.
Lemma code_SetNx_ok k v m : run_method code_SetNx [k; v] [] m = sem (CSetNx k v) m.
Proof. code_run. Qed.
Lemma code_SetX_ok k v m : run_method code_SetX [k; v] [] m = sem (CSetX k v) m.
Proof. code_run. Qed.
Lemma code_Len_ok m : run_method code_Len [] [] m = sem CLen m.
Proof. code_run. Qed.
Lemma code_Clear_ok m : run_method code_Clear [] [] m = sem CClear m.
Proof. code_run. Qed.

(* Delete: the loop over the variadic parameter deletes key after key, whatever the locals hold (also when the body first
   asks whether the key is there) *)
Lemma del_absent m k : get m k = None -> del m k = m.
Proof.
  induction m as [|[a b] t IH]; cbn; intros H. reflexivity.
  destruct (a =? k)%Z. discriminate. rewrite IH by assumption. reflexivity.
Qed.
Lemma delete_loop ks : forall m e,
  let st := exec [] ks (m_body code_Delete) {| s_map := m; s_env := e; s_ret := None |} in
  s_map st = fold_left del ks m /\ s_ret st = None.
Proof.
  cbn [exec m_body code_Delete s_ret s_map s_env].
  induction ks as [|k ks IH]; intros m e.
  - cbn. split; reflexivity.
  - cbn [fold_left exec eval s_ret s_map s_env env_set env_set_opt Nat.eqb].
    repeat match goal with
           | |- context [get ?m ?k] => destruct (get m k) eqn:?
           end;
    cbn [fold_left exec eval s_ret s_map s_env env_set env_set_opt Nat.eqb Z.eqb];
    rewrite ?del_absent by assumption; apply IH.
Qed.
Lemma code_Delete_ok ks m : run_method code_Delete [] ks m = sem (CDelete ks) m.
Proof.
  unfold run_method, sem. destruct (delete_loop ks m (fun _ => 0%Z)) as [Hm Hr]. cbv zeta in Hm, Hr.
  rewrite Hm, Hr. reflexivity.
Qed.

Theorem code_is_sem c m r : code_effect c m = Some r -> r = sem c m.
Proof.
  unfold code_effect. destruct c; cbn [code_of]; intros H; inversion H; clear H.
  - apply code_Get_ok.
  - apply code_Set_ok.
  - apply code_SetNx_ok.
  - apply code_SetX_ok.
  - apply code_Delete_ok.
  - apply code_Has_ok.
  - apply code_Contains_ok.
  - apply code_Len_ok.
  - apply code_Clear_ok.
Qed.

Theorem code_is_model :
  (forall k m, run_method code_Get [k] [] m = sem (CGet k) m) /\
  (forall k m, run_method code_Has [k] [] m = sem (CHas k) m) /\
  (forall k m, run_method code_Contains [k] [] m = sem (CContains k) m) /\
  (forall k v m, run_method code_Set [k; v] [] m = sem (CSet k v) m) /\
  (forall k v m, run_method code_SetNx [k; v] [] m = sem (CSetNx k v) m) /\
  (forall k v m, run_method code_SetX [k; v] [] m = sem (CSetX k v) m) /\
  (forall ks m, run_method code_Delete [] ks m = sem (CDelete ks) m) /\
  (forall m, run_method code_Len [] [] m = sem CLen m) /\
  (forall m, run_method code_Clear [] [] m = sem CClear m) /\
  (forall c m, translated c = true -> code_effect c m = Some (sem c m) /\ code_effect c m = exec_call c m).
Proof.
  repeat split; try (intros; first [apply code_Get_ok | apply code_Has_ok | apply code_Contains_ok | apply code_Set_ok
    | apply code_SetNx_ok | apply code_SetX_ok | apply code_Delete_ok | apply code_Len_ok | apply code_Clear_ok]).
  - destruct (code_effect c m) as [r|] eqn:E.
    + rewrite (code_is_sem c m r E). reflexivity.
    + unfold code_effect, translated in *. destruct (code_of c) as [[[? ?] ?]|]; discriminate.
  - rewrite exec_call_is_sem. destruct (code_effect c m) as [r|] eqn:E.
    + rewrite (code_is_sem c m r E). reflexivity.
    + unfold code_effect, translated in *. destruct (code_of c) as [[[? ?] ?]|]; discriminate.
Qed.

(* which calls are covered *)
Lemma translated_calls c : translated c = true <->
  match c with
  | CGet _ | CSet _ _ | CSetNx _ _ | CSetX _ _ | CDelete _ | CHas _ | CContains _ | CLen | CClear => True
  | _ => False
  end.
Proof. destruct c; cbn; split; intros; try discriminate; try contradiction; trivial. Qed.
