(* C12: the REGENERATED method bodies (Gen/SafeKVCode*.v, dumped from mapz/safekv.go + iter.go on every run) do what the
   hand-written specification [sem] says, for every argument and every map.  The scripts do not mention the shape of a body
   beyond "straight-line code with lookups", "one loop over the variadic parameter" (Delete), "one loop over the map that
   appends" (Keys, Values), "one loop over the map that calls back and may break" (Range, All). *)
From Coq Require Import List Arith ZArith Bool Lia.
From V Require Import Lib.Enc Lib.MapLang Gen.SafeKVCode Model.SafeKV Model.SafeKVCode Proofs.SafeKVExec.
Import ListNotations.

Lemma if_same {A} (c : bool) (x : A) : (if c then x else x) = x.
Proof. destruct c; reflexivity. Qed.

Ltac cb_ := cbn [exec eval m_body run_state stopped upd_me clear_brk s_ret s_map s_env s_sl s_brk s_n s_log env_set env_set_opt sl_set
                 Nat.eqb nth map zb fold_left fst snd app no_mcb map_cb
                 code_Get code_Has code_Contains code_Set code_SetNx code_SetX code_Delete code_Len code_Clear code_Keys code_Values
                 code_GetWithLock code_Map code_Range code_All].
Ltac code_run :=
  intros; unfold run_method, run_cb, sem, has; cb_;
  repeat match goal with
         | |- context [get ?m ?k] => destruct (get m k) eqn:?
         end;
  cb_; cbn [Z.eqb]; cb_;
  try reflexivity.

Lemma code_Get_ok k m : run_method code_Get [k] [] m = sem (CGet k) m.
Proof. code_run. Qed.
Lemma code_Has_ok k m : run_method code_Has [k] [] m = sem (CHas k) m.
Proof. code_run. Qed.
Lemma code_Contains_ok k m : run_method code_Contains [k] [] m = sem (CContains k) m.
Proof. code_run. Qed.
Lemma code_Set_ok k v m : run_method code_Set [k; v] [] m = sem (CSet k v) m.
Proof. code_run. Qed.
Lemma code_SetNx_ok k v m : run_method code_SetNx [k; v] [] m = sem (CSetNx k v) m.
Proof. code_run. Qed.
Lemma code_SetX_ok k v m : run_method code_SetX [k; v] [] m = sem (CSetX k v) m.
Proof. code_run. Qed.
Lemma code_Len_ok m : run_method code_Len [] [] m = sem CLen m.
Proof. code_run. Qed.
Lemma code_Clear_ok m : run_method code_Clear [] [] m = sem CClear m.
Proof. code_run. Qed.

(* the callback methods without a loop: any scalar callback for GetWithLock (its answer is not used), the model's map
   callback for Map *)
Lemma code_GetWithLock_ok cb k m :
  let '(m', n, lg) := run_cb cb no_mcb code_GetWithLock [k] m in (m', lock_enc n lg) = sem (CGetWithLock k) m.
Proof. code_run. Qed.
Lemma code_Map_ok cb f a b m :
  let '(m', n, lg) := run_cb cb (map_cb f a b) code_Map [] m in (m', lg) = sem (CMap f a b) m.
Proof. code_run. Qed.

(* Delete: the loop over the variadic parameter deletes key after key, whatever the locals hold (also when the body first
   asks whether the key is there) *)
Lemma del_absent m k : get m k = None -> del m k = m.
Proof.
  induction m as [|[a b] t IH]; cbn; intros H. reflexivity.
  destruct (a =? k)%Z. discriminate. rewrite IH by assumption. reflexivity.
Qed.
Lemma delete_loop cb mcb ks : forall m,
  let st := run_state cb mcb [] ks code_Delete m in
  s_map st = fold_left del ks m /\ s_ret st = None.
Proof.
  unfold run_state. cb_. intros m. rewrite ?if_same. cb_.
  generalize (fun _ : nat => 0%Z) as e. generalize (fun _ : nat => @nil Z) as l. generalize O as n. generalize (@nil Z) as lg.
  revert m. induction ks as [|k ks IH]; intros m lg n l e.
  - cbn. split; reflexivity.
  - cb_.
    repeat match goal with
           | |- context [get ?m ?k] => destruct (get m k) eqn:?
           end;
    cb_; cbn [Z.eqb]; cb_;
    rewrite ?del_absent by assumption; apply IH.
Qed.
Lemma code_Delete_ok ks m : run_method code_Delete [] ks m = sem (CDelete ks) m.
Proof.
  unfold run_method, sem. destruct (delete_loop (fun _ _ => 1%Z) no_mcb ks m) as [Hm Hr]. cbv zeta in Hm, Hr.
  fold no_mcb. rewrite Hm, Hr. reflexivity.
Qed.

(* Keys, Values: a loop over the map whose body appends one component of the pair to slice x and leaves the map alone
   collects that component of every pair, in the model's order *)
Lemma range_acc (F : cstate -> Z * Z -> cstate) (x : nat) (f : Z * Z -> Z) :
  (forall st kv, stopped st = false ->
     s_map (F st kv) = s_map st /\ stopped (F st kv) = false /\ s_sl (F st kv) x = s_sl st x ++ [f kv]) ->
  forall l st, stopped st = false ->
     s_map (fold_left F l st) = s_map st /\ stopped (fold_left F l st) = false /\ s_sl (fold_left F l st) x = s_sl st x ++ map f l.
Proof.
  intros H. induction l as [|kv l IH]; intros st Hr; cbn [fold_left map].
  - rewrite app_nil_r. auto.
  - destruct (H st kv Hr) as (Hm & Hr' & Hs). destruct (IH (F st kv) Hr') as (Hm2 & Hr2 & Hs2).
    rewrite Hm2, Hr2, Hs2, Hm, Hs, <- app_assoc. auto.
Qed.
Fixpoint ret_slice (s : stmt) : nat :=
  match s with SSeq a b => ret_slice a + ret_slice b | SReturnSlice x => x | _ => 0 end.
Ltac open_state Hs :=
  unfold stopped in Hs; cbn [s_ret s_brk] in Hs;
  match type of Hs with context [match ?r with _ => _ end] => destruct r; [discriminate Hs|] end; subst.
Ltac range_run md f :=
  intros; unfold run_method, run_state; cbn [m_body md];
  let x := eval cbv in (ret_slice (m_body md)) in
  cb_;
  match goal with
  | |- context [fold_left ?F ?m ?st] =>
      let P := fresh "P" in
      assert (P : s_map (fold_left F m st) = s_map st /\ stopped (fold_left F m st) = false /\
                  s_sl (fold_left F m st) x = s_sl st x ++ map f m)
        by (apply (range_acc F x f);
            [ intros [mm ee ll rr bb nn lg] [k v] Hs; open_state Hs; cb_; auto
            | reflexivity ]);
      destruct (fold_left F m st) as [mm ee ll rr bb nn lg]; cbn [s_map s_ret s_sl sl_set Nat.eqb] in P;
      let Hs := fresh "Hs" in destruct P as (-> & Hs & P); open_state Hs;
      cb_; rewrite ?P; cbn [app]
  end.

Lemma code_Keys_ok m : run_method code_Keys [] [] m = sem CKeys m.
Proof. range_run code_Keys (@fst Z Z). reflexivity. Qed.
Lemma code_Values_ok m : let '(m', r) := run_method code_Values [] [] m in (m', sort_out r) = sem CValues m.
Proof. range_run code_Values (@snd Z Z). cbn [sem sort_out]. unfold put_list. rewrite zsort_length. reflexivity. Qed.

(* Range, All: a loop over the map that hands every pair to the callback and breaks when the callback of the model
   ([stop_cb stop]: false on its stop-th call, never for stop = 0) answers false *)
Lemma iter_acc (F : cstate -> Z * Z -> cstate) (stop : nat) :
  (forall st kv, stopped st = false ->
     s_map (F st kv) = s_map st /\ s_ret (F st kv) = None /\ s_n (F st kv) = S (s_n st) /\
     s_log (F st kv) = s_log st ++ [fst kv; snd kv] /\
     s_brk (F st kv) = match stop with O => false | _ => Nat.eqb (S (s_n st)) stop end) ->
  (forall st kv, stopped st = true -> F st kv = st) ->
  forall l st, s_ret st = None ->
    s_map (fold_left F l st) = s_map st /\ s_ret (fold_left F l st) = None /\
    (stop = 0 -> s_brk st = false -> s_log (fold_left F l st) = s_log st ++ flat l) /\
    (stop <> 0 -> (s_brk st = true -> s_n (fold_left F l st) = s_n st) /\
                  (s_brk st = false -> s_n st < stop -> s_n (fold_left F l st) = Nat.min stop (s_n st + length l))).
Proof.
  intros H H2. induction l as [|kv l IH]; intros st Hr; cbn [fold_left length].
  - unfold flat. cbn. rewrite app_nil_r. repeat split; auto. intros. lia.
  - destruct (s_brk st) eqn:Hb.
    + rewrite (H2 st kv) by (unfold stopped; rewrite Hr; exact Hb).
      destruct (IH st Hr) as (A & B & C & D). rewrite Hb in *. repeat split; auto; try discriminate.
      intros. apply D; auto.
    + assert (Hs : stopped st = false) by (unfold stopped; rewrite Hr; exact Hb).
      destruct (H st kv Hs) as (Hm & Hr' & Hn & Hl & Hbk).
      destruct (IH (F st kv) Hr') as (A & B & C & D).
      rewrite A, B, Hm. repeat split; auto; try discriminate.
      * intros -> _. rewrite C by (try reflexivity; exact Hbk). rewrite Hl. unfold flat. cbn [flat_map].
        rewrite <- app_assoc. reflexivity.
      * intros _ Hlt. destruct (D H0) as [D1 D2]. rewrite Hbk in *. destruct stop as [|s']; [contradiction|].
        destruct (Nat.eqb (S (s_n st)) (S s')) eqn:E.
        -- rewrite D1 by reflexivity. rewrite Hn. apply Nat.eqb_eq in E. lia.
        -- rewrite D2 by (try reflexivity; apply Nat.eqb_neq in E; lia). rewrite Hn. lia.
Qed.
Ltac iter_run md stop :=
  intros; unfold run_cb, run_state; cbn [m_body md]; cb_;
  match goal with
  | |- context [fold_left ?F ?m ?st] =>
      let P := fresh "P" in
      pose proof (iter_acc F stop) as P;
      specialize (P ltac:(intros [mm ee ll rr bb nn lg] [k v] Hs; open_state Hs; cb_; unfold stop_cb;
                          destruct stop as [|s']; cb_; cbn [Z.eqb]; cb_; [auto 10|];
                          match goal with |- context [Nat.eqb ?x ?y] => destruct (Nat.eqb x y) end; cb_; cbn [negb zb Z.eqb]; cb_; rewrite ?if_same; cb_; auto 10));
      specialize (P ltac:(intros [mm ee ll rr bb nn lg] kv0 Hs; unfold stopped in Hs; cbn [s_ret s_brk] in Hs; cb_;
                          destruct rr; [reflexivity | subst bb; reflexivity]) m st eq_refl);
      destruct (fold_left F m st) as [mm ee ll rr bb nn lg]; cb_; cbn [s_map s_ret s_n s_log s_brk] in P;
      let P0 := fresh "P0" in let P1 := fresh "P1" in let P2 := fresh "P2" in
      destruct P as (-> & -> & P0 & P1);
      cb_; rewrite ?if_same; cb_; unfold iter_enc, sem, iter_result;
      destruct stop as [|s'];
      [ rewrite P0 by reflexivity; reflexivity
      | destruct (P1 ltac:(discriminate)) as [_ P2]; rewrite P2 by (try reflexivity; lia); rewrite Nat.add_0_l; reflexivity ]
  end.

Lemma code_Range_ok stop m :
  let '(m', n, lg) := run_cb (stop_cb stop) no_mcb code_Range [] m in (m', iter_enc stop n lg) = sem (CRange stop) m.
Proof. iter_run code_Range stop. Qed.
Lemma code_All_ok stop m :
  let '(m', n, lg) := run_cb (stop_cb stop) no_mcb code_All [] m in (m', iter_enc stop n lg) = sem (CAll stop) m.
Proof. iter_run code_All stop. Qed.

Theorem code_is_sem c m r : code_effect c m = Some r -> r = sem c m.
Proof.
  unfold code_effect. destruct c; cbn [code_of]; intros H; inversion H; clear H.
  - apply code_Get_ok.
  - apply code_Set_ok.
  - apply code_SetNx_ok.
  - apply code_SetX_ok.
  - apply code_Delete_ok.
  - apply code_Has_ok.
  - apply code_Contains_ok.
  - apply code_Len_ok.
  - apply code_Keys_ok.
  - apply code_Clear_ok.
Qed.

Theorem code_is_model :
  (forall k m, run_method code_Get [k] [] m = sem (CGet k) m) /\
  (forall k m, run_method code_Has [k] [] m = sem (CHas k) m) /\
  (forall k m, run_method code_Contains [k] [] m = sem (CContains k) m) /\
  (forall k v m, run_method code_Set [k; v] [] m = sem (CSet k v) m) /\
  (forall k v m, run_method code_SetNx [k; v] [] m = sem (CSetNx k v) m) /\
  (forall k v m, run_method code_SetX [k; v] [] m = sem (CSetX k v) m) /\
  (forall ks m, run_method code_Delete [] ks m = sem (CDelete ks) m) /\
  (forall m, run_method code_Len [] [] m = sem CLen m) /\
  (forall m, run_method code_Clear [] [] m = sem CClear m) /\
  (forall m, run_method code_Keys [] [] m = sem CKeys m) /\
  (forall m, let '(m', r) := run_method code_Values [] [] m in (m', sort_out r) = sem CValues m) /\
  (forall cb k m, let '(m', n, lg) := run_cb cb no_mcb code_GetWithLock [k] m in (m', lock_enc n lg) = sem (CGetWithLock k) m) /\
  (forall cb f a b m, let '(m', n, lg) := run_cb cb (map_cb f a b) code_Map [] m in (m', lg) = sem (CMap f a b) m) /\
  (forall stop m, let '(m', n, lg) := run_cb (stop_cb stop) no_mcb code_Range [] m in (m', iter_enc stop n lg) = sem (CRange stop) m) /\
  (forall stop m, let '(m', n, lg) := run_cb (stop_cb stop) no_mcb code_All [] m in (m', iter_enc stop n lg) = sem (CAll stop) m) /\
  (forall c m, translated c = true -> code_effect c m = Some (sem c m) /\ code_effect c m = exec_call c m).
Proof.
  repeat split; try (intros; first [apply code_Get_ok | apply code_Has_ok | apply code_Contains_ok | apply code_Set_ok
    | apply code_SetNx_ok | apply code_SetX_ok | apply code_Delete_ok | apply code_Len_ok | apply code_Clear_ok | apply code_Keys_ok
    | apply code_Values_ok | apply code_GetWithLock_ok | apply code_Map_ok | apply code_Range_ok | apply code_All_ok]).
  - destruct (code_effect c m) as [r|] eqn:E.
    + rewrite (code_is_sem c m r E). reflexivity.
    + unfold code_effect, translated in *. destruct (code_of c) as [[[? ?] ?]|]; discriminate.
  - rewrite exec_call_is_sem. destruct (code_effect c m) as [r|] eqn:E.
    + rewrite (code_is_sem c m r E). reflexivity.
    + unfold code_effect, translated in *. destruct (code_of c) as [[[? ?] ?]|]; discriminate.
Qed.

(* which calls have an exact equation through code_effect *)
Lemma translated_calls c : translated c = true <->
  match c with
  | CGet _ | CSet _ _ | CSetNx _ _ | CSetX _ _ | CDelete _ | CHas _ | CContains _ | CLen | CClear | CKeys => True
  | _ => False
  end.
Proof. destruct c; cbn; split; intros; try discriminate; try contradiction; trivial. Qed.
