(* C05/C06 — runes of a byte string as algz/trie.go sees them (decodeRune / writeRune):
   writeRune writes back exactly the bytes decodeRune consumed (so a word determines its bytes, and matching on rune
   values is matching on bytes); the token list of a string splits at every rune boundary. *)
From Coq Require Import List ZArith Lia Bool Arith.
From V Require Import Lib.Utf8 Proofs.Utf8Facts Gen.Trie Model.Trie Proofs.TrieInsert.
Import ListNotations.
Local Open Scope Z_scope.
Arguments Z.mul : simpl never.
Arguments Z.add : simpl never.
Arguments Z.sub : simpl never.
Arguments Z.div : simpl never.
Arguments Z.modulo : simpl never.

Definition is_bytes (s : bytes) : Prop := Forall (fun b => 0 <= b < 256) s.

Ltac arith := Z.div_mod_to_equations; lia.

(* the standard decoder, read backwards: a well-formed sequence is the encoding of the rune it decodes to *)
Lemma encode_decode s : is_bytes s -> s <> [] ->
  let (r, w) := decode s in
  (r = RuneError /\ w = 1%nat) \/ (encode_rune r = firstn w s /\ 0 <= r < invalid_byte_base).
Proof.
  intros Hb Hs. destruct s as [|b0 t]; [congruence|]. inversion Hb as [|? ? B0 Hb']; subst. cbn [decode].
  unfold encode_rune, encode, invalid_byte_base, RuneError.
  destruct (Z.ltb_spec b0 128) as [H0|H0].
  - right. cbn [firstn].
    destruct (Z.ltb_spec b0 0); [lia|]. destruct (Z.ltb_spec 1114111 b0); [lia|].
    destruct (Z.leb_spec 55296 b0); [lia|]. cbn [orb andb]. destruct (Z.ltb_spec b0 128); [|lia]. split; [reflexivity|lia].
  - unfold inr, cont.
    destruct (Z.leb_spec 194 b0); destruct (Z.leb_spec b0 223); cbn [andb].
    + (* two bytes *)
      destruct t as [|b1 t]; [left; auto|].
      destruct (Z.leb_spec 128 b1); destruct (Z.leb_spec b1 191); cbn [andb]; try (left; auto; fail).
      right. cbn [firstn]. set (r := b0 mod 32 * 64 + b1 mod 64).
      assert (Hr : 128 <= r < 2048) by (unfold r; arith).
      destruct (Z.ltb_spec r 0); [lia|]. destruct (Z.ltb_spec 1114111 r); [lia|]. destruct (Z.leb_spec 55296 r); [lia|]. cbn [orb andb].
      destruct (Z.ltb_spec r 128); [lia|]. destruct (Z.ltb_spec r 2048); [|lia].
      split; [|lia]. f_equal; [unfold r; arith|f_equal; unfold r; arith].
    + destruct (Z.leb_spec 224 b0); destruct (Z.leb_spec b0 239); cbn [andb]; try lia.
      * (* three bytes *)
        destruct t as [|b1 [|b2 t]]; try (left; auto; fail).
        destruct (Z.eqb_spec b0 224) as [E224|E224]; destruct (Z.eqb_spec b0 237) as [E237|E237]; try lia;
          match goal with |- context [(?lo <=? b1) && (b1 <=? ?hi)] =>
            destruct (Z.leb_spec lo b1); destruct (Z.leb_spec b1 hi); cbn [andb]; try (left; auto; fail) end;
          (destruct (Z.leb_spec 128 b2); destruct (Z.leb_spec b2 191); cbn [andb]; try (left; auto; fail));
          right; cbn [firstn]; set (r := b0 mod 16 * 4096 + b1 mod 64 * 64 + b2 mod 64);
          (assert (Hr : 2048 <= r < 65536 /\ ~ (55296 <= r <= 57343)) by (unfold r; arith));
          (destruct (Z.ltb_spec r 0); [lia|]); (destruct (Z.ltb_spec 1114111 r); [lia|]);
          (destruct (Z.leb_spec 55296 r); destruct (Z.leb_spec r 57343); try lia); cbn [orb andb];
          (destruct (Z.ltb_spec r 128); [lia|]); (destruct (Z.ltb_spec r 2048); [lia|]); (destruct (Z.ltb_spec r 65536); [|lia]);
          (split; [|lia]); (f_equal; [unfold r; arith|f_equal; [unfold r; arith|f_equal; unfold r; arith]]).
      * (* four bytes or nothing *)
        destruct (Z.leb_spec 240 b0); destruct (Z.leb_spec b0 244); cbn [andb]; try (left; auto; fail).
        destruct t as [|b1 [|b2 [|b3 t]]]; try (left; auto; fail).
        destruct (Z.eqb_spec b0 240) as [E240|E240]; destruct (Z.eqb_spec b0 244) as [E244|E244]; try lia;
          match goal with |- context [(?lo <=? b1) && (b1 <=? ?hi)] =>
            destruct (Z.leb_spec lo b1); destruct (Z.leb_spec b1 hi); cbn [andb]; try (left; auto; fail) end;
          (destruct (Z.leb_spec 128 b2); destruct (Z.leb_spec b2 191); cbn [andb]; try (left; auto; fail));
          (destruct (Z.leb_spec 128 b3); destruct (Z.leb_spec b3 191); cbn [andb]; try (left; auto; fail));
          right; cbn [firstn]; set (r := b0 mod 8 * 262144 + b1 mod 64 * 4096 + b2 mod 64 * 64 + b3 mod 64);
          (assert (Hr : 65536 <= r <= 1114111) by (unfold r; arith));
          (destruct (Z.ltb_spec r 0); [lia|]); (destruct (Z.ltb_spec 1114111 r); [lia|]);
          (destruct (Z.leb_spec 55296 r); destruct (Z.leb_spec r 57343); try lia); cbn [orb andb];
          (destruct (Z.ltb_spec r 128); [lia|]); (destruct (Z.ltb_spec r 2048); [lia|]); (destruct (Z.ltb_spec r 65536); [lia|]);
          (split; [|lia]); (f_equal; [unfold r; arith|f_equal; [unfold r; arith|f_equal; [unfold r; arith|f_equal; unfold r; arith]]]).
    + (* b0 < 194: no sequence starts here *)
      destruct (Z.leb_spec 224 b0); [lia|]. cbn [andb]. destruct (Z.leb_spec 240 b0); [lia|]. cbn [andb]. left; auto.
    + lia.
Qed.

(* ------------------------------------------------------------------ decodeRune / writeRune *)
Lemma decode_rune_snd s : snd (decode_rune s) = snd (decode s).
Proof.
  destruct s as [|b t]; [reflexivity|]. unfold decode_rune. cbn [decode].
  change rune_self with 128. destruct (b <? 128); [reflexivity|].
  match goal with |- snd (let (r, w) := ?d in _) = snd ?d => destruct d as [r w] end.
  destruct ((r =? RuneError) && Nat.eqb w 1) eqn:E; [|reflexivity].
  apply andb_prop in E. destruct E as [_ E]. apply Nat.eqb_eq in E. cbn [snd]. congruence.
Qed.

Lemma decode_rune_write s : is_bytes s -> s <> [] ->
  write_rune (fst (decode_rune s)) = firstn (snd (decode_rune s)) s.
Proof.
  intros Hb Hs. pose proof (encode_decode s Hb Hs) as He.
  destruct s as [|b t]; [congruence|]. inversion Hb as [|? ? B0 _]; subst.
  unfold decode_rune. change rune_self with 128. destruct (Z.ltb_spec b 128) as [H0|H0].
  - cbn [fst snd firstn]. unfold write_rune, invalid_byte_base. destruct (Z.leb_spec 1114112 b); [lia|].
    unfold encode_rune, encode. destruct (Z.ltb_spec b 0); [lia|]. destruct (Z.ltb_spec 1114111 b); [lia|].
    destruct (Z.leb_spec 55296 b); [lia|]. cbn [orb andb]. destruct (Z.ltb_spec b 128); [reflexivity|lia].
  - destruct (decode (b :: t)) as [r w]. destruct He as [[-> ->]|[He Hr]].
    + cbn [Z.eqb Nat.eqb andb fst snd firstn]. rewrite Z.eqb_refl. cbn [andb fst snd].
      unfold write_rune. destruct (Z.leb_spec invalid_byte_base (invalid_byte_base + b)); [|lia].
      replace (invalid_byte_base + b - invalid_byte_base) with b by lia. rewrite Z.mod_small by lia. reflexivity.
    + destruct ((r =? RuneError) && Nat.eqb w 1) eqn:E.
      * exfalso. apply andb_prop in E. destruct E as [E1 E2]. apply Z.eqb_eq in E1. apply Nat.eqb_eq in E2. subst.
        apply (f_equal (@length Z)) in He. cbn in He. discriminate.
      * cbn [fst snd]. unfold write_rune. destruct (Z.leb_spec invalid_byte_base r); [lia|]. exact He.
Qed.

Lemma decode_rune_local r x : r <> [] -> (snd (decode_rune (r ++ x)) <= length r)%nat -> decode_rune r = decode_rune (r ++ x).
Proof.
  intros Hr Hw. rewrite decode_rune_snd in Hw. pose proof (decode_local r x Hr Hw) as E.
  destruct r as [|b t]; [congruence|]. cbn [app] in *. unfold decode_rune. rewrite E. reflexivity.
Qed.

(* ------------------------------------------------------------------ tokens *)
Lemma is_bytes_skipn n s : is_bytes s -> is_bytes (skipn n s).
Proof.
  unfold is_bytes. rewrite !Forall_forall. intros H x Hx. apply H. rewrite <- (firstn_skipn n s). apply in_or_app. right. exact Hx.
Qed.
Lemma is_bytes_firstn n s : is_bytes s -> is_bytes (firstn n s).
Proof.
  unfold is_bytes. rewrite !Forall_forall. intros H x Hx. apply H. rewrite <- (firstn_skipn n s). apply in_or_app. left. exact Hx.
Qed.
Lemma is_bytes_app a b : is_bytes (a ++ b) <-> is_bytes a /\ is_bytes b.
Proof. unfold is_bytes. apply Forall_app. Qed.

Lemma tokens_fuel_enough : forall f1 f2 s, (length s <= f1)%nat -> (length s <= f2)%nat -> tokens_fuel f1 s = tokens_fuel f2 s.
Proof.
  induction f1 as [|f1 IH]; intros f2 s H1 H2.
  - destruct s; [destruct f2; reflexivity|cbn in H1; lia].
  - destruct s as [|b t]; [destruct f2; reflexivity|]. destruct f2 as [|f2]; [cbn in H2; lia|].
    cbn [tokens_fuel]. pose proof (decode_rune_width (b :: t) ltac:(discriminate)) as Hw.
    destruct (decode_rune (b :: t)) as [r w]. cbn [snd] in Hw. f_equal.
    apply IH; rewrite skipn_length; cbn [length] in *; lia.
Qed.
Lemma tokens_nil : tokens [] = [].
Proof. reflexivity. Qed.
Lemma tokens_cons s : s <> [] -> tokens s = decode_rune s :: tokens (skipn (snd (decode_rune s)) s).
Proof.
  intros Hs. destruct s as [|b t]; [congruence|]. unfold tokens at 1. cbn [length tokens_fuel].
  pose proof (decode_rune_width (b :: t) ltac:(discriminate)) as Hw.
  destruct (decode_rune (b :: t)) as [r w]. cbn [snd] in *. f_equal.
  apply tokens_fuel_enough; rewrite skipn_length; cbn [length]; lia.
Qed.

(* strong induction on the length through the token steps *)
Lemma tokens_ind (P : list Z -> Prop) :
  P [] -> (forall s, s <> [] -> P (skipn (snd (decode_rune s)) s) -> P s) -> forall s, P s.
Proof.
  intros H0 Hs s. remember (length s) as n eqn:En. revert s En. induction n as [n IH] using lt_wf_ind. intros s En.
  destruct s as [|b t]; [exact H0|]. apply Hs; [discriminate|].
  pose proof (decode_rune_width (b :: t) ltac:(discriminate)) as Hw.
  apply (IH (length (skipn (snd (decode_rune (b :: t))) (b :: t)))); [|reflexivity].
  rewrite skipn_length. subst n. cbn [length] in *. lia.
Qed.

(* a byte string is the concatenation of what writeRune writes for its runes; widths are the written lengths *)
Theorem wbytes_runes s : is_bytes s -> wbytes (runes_of s) = s /\ tok_ok s.
Proof.
  induction s as [|s Hs IH] using tokens_ind; intros Hb.
  - split; [reflexivity|constructor].
  - unfold runes_of, tok_ok. rewrite (tokens_cons s Hs). cbn [map]. unfold wbytes. cbn [map concat].
    pose proof (decode_rune_write s Hb Hs) as Hw. pose proof (decode_rune_width s Hs) as Hl.
    destruct (IH (is_bytes_skipn _ _ Hb)) as [I1 I2]. split.
    + unfold wbytes, runes_of in I1. rewrite I1, Hw. apply firstn_skipn.
    + constructor; [|exact I2]. rewrite Hw. rewrite firstn_length. lia.
Qed.
Corollary wbytes_runes_of s : is_bytes s -> wbytes (runes_of s) = s.
Proof. intros H. apply (wbytes_runes s H). Qed.
Corollary tok_ok_bytes s : is_bytes s -> tok_ok s.
Proof. intros H. apply (wbytes_runes s H). Qed.

(* ------------------------------------------------------------------ rune boundaries *)
Lemma bounds_from_shift toks : forall i, bounds_from i toks = map (fun k => (i + k)%nat) (bounds_from 0 toks).
Proof.
  induction toks as [|[r w] toks IH]; intros i; cbn [bounds_from map].
  - f_equal. lia.
  - f_equal; [lia|]. rewrite (IH (i + w)%nat), (IH (0 + w)%nat), map_map. apply map_ext. intros k. lia.
Qed.
Lemma bounds_cons s : s <> [] ->
  bounds s = 0%nat :: map (fun k => (snd (decode_rune s) + k)%nat) (bounds (skipn (snd (decode_rune s)) s)).
Proof.
  intros Hs. unfold bounds. rewrite (tokens_cons s Hs). destruct (decode_rune s) as [r w]. cbn [bounds_from snd].
  f_equal. rewrite bounds_from_shift. reflexivity.
Qed.
Lemma bounds_nil : bounds [] = [0%nat].
Proof. reflexivity. Qed.

(* the token list splits at a rune boundary *)
Theorem tokens_app : forall a b, In (length a) (bounds (a ++ b)) -> tokens (a ++ b) = tokens a ++ tokens b.
Proof.
  intros a. induction a as [|a Ha IH] using tokens_ind; intros b Hin; [reflexivity|].
  assert (Hab : a ++ b <> []) by (destruct a; [congruence|discriminate]).
  rewrite (bounds_cons _ Hab) in Hin. destruct Hin as [Hin|Hin]; [destruct a; [congruence|discriminate]|].
  apply in_map_iff in Hin. destruct Hin as (k & Ek & Hk).
  set (w := snd (decode_rune (a ++ b))) in *.
  assert (Hw : (w <= length a)%nat) by lia.
  pose proof (decode_rune_local a b Ha Hw) as El.
  assert (Esk : skipn w (a ++ b) = skipn w a ++ b).
  { rewrite skipn_app. replace (w - length a)%nat with 0%nat by lia. reflexivity. }
  rewrite (tokens_cons _ Hab), (tokens_cons a Ha). fold w. rewrite El. fold w. cbn [app]. f_equal.
  rewrite Esk. rewrite El in IH. fold w in IH. apply IH. rewrite <- Esk.
  replace (length (skipn w a)) with k by (rewrite skipn_length; lia). exact Hk.
Qed.

Lemma bounds_app a b : In (length a) (bounds (a ++ b)) ->
  forall k, In k (bounds (a ++ b)) <-> In k (bounds a) \/ (exists j, In j (bounds b) /\ k = (length a + j)%nat).
Proof.
  intros Hin k. unfold bounds at 1. rewrite (tokens_app a b Hin).
  (* bounds_from over an append *)
  assert (Nb : forall t i, bounds_from i t <> []) by (intros [|[? ?] ?] i; discriminate).
  assert (Lc : forall (x : nat) l, l <> [] -> last (x :: l) 0%nat = last l 0%nat) by (intros x [|y l] H; [congruence|reflexivity]).
  assert (Rc : forall (x : nat) l, l <> [] -> removelast (x :: l) = x :: removelast l) by (intros x [|y l] H; [congruence|reflexivity]).
  assert (G : forall t1 t2 i, bounds_from i (t1 ++ t2) = removelast (bounds_from i t1) ++ bounds_from (last (bounds_from i t1) 0%nat) t2).
  { induction t1 as [|[r w] t1 IHt]; intros t2 i; cbn [app bounds_from]; [reflexivity|].
    rewrite IHt, (Lc i _ (Nb t1 (i + w)%nat)), (Rc i _ (Nb t1 (i + w)%nat)). reflexivity. }
  assert (L : forall t i, last (bounds_from i t) 0%nat = (i + fold_right (fun rw acc => (snd rw + acc)%nat) 0%nat t)%nat).
  { induction t as [|[r w] t IHt]; intros i; cbn [bounds_from fold_right snd]; [cbn; lia|].
    rewrite (Lc i _ (Nb t (i + w)%nat)), IHt. lia. }
  assert (S : forall s, fold_right (fun rw acc => (snd rw + acc)%nat) 0%nat (tokens s) = length s).
  { induction s as [|s Hs IHs] using tokens_ind; [reflexivity|]. rewrite (tokens_cons s Hs). cbn [fold_right]. rewrite IHs.
    pose proof (decode_rune_width s Hs). rewrite skipn_length. lia. }
  rewrite G, L, S. cbn [Nat.add]. rewrite in_app_iff. fold (bounds a).
  rewrite bounds_from_shift, in_map_iff.
  assert (La : last (bounds a) 0%nat = length a) by (unfold bounds; rewrite L, S; lia).
  assert (Ne : bounds a <> []) by (unfold bounds; destruct (tokens a) as [|[? ?] ?]; discriminate).
  split.
  - intros [H|(j & <- & Hj)]; [left; apply (app_removelast_last 0%nat) in Ne; rewrite Ne; apply in_or_app; left; exact H|].
    right. exists j. split; [exact Hj|reflexivity].
  - intros [H|(j & Hj & ->)].
    + rewrite (app_removelast_last 0%nat Ne) in H. apply in_app_or in H. destruct H as [H|[H|[]]]; [left; exact H|].
      right. exists 0%nat. split; [rewrite La in H; lia|]. destruct (tokens b) as [|[? ?] ?]; left; reflexivity.
    + right. exists j. split; [lia|exact Hj].
Qed.

Lemma is_bound_iff t i : is_bound t i = true <-> In i (bounds t).
Proof.
  unfold is_bound. rewrite existsb_exists. split.
  - intros (x & Hx & E). apply Nat.eqb_eq in E. subst. exact Hx.
  - intros H. exists i. split; [exact H|apply Nat.eqb_refl].
Qed.
