(* C05/C06 — runes of a byte string as algz/trie.go sees them (decodeRune / writeRune):
   writeRune writes back exactly the bytes decodeRune consumed (so a word determines its bytes, and matching on rune
   values is matching on bytes); the token list of a string splits at every rune boundary. *)
From Coq Require Import List ZArith Lia Bool Arith.
From V Require Import Lib.Utf8 Proofs.Utf8Facts Gen.Trie Model.Trie Proofs.TrieInsert.
Import ListNotations.
Local Open Scope Z_scope.
Arguments Z.mul : simpl never.
Arguments Z.add : simpl never.
Arguments Z.sub : simpl never.
Arguments Z.div : simpl never.
Arguments Z.modulo : simpl never.

Definition is_bytes (s : bytes) : Prop := Forall (fun b => 0 <= b < 256) s.

Ltac arith := Z.div_mod_to_equations; lia.

(* the standard decoder, read backwards: a well-formed sequence is the encoding of the rune it decodes to *)
Lemma encode_decode s : is_bytes s -> s <> [] ->
  let (r, w) := decode s in
  (r = RuneError /\ w = 1%nat) \/ (encode_rune r = firstn w s /\ 0 <= r < invalid_byte_base).
Proof.
  intros Hb Hs. destruct s as [|b0 t]; [congruence|]. inversion Hb as [|? ? B0 Hb']; subst. cbn [decode].
  unfold encode_rune, encode, invalid_byte_base, RuneError.
  destruct (Z.ltb_spec b0 128) as [H0|H0].
  - right. cbn [firstn].
    destruct (Z.ltb_spec b0 0); [lia|]. destruct (Z.ltb_spec 1114111 b0); [lia|].
    destruct (Z.leb_spec 55296 b0); [lia|]. cbn [orb andb]. destruct (Z.ltb_spec b0 128); [|lia]. split; [reflexivity|lia].
  - unfold inr, cont.
    destruct (Z.leb_spec 194 b0); destruct (Z.leb_spec b0 223); cbn [andb].
    + (* two bytes *)
      destruct t as [|b1 t]; [left; auto|].
      destruct (Z.leb_spec 128 b1); destruct (Z.leb_spec b1 191); cbn [andb]; try (left; auto; fail).
      right. cbn [firstn]. set (r := b0 mod 32 * 64 + b1 mod 64).
      assert (Hr : 128 <= r < 2048) by (unfold r; arith).
      destruct (Z.ltb_spec r 0); [lia|]. destruct (Z.ltb_spec 1114111 r); [lia|]. destruct (Z.leb_spec 55296 r); [lia|]. cbn [orb andb].
      destruct (Z.ltb_spec r 128); [lia|]. destruct (Z.ltb_spec r 2048); [|lia].
      split; [|lia]. f_equal; [unfold r; arith|f_equal; unfold r; arith].
    + destruct (Z.leb_spec 224 b0); destruct (Z.leb_spec b0 239); cbn [andb]; try lia.
      * (* three bytes *)
        destruct t as [|b1 [|b2 t]]; try (left; auto; fail).
        destruct (Z.eqb_spec b0 224) as [E224|E224]; destruct (Z.eqb_spec b0 237) as [E237|E237]; try lia;
          match goal with |- context [(?lo <=? b1) && (b1 <=? ?hi)] =>
            destruct (Z.leb_spec lo b1); destruct (Z.leb_spec b1 hi); cbn [andb]; try (left; auto; fail) end;
          (destruct (Z.leb_spec 128 b2); destruct (Z.leb_spec b2 191); cbn [andb]; try (left; auto; fail));
          right; cbn [firstn]; set (r := b0 mod 16 * 4096 + b1 mod 64 * 64 + b2 mod 64);
          (assert (Hr : 2048 <= r < 65536 /\ ~ (55296 <= r <= 57343)) by (unfold r; arith));
          (destruct (Z.ltb_spec r 0); [lia|]); (destruct (Z.ltb_spec 1114111 r); [lia|]);
          (destruct (Z.leb_spec 55296 r); destruct (Z.leb_spec r 57343); try lia); cbn [orb andb];
          (destruct (Z.ltb_spec r 128); [lia|]); (destruct (Z.ltb_spec r 2048); [lia|]); (destruct (Z.ltb_spec r 65536); [|lia]);
          (split; [|lia]); (f_equal; [unfold r; arith|f_equal; [unfold r; arith|f_equal; unfold r; arith]]).
      * (* four bytes or nothing *)
        destruct (Z.leb_spec 240 b0); destruct (Z.leb_spec b0 244); cbn [andb]; try (left; auto; fail).
        destruct t as [|b1 [|b2 [|b3 t]]]; try (left; auto; fail).
        destruct (Z.eqb_spec b0 240) as [E240|E240]; destruct (Z.eqb_spec b0 244) as [E244|E244]; try lia;
          match goal with |- context [(?lo <=? b1) && (b1 <=? ?hi)] =>
            destruct (Z.leb_spec lo b1); destruct (Z.leb_spec b1 hi); cbn [andb]; try (left; auto; fail) end;
          (destruct (Z.leb_spec 128 b2); destruct (Z.leb_spec b2 191); cbn [andb]; try (left; auto; fail));
          (destruct (Z.leb_spec 128 b3); destruct (Z.leb_spec b3 191); cbn [andb]; try (left; auto; fail));
          right; cbn [firstn]; set (r := b0 mod 8 * 262144 + b1 mod 64 * 4096 + b2 mod 64 * 64 + b3 mod 64);
          (assert (Hr : 65536 <= r <= 1114111) by (unfold r; arith));
          (destruct (Z.ltb_spec r 0); [lia|]); (destruct (Z.ltb_spec 1114111 r); [lia|]);
          (destruct (Z.leb_spec 55296 r); destruct (Z.leb_spec r 57343); try lia); cbn [orb andb];
          (destruct (Z.ltb_spec r 128); [lia|]); (destruct (Z.ltb_spec r 2048); [lia|]); (destruct (Z.ltb_spec r 65536); [lia|]);
          (split; [|lia]); (f_equal; [unfold r; arith|f_equal; [unfold r; arith|f_equal; [unfold r; arith|f_equal; unfold r; arith]]]).
    + (* b0 < 194: no sequence starts here *)
      destruct (Z.leb_spec 224 b0); [lia|]. cbn [andb]. destruct (Z.leb_spec 240 b0); [lia|]. cbn [andb]. left; auto.
    + lia.
Qed.
