(* C20, part 1: the base-32 decode table, ParseBase32 against the positional specification, Base32 / FormatInt numerals. *)
From Coq Require Import List ZArith Lia Bool Arith.
From V Require Import Lib.Enc Gen.Randz Model.Randz.
Import ListNotations.
Local Open Scope Z_scope.
Arguments Z.mul : simpl never.
Arguments Z.add : simpl never.
Arguments Z.sub : simpl never.
Arguments Z.div : simpl never.
Arguments Z.modulo : simpl never.
Arguments Z.pow : simpl never.

Definition is_byte (c : Z) : Prop := 0 <= c < 256.

(* ---- int64 wrap *)
Lemma wrap64_small x : - 2 ^ 63 <= x < 2 ^ 63 -> wrap64 x = x.
Proof. unfold wrap64. change (2 ^ 63) with 9223372036854775808. change (2 ^ 64) with 18446744073709551616. intros H. Z.div_mod_to_equations. lia. Qed.
Lemma wrap64_step a d : wrap64 (wrap64 a * 32 + d) = wrap64 (a * 32 + d).
Proof.
  unfold wrap64. f_equal.
  set (q := (a + 2 ^ 63) / 2 ^ 64).
  assert (E : (a + 2 ^ 63) mod 2 ^ 64 = a + 2 ^ 63 - 2 ^ 64 * q) by (unfold q; rewrite Z.mod_eq by (vm_compute; discriminate); reflexivity).
  rewrite E. replace ((a + 2 ^ 63 - 2 ^ 64 * q - 2 ^ 63) * 32 + d + 2 ^ 63) with (a * 32 + d + 2 ^ 63 + (- q * 32) * 2 ^ 64) by ring.
  apply Z_mod_plus_full.
Qed.
Lemma wrap64_range x : - 2 ^ 63 <= wrap64 x < 2 ^ 63.
Proof. unfold wrap64. pose proof (Z.mod_pos_bound (x + 2^63) (2^64) ltac:(reflexivity)). change (2^64) with (2 * 2^63) in *. lia. Qed.

(* ---- the table built by init() from the constants found in the source: one sweep over the 256 byte values.
   If the fill loop no longer covers the whole table (the F9 defect) this Lemma stops checking. *)
Definition byte_row_ok (c : Z) : bool :=
  match index_of c g_base32_alphabet 0 with
  | Some d => (dec_byte c =? d) && negb (d =? g_parse_invalid) && (0 <=? d) && (d <? 32)
  | None => dec_byte c =? g_parse_invalid
  end.
Lemma table_sweep : forallb byte_row_ok (map Z.of_nat (seq 0 256)) = true.
Proof. vm_compute. reflexivity. Qed.
Lemma byte_row c : is_byte c -> byte_row_ok c = true.
Proof.
  intros Hc. unfold is_byte in Hc. pose proof table_sweep as H. rewrite forallb_forall in H. apply H.
  apply in_map_iff. exists (Z.to_nat c). split; [lia|apply in_seq; lia].
Qed.
Lemma radix_is_32 : g_parse_radix = 32 /\ g_format_radix = 32.
Proof. split; reflexivity. Qed.

Lemma index_of_in : forall l c i, (exists d, index_of c l i = Some d) <-> In c l.
Proof.
  induction l as [|x t IH]; intros c i; cbn [index_of In].
  - split; [intros [d H]; discriminate|tauto].
  - destruct (Z.eqb_spec x c) as [->|Hne].
    + split; eauto.
    + rewrite IH. split; [tauto|intros [H|H]; [congruence|exact H]].
Qed.
Lemma in_alphabet_index c : in_alphabet c = true <-> exists d, index_of c g_base32_alphabet 0 = Some d.
Proof.
  rewrite index_of_in. unfold in_alphabet. rewrite existsb_exists. split.
  - intros (x & Hx & E). apply Z.eqb_eq in E. subst. exact Hx.
  - intros H. exists c. split; [exact H|apply Z.eqb_refl].
Qed.

Lemma parse_none s : fold_left parse_step s None = None.
Proof. induction s; cbn [fold_left parse_step]; auto. Qed.

Lemma parse_refines_gen : forall s acc, Forall is_byte s ->
  fold_left parse_step s (Some (wrap64 acc)) =
  match map_opt (fun c => index_of c g_base32_alphabet 0) s with
  | None => None
  | Some ds => Some (wrap64 (value_be 32 ds acc))
  end.
Proof.
  induction s as [|c t IH]; intros acc Hb; [reflexivity|].
  inversion Hb as [|? ? Hc Ht]; subst. cbn [fold_left map_opt].
  pose proof (byte_row c Hc) as R. unfold byte_row_ok in R. unfold parse_step at 2.
  destruct (index_of c g_base32_alphabet 0) as [d|].
  - apply andb_prop in R. destruct R as [R R4]. apply andb_prop in R. destruct R as [R R3].
    apply andb_prop in R. destruct R as [R1 R2].
    apply Z.eqb_eq in R1. rewrite R1. apply negb_true_iff in R2. rewrite R2.
    destruct radix_is_32 as [-> _]. rewrite wrap64_step. rewrite IH by exact Ht.
    cbn [value_be]. destruct (map_opt _ t); reflexivity.
  - rewrite R. apply parse_none.
Qed.

(* ParseBase32 = the positional specification, for every byte string *)
Theorem parse_refines_spec s : Forall is_byte s -> parse_base32 s = spec_parse s.
Proof. intros H. unfold parse_base32, spec_parse. change (Some 0) with (Some (wrap64 0)). apply parse_refines_gen. exact H. Qed.

Lemma map_opt_none_iff {A B} (f : A -> option B) l : map_opt f l = None <-> exists x, In x l /\ f x = None.
Proof.
  induction l as [|x t IH]; cbn [map_opt In].
  - split; [discriminate|intros (x & [] & _)].
  - destruct (f x) eqn:E.
    + destruct (map_opt f t) eqn:Et.
      * split; [discriminate|]. intros (y & [->|Hy] & Hn); [congruence|].
        assert (Some l = None) by (apply IH; eauto). discriminate.
      * split; [|reflexivity]. intros _. destruct (proj1 IH eq_refl) as (y & Hy & Hn). eauto.
    + split; [|reflexivity]. intros _. eauto.
Qed.

(* every input containing a byte outside the alphabet is rejected, wherever the byte stands *)
Theorem parse_rejects_non_alphabet s :
  Forall is_byte s -> (exists c, In c s /\ in_alphabet c = false) -> parse_base32 s = None.
Proof.
  intros Hb (c & Hin & Hn). rewrite parse_refines_spec by exact Hb. unfold spec_parse.
  assert (E : map_opt (fun c => index_of c g_base32_alphabet 0) s = None).
  { apply map_opt_none_iff. exists c. split; [exact Hin|].
    destruct (index_of c g_base32_alphabet 0) eqn:E; [|reflexivity].
    assert (in_alphabet c = true) by (apply in_alphabet_index; eauto). congruence. }
  rewrite E. reflexivity.
Qed.
(* and every input made of alphabet characters only is accepted *)
Theorem parse_accepts_alphabet s :
  Forall is_byte s -> (forall c, In c s -> in_alphabet c = true) -> exists v, parse_base32 s = Some v.
Proof.
  intros Hb Ha. rewrite parse_refines_spec by exact Hb. unfold spec_parse.
  destruct (map_opt _ s) eqn:E; [eauto|].
  apply map_opt_none_iff in E. destruct E as (c & Hin & Hn). apply Ha in Hin. apply in_alphabet_index in Hin.
  destruct Hin as [d Hd]. congruence.
Qed.

(* ---- numerals: digits_le produces THE numeral, for any digit alphabet in which position d holds a character
        that is found back at position d *)
Fixpoint value_le (base : Z) (ds : list Z) : Z := match ds with [] => 0 | x :: t => x + base * value_le base t end.

Lemma digits_value base : 2 <= base -> forall fuel f, 0 <= f < base ^ Z.of_nat (S fuel) ->
  value_le base (digits_le fuel base f) = f /\ Forall (fun x => 0 <= x < base) (digits_le fuel base f) /\
  (0 < f -> 0 < last (digits_le fuel base f) 0) /\ (f < base -> digits_le fuel base f = [f]) /\
  (base <= f -> (2 <= length (digits_le fuel base f))%nat).
Proof.
  intros Hb. induction fuel as [|n IH]; intros f Hf; cbn [digits_le].
  - change (Z.of_nat 1) with 1 in Hf. rewrite Z.pow_1_r in Hf. cbn [value_le last length].
    repeat split; try lia. repeat constructor; lia.
  - destruct (Z.ltb_spec f base).
    + cbn [value_le last length]. repeat split; try lia. repeat constructor; lia.
    + assert (Hq : 0 <= f / base < base ^ Z.of_nat (S n)).
      { rewrite (Nat2Z.inj_succ (S n)), Z.pow_succ_r in Hf by lia. split; [apply Z.div_pos; lia|apply Z.div_lt_upper_bound; lia]. }
      destruct (IH (f / base) Hq) as (E & F & L & _ & _).
      assert (Hq1 : 0 < f / base) by (apply Z.div_str_pos; lia).
      cbn [value_le]. rewrite E. repeat split.
      * rewrite (Z.div_mod f base) at 3 by lia. lia.
      * constructor; auto. apply Z.mod_pos_bound. lia.
      * intros _. specialize (L Hq1). destruct (digits_le n base (f / base)) eqn:Ed; [cbn in L; lia|exact L].
      * lia.
      * intros _. destruct (digits_le n base (f / base)) eqn:Ed; [cbn in L; lia|cbn [length]; lia].
Qed.

Lemma value_be_rev base ds : value_be base (rev ds) 0 = value_le base ds.
Proof.
  assert (G : forall l acc, value_be base l acc = fold_left (fun a x => a * base + x) l acc)
    by (induction l; intros; cbn [value_be fold_left]; auto).
  rewrite G. induction ds as [|x t IH]; cbn [rev value_le]; [reflexivity|].
  rewrite fold_left_app. cbn [fold_left]. rewrite IH. lia.
Qed.

Section Numerals.
  Variable digits : list Z.
  Variable base : Z.
  Hypothesis Hbase : 2 <= base.
  Hypothesis Hidx : forall d, 0 <= d < base -> index_of (nth (Z.to_nat d) digits 0) digits 0 = Some d.
  Let ch (d : Z) : Z := nth (Z.to_nat d) digits 0.

  Lemma map_opt_ch ds : Forall (fun x => 0 <= x < base) ds ->
    map_opt (fun c => index_of c digits 0) (map ch ds) = Some ds.
  Proof.
    induction ds as [|x t IH]; intros H; [reflexivity|]. inversion H; subst. cbn [map map_opt].
    unfold ch at 1. rewrite Hidx by assumption. rewrite IH by assumption. reflexivity.
  Qed.

  Lemma ch_inj0 d : 0 <= d < base -> ch d = ch 0 -> d = 0.
  Proof. intros Hd E. pose proof (Hidx d Hd) as A. pose proof (Hidx 0 ltac:(lia)) as B. fold (ch d) in A. fold (ch 0) in B. rewrite E in A. congruence. Qed.

  Lemma numeral_of_digits fuel v : 0 <= v < base ^ Z.of_nat (S fuel) ->
    numeral_ok digits base (map ch (rev (digits_le fuel base v))) v = true.
  Proof.
    intros Hv. destruct (digits_value base Hbase fuel v Hv) as (E & F & L & S1 & S2).
    unfold numeral_ok. rewrite map_opt_ch by (apply Forall_rev; exact F).
    destruct (Z_lt_le_dec v base) as [Hs|Hl].
    - rewrite S1 by exact Hs. cbn [rev app map forallb value_be].
      destruct (Z.ltb_spec v base); [|lia]. cbn [andb].
      replace (0 * base + v) with v by lia. rewrite Z.eqb_refl. reflexivity.
    - specialize (S2 Hl). specialize (L ltac:(lia)).
      destruct (digits_le fuel base v) as [|x0 l0] eqn:Ed using rev_ind; [cbn in S2; lia|]. clear IHl0.
      rewrite last_last in L. rewrite rev_app_distr. cbn [rev app map].
      rewrite app_length in S2. cbn [length] in S2.
      destruct (rev l0) as [|y r] eqn:Er.
      { apply (f_equal (@length Z)) in Er. rewrite rev_length in Er. cbn in Er. lia. }
      cbn [map].
      assert (Fa : forallb (fun d => d <? base) (x0 :: y :: r) = true).
      { apply forallb_forall. intros d Hd. apply Z.ltb_lt.
        rewrite Forall_forall in F. apply F. apply in_or_app. destruct Hd as [<-|Hd]; [right; left; reflexivity|].
        left. apply in_rev. rewrite Er. exact Hd. }
      rewrite Fa. cbn [andb].
      assert (Ev : value_be base (x0 :: y :: r) 0 = v).
      { rewrite <- Er. change (x0 :: rev l0) with ([x0] ++ rev l0). change [x0] with (rev [x0]). rewrite <- rev_app_distr.
        rewrite value_be_rev. exact E. }
      rewrite Ev, Z.eqb_refl. cbn [andb].
      apply negb_true_iff. apply Z.eqb_neq. intros Ec. fold (ch 0) in Ec.
      apply ch_inj0 in Ec; [lia|]. rewrite Forall_forall in F. apply F. apply in_or_app. right. left. reflexivity.
  Qed.
End Numerals.

Lemma alphabet_idx d : 0 <= d < 32 -> index_of (nth (Z.to_nat d) g_base32_alphabet 0) g_base32_alphabet 0 = Some d.
Proof.
  intros H.
  assert (S : forallb (fun d => match index_of (nth (Z.to_nat d) g_base32_alphabet 0) g_base32_alphabet 0 with Some x => x =? d | None => false end)
                      (map Z.of_nat (seq 0 32)) = true) by (vm_compute; reflexivity).
  rewrite forallb_forall in S. specialize (S d ltac:(apply in_map_iff; exists (Z.to_nat d); split; [lia|apply in_seq; lia])).
  destruct (index_of _ _ _); [apply Z.eqb_eq in S; congruence|discriminate].
Qed.
Lemma std_idx base d : base <= 36 -> 0 <= d < base -> index_of (nth (Z.to_nat d) std_digits 0) std_digits 0 = Some d.
Proof.
  intros Hb H.
  assert (S : forallb (fun d => match index_of (nth (Z.to_nat d) std_digits 0) std_digits 0 with Some x => x =? d | None => false end)
                      (map Z.of_nat (seq 0 36)) = true) by (vm_compute; reflexivity).
  rewrite forallb_forall in S. specialize (S d ltac:(apply in_map_iff; exists (Z.to_nat d); split; [lia|apply in_seq; lia])).
  destruct (index_of _ _ _); [apply Z.eqb_eq in S; congruence|discriminate].
Qed.

Lemma pow_bound_63 base fuel : 2 <= base -> (63 <= fuel)%nat -> 2 ^ 63 <= base ^ Z.of_nat (S fuel).
Proof.
  intros Hb Hf. eapply Z.le_trans; [|apply Z.pow_le_mono_l; split; [|exact Hb]; lia].
  apply Z.pow_le_mono_r; lia.
Qed.

(* Base32 text is the canonical base-32 numeral over the alphabet, and ParseBase32 reads it back *)
Theorem base32_numeral id : 0 <= id < 2 ^ 63 ->
  exists s, base32 id = Some s /\ numeral_ok g_base32_alphabet 32 s id = true /\ parse_base32 s = Some id.
Proof.
  intros H. unfold base32. destruct (Z.ltb_spec id 0); [lia|]. eexists. split; [reflexivity|].
  destruct radix_is_32 as [_ ->].
  assert (Hr : 0 <= id < 32 ^ Z.of_nat 14) by (split; [lia|]; assert (2 ^ 63 <= 32 ^ Z.of_nat 14) by (vm_compute; discriminate); lia).
  split.
  - apply (numeral_of_digits g_base32_alphabet 32 ltac:(lia) alphabet_idx 13 id Hr).
  - destruct (digits_value 32 ltac:(lia) 13 id Hr) as (E & F & _).
    assert (Hbytes : Forall is_byte (map alpha (rev (digits_le 13 32 id)))).
    { apply Forall_forall. intros c Hc. apply in_map_iff in Hc. destruct Hc as (d & <- & Hd).
      apply in_rev in Hd. rewrite Forall_forall in F. specialize (F d Hd).
      assert (S : forallb (fun d => (0 <=? alpha d) && (alpha d <? 256)) (map Z.of_nat (seq 0 32)) = true) by (vm_compute; reflexivity).
      rewrite forallb_forall in S. specialize (S d ltac:(apply in_map_iff; exists (Z.to_nat d); split; [lia|apply in_seq; lia])).
      unfold is_byte. lia. }
    rewrite parse_refines_spec by exact Hbytes. unfold spec_parse.
    change alpha with (fun d => nth (Z.to_nat d) g_base32_alphabet 0).
    rewrite (map_opt_ch g_base32_alphabet 32 alphabet_idx) by (apply Forall_rev; exact F).
    rewrite value_be_rev, E, wrap64_small by lia. reflexivity.
Qed.

Theorem format_int_numeral base v : 2 <= base <= 36 -> 0 <= v < 2 ^ 63 -> numeral_ok std_digits base (format_int base v) v = true.
Proof.
  intros Hb Hv. unfold format_int. change digit_char with (fun d => nth (Z.to_nat d) std_digits 0).
  assert (H2 : 2 <= base) by lia. assert (H36 : base <= 36) by lia.
  apply (numeral_of_digits std_digits base H2 (fun d => std_idx base d H36) 63 v).
  pose proof (pow_bound_63 base 63 H2 (le_n 63)). lia.
Qed.

(* ---- halves / list encoding used by the case level *)
Lemma halves_join x : of_halves (hi32 x) (lo32 x) = x.
Proof. unfold of_halves, hi32, lo32. rewrite (Z.div_mod x (2 ^ 32)) at 3 by (vm_compute; discriminate). lia. Qed.
Lemma get_put_list l r : get_list (put_list l ++ r) = (l, r).
Proof.
  unfold put_list, get_list. cbn [app]. rewrite Nat2Z.id.
  rewrite firstn_app, Nat.sub_diag, firstn_all. cbn [firstn]. rewrite app_nil_r.
  rewrite skipn_app, Nat.sub_diag, skipn_all. reflexivity.
Qed.
Lemma get_put_list_nil l : get_list (put_list l) = (l, []).
Proof. rewrite <- (app_nil_r (put_list l)). apply get_put_list. Qed.
Lemma list_eqb_refl l : list_eqb l l = true.
Proof. induction l as [|x t IH]; cbn [list_eqb]; [reflexivity|]. rewrite Z.eqb_refl, IH. reflexivity. Qed.

(* the model's output for the ID text forms satisfies the judge the check applies to the implementation's output *)
Theorem format_meets_spec id : 0 <= id < 2 ^ 63 -> ok_format id (m_format id) = true.
Proof.
  intros H. destruct (base32_numeral id H) as (s & Es & Ns & Ps).
  unfold m_format, ok_format. rewrite Es, Ps. destruct (Z.ltb_spec id 0); [lia|].
  rewrite get_put_list. cbn [parse_out put64 app firstn skipn].
  rewrite get_put_list, get_put_list, get_put_list_nil. rewrite Ns. unfold put64. rewrite list_eqb_refl.
  rewrite !format_int_numeral by lia. cbn [andb]. apply list_eqb_refl.
Qed.
Theorem parse_meets_spec s : Forall is_byte s -> list_eqb (m_parse s) (s_parse s) = true.
Proof. intros H. unfold m_parse, s_parse. rewrite parse_refines_spec by exact H. apply list_eqb_refl. Qed.
