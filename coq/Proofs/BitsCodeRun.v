(* C16 — the case interpreter run through the generated code (Run/C16Code.v) gives, for every case, the output of
   Run.C16.entry: the differential run of entry 0, kind 1 (setz.Bitmap), is a run of the code translated from the source. *)
From Coq Require Import List ZArith NArith Lia Bool Arith.
From V Require Import Lib.Enc Lib.GoSem Gen.BitsCode Model.Bits Run.C16 Run.C16Code Proofs.BitsCode.
Import ListNotations.
Local Open Scope Z_scope.

Definition st_ok (st : bits * bits) : Prop := words_ok (words (fst st)) /\ words_ok (words (snd st)).
Definition gst_of (st : bits * bits) : gbits * gbits := (g_of (fst st), g_of (snd st)).

Lemma g_of_eq b : g_of b = (of_model (words b), cached b).
Proof. reflexivity. Qed.
Lemma g_words_of w c : g_words (of_model w, c) = w.
Proof. apply ns_zs. Qed.
Lemma sel_gst t st : sel t (gst_of st) = g_of (sel t st).
Proof. destruct t, st; reflexivity. Qed.
Lemma upd2_gst t st b : upd2 t (gst_of st) (g_of b) = gst_of (upd2 t st b).
Proof. destruct t, st; reflexivity. Qed.
Lemma sel_ok t st : st_ok st -> words_ok (words (sel t st)).
Proof. intros [H1 H2]. destruct t; assumption. Qed.
Lemma upd2_ok t st b : st_ok st -> words_ok (words b) -> st_ok (upd2 t st b).
Proof. intros [H1 H2] Hb. destruct t; split; assumption. Qed.
Lemma g_fuel_of b : g_fuel (g_of b) = S (length (words b)).
Proof. unfold g_fuel, g_of. cbn [fst Bitmap_set]. rewrite map_length. reflexivity. Qed.

Lemma gstep_step st o : st_ok st ->
  gstep (gst_of st) o = Ret (gst_of (fst (step KBitmap st o)), snd (step KBitmap st o)) /\ st_ok (fst (step KBitmap st o)).
Proof.
  intros Hok. destruct o as [t n|t n|t n|t|t|t n|t|t k|t k|t|t|t|t]; cbn [gstep step];
    rewrite ?sel_gst; pose proof (sel_ok t st Hok) as Ht; pose proof (sel_ok (negb t) st Hok) as Hn;
    destruct (sel t st) as [w c] eqn:Es; destruct (sel (negb t) st) as [w' c'] eqn:En; cbn [words cached] in *;
    rewrite ?g_of_eq; cbn [fst snd words cached].
  - rewrite code_Add_N. unfold b_add. cbn [words cached]. pose proof (add_ok w n Ht). destruct (add w n) as [w2 ch]. cbn [fst snd bind] in *.
    rewrite <- upd2_gst. split; [reflexivity|apply upd2_ok; assumption].
  - rewrite code_Remove_N by assumption. unfold b_remove. cbn [words cached]. pose proof (remove_ok w n Ht). destruct (remove w n) as [w2 ch].
    cbn [fst snd bind] in *. rewrite <- upd2_gst. split; [reflexivity|apply upd2_ok; assumption].
  - rewrite code_Contains_N. cbn [bind fst snd]. split; [reflexivity|assumption].
  - unfold g_fuel. cbn [fst]. rewrite code_Len_N by (unfold of_model, zs; cbn [Bitmap_set]; rewrite map_length; lia).
    cbn [bind fst snd len_of words]. split; [reflexivity|assumption].
  - rewrite code_Cap_N. cbn [bind fst snd]. split; [reflexivity|assumption].
  - rewrite code_Grow_N. cbn [bind fst snd]. rewrite <- upd2_gst. split; [reflexivity|apply upd2_ok; [assumption|apply grow_ok, Ht]].
  - rewrite g_words_of. split; [reflexivity|assumption].
  - rewrite g_words_of. split; [reflexivity|assumption].
  - rewrite g_words_of. split; [reflexivity|assumption].
  - unfold g_fuel. cbn [fst]. rewrite code_Diff_N by (trivial; unfold of_model, zs; cbn [Bitmap_set]; rewrite map_length; lia).
    cbn [bind fst snd]. rewrite g_words_of, <- upd2_gst. split; [reflexivity|apply upd2_ok; [assumption|apply diff_ok, Ht]].
  - unfold g_fuel. cbn [fst]. rewrite code_Intersect_N by (trivial; unfold of_model, zs; cbn [Bitmap_set]; rewrite map_length; lia).
    cbn [bind fst snd]. rewrite g_words_of, <- upd2_gst. split; [reflexivity|apply upd2_ok; [assumption|apply inter_ok, Ht]].
  - unfold g_fuel. cbn [fst]. rewrite code_Merge_N by (trivial; unfold of_model, zs; cbn [Bitmap_set]; rewrite map_length; lia).
    cbn [bind fst snd]. rewrite g_words_of, <- upd2_gst. split; [reflexivity|apply upd2_ok; [assumption|apply merge_ok; assumption]].
  - rewrite code_Clone. cbn [bind fst snd]. change (of_model w, c) with (g_of {| words := w; cached := c |}). rewrite upd2_gst.
    split; [reflexivity|]. apply upd2_ok; [assumption|exact Ht].
Qed.

Lemma grun_run : forall ops st, st_ok st -> grun (gst_of st) ops = Ret (run KBitmap st ops).
Proof.
  induction ops as [|o r IH]; intros st Hok; cbn [grun run]; [reflexivity|].
  destruct (gstep_step st o Hok) as [E Hok']. rewrite E. destruct (step KBitmap st o) as [st' out]. cbn [fst snd bind] in *.
  rewrite (IH st' Hok'). reflexivity.
Qed.

(* what the check executes as `entry 0` on kind 1 IS the generated code *)
Theorem entry_code_is_entry : forall sub args, entry_code sub args = entry sub args.
Proof.
  intros sub args. unfold entry_code, entry. destruct args as [|k r]; [reflexivity|].
  destruct (k =? 1) eqn:Ek; cbn [andb]; [|reflexivity]. destruct (sub =? 0) eqn:Es; [|reflexivity].
  destruct (dec_ops (length r) r) as [ops|]; [|reflexivity].
  change (g_of empty, g_of empty) with (gst_of (empty, empty)). rewrite grun_run by (split; constructor).
  apply Z.eqb_eq in Ek. subst k. reflexivity.
Qed.

(* in-kernel anchor: the generated code computes (the case of Run/C16.v anchor1, as kind 1) *)
Example anchor1_code : entry_code 0 [1; 0;0;5; 0;0;5; 0;0;64; 3;0;0; 4;0;0; 6;0;0] = [1; 0; 1; 2; 128; 2; 5; 64].
Proof. vm_compute. reflexivity. Qed.
