(* C09: fillCred is EVP_BytesToKey(MD5, 1 round, 48 bytes); slices; hex round trip. *)
From Coq Require Import List ZArith Lia Bool Arith.
From V Require Import Lib.Enc Gen.Cryptz Model.Aes Model.Crypt Proofs.AesPkcs7 Proofs.AesCbc.
Import ListNotations.

Lemma slice_ok l a b : a <= b -> b <= length l -> slice l a b = Some (firstn (b - a) (skipn a l)).
Proof. intros H1 H2. unfold slice. destruct (Nat.leb_spec a b), (Nat.leb_spec b (length l)); try lia. reflexivity. Qed.
Lemma slice_len l a b s : slice l a b = Some s -> length s = b - a.
Proof.
  unfold slice. destruct (Nat.leb_spec a b), (Nat.leb_spec b (length l)); cbn [andb]; try discriminate.
  intros E. inversion E. rewrite firstn_length, skipn_length. lia.
Qed.
Lemma firstn_len_app (a b : bytes) n : length a = n -> firstn n (a ++ b) = a.
Proof. intros <-. rewrite firstn_app, Nat.sub_diag, firstn_all. cbn [firstn]. apply app_nil_r. Qed.
Lemma skipn_len_app (a b : bytes) n : length a = n -> skipn n (a ++ b) = b.
Proof. intros <-. rewrite skipn_app, Nat.sub_diag, skipn_all. reflexivity. Qed.
Lemma zeros_length n : length (zeros n) = n. Proof. apply repeat_length. Qed.
Lemma header_length : length header = 8. Proof. reflexivity. Qed.

Section Kdf.
Variable md5 : bytes -> bytes.
Hypothesis md5_len : forall m, length (md5 m) = 16.
Local Notation fill_cred := (fill_cred md5).
Local Notation evp := (evp md5).

(* one round: the digest lands at cred[i*16 : i*16+16] *)
Lemma cred_step (pre rest sum : bytes) i : length pre = i * 16 -> length sum = 16 -> 16 <= length rest ->
  firstn (i * 16) (pre ++ rest) ++ copy_into (skipn (i * 16) (pre ++ rest)) sum = (pre ++ sum) ++ skipn 16 rest.
Proof.
  intros Hp Hs Hr. rewrite firstn_len_app, skipn_len_app by exact Hp.
  rewrite copy_into_prefix by lia. rewrite Hs. rewrite app_assoc. reflexivity.
Qed.

(* the loop, round by round *)
Definition rd (i : nat) (prev secret salt : bytes) : bytes :=
  md5 (firstn (if i =? 0 then 0 else 16) prev ++ secret ++ salt).
Fixpoint digests (rounds i : nat) (prev secret salt : bytes) : bytes :=
  match rounds with O => [] | S r => rd i prev secret salt ++ digests r (S i) (rd i prev secret salt) secret salt end.

Lemma fill_loop_spec secret salt : forall rounds i prev pre rest, length pre = i * 16 -> length rest = rounds * 16 ->
  fill_loop md5 rounds i prev secret salt (pre ++ rest) = Ok (pre ++ digests rounds i prev secret salt).
Proof.
  induction rounds as [|r IH]; intros i prev pre rest Hp Hr.
  - destruct rest; [|cbn in Hr; lia]. reflexivity.
  - change (fill_loop md5 (S r) i prev secret salt (pre ++ rest)) with
      (if length (pre ++ rest) <? i * STEP then Panic else
       fill_loop md5 r (S i) (rd i prev secret salt) secret salt
         (firstn (i * STEP) (pre ++ rest) ++ copy_into (skipn (i * STEP) (pre ++ rest)) (rd i prev secret salt))).
    change STEP with 16. destruct (Nat.ltb_spec (length (pre ++ rest)) (i * 16)); [rewrite app_length in *; lia|].
    assert (Ld : length (rd i prev secret salt) = 16) by apply md5_len.
    rewrite cred_step by lia.
    rewrite IH by (rewrite ?app_length, ?skipn_length; lia).
    change (digests (S r) i prev secret salt) with (rd i prev secret salt ++ digests r (S i) (rd i prev secret salt) secret salt).
    rewrite <- app_assoc. reflexivity.
Qed.

Theorem fill_cred_evp secret salt : fill_cred secret salt = Ok (evp secret salt) /\ length (evp secret salt) = 48.
Proof.
  split.
  - unfold Crypt.fill_cred. change ROUNDS with 3. change CRED with 48.
    change (zeros 48) with ([] ++ zeros 48).
    rewrite fill_loop_spec by (rewrite ?zeros_length; reflexivity).
    cbn [app]. f_equal. unfold digests, rd. change (0 =? 0) with true. change (1 =? 0) with false. change (2 =? 0) with false.
    cbv iota. rewrite firstn_O. cbn [app].
    rewrite !(firstn_all2 (n := 16)) by (rewrite md5_len; lia).
    unfold Crypt.evp. rewrite app_nil_r. reflexivity.
  - unfold Crypt.evp. rewrite !app_length, !md5_len. reflexivity.
Qed.

Lemma fill_cred_ok secret salt : fill_cred secret salt = Ok (evp secret salt).
Proof. apply fill_cred_evp. Qed.
Lemma evp_len secret salt : length (evp secret salt) = 48.
Proof. apply fill_cred_evp. Qed.

Lemma key_iv_evp secret salt :
  key_iv (evp secret salt) = Ok (firstn 32 (evp secret salt), skipn 32 (evp secret salt)) /\
  length (firstn 32 (evp secret salt)) = 32 /\ length (skipn 32 (evp secret salt)) = 16.
Proof.
  pose proof (evp_len secret salt) as L. unfold key_iv. change KEYLEN with 32.
  rewrite (slice_ok _ 0 32), (slice_ok _ 32 (length (evp secret salt))) by lia.
  rewrite L. change (32 - 0) with 32. change (48 - 32) with 16. rewrite skipn_O.
  rewrite (firstn_all2 (n := 16) (skipn 32 _)) by (rewrite skipn_length; lia).
  repeat split; [rewrite firstn_length|rewrite skipn_length]; lia.
Qed.
Lemma key_nonce_evp secret salt :
  key_nonce (evp secret salt) = Ok (firstn 32 (evp secret salt), firstn 12 (skipn 32 (evp secret salt))) /\
  length (firstn 32 (evp secret salt)) = 32 /\ length (firstn 12 (skipn 32 (evp secret salt))) = 12.
Proof.
  pose proof (evp_len secret salt) as L. unfold key_nonce. change KEYLEN with 32. change NONCE with 12.
  rewrite (slice_ok _ 0 32), (slice_ok _ 32 (32 + 12)) by lia. change (32 - 0) with 32. change (32 + 12 - 32) with 12.
  rewrite skipn_O. repeat split; rewrite ?firstn_length, ?skipn_length; lia.
Qed.
End Kdf.

Lemma good_key_32 k : length k = 32 -> good_key k = true.
Proof. intros H. unfold good_key. rewrite H. reflexivity. Qed.

(* ---- hex *)
Lemma from_hex_digit d : (0 <= d < 16)%Z -> from_hex (hex_digit d) = Some d.
Proof.
  intros H. assert (C : (d = 0 \/ d = 1 \/ d = 2 \/ d = 3 \/ d = 4 \/ d = 5 \/ d = 6 \/ d = 7 \/ d = 8 \/ d = 9 \/ d = 10 \/
    d = 11 \/ d = 12 \/ d = 13 \/ d = 14 \/ d = 15)%Z) by lia.
  repeat (destruct C as [->|C]; [reflexivity|]). subst. reflexivity.
Qed.
Theorem hex_roundtrip x : Forall is_byte x -> hex_decode (hex_encode x) = Some x.
Proof.
  induction 1 as [|b t Hb Ht IH]; [reflexivity|]. unfold is_byte in Hb.
  cbn [hex_encode flat_map app]. fold (hex_encode t). cbn [hex_decode].
  rewrite !from_hex_digit by (try apply Z.mod_pos_bound; try split; try apply Z.div_pos; try apply Z.div_lt_upper_bound; lia).
  rewrite IH. f_equal. f_equal. pose proof (Z.div_mod b 16 ltac:(lia)). lia.
Qed.
