(* C13 — listz.SList: every method of the model against the sequence specification. *)
From Coq Require Import List ZArith Arith Lia Bool Permutation.
From V Require Import Model.DList Model.SList Proofs.DListChains Proofs.DListRel Proofs.DListStep Proofs.SListInv.
Import ListNotations.
Local Open Scope Z_scope.
Arguments Z.of_nat : simpl never.
Arguments Z.to_nat : simpl never.
Arguments Z.add : simpl never.
Arguments Z.sub : simpl never.

(* ---- allocation *)
Lemma RS_alloc s q v : RS s q ->
  snd (salloc1 s v) = fr s /\ snd (qalloc q v) = fr s /\ RS (fst (salloc1 s v)) (fst (qalloc q v)) /\
  ~ In (fr s) (sq q) /\ (2 <= fr s)%nat.
Proof.
  intros [HI Hv Hf]. pose proof (i_fr _ _ HI) as Hf2.
  assert (Hno : ~ In (fr s) (sq q)) by (intros Hin; pose proof (i_range _ _ HI _ Hin); lia).
  unfold salloc1, qalloc. cbn [fst snd]. split; [reflexivity|]. split; [symmetry; exact Hf|]. split; [|split; [exact Hno|exact Hf2]].
  constructor; cbn [sq qval qfresh nx sv hd tl ln fr].
  - constructor; cbn [nx sv hd tl ln fr].
    + eapply seg_frame; [|apply (i_seg _ _ HI)]. intros x Hx. apply fupd_ne. intros ->. contradiction.
    + apply (i_nodup _ _ HI).
    + apply (i_tl _ _ HI).
    + apply (i_ln _ _ HI).
    + intros x Hx. pose proof (i_range _ _ HI x Hx). lia.
    + intros x Hx. destruct (Nat.eq_dec x (fr s)) as [->|Hne]; [apply fupd_eq|]. rewrite fupd_ne by auto. apply (i_det _ _ HI x Hx).
    + lia.
  - intros x. rewrite <- Hf. unfold fupd. destruct (Nat.eqb x (fr s)); [reflexivity|apply Hv].
  - rewrite Hf. reflexivity.
Qed.

(* ---- PushFrontNode / PushBackNode / InsertNodeAt on a node that is not in the list *)
Lemma inv_push_front s ids e : Inv s ids -> ~ In e ids -> (2 <= e < fr s)%nat -> Inv (push_front_node s e) (e :: ids).
Proof.
  intros HI He Hr. unfold push_front_node, set_ln, set_tl, set_hd, set_nx. cbn [nx sv hd tl ln fr].
  pose proof (i_ln _ _ HI) as Hl.
  assert (Etl : tl (if ln s =? 0 then {| nx := fupd (nx s) e (hd s); sv := sv s; hd := Some e; tl := Some e; ln := ln s; fr := fr s |}
                    else {| nx := fupd (nx s) e (hd s); sv := sv s; hd := Some e; tl := tl s; ln := ln s; fr := fr s |}) = last_opt (e :: ids)).
  { destruct ids as [|a ids'].
    - rewrite Hl. cbn [length]. reflexivity.
    - rewrite Hl. cbn [length]. destruct (Z.eqb_spec (Z.of_nat (S (length ids'))) 0); [lia|]. cbn [tl].
      rewrite (i_tl _ _ HI). change (e :: a :: ids') with ([e] ++ a :: ids'). symmetry. apply last_opt_cons_app. }
  destruct (ln s =? 0); cbn [nx sv hd tl ln fr] in *.
  all: constructor; cbn [nx sv hd tl ln fr seg]; auto.
  all: try (split; [reflexivity|rewrite fupd_eq; eapply seg_frame; [|apply (i_seg _ _ HI)]; intros x Hx; apply fupd_ne; intros ->; contradiction]).
  all: try (constructor; [exact He|apply (i_nodup _ _ HI)]).
  all: try (rewrite Hl; cbn [length]; lia).
  all: try (intros x [<-|Hx]; [exact Hr|apply (i_range _ _ HI x Hx)]).
  all: try (intros x Hx; rewrite fupd_ne by (intros ->; apply Hx; left; reflexivity); apply (i_det _ _ HI); intros Hin; apply Hx; right; exact Hin).
  all: try apply (i_fr _ _ HI).
Qed.

Lemma inv_push_back s ids e : Inv s ids -> ~ In e ids -> (2 <= e < fr s)%nat ->
  exists s', push_back_node s e = Some s' /\ Inv s' (ids ++ [e]).
Proof.
  intros HI He Hr. unfold push_back_node. pose proof (i_ln _ _ HI) as Hl. pose proof (i_det _ _ HI e He) as Hd.
  destruct ids as [|a ids'].
  - rewrite Hl. cbn [length]. change (Z.of_nat 0 =? 0) with true. cbv iota. eexists. split; [reflexivity|].
    unfold set_ln, set_tl, set_hd. cbn [nx sv hd tl ln fr app].
    constructor; cbn [nx sv hd tl ln fr seg length]; auto.
    + constructor; [intros []|constructor].
    + rewrite Hl. reflexivity.
    + intros x [<-|[]]. exact Hr.
    + intros x Hx. apply (i_det _ _ HI). intros [].
    + apply (i_fr _ _ HI).
  - rewrite Hl. cbn [length]. destruct (Z.eqb_spec (Z.of_nat (S (length ids'))) 0); [lia|].
    rewrite (i_tl _ _ HI), (last_opt_some (a :: ids')) by discriminate. eexists. split; [reflexivity|].
    unfold set_ln, set_tl, set_nx. cbn [nx sv hd tl ln fr].
    destruct (@exists_last _ (a :: ids') ltac:(discriminate)) as (l' & z & E). rewrite E in *. rewrite last_last.
    assert (Hz : z <> e) by (intros ->; apply He; apply in_app_iff; right; left; auto).
    pose proof (i_nodup _ _ HI) as Hn. pose proof (i_seg _ _ HI) as Hs.
    constructor; cbn [nx sv hd tl ln fr].
    + apply seg_app in Hs. destruct Hs as (m & H1 & H2). cbn [seg] in H2. destruct H2 as [-> H2].
      rewrite <- app_assoc. cbn [app]. apply seg_app. exists (Some z). split.
      * apply (seg_frame (nx s)); auto. intros x Hx. apply fupd_ne. intros ->. apply NoDup_remove_2 in Hn. apply Hn. rewrite app_nil_r. auto.
      * cbn [seg]. split; auto. rewrite fupd_eq. split; auto. rewrite fupd_ne by auto. exact Hd.
    + eapply Permutation_NoDup; [apply Permutation_cons_append|]. constructor; auto.
    + symmetry. apply last_opt_app.
    + rewrite Hl. rewrite !app_length. cbn [length]. lia.
    + intros x Hx. apply in_app_iff in Hx. destruct Hx as [Hx|[<-|[]]]; [apply (i_range _ _ HI x Hx)|exact Hr].
    + intros x Hx. rewrite fupd_ne.
      * apply (i_det _ _ HI). intros Hin. apply Hx. apply in_app_iff. left. exact Hin.
      * intros ->. apply Hx. apply in_app_iff. left. apply in_app_iff. right. left. reflexivity.
    + apply (i_fr _ _ HI).
Qed.

Lemma inv_insert_mid s pre b post e : Inv s (pre ++ b :: post) -> post <> [] -> ~ In e (pre ++ b :: post) -> (2 <= e < fr s)%nat ->
  exists s', insert_node_at s (Z.of_nat (S (length pre))) e = Some s' /\ Inv s' (pre ++ b :: e :: post).
Proof.
  intros HI Hpost He Hr. unfold insert_node_at. pose proof (i_ln _ _ HI) as Hl. rewrite app_length in Hl. cbn [length] in Hl.
  destruct (Z.leb_spec (Z.of_nat (S (length pre))) 0); [lia|].
  assert (Hlp : (1 <= length post)%nat) by (destruct post; [congruence|cbn [length]; lia]).
  destruct (Z.leb_spec (ln s) (Z.of_nat (S (length pre)))); [lia|].
  replace (Z.to_nat (Z.of_nat (S (length pre)) - 1)) with (length pre) by lia.
  pose proof (i_seg _ _ HI) as Hs. apply seg_app in Hs. destruct Hs as (m & H1 & H2). cbn [seg] in H2. destruct H2 as [-> H2].
  rewrite (walkn_seg _ pre _ None (Some b) H1).
  eexists. split; [reflexivity|]. unfold set_ln, set_nx. cbn [nx sv hd tl ln fr].
  assert (Hbe : b <> e) by (intros ->; apply He; apply in_app_iff; right; left; auto).
  pose proof (i_nodup _ _ HI) as Hn.
  constructor; cbn [nx sv hd tl ln fr].
  - apply seg_app. exists (Some b). split.
    + apply (seg_frame (nx s)); auto. intros x Hx. rewrite fupd_ne. apply fupd_ne.
      * intros ->. apply He. apply in_app_iff. left; auto.
      * intros ->. apply NoDup_remove_2 in Hn. apply Hn. apply in_app_iff. left; auto.
    + cbn [seg]. split; auto. rewrite fupd_eq. split; auto. rewrite fupd_ne by auto. rewrite fupd_eq.
      apply (seg_frame (nx s)); auto. intros x Hx. rewrite fupd_ne. apply fupd_ne.
      * intros ->. apply He. apply in_app_iff. right; right; auto.
      * intros ->. apply NoDup_remove_2 in Hn. apply Hn. apply in_app_iff. right; auto.
  - assert (Hperm : Permutation (e :: pre ++ b :: post) (pre ++ b :: e :: post)).
    { change (pre ++ b :: e :: post) with (pre ++ [b] ++ e :: post). rewrite app_assoc.
      change (e :: pre ++ b :: post) with (e :: pre ++ [b] ++ post). rewrite (app_assoc pre [b] post). apply Permutation_middle. }
    eapply Permutation_NoDup; [exact Hperm|]. constructor; auto.
  - rewrite (i_tl _ _ HI). destruct post as [|p post]; [congruence|].
    rewrite last_opt_cons_app. change (b :: p :: post) with ([b] ++ p :: post). rewrite last_opt_cons_app.
    change (pre ++ b :: e :: p :: post) with (pre ++ [b; e] ++ p :: post). rewrite app_assoc, last_opt_cons_app. reflexivity.
  - rewrite (i_ln _ _ HI). rewrite !app_length. cbn [length]. lia.
  - intros x Hx. apply in_app_iff in Hx. destruct Hx as [Hx|[<-|[<-|Hx]]].
    + apply (i_range _ _ HI). apply in_app_iff. left; auto.
    + apply (i_range _ _ HI). apply in_app_iff. right; left; auto.
    + exact Hr.
    + apply (i_range _ _ HI). apply in_app_iff. right; right; auto.
  - intros x Hx. rewrite fupd_ne, fupd_ne.
    + apply (i_det _ _ HI). intros Hin. apply Hx. apply in_app_iff in Hin. apply in_app_iff. destruct Hin as [Hin|[<-|Hin]]; [left; auto|right; left; auto|right; right; right; auto].
    + intros ->. apply Hx. apply in_app_iff. right; right; left; auto.
    + intros ->. apply Hx. apply in_app_iff. right; left; auto.
  - apply (i_fr _ _ HI).
Qed.

(* ---- Remove(i) for an index in range *)
Lemma oeq_refl x : oeq (Some x) (Some x) = true.
Proof. cbn [oeq]. apply Nat.eqb_refl. Qed.
Lemma oeq_last pre e post : NoDup (pre ++ e :: post) ->
  oeq (Some e) (last_opt (pre ++ e :: post)) = match post with [] => true | _ => false end.
Proof.
  intros Hn. rewrite last_opt_cons_app. destruct post as [|q post'].
  - cbn [last_opt rev app]. apply oeq_refl.
  - change (e :: q :: post') with ([e] ++ q :: post'). rewrite last_opt_cons_app.
    rewrite (last_opt_some (q :: post')) by discriminate. cbn [oeq]. apply Nat.eqb_neq. intros E.
    apply NoDup_remove_2 in Hn. apply Hn. apply in_app_iff. right. rewrite E.
    destruct (@exists_last _ (q :: post') ltac:(discriminate)) as (l' & z & ->). rewrite last_last. apply in_app_iff. right; left; auto.
Qed.

Lemma inv_remove s pre e post : Inv s (pre ++ e :: post) ->
  exists s', remove_at s (Z.of_nat (length pre)) = Some (s', Some e) /\ Inv s' (pre ++ post) /\ sv s' = sv s /\ fr s' = fr s.
Proof.
  intros HI. pose proof (i_ln _ _ HI) as Hl. rewrite app_length in Hl. cbn [length] in Hl.
  pose proof (i_seg _ _ HI) as Hs. apply seg_app in Hs. destruct Hs as (m & H1 & H2). cbn [seg] in H2. destruct H2 as [-> H2].
  pose proof (i_nodup _ _ HI) as Hn. pose proof (i_tl _ _ HI) as Ht.
  unfold remove_at, within. destruct (Z.leb_spec 0 (Z.of_nat (length pre))); [|lia].
  destruct (Z.ltb_spec (Z.of_nat (length pre)) (ln s)); [|lia]. cbn [andb negb]. rewrite Nat2Z.id.
  rewrite (walkn_seg _ pre _ None (Some e) H1).
  apply NoDup_remove in Hn as Hn'. destruct Hn' as [Hn1 Hn2]. rewrite in_app_iff in Hn2.
  assert (Hpost : forall x, In x post -> x <> e) by (intros x Hx ->; tauto).
  assert (Hpre : forall x, In x pre -> x <> e) by (intros x Hx ->; tauto).
  pose proof (oeq_last pre e post Hn) as Hol.
  destruct pre as [|p0 pre0] eqn:Epre.
  - (* removing the head *)
    cbn [app] in *. cbn [seg] in H1. rewrite H1, oeq_refl.
    change (tl (set_hd s (nx s e))) with (tl s). rewrite Ht, Hol.
    eexists. split; [reflexivity|]. split; [|split; [destruct post; reflexivity|destruct post; reflexivity]].
    assert (Ec : forall t', Inv {| nx := fupd (nx s) e None; sv := sv s; hd := nx s e; tl := t'; ln := ln s - 1; fr := fr s |} post <-> t' = last_opt post).
    { intros t'. split; [intros Hi; apply (i_tl _ _ Hi)|]. intros ->.
      constructor; cbn [nx sv hd tl ln fr].
      + apply (seg_frame (nx s)); auto. intros x Hx. apply fupd_ne. auto.
      + auto.
      + reflexivity.
      + rewrite (i_ln _ _ HI). cbn [length]. lia.
      + intros x Hx. apply (i_range _ _ HI). right. exact Hx.
      + intros x Hx. destruct (Nat.eq_dec x e) as [->|Hne]; [apply fupd_eq|]. rewrite fupd_ne by auto.
        apply (i_det _ _ HI). intros [E|Hin]; [congruence|contradiction].
      + apply (i_fr _ _ HI). }
    destruct post as [|q post']; unfold set_ln, set_nx, set_tl, set_hd; cbn [nx sv hd tl ln fr]; apply Ec.
    + reflexivity.
    + rewrite Ht. change (e :: q :: post') with ([e] ++ q :: post'). apply last_opt_cons_app.
  - (* removing a later node: before = the last node of pre *)
    assert (Hhd : oeq (Some e) (hd s) = false).
    { cbn [seg] in H1. destruct H1 as [-> _]. cbn [oeq]. apply Nat.eqb_neq. intros <-. apply (Hpre e); auto; left; auto. }
    assert (Hne : p0 :: pre0 <> []) by discriminate. rewrite <- Epre in *. clear Epre.
    destruct (@exists_last _ pre Hne) as (pre' & b & Eb).
    assert (Hlast : last pre 0%nat = b) by (rewrite Eb; apply last_last).
    assert (Epm : match pre with [] => None | _ :: _ => Some (last pre 0%nat) end = Some b).
    { destruct pre; [congruence|]. rewrite Hlast. reflexivity. }
    rewrite ?Epm, ?Hlast, Hhd. rewrite Ht, Hol.
    assert (Hbe : b <> e) by (apply Hpre; rewrite Eb; apply in_app_iff; right; left; auto).
    eexists. split; [reflexivity|]. split; [|split; [destruct post; reflexivity|destruct post; reflexivity]].
    assert (Ec : forall t', Inv {| nx := fupd (fupd (nx s) b (nx s e)) e None; sv := sv s; hd := hd s; tl := t'; ln := ln s - 1; fr := fr s |} (pre ++ post)
                           <-> t' = last_opt (pre ++ post)).
    { intros t'. split; [intros Hi; apply (i_tl _ _ Hi)|]. intros ->.
      constructor; cbn [nx sv hd tl ln fr].
      + rewrite Eb in *. rewrite <- app_assoc in Hn1 |- *. cbn [app] in Hn1 |- *.
        apply seg_app in H1. destruct H1 as (m & H1 & H1'). cbn [seg] in H1'. destruct H1' as [-> H1'].
        apply seg_app. exists (Some b). split.
        * apply (seg_frame (nx s)); auto. intros x Hx. rewrite fupd_ne by (apply Hpre; apply in_app_iff; left; auto).
          apply fupd_ne. intros ->. apply NoDup_remove_2 in Hn1. apply Hn1. apply in_app_iff. left; auto.
        * cbn [seg]. split; auto. rewrite fupd_ne by auto. rewrite fupd_eq.
          apply (seg_frame (nx s)); auto. intros x Hx. rewrite fupd_ne by auto. apply fupd_ne. intros ->.
          apply NoDup_remove_2 in Hn1. apply Hn1. apply in_app_iff. right; auto.
      + auto.
      + reflexivity.
      + rewrite (i_ln _ _ HI). rewrite !app_length. cbn [length]. lia.
      + intros x Hx. apply (i_range _ _ HI). apply in_app_iff in Hx. apply in_app_iff. destruct Hx; [left|right; right]; auto.
      + intros x Hx. destruct (Nat.eq_dec x e) as [->|Hne']; [apply fupd_eq|]. rewrite fupd_ne by auto.
        assert (Hxb : x <> b) by (intros ->; apply Hx; apply in_app_iff; left; rewrite Eb; apply in_app_iff; right; left; auto).
        rewrite fupd_ne by auto.
        apply (i_det _ _ HI). intros Hin. apply Hx. apply in_app_iff in Hin. apply in_app_iff. destruct Hin as [Hin|[E|Hin]]; [left; auto|congruence|right; auto].
      + apply (i_fr _ _ HI). }
    destruct post as [|q post']; unfold set_ln, set_nx, set_tl, set_hd; cbn [nx sv hd tl ln fr]; apply Ec.
    + rewrite app_nil_r, Eb. symmetry. apply last_opt_app.
    + rewrite Ht. rewrite !last_opt_cons_app. change (e :: q :: post') with ([e] ++ q :: post'). apply last_opt_cons_app.
Qed.

(* ---- RemoveFront *)
Lemma inv_remove_front s x t : Inv s (x :: t) ->
  exists s', remove_front s = Some (s', Some x) /\ Inv s' t /\ sv s' = sv s /\ fr s' = fr s.
Proof.
  intros HI. pose proof (i_ln _ _ HI) as Hl. cbn [length] in Hl. pose proof (i_seg _ _ HI) as Hs. cbn [seg] in Hs. destruct Hs as [Hh Hs].
  pose proof (i_nodup _ _ HI) as Hn. inversion Hn as [|? ? Hx Hn']; subst.
  unfold remove_front. destruct (Z.eqb_spec (ln s) 0); [lia|]. rewrite Hh.
  unfold set_ln, set_tl, set_nx, set_hd. cbn [nx sv hd tl ln fr].
  eexists. split; [reflexivity|]. split; [|split; destruct (ln s =? 1); reflexivity].
  assert (Etl : tl (if ln s =? 1 then {| nx := fupd (nx s) x None; sv := sv s; hd := nx s x; tl := None; ln := ln s; fr := fr s |}
                    else {| nx := fupd (nx s) x None; sv := sv s; hd := nx s x; tl := tl s; ln := ln s; fr := fr s |}) = last_opt t).
  { destruct t as [|y t']; cbn [length] in Hl.
    - rewrite Hl. reflexivity.
    - destruct (Z.eqb_spec (ln s) 1); [lia|]. cbn [tl]. rewrite (i_tl _ _ HI). change (x :: y :: t') with ([x] ++ y :: t'). apply last_opt_cons_app. }
  destruct (ln s =? 1); cbn [nx sv hd tl ln fr] in *.
  all: constructor; cbn [nx sv hd tl ln fr]; auto.
  all: try (apply (seg_frame (nx s)); auto; intros y Hy; apply fupd_ne; intros ->; contradiction).
  all: try (rewrite Hl; lia).
  all: try (intros y Hy; apply (i_range _ _ HI); right; exact Hy).
  all: try (intros y Hy; destruct (Nat.eq_dec y x) as [->|Hne]; [apply fupd_eq|]; rewrite fupd_ne by auto; apply (i_det _ _ HI); intros [E|Hin]; [congruence|contradiction]).
  all: try apply (i_fr _ _ HI).
Qed.

(* ---- Get *)
Lemma get_spec s ids i : Inv s ids ->
  get s i = Some (if (0 <=? i) && (i <? Z.of_nat (length ids)) then nth_error ids (Z.to_nat i) else None).
Proof.
  intros HI. unfold get, within. rewrite (i_ln _ _ HI).
  destruct ((0 <=? i) && (i <? Z.of_nat (length ids))) eqn:Ew; [|reflexivity].
  apply andb_true_iff in Ew. destruct Ew as [E1 E2]. apply Z.leb_le in E1. apply Z.ltb_lt in E2.
  destruct (nth_error ids (Z.to_nat i)) as [e|] eqn:E; [|apply nth_error_None in E; lia].
  destruct (nth_error_split ids _ E) as (pre & post & E1' & E3).
  pose proof (i_seg _ _ HI) as Hs. rewrite E1' in Hs. apply seg_app in Hs. destruct Hs as (m & H1 & H2). cbn [seg] in H2. destruct H2 as [-> _].
  rewrite <- E3, (walkn_seg _ pre _ None (Some e) H1). reflexivity.
Qed.

(* ---- Swap: the search loop finds the i-th and the j-th node *)
Lemma swap_find_spec nxf ids (i j : nat) a b :
  nth_error ids i = Some a -> nth_error ids j = Some b -> i <> j ->
  forall d k pre rest m fuel e1 e2,
    ids = pre ++ rest -> length pre = k -> seg nxf m rest None -> (k + d = S (Nat.max i j))%nat -> (d < fuel)%nat ->
    e1 = (if (i <? k)%nat then Some a else None) -> e2 = (if (j <? k)%nat then Some b else None) ->
    swap_find fuel nxf (Z.of_nat k) (Z.of_nat i) (Z.of_nat j) m e1 e2 = Some (Some (a, b)).
Proof.
  intros Ha Hb Hij. induction d as [|d IH]; intros k pre rest m fuel e1 e2 Hids Hk Hseg Hd Hf He1 He2.
  - assert (i < k /\ j < k)%nat as [Hi Hj] by lia.
    apply Nat.ltb_lt in Hi, Hj. rewrite Hi in He1. rewrite Hj in He2. subst e1 e2.
    destruct fuel; reflexivity.
  - destruct fuel as [|f]; [lia|].
    assert (Hkm : (k <= Nat.max i j)%nat) by lia.
    assert (Hlen : (Nat.max i j < length ids)%nat).
    { apply Nat.max_lub_lt; apply nth_error_Some; congruence. }
    destruct rest as [|c rest'].
    { exfalso. rewrite Hids, app_nil_r in Hlen. lia. }
    cbn [seg] in Hseg. destruct Hseg as [-> Hseg'].
    assert (Hc : nth_error ids k = Some c).
    { rewrite Hids, nth_error_app2 by lia. replace (k - length pre)%nat with 0%nat by lia. reflexivity. }
    assert (Hstep : swap_find (S f) nxf (Z.of_nat k) (Z.of_nat i) (Z.of_nat j) (Some c) e1 e2 =
                    swap_find f nxf (Z.of_nat k + 1) (Z.of_nat i) (Z.of_nat j) (nxf c)
                      (if Z.of_nat k =? Z.of_nat i then Some c else e1)
                      (if Z.of_nat k =? Z.of_nat i then e2 else if Z.of_nat k =? Z.of_nat j then Some c else e2)).
    { cbn [swap_find]. subst e1 e2. destruct (i <? k)%nat eqn:Ei, (j <? k)%nat eqn:Ej; try reflexivity.
      apply Nat.ltb_lt in Ei, Ej. lia. }
    rewrite Hstep. replace (Z.of_nat k + 1) with (Z.of_nat (S k)) by lia.
    apply (IH (S k) (pre ++ [c]) rest'); auto.
    + rewrite <- app_assoc. exact Hids.
    + rewrite app_length. cbn [length]. lia.
    + lia.
    + lia.
    + subst e1. destruct (Z.eqb_spec (Z.of_nat k) (Z.of_nat i)) as [E|E].
      * assert (Ek : k = i) by lia. rewrite Ek in Hc. rewrite Hc in Ha. inversion Ha as [Eca].
        destruct (Nat.ltb_spec i (S k)); [reflexivity|lia].
      * destruct (Nat.ltb_spec i k), (Nat.ltb_spec i (S k)); try reflexivity; lia.
    + subst e2. destruct (Z.eqb_spec (Z.of_nat k) (Z.of_nat i)) as [E|E].
      * assert (Ek : k = i) by lia. destruct (Nat.ltb_spec j k), (Nat.ltb_spec j (S k)); try reflexivity; lia.
      * destruct (Z.eqb_spec (Z.of_nat k) (Z.of_nat j)) as [E2|E2].
        -- assert (Ek : k = j) by lia. rewrite Ek in Hc. rewrite Hc in Hb. inversion Hb as [Ecb].
           destruct (Nat.ltb_spec j k); [lia|]. destruct (Nat.ltb_spec j (S k)); [reflexivity|lia].
        -- destruct (Nat.ltb_spec j k), (Nat.ltb_spec j (S k)); try reflexivity; lia.
Qed.

Lemma inv_set_sv s ids a v : Inv s ids -> Inv (set_sv s a v) ids.
Proof. intros [H1 H2 H3 H4 H5 H6 H7]. constructor; auto. Qed.

(* ---- traversals *)
Lemma swalk_spec s ids : Inv s ids -> forall rest pre fuel acc, ids = pre ++ rest -> (length rest < fuel)%nat ->
  swalk fuel s (first_opt rest) acc = Some (rev acc ++ flat_map (fun x => [Z.of_nat x; sv s x]) rest).
Proof.
  intros HI. induction rest as [|x rest IH]; intros pre fuel acc Hq Hf.
  - destruct fuel; cbn [first_opt swalk flat_map]; rewrite app_nil_r; reflexivity.
  - destruct fuel as [|f]; [cbn [length] in Hf; lia|]. cbn [first_opt swalk].
    rewrite (seg_next s ids pre x rest HI Hq).
    rewrite (IH (pre ++ [x]) f); [|rewrite <- app_assoc; exact Hq|cbn [length] in Hf; lia].
    cbn [rev flat_map]. rewrite <- !app_assoc. reflexivity.
Qed.
Lemma swalk_all_spec s ids : Inv s ids -> forall rest pre fuel k acc, ids = pre ++ rest -> (length rest < fuel)%nat ->
  swalk_all fuel s (first_opt rest) k acc = Some (rev acc ++ take_all k (map (sv s) rest)).
Proof.
  intros HI. induction rest as [|x rest IH]; intros pre fuel k acc Hq Hf.
  - destruct fuel; cbn [first_opt swalk_all map]; destruct k; cbn [take_all firstn]; rewrite app_nil_r; reflexivity.
  - destruct fuel as [|f]; [cbn [length] in Hf; lia|]. cbn [first_opt swalk_all map].
    destruct (Nat.eqb_spec k 1) as [->|Hk].
    + cbn [take_all firstn rev]. reflexivity.
    + rewrite (seg_next s ids pre x rest HI Hq).
      rewrite (IH (pre ++ [x]) f); [|rewrite <- app_assoc; exact Hq|cbn [length] in Hf; lia].
      cbn [rev]. rewrite (take_all_cons k _ _ Hk). rewrite <- app_assoc. reflexivity.
Qed.
