(* C12: facts about the plain-map specification [sem] that every concurrent run reduces to. *)
From Coq Require Import List ZArith Lia Bool Arith.
From V Require Import Lib.Enc Gen.SafeKVSkel Model.SafeKV.
Import ListNotations.
Local Open Scope Z_scope.

Lemma get_put_same m k v : get (put m k v) k = Some v.
Proof.
  induction m as [|[a b] t IH]; cbn [put get]; [rewrite Z.eqb_refl; reflexivity|].
  destruct (Z.ltb_spec k a); [cbn [get]; rewrite Z.eqb_refl; reflexivity|].
  destruct (Z.eqb_spec k a); [cbn [get]; rewrite Z.eqb_refl; reflexivity|].
  cbn [get]. destruct (Z.eqb_spec a k); [congruence|exact IH].
Qed.
Lemma get_put_other m k v k' : k' <> k -> get (put m k v) k' = get m k'.
Proof.
  intros Hne. induction m as [|[a b] t IH]; cbn [put get].
  - destruct (Z.eqb_spec k k'); [congruence|reflexivity].
  - destruct (Z.ltb_spec k a).
    + cbn [get]. destruct (Z.eqb_spec k k'); [congruence|reflexivity].
    + destruct (Z.eqb_spec k a) as [->|Hka].
      * cbn [get]. destruct (Z.eqb_spec a k'); [congruence|reflexivity].
      * cbn [get]. destruct (Z.eqb_spec a k'); auto.
Qed.

Fixpoint run_calls (cs : list call) (m : map_) : map_ * list (list Z) :=
  match cs with
  | [] => (m, [])
  | c :: t => let '(m1, r) := sem c m in let '(m2, rs) := run_calls t m1 in (m2, r :: rs)
  end.

Lemma setnx_present : forall vs m k, has m k = true -> snd (run_calls (map (CSetNx k) vs) m) = repeat [0] (length vs).
Proof.
  induction vs as [|v t IH]; intros m k H; cbn [map run_calls snd length repeat]; [reflexivity|].
  cbn [sem]. rewrite H. specialize (IH m k H). destruct (run_calls (map (CSetNx k) t) m). cbn [snd] in *. f_equal. exact IH.
Qed.
(* exactly one of several SetNx calls on an absent key returns true: the one whose write section committed first *)
Theorem setnx_unique m k v vs : has m k = false ->
  snd (run_calls (map (CSetNx k) (v :: vs)) m) = [1] :: repeat [0] (length vs).
Proof.
  intros H. cbn [map run_calls sem]. rewrite H.
  assert (Hp : has (put m k v) k = true) by (unfold has; rewrite get_put_same; reflexivity).
  pose proof (setnx_present vs _ k Hp) as R0. destruct (run_calls (map (CSetNx k) vs) (put m k v)) as [m2 bs]. cbn [snd] in *. f_equal. exact R0.
Qed.
(* SetX never creates a key *)
Theorem setx_never_creates m k v k' : has (fst (sem (CSetX k v) m)) k' = true -> has m k' = true.
Proof.
  cbn [sem]. destruct (has m k) eqn:E0; cbn [fst]; auto. unfold has in *.
  destruct (Z.eq_dec k' k) as [->|Hne]; [intros _; exact E0|]. rewrite get_put_other by auto. auto.
Qed.
(* ... and reports whether it wrote; SetNx likewise *)
Theorem setx_result m k v : snd (sem (CSetX k v) m) = [zb (has m k)] /\ (has m k = false -> fst (sem (CSetX k v) m) = m).
Proof. cbn [sem]. destruct (has m k); cbn; split; auto; intros; congruence. Qed.
Theorem setnx_result m k v : snd (sem (CSetNx k v) m) = [zb (negb (has m k))] /\ (has m k = true -> fst (sem (CSetNx k v) m) = m).
Proof. cbn [sem]. destruct (has m k); cbn; split; auto; intros; congruence. Qed.
