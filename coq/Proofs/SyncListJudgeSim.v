(* C11, refinement of the history judge: the simulation relation between a configuration of the step model together
   with the run-level thread records, and the judge's state; generic preservation lemmas. *)
From Coq Require Import List ZArith Lia Bool Arith.
Import ListNotations.
From V Require Import Lib.Enc Model.SyncListConc Proofs.SyncListConc Proofs.SyncListTop Run.C11 Proofs.SyncListJudgeBase.
Local Open Scope Z_scope.
Arguments Z.add : simpl never.
Arguments Z.sub : simpl never.
Arguments Z.of_nat : simpl never.

(* results recorded so far agree with the finished records *)
Definition done_ok (dn : list oprec) (rs : list Z) : Prop := check_results (rev dn) (rev rs) = true.

(* the PopWait bookkeeping of the run (r_wait, r_left) and of the judge (o_wait, o_left) while an attempt is running ... *)
Definition wait_run (rt : rthread) (r : oprec) : Prop :=
  o_wait r = negb (r_wait rt =? 0) /\ (r_wait rt <> 0 -> o_left r = r_left rt /\ -1 <= r_left rt).
(* ... and between two attempts: the judge decrements at the next start marker, the run has decremented at the return *)
Definition wait_idle (rt : rthread) (r : oprec) : Prop :=
  o_kind r = 2 /\ o_lp r = false /\ o_wait r = true /\
  ((r_left rt = -1 /\ o_left r = -1) \/ (0 <= r_left rt /\ o_left r = r_left rt + 1)).

(* in-flight record of the judge vs. program counter of the model; hd = current head *)
Definition opsim (hd : nat) (p : pc) (rt : rthread) (r : oprec) : Prop :=
  match p with
  | Idle => wait_idle rt r
  | PushLoadTail v | PushLoadNext v _ | PushCas v _ _ | PushAdd _ v | PushStoreTail _ v | PushYield v =>
      o_kind r = 1 /\ o_val r = v /\ o_lp r = false /\ r_wait rt = 0
  | PopLoadHead => o_kind r = 2 /\ o_lp r = false /\ wait_run rt r
  | PopLoadTail h | PopLoadNext h | PopCas h _ =>
      o_kind r = 2 /\ o_lp r = false /\ wait_run rt r /\ (h <> hd -> o_excuse r = true)
  | PopRead _ gv | PopClear _ gv _ | PopDec _ gv _ => o_kind r = 2 /\ o_lp r = true /\ o_got r = gv
  | LenLoad => o_kind r = 3 /\ r_wait rt = 0
  end.

(* a record whose operation is over: the next [tid; 0] of its thread is a fresh start *)
Definition cur_complete (r : oprec) : Prop :=
  (o_kind r =? 1) && negb (o_lp r) = false /\ o_wait r && negb (o_lp r) && negb (o_left r =? 0) = false.

Definition settled (p : pc) (rt : rthread) : bool := pc_idle p && (r_wait rt =? 0).

Definition tsim (hd : nat) (prog : list Z) (p : pc) (rt : rthread) (t : tstate) : Prop :=
  r_prog rt = skipn (t_next t) prog /\
  (r_yield rt = true -> pc_idle p = true /\ r_wait rt <> 0) /\
  (if settled p rt then
     match t_cur t with
     | None => done_ok (t_done t) (r_res rt)
     | Some r => cur_complete r /\ exists e rs, r_res rt = rev e ++ rs /\ done_ok (t_done t) rs /\ chk1 r e = true
     end
   else exists r, t_cur t = Some r /\ done_ok (t_done t) (r_res rt) /\ opsim hd p rt r).

Definition TS (hd : nat) (progs : list (list Z)) (ps : list pc) (rts : list rthread) (jts : list tstate) : Prop :=
  forall i p rt t, nth_error ps i = Some p -> nth_error rts i = Some rt -> nth_error jts i = Some t ->
    tsim hd (nth i progs []) p rt t.

(* two records in flight at the same time are both excused *)
Definition Einv (l : list tstate) : Prop :=
  forall i j ti tj ri, i <> j -> nth_error l i = Some ti -> nth_error l j = Some tj ->
    t_cur ti = Some ri -> in_flight tj = true -> o_excuse ri = true.
(* the record of the moved thread continues an earlier one *)
Definition Econt (t t' : tstate) : Prop :=
  forall r', t_cur t' = Some r' -> exists r, t_cur t = Some r /\ (o_excuse r = true -> o_excuse r' = true).

Record SIM (progs : list (list Z)) (c : config) (rts : list rthread) (js : jstate) : Prop := {
  s_inv : Inv c;
  s_q : j_q js = q (sh c);
  s_ok : j_ok js = true;
  s_len1 : length rts = length (ths c);
  s_len2 : length (j_ths js) = length (ths c);
  s_t : TS (head (sh c)) progs (ths c) rts (j_ths js);
  s_e : Einv (j_ths js)
}.

(* ---- monotonicity ---- *)
Lemma opsim_le hd p rt r r' : rec_le r r' -> opsim hd p rt r -> opsim hd p rt r'.
Proof.
  unfold rec_le. intros (A1&A2&A3&A4&A5&A6&A7&A8).
  destruct p; cbn [opsim]; unfold wait_idle, wait_run; rewrite ?A1, ?A2, ?A3, ?A4, ?A5, ?A6, ?A7; try tauto.
Qed.
Lemma cur_complete_le r r' : rec_le r r' -> cur_complete r -> cur_complete r'.
Proof. unfold rec_le, cur_complete. intros (A1&A2&A3&A4&A5&A6&A7&A8). rewrite A1, A3, A6, A7. tauto. Qed.
Lemma tsim_le hd prog p rt t t' : t_le t t' -> tsim hd prog p rt t -> tsim hd prog p rt t'.
Proof.
  unfold t_le, tsim. intros (B1&B2&B3) (H1&H2&H3). rewrite B1, B2. split; [exact H1|]. split; [exact H2|].
  destruct (settled p rt).
  - destruct (t_cur t) as [r|], (t_cur t') as [r'|]; try tauto.
    destruct H3 as (C1 & e & rs & C2 & C3 & C4). split; [eapply cur_complete_le; eauto|].
    exists e, rs. repeat split; auto. eapply chk1_le; eauto.
  - destruct H3 as (r & C1 & C2 & C3). rewrite C1 in B3. destruct (t_cur t') as [r'|]; [|tauto].
    exists r'. repeat split; auto. eapply opsim_le; eauto.
Qed.
Lemma opsim_head hd hd' p rt r : (hd' = hd \/ o_excuse r = true) -> opsim hd p rt r -> opsim hd' p rt r.
Proof. intros [->|E]; [auto|]. destruct p; cbn [opsim]; tauto. Qed.
Lemma tsim_head hd hd' prog p rt t : (hd' = hd \/ forall r, t_cur t = Some r -> o_excuse r = true) ->
  tsim hd prog p rt t -> tsim hd' prog p rt t.
Proof.
  intros Hh (H1&H2&H3). split; [exact H1|]. split; [exact H2|].
  destruct (settled p rt); [exact H3|]. destruct H3 as (r & C1 & C2 & C3). exists r. repeat split; auto.
  eapply opsim_head; [|exact C3]. destruct Hh as [->|Hh]; auto.
Qed.

(* ---- lists ---- *)
Lemma nth_error_map_inv {A B} (f : A -> B) l i y : nth_error (map f l) i = Some y -> exists x, nth_error l i = Some x /\ y = f x.
Proof.
  revert i; induction l as [|a l IH]; intros [|i] H; cbn [map nth_error] in H; try discriminate.
  - inversion H. exists a. split; reflexivity.
  - apply IH. exact H.
Qed.
Lemma nth_error_upd_inv {A} (l : list A) i j x y :
  nth_error (upd l i x) j = Some y -> (j = i /\ y = x) \/ (j <> i /\ nth_error l j = Some y).
Proof. apply nth_error_upd_cases. Qed.

Lemma Einv_frame l i t t' f : Einv l -> nth_error l i = Some t -> Econt t t' -> exc_only f -> Einv (map f (upd l i t')).
Proof.
  intros HE Hi HC Hf a b ta tb ra Hab Ha Hb Hra Hfb.
  apply nth_error_map_inv in Ha as (ta0 & Ha & ->). apply nth_error_map_inv in Hb as (tb0 & Hb & ->).
  pose proof (Hf ta0) as La. pose proof (Hf tb0) as Lb. rewrite (t_le_in_flight _ _ Lb) in Hfb.
  destruct La as (_ & _ & La). rewrite Hra in La. destruct (t_cur ta0) as [ra0|] eqn:Era0; [|tauto].
  destruct La as (_&_&_&_&_&_&_&La). apply La. clear La.
  apply nth_error_upd_inv in Ha. apply nth_error_upd_inv in Hb.
  destruct Ha as [[-> ->]|[Hai Ha]]; destruct Hb as [[-> ->]|[Hbi Hb]]; try lia.
  - destruct (HC _ Era0) as (r & Hr & Himp). apply Himp. eapply (HE i b); eauto.
  - eapply (HE a i); eauto. unfold in_flight in *. destruct (t_cur t') as [r'|] eqn:E'; [|discriminate].
    destruct (HC _ E') as (r & Hr & _). rewrite Hr. reflexivity.
  - eapply (HE a b); eauto.
Qed.
Lemma Einv_all_excused l : (forall i t r, nth_error l i = Some t -> t_cur t = Some r -> o_excuse r = true) -> Einv l.
Proof. intros H i j ti tj ri _ Hi _ Hr _. eapply H; eauto. Qed.
Lemma Einv_map l f : exc_only f -> Einv l -> Einv (map f l).
Proof.
  intros Hf HE a b ta tb ra Hab Ha Hb Hra Hfb.
  apply nth_error_map_inv in Ha as (ta0 & Ha & ->). apply nth_error_map_inv in Hb as (tb0 & Hb & ->).
  pose proof (Hf ta0) as La. pose proof (Hf tb0) as Lb. rewrite (t_le_in_flight _ _ Lb) in Hfb.
  destruct La as (_ & _ & La). rewrite Hra in La. destruct (t_cur ta0) as [ra0|] eqn:Era0; [|tauto].
  destruct La as (_&_&_&_&_&_&_&La). apply La. eapply (HE a b); eauto.
Qed.
Lemma Einv_single l i : (forall j tj, j <> i -> nth_error l j = Some tj -> in_flight tj = false) -> Einv l.
Proof.
  intros H a b ta tb ra Hab Ha Hb Hra Hfb.
  destruct (Nat.eq_dec b i) as [->|Hb'].
  - assert (in_flight ta = false) by (eapply H; eauto). unfold in_flight in *. rewrite Hra in *. discriminate.
  - rewrite (H _ _ Hb' Hb) in Hfb. discriminate.
Qed.

(* ---- the frame lemma: thread i moves, the judge updates its record and then applies an excuse-only map ---- *)
Lemma sim_frame progs c rts js i p rt t s' p' h' rt' t' f js' :
  SIM progs c rts js ->
  nth_error (ths c) i = Some p -> nth_error rts i = Some rt -> nth_error (j_ths js) i = Some t ->
  Inv {| sh := s'; ths := upd (ths c) i p'; hist := h' |} ->
  exc_only f ->
  j_q js' = q s' -> j_ok js' = true -> j_ths js' = map f (upd (j_ths js) i t') ->
  tsim (head s') (nth i progs []) p' rt' (f t') ->
  (head s' = head (sh c) \/ in_flight t = true) ->
  Einv (map f (upd (j_ths js) i t')) ->
  SIM progs {| sh := s'; ths := upd (ths c) i p'; hist := h' |} (upd rts i rt') js'.
Proof.
  intros [HI Hq Hok Hl1 Hl2 HT HE] Hp Hrt Ht HI' Hf Hq' Hok' Hths Hts Hhd HE'.
  constructor; cbn [sh ths hist]; auto.
  - rewrite !upd_length. exact Hl1.
  - rewrite Hths, map_length, !upd_length. exact Hl2.
  - rewrite Hths. intros j pj rtj tj Hpj Hrtj Htj.
    apply nth_error_map_inv in Htj as (tj0 & Htj & ->).
    apply nth_error_upd_inv in Hpj. apply nth_error_upd_inv in Hrtj. apply nth_error_upd_inv in Htj.
    destruct Hpj as [[-> ->]|[Hji Hpj]]; destruct Hrtj as [[? ->]|[? Hrtj]]; destruct Htj as [[? ->]|[? Htj]]; try lia.
    + exact Hts.
    + apply (tsim_le _ _ _ _ tj0); [apply Hf|]. eapply tsim_head; [|eapply HT; eauto].
      destruct Hhd as [Hhd|Hfl]; [left; exact Hhd|]. right. intros r Hr. eapply (HE j i); eauto.
  - rewrite Hths. exact HE'.
Qed.

(* nothing moves in the model, the judge applies an excuse-only map *)
Lemma sim_map progs c rts js f js' :
  SIM progs c rts js -> exc_only f -> j_q js' = j_q js -> j_ok js' = j_ok js -> j_ths js' = map f (j_ths js) ->
  SIM progs c rts js'.
Proof.
  intros [HI Hq Hok Hl1 Hl2 HT HE] Hf Hq' Hok' Hths. constructor; auto; try congruence.
  - rewrite Hths, map_length. exact Hl2.
  - rewrite Hths. intros j pj rtj tj Hpj Hrtj Htj. apply nth_error_map_inv in Htj as (tj0 & Htj & ->).
    apply (tsim_le _ _ _ _ tj0); [apply Hf|]. eapply HT; eauto.
  - rewrite Hths. apply Einv_map; auto.
Qed.
