(* C13 — doubly linked rings at pointer level (from design-notes/proto/DList_heap_proto.v, stated on the two stores
   next / prev):  links nx pv a l b = the chain a -> l -> b with consistent prev pointers; cyc = a closed chain.
   Rotation invariance makes "insert after at" always "append to the rotation that ends in at", so the sentinel
   needs no case split.  insert_end / remove_end are the code's pointer writes. *)
From Coq Require Import List Arith Lia Bool.
From V Require Import Model.DList.
Import ListNotations.

Lemma fupd_eq {A} (f : nat -> A) i x : fupd f i x i = x.
Proof. unfold fupd. rewrite Nat.eqb_refl. reflexivity. Qed.
Lemma fupd_ne {A} (f : nat -> A) i j x : j <> i -> fupd f i x j = f j.
Proof. unfold fupd. intros H. destruct (Nat.eqb_spec j i); [contradiction|reflexivity]. Qed.

Section Chains.
Variables nx pv : nat -> option nat.

Fixpoint links (a : nat) (l : list nat) (b : nat) : Prop :=
  match l with
  | [] => nx a = Some b /\ pv b = Some a
  | x :: t => nx a = Some x /\ pv x = Some a /\ links x t b
  end.
Definition cyc (l : list nat) : Prop := match l with [] => True | x :: t => links x t x end.

Lemma links_app a L1 m L2 b : links a (L1 ++ m :: L2) b <-> links a L1 m /\ links m L2 b.
Proof.
  revert a; induction L1 as [|x L1 IH]; intros a; cbn [app links].
  - tauto.
  - rewrite IH. tauto.
Qed.

Lemma cyc_rot A y B x : cyc (x :: A ++ y :: B) <-> cyc (y :: B ++ x :: A).
Proof. cbn [cyc]. rewrite !links_app. tauto. Qed.

(* general rotation *)
Lemma cyc_swap X Y : cyc (X ++ Y) <-> cyc (Y ++ X).
Proof.
  destruct X as [|x A]; [rewrite app_nil_r; tauto|]. destruct Y as [|y B]; [rewrite app_nil_r; tauto|].
  cbn [app]. apply cyc_rot.
Qed.

(* the first / last pointers of a chain *)
Lemma links_first a l b : links a l b -> nx a = Some (hd b l).
Proof. destruct l; cbn [links hd]; tauto. Qed.
Lemma last_default {A} (l : list A) d d' : l <> [] -> last l d = last l d'.
Proof. induction l as [|x [|y t] IH]; intros H; [congruence|reflexivity|]. cbn [last] in *. apply IH. discriminate. Qed.
Lemma links_last : forall l a b, links a l b -> pv b = Some (last l a).
Proof.
  induction l as [|x l IH]; intros a b; cbn [links].
  - cbn [last]. tauto.
  - intros (_ & _ & H). rewrite (IH x b H). destruct l as [|y t]; [reflexivity|].
    f_equal. change (last (x :: y :: t) a) with (last (y :: t) a). apply last_default. discriminate.
Qed.
End Chains.

(* a chain only looks at next of its sources and prev of its targets *)
Lemma links_frame nx pv nx' pv' a l b :
  (forall x, x = a \/ In x l -> nx' x = nx x) ->
  (forall x, x = b \/ In x l -> pv' x = pv x) ->
  links nx pv a l b -> links nx' pv' a l b.
Proof.
  revert a; induction l as [|x t IH]; intros a Hn Hp; cbn [links].
  - intros [H1 H2]. rewrite Hn, Hp by auto. auto.
  - intros (H1 & H2 & H3). rewrite Hn by auto. rewrite Hp by (right; left; reflexivity). repeat split; auto.
    apply IH; auto.
    + intros y [->|Hy]; apply Hn; right; [left; reflexivity|right; exact Hy].
    + intros y [->|Hy]; apply Hp; [left; reflexivity|right; right; exact Hy].
Qed.

Lemma links_ext nx pv nx' pv' a l b :
  (forall x, nx' x = nx x) -> (forall x, pv' x = pv x) -> links nx pv a l b -> links nx' pv' a l b.
Proof. intros H1 H2. apply links_frame; intros; auto. Qed.

(* ---- the pointer writes of insert(e, at) with nx0 = at.next; of remove(e) with p = e.prev, n = e.next *)
Definition ins_nx (nx : nat -> option nat) (e at_ nx0 : nat) := fupd (fupd nx e (Some nx0)) at_ (Some e).
Definition ins_pv (pv : nat -> option nat) (e at_ nx0 : nat) := fupd (fupd pv e (Some at_)) nx0 (Some e).
Definition rem_nx (nx : nat -> option nat) (e p n : nat) := fupd (fupd nx p (Some n)) e None.
Definition rem_pv (pv : nat -> option nat) (e p n : nat) := fupd (fupd pv n (Some p)) e None.

(* insert: with the ring rotated so that at_ is last, e is appended *)
Lemma insert_end nx pv M at_ e :
  cyc nx pv (M ++ [at_]) -> NoDup (M ++ [at_]) -> ~ In e (M ++ [at_]) ->
  nx at_ = Some (hd at_ M) /\
  cyc (ins_nx nx e at_ (hd at_ M)) (ins_pv pv e at_ (hd at_ M)) ((M ++ [at_]) ++ [e]).
Proof.
  intros Hc Hnd He. unfold ins_nx, ins_pv.
  assert (Hx : nx at_ = Some (hd at_ M)).
  { destruct M as [|x M']; cbn [app cyc links hd] in *; [tauto|].
    apply links_app in Hc. destruct Hc as [_ Hc]. cbn [links] in Hc. tauto. }
  split; [exact Hx|].
  assert (Hea : e <> at_) by (intros ->; apply He; apply in_app_iff; right; left; reflexivity).
  destruct M as [|m M']; cbn [app hd] in *.
  - cbn [cyc links]. rewrite fupd_eq, fupd_eq.
    rewrite (fupd_ne _ at_ e) by auto. rewrite fupd_eq. rewrite (fupd_ne _ _ _ _ Hea), fupd_eq. auto.
  - cbn [cyc] in *. rewrite <- app_assoc. cbn [app]. apply links_app.
    apply links_app in Hc. destruct Hc as [Hc1 Hc2]. cbn [links] in Hc2.
    assert (Hem : e <> m) by (intros ->; apply He; left; reflexivity).
    assert (Hma : m <> at_) by (inversion Hnd as [|? ? Hnin _]; subst; intros ->; apply Hnin; apply in_app_iff; right; left; reflexivity).
    split.
    + eapply links_frame; [| |exact Hc1].
      * intros y Hy. assert (y <> at_ /\ y <> e).
        { split; intros ->.
          - destruct Hy as [E|Hy]; [congruence|]. inversion Hnd as [|? ? _ Hnd']; subst.
            apply NoDup_remove_2 in Hnd'. apply Hnd'. rewrite app_nil_r. exact Hy.
          - apply He. destruct Hy as [->|Hy]; [left; reflexivity|right; apply in_app_iff; left; exact Hy]. }
        rewrite fupd_ne by tauto. rewrite fupd_ne by tauto. reflexivity.
      * intros y Hy. assert (y <> m /\ y <> e).
        { split; intros ->.
          - destruct Hy as [E|Hy]; [congruence|]. inversion Hnd as [|? ? Hnin _]; subst. apply Hnin. apply in_app_iff. left; exact Hy.
          - apply He. destruct Hy as [->|Hy]; [right; apply in_app_iff; right; left; reflexivity|right; apply in_app_iff; left; exact Hy]. }
        rewrite fupd_ne by tauto. rewrite fupd_ne by tauto. reflexivity.
    + cbn [links]. rewrite fupd_eq. rewrite (fupd_ne _ m e) by auto. rewrite fupd_eq.
      rewrite (fupd_ne _ at_ e) by auto. rewrite fupd_eq. rewrite fupd_eq. auto.
Qed.

Lemma nodup_last {A} (l : list A) z : NoDup (l ++ [z]) -> NoDup l /\ forall y, In y l -> y <> z.
Proof.
  intros H. split.
  - apply NoDup_remove_1 in H. rewrite app_nil_r in H. exact H.
  - intros y Hy ->. apply NoDup_remove_2 in H. apply H. rewrite app_nil_r. exact Hy.
Qed.

(* remove: with the ring rotated so that e is last *)
Lemma remove_end nx pv M p e :
  cyc nx pv ((M ++ [p]) ++ [e]) -> NoDup ((M ++ [p]) ++ [e]) ->
  pv e = Some p /\ nx e = Some (hd p M) /\
  cyc (rem_nx nx e p (hd p M)) (rem_pv pv e p (hd p M)) (M ++ [p]).
Proof.
  intros Hc Hnd. unfold rem_nx, rem_pv.
  destruct (nodup_last _ _ Hnd) as [Hnd1 N1]. destruct (nodup_last _ _ Hnd1) as [Hnd2 N2].
  assert (Hep : e <> p) by (intros ->; apply (N1 p); [apply in_app_iff; right; left|]; reflexivity).
  destruct M as [|m M']; cbn [app hd] in *.
  - cbn [cyc links] in Hc. destruct Hc as (H1 & H2 & H3 & H4). split; [exact H2|]. split; [exact H3|].
    cbn [cyc links].
    rewrite (fupd_ne _ e p) by auto. rewrite fupd_eq. rewrite (fupd_ne _ e p) by auto. rewrite fupd_eq. auto.
  - cbn [cyc] in Hc. rewrite <- app_assoc in Hc. cbn [app] in Hc. apply links_app in Hc. destruct Hc as [Hc1 Hc2].
    cbn [links] in Hc2. destruct Hc2 as (H1 & H2 & H3 & H4). split; [exact H2|]. split; [exact H3|].
    assert (Hem : e <> m) by (intros ->; apply (N1 m); [left|]; reflexivity).
    assert (Hmp : m <> p) by (apply N2; left; reflexivity).
    assert (N3 : forall y, In y (M' ++ [p]) -> y <> m) by (inversion Hnd1 as [|? ? Hnin _]; subst; intros y Hy ->; contradiction).
    cbn [cyc]. apply links_app. split.
    + eapply links_frame; [| |exact Hc1].
      * intros y Hy.
        assert (y <> e) by (apply N1; destruct Hy as [->|Hy]; [left; reflexivity|right; apply in_app_iff; left; exact Hy]).
        assert (y <> p) by (apply N2; destruct Hy as [->|Hy]; [left; reflexivity|right; exact Hy]).
        rewrite fupd_ne by auto. rewrite fupd_ne by auto. reflexivity.
      * intros y Hy.
        assert (y <> e) by (apply N1; destruct Hy as [->|Hy]; [right; apply in_app_iff; right; left; reflexivity|right; apply in_app_iff; left; exact Hy]).
        assert (y <> m) by (apply N3; destruct Hy as [->|Hy]; [apply in_app_iff; right; left; reflexivity|apply in_app_iff; left; exact Hy]).
        rewrite fupd_ne by auto. rewrite fupd_ne by auto. reflexivity.
    + cbn [links].
      rewrite (fupd_ne _ e p) by auto. rewrite fupd_eq. rewrite (fupd_ne _ e m) by auto. rewrite fupd_eq. auto.
Qed.
