(* C15, grammar part 3: success of ParseUint as an INDUCTIVE grammar in the style of the Go specification's EBNF
   (Model/StrconvGrammar.v: sep_digits = digits { ["_"] digits }, go_literal = explicit-base | decimal | 0-octal |
   0b/0o/0x prefix [ "_" ] digits):  parse_uint s base bitSize = POk v  iff  the bit size is 0..64 and s is a literal
   (under the base argument) whose positional value is v and fits. *)
From Coq Require Import List ZArith Lia Bool.
From V Require Import Model.Strconv Model.StrconvGrammar Proofs.StrconvGrammarUs Proofs.StrconvGrammarLit.
Import ListNotations.
Local Open Scope Z_scope.
Arguments Z.mul : simpl never.
Arguments Z.add : simpl never.
Arguments Z.sub : simpl never.
Arguments Z.pow : simpl never.

Lemma digit_in_not_us b c d : digit_in b c = Some d -> (c =? us_char) = false.
Proof.
  destruct (Z.eqb_spec c us_char) as [->|]; [|reflexivity]. intros H. vm_compute in H. discriminate H.
Qed.

Lemma is_digit_in_some b c d : digit_in b c = Some d -> is_digit_in b c = true.
Proof. unfold is_digit_in. intros ->. reflexivity. Qed.

(* ---------------------------------------------------------------- sep_digits <-> token structure *)
Lemma sep_digits_tokens b s ds : sep_digits b true s ds ->
  forallb nonempty (split_us s) = true /\ forallb (is_digit_in b) (concat (split_us s)) = true
  /\ ds = leading_digits b (concat (split_us s)).
Proof.
  induction 1 as [c d Hd|c d t ds Hd Ht IH|c d t ds _ Hd Ht IH].
  - cbn [split_us]. rewrite (digit_in_not_us b c d Hd). cbn [forallb nonempty concat app leading_digits andb].
    rewrite (is_digit_in_some b c d Hd), Hd. auto.
  - destruct IH as (I1 & I2 & ->). cbn [split_us]. rewrite (digit_in_not_us b c d Hd).
    destruct (split_us_cons t) as (g & gs & Et). rewrite Et in *.
    cbn [forallb nonempty concat app leading_digits andb] in *. rewrite (is_digit_in_some b c d Hd), Hd.
    apply andb_true_iff in I1 as [_ I1]. auto.
  - destruct IH as (I1 & I2 & ->). cbn [split_us]. rewrite (digit_in_not_us b c d Hd).
    change (us_char =? us_char) with true. cbv iota.
    cbn [forallb nonempty concat app leading_digits andb]. rewrite (is_digit_in_some b c d Hd), Hd. auto.
Qed.

Lemma split_first_empty t gs : split_us t = [] :: gs -> (t = [] /\ gs = []) \/ exists t', t = us_char :: t' /\ gs = split_us t'.
Proof.
  destruct t as [|c t']; cbn [split_us].
  - intros H. inversion H. auto.
  - destruct (Z.eqb_spec c us_char) as [->|].
    + intros H. inversion H. right. eauto.
    + destruct (split_us t'); discriminate.
Qed.

Lemma tokens_sep_digits b : forall n s, (length s <= n)%nat ->
  forallb nonempty (split_us s) = true -> forallb (is_digit_in b) (concat (split_us s)) = true ->
  sep_digits b true s (leading_digits b (concat (split_us s))).
Proof.
  induction n as [|n IH]; intros s Hlen Hne Hall.
  - destruct s; [discriminate Hne|cbn [length] in Hlen; lia].
  - destruct s as [|c t]; [discriminate Hne|]. cbn [length] in Hlen.
    cbn [split_us] in *. destruct (Z.eqb_spec c us_char) as [->|Hc]; [discriminate Hne|].
    destruct (split_us_cons t) as (g & gs & Et). rewrite Et in *.
    cbn [forallb nonempty concat app andb] in Hne, Hall |- *.
    apply andb_true_iff in Hall as [Hc' Hall]. unfold is_digit_in in Hc'.
    destruct (digit_in b c) as [d|] eqn:Ed; [|discriminate Hc'].
    cbn [leading_digits]. rewrite Ed.
    destruct g as [|a g'].
    + destruct (split_first_empty t gs Et) as [[-> ->]|(t' & -> & ->)].
      * apply SD_last. exact Ed.
      * apply SD_sep; [reflexivity|exact Ed|]. cbn [app] in *. apply IH; [cbn [length] in Hlen; lia|exact Hne|exact Hall].
    + apply SD_next; [exact Ed|].
      replace ((a :: g') ++ concat gs) with (concat (split_us t)) in * by (rewrite Et; reflexivity).
      apply IH; [lia| |exact Hall]. rewrite Et. exact Hne.
Qed.

Lemma sep_digits_plain b s ds :
  sep_digits b false s ds <-> s <> [] /\ forallb (is_digit_in b) s = true /\ ds = leading_digits b s.
Proof.
  split.
  - induction 1 as [c d Hd|c d t ds Hd Ht IH|c d t ds Hus Hd Ht IH]; [| |discriminate Hus].
    + cbn [forallb leading_digits]. rewrite (is_digit_in_some b c d Hd), Hd. repeat split; auto. discriminate.
    + destruct IH as (_ & I2 & ->). cbn [forallb leading_digits]. rewrite (is_digit_in_some b c d Hd), Hd.
      repeat split; auto. discriminate.
  - revert ds. induction s as [|c t IH]; intros ds (Hne & Hall & ->); [congruence|].
    cbn [forallb] in Hall. apply andb_true_iff in Hall as [Hc Hall]. unfold is_digit_in in Hc.
    destruct (digit_in b c) as [d|] eqn:Ed; [|discriminate Hc]. cbn [leading_digits]. rewrite Ed.
    destruct t as [|c' t'].
    + apply SD_last. exact Ed.
    + apply SD_next; [exact Ed|]. apply IH. repeat split; auto. discriminate.
Qed.

(* ---------------------------------------------------------------- literal shapes <-> go_literal *)
Definition groups_of (base : Z) (body : list Z) : list (list Z) := if base =? 0 then split_us body else [body].

Lemma well_sep_false groups : well_separated false groups = true -> forallb nonempty groups = true.
Proof. destruct groups as [|g gs]; [cbn [well_separated]; discriminate|]. cbn [well_separated orb forallb]. auto. Qed.

Lemma octal_no_prefix p rest :
  forallb (is_digit_in 8) (concat (split_us (48 :: p :: rest))) = true -> prefix_base p = None.
Proof.
  intros Hall. destruct (prefix_base p) as [b'|] eqn:Ep; [exfalso|reflexivity].
  destruct (prefix_not_octal p b' Ep) as [Hd Hn].
  rewrite concat_split_us in Hall. cbn [filter] in Hall. change (notus 48) with true in Hall. rewrite Hn in Hall.
  cbn [forallb] in Hall. rewrite Hd in Hall. rewrite andb_false_r in Hall. discriminate Hall.
Qed.

Lemma literal_to_shape base s b ds : go_literal base s b ds ->
  exists pre body, literal_shape s base = Some (b, pre, body)
    /\ forallb (is_digit_in b) (concat (groups_of base body)) = true
    /\ well_separated pre (groups_of base body) = true
    /\ ds = leading_digits b (concat (groups_of base body)).
Proof.
  destruct 1 as [base s ds Hb Hs|c s ds Hc Hs|s ds Hs|p b s ds Hp Hs|p b s ds Hp Hs].
  - exists false, s. unfold literal_shape, groups_of.
    destruct (Z.leb_spec 2 base); [|lia]. destruct (Z.leb_spec base 36); [|lia]. cbn [andb].
    destruct (Z.eqb_spec base 0); [lia|]. apply sep_digits_plain in Hs as (Hne & Hall & ->).
    cbn [concat]. rewrite app_nil_r. repeat split; auto. destruct s; [congruence|reflexivity].
  - exists false, (c :: s). apply sep_digits_tokens in Hs as (Hne & Hall & ->).
    unfold literal_shape, groups_of. change ((2 <=? 0) && (0 <=? 36)) with false. change (0 =? 0) with true. cbv iota.
    rewrite (proj2 (Z.eqb_neq c 48) Hc). split; [destruct s as [|? [|? ?]]; reflexivity|]. repeat split; auto.
    destruct (split_us_cons (c :: s)) as (g & gs & Eg). rewrite Eg in *. exact Hne.
  - exists false, (48 :: s). apply sep_digits_tokens in Hs as (Hne & Hall & ->).
    unfold literal_shape, groups_of. change ((2 <=? 0) && (0 <=? 36)) with false. change (0 =? 0) with true. cbv iota.
    change (48 =? 48) with true. cbv iota. split.
    + destruct s as [|p [|x y]]; try reflexivity. rewrite (octal_no_prefix p (x :: y) Hall). reflexivity.
    + repeat split; auto. destruct (split_us_cons (48 :: s)) as (g & gs & Eg). rewrite Eg in *. exact Hne.
  - exists true, s. apply sep_digits_tokens in Hs as (Hne & Hall & ->).
    unfold literal_shape, groups_of. change ((2 <=? 0) && (0 <=? 36)) with false. change (0 =? 0) with true. cbv iota.
    change (48 =? 48) with true. cbv iota. destruct s as [|x y]; [discriminate Hne|]. rewrite Hp.
    repeat split; auto. destruct (split_us_cons (x :: y)) as (g & gs & Eg). rewrite Eg in *.
    cbn [well_separated orb forallb] in *. apply andb_true_iff in Hne as [_ Hne]. exact Hne.
  - exists true, (us_char :: s). apply sep_digits_tokens in Hs as (Hne & Hall & ->).
    unfold literal_shape, groups_of. change ((2 <=? 0) && (0 <=? 36)) with false. change (0 =? 0) with true. cbv iota.
    change (48 =? 48) with true. cbv iota. rewrite Hp. cbn [split_us]. change (us_char =? us_char) with true. cbv iota.
    cbn [concat app well_separated orb andb]. repeat split; auto.
Qed.

Lemma shape_to_literal base s b pre body : s <> [] -> literal_shape s base = Some (b, pre, body) ->
  forallb (is_digit_in b) (concat (groups_of base body)) = true ->
  well_separated pre (groups_of base body) = true ->
  go_literal base s b (leading_digits b (concat (groups_of base body))).
Proof.
  intros Hs Hshape Hall Hsep. unfold literal_shape in Hshape. unfold groups_of in *.
  destruct (Z.leb_spec 2 base) as [H2|H2]; [destruct (Z.leb_spec base 36) as [H36|H36]|]; cbn [andb] in Hshape.
  - inversion Hshape; subst b pre body. destruct (Z.eqb_spec base 0); [lia|].
    cbn [concat] in *. rewrite app_nil_r in *. apply GL_explicit; [lia|]. apply sep_digits_plain. auto.
  - destruct (Z.eqb_spec base 0); [lia|discriminate Hshape].
  - destruct (Z.eqb_spec base 0) as [->|]; [|discriminate Hshape].
    assert (Plain : forall b', forallb (is_digit_in b') (concat (split_us s)) = true ->
                          well_separated false (split_us s) = true ->
                          sep_digits b' true s (leading_digits b' (concat (split_us s)))).
    { intros b' Ha Hw. apply (tokens_sep_digits b' (length s)); [lia|apply well_sep_false; exact Hw|exact Ha]. }
    destruct s as [|c0 t]; [congruence|].
    destruct (Z.eqb_spec c0 48) as [->|Hc0].
    + assert (Oct : Some (8, false, 48 :: t) = Some (b, pre, body) -> go_literal 0 (48 :: t) b (leading_digits b (concat (split_us body)))).
      { intros E. inversion E; subst b pre body. apply GL_octal. apply Plain; assumption. }
      destruct t as [|p [|x y]]; try (apply Oct; exact Hshape).
      destruct (prefix_base p) as [b'|] eqn:Ep; [|apply Oct; exact Hshape].
      inversion Hshape; subst b' pre body. clear Oct Plain.
      destruct (split_us_cons (x :: y)) as (g & gs & Eg). rewrite Eg in Hsep. cbn [well_separated orb] in Hsep.
      destruct g as [|a g'].
      * destruct (split_first_empty (x :: y) gs Eg) as [[E _]|(t' & E & ->)]; [discriminate E|].
        inversion E; subst x y. cbn [split_us] in *. change (us_char =? us_char) with true in *. cbv iota in *.
        cbn [concat app] in *. apply GL_prefix_us; [exact Ep|].
        apply (tokens_sep_digits b (length t')); [lia|exact Hsep|exact Hall].
      * apply GL_prefix; [exact Ep|].
        apply (tokens_sep_digits b (length (x :: y))); [lia| |exact Hall]. rewrite Eg. exact Hsep.
    + assert (Dec : Some (10, false, c0 :: t) = Some (b, pre, body) -> go_literal 0 (c0 :: t) b (leading_digits b (concat (split_us body)))).
      { intros E. inversion E; subst b pre body. apply GL_decimal; [exact Hc0|]. apply Plain; assumption. }
      destruct t as [|p [|x y]]; apply Dec; exact Hshape.
Qed.

(* ---------------------------------------------------------------- success of the declarative function = the inductive grammar *)
Lemma literal_result_ok b pre bits groups v :
  literal_result b pre bits groups = POk v <->
  forallb (is_digit_in b) (concat groups) = true /\ well_separated pre groups = true
  /\ positional b (leading_digits b (concat groups)) = v /\ v <= 2 ^ bits - 1.
Proof.
  unfold literal_result. cbv zeta.
  destruct (Z.ltb_spec (2 ^ bits - 1) (positional b (leading_digits b (concat groups)))) as [Hov|Hok].
  - split; [discriminate|]. intros (_ & _ & E & Hv). lia.
  - destruct (forallb (is_digit_in b) (concat groups)); cbn [negb].
    + destruct (well_separated pre groups).
      * split; [intros E; inversion E; subst; auto|]. intros (_ & _ & -> & _). reflexivity.
      * split; [discriminate|]. intros (_ & E & _). discriminate E.
    + split; [discriminate|]. intros (E & _). discriminate E.
Qed.

Lemma go_literal_nonempty base s b ds : go_literal base s b ds -> s <> [].
Proof.
  destruct 1 as [base s ds Hb Hs|c s ds Hc Hs|s ds Hs|p b s ds Hp Hs|p b s ds Hp Hs]; try discriminate.
  apply sep_digits_plain in Hs as (Hne & _). exact Hne.
Qed.

Theorem go_parse_uint_ok_iff s base bitSize v :
  go_parse_uint s base bitSize = POk v <->
  0 <= bitSize <= 64 /\
  exists b ds, go_literal base s b ds /\ positional b ds = v /\ v <= 2 ^ (if bitSize =? 0 then 64 else bitSize) - 1.
Proof.
  split.
  - unfold go_parse_uint. destruct s as [|c0 t]; [discriminate|].
    destruct (literal_shape (c0 :: t) base) as [[[b pre] body]|] eqn:Eshape; [|discriminate].
    destruct (Z.ltb_spec bitSize 0); cbn [orb]; [discriminate|]. destruct (Z.ltb_spec 64 bitSize); [discriminate|].
    intros E. apply literal_result_ok in E as (Hall & Hsep & Hv & Hfit). split; [lia|].
    exists b, (leading_digits b (concat (groups_of base body))). split; [|split; assumption].
    apply (shape_to_literal base (c0 :: t) b pre body); auto. discriminate.
  - intros (Hbs & b & ds & Hlit & Hv & Hfit).
    pose proof (go_literal_nonempty _ _ _ _ Hlit) as Hne.
    destruct (literal_to_shape base s b ds Hlit) as (pre & body & Eshape & Hall & Hsep & ->).
    unfold go_parse_uint. destruct s as [|c0 t]; [congruence|]. rewrite Eshape.
    destruct (Z.ltb_spec bitSize 0); [lia|]. destruct (Z.ltb_spec 64 bitSize); [lia|]. cbn [orb].
    apply literal_result_ok. auto.
Qed.

(* the model: ParseUint succeeds with v exactly on the literals of the inductive grammar whose value is v and fits *)
Theorem parse_uint_ok_iff_literal s base bitSize v :
  parse_uint s base bitSize = POk v <->
  0 <= bitSize <= 64 /\
  exists b ds, go_literal base s b ds /\ positional b ds = v /\ v <= 2 ^ (if bitSize =? 0 then 64 else bitSize) - 1.
Proof. rewrite parse_uint_is_grammar. apply go_parse_uint_ok_iff. Qed.

(* premises are satisfiable: "0x_1f" under base 0 is a literal of base 16 with the digits 1, 15 (value 31), and
   "1__0" is no literal *)
Example literal_0x_1f : go_literal 0 [48; 120; 95; 49; 102] 16 [1; 15] /\ positional 16 [1; 15] = 31.
Proof.
  split; [|reflexivity]. apply (GL_prefix_us 120 16 [49; 102] [1; 15]); [reflexivity|].
  apply SD_next; [reflexivity|]. apply SD_last. reflexivity.
Qed.
Example no_literal_double_us : forall b ds, ~ go_literal 0 [49; 95; 95; 48] b ds.
Proof.
  intros b ds H. destruct (literal_to_shape _ _ _ _ H) as (pre & body & Es & _ & Hsep & _).
  vm_compute in Es. inversion Es; subst. vm_compute in Hsep. discriminate Hsep.
Qed.
