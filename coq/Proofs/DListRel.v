(* C13 — DList: the refinement relation R between the model heap and the sequence specification (this is
   dlist_inv), and the three splice primitives + allocation / Init lifted to R. *)
From Coq Require Import List ZArith Arith Lia Bool Permutation.
From V Require Import Model.DList Proofs.DListChains Proofs.DListPrims.
Import ListNotations.

(* ---------------------------------------------------------------- list facts for the specification functions *)
Lemma mem_In x l : mem x l = true <-> In x l.
Proof.
  unfold mem. rewrite existsb_exists. split.
  - intros (y & Hy & E). apply Nat.eqb_eq in E. subst. exact Hy.
  - intros H. exists x. split; [exact H|apply Nat.eqb_refl].
Qed.
Lemma mem_false x l : mem x l = false <-> ~ In x l.
Proof. rewrite <- mem_In. destruct (mem x l); split; intros; try discriminate; auto. exfalso; auto. Qed.

Lemma in_split_first x (q : list nat) : In x q -> exists A B, q = A ++ x :: B /\ ~ In x A.
Proof.
  induction q as [|y q IH]; intros H; [destruct H|].
  destruct (Nat.eq_dec y x) as [->|Hne].
  - exists [], q. split; [reflexivity|intros []].
  - destruct H as [E|H]; [congruence|]. destruct (IH H) as (A & B & -> & Hn). exists (y :: A), B. split; [reflexivity|].
    intros [E|Hin]; [congruence|contradiction].
Qed.

Lemma rem_split x A B : ~ In x A -> rem x (A ++ x :: B) = A ++ B.
Proof.
  induction A as [|a A IH]; intros H; cbn [app rem].
  - rewrite Nat.eqb_refl. reflexivity.
  - destruct (Nat.eqb_spec x a) as [->|_]; [exfalso; apply H; left; reflexivity|]. rewrite IH; [reflexivity|].
    intros Hin. apply H. right. exact Hin.
Qed.
Lemma rem_notin x l : ~ In x l -> rem x l = l.
Proof.
  induction l as [|a l IH]; intros H; cbn [rem]; [reflexivity|].
  destruct (Nat.eqb_spec x a) as [->|_]; [exfalso; apply H; left; reflexivity|]. rewrite IH; [reflexivity|].
  intros Hin. apply H. right. exact Hin.
Qed.
Lemma ins_before_split x m A B : ~ In m A -> ins_before x m (A ++ m :: B) = A ++ x :: m :: B.
Proof.
  induction A as [|a A IH]; intros H; cbn [app ins_before].
  - rewrite Nat.eqb_refl. reflexivity.
  - destruct (Nat.eqb_spec m a) as [->|_]; [exfalso; apply H; left; reflexivity|]. rewrite IH; [reflexivity|].
    intros Hin. apply H. right. exact Hin.
Qed.
Lemma ins_after_split x m A B : ~ In m A -> ins_after x m (A ++ m :: B) = A ++ m :: x :: B.
Proof.
  induction A as [|a A IH]; intros H; cbn [app ins_after].
  - rewrite Nat.eqb_refl. reflexivity.
  - destruct (Nat.eqb_spec m a) as [->|_]; [exfalso; apply H; left; reflexivity|]. rewrite IH; [reflexivity|].
    intros Hin. apply H. right. exact Hin.
Qed.
Lemma succ_of_split x A B : ~ In x A -> succ_of x (A ++ x :: B) = first_opt B.
Proof.
  induction A as [|a A IH]; intros H; cbn [app succ_of].
  - rewrite Nat.eqb_refl. destruct B; reflexivity.
  - destruct (Nat.eqb_spec x a) as [->|_]; [exfalso; apply H; left; reflexivity|]. apply IH.
    intros Hin. apply H. right. exact Hin.
Qed.
Lemma succ_of_notin x l : ~ In x l -> succ_of x l = None.
Proof.
  induction l as [|a l IH]; intros H; cbn [succ_of]; [reflexivity|].
  destruct (Nat.eqb_spec x a) as [->|_]; [exfalso; apply H; left; reflexivity|]. apply IH. intros Hin. apply H. right. exact Hin.
Qed.
Lemma pred_of_split x A B : ~ In x B -> pred_of x (A ++ x :: B) = last_opt A.
Proof.
  intros H. unfold pred_of, last_opt. rewrite rev_app_distr. cbn [rev]. rewrite <- app_assoc. cbn [app].
  rewrite succ_of_split; [reflexivity|]. rewrite <- in_rev. exact H.
Qed.
Lemma last_opt_last (A : list nat) d : last_opt A = match A with [] => None | _ => Some (last A d) end.
Proof.
  unfold last_opt. destruct A as [|a A]; [reflexivity|].
  destruct (@exists_last _ (a :: A) ltac:(discriminate)) as (M & z & E). rewrite E. rewrite rev_app_distr, last_last. reflexivity.
Qed.
Lemma first_opt_hd (B : list nat) d : first_opt B = match B with [] => None | _ => Some (hd d B) end.
Proof. destruct B; reflexivity. Qed.

Lemma NoDup_insert (A B : list nat) e : NoDup (A ++ B) -> ~ In e (A ++ B) -> NoDup (A ++ e :: B).
Proof. intros H1 H2. eapply Permutation_NoDup; [apply Permutation_middle|]. constructor; auto. Qed.

Lemma last_in (L : nat) A : In (last A L) (L :: A).
Proof. destruct (split_last L A) as (M & E). rewrite E. apply in_app_iff. right. left. reflexivity. Qed.
Lemma hd_in (L : nat) B : In (hd L B) (L :: B).
Proof. destruct B; cbn; auto. Qed.

(* ---------------------------------------------------------------- the relation *)
Definition ring_ok (h : heap) (L : nat) (q : list nat) : Prop :=
  (nxt h L = None /\ prv h L = None /\ q = []) \/ links (nxt h) (prv h) L q L.

Definition owner_of (s : dspec) (x : nat) : option nat :=
  if mem x (seq_of s 0) then Some 0 else if mem x (seq_of s 1) then Some 1 else None.

Record R (h : heap) (s : dspec) : Prop := {
  r_ring : forall L, L < 2 -> ring_ok h L (seq_of s L);
  r_nodup : forall L, L < 2 -> NoDup (seq_of s L);
  r_disj : forall x, In x (seq_of s 0) -> In x (seq_of s 1) -> False;
  r_range : forall L x, L < 2 -> In x (seq_of s L) -> 2 <= x < fresh h;
  r_len : forall L, L < 2 -> llen h L = Z.of_nat (length (seq_of s L));
  r_own : forall x, 2 <= x -> own h x = owner_of s x;
  r_det : forall x, 2 <= x -> (forall L, L < 2 -> ~ In x (seq_of s L)) -> nxt h x = None /\ prv h x = None;
  r_val : forall x, val h x = sval s x;
  r_fresh : fresh h = sfresh s;
  r_fresh2 : 2 <= fresh h
}.

Definition other (L : nat) : nat := 1 - L.
Lemma other_lt L : L < 2 -> other L < 2 /\ other L <> L /\ other (other L) = L.
Proof. unfold other. lia. Qed.

Lemma seq_set_same s L l : seq_of (set_seq s L l) L = l.
Proof. unfold seq_of, set_seq. destruct (Nat.eqb L 0) eqn:E; cbn [s0 s1]; rewrite ?E; reflexivity. Qed.
Lemma seq_set_other s L L' l : L < 2 -> L' < 2 -> L' <> L -> seq_of (set_seq s L l) L' = seq_of s L'.
Proof.
  intros H1 H2 Hne. unfold seq_of, set_seq.
  destruct (Nat.eqb_spec L 0), (Nat.eqb_spec L' 0); cbn [s0 s1]; try reflexivity; lia.
Qed.
Lemma sval_set s L l : sval (set_seq s L l) = sval s.
Proof. unfold set_seq. destruct (Nat.eqb L 0); reflexivity. Qed.
Lemma sfresh_set s L l : sfresh (set_seq s L l) = sfresh s.
Proof. unfold set_seq. destruct (Nat.eqb L 0); reflexivity. Qed.
Lemma lt2_cases L : L < 2 -> L = 0 \/ L = 1.
Proof. lia. Qed.

Lemma disj_LL h s L x : R h s -> L < 2 -> In x (seq_of s L) -> In x (seq_of s (other L)) -> False.
Proof.
  intros HR HL H1 H2. destruct (lt2_cases L HL) as [-> | ->]; cbn [other Nat.sub] in H2.
  - exact (r_disj _ _ HR x H1 H2).
  - exact (r_disj _ _ HR x H2 H1).
Qed.

(* nodes of list L (sentinel included) are not nodes of the other list *)
Lemma ring_disj h s L x : R h s -> L < 2 -> In x (L :: seq_of s L) -> In x (other L :: seq_of s (other L)) -> False.
Proof.
  intros HR HL H1 H2. destruct (other_lt L HL) as (HoL & Hne & _).
  destruct H1 as [<-|H1], H2 as [E|H2].
  - congruence.
  - pose proof (r_range _ _ HR _ _ HoL H2). lia.
  - subst x. pose proof (r_range _ _ HR _ _ HL H1). lia.
  - exact (disj_LL h s L x HR HL H1 H2).
Qed.

Lemma ring_ok_frame h h' L q :
  ring_ok h L q -> (forall x, In x (L :: q) -> nxt h' x = nxt h x /\ prv h' x = prv h x) -> ring_ok h' L q.
Proof.
  intros [(H1 & H2 & ->)|Hl] Hf.
  - left. destruct (Hf L (or_introl eq_refl)) as [E1 E2]. rewrite E1, E2. auto.
  - right. eapply links_frame; [| |exact Hl].
    + intros x [->|Hx]; apply Hf; [left; reflexivity|right; exact Hx].
    + intros x [->|Hx]; apply Hf; [left; reflexivity|right; exact Hx].
Qed.

Lemma owner_of_set_in s L l x : L < 2 -> In x l -> ~ In x (seq_of s (other L)) -> owner_of (set_seq s L l) x = Some L.
Proof.
  intros HL Hin Hno. unfold owner_of. destruct (lt2_cases L HL) as [-> | ->]; cbn [other Nat.sub] in Hno.
  - rewrite seq_set_same. apply mem_In in Hin. rewrite Hin. reflexivity.
  - rewrite (seq_set_other s 1 0) by lia. apply mem_false in Hno. rewrite Hno. rewrite seq_set_same.
    apply mem_In in Hin. rewrite Hin. reflexivity.
Qed.
Lemma owner_of_set_notin s L l x : L < 2 -> ~ In x l -> owner_of (set_seq s L l) x =
  if mem x (seq_of s (other L)) then Some (other L) else None.
Proof.
  intros HL Hno. unfold owner_of. apply mem_false in Hno. destruct (lt2_cases L HL) as [-> | ->]; cbn [other Nat.sub].
  - rewrite seq_set_same, Hno. rewrite (seq_set_other s 0 1) by lia. reflexivity.
  - rewrite (seq_set_other s 1 0) by lia. rewrite seq_set_same, Hno. destruct (mem x (seq_of s 0)); reflexivity.
Qed.
Lemma owner_of_cases s L x : L < 2 ->
  owner_of s x = if mem x (seq_of s L) then (if mem x (seq_of s (other L)) then Some 0 else Some L)
                 else if mem x (seq_of s (other L)) then Some (other L) else None.
Proof.
  intros HL. unfold owner_of. destruct (lt2_cases L HL) as [-> | ->]; cbn [other Nat.sub].
  - destruct (mem x (seq_of s 0)), (mem x (seq_of s 1)); reflexivity.
  - destruct (mem x (seq_of s 0)), (mem x (seq_of s 1)); reflexivity.
Qed.

(* ---------------------------------------------------------------- helpers for updates of one list *)
Lemma set_seq_disj s L l :
  L < 2 -> (forall x, In x l -> In x (seq_of s (other L)) -> False) ->
  forall x, In x (seq_of (set_seq s L l) 0) -> In x (seq_of (set_seq s L l) 1) -> False.
Proof.
  intros HL H x. destruct (lt2_cases L HL) as [-> | ->]; cbn [other Nat.sub] in H.
  - rewrite seq_set_same, (seq_set_other s 0 1) by lia. apply H.
  - rewrite seq_set_same, (seq_set_other s 1 0) by lia. intros H0 H1. eapply H; eauto.
Qed.

Lemma seq_of_set_cases s L l L' : L < 2 -> L' < 2 ->
  (L' = L /\ seq_of (set_seq s L l) L' = l) \/ (L' = other L /\ seq_of (set_seq s L l) L' = seq_of s L').
Proof.
  intros HL HL'. destruct (Nat.eq_dec L' L) as [->|Hne].
  - left. split; [reflexivity|apply seq_set_same].
  - right. split; [unfold other; lia|apply seq_set_other; auto].
Qed.

Lemma mem_middle_ne x e (A B : list nat) : x <> e -> mem x (A ++ e :: B) = mem x (A ++ B).
Proof.
  intros Hne. destruct (mem x (A ++ B)) eqn:E.
  - apply mem_In. apply mem_In in E. apply in_app_iff in E. apply in_app_iff. destruct E; [left|right; right]; auto.
  - apply mem_false. apply mem_false in E. intros H. apply E. apply in_app_iff in H. apply in_app_iff.
    destruct H as [H|[H|H]]; [left; auto|congruence|right; auto].
Qed.

Lemma owner_of_set_ne s L A B e x : L < 2 -> seq_of s L = A ++ B -> x <> e ->
  owner_of (set_seq s L (A ++ e :: B)) x = owner_of s x.
Proof.
  intros HL Hq Hne. unfold owner_of. destruct (lt2_cases L HL) as [-> | ->].
  - rewrite seq_set_same, (seq_set_other s 0 1) by lia. rewrite mem_middle_ne by auto. rewrite Hq. reflexivity.
  - rewrite seq_set_same, (seq_set_other s 1 0) by lia. rewrite mem_middle_ne by auto. rewrite Hq. reflexivity.
Qed.
Lemma owner_of_unset_ne s L A B e x : L < 2 -> seq_of s L = A ++ e :: B -> x <> e ->
  owner_of (set_seq s L (A ++ B)) x = owner_of s x.
Proof.
  intros HL Hq Hne. unfold owner_of. destruct (lt2_cases L HL) as [-> | ->].
  - rewrite seq_set_same, (seq_set_other s 0 1) by lia. rewrite Hq. rewrite mem_middle_ne by auto. reflexivity.
  - rewrite seq_set_same, (seq_set_other s 1 0) by lia. rewrite Hq. rewrite mem_middle_ne by auto. reflexivity.
Qed.

Lemma ring_nodup h s L : R h s -> L < 2 -> NoDup (L :: seq_of s L).
Proof.
  intros HR HL. constructor; [|apply (r_nodup _ _ HR); auto].
  intros Hin. pose proof (r_range _ _ HR _ _ HL Hin). lia.
Qed.

(* ---------------------------------------------------------------- insert *)
Lemma R_insert h s L A B e :
  R h s -> L < 2 -> seq_of s L = A ++ B -> links (nxt h) (prv h) L (A ++ B) L ->
  2 <= e < fresh h -> (forall L', L' < 2 -> ~ In e (seq_of s L')) ->
  exists h', insert h L e (last A L) = Some h' /\ R h' (set_seq s L (A ++ e :: B)).
Proof.
  intros HR HL Hq Hl He Hdet. destruct (other_lt L HL) as (HoL & HoNe & _).
  pose proof (ring_nodup h s L HR HL) as Hnd. rewrite Hq in Hnd.
  assert (HeR : ~ In e (L :: A ++ B)).
  { intros [E|Hin]; [lia|]. apply (Hdet L HL). rewrite Hq. exact Hin. }
  destruct (ring_insert _ _ L A B e Hl Hnd HeR) as (Hx & Hl').
  set (at_ := last A L) in *. set (nx0 := hd L B) in *.
  assert (HatIn : In at_ (L :: A ++ B)).
  { pose proof (last_in L A) as Hi. fold at_ in Hi. destruct Hi as [E|Hi]; [left; exact E|right; apply in_app_iff; left; exact Hi]. }
  assert (Hnx0In : In nx0 (L :: A ++ B)).
  { pose proof (hd_in L B) as Hi. fold nx0 in Hi. destruct Hi as [E|Hi]; [left; exact E|right; apply in_app_iff; right; exact Hi]. }
  assert (Hea : e <> at_) by (intros E; apply HeR; rewrite E; exact HatIn).
  rewrite (insert_eq h L e at_ nx0 Hea Hx). eexists. split; [reflexivity|].
  (* pointers outside {e, at, nx0} are untouched *)
  assert (Fr : forall x, x <> e -> ~ In x (L :: A ++ B) -> ins_nx (nxt h) e at_ nx0 x = nxt h x /\ ins_pv (prv h) e at_ nx0 x = prv h x).
  { intros x Hxe Hxn. unfold ins_nx, ins_pv. split.
    - rewrite fupd_ne by (intros E; apply Hxn; rewrite E; exact HatIn). apply fupd_ne; auto.
    - rewrite fupd_ne by (intros E; apply Hxn; rewrite E; exact Hnx0In). apply fupd_ne; auto. }
  constructor; cbn [nxt prv own val llen fresh].
  - intros L' HL'. destruct (seq_of_set_cases s L (A ++ e :: B) L' HL HL') as [[-> E]|[-> E]]; rewrite E.
    + right. exact Hl'.
    + eapply ring_ok_frame; [apply (r_ring _ _ HR); auto|]. cbn [nxt prv]. intros x Hxin. apply Fr.
      * intros ->. destruct Hxin as [E1|Hin]; [lia|]. exact (Hdet _ HoL Hin).
      * intros Hin. rewrite <- Hq in Hin. exact (ring_disj h s L x HR HL Hin Hxin).
  - intros L' HL'. destruct (seq_of_set_cases s L (A ++ e :: B) L' HL HL') as [[-> E]|[-> E]]; rewrite E.
    + apply NoDup_insert; [inversion Hnd; auto|]. intros Hin. apply HeR. right. exact Hin.
    + apply (r_nodup _ _ HR); auto.
  - apply set_seq_disj; auto. intros x Hin Hin2. apply in_app_iff in Hin. destruct Hin as [Hin|[<-|Hin]].
    + apply (disj_LL h s L x HR HL); auto. rewrite Hq. apply in_app_iff. left. exact Hin.
    + exact (Hdet _ HoL Hin2).
    + apply (disj_LL h s L x HR HL); auto. rewrite Hq. apply in_app_iff. right. exact Hin.
  - intros L' x HL' Hin. destruct (seq_of_set_cases s L (A ++ e :: B) L' HL HL') as [[-> E]|[-> E]]; rewrite E in Hin.
    + apply in_app_iff in Hin. destruct Hin as [Hin|[<-|Hin]]; [|exact He|].
      * apply (r_range _ _ HR L); auto. rewrite Hq. apply in_app_iff. left. exact Hin.
      * apply (r_range _ _ HR L); auto. rewrite Hq. apply in_app_iff. right. exact Hin.
    + apply (r_range _ _ HR (other L)); auto.
  - intros L' HL'. destruct (seq_of_set_cases s L (A ++ e :: B) L' HL HL') as [[-> E]|[-> E]]; rewrite E.
    + rewrite fupd_eq. rewrite (r_len _ _ HR L HL), Hq. rewrite !app_length. cbn [length]. lia.
    + rewrite fupd_ne by auto. apply (r_len _ _ HR); auto.
  - intros x Hx2. destruct (Nat.eq_dec x e) as [->|Hne].
    + rewrite fupd_eq. symmetry. apply owner_of_set_in; auto. apply in_app_iff. right. left. reflexivity.
    + rewrite fupd_ne by auto. rewrite (r_own _ _ HR x Hx2). symmetry. apply owner_of_set_ne; auto.
  - intros x Hx2 Hno.
    assert (Hxe : x <> e).
    { intros ->. apply (Hno L HL). rewrite seq_set_same. apply in_app_iff. right. left. reflexivity. }
    assert (Hold : forall L', L' < 2 -> ~ In x (seq_of s L')).
    { intros L' HL' Hin. apply (Hno L' HL'). destruct (seq_of_set_cases s L (A ++ e :: B) L' HL HL') as [[-> E]|[-> E]]; rewrite E.
      - rewrite Hq in Hin. apply in_app_iff in Hin. apply in_app_iff. destruct Hin; [left|right; right]; auto.
      - exact Hin. }
    destruct (r_det _ _ HR x Hx2 Hold) as [E1 E2].
    destruct (Fr x Hxe) as [F1 F2]; [intros [E|Hin]; [lia|]; apply (Hold L HL); rewrite Hq; exact Hin|].
    rewrite F1, F2. auto.
  - intros x. rewrite sval_set. apply (r_val _ _ HR).
  - rewrite sfresh_set. apply (r_fresh _ _ HR).
  - apply (r_fresh2 _ _ HR).
Qed.

Lemma ring_links h s L : R h s -> L < 2 -> seq_of s L <> [] -> links (nxt h) (prv h) L (seq_of s L) L.
Proof. intros HR HL Hne. destruct (r_ring _ _ HR L HL) as [(_ & _ & E)|Hl]; [congruence|exact Hl]. Qed.

(* ---------------------------------------------------------------- remove *)
Lemma R_remove h s L A B e :
  R h s -> L < 2 -> seq_of s L = A ++ e :: B ->
  exists h', remove h L e = Some h' /\ R h' (set_seq s L (A ++ B)) /\ val h' = val h.
Proof.
  intros HR HL Hq. destruct (other_lt L HL) as (HoL & HoNe & _).
  pose proof (ring_nodup h s L HR HL) as Hnd. rewrite Hq in Hnd.
  assert (Hl : links (nxt h) (prv h) L (A ++ e :: B) L).
  { rewrite <- Hq. apply ring_links; auto. rewrite Hq. destruct A; discriminate. }
  destruct (ring_remove _ _ L A B e Hl Hnd) as (Hp & Hn & Hl').
  set (p := last A L) in *. set (n := hd L B) in *.
  assert (Hnd1 : NoDup (L :: A ++ B)).
  { change (NoDup ((L :: A) ++ B)). change (NoDup ((L :: A) ++ e :: B)) in Hnd. eapply NoDup_remove_1; eauto. }
  assert (He1 : ~ In e (L :: A ++ B)).
  { change (~ In e ((L :: A) ++ B)). change (NoDup ((L :: A) ++ e :: B)) in Hnd. eapply NoDup_remove_2; eauto. }
  assert (HeIn : In e (seq_of s L)) by (rewrite Hq; apply in_app_iff; right; left; reflexivity).
  pose proof (r_range _ _ HR L e HL HeIn) as He.
  assert (HpIn : In p (L :: A ++ B)).
  { pose proof (last_in L A) as Hi. fold p in Hi. destruct Hi as [E|Hi]; [left; exact E|right; apply in_app_iff; left; exact Hi]. }
  assert (HnIn : In n (L :: A ++ B)).
  { pose proof (hd_in L B) as Hi. fold n in Hi. destruct Hi as [E|Hi]; [left; exact E|right; apply in_app_iff; right; exact Hi]. }
  assert (Hpe : p <> e) by (intros E; apply He1; rewrite <- E; exact HpIn).
  rewrite (remove_eq h L e p n Hpe Hp Hn). eexists. split; [reflexivity|]. split; [|reflexivity].
  assert (Fr : forall x, x <> e -> ~ In x (L :: A ++ B) -> rem_nx (nxt h) e p n x = nxt h x /\ rem_pv (prv h) e p n x = prv h x).
  { intros x Hxe Hxn. unfold rem_nx, rem_pv. split.
    - rewrite fupd_ne by auto. apply fupd_ne. intros E; apply Hxn; rewrite E; exact HpIn.
    - rewrite fupd_ne by auto. apply fupd_ne. intros E; apply Hxn; rewrite E; exact HnIn. }
  assert (Hsub : forall x, In x (A ++ B) -> In x (seq_of s L)).
  { intros x Hin. rewrite Hq. apply in_app_iff in Hin. apply in_app_iff. destruct Hin; [left|right; right]; auto. }
  constructor; cbn [nxt prv own val llen fresh].
  - intros L' HL'. destruct (seq_of_set_cases s L (A ++ B) L' HL HL') as [[-> E]|[-> E]]; rewrite E.
    + right. exact Hl'.
    + eapply ring_ok_frame; [apply (r_ring _ _ HR); auto|]. cbn [nxt prv]. intros x Hxin. apply Fr.
      * intros ->. apply (ring_disj h s L e HR HL); [right; exact HeIn|exact Hxin].
      * intros Hin. apply (ring_disj h s L x HR HL); [|exact Hxin]. destruct Hin as [E1|Hin]; [left; exact E1|right; apply Hsub; exact Hin].
  - intros L' HL'. destruct (seq_of_set_cases s L (A ++ B) L' HL HL') as [[-> E]|[-> E]]; rewrite E.
    + inversion Hnd1; auto.
    + apply (r_nodup _ _ HR); auto.
  - apply set_seq_disj; auto. intros x Hin Hin2. apply (disj_LL h s L x HR HL); auto.
  - intros L' x HL' Hin. destruct (seq_of_set_cases s L (A ++ B) L' HL HL') as [[-> E]|[-> E]]; rewrite E in Hin.
    + apply (r_range _ _ HR L); auto.
    + apply (r_range _ _ HR (other L)); auto.
  - intros L' HL'. destruct (seq_of_set_cases s L (A ++ B) L' HL HL') as [[-> E]|[-> E]]; rewrite E.
    + rewrite fupd_eq. rewrite (r_len _ _ HR L HL), Hq. rewrite !app_length. cbn [length]. lia.
    + rewrite fupd_ne by auto. apply (r_len _ _ HR); auto.
  - intros x Hx2. destruct (Nat.eq_dec x e) as [->|Hne].
    + rewrite fupd_eq. symmetry. rewrite owner_of_set_notin; auto.
      * assert (Hm : mem e (seq_of s (other L)) = false); [|rewrite Hm; reflexivity].
        apply mem_false. intros Hin. exact (disj_LL h s L e HR HL HeIn Hin).
      * intros Hin. apply He1. right. exact Hin.
    + rewrite fupd_ne by auto. rewrite (r_own _ _ HR x Hx2). symmetry. apply (owner_of_unset_ne s L A B e); auto.
  - intros x Hx2 Hno. destruct (Nat.eq_dec x e) as [->|Hne].
    + unfold rem_nx, rem_pv. rewrite !fupd_eq. auto.
    + assert (Hold : forall L', L' < 2 -> ~ In x (seq_of s L')).
      { intros L' HL' Hin. apply (Hno L' HL'). destruct (seq_of_set_cases s L (A ++ B) L' HL HL') as [[-> E]|[-> E]]; rewrite E.
        - rewrite Hq in Hin. apply in_app_iff in Hin. apply in_app_iff. destruct Hin as [Hin|[E1|Hin]]; [left; auto|congruence|right; auto].
        - exact Hin. }
      destruct (r_det _ _ HR x Hx2 Hold) as [E1 E2].
      destruct (Fr x Hne) as [F1 F2]; [intros [E|Hin]; [lia|]; apply (Hold L HL); apply Hsub; exact Hin|].
      rewrite F1, F2. auto.
  - intros x. rewrite sval_set. apply (r_val _ _ HR).
  - rewrite sfresh_set. apply (r_fresh _ _ HR).
  - apply (r_fresh2 _ _ HR).
Qed.

(* ---------------------------------------------------------------- move *)
Lemma R_move h s L A B e A' B' :
  R h s -> L < 2 -> seq_of s L = A ++ e :: B -> A ++ B = A' ++ B' ->
  exists h', move h e (last A' L) = Some h' /\ R h' (set_seq s L (A' ++ e :: B')).
Proof.
  intros HR HL Hq Eq. destruct (other_lt L HL) as (HoL & HoNe & _).
  pose proof (ring_nodup h s L HR HL) as Hnd. rewrite Hq in Hnd.
  assert (Hl : links (nxt h) (prv h) L (A ++ e :: B) L).
  { rewrite <- Hq. apply ring_links; auto. rewrite Hq. destruct A; discriminate. }
  destruct (ring_move _ _ L A B e A' B' Hl Hnd Eq) as (Hp & Hn & Hx & Hea & Hpe & Hl').
  set (p := last A L) in *. set (n := hd L B) in *. set (at_ := last A' L) in *. set (nx1 := hd L B') in *.
  assert (Hnd1 : NoDup (L :: A ++ B)).
  { change (NoDup ((L :: A) ++ B)). change (NoDup ((L :: A) ++ e :: B)) in Hnd. eapply NoDup_remove_1; eauto. }
  assert (He1 : ~ In e (L :: A ++ B)).
  { change (~ In e ((L :: A) ++ B)). change (NoDup ((L :: A) ++ e :: B)) in Hnd. eapply NoDup_remove_2; eauto. }
  assert (HeIn : In e (seq_of s L)) by (rewrite Hq; apply in_app_iff; right; left; reflexivity).
  assert (HpIn : In p (L :: A ++ B)).
  { pose proof (last_in L A) as Hi. fold p in Hi. destruct Hi as [E|Hi]; [left; exact E|right; apply in_app_iff; left; exact Hi]. }
  assert (HnIn : In n (L :: A ++ B)).
  { pose proof (hd_in L B) as Hi. fold n in Hi. destruct Hi as [E|Hi]; [left; exact E|right; apply in_app_iff; right; exact Hi]. }
  assert (HatIn : In at_ (L :: A ++ B)).
  { rewrite Eq. pose proof (last_in L A') as Hi. fold at_ in Hi. destruct Hi as [E|Hi]; [left; exact E|right; apply in_app_iff; left; exact Hi]. }
  assert (Hnx1In : In nx1 (L :: A ++ B)).
  { rewrite Eq. pose proof (hd_in L B') as Hi. fold nx1 in Hi. destruct Hi as [E|Hi]; [left; exact E|right; apply in_app_iff; right; exact Hi]. }
  rewrite (move_eq h e at_ p n nx1 Hea Hpe Hp Hn Hx). eexists. split; [reflexivity|].
  assert (Fr : forall x, x <> e -> ~ In x (L :: A ++ B) -> mov_nx (nxt h) e p n at_ nx1 x = nxt h x /\ mov_pv (prv h) e p n at_ nx1 x = prv h x).
  { intros x Hxe Hxn. unfold mov_nx, mov_pv. split.
    - rewrite fupd_ne by (intros E; apply Hxn; rewrite E; exact HatIn). rewrite fupd_ne by auto.
      apply fupd_ne. intros E; apply Hxn; rewrite E; exact HpIn.
    - rewrite fupd_ne by (intros E; apply Hxn; rewrite E; exact Hnx1In). rewrite fupd_ne by auto.
      apply fupd_ne. intros E; apply Hxn; rewrite E; exact HnIn. }
  assert (Hmem : forall x, In x (A' ++ e :: B') <-> In x (seq_of s L)).
  { intros x. rewrite Hq. rewrite !in_app_iff. cbn [In]. 
    assert (In x (A ++ B) <-> In x (A' ++ B')) by (rewrite Eq; tauto). rewrite !in_app_iff in H. tauto. }
  assert (Hsub : forall x, In x (A ++ B) -> In x (seq_of s L)).
  { intros x Hin. rewrite Hq. apply in_app_iff in Hin. apply in_app_iff. destruct Hin; [left|right; right]; auto. }
  constructor; cbn [nxt prv own val llen fresh].
  - intros L' HL'. destruct (seq_of_set_cases s L (A' ++ e :: B') L' HL HL') as [[-> E]|[-> E]]; rewrite E.
    + right. exact Hl'.
    + eapply ring_ok_frame; [apply (r_ring _ _ HR); auto|]. cbn [nxt prv]. intros x Hxin. apply Fr.
      * intros ->. apply (ring_disj h s L e HR HL); [right; exact HeIn|exact Hxin].
      * intros Hin. apply (ring_disj h s L x HR HL); [|exact Hxin]. destruct Hin as [E1|Hin]; [left; exact E1|right; apply Hsub; exact Hin].
  - intros L' HL'. destruct (seq_of_set_cases s L (A' ++ e :: B') L' HL HL') as [[-> E]|[-> E]]; rewrite E.
    + apply NoDup_insert; rewrite <- Eq; [inversion Hnd1; auto|]. intros Hin. apply He1. right. exact Hin.
    + apply (r_nodup _ _ HR); auto.
  - apply set_seq_disj; auto. intros x Hin Hin2. apply (disj_LL h s L x HR HL); auto. apply Hmem. exact Hin.
  - intros L' x HL' Hin. destruct (seq_of_set_cases s L (A' ++ e :: B') L' HL HL') as [[-> E]|[-> E]]; rewrite E in Hin.
    + apply (r_range _ _ HR L); auto. apply Hmem. exact Hin.
    + apply (r_range _ _ HR (other L)); auto.
  - intros L' HL'. destruct (seq_of_set_cases s L (A' ++ e :: B') L' HL HL') as [[-> E]|[-> E]]; rewrite E.
    + rewrite (r_len _ _ HR L HL), Hq. f_equal. pose proof (f_equal (@length nat) Eq) as El.
      rewrite !app_length in *. cbn [length]. lia.
    + apply (r_len _ _ HR); auto.
  - intros x Hx2. rewrite (r_own _ _ HR x Hx2). unfold owner_of.
    assert (Em : mem x (A' ++ e :: B') = mem x (seq_of s L)).
    { destruct (mem x (seq_of s L)) eqn:E1.
      - apply mem_In. apply Hmem. apply mem_In. exact E1.
      - apply mem_false. intros Hin. apply mem_false in E1. apply E1. apply Hmem. exact Hin. }
    destruct (lt2_cases L HL) as [-> | ->].
    + rewrite seq_set_same, (seq_set_other s 0 1) by lia. rewrite Em. reflexivity.
    + rewrite seq_set_same, (seq_set_other s 1 0) by lia. rewrite Em. reflexivity.
  - intros x Hx2 Hno.
    assert (Hold : forall L', L' < 2 -> ~ In x (seq_of s L')).
    { intros L' HL' Hin. apply (Hno L' HL'). destruct (seq_of_set_cases s L (A' ++ e :: B') L' HL HL') as [[-> E]|[-> E]]; rewrite E.
      - apply Hmem. exact Hin.
      - exact Hin. }
    assert (Hxe : x <> e) by (intros ->; exact (Hold L HL HeIn)).
    destruct (r_det _ _ HR x Hx2 Hold) as [E1 E2].
    destruct (Fr x Hxe) as [F1 F2]; [intros [E|Hin]; [lia|]; apply (Hold L HL); apply Hsub; exact Hin|].
    rewrite F1, F2. auto.
  - intros x. rewrite sval_set. apply (r_val _ _ HR).
  - rewrite sfresh_set. apply (r_fresh _ _ HR).
  - apply (r_fresh2 _ _ HR).
Qed.
