(* C12, linearizability of the call-driven machine, part 6: the corollaries of part 4 and 5 for the runs of the machine, and an
   example run (the premises are inhabited, the encoded history is accepted by the run's judge). *)
From Coq Require Import List Arith Lia Bool ZArith Permutation.
From V Require Import Lib.Enc Gen.SafeKVSkel Model.SafeKV Model.SafeKVCalls Model.SafeKVHist Run.C12
  Proofs.SafeKVInv Proofs.SafeKVConc Proofs.SafeKVSkelOk Proofs.SafeKVExec Proofs.SafeKVCalls Proofs.SafeKVSeq Proofs.SafeKVLin
  Proofs.SafeKVLinearizeStep Proofs.SafeKVLinearize Proofs.SafeKVLinearizeThm Proofs.SafeKVLinearizeCor Proofs.SafeKVLinearizeSnap.
Import ListNotations.

(* exactly one of several concurrent SetNx on an absent key returns true: a run from a map without k in which every call started
   is a SetNx on k or a call that does not change whether k is present (any SetNx/Set/SetX/Delete on other keys, any read).
   H = the history with the pending calls that have already taken effect completed *)
Theorem run_setnx_unique n m0 sched k : has m0 k = false ->
  Forall (fun sc => is_setnx k (snd sc) = true \/ keeps_key k (snd sc)) sched ->
  exists extra, completion (Z.of_nat (length sched)) (cpending n m0 sched) extra /\
    let H := chistory n m0 sched ++ extra in
    (forall h, In h H -> is_setnx k (h_call h) = true -> h_res h = [1%Z] \/ h_res h = [0%Z]) /\
    length (filter (setnx_win k) H) <= 1 /\
    ((exists h, In h H /\ is_setnx k (h_call h) = true) -> length (filter (setnx_win k) H) = 1).
Proof.
  intros Hm Hs. destruct (crun_linearizable n m0 sched) as (extra & l & Hc & Hl). exists extra. split; auto. cbv zeta.
  apply (setnx_unique_lin k _ m0 l Hl Hm).
  apply (history_calls (fun c => is_setnx k c = true \/ keeps_key k c) n m0 sched _ extra Hs Hc).
Qed.
Theorem run_setnx_unique_quiescent n m0 sched k : has m0 k = false ->
  Forall (fun sc => is_setnx k (snd sc) = true \/ keeps_key k (snd sc)) sched -> cpending n m0 sched = [] ->
  let H := chistory n m0 sched in
  (forall h, In h H -> is_setnx k (h_call h) = true -> h_res h = [1%Z] \/ h_res h = [0%Z]) /\
  length (filter (setnx_win k) H) <= 1 /\
  ((exists h, In h H /\ is_setnx k (h_call h) = true) -> length (filter (setnx_win k) H) = 1).
Proof.
  intros Hm Hs Hq. destruct (run_setnx_unique n m0 sched k Hm Hs) as (extra & Hc & H). rewrite Hq in Hc. apply completion_nil in Hc. subst.
  rewrite app_nil_r in H. exact H.
Qed.

(* SetX never creates a key: a run from a map without k in which no call started can create k (SetX on any key, Delete, Clear,
   every read, Set/SetNx on other keys): every completed call saw a map without k *)
Theorem run_setx_never_creates n m0 sched k : has m0 k = false ->
  Forall (fun sc => (exists a v, snd sc = CSetX a v) \/ never_creates k (snd sc)) sched ->
  forall h, In h (chistory n m0 sched) ->
    (exists s, has s k = false /\ h_res h = snd (sem (h_call h) s)) /\
    (h_call h = CHas k \/ h_call h = CContains k -> h_res h = [0%Z]) /\
    (forall v, h_call h = CSetX k v -> h_res h = [0%Z]) /\
    (h_call h = CGet k -> h_res h = [0%Z; 0%Z]) /\
    (h_call h = CGetWithLock k -> h_res h = [0%Z]).
Proof.
  intros Hm Hs h Hin. destruct (crun_linearizable n m0 sched) as (extra & l & Hc & Hl).
  assert (Hs' : Forall (fun sc => never_creates k (snd sc)) sched).
  { rewrite Forall_forall in *. intros sc Hsc. destruct (Hs sc Hsc) as [(a & v & ->)|H]; auto. apply setx_never_creates_key. }
  apply (setx_never_creates_lin _ m0 l k Hl Hm).
  - apply (history_calls (never_creates k) n m0 sched _ extra Hs' Hc).
  - apply in_or_app. left. exact Hin.
Qed.

(* one snapshot: every completed call returned the specification's answer on the shared map as it was after j steps, one j
   strictly inside the call's interval; spelled out for the methods that report a whole map *)
Theorem run_one_snapshot n m0 sched : forall h, In h (chistory n m0 sched) ->
  exists j, (h_inv h < Z.of_nat j < h_resp h)%Z /\ j < length sched /\
    let s := map_at n m0 sched j in
    h_res h = snd (sem (h_call h) s) /\
    (h_call h = CKeys -> h_res h = put_list (map fst s)) /\
    (h_call h = CKeys \/ h_call h = CValues -> hd0 (h_res h) = Z.of_nat (length s)) /\
    (h_call h = CRange 0 \/ h_call h = CAll 0 -> h_res h = put_list (flat s) /\ hd0 (h_res h) = Z.of_nat (2 * length s)) /\
    (h_call h = CLen \/ (exists f a b, h_call h = CMap f a b) -> h_res h = [Z.of_nat (length s)]) /\
    (forall ks, h_call h = CGetWithMap ks ->
       h_res h = put_list (flat_map (fun k => [k; match get s k with Some v => v | None => (-1)%Z end]) (zdedup (zsort ks)))).
Proof.
  intros h Hin. destruct (calls_observe_one_instant n m0 sched h Hin) as (j & J1 & J2 & J3). exists j. split; auto. split; auto.
  cbv zeta. set (s := map_at n m0 sched j) in *. destruct (snapshot_sizes s) as (K1 & K2 & K3 & K4 & K5 & _ & K7 & K8).
  split; auto. repeat split.
  - intros E0. rewrite J3, E0. exact K2.
  - intros [E0|E0]; rewrite J3, E0; auto.
  - destruct H as [E0|E0]; rewrite J3, E0; reflexivity.
  - destruct H as [E0|E0]; rewrite J3, E0; auto.
  - intros [E0|(f & a & b & E0)]; rewrite J3, E0; auto.
  - intros ks E0. rewrite J3, E0. reflexivity.
Qed.

(* ---------------------------------------------------------------- an example run *)
(* three threads: SetNx 1 5 || SetNx 1 7 || Keys; the second SetNx and Keys block on the lock while the first is inside.
   Every thread is idle at the end; the history has the three calls, one SetNx reports true; encoded as a case of run mode 1
   it is accepted by the judge *)
Definition ex_sched : list (nat * call) :=
  repeat (0, CSetNx 1 5) 2 ++ repeat (1, CSetNx 1 7) 3 ++ repeat (2, CKeys) 6 ++ repeat (0, CSetNx 1 5) 9 ++
  repeat (1, CSetNx 1 7) 6 ++ repeat (2, CKeys) 11.
Example ex_run :
  cpending 3 [] ex_sched = [] /\
  chistory 3 [] ex_sched = [ {| h_inv := 0; h_resp := 19; h_call := CSetNx 1 5; h_res := [1%Z] |};
                             {| h_inv := 2; h_resp := 25; h_call := CSetNx 1 7; h_res := [0%Z] |};
                             {| h_inv := 5; h_resp := 36; h_call := CKeys; h_res := [1%Z; 1%Z] |} ] /\
  dec_hist 25 [0;19;2;1;5;0;1;1; 2;25;2;1;7;0;1;0; 5;36;8;0;0;0;2;1;1]%Z = Some (chistory 3 [] ex_sched) /\
  entry 0 [1;3; 0;19;2;1;5;0;1;1; 2;25;2;1;7;0;1;0; 5;36;8;0;0;0;2;1;1]%Z = [1; 3]%Z.
Proof. vm_compute. repeat split; reflexivity. Qed.
