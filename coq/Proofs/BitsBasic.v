From Coq Require Import List ZArith NArith Lia Bool Arith ZifyN ZifyNat ZifyBool Sorted Permutation.
From V Require Import Lib.Enc Model.Bits.
Import ListNotations.
Local Open Scope N_scope.
Lemma upd_length l i x : length (upd l i x) = length l.
Proof. revert i; induction l as [|a l IH]; intros [|i]; cbn [upd length]; auto. Qed.
Lemma nth_upd l i j x : (i < length l)%nat -> nth j (upd l i x) 0 = if Nat.eqb j i then x else nth j l 0.
Proof.
  revert i j; induction l as [|a l IH]; intros [|i] [|j] H; cbn [upd nth length Nat.eqb] in *; try lia; auto.
  apply IH. lia.
Qed.

Lemma widx_div num : widx num = N.to_nat (num / 64).
Proof. unfold widx. rewrite N.shiftr_div_pow2. reflexivity. Qed.
Lemma bidx_mod num : bidx num = num mod 64.
Proof. unfold bidx. change 63 with (N.ones 6). rewrite N.land_ones. reflexivity. Qed.

Lemma land_mask_zero w b : (N.land w (mask b) =? 0) = negb (N.testbit w b).
Proof.
  unfold mask. destruct (N.testbit w b) eqn:E; cbn [negb].
  - apply N.eqb_neq. intros H. apply (f_equal (fun x => N.testbit x b)) in H.
    rewrite N.land_spec, E, N.shiftl_spec_high', N.sub_diag in H by lia. cbn in H. discriminate.
  - apply N.eqb_eq. apply N.bits_inj. intros k. rewrite N.land_spec, N.bits_0.
    destruct (N.eq_dec k b) as [->|Hne]; [rewrite E; reflexivity|].
    destruct (N.lt_ge_cases k b).
    + rewrite N.shiftl_spec_low by auto. apply andb_false_r.
    + rewrite N.shiftl_spec_high' by auto. replace (N.testbit 1 (k - b)) with false; [apply andb_false_r|].
      symmetry. apply (N.bits_above_log2 1 (k - b)). cbn. lia.
Qed.

Lemma contains_mem set n : contains set n = mem set n.
Proof.
  unfold contains, mem. rewrite land_mask_zero, negb_involutive, widx_div, bidx_mod.
  destruct (Nat.ltb_spec (N.to_nat (n / 64)) (length set)); cbn [andb]; [reflexivity|].
  rewrite nth_overflow by lia. rewrite N.bits_0. reflexivity.
Qed.

Lemma same_word_bit n m : N.to_nat (n / 64) = N.to_nat (m / 64) -> n mod 64 = m mod 64 -> n = m.
Proof. intros H1 H2. rewrite (N.div_mod n 64), (N.div_mod m 64) by lia. lia. Qed.

Lemma nth_grow set k j : nth j (set ++ repeat 0 k) 0 = nth j set 0.
Proof.
  destruct (Nat.lt_ge_cases j (length set)).
  - apply app_nth1; auto.
  - rewrite app_nth2 by auto. rewrite (nth_overflow set) by auto. apply nth_repeat.
Qed.

(* Add makes exactly num a member, reports whether membership changed, and touches nothing else *)
Theorem add_spec set num :
  snd (add set num) = negb (mem set num) /\ forall m, mem (fst (add set num)) m = (N.eqb m num) || mem set m.
Proof.
  unfold add. rewrite land_mask_zero, widx_div, bidx_mod. set (i := N.to_nat (num / 64)).
  destruct (Nat.leb_spec (length set) i) as [Hlen|Hlen]; cbn [fst snd].
  - split.
    + unfold mem. fold i. rewrite nth_overflow by lia. rewrite N.bits_0. reflexivity.
    + intros m. unfold mem. rewrite nth_upd by (rewrite app_length, repeat_length; lia). rewrite !nth_grow.
      destruct (Nat.eqb_spec (N.to_nat (m / 64)) i) as [E|E].
      * change (N.lor (nth i set 0) (mask (num mod 64))) with (N.setbit (nth i set 0) (num mod 64)).
        rewrite N.setbit_eqb. rewrite <- E.
        destruct (N.eqb_spec (num mod 64) (m mod 64)) as [E2|E2].
        -- assert (m = num) by (apply same_word_bit; unfold i in E; auto). subst. rewrite N.eqb_refl. reflexivity.
        -- destruct (N.eqb_spec m num) as [->|_]; [congruence|]. reflexivity.
      * destruct (N.eqb_spec m num) as [->|_]; [unfold i in E; congruence|]. reflexivity.
  - destruct (N.testbit (nth i set 0) (num mod 64)) eqn:Eb; cbn [negb fst snd].
    + split; [unfold mem; fold i; rewrite Eb; reflexivity|].
      intros m. destruct (N.eqb_spec m num) as [->|_]; cbn [orb]; [unfold mem; fold i; exact Eb|reflexivity].
    + split; [unfold mem; fold i; rewrite Eb; reflexivity|].
      intros m. unfold mem. rewrite nth_upd by lia.
      destruct (Nat.eqb_spec (N.to_nat (m / 64)) i) as [E|E].
      * change (N.lor (nth i set 0) (mask (num mod 64))) with (N.setbit (nth i set 0) (num mod 64)).
        rewrite N.setbit_eqb. rewrite <- E.
        destruct (N.eqb_spec (num mod 64) (m mod 64)) as [E2|E2].
        -- assert (m = num) by (apply same_word_bit; unfold i in E; auto). subst. rewrite N.eqb_refl. reflexivity.
        -- destruct (N.eqb_spec m num) as [->|_]; [congruence|]. reflexivity.
      * destruct (N.eqb_spec m num) as [->|_]; [unfold i in E; congruence|]. reflexivity.
Qed.

Theorem remove_spec set num :
  snd (remove set num) = mem set num /\ forall m, mem (fst (remove set num)) m = negb (N.eqb m num) && mem set m.
Proof.
  unfold remove. rewrite land_mask_zero, negb_involutive, widx_div, bidx_mod. set (i := N.to_nat (num / 64)).
  assert (Hm : mem set num = (i <? length set)%nat && N.testbit (nth i set 0) (num mod 64)).
  { unfold mem. fold i. destruct (Nat.ltb_spec i (length set)); cbn [andb]; [reflexivity|].
    rewrite nth_overflow by lia. apply N.bits_0. }
  rewrite <- Hm. destruct (mem set num) eqn:Em; cbn [fst snd].
  - split; [reflexivity|]. symmetry in Hm. apply andb_prop in Hm. destruct Hm as [Hl Hb]. apply Nat.ltb_lt in Hl.
    intros m. unfold mem. rewrite nth_upd by lia.
    destruct (Nat.eqb_spec (N.to_nat (m / 64)) i) as [E|E].
    + change (N.ldiff (nth i set 0) (mask (num mod 64))) with (N.clearbit (nth i set 0) (num mod 64)).
      rewrite N.clearbit_eqb. rewrite <- E.
      destruct (N.eqb_spec (num mod 64) (m mod 64)) as [E2|E2].
      * assert (m = num) by (apply same_word_bit; unfold i in E; auto). subst. rewrite N.eqb_refl. cbn. apply andb_false_r.
      * destruct (N.eqb_spec m num) as [->|_]; [congruence|]. cbn [negb andb]. apply andb_true_r.
    + destruct (N.eqb_spec m num) as [->|_]; [unfold i in E; congruence|]. reflexivity.
  - split; [reflexivity|]. intros m. destruct (N.eqb_spec m num) as [->|_]; cbn [negb andb]; [exact Em|reflexivity].
Qed.
Print Assumptions add_spec.
Print Assumptions remove_spec.
