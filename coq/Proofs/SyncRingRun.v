(* C10 — SyncRing used from one goroutine: fresh and injected states satisfy the invariant, a quiescent state is
   determined by its counter, n push/pop pairs reach the injected state (closed form), and the model refines the
   bounded FIFO for operation sequences of any length, from a fresh ring or from any injected counter value. *)
From Coq Require Import List ZArith Lia Bool.
From V Require Import Gen.Ringz Model.RingSeq Model.SyncRingSeq Proofs.SyncRingSeq Proofs.SyncRingCap.
Import ListNotations.
Local Open Scope Z_scope.
Arguments Z.add : simpl never.
Arguments Z.sub : simpl never.
Arguments Z.mul : simpl never.
Arguments Z.modulo : simpl never.
Arguments Z.pow : simpl never.
Arguments Z.land : simpl never.
Arguments Z.of_nat : simpl never.
Arguments Z.to_nat : simpl never.

Lemma zseq_length n a : length (zseq n a) = n.
Proof. revert a; induction n as [|n IH]; intros a; cbn [zseq length]; auto. Qed.
Lemma nth_error_zseq : forall n a i, (i < n)%nat -> nth_error (zseq n a) i = Some (a + Z.of_nat i).
Proof.
  induction n as [|n IH]; intros a [|i] Hi; cbn [zseq nth_error]; try lia.
  - f_equal. lia.
  - rewrite IH by lia. f_equal. lia.
Qed.

Lemma list_eq_nth_error {A} (l l' : list A) : (forall i, nth_error l i = nth_error l' i) -> l = l'.
Proof.
  revert l'; induction l as [|a l IH]; intros [|b l'] H; auto.
  - specialize (H 0%nat). discriminate.
  - specialize (H 0%nat). discriminate.
  - pose proof (H 0%nat) as H0. cbn [nth_error] in H0. inversion H0; subst. f_equal. apply IH. intros i. apply (H (S i)).
Qed.

(* ---- states *)
Definition quiescent (k n : Z) : sring :=
  {| slots := map (fun i => (0, u32 (n + ((i - n) mod 2 ^ k)))) (zseq (Z.to_nat (2 ^ k)) 0);
     shead := u32 n; stail := u32 n; scap := 2 ^ k; smask := 2 ^ k - 1 |}.

Lemma quiescent_inv k n : 1 <= k <= 31 -> 0 <= n -> Inv k (quiescent k n) [] n.
Proof.
  intros Hk Hn. destruct (cap_bounds k Hk) as [[H2 H31] HM].
  constructor; unfold val_at, quiescent; cbn [slots shead stail scap smask]; change (length (@nil Z)) with 0%nat.
  - exact Hk.
  - reflexivity.
  - reflexivity.
  - rewrite map_length, zseq_length. lia.
  - exact Hn.
  - reflexivity.
  - rewrite Z.add_0_r. reflexivity.
  - lia.
  - intros j Hj. lia.
  - intros p Hp.
    pose proof (Z.mod_pos_bound p (2 ^ k) ltac:(lia)) as Hb.
    erewrite map_nth_error; [|apply nth_error_zseq; lia].
    f_equal. f_equal. f_equal. rewrite Z.add_0_l, Z2Nat.id by lia.
    rewrite Zminus_mod_idemp_l. rewrite Z.mod_small by lia. lia.
Qed.

Lemma inject_quiescent k r n : scap r = 2 ^ k -> smask r = 2 ^ k - 1 -> inject r n = quiescent k n.
Proof. intros Hc Hm. unfold inject, quiescent. rewrite Hc, Hm. reflexivity. Qed.

(* a quiescent state (empty queue) is determined by its counter *)
Lemma quiescent_unique k r H : Inv k r [] H -> r = quiescent k H.
Proof.
  intros HI. pose proof HI as [Hk Hc Hm Hl HH Hhd Htl Hf Hu Hfr]. destruct (cap_bounds k Hk) as [[H2 H31] HM].
  cbn [length] in *. rewrite Z.add_0_r in Htl.
  assert (Es : slots r = slots (quiescent k H)).
  { apply list_eq_nth_error. intros i. cbn [quiescent slots].
    destruct (Nat.lt_ge_cases i (Z.to_nat (2 ^ k))) as [Hi|Hi].
    - erewrite map_nth_error; [|apply nth_error_zseq; lia]. rewrite Z.add_0_l.
      set (p := H + (Z.of_nat i - H) mod 2 ^ k).
      pose proof (Z.mod_pos_bound (Z.of_nat i - H) (2 ^ k) ltac:(lia)) as Hb.
      specialize (Hfr p ltac:(unfold p; lia)). unfold val_at in Hfr.
      replace (Z.to_nat (p mod scap r)) with i in Hfr; [exact Hfr|].
      rewrite Hc. unfold p. rewrite Zplus_mod_idemp_r. replace (H + (Z.of_nat i - H)) with (Z.of_nat i) by lia.
      rewrite Z.mod_small by lia. lia.
    - transitivity (@None (Z * Z)); [|symmetry]; apply nth_error_None.
      + lia.
      + rewrite map_length, zseq_length. lia. }
  destruct r as [sl hd tl cp mk]. cbn [slots shead stail scap smask] in *. unfold quiescent. subst. f_equal.
Qed.

(* ---- Init *)
Lemma sinit_inv c : 1 <= c <= 2 ^ 31 ->
  exists k r, 1 <= k <= 31 /\ sinit c = IOk r /\ Inv k r [] 0 /\ scap r = 2 ^ k /\ spec_cap c = 2 ^ k.
Proof.
  intros Hc. destruct (init_cap_is_spec_cap c Hc) as (k & Hk & E & Es). destruct (cap_bounds k Hk) as [[H2 H31] HM].
  pose proof M32_val as HMv. change (2 ^ 31) with 2147483648 in H31.
  exists k. unfold sinit, init_on. rewrite E. eexists. split; [exact Hk|]. split; [reflexivity|]. split; [|split; [reflexivity|exact Es]].
  constructor; cbn [slots shead stail scap smask]; change (length (@nil Z)) with 0%nat.
  - exact Hk.
  - reflexivity.
  - apply u32_small. lia.
  - unfold fresh_slots. rewrite map_length, zseq_length. lia.
  - lia.
  - reflexivity.
  - reflexivity.
  - lia.
  - intros j Hj. lia.
  - intros p Hp. unfold val_at, fresh_slots. cbn [slots scap].
    rewrite Z.mod_small by lia.
    erewrite map_nth_error; [|apply nth_error_zseq; lia]. rewrite Z.add_0_l, Z2Nat.id by lia. reflexivity.
Qed.

(* ---- one step against the specification (every operation except a re-Init) *)
Definition is_init (o : sop) : bool := match o with SInit _ => true | _ => false end.

Lemma flat_length l : length (flat l) = (2 * length l)%nat.
Proof. induction l as [|[a b] l IH]; cbn [flat length]; lia. Qed.

Lemma sstep_refines k r q H o : Inv k r q H -> is_init o = false ->
  exists f' x r' y H', sfstep {| fcap := scap r; fq := q |} o = Some (f', x) /\ sstep r o = SOk r' y /\
    hide y = x /\ Inv k r' (fq f') H' /\ fcap f' = scap r /\ scap r' = scap r.
Proof.
  intros HI Hno. destruct o as [v| | | | | |c| |v timed|timed]; try discriminate; cbn [sfstep fstep sstep]; unfold flen; cbn [fcap fq].
  - (* Push *)
    destruct (push_spec k r q H v HI) as (r' & b & E & Hb & Ht & Hf). rewrite E.
    destruct (Z.ltb_spec (Z.of_nat (length q)) (scap r)) as [Hlt|Hge].
    + assert (b = true) by tauto. subst b. specialize (Ht eq_refl).
      eexists _, _, r', _, H. repeat (split; [reflexivity|]). split; [exact Ht|]. split; [reflexivity|].
      rewrite (inv_cap _ _ _ _ Ht), (inv_cap _ _ _ _ HI). reflexivity.
    + assert (b = false) by (destruct b; auto; lia). subst b. rewrite (Hf eq_refl).
      eexists _, _, r, _, H. repeat (split; [reflexivity|]). split; [exact HI|]. split; reflexivity.
  - (* Pop *)
    destruct (pop_spec k r q H HI) as (r' & o & E & Hm). rewrite E. destruct q as [|x q'].
    + destruct Hm as [-> ->]. eexists _, _, r, _, H. repeat (split; [reflexivity|]). split; [exact HI|]. split; reflexivity.
    + destruct Hm as [-> HI']. eexists _, _, r', _, (H + 1). repeat (split; [reflexivity|]). split; [exact HI'|]. split; [reflexivity|].
      rewrite (inv_cap _ _ _ _ HI'), (inv_cap _ _ _ _ HI). reflexivity.
  - (* Len *)
    eexists _, _, r, _, H. split; [reflexivity|]. split; [reflexivity|]. cbn [hide]. rewrite (len_spec k r q H HI).
    split; [reflexivity|]. split; [exact HI|]. split; reflexivity.
  - (* IsEmpty *)
    eexists _, _, r, _, H. split; [reflexivity|]. split; [reflexivity|]. cbn [hide]. rewrite (is_empty_spec k r q H HI).
    split; [reflexivity|]. split; [exact HI|]. split; reflexivity.
  - (* IsFull *)
    eexists _, _, r, _, H. split; [reflexivity|]. split; [reflexivity|]. cbn [hide]. rewrite (is_full_spec k r q H HI).
    split; [reflexivity|]. split; [exact HI|]. split; reflexivity.
  - (* Cap *)
    eexists _, _, r, _, H. repeat (split; [reflexivity|]). split; [exact HI|]. split; reflexivity.
  - (* Dump *)
    eexists _, _, r, _, H. split; [reflexivity|]. split; [reflexivity|]. split; [|split; [exact HI|split; reflexivity]].
    cbn [hide]. f_equal. f_equal. unfold sdump. cbn [length]. rewrite flat_length.
    pose proof (inv_len _ _ _ _ HI). lia.
  - (* PushWait: one attempt, or two when timed; in one goroutine the second attempt sees the same state *)
    destruct (push_spec k r q H v HI) as (r' & b & E & Hb & Ht & Hf). rewrite E.
    destruct (Z.ltb_spec (Z.of_nat (length q)) (scap r)) as [Hlt|Hge].
    + assert (b = true) by tauto. subst b. specialize (Ht eq_refl).
      eexists _, _, r', _, H. repeat (split; [reflexivity|]). split; [exact Ht|]. split; [reflexivity|].
      rewrite (inv_cap _ _ _ _ Ht), (inv_cap _ _ _ _ HI). reflexivity.
    + assert (b = false) by (destruct b; auto; lia). subst b. rewrite (Hf eq_refl). destruct timed.
      * rewrite E, (Hf eq_refl). eexists _, _, r, _, H. repeat (split; [reflexivity|]). split; [exact HI|]. split; reflexivity.
      * eexists _, _, r, _, H. repeat (split; [reflexivity|]). split; [exact HI|]. split; reflexivity.
  - (* PopWait *)
    destruct (pop_spec k r q H HI) as (r' & o & E & Hm). rewrite E. destruct q as [|x q'].
    + destruct Hm as [-> ->]. destruct timed.
      * rewrite E. eexists _, _, r, _, H. repeat (split; [reflexivity|]). split; [exact HI|]. split; reflexivity.
      * eexists _, _, r, _, H. repeat (split; [reflexivity|]). split; [exact HI|]. split; reflexivity.
    + destruct Hm as [-> HI']. eexists _, _, r', _, (H + 1). repeat (split; [reflexivity|]). split; [exact HI'|]. split; [reflexivity|].
      rewrite (inv_cap _ _ _ _ HI'), (inv_cap _ _ _ _ HI). reflexivity.
Qed.

Lemma srun_refines k : forall ops r q H acc, Inv k r q H -> forallb (fun o => negb (is_init o)) ops = true ->
  exists l, srun_acc r ops acc = Out l /\
            Some (map hide l) = sfrun_acc {| fcap := scap r; fq := q |} ops (map hide acc).
Proof.
  induction ops as [|o ops IH]; intros r q H acc HI Hno; cbn [srun_acc sfrun_acc].
  - eexists. split; [reflexivity|]. rewrite map_rev. reflexivity.
  - cbn [forallb] in Hno. apply andb_true_iff in Hno. destruct Hno as [Ho Hno]. apply negb_true_iff in Ho.
    destruct (sstep_refines k r q H o HI Ho) as (f' & x & r' & y & H' & Ef & Es & Hy & HI' & Hc & Hc').
    rewrite Ef, Es. destruct (IH r' (fq f') H' (y :: acc) HI' Hno) as (l & El & Esp).
    exists l. split; [exact El|]. rewrite Esp. cbn [map]. rewrite Hy. destruct f' as [fc fqq]. cbn [fcap fq] in *. rewrite Hc, Hc'. reflexivity.
Qed.

(* SyncRing, one goroutine, refines the bounded FIFO whose capacity is the least power of two >= max 2 c:
   every requested capacity 1..2^31, fresh or with the counters injected at ANY n >= 0 (beyond 2^32 included),
   every operation sequence without a re-Init, of any length *)
Theorem syncring_seq_refines_fifo : forall c inj ops,
  1 <= c <= 2 ^ 31 -> (forall n, inj = Some n -> 0 <= n) -> forallb (fun o => negb (is_init o)) ops = true ->
  exists l, sync_case c inj ops = Out l /\ Some (map hide l) = sfifo_case c ops.
Proof.
  intros c inj ops Hc Hinj Hno. destruct (sinit_inv c Hc) as (k & r & Hk & E & HI & Hcap & Hs).
  unfold sync_case, sfifo_case. rewrite E. destruct (Z.leb_spec c 0); [lia|]. rewrite Hs, <- Hcap.
  destruct inj as [n|].
  - rewrite (inject_quiescent k r n Hcap (inv_mask _ _ _ _ HI)).
    pose proof (quiescent_inv k n Hk (Hinj n eq_refl)) as HIq.
    destruct (srun_refines k ops (quiescent k n) [] n [] HIq Hno) as (l & El & Esp).
    exists l. split; [exact El|]. rewrite Esp. cbn [quiescent scap map]. rewrite Hcap. reflexivity.
  - destruct (srun_refines k ops r [] 0 [] HI Hno) as (l & El & Esp). exists l. split; [exact El|exact Esp].
Qed.

(* ---- the closed form of n push/pop pairs *)
Fixpoint pairs (vs : list Z) : list sop := match vs with [] => [] | v :: t => SPush v :: SPop :: pairs t end.
Fixpoint pair_outs (vs : list Z) : list res := match vs with [] => [] | v :: t => RBool true :: RVal true v :: pair_outs t end.

Lemma pair_step k r H v : Inv k r [] H ->
  exists r1 r2, sstep r (SPush v) = SOk r1 (RBool true) /\ sstep r1 SPop = SOk r2 (RVal true v) /\ Inv k r2 [] (H + 1).
Proof.
  intros HI. pose proof (inv_cap _ _ _ _ HI) as Hc. pose proof (inv_k _ _ _ _ HI) as Hk. destruct (cap_bounds k Hk) as [[H2 _] _].
  destruct (push_spec k r [] H v HI) as (r1 & b & E1 & Hb & Ht & _).
  assert (b = true) by (apply Hb; cbn [length]; lia). subst b. specialize (Ht eq_refl). cbn [app] in Ht.
  destruct (pop_spec k r1 [v] H Ht) as (r2 & o & E2 & -> & HI2).
  exists r1, r2. cbn [sstep]. rewrite E1, E2. auto.
Qed.

Lemma pairs_from k : forall vs r H acc, Inv k r [] H ->
  sexec r (pairs vs) = Some (quiescent k (H + Z.of_nat (length vs))) /\
  srun_acc r (pairs vs) acc = Out (rev acc ++ pair_outs vs).
Proof.
  induction vs as [|v vs IH]; intros r H acc HI; cbn [pairs sexec srun_acc pair_outs length].
  - rewrite Z.add_0_r, app_nil_r. split; [|reflexivity]. f_equal. apply quiescent_unique; auto.
  - destruct (pair_step k r H v HI) as (r1 & r2 & E1 & E2 & HI2). rewrite E1, E2.
    destruct (IH r2 (H + 1) (RVal true v :: RBool true :: acc) HI2) as [Ea Eb]. rewrite Ea, Eb. split.
    + f_equal. f_equal. lia.
    + cbn [rev]. rewrite <- !app_assoc. reflexivity.
Qed.

(* n push/pop pairs from NewSync(c) — or from any injected state — all succeed, return what was pushed, and leave
   exactly the state the harness injects for the counter value reached: no run of 2^32 operations is needed *)
Theorem pairs_reach : forall c vs, 1 <= c <= 2 ^ 31 ->
  exists r0, sinit c = IOk r0 /\
    sexec r0 (pairs vs) = Some (inject r0 (Z.of_nat (length vs))) /\ srun r0 (pairs vs) = Out (pair_outs vs) /\
    forall n, 0 <= n -> sexec (inject r0 n) (pairs vs) = Some (inject r0 (n + Z.of_nat (length vs))) /\
                         srun (inject r0 n) (pairs vs) = Out (pair_outs vs).
Proof.
  intros c vs Hc. destruct (sinit_inv c Hc) as (k & r & Hk & E & HI & Hcap & _). exists r. split; [exact E|].
  pose proof (inv_mask _ _ _ _ HI) as Hm.
  destruct (pairs_from k vs r 0 [] HI) as [Ea Eb]. rewrite Z.add_0_l in Ea.
  split; [rewrite (inject_quiescent k r _ Hcap Hm); exact Ea|]. split; [exact Eb|].
  intros n Hn. rewrite !(inject_quiescent k r _ Hcap Hm).
  destruct (pairs_from k vs (quiescent k n) n [] (quiescent_inv k n Hk Hn)) as [Ea' Eb']. split; [exact Ea'|exact Eb'].
Qed.

(* the instance the F10 replay and the wrap-window cases use: capacity 2 after 2^32-2 pairs *)
Example injected_state : forall r0, sinit 2 = IOk r0 ->
  inject r0 (2 ^ 32 - 2) = {| slots := [(0, 4294967294); (0, 4294967295)]; shead := 4294967294; stail := 4294967294; scap := 2; smask := 1 |}.
Proof. intros r0 E. vm_compute in E. inversion E; subst. vm_compute. reflexivity. Qed.

(* outside the property (notes/C10.md): Init on a ring that was used keeps head/tail — NewSync(4), 9 push/pop pairs,
   Init(8): the ring is empty by Len/IsEmpty, yet Push fails *)
Example reinit_keeps_counters :
  sync_case 4 (Some 9) [SInit 8; SLen; SIsEmpty; SPush 1] = Out [RUnit; RInt 0; RBool true; RBool false].
Proof. vm_compute. reflexivity. Qed.

(* Cap() after NewSync(c) *)
Theorem newsync_cap : forall c, 1 <= c <= 2 ^ 31 ->
  exists r k, sinit c = IOk r /\ 1 <= k <= 31 /\ scap r = 2 ^ k /\ Z.max 2 c <= 2 ^ k /\
              (forall j, 0 <= j -> Z.max 2 c <= 2 ^ j -> 2 ^ k <= 2 ^ j) /\ scap r = spec_cap c.
Proof.
  intros c Hc. destruct (cap_rounding_least c Hc) as (k & Hk & E & Hle & Hleast).
  unfold sinit, init_on. rewrite E. eexists _, k. split; [reflexivity|]. split; [exact Hk|]. cbn [scap].
  split; [reflexivity|]. split; [exact Hle|]. split; [exact Hleast|].
  destruct (init_cap_is_spec_cap c Hc) as (k' & _ & E' & Es). rewrite E in E'. inversion E' as [E2]. rewrite Es. exact E2.
Qed.
