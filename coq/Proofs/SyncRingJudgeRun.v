(* C01, refinement model -> judge: the whole schedule.  Every entry of Run.C01.go emits tokens on which the judge moves
   to a related state; freshness of every step comes from the length bound (Proofs/SyncRingShort.v). *)
From Coq Require Import List ZArith Lia Bool Arith.
Import ListNotations.
From V Require Import Lib.Enc Model.SyncRingConc Model.SyncRingJudge Proofs.SyncRingConc Proofs.SyncRingConcTop Proofs.SyncRingShort
  Run.C01 Proofs.SyncRingJudgeSim Proofs.SyncRingJudgeThread Proofs.SyncRingJudgeStep Proofs.SyncRingJudgeEntry.
Local Open Scope Z_scope.
Arguments Z.add : simpl never.
Arguments Z.sub : simpl never.
Arguments Z.mul : simpl never.
Arguments Z.modulo : simpl never.
Arguments Z.div : simpl never.
Arguments Z.pow : simpl never.
Arguments Z.of_nat : simpl never.
Arguments Z.to_nat : simpl never.

Definition progs_wf (progs : list (list Z)) : Prop := forall i x, In x (nth i progs []) -> wf_op x = true.

Lemma entry_ok k progs c rts js t :
  Inv k c -> SIM k progs (sh c) (ths c) rts js -> progs_wf progs -> 0 <= t -> fresh_ok c (Z.to_nat t) ->
  exists c' rts' evs,
    (forall rest acc, go c rts (t :: rest) acc = go c' rts' rest (rev (flat_map enc_jev evs) ++ acc)) /\
    Inv k c' /\ SIM k progs (sh c') (ths c') rts' (fold_left (jstep (2 ^ k) progs) evs js) /\
    (c' = c \/ exists e, step c e = Some c').
Proof.
  intros HI HS HW Ht Hfr. set (i := Z.to_nat t) in *.
  assert (Hti : Z.of_nat i = t) by (unfold i; lia).
  assert (Skip : exists c' rts' evs,
    (forall rest acc, go c rts rest acc = go c' rts' rest (rev (flat_map enc_jev evs) ++ acc)) /\
    Inv k c' /\ SIM k progs (sh c') (ths c') rts' (fold_left (jstep (2 ^ k) progs) evs js) /\
    (c' = c \/ exists e, step c e = Some c')).
  { exists c, rts, []. cbn [flat_map rev app fold_left]. split; [reflexivity|split; [exact HI|split; [exact HS|left; reflexivity]]]. }
  destruct (nth_error (ths c) i) as [p|] eqn:Hi.
  2:{ destruct Skip as (c' & rts' & evs & A & B). exists c', rts', evs. split; [|exact B]. intros rest acc.
      rewrite go_cons by lia. fold i. rewrite Hi. apply A. }
  destruct (nth_error rts i) as [rt|] eqn:Hrt.
  2:{ destruct Skip as (c' & rts' & evs & A & B). exists c', rts', evs. split; [|exact B]. intros rest acc.
      rewrite go_cons by lia. fold i. rewrite Hi, Hrt. apply A. }
  destruct (is_idle p && r_yield rt) eqn:Ey.
  { (* Gosched *)
    apply andb_true_iff in Ey. destruct Ey as [Ep Ey]. destruct p; try discriminate.
    exists c, (updl rts i (rt_unyield rt)), [JAtomic i EvGosched 0 0 0 0]. split; [|split; [exact HI|split; [|left; reflexivity]]].
    - intros rest acc. rewrite go_cons by lia. fold i. rewrite Hi, Hrt. cbn [is_idle andb]. rewrite Ey.
      rewrite rev_append_rev. cbn [flat_map enc_jev app]. rewrite Hti. reflexivity.
    - cbn [fold_left]. apply (case_gosched k progs c rts js i HS rt Hi Hrt). }
  destruct (rt_start p rt) as [[o rt1]|] eqn:Est.
  2:{ destruct Skip as (c' & rts' & evs & A & B). exists c', rts', evs. split; [|exact B]. intros rest acc.
      rewrite go_cons by lia. fold i. rewrite Hi, Hrt, Ey, Est. apply A. }
  destruct (step_inv k c (i, o) HI Hfr) as (c' & Hs & HI').
  assert (HG : Goal k progs c rts js i p rt1 c').
  { pose proof (HW i) as HWi. unfold rt_start in Est.
    destruct p; cbn [is_idle negb] in Est.
    - (* Idle *)
      destruct (r_wait rt =? 0) eqn:Ew; cbn [negb] in Est.
      + destruct (r_prog rt) as [|x more] eqn:Ep; [discriminate|]. inversion Est; subst o rt1.
        apply Z.eqb_eq in Ew. eapply case_begin; eauto.
      + inversion Est; subst o rt1. apply Z.eqb_neq in Ew. eapply case_retry; eauto.
    - inversion Est; subst o rt1; eapply case_PuLoadTail; eauto.
    - inversion Est; subst o rt1; eapply case_PuLoadSeq; eauto.
    - inversion Est; subst o rt1; eapply case_PuCas; eauto.
    - inversion Est; subst o rt1; eapply case_PuWrite; eauto.
    - inversion Est; subst o rt1; eapply case_PuPublish; eauto.
    - inversion Est; subst o rt1; eapply case_PoLoadHead; eauto.
    - inversion Est; subst o rt1; eapply case_PoLoadSeq; eauto.
    - inversion Est; subst o rt1; eapply case_PoCas; eauto.
    - inversion Est; subst o rt1; eapply case_PoRead; eauto.
    - inversion Est; subst o rt1; eapply case_PoClear; eauto.
    - inversion Est; subst o rt1; eapply case_PoRelease; eauto.
    - inversion Est; subst o rt1; eapply case_ObsFirst; eauto.
    - inversion Est; subst o rt1; eapply case_ObsSecond; eauto. }
  destruct HG as (ev & Hev & HS').
  exists c', (updl rts i (rt_next p c' i rt1)), [ev]. split; [|split; [exact HI'|split; [exact HS'|right; eauto]]].
  intros rest acc. rewrite go_cons by lia. fold i. rewrite Hi, Hrt, Ey, Est, Hs.
  rewrite rev_append_rev. cbn [flat_map]. rewrite app_nil_r, <- Hev, Hti. reflexivity.
Qed.

Lemma bounded_mono t0 h0 c j j' : bounded t0 h0 c j -> j <= j' -> bounded t0 h0 c j'.
Proof. intros (A & B & C) H. repeat split; try lia; exact C. Qed.

Lemma go_ok k progs t0 h0 : forall sched c rts js j acc,
  Inv k c -> SIM k progs (sh c) (ths c) rts js -> progs_wf progs -> Forall (fun t => 0 <= t) sched ->
  bounded t0 h0 c j -> 0 <= j -> j + Z.of_nat (length sched) <= M32 ->
  exists c' rts' evs,
    go c rts sched acc = Some (c', rts', rev (flat_map enc_jev evs) ++ acc) /\
    Inv k c' /\ SIM k progs (sh c') (ths c') rts' (fold_left (jstep (2 ^ k) progs) evs js).
Proof.
  induction sched as [|t rest IH]; intros c rts js j acc HI HS HW Hnn HB Hj Hlen.
  - exists c, rts, []. cbn [go flat_map rev app fold_left]. auto.
  - inversion Hnn as [|? ? Ht Hrest]; subst. cbn [length] in Hlen.
    assert (Hfr : fresh_ok c (Z.to_nat t)) by (eapply fresh_of_bounded; eauto; lia).
    destruct (entry_ok k progs c rts js t HI HS HW Ht Hfr) as (c1 & rts1 & evs1 & Heq & HI1 & HS1 & Hc1).
    assert (HB1 : bounded t0 h0 c1 (j + 1)).
    { destruct Hc1 as [->|(e & He)]; [eapply bounded_mono; eauto; lia|eapply step_bounded; eauto]. }
    destruct (IH c1 rts1 (fold_left (jstep (2 ^ k) progs) evs1 js) (j + 1) (rev (flat_map enc_jev evs1) ++ acc) HI1 HS1 HW Hrest HB1
                 ltac:(lia) ltac:(lia)) as (c' & rts' & evs2 & Hgo & HI' & HS').
    exists c', rts', (evs1 ++ evs2). rewrite Heq, Hgo. split; [|split; [exact HI'|rewrite fold_left_app; exact HS']].
    rewrite flat_map_app, rev_app_distr, app_assoc. reflexivity.
Qed.
