(* C09: the "Salted__" envelopes (CBC and GCM), Encrypt/Decrypt, GCMEncrypt/GCMDecrypt: format, round trips, totality.
   From design-notes/proto/Envelope_proto.v and EnvelopeGcm_proto.v, on top of the C08 layer of Model/Aes.v. *)
From Coq Require Import List ZArith Lia Bool Arith.
From V Require Import Lib.Enc Gen.Cryptz Model.Aes Model.Crypt Proofs.AesPkcs7 Proofs.AesCbc Proofs.CryptKdf.
Import ListNotations.

Lemma skipn_zeros k n : skipn k (zeros n) = zeros (n - k).
Proof.
  unfold zeros. revert k. induction n as [|n IH]; intros [|k]; cbn [skipn repeat Nat.sub]; try reflexivity. apply IH.
Qed.

Lemma with_header_spec salt n : length salt = 8 -> 16 <= n -> with_header (zeros n) salt = Ok (header ++ salt ++ zeros (n - 16)).
Proof.
  intros Hs Hn. unfold with_header.
  rewrite (copy_into_prefix (zeros n) header) by (rewrite zeros_length, header_length; lia).
  rewrite header_length, skipn_zeros.
  destruct (Nat.ltb_spec (length (header ++ zeros (n - 8))) 8) as [H|_]; [rewrite app_length, header_length in H; lia|].
  rewrite firstn_len_app, skipn_len_app by reflexivity.
  rewrite copy_into_prefix by (rewrite zeros_length; lia). rewrite Hs, skipn_zeros.
  replace (n - 8 - 8) with (n - 16) by lia. reflexivity.
Qed.

Lemma enc_len_nat n : Z.to_nat (cbc_encrypt_len n) = n + (16 - n mod 16).
Proof. destruct (cbc_encrypt_len_exact n) as [_ E]. rewrite E. apply Nat2Z.id. Qed.

Section Env.
Variable E D : bytes -> bytes -> bytes.
Variable md5 : bytes -> bytes.
Hypothesis md5_len : forall m, length (md5 m) = 16.

Local Notation evp := (evp md5).

(* ---- totality of SaltBySecretCBCDecrypt: an error or a result for every input (only |md5| = 16 is used) *)
Theorem salt_cbc_decrypt_total ct secret reuse : salt_cbc_decrypt D md5 ct secret reuse <> Panic.
Proof.
  unfold salt_cbc_decrypt. rewrite masked_mod, BS_eq.
  destruct (Nat.ltb_spec (length ct) (2 * 16)) as [|Hlen]; cbn [orb]; [discriminate|].
  destruct (negb (length ct mod 16 =? 0)); [discriminate|].
  rewrite (slice_ok ct 0 8) by lia. cbn [of_opt bind]. destruct (negb (beq _ header)); [discriminate|].
  rewrite (slice_ok ct 8 16) by lia. cbn [of_opt bind].
  rewrite (fill_cred_ok md5 md5_len). cbn [bind].
  destruct (key_iv_evp md5 md5_len secret (firstn (16 - 8) (skipn 8 ct))) as (Ek & Lk & Li). rewrite Ek. cbn [bind].
  rewrite (slice_ok ct 16 (length ct)) by lia. cbn [of_opt bind].
  set (body := firstn (length ct - 16) (skipn 16 ct)).
  match goal with |- context [cbc_decrypt D ?d0 body ?k ?i] => set (dst := d0); set (key := k) in *; set (iv := i) in * end.
  assert (Hd : length body <= length dst) by (unfold dst; destruct reuse; rewrite ?zeros_length; lia).
  destruct (cbc_decrypt D dst body key iv) as [[n d]|e|] eqn:Ed; cbn [bind]; [|discriminate|].
  - apply cbc_decrypt_sound in Ed. destruct Ed as (_ & _ & _ & _ & k & _ & Hn & _).
    rewrite (slice_ok d 0 n) by lia. cbn [of_opt bind]. discriminate.
  - exfalso. revert Ed. apply cbc_decrypt_total; [exact Li|exact Hd].
Qed.

Section Cbc.
Hypothesis D_E : forall k b, good_key k = true -> length b = 16 -> D k (E k b) = b.
Hypothesis E_len : forall k b, good_key k = true -> length b = 16 -> length (E k b) = 16.

(* ---- format: "Salted__" ++ salt ++ AES-256-CBC(key, iv, PKCS#7(p)) with (key, iv) = EVP_BytesToKey(MD5)(secret, salt) *)
Theorem salt_cbc_encrypt_format salt p s : length salt = 8 ->
  salt_cbc_encrypt E md5 (Some salt) p s =
    Ok (header ++ salt ++ cbc_enc_bytes E (firstn 32 (evp s salt)) (skipn 32 (evp s salt)) (pkcs7_padded p (16 - length p mod 16))) /\
  length (cbc_enc_bytes E (firstn 32 (evp s salt)) (skipn 32 (evp s salt)) (pkcs7_padded p (16 - length p mod 16)))
    = length p + (16 - length p mod 16).
Proof.
  intros Hs. destruct (key_iv_evp md5 md5_len s salt) as (Ek & Lk & Li).
  set (key := firstn 32 (evp s salt)) in *. set (iv := skipn 32 (evp s salt)) in *.
  assert (Hspec := cbc_encrypt_spec E D D_E E_len (zeros (Z.to_nat (cbc_encrypt_len (length p)))) p key iv
                     (good_key_32 key Lk) Li).
  rewrite zeros_length, Z2Nat.id in Hspec by (destruct (cbc_encrypt_len_exact (length p)) as [-> _]; lia).
  specialize (Hspec eq_refl). cbv zeta in Hspec. destruct Hspec as [Eenc Lc]. rewrite ?zeros_length, enc_len_nat in Lc.
  split; [|exact Lc].
  unfold salt_cbc_encrypt, salt_cbc_parts. rewrite (fill_cred_ok md5 md5_len). cbn [bind]. rewrite Ek. cbn [bind].
  rewrite BS_eq. rewrite with_header_spec by (auto; lia). cbn [bind].
  replace (16 + Z.to_nat (cbc_encrypt_len (length p)) - 16) with (Z.to_nat (cbc_encrypt_len (length p))) by lia.
  destruct (Nat.ltb_spec (length (header ++ salt ++ zeros (Z.to_nat (cbc_encrypt_len (length p))))) 16) as [H|_];
    [rewrite !app_length, header_length, Hs in H; lia|].
  rewrite app_assoc. rewrite skipn_len_app, firstn_len_app by (rewrite app_length, header_length, Hs; reflexivity).
  rewrite Eenc. rewrite <- app_assoc. reflexivity.
Qed.

(* ---- SaltBySecretCBCDecrypt inverts SaltBySecretCBCEncrypt, with or without buffer reuse *)
Theorem salt_cbc_roundtrip salt p s reuse : length salt = 8 ->
  exists c, salt_cbc_encrypt E md5 (Some salt) p s = Ok c /\
  exists buf, salt_cbc_decrypt D md5 c s reuse = Ok (p, buf).
Proof.
  intros Hs. destruct (salt_cbc_encrypt_format salt p s Hs) as [Eenc Lc]. eexists. split; [exact Eenc|].
  destruct (key_iv_evp md5 md5_len s salt) as (Ek & Lk & Li).
  set (key := firstn 32 (evp s salt)) in *. set (iv := skipn 32 (evp s salt)) in *.
  destruct (pad_len_facts (length p)) as (K1 & K2 & K3). set (k := 16 - length p mod 16) in *.
  set (C := cbc_enc_bytes E key iv (pkcs7_padded p k)) in *.
  set (ct := header ++ salt ++ C).
  assert (Lct : length ct = 16 + (length p + k)) by (unfold ct; rewrite !app_length, header_length, Hs, Lc; lia).
  unfold salt_cbc_decrypt. rewrite masked_mod, BS_eq.
  destruct (Nat.ltb_spec (length ct) (2 * 16)); [lia|]. cbn [orb].
  assert (Hm : length ct mod 16 = 0).
  { rewrite Lct. apply Nat.mod_divides in K2; [|lia]. destruct K2 as [q Hq]. rewrite Hq.
    replace (16 + 16 * q) with ((1 + q) * 16) by lia. apply Nat.mod_mul. lia. }
  rewrite Hm. cbn [Nat.eqb negb].
  rewrite (slice_ok ct 0 8) by lia. cbn [of_opt bind]. rewrite skipn_O. change (8 - 0) with 8.
  unfold ct at 1. rewrite firstn_len_app by reflexivity. rewrite beq_refl. cbn [negb].
  rewrite (slice_ok ct 8 16) by lia. cbn [of_opt bind]. change (16 - 8) with 8.
  assert (Hsalt : firstn 8 (skipn 8 ct) = salt)
    by (unfold ct; rewrite skipn_len_app by reflexivity; apply firstn_len_app; exact Hs).
  rewrite Hsalt. rewrite (fill_cred_ok md5 md5_len). cbn [bind]. rewrite Ek. cbn [bind].
  rewrite (slice_ok ct 16 (length ct)) by lia. cbn [of_opt bind].
  assert (Hbody : firstn (length ct - 16) (skipn 16 ct) = C).
  { unfold ct. rewrite app_assoc, skipn_len_app by (rewrite app_length, header_length, Hs; reflexivity).
    apply firstn_all2. rewrite !app_length, header_length, Hs. lia. }
  rewrite Hbody.
  set (dst := if reuse then C else zeros (length C)).
  assert (Ld : length dst = length C) by (unfold dst; destruct reuse; rewrite ?zeros_length; reflexivity).
  (* the C08 round trip *)
  destruct (cbc_roundtrip E D D_E E_len (zeros (Z.to_nat (cbc_encrypt_len (length p)))) dst p key iv (good_key_32 key Lk) Li)
    as (c' & Ec' & _ & d & Edec & Hd).
  { rewrite zeros_length, Z2Nat.id; [reflexivity|]. destruct (cbc_encrypt_len_exact (length p)) as [-> _]. lia. }
  { rewrite zeros_length, enc_len_nat, Ld, Lc. reflexivity. }
  assert (c' = C).
  { destruct (cbc_encrypt_spec E D D_E E_len (zeros (Z.to_nat (cbc_encrypt_len (length p)))) p key iv (good_key_32 key Lk) Li) as [E2 _].
    { rewrite zeros_length, Z2Nat.id; [reflexivity|]. destruct (cbc_encrypt_len_exact (length p)) as [-> _]. lia. }
    cbv zeta in E2. fold k in E2. fold C in E2. congruence. }
  subst c'. rewrite Edec. cbn [bind].
  assert (Hdl : length p <= length d).
  { apply cbc_decrypt_sound in Edec. destruct Edec as (_ & _ & _ & _ & kk & _ & Hn & _). lia. }
  rewrite (slice_ok d 0 (length p)) by lia. cbn [of_opt bind]. rewrite skipn_O, Nat.sub_0_r, Hd. eexists. reflexivity.
Qed.

Section B64.
Variable b64enc : bytes -> bytes.
Variable b64dec : bytes -> option bytes.
Hypothesis b64_roundtrip : forall x, b64dec (b64enc x) = Some x.

Theorem encrypt_format salt p s : length salt = 8 ->
  encrypt E md5 b64enc (Some salt) p s =
    Ok (b64enc (header ++ salt ++ cbc_enc_bytes E (firstn 32 (evp s salt)) (skipn 32 (evp s salt)) (pkcs7_padded p (16 - length p mod 16)))).
Proof. intros Hs. unfold encrypt. destruct (salt_cbc_encrypt_format salt p s Hs) as [-> _]. reflexivity. Qed.

Theorem decrypt_encrypt salt p s : length salt = 8 ->
  exists c, encrypt E md5 b64enc (Some salt) p s = Ok c /\ decrypt D md5 b64dec c s = Ok p.
Proof.
  intros Hs. destruct (salt_cbc_roundtrip salt p s true Hs) as (c & Ec & buf & Ed).
  unfold encrypt, decrypt. rewrite Ec. cbn [bind]. eexists. split; [reflexivity|].
  rewrite b64_roundtrip, Ed. reflexivity.
Qed.
End B64.
End Cbc.

Theorem decrypt_total (b64dec : bytes -> option bytes) input secret : decrypt D md5 b64dec input secret <> Panic.
Proof.
  unfold decrypt. destruct (b64dec input) as [src|]; [|discriminate].
  pose proof (salt_cbc_decrypt_total src secret true) as T.
  destruct (salt_cbc_decrypt D md5 src secret true) as [[p b]|e|]; cbn [bind]; [discriminate|discriminate|congruence].
Qed.

(* ---- GCM envelope *)
Section Gcm.
Variable seal : bytes -> bytes -> bytes -> bytes -> bytes.
Variable open : bytes -> bytes -> bytes -> bytes -> option bytes.
Hypothesis open_len : forall k n c a p, open k n c a = Some p -> length c = length p + 16.

Theorem salt_gcm_decrypt_total ct secret ad reuse : salt_gcm_decrypt open md5 ct secret ad reuse <> Panic.
Proof.
  unfold salt_gcm_decrypt. rewrite BS_eq, TAG_eq.
  destruct (Nat.ltb_spec (length ct) 16) as [|Hlen]; [discriminate|].
  rewrite (slice_ok ct 0 8) by lia. cbn [of_opt bind]. destruct (negb (beq _ header)); [discriminate|].
  rewrite (slice_ok ct 8 16) by lia. cbn [of_opt bind].
  rewrite (fill_cred_ok md5 md5_len). cbn [bind].
  destruct (key_nonce_evp md5 md5_len secret (firstn (16 - 8) (skipn 8 ct))) as (Ek & Lk & Ln). rewrite Ek. cbn [bind].
  rewrite (slice_ok ct 16 (length ct)) by lia. cbn [of_opt bind].
  set (body := firstn (length ct - 16) (skipn 16 ct)).
  match goal with |- context [gcm_decrypt open ?d0 body ?k ?n ad] => set (dst := d0); set (key := k) in *; set (nonce := n) in * end.
  assert (Ld : length dst = length body) by (unfold dst; destruct reuse; rewrite ?zeros_length; reflexivity).
  unfold gcm_decrypt. rewrite (good_key_32 _ Lk). cbn [negb].
  destruct nonce as [|x t] eqn:En; [cbn in Ln; lia|]. cbn [length Nat.eqb].
  destruct (open key (x :: t) body ad) as [p|] eqn:Eo; cbn [bind]; [|discriminate].
  apply open_len in Eo. rewrite TAG_eq.
  destruct (Nat.leb_spec (length body - 16) (length dst)); [|lia]. cbn [bind].
  rewrite copy_into_length. destruct (Nat.ltb_spec (length dst) 16); [lia|].
  rewrite slice_ok by (rewrite ?copy_into_length; lia). cbn [of_opt bind]. discriminate.
Qed.

Theorem gcm_decrypt_s_total input secret ad : gcm_decrypt_s open md5 input secret ad <> Panic.
Proof.
  unfold gcm_decrypt_s. destruct (hex_decode input) as [src|]; [|discriminate].
  pose proof (salt_gcm_decrypt_total src secret ad true) as T.
  destruct (salt_gcm_decrypt open md5 src secret ad true) as [[p b]|e|]; cbn [bind]; [discriminate|discriminate|congruence].
Qed.

(* SaltBySecretGCMDecrypt succeeds only where the library's Open succeeds on the body under the derived key and nonce *)
Theorem salt_gcm_decrypt_only_if_open ct secret ad reuse r : salt_gcm_decrypt open md5 ct secret ad reuse = Ok r ->
  16 <= length ct /\ firstn 8 ct = header /\
  let c := evp secret (firstn 8 (skipn 8 ct)) in
  exists p, open (firstn 32 c) (firstn 12 (skipn 32 c)) (skipn 16 ct) ad = Some p.
Proof.
  unfold salt_gcm_decrypt. rewrite BS_eq, TAG_eq.
  destruct (Nat.ltb_spec (length ct) 16) as [|Hlen]; [discriminate|].
  rewrite (slice_ok ct 0 8) by lia. cbn [of_opt bind]. rewrite skipn_O. change (8 - 0) with 8.
  destruct (beq (firstn 8 ct) header) eqn:B; cbn [negb]; [|discriminate]. apply beq_true in B.
  rewrite (slice_ok ct 8 16) by lia. cbn [of_opt bind]. change (16 - 8) with 8.
  rewrite (fill_cred_ok md5 md5_len). cbn [bind].
  destruct (key_nonce_evp md5 md5_len secret (firstn 8 (skipn 8 ct))) as (Ek & Lk & Ln). rewrite Ek. cbn [bind].
  rewrite (slice_ok ct 16 (length ct)) by lia. cbn [of_opt bind].
  rewrite (firstn_all2 (n := length ct - 16)) by (rewrite skipn_length; lia).
  match goal with |- context [gcm_decrypt open ?d0 (skipn 16 ct) ?k ?n ad] => destruct (gcm_decrypt open d0 (skipn 16 ct) k n ad) as [d|e|] eqn:G end; cbn [bind]; [|discriminate|discriminate].
  intros _. apply gcm_decrypt_only_if_open in G. destruct G as (_ & _ & p & Hp). split; [lia|]. split; [exact B|]. eauto.
Qed.

Section GcmRt.
Hypothesis open_seal : forall k n p a, good_key k = true -> n <> [] -> open k n (seal k n p a) a = Some p.
Hypothesis seal_len : forall k n p a, length (seal k n p a) = length p + 16.

Theorem salt_gcm_encrypt_format salt p s ad : length salt = 8 ->
  salt_gcm_encrypt seal md5 (Some salt) p s ad =
    Ok (header ++ salt ++ seal (firstn 32 (evp s salt)) (firstn 12 (skipn 32 (evp s salt))) p ad).
Proof.
  intros Hs. destruct (key_nonce_evp md5 md5_len s salt) as (Ek & Lk & Ln).
  unfold salt_gcm_encrypt. rewrite (fill_cred_ok md5 md5_len). cbn [bind]. rewrite Ek. cbn [bind].
  unfold gcm_encrypt_len. change gcm_tag_size with 16%Z. rewrite BS_eq.
  replace (Z.to_nat (Z.of_nat (length p) + 16)) with (length p + 16) by lia.
  rewrite with_header_spec by (auto; lia). cbn [bind].
  replace (16 + (length p + 16) - 16) with (length p + 16) by lia.
  destruct (Nat.ltb_spec (length (header ++ salt ++ zeros (length p + 16))) 16) as [H|_];
    [rewrite !app_length, header_length, Hs in H; lia|].
  rewrite app_assoc. rewrite skipn_len_app, firstn_len_app by (rewrite app_length, header_length, Hs; reflexivity).
  set (key := firstn 32 (evp s salt)) in *. set (nonce := firstn 12 (skipn 32 (evp s salt))) in *.
  assert (Hn : nonce <> []) by (intros E0; rewrite E0 in Ln; cbn in Ln; lia).
  destruct (gcm_roundtrip seal open open_seal seal_len (zeros (length p + 16)) (zeros (length p)) p key nonce ad (good_key_32 key Lk) Hn) as [G _].
  { rewrite zeros_length. unfold gcm_encrypt_len. change gcm_tag_size with 16%Z. lia. }
  { rewrite !zeros_length. unfold gcm_decrypt_len. change gcm_tag_size with 16%Z. lia. }
  rewrite G. rewrite <- app_assoc. reflexivity.
Qed.

Theorem salt_gcm_roundtrip salt p s ad reuse : length salt = 8 ->
  exists c, salt_gcm_encrypt seal md5 (Some salt) p s ad = Ok c /\
  exists buf, salt_gcm_decrypt open md5 c s ad reuse = Ok (p, buf).
Proof.
  intros Hs. rewrite (salt_gcm_encrypt_format salt p s ad Hs). eexists. split; [reflexivity|].
  destruct (key_nonce_evp md5 md5_len s salt) as (Ek & Lk & Ln).
  set (key := firstn 32 (evp s salt)) in *. set (nonce := firstn 12 (skipn 32 (evp s salt))) in *.
  assert (Hn : nonce <> []) by (intros E0; rewrite E0 in Ln; cbn in Ln; lia).
  set (C := seal key nonce p ad). assert (Lc : length C = length p + 16) by apply seal_len.
  set (ct := header ++ salt ++ C).
  assert (Lct : length ct = 16 + (length p + 16)) by (unfold ct; rewrite !app_length, header_length, Hs, Lc; lia).
  unfold salt_gcm_decrypt. rewrite BS_eq, TAG_eq. destruct (Nat.ltb_spec (length ct) 16); [lia|].
  rewrite (slice_ok ct 0 8) by lia. cbn [of_opt bind]. rewrite skipn_O. change (8 - 0) with 8.
  unfold ct at 1. rewrite firstn_len_app by reflexivity. rewrite beq_refl. cbn [negb].
  rewrite (slice_ok ct 8 16) by lia. cbn [of_opt bind]. change (16 - 8) with 8.
  assert (Hsalt : firstn 8 (skipn 8 ct) = salt)
    by (unfold ct; rewrite skipn_len_app by reflexivity; apply firstn_len_app; exact Hs).
  rewrite Hsalt. rewrite (fill_cred_ok md5 md5_len). cbn [bind]. rewrite Ek. cbn [bind].
  rewrite (slice_ok ct 16 (length ct)) by lia. cbn [of_opt bind].
  assert (Hbody : firstn (length ct - 16) (skipn 16 ct) = C).
  { unfold ct. rewrite app_assoc, skipn_len_app by (rewrite app_length, header_length, Hs; reflexivity).
    apply firstn_all2. rewrite !app_length, header_length, Hs. lia. }
  rewrite Hbody.
  set (dst := if reuse then C else zeros (length C)).
  assert (Ld : length dst = length p + 16) by (unfold dst; destruct reuse; rewrite ?zeros_length; lia).
  unfold gcm_decrypt. rewrite (good_key_32 key Lk). cbn [negb].
  assert (Hn0 : (length nonce =? 0) = false) by (rewrite Ln; reflexivity). rewrite Hn0.
  unfold C at 1. rewrite open_seal by (auto using good_key_32). rewrite TAG_eq, Lc.
  destruct (Nat.leb_spec (length p + 16 - 16) (length dst)); [|lia]. cbn [bind].
  rewrite copy_into_length, Ld. destruct (Nat.ltb_spec (length p + 16) 16); [lia|].
  rewrite slice_ok by (rewrite ?copy_into_length; lia). cbn [of_opt bind]. rewrite skipn_O, Nat.sub_0_r.
  replace (length p + 16 - 16) with (length p) by lia.
  rewrite copy_into_prefix by lia. rewrite firstn_len_app by reflexivity. eexists. reflexivity.
Qed.

(* GCMDecrypt (GCMEncrypt p) = p through the hex layer (bytes are 0..255) *)
Theorem gcm_decrypt_encrypt salt p s ad : length salt = 8 -> Forall is_byte salt ->
  (forall k n, Forall is_byte (seal k n p ad)) ->
  exists c, gcm_encrypt_s seal md5 (Some salt) p s ad = Ok c /\ gcm_decrypt_s open md5 c s ad = Ok p.
Proof.
  intros Hs Hb Hsb. pose proof (salt_gcm_encrypt_format salt p s ad Hs) as Ef.
  destruct (salt_gcm_roundtrip salt p s ad true Hs) as (c & Ec & buf & Ed).
  assert (Hc : c = header ++ salt ++ seal (firstn 32 (evp s salt)) (firstn 12 (skipn 32 (evp s salt))) p ad) by congruence.
  unfold gcm_encrypt_s, gcm_decrypt_s. rewrite Ec. cbn [bind]. eexists. split; [reflexivity|].
  rewrite hex_roundtrip, Ed; [reflexivity|]. rewrite Hc.
  apply Forall_app. split; [|apply Forall_app; split; [exact Hb|apply Hsb]].
  unfold header, fixed_salt_header. repeat constructor; unfold is_byte; lia.
Qed.
End GcmRt.
End Gcm.
End Env.
