(* C03: RoaringBitmapIter.  The outer iterator (node, inner) with a fresh inner iterator per bucket enumerates exactly
   the member list [all], bucket by bucket, for both container kinds; hence Iter = Range = All = the specification's list. *)
From Coq Require Import List ZArith NArith Lia Bool Arith ZifyN ZifyNat ZifyBool Sorted.
From V Require Import Lib.Enc Gen.Roaring Model.Bits Model.Roaring.
From V Require Import Proofs.BitsBasic Proofs.BitsBulk Proofs.BitsIter Proofs.BitsRefine Proofs.RoaringArr Proofs.RoaringCont Proofs.RoaringTop.
Import ListNotations.
Local Open Scope N_scope.
Ltac Zify.zify_post_hook ::= Z.div_mod_to_equations.

(* ---------------------------------------------------------------- the bitmap inner iterator on the word suffix *)
Lemma scan_bits_spec w : forall fuel j, j <= 64 -> (N.to_nat (64 - j) < fuel)%nat ->
  match scan_bits fuel w j with
  | Some j' => j <= j' /\ j' < 64 /\ N.testbit w j' = true /\ (forall q, j <= q -> q < j' -> N.testbit w q = false)
  | None => forall q, j <= q -> q < 64 -> N.testbit w q = false
  end.
Proof.
  induction fuel as [|f IH]; intros j Hj Hf; [lia|]. cbn [scan_bits].
  destruct (N.ltb_spec j 64) as [Hlt|Hge]; [|intros q H1 H2; lia].
  change (N.shiftl 1 j) with (mask j). rewrite land_mask_zero, negb_involutive.
  destruct (N.testbit w j) eqn:Eb.
  - repeat split; auto; try (intros; lia).
  - specialize (IH (j + 1) ltac:(lia) ltac:(lia)). destruct (scan_bits f w (j + 1)) as [j'|].
    + destruct IH as (A & B & C & D). repeat split; auto; try lia. intros q H1 H2.
      destruct (N.eq_dec q j) as [->|Hne]; [exact Eb|]. apply D; lia.
    + intros q H1 H2. destruct (N.eq_dec q j) as [->|Hne]; [exact Eb|]. apply IH; lia.
Qed.

Lemma mem_word set i q : q < 64 -> mem set (N.of_nat i * 64 + q) = N.testbit (nth i set 0) q.
Proof.
  intros Hq. unfold mem.
  replace ((N.of_nat i * 64 + q) / 64) with (N.of_nat i) by (apply N.div_unique with q; lia).
  replace ((N.of_nat i * 64 + q) mod 64) with q by (apply N.mod_unique with (N.of_nat i); lia).
  rewrite Nat2N.id. reflexivity.
Qed.
Lemma skipn_cons_nth (set : list N) : forall i w t, skipn i set = w :: t -> w = nth i set 0 /\ t = skipn (S i) set /\ (i < length set)%nat.
Proof.
  induction set as [|a l IH]; intros [|i] w t H; cbn [skipn] in H; try discriminate.
  - inversion H; subst. cbn [nth skipn length]. repeat split. lia.
  - destruct (IH i w t H) as (A & B & C). cbn [nth length]. repeat split; auto. lia.
Qed.

Lemma scan_w_spec set : forall ws i j, ws = skipn i set -> j <= 64 ->
  match scan_w ws i j with
  | Some (i', j') => j' < 64 /\ (i' < length set)%nat /\ mem set (N.of_nat i' * 64 + j') = true /\
                     N.of_nat i * 64 + j <= N.of_nat i' * 64 + j' /\
                     (forall p, N.of_nat i * 64 + j <= p -> p < N.of_nat i' * 64 + j' -> mem set p = false)
  | None => forall p, N.of_nat i * 64 + j <= p -> mem set p = false
  end.
Proof.
  induction ws as [|w t IH]; intros i j Hws Hj; cbn [scan_w].
  - intros p Hp. apply (mem_beyond set i j); auto.
    destruct (Nat.le_gt_cases (length set) i) as [|Hlt]; [assumption|].
    exfalso. assert (length (skipn i set) = 0%nat) by (rewrite <- Hws; reflexivity). rewrite skipn_length in *. lia.
  - destruct (skipn_cons_nth set i w t (eq_sym Hws)) as (Ew & Et & Hi).
    pose proof (scan_bits_spec w 65 j Hj ltac:(lia)) as SB. destruct (scan_bits 65 w j) as [j'|].
    + destruct SB as (A & B & C & D). repeat split; auto; try lia.
      * rewrite mem_word by exact B. rewrite <- Ew. exact C.
      * intros p H1 H2. replace p with (N.of_nat i * 64 + (p - N.of_nat i * 64)) by lia.
        rewrite mem_word by lia. rewrite <- Ew. apply D; lia.
    + specialize (IH (S i) 0 Et ltac:(lia)).
      assert (Hword : forall p, N.of_nat i * 64 + j <= p -> p < N.of_nat (S i) * 64 -> mem set p = false).
      { intros p H1 H2. replace p with (N.of_nat i * 64 + (p - N.of_nat i * 64)) by lia.
        rewrite mem_word by lia. rewrite <- Ew. apply SB; lia. }
      destruct (scan_w t (S i) 0) as [[i' j']|].
      * destruct IH as (A & B & C & D & E). repeat split; auto; try lia.
        intros p H1 H2. destruct (N.ltb_spec p (N.of_nat (S i) * 64)); [apply Hword; lia|apply E; lia].
      * intros p Hp. destruct (N.ltb_spec p (N.of_nat (S i) * 64)); [apply Hword; lia|apply IH; lia].
Qed.

(* bnext obeys the specification of BitmapIter.Next (the same statement as BitsIter.next_spec) *)
Theorem bnext_spec set it : wf it ->
  match bnext set it with
  | Some it' => rd it' = true /\ bj it' < 64 /\ mem set (value it') = true /\ lo_of it <= value it' /\
                (forall p, lo_of it <= p -> p < value it' -> mem set p = false)
  | None => forall p, lo_of it <= p -> mem set p = false
  end.
Proof.
  intros [H1 H2]. unfold bnext, lo_of, value.
  set (j0 := if rd it then bj it + 1 else bj it).
  assert (Hj0 : j0 <= 64) by (unfold j0; destruct (rd it); [specialize (H1 eq_refl); lia|apply H2; reflexivity]).
  pose proof (scan_w_spec set (skipn (wi it) set) (wi it) j0 eq_refl Hj0) as S.
  assert (Elo : (if rd it then N.of_nat (wi it) * 64 + bj it + 1 else N.of_nat (wi it) * 64 + bj it) = N.of_nat (wi it) * 64 + j0)
    by (unfold j0; destruct (rd it); lia).
  rewrite Elo. destruct (scan_w (skipn (wi it) set) (wi it) j0) as [[i' j']|]; cbn [wi bj rd].
  - destruct S as (A & B & C & D & E). repeat split; auto.
  - exact S.
Qed.

(* what a bitmap iterator still has to yield: the members at or after its position, ascending *)
Definition members_from (set : list N) (lo : N) : list N := filter (fun p => lo <=? p) (mlist 0 set).
Lemma members_from_In set lo p : In p (members_from set lo) <-> lo <= p /\ mem set p = true.
Proof. unfold members_from. rewrite filter_In, mlist_In. destruct (N.leb_spec lo p); intuition (try lia; try discriminate). Qed.
Lemma members_from_sorted set lo : StronglySorted N.lt (members_from set lo).
Proof. apply sorted_filter, mlist_sorted0. Qed.
Lemma members_from_0 set : members_from set 0 = mlist 0 set.
Proof. unfold members_from. induction (mlist 0 set) as [|a l IH]; cbn [filter]; [reflexivity|]. rewrite IH. destruct a; reflexivity. Qed.

Lemma bnext_members set it : wf it ->
  match bnext set it with
  | Some it' => wf it' /\ members_from set (lo_of it) = value it' :: members_from set (lo_of it')
  | None => members_from set (lo_of it) = []
  end.
Proof.
  intros W. pose proof (bnext_spec set it W) as S. destruct (bnext set it) as [it'|].
  - destruct S as (A & B & C & D & E). split; [split; intros H; [exact B|congruence]|].
    assert (L' : lo_of it' = value it' + 1) by (unfold lo_of; rewrite A; reflexivity). rewrite L'.
    apply sorted_ext; [apply members_from_sorted| |].
    + constructor; [apply members_from_sorted|]. apply Forall_forall. intros p Hp. apply members_from_In in Hp. lia.
    + intros p. cbn [In]. rewrite !members_from_In. split.
      * intros [Hp Hm]. destruct (N.eq_dec (value it') p) as [->|Hne]; [left; reflexivity|right]. split; auto.
        destruct (N.ltb_spec p (value it')) as [Hlt|]; [|lia]. rewrite (E p Hp Hlt) in Hm. discriminate.
      * intros [<-|[Hp Hm]]; split; auto; lia.
  - destruct (members_from set (lo_of it)) as [|p l] eqn:Em; [reflexivity|].
    assert (Hin : In p (members_from set (lo_of it))) by (rewrite Em; left; reflexivity).
    apply members_from_In in Hin. destruct Hin as [Hp Hm]. rewrite (S p Hp) in Hm. discriminate.
Qed.

(* ---------------------------------------------------------------- inner iterators of both kinds *)
Definition ipending (c : container) (i : inner) : list N :=
  match c, i with
  | Arr v, IArr n => skipn (N.to_nat n) v
  | Bmp b, IBmp it => members_from (words b) (lo_of it)
  | _, _ => []
  end.
Definition iwf (c : container) (i : inner) : Prop :=
  match c, i with Arr _, IArr _ => True | Bmp _, IBmp it => wf it | _, _ => False end.

Lemma c_iter_wf c : iwf c (c_iter c).
Proof. destruct c; cbn; auto. split; cbn; intros; [discriminate|lia]. Qed.
Lemma c_iter_pending c : ipending c (c_iter c) = cset c.
Proof. destruct c as [v|b]; cbn [ipending c_iter cset]; [reflexivity|]. unfold lo_of, value; cbn [rd wi bj]. apply members_from_0. Qed.

Lemma skipn_step (v : list N) n : (n < length v)%nat -> skipn n v = nth n v 0 :: skipn (S n) v.
Proof. revert n. induction v as [|a l IH]; intros [|n] H; cbn [length] in H; try lia; cbn [skipn nth]; [reflexivity|]. apply IH. lia. Qed.

Lemma inner_next_spec c i : cwf c -> iwf c i ->
  match inner_next c i with
  | Some i' => iwf c i' /\ ipending c i = inner_value c i' :: ipending c i'
  | None => ipending c i = []
  end.
Proof.
  intros Wc Wi. destruct c as [v|b], i as [n|it]; cbn [iwf] in Wi; try contradiction; cbn [inner_next ipending inner_value].
  - rewrite lenN_length. destruct (N.ltb_spec n (N.of_nat (length v))) as [Hlt|Hge].
    + split; [exact I|]. rewrite nthN_nth. replace (N.to_nat (N.pred (n + 1))) with (N.to_nat n) by lia.
      replace (N.to_nat (n + 1)) with (S (N.to_nat n)) by lia. apply skipn_step. lia.
    + apply skipn_all2. lia.
  - pose proof (bnext_members (words b) it Wi) as S. destruct (bnext (words b) it) as [it'|]; [|exact S].
    destruct S as [W' E]. split; [exact W'|]. cbn [ipending inner_value]. rewrite E. f_equal.
    (* uint16(Value()) is the value: members of a bmp_words-word bitmap are below 65536 *)
    destruct Wc as (_ & B & _). cbn [cset] in B. rewrite Forall_forall in B.
    assert (Hin : In (value it') (members_from (words b) (lo_of it))) by (rewrite E; left; reflexivity).
    apply members_from_In in Hin. destruct Hin as [_ Hm]. apply mlist_In in Hm. specialize (B _ Hm).
    change 65535 with (N.ones 16). rewrite N.land_ones. change (2 ^ 16) with 65536. rewrite N.mod_small by exact B. reflexivity.
Qed.

(* ---------------------------------------------------------------- the outer iterator *)
Definition pending (s : riter) : list N :=
  match nodes s with
  | [] => []
  | (k, c) :: rest => map (join k) (ipending c (match inn s with Some i => i | None => c_iter c end)) ++ all rest
  end.
Definition swf (s : riter) : Prop :=
  (forall k c, In (k, c) (nodes s) -> cwf c) /\
  match nodes s, inn s with (k, c) :: _, Some i => iwf c i | _, _ => True end.

Lemma pending_fresh m : pending {| nodes := m; inn := None |} = all m.
Proof. unfold pending. cbn [nodes inn]. destruct m as [|[k c] rest]; [reflexivity|]. rewrite c_iter_pending. reflexivity. Qed.

Lemma r_next_spec : forall fuel s, swf s -> (length (nodes s) < fuel)%nat ->
  match r_next fuel s with
  | Some s' => swf s' /\ pending s = r_value s' :: pending s' /\ (length (nodes s') <= length (nodes s))%nat
  | None => pending s = []
  end.
Proof.
  induction fuel as [|f IH]; intros [ns i0] [Hc Hi] Hf; [lia|]. cbn [r_next nodes inn] in *.
  destruct ns as [|[k c] rest]; [reflexivity|].
  assert (Wc : cwf c) by (apply (Hc k c); left; reflexivity).
  set (cur := match i0 with Some i => i | None => c_iter c end).
  assert (Wcur : iwf c cur) by (unfold cur; destruct i0; [exact Hi|apply c_iter_wf]).
  pose proof (inner_next_spec c cur Wc Wcur) as S. destruct (inner_next c cur) as [cur'|].
  - destruct S as [W' E]. split; [split; [exact Hc|exact W']|]. split; [|cbn [nodes]; lia].
    unfold pending, r_value. cbn [nodes inn]. fold cur. rewrite E. reflexivity.
  - specialize (IH {| nodes := rest; inn := None |}).
    assert (Wr : swf {| nodes := rest; inn := None |}).
    { split; cbn [nodes inn]; [intros k' c' Hin; apply (Hc k' c'); right; exact Hin|destruct rest as [|[? ?] ?]; exact I]. }
    specialize (IH Wr ltac:(cbn [nodes length] in *; lia)).
    assert (Ep : pending {| nodes := (k, c) :: rest; inn := i0 |} = pending {| nodes := rest; inn := None |}).
    { unfold pending at 1. cbn [nodes inn]. fold cur. rewrite S. cbn [map app]. symmetry. apply pending_fresh. }
    rewrite Ep. destruct (r_next f {| nodes := rest; inn := None |}) as [s'|]; [|exact IH].
    destruct IH as (A & B & C). split; [exact A|]. split; [exact B|]. cbn [nodes length] in *. lia.
Qed.

Lemma r_drain_spec : forall fuel s, swf s -> (length (pending s) < fuel)%nat -> r_drain fuel s = pending s.
Proof.
  induction fuel as [|f IH]; intros s W Hf; [lia|]. cbn [r_drain].
  pose proof (r_next_spec (Datatypes.S (length (nodes s))) s W ltac:(lia)) as HS.
  destruct (r_next (Datatypes.S (length (nodes s))) s) as [s'|]; [|symmetry; exact HS].
  destruct HS as (W' & E & _). rewrite E in *. f_equal. apply IH; [exact W'|]. cbn [length] in Hf. lia.
Qed.

(* C03, Iter: Next/Value from a fresh iterator yield every member exactly once, ascending, across all buckets and kinds *)
Theorem r_iter_spec r s : Inv r s -> r_iter r = s.
Proof.
  intros [K G A L Bf]. unfold r_iter. rewrite r_drain_spec.
  - rewrite pending_fresh. symmetry. exact A.
  - split; cbn [nodes inn]; [intros k c Hin; apply (G k c Hin)|destruct (conts r) as [|[? ?] ?]; exact I].
  - rewrite pending_fresh, <- A, L. lia.
Qed.
Print Assumptions r_iter_spec.
