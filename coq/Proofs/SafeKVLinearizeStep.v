(* C12, linearizability of the call-driven machine, part 1: what one step of [cstep] does to the fields the linearization
   argument looks at (which call a thread is in, its phase, the lock it holds, its snapshot, the lock word, the map). *)
From Coq Require Import List Arith Lia Bool ZArith.
From V Require Import Lib.Enc Gen.SafeKVSkel Model.SafeKV Model.SafeKVCalls Model.SafeKVHist
  Proofs.SafeKVInv Proofs.SafeKVConc Proofs.SafeKVSkelOk Proofs.SafeKVExec Proofs.SafeKVCalls.
Import ListNotations.

(* ---------------------------------------------------------------- lists *)
Lemma nth_error_upd {A} (l : list A) i t x j : nth_error l i = Some t ->
  nth_error (upd l i x) j = if j =? i then Some x else nth_error l j.
Proof.
  revert i j; induction l as [|a l IH]; intros [|i] [|j] H; cbn [nth_error upd] in *; try discriminate; auto.
  cbn [Nat.eqb]. apply IH; auto.
Qed.
Lemma upd_length {A} (l : list A) i x : length (upd l i x) = length l.
Proof. revert i; induction l as [|a l IH]; intros [|i]; cbn [upd length]; auto. Qed.
Lemma nth_upd_other {A} (l : list A) i x j d : j <> i -> nth j (upd l i x) d = nth j l d.
Proof.
  revert i j; induction l as [|a l IH]; intros [|i] [|j] H; cbn [nth upd]; auto; try lia; try (apply IH; lia).
Qed.
Lemma nth_upd_same {A} (l : list A) i x d : i < length l -> nth i (upd l i x) d = x.
Proof. revert i; induction l as [|a l IH]; intros [|i] H; cbn [nth upd length] in *; auto; try lia; try (apply IH; lia). Qed.

(* ---------------------------------------------------------------- the event a thread inside a call executes next *)
Definition cnext (t : cthread) : option ev :=
  match cur (base t) with
  | e :: _ => Some e
  | [] => if cinb t then None else match rest (base t) with E e :: _ => Some e | _ => None end
  end.

Lemma cnext_code t e : cnext t = Some e -> exists tl, code (base t) = E e :: tl.
Proof.
  unfold cnext, code. destruct (cur (base t)) as [|e0 cd].
  - destruct (cinb t); [discriminate|]. destruct (rest (base t)) as [|[e0|b] r]; try discriminate.
    intros H; inversion H; subst. cbn [map app]. eauto.
  - intros H; inversion H; subst. cbn [map app]. eauto.
Qed.

Definition lock_after (e : ev) (l : lockst) : lockst :=
  match e with
  | Acq W => {| writer := true; readers := readers l |}
  | Acq R => {| writer := writer l; readers := S (readers l) |}
  | Rel W => {| writer := false; readers := readers l |}
  | Rel R => {| writer := writer l; readers := pred (readers l) |}
  | _ => l
  end.

(* one step of thread i, by kind *)
Inductive kind (c : cconfig) (nc : call) (t : cthread) (l' : lockst) (m' : map_) (t' : cthread) : Prop :=
| k_invoke : ccall t = None -> l' = clk c -> m' = cmp c -> ccall t' = Some nc -> cph t' = 0 ->
    hold (base t') = hold (base t) -> snap (base t') = snap (base t) -> clog t' = clog t -> kind c nc t l' m' t'
| k_return cl : ccall t = Some cl -> returning t = true -> l' = clk c -> m' = cmp c -> ccall t' = None -> base t' = base t ->
    clog t' = clog t ++ [(cl, snap (base t), cfin t, result cl (cobs t) (cits t))] -> kind c nc t l' m' t'
| k_quiet cl : ccall t = Some cl -> returning t = false -> l' = clk c -> ccall t' = Some cl -> cph t' = cph t ->
    hold (base t') = hold (base t) -> snap (base t') = snap (base t) ->
    (m' = cmp c \/ exists lo, cnext t = Some (Wr lo)) -> clog t' = clog t -> kind c nc t l' m' t'
| k_acquire cl md : ccall t = Some cl -> returning t = false -> cnext t = Some (Acq md) -> l' = lock_after (Acq md) (clk c) ->
    m' = cmp c -> ccall t' = Some cl -> cph t' = 1 -> hold (base t') = Some md -> snap (base t') = cmp c ->
    writer (clk c) = false -> clog t' = clog t -> kind c nc t l' m' t'
| k_release cl md : ccall t = Some cl -> returning t = false -> cnext t = Some (Rel md) -> l' = lock_after (Rel md) (clk c) ->
    m' = cmp c -> ccall t' = Some cl -> cph t' = 2 -> cfin t' = cmp c -> hold (base t') = None ->
    snap (base t') = snap (base t) -> clog t' = clog t -> kind c nc t l' m' t'.

(* an event executed by a thread that holds no lock when the event is an acquisition *)
Lemma cexec_kind c nc t cl e cd rs ch l' m' t' :
  ccall t = Some cl -> returning t = false -> cnext t = Some e ->
  (forall md, e = Acq md -> hold (base t) = None) ->
  cexec (clk c) (cmp c) t e cd rs ch = (l', m', t') -> kind c nc t l' m' t'.
Proof.
  intros Ec Hret Hn Hacq Hex. unfold cexec in Hex. destruct e as [md|md|lo|lo|]; cbn [exec_ev] in Hex.
  - specialize (Hacq md eq_refl). destruct md.
    + destruct (negb (writer (clk c))) eqn:Ew; inversion Hex; subst; clear Hex.
      * apply (k_acquire c nc t _ _ _ cl R); cbn [ccall cph base hold snap negb clog]; auto. apply negb_true_iff; auto.
      * apply (k_quiet c nc t _ _ _ cl); cbn [ccall cph base hold snap clog]; auto. rewrite Hacq. reflexivity.
    + destruct (negb (writer (clk c)) && (readers (clk c) =? 0)) eqn:Ew; inversion Hex; subst; clear Hex.
      * apply andb_prop in Ew as [Ew _]. apply (k_acquire c nc t _ _ _ cl W); cbn [ccall cph base hold snap negb clog]; auto. apply negb_true_iff; auto.
      * apply (k_quiet c nc t _ _ _ cl); cbn [ccall cph base hold snap clog]; auto. rewrite Hacq. reflexivity.
  - destruct md; inversion Hex; subst; clear Hex.
    + apply (k_release c nc t _ _ _ cl R); cbn [ccall cph cfin base hold snap clog]; auto.
    + apply (k_release c nc t _ _ _ cl W); cbn [ccall cph cfin base hold snap clog]; auto.
  - inversion Hex; subst; clear Hex. apply (k_quiet c nc t _ _ _ cl); cbn [ccall cph base hold snap clog]; auto.
  - inversion Hex; subst; clear Hex. apply (k_quiet c nc t _ _ _ cl); cbn [ccall cph base hold snap clog]; eauto.
  - inversion Hex; subst; clear Hex. apply (k_quiet c nc t _ _ _ cl); cbn [ccall cph base hold snap with_code clog]; auto.
Qed.

(* a thread that is about to acquire holds nothing (lock discipline of its remaining code) *)
Lemma acq_holds_nothing c i t md : CInv c -> nth_error (cths c) i = Some t -> cnext t = Some (Acq md) -> hold (base t) = None.
Proof.
  intros [HI _] Hi Hn. destruct HI as [Ht _ _ _]. rewrite Forall_forall in Ht.
  assert (Htok : tok (cmp c) (base t)) by (apply Ht; cbn [proj ths]; apply in_map; eapply nth_error_In; eauto).
  destruct Htok as [Hwl _]. destruct (cnext_code _ _ Hn) as [tl E0]. rewrite E0 in Hwl. cbn [wl] in Hwl.
  destruct (hold (base t)); [discriminate|reflexivity].
Qed.

Theorem cstep_kind c i nc t : CInv c -> nth_error (cths c) i = Some t ->
  exists l' m' t', cstep c (i, nc) = {| clk := l'; cmp := m'; cths := upd (cths c) i t' |} /\ kind c nc t l' m' t'.
Proof.
  intros HC Hi. pose proof (fun md => acq_holds_nothing c i t md HC Hi) as Hacq.
  unfold cstep. rewrite Hi. destruct (ccall t) as [cl|] eqn:Ec.
  - destruct (cur (base t)) as [|e cd] eqn:Ecur.
    + destruct (cinb t) eqn:Einb.
      * do 3 eexists. split; [reflexivity|]. apply (k_quiet c nc t _ _ _ cl); cbn [ccall cph base clog]; auto.
        unfold returning. rewrite Ec, Ecur, Einb. reflexivity.
      * destruct (rest (base t)) as [|[e|b] r] eqn:Er.
        -- do 3 eexists. split; [reflexivity|]. apply (k_return c nc t _ _ _ cl); cbn [ccall clog base]; auto.
           unfold returning. rewrite Ec, Ecur, Einb, Er. reflexivity.
        -- destruct (cexec (clk c) (cmp c) t e [] r (choice_of i t nc)) as [[l' m'] t'] eqn:Ex. exists l', m', t'. split; [reflexivity|].
           assert (Hn : cnext t = Some e) by (unfold cnext; rewrite Ecur, Einb, Er; reflexivity).
           assert (Hret : returning t = false) by (unfold returning; rewrite Ec, Ecur, Einb, Er; reflexivity).
           apply (cexec_kind c nc t cl e [] r (choice_of i t nc) l' m' t' Ec Hret Hn); [intros md ->; eapply Hacq; eauto|exact Ex].
        -- assert (Hret : returning t = false) by (unfold returning; rewrite Ec, Ecur, Einb, Er; reflexivity).
           destruct (again_ cl (cobs t) (cit t)); do 3 eexists; (split; [reflexivity|]);
             apply (k_quiet c nc t _ _ _ cl); cbn [ccall cph base with_code hold snap clog]; auto.
    + destruct (cexec (clk c) (cmp c) t e cd (rest (base t)) (choice_of i t nc)) as [[l' m'] t'] eqn:Ex. exists l', m', t'. split; [reflexivity|].
      assert (Hn : cnext t = Some e) by (unfold cnext; rewrite Ecur; reflexivity).
      assert (Hret : returning t = false) by (unfold returning; rewrite Ec, Ecur; reflexivity).
      apply (cexec_kind c nc t cl e cd (rest (base t)) (choice_of i t nc) l' m' t' Ec Hret Hn); [intros md ->; eapply Hacq; eauto|exact Ex].
  - do 3 eexists. split; [reflexivity|]. apply k_invoke; cbn [ccall cph base with_code hold snap clog]; auto.
Qed.

(* ---------------------------------------------------------------- what the invariant CInv says about the thread in each kind *)
Lemma thread_tok c i t : CInv c -> nth_error (cths c) i = Some t -> tok (cmp c) (base t).
Proof.
  intros [HI _] Hi. destruct HI as [Ht _ _ _]. rewrite Forall_forall in Ht. apply Ht. cbn [proj ths]. apply in_map. eapply nth_error_In; eauto.
Qed.
Lemma thread_cok c i t : CInv c -> nth_error (cths c) i = Some t -> cok (cmp c) t.
Proof. intros [_ Hth] Hi. rewrite Forall_forall in Hth. apply Hth. eapply nth_error_In; eauto. Qed.

(* phases and locks: phase 1 = inside the critical section *)
Lemma phase_hold m t cl : cok m t -> ccall t = Some cl -> (hold (base t) <> None <-> cph t = 1).
Proof.
  intros [_ Hc] Ec. rewrite Ec in Hc. destruct Hc as (_ & _ & Hph). destruct (cph t) as [|[|p]].
  - destruct Hph as [A _]. split; [congruence|discriminate].
  - destruct Hph as [A _]. split; auto.
  - destruct Hph as (A & _). split; [congruence|discriminate].
Qed.

(* before an acquisition the phase is 0 *)
Lemma acq_phase0 c i t cl md : CInv c -> nth_error (cths c) i = Some t -> ccall t = Some cl -> cnext t = Some (Acq md) -> cph t = 0.
Proof.
  intros HC Hi Ec Hn. destruct (thread_cok c i t HC Hi) as [_ Hc]. rewrite Ec in Hc. destruct Hc as (Hna & _ & _).
  destruct (cnext_code _ _ Hn) as [tl E0]. rewrite E0 in Hna. destruct (cph t) as [|p]; auto.
  cbn [Nat.eqb] in Hna. unfold n_acq in Hna. cbn [filter length] in Hna. lia.
Qed.

(* before a release the thread holds the lock in that mode, in phase 1 *)
Lemma rel_holds c i t cl md : CInv c -> nth_error (cths c) i = Some t -> ccall t = Some cl -> cnext t = Some (Rel md) ->
  hold (base t) = Some md /\ cph t = 1.
Proof.
  intros HC Hi Ec Hn. destruct (thread_tok c i t HC Hi) as [Hwl _]. destruct (cnext_code _ _ Hn) as [tl E0]. rewrite E0 in Hwl.
  assert (Hh : hold (base t) = Some md) by (destruct (hold (base t)) as [[|]|]; destruct md; cbn [wl] in Hwl; try discriminate; reflexivity).
  split; auto. apply (phase_hold (cmp c) t cl); auto; [eapply thread_cok; eauto|congruence].
Qed.

(* a write is executed under the write lock *)
Lemma wr_holds c i t lo : CInv c -> nth_error (cths c) i = Some t -> cnext t = Some (Wr lo) -> hold (base t) = Some W.
Proof.
  intros HC Hi Hn. destruct (thread_tok c i t HC Hi) as [Hwl _]. destruct (cnext_code _ _ Hn) as [tl E0]. rewrite E0 in Hwl.
  cbn [wl acc_ok] in Hwl. apply andb_prop in Hwl as [Ha _]. destruct (hold (base t)) as [[|]|]; try discriminate; reflexivity.
Qed.

(* a returning thread has left its critical section *)
Lemma return_phase2 c i t cl : CInv c -> nth_error (cths c) i = Some t -> ccall t = Some cl -> returning t = true -> 2 <= cph t.
Proof.
  intros HC Hi Ec Hr. pose proof (thread_cok c i t HC Hi) as Hok. destruct (thread_tok c i t HC Hi) as [Hwl _].
  unfold returning in Hr. rewrite Ec in Hr. unfold code in Hwl.
  destruct (cur (base t)) eqn:Ecur; [|discriminate]. destruct (cinb t); [discriminate|]. destruct (rest (base t)) eqn:Er; [|discriminate].
  cbn [map app] in Hwl. apply wl_nil in Hwl.
  destruct Hok as [_ Hc]. rewrite Ec in Hc. destruct Hc as (Hna & _ & Hph). unfold code in Hna. rewrite Ecur, Er in Hna.
  destruct (cph t) as [|[|p]]; try lia.
  - cbn in Hna. discriminate.
  - destruct Hph as [A _]. congruence.
Qed.
