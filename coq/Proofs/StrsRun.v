(* C17: the per-operation theorems, assembled over the case decoder of Run/C17.v: wherever the property defines the
   output ([expected] = Some e), the model's output is that e — so the judge [spec_ok] accepts the model there. *)
From Coq Require Import List ZArith Lia Bool.
From V Require Import Lib.Enc Lib.Utf8 Model.Strs Run.C17 Proofs.StrsBasic Proofs.StrsMask Proofs.StrsRunes Proofs.StrsCase.
Import ListNotations.
Local Open Scope Z_scope.

(* well-formed case: a byte string shorter than 2^63; int arguments within int64; for Mask an allocatable result *)
Definition case_wf (op : Z) (r : list Z) : Prop :=
  let (s, r1) := get_list r in
  bytes s /\ zlen s <= maxint /\
  (op = 0 -> let (m, r2) := get_list r1 in let (st, r3) := get_int r2 in let (en, _) := get_int r3 in
             zlen m * zlen s <= alloc_limit /\ st <= maxint /\ en <= maxint) /\
  (op = 1 -> let (st, r2) := get_int r1 in let (ln, _) := get_int r2 in st <= maxint /\ ln <= maxint).

Theorem run_model_expected op r e : case_wf op r -> expected op r = Some e -> run_model op r = e.
Proof.
  unfold case_wf, expected, run_model. destruct (get_list r) as [s r1]. intros (Hb & Hlen & H0 & H1).
  destruct (Z.eqb_spec op 0) as [E0|N0].
  { specialize (H0 E0). destruct (get_list r1) as [m r2]. destruct (get_int r2) as [st r3]. destruct (get_int r3) as [en r4].
    destruct H0 as (Ha & Hst & Hen). destruct ((0 <=? st) && (0 <=? en)) eqn:Ed; [|discriminate].
    apply andb_true_iff in Ed. destruct Ed as [D1 D2]. apply Z.leb_le in D1, D2. intros E. inversion E; subst e.
    rewrite mask_spec by (auto; lia). reflexivity. }
  destruct (Z.eqb_spec op 1) as [E1|N1].
  { specialize (H1 E1). destruct (get_int r1) as [st r2]. destruct (get_int r2) as [ln r3]. destruct H1 as [Hst Hln].
    destruct ((0 <=? st) && (-1 <=? ln)) eqn:Ed; [|discriminate].
    apply andb_true_iff in Ed. destruct Ed as [D1 D2]. apply Z.leb_le in D1, D2. intros E. inversion E; subst e.
    rewrite sub_spec by (auto; lia). reflexivity. }
  destruct (Z.eqb_spec op 2) as [E2|N2].
  { destruct (get_int r1) as [lim r2]. destruct ((0 <=? lim) && valid_utf8 s) eqn:Ed; [|discriminate].
    apply andb_true_iff in Ed. destruct Ed as [D1 D2]. apply Z.leb_le in D1. intros E. inversion E; subst e.
    rewrite sub_by_display_spec by auto. reflexivity. }
  destruct (Z.eqb_spec op 3) as [E3|N3].
  { destruct (valid_utf8 s) eqn:Ev; [|discriminate]. intros E. inversion E; subst e. apply rev_spec; auto. }
  destruct (Z.eqb_spec op 4) as [E4|N4].
  { intros E. inversion E; subst e. rewrite len_spec. reflexivity. }
  destruct (Z.eqb_spec op 5) as [E5|N5].
  { destruct (valid_utf8 s) eqn:Ev; [|discriminate]. intros E. inversion E; subst e. rewrite remove_runes_spec by auto. reflexivity. }
  destruct (Z.eqb_spec op 6) as [->|N6]; [intros E; cbn [Z.eqb Pos.eqb] in E; discriminate E|].
  destruct (Z.eqb_spec op 7) as [->|N7]; [intros E; cbn [Z.eqb Pos.eqb] in E; discriminate E|].
  destruct (Z.eqb_spec op 8) as [E8|N8].
  { intros E. inversion E; subst e. apply uc_first_spec. }
  destruct (Z.eqb_spec op 9) as [E9|N9].
  { intros E. inversion E; subst e. apply lc_first_spec. }
  destruct (Z.eqb_spec op 10) as [E10|N10].
  { destruct (ident s) eqn:Ei; [|discriminate]. intros E. inversion E; subst e. unfold roundtrip. rewrite snake_camel_roundtrip by exact Ei. reflexivity. }
  destruct (Z.eqb_spec op 11) as [E11|N11]; [|discriminate].
  destruct (valid_utf8 s) eqn:Ev; [|discriminate]. intros E. inversion E; subst e.
  rewrite remove_runes_spec by auto. rewrite runes_chunks. reflexivity.
Qed.

Lemma list_eqb_refl l : list_eqb l l = true.
Proof. induction l as [|x t IH]; [reflexivity|]. cbn [list_eqb]. rewrite Z.eqb_refl, IH. reflexivity. Qed.
Corollary spec_ok_model op r e : case_wf op r -> expected op r = Some e -> spec_ok op r (run_model op r) = true.
Proof. intros Hw He. unfold spec_ok. rewrite He. rewrite (run_model_expected op r e Hw He). apply list_eqb_refl. Qed.

(* the premises are satisfiable: Sub("a€b", 1, 1) *)
Example case_wf_example : case_wf 1 [5; 97; 226; 130; 172; 98; 0; 1; 0; 1] /\ expected 1 [5; 97; 226; 130; 172; 98; 0; 1; 0; 1] = Some [226; 130; 172].
Proof. split; [|reflexivity]. unfold case_wf. cbn. repeat split; try lia; try discriminate. repeat constructor; lia. Qed.
