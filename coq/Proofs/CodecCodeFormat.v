(* C07, generated code = hand model (continued from Proofs/CodecCodeBase.v): the four Format functions. *)
From Coq Require Import List ZArith Lia Bool Arith.
From V Require Import Lib.Enc Lib.GoSem Lib.GoSemStd Proofs.GoSemFacts Gen.Codec Gen.CodecCode Model.Codec Proofs.CodecBase Proofs.CodecFormat Proofs.CodecCodeBase.
Import ListNotations.
Local Open Scope Z_scope.
Arguments Z.mul : simpl never.
Arguments Z.add : simpl never.
Arguments Z.sub : simpl never.
Arguments Z.div : simpl never.
Arguments Z.modulo : simpl never.
Arguments Z.pow : simpl never.
Arguments Z.quot : simpl never.
Arguments Z.rem : simpl never.
Arguments Z.of_nat : simpl never.
Arguments Z.to_nat : simpl never.
Ltac Zify.zify_post_hook ::= idtac.
(* ================================================================== OctalFormat, HexFormat (enc.go) *)
(* the loop shared by octal_format_go and hex_format_go: one four-byte escape per input byte *)
Fixpoint fmt_go (esc : Z -> option (list Z)) (cap : nat) (s out : list Z) : option (list Z) :=
  match s with
  | [] => Some (pad_to cap out)
  | c :: t => if (length out + 4 <=? cap)%nat then match esc c with None => None | Some e => fmt_go esc cap t (out ++ e) end else None
  end.
Definition esc_oct (c : Z) : option (list Z) := option_map (cons 92) (append_uint 3 c 8).
Definition esc_hex (c : Z) : option (list Z) := option_map (fun d => 92 :: 120 :: to_upper d) (append_uint 2 c 16).
Lemma octal_format_go_fmt : forall s cap out, octal_format_go cap s out = fmt_go esc_oct cap s out.
Proof.
  induction s as [|c t IH]; intros cap out; cbn [octal_format_go fmt_go]; [reflexivity|].
  destruct (length out + 4 <=? cap)%nat; [|reflexivity]. unfold esc_oct. destruct (append_uint 3 c 8); cbn [option_map]; [apply IH|reflexivity].
Qed.
Lemma hex_format_go_fmt : forall s cap out, hex_format_go cap s out = fmt_go esc_hex cap s out.
Proof.
  induction s as [|c t IH]; intros cap out; cbn [hex_format_go fmt_go]; [reflexivity|].
  destruct (length out + 4 <=? cap)%nat; [|reflexivity]. unfold esc_hex. destruct (append_uint 2 c 16); cbn [option_map]; [apply IH|reflexivity].
Qed.

(* digits are bytes *)
Lemma fmt_digits_bytes base : 2 <= base <= 36 -> forall fuel v acc, bytes acc -> bytes (fmt_digits fuel base v acc).
Proof.
  intros Hb. induction fuel as [|fu IH]; intros v acc Ha; cbn [fmt_digits]; [exact Ha|].
  assert (Hd : bytes (digit_char (v mod base) :: acc)).
  { constructor; [|exact Ha]. pose proof (Z.mod_pos_bound v base ltac:(lia)). unfold is_byte, digit_char. destruct (v mod base <? 10); lia. }
  cbv zeta. destruct (v / base =? 0); [exact Hd|apply IH, Hd].
Qed.
Lemma append_uint_bytes w v base d : 2 <= base <= 36 -> append_uint w v base = Some d -> bytes d.
Proof.
  intros Hb H. unfold append_uint in H. destruct (length (format_bits v base) <=? w)%nat; [|discriminate]. injection H as <-.
  apply Forall_app. split; [apply Forall_forall; intros x Hx; apply repeat_spec in Hx; subst x; unfold is_byte; lia|].
  apply fmt_digits_bytes; [exact Hb|constructor].
Qed.
Lemma append_uint_length w v base d : append_uint w v base = Some d -> length d = w.
Proof.
  intros H. unfold append_uint in H. destruct (Nat.leb_spec (length (format_bits v base)) w); [|discriminate]. injection H as <-.
  rewrite app_length, repeat_length. lia.
Qed.

(* the make()d buffer: what was written so far, zeros behind it *)
Lemma pad_length cap out : (length out <= cap)%nat -> length (pad_to cap out) = cap.
Proof. intros H. unfold pad_to. rewrite app_length, repeat_length. lia. Qed.
Lemma repeat_cons_app {A} (x : A) n : repeat x (S n) = repeat x n ++ [x].
Proof. induction n as [|n IH]; [reflexivity|]. cbn [repeat app] in *. rewrite <- IH. reflexivity. Qed.
Lemma m_set_pad cap out i v : i = Z.of_nat (length out) -> (length out < cap)%nat ->
  m_set (pad_to cap out) i v = Ret (pad_to cap (out ++ [v])).
Proof.
  intros -> H. unfold pad_to. replace (cap - length out)%nat with (S (cap - length (out ++ [v]))) by (rewrite app_length; cbn [length]; lia).
  cbn [repeat]. unfold m_set, set_at. rewrite app_length. cbn [length]. rewrite repeat_length.
  destruct (Z.leb_spec 0 (Z.of_nat (length out))); [|lia].
  destruct (Z.ltb_spec (Z.of_nat (length out)) (Z.of_nat (length out + S (cap - length (out ++ [v]))))); [|lia].
  cbn [andb lift]. rewrite Nat2Z.id, upd_mid, <- app_assoc. reflexivity.
Qed.
Lemma skipn_repeat {A} (x : A) n k : skipn k (repeat x n) = repeat x (n - k).
Proof. revert k. induction n as [|n IH]; intros [|k]; cbn [repeat skipn Nat.sub]; try reflexivity. apply IH. Qed.
Lemma firstn_repeat {A} (x : A) n k : (k <= n)%nat -> firstn k (repeat x n) = repeat x k.
Proof. revert k. induction n as [|n IH]; intros [|k] H; cbn [repeat firstn]; try reflexivity; [lia|]. rewrite IH by lia. reflexivity. Qed.
Lemma m_slice_pad cap out a b n : a = Z.of_nat (length out) -> b = a + Z.of_nat n -> (length out + n <= cap)%nat ->
  m_slice (pad_to cap out) a b = Ret (repeat 0 n).
Proof.
  intros -> -> H. rewrite m_slice_in by (unfold zlen; rewrite ?pad_length by lia; lia). f_equal.
  replace (Z.to_nat (Z.of_nat (length out) + Z.of_nat n) - Z.to_nat (Z.of_nat (length out)))%nat with n by lia.
  rewrite Nat2Z.id. unfold pad_to. rewrite skipn_app, skipn_all, Nat.sub_diag. cbn [skipn app]. apply firstn_repeat. lia.
Qed.
Lemma splice_pad cap out a b x : a = Z.of_nat (length out) -> b = a + Z.of_nat (length x) -> (length out + length x <= cap)%nat ->
  splice (pad_to cap out) a b x = pad_to cap (out ++ x).
Proof.
  intros -> -> H. unfold splice, pad_to. rewrite Nat2Z.id.
  replace (Z.to_nat (Z.of_nat (length out) + Z.of_nat (length x))) with (length out + length x)%nat by lia.
  rewrite firstn_app, firstn_all, Nat.sub_diag. cbn [firstn]. rewrite app_nil_r.
  rewrite skipn_app, skipn_all2 by lia. cbn [app]. rewrite skipn_repeat, <- app_assoc, app_length.
  do 3 f_equal. lia.
Qed.
(* the escape just written: the last bytes of the written part *)
Lemma m_slice_tail cap out d a b : a = Z.of_nat (length out) -> b = a + Z.of_nat (length d) -> (length out + length d <= cap)%nat ->
  m_slice (pad_to cap (out ++ d)) a b = Ret d.
Proof.
  intros -> -> H. rewrite m_slice_in by (unfold zlen; rewrite ?pad_length by (rewrite app_length; lia); lia). f_equal.
  replace (Z.to_nat (Z.of_nat (length out) + Z.of_nat (length d)) - Z.to_nat (Z.of_nat (length out)))%nat with (length d) by lia.
  rewrite Nat2Z.id. unfold pad_to. rewrite <- app_assoc, skipn_app, skipn_all, Nat.sub_diag. cbn [skipn app].
  rewrite firstn_app, firstn_all, Nat.sub_diag. cbn [firstn]. apply app_nil_r.
Qed.
Lemma splice_tail cap out d a b x : a = Z.of_nat (length out) -> b = a + Z.of_nat (length d) -> length x = length d ->
  (length out + length d <= cap)%nat -> splice (pad_to cap (out ++ d)) a b x = pad_to cap (out ++ x).
Proof.
  intros -> -> Hx H. unfold splice, pad_to. rewrite Nat2Z.id.
  replace (Z.to_nat (Z.of_nat (length out) + Z.of_nat (length d))) with (length (out ++ d)) by (rewrite app_length; lia).
  rewrite <- !app_assoc. rewrite firstn_app, firstn_all, Nat.sub_diag. cbn [firstn]. rewrite app_nil_r.
  rewrite (app_assoc out d), skipn_app, skipn_all, Nat.sub_diag. cbn [skipn app].
  rewrite !app_length, Hx. reflexivity.
Qed.
Lemma m_copy_pad cap out a b lit : a = Z.of_nat (length out) -> b = a + Z.of_nat (length lit) -> (length out + length lit <= cap)%nat ->
  m_copy (pad_to cap out) a b lit = Ret (pad_to cap (out ++ lit), Z.of_nat (length lit)).
Proof.
  intros -> -> H. rewrite m_copy_in by (unfold zlen; rewrite ?pad_length by lia; lia). rewrite Nat2Z.id.
  replace (Z.to_nat (Z.of_nat (length out) + Z.of_nat (length lit))) with (length out + length lit)%nat by lia.
  replace (length out + length lit - length out)%nat with (length lit) by lia.
  unfold pad_to at 1 2 3. rewrite firstn_app, firstn_all, Nat.sub_diag. cbn [firstn]. rewrite app_nil_r.
  rewrite skipn_app, skipn_all, Nat.sub_diag. cbn [skipn app]. rewrite firstn_repeat by lia.
  rewrite gocopy_same by (rewrite repeat_length; reflexivity).
  f_equal. f_equal.
  - unfold pad_to. rewrite <- app_assoc. f_equal. f_equal.
    rewrite skipn_app, skipn_all2 by lia. cbn [app]. rewrite skipn_repeat, app_length. f_equal. lia.
  - rewrite firstn_length, skipn_length, pad_length by lia. f_equal. lia.
Qed.
Lemma m_make_ok n : 0 <= n -> m_make n = Ret (repeat 0 (Z.to_nat n)).
Proof. intros H. unfold m_make. destruct (Z.ltb_spec n 0); [lia|reflexivity]. Qed.

(* the loop, for any packing pk of (buffer, j, f, i) — pk may ignore f, which is dead at the start of an iteration —
   given what one iteration does on a buffer with room for one more escape *)
Lemma fmt_while {St R} (pk : list Z -> Z -> Z -> Z -> St) (c : St -> M bool) (b : St -> M (ctl St R)) (p : St -> M St)
    (s : list Z) (cap : nat) (esc : Z -> option (list Z)) (fo : Z) :
  (forall k out f0 e, (k < length s)%nat -> esc (nth k s 0) = Some e -> length e = 4%nat -> (length out + 4 <= cap)%nat -> length out = (4 * k)%nat ->
     iter1 c b p (pk (pad_to cap out) (Z.of_nat (length out)) f0 (Z.of_nat k)) =
     Ret (inl (pk (pad_to cap (out ++ e)) (Z.of_nat (length out) + 4) (Z.of_nat (length out) + fo) (Z.of_nat k + 1)))) ->
  (forall B j f0, iter1 c b p (pk B j f0 (zlen s)) = Ret (inr (inl (pk B j f0 (zlen s))))) ->
  (forall k, (k < length s)%nat -> exists e, esc (nth k s 0) = Some e /\ length e = 4%nat) ->
  cap = (4 * length s)%nat ->
  forall fuel k out f0, length out = (4 * k)%nat -> (k <= length s)%nat -> (length s - k < fuel)%nat ->
    exists B j f1, while fuel c b p (pk (pad_to cap out) (Z.of_nat (length out)) f0 (Z.of_nat k)) = Ret (inl (pk B j f1 (zlen s)))
                   /\ fmt_go esc cap (skipn k s) out = Some B.
Proof.
  intros Hin Hend Hesc Hcap. induction fuel as [|fuel IH]; intros k out f0 Ho Hk Hf; [lia|]. rewrite while_iter.
  destruct (Nat.eq_dec k (length s)) as [->|Hne].
  - fold (zlen s). rewrite Hend, skipn_all. cbn [bind fmt_go]. eauto.
  - assert (Hlt : (k < length s)%nat) by lia. destruct (Hesc k Hlt) as (e & He & Hle).
    rewrite (Hin k out f0 e Hlt He Hle) by lia. cbn [bind].
    rewrite (skipn_cons_nth s k Hlt). cbn [fmt_go]. destruct (Nat.leb_spec (length out + 4) cap); [|lia]. rewrite He.
    replace (Z.of_nat (length out) + 4) with (Z.of_nat (length (out ++ e))) by (rewrite app_length; lia).
    replace (Z.of_nat k + 1) with (Z.of_nat (S k)) by lia.
    apply IH; rewrite ?app_length; lia.
Qed.

Ltac pad_side := unfold to_upper; repeat (rewrite ?app_length, ?repeat_length, ?map_length; cbn [length]); lia.
(* one iteration on concrete generated code: the checked buffer operations are rewritten into their values *)
Ltac fmt_iter s n Hfuel :=
  repeat first
    [ erewrite m_set_pad by pad_side
    | erewrite (m_slice_pad _ _ _ _ n) by pad_side
    | rewrite (m_get_in s) by (unfold zlen; lia)
    | rewrite Nat2Z.id
    | rewrite code_appendUint by (rewrite ?repeat_length; lia)
    | rewrite repeat_length
    | erewrite m_slice_tail by pad_side
    | rewrite code_toUpper by (first [ eassumption | pad_side ])
    | erewrite splice_tail by pad_side
    | erewrite splice_pad by pad_side
    | erewrite m_copy_pad by pad_side
    | progress step_code ].

Ltac fmt_shape pk c b p fuel esc fo n unfold_esc :=
  lazymatch goal with Hb : bytes ?s, Hcap : ?cap = (4 * length ?s)%nat, Hesc : forall k, (k < length ?s)%nat -> exists e, esc _ = Some e /\ _ |- _ =>
    let H1 := fresh "H1" in let H2 := fresh "H2" in
    assert (H1 : forall k out f0 e, (k < length s)%nat -> esc (nth k s 0) = Some e -> length e = 4%nat -> (length out + 4 <= cap)%nat -> length out = (4 * k)%nat ->
       iter1 c b p (pk (pad_to cap out) (Z.of_nat (length out)) f0 (Z.of_nat k)) =
       Ret (inl (pk (pad_to cap (out ++ e)) (Z.of_nat (length out) + 4) (Z.of_nat (length out) + fo) (Z.of_nat k + 1))));
    [ let k := fresh "k" in let out := fresh "out" in let f0 := fresh "f0" in let e := fresh "e" in
      let Hk := fresh "Hk" in let He := fresh "He" in let Hle := fresh "Hle" in let Hroom := fresh "Hroom" in let Hlen := fresh "Hlen" in
      intros k out f0 e Hk He Hle Hroom Hlen; iter_open;
      assert (Hl : (Z.of_nat k <? zlen s) = true) by (apply Z.ltb_lt; unfold zlen; lia); rewrite ?Hl;
      unfold_esc He;
      match type of He with option_map _ ?au = Some _ =>
        let d := fresh "d" in let Ed := fresh "Ed" in
        destruct au as [d|] eqn:Ed; [|discriminate He]; cbn [option_map] in He; injection He as He; subst e;
        pose proof (append_uint_length _ _ _ _ Ed) as Hdl; assert (Hdb : bytes d) by (eapply append_uint_bytes; [|exact Ed]; lia);
        fmt_iter s n fuel; rewrite ?Ed; cbn [lift]; fmt_iter s n fuel;
        rewrite <- ?app_assoc; cbn [app]; reflexivity
      end
    | assert (H2 : forall B j f0, iter1 c b p (pk B j f0 (zlen s)) = Ret (inr (inl (pk B j f0 (zlen s)))));
      [ intros; iter_open; rewrite ?Z.ltb_irrefl; reflexivity
      | let B := fresh "B" in let j := fresh "j" in let f1 := fresh "f1" in let E := fresh "E" in let F := fresh "F" in
        destruct (fmt_while pk c b p s cap esc fo H1 H2 Hesc Hcap fuel 0%nat [] 0 eq_refl ltac:(lia) ltac:(lia)) as (B & j & f1 & E & F);
        cbv beta in E; cbn [length] in E; change (Z.of_nat 0) with 0 in E; rewrite E; clear E H1 H2;
        cbn [skipn] in F; cbv beta iota; rewrite F; reflexivity ] ]
  end.

Lemma esc_oct_some (s : list Z) : bytes s -> forall k, (k < length s)%nat -> exists e, esc_oct (nth k s 0) = Some e /\ length e = 4%nat.
Proof.
  intros Hb k Hk. unfold esc_oct. rewrite octfmt3 by (apply nth_byte; assumption). cbn [option_map]. eexists. split; [reflexivity|reflexivity].
Qed.
Lemma esc_hex_some (s : list Z) : bytes s -> forall k, (k < length s)%nat -> exists e, esc_hex (nth k s 0) = Some e /\ length e = 4%nat.
Proof.
  intros Hb k Hk. unfold esc_hex. pose proof (hexfmt2 _ (nth_byte s k Hb Hk)) as H.
  destruct (append_uint 2 (nth k s 0) 16) as [d|] eqn:E; [|discriminate]. cbn [option_map]. eexists. split; [reflexivity|].
  cbn [length]. unfold to_upper. rewrite map_length, (append_uint_length _ _ _ _ E). reflexivity.
Qed.
Lemma make_pad n : repeat 0 n = pad_to n [].
Proof. unfold pad_to. cbn [app length]. rewrite Nat.sub_0_r. reflexivity. Qed.

(* for every byte string and every fuel above its length *)
Theorem code_OctalFormat : forall fuel s, bytes s -> (length s < fuel)%nat -> g_OctalFormat fuel s = lift (octal_format s).
Proof.
  intros fuel s Hb Hf. unfold g_OctalFormat. repeat autounfold with go2v_aux. step_code.
  rewrite m_make_ok by (unfold zlen; lia). step_code.
  unfold octal_format. rewrite octal_format_go_fmt.
  replace (Z.to_nat (zlen s * 4)) with (4 * length s)%nat by (unfold zlen; lia). replace (length s * 4)%nat with (4 * length s)%nat by lia.
  rewrite make_pad. remember (4 * length s)%nat as cap eqn:Hcap. pose proof (esc_oct_some s Hb) as Hesc.
  match goal with |- match while _ ?c ?b ?p ?s0 with _ => _ end = _ =>
    first [ solve [fmt_shape (fun (B : list Z) (j f i : Z) => (B, j, f, i)) c b p fuel esc_oct 1 3%nat ltac:(fun H => unfold esc_oct in H)]
          | solve [fmt_shape (fun (B : list Z) (j f i : Z) => (i, B, j, f)) c b p fuel esc_oct 1 3%nat ltac:(fun H => unfold esc_oct in H)]
          | solve [fmt_shape (fun (B : list Z) (j f i : Z) => (B, j, i)) c b p fuel esc_oct 1 3%nat ltac:(fun H => unfold esc_oct in H)]
          | solve [fmt_shape (fun (B : list Z) (j f i : Z) => (i, B, j)) c b p fuel esc_oct 1 3%nat ltac:(fun H => unfold esc_oct in H)]
          | solve [fmt_shape (fun (B : list Z) (j f i : Z) => (B, i)) c b p fuel esc_oct 1 3%nat ltac:(fun H => unfold esc_oct in H)]
          | solve [fmt_shape (fun (B : list Z) (j f i : Z) => (i, B)) c b p fuel esc_oct 1 3%nat ltac:(fun H => unfold esc_oct in H)] ]
  end.
Qed.

(* ... and above 2: toUpper runs over the two digits with the caller's fuel *)
Theorem code_HexFormat : forall fuel s, bytes s -> (length s < fuel)%nat -> (2 < fuel)%nat -> g_HexFormat fuel s = lift (hex_format s).
Proof.
  intros fuel s Hb Hf Hf2. unfold g_HexFormat. repeat autounfold with go2v_aux. step_code.
  rewrite m_make_ok by (unfold zlen; lia). step_code.
  unfold hex_format. rewrite hex_format_go_fmt.
  replace (Z.to_nat (zlen s * 4)) with (4 * length s)%nat by (unfold zlen; lia). replace (length s * 4)%nat with (4 * length s)%nat by lia.
  rewrite make_pad. remember (4 * length s)%nat as cap eqn:Hcap. pose proof (esc_hex_some s Hb) as Hesc.
  match goal with |- match while _ ?c ?b ?p ?s0 with _ => _ end = _ =>
    first [ solve [fmt_shape (fun (B : list Z) (j f i : Z) => (B, j, f, i)) c b p fuel esc_hex 2 2%nat ltac:(fun H => unfold esc_hex in H)]
          | solve [fmt_shape (fun (B : list Z) (j f i : Z) => (i, B, j, f)) c b p fuel esc_hex 2 2%nat ltac:(fun H => unfold esc_hex in H)]
          | solve [fmt_shape (fun (B : list Z) (j f i : Z) => (B, j, i)) c b p fuel esc_hex 2 2%nat ltac:(fun H => unfold esc_hex in H)]
          | solve [fmt_shape (fun (B : list Z) (j f i : Z) => (i, B, j)) c b p fuel esc_hex 2 2%nat ltac:(fun H => unfold esc_hex in H)]
          | solve [fmt_shape (fun (B : list Z) (j f i : Z) => (B, i)) c b p fuel esc_hex 2 2%nat ltac:(fun H => unfold esc_hex in H)]
          | solve [fmt_shape (fun (B : list Z) (j f i : Z) => (i, B)) c b p fuel esc_hex 2 2%nat ltac:(fun H => unfold esc_hex in H)] ]
  end.
Qed.

(* ================================================================== UnicodeFormat, Utf16Format (enc.go) *)
(* a loop over the index i of src whose model is a fuelled recursion over the rest of the input: where the model yields a
   result, the generated loop (followed by K) yields the same.  ST packs (what was written, f — dead at the start of an
   iteration —, i); one iteration is given only where the model's step succeeds. *)
Lemma rune_while {St R} (ST : list Z -> Z -> nat -> St) (c : St -> M bool) (b : St -> M (ctl St R)) (p : St -> M St)
    (K : St + R -> M (list Z)) (src : list Z)
    (step : list Z -> list Z -> option (nat * list Z)) (go : nat -> list Z -> list Z -> option (list Z)) (fin : list Z -> list Z) :
  (forall s out, go 0%nat s out = None) ->
  (forall fu s out, go (S fu) s out =
     match s with [] => Some (fin out) | _ :: _ => match step s out with None => None | Some (size, out') => go fu (skipn size s) out' end end) ->
  (forall k out f0 size out', (k < length src)%nat -> step (skipn k src) out = Some (size, out') ->
     exists f1, iter1 c b p (ST out f0 k) = Ret (inl (ST out' f1 (k + size)%nat))) ->
  (forall k out f0, (length src <= k)%nat -> iter1 c b p (ST out f0 k) = Ret (inr (inl (ST out f0 k)))) ->
  (forall out f0 k, K (inl (ST out f0 k)) = Ret (fin out)) ->
  forall fuel k out f0 B, go fuel (skipn k src) out = Some B -> bind (while fuel c b p (ST out f0 k)) K = Ret B.
Proof.
  intros HO HS Hstep Hend HK. induction fuel as [|fuel IH]; intros k out f0 B Hgo; [rewrite HO in Hgo; discriminate|].
  rewrite while_iter. rewrite HS in Hgo.
  destruct (Nat.le_gt_cases (length src) k) as [Hge|Hlt].
  - rewrite skipn_all2 in Hgo by exact Hge. injection Hgo as <-. rewrite Hend by exact Hge. cbn [bind]. apply HK.
  - destruct (skipn k src) as [|x t] eqn:Es; [exfalso; apply (f_equal (@length Z)) in Es; rewrite skipn_length in Es; cbn [length] in Es; lia|].
    rewrite <- Es in Hgo. destruct (step (skipn k src) out) as [[size out']|] eqn:Est; [|discriminate].
    destruct (Hstep k out f0 size out' Hlt Est) as [f1 E]. rewrite E. cbn [bind].
    apply IH. rewrite <- skipn_skipn. exact Hgo.
Qed.

Lemma m_slice_suffix (l : list Z) a k : a = Z.of_nat k -> (k <= length l)%nat -> m_slice l a (zlen l) = Ret (skipn k l).
Proof.
  intros -> H. rewrite m_slice_in by (unfold zlen; lia). unfold zlen. rewrite !Nat2Z.id.
  rewrite firstn_all2 by (rewrite skipn_length; lia). reflexivity.
Qed.
Lemma decode_width_pos b t c w : Utf8.decode (b :: t) = (c, w) -> (1 <= w)%nat.
Proof.
  unfold Utf8.decode. intros H.
  repeat match type of H with
  | context [if ?x then _ else _] => destruct x
  | context [match ?l with [] => _ | _ :: _ => _ end] => destruct l
  end; injection H as _ <-; lia.
Qed.

(* one rune of UnicodeFormat's model *)
Definition uf_step (cap : nat) (s out : list Z) : option (nat * list Z) :=
  match s with
  | [] => None
  | bt :: t =>
      if (length out + 10 <=? cap)%nat then
        if bt <? RuneSelf then
          match append_uint 8 bt 16 with None => None | Some d => Some (1%nat, out ++ 92 :: 85 :: to_upper d) end
        else
          let (c, size) := Utf8.decode s in
          if c =? Utf8.RuneError then Some (size, out ++ 92 :: 85 :: FFFD8)
          else match append_uint 8 c 16 with None => None | Some d => Some (size, out ++ 92 :: 85 :: to_upper d) end
      else None
  end.
Lemma unicode_go_step fu cap s out :
  unicode_format_go (S fu) cap s out =
  match s with [] => Some (pad_to cap out) | _ :: _ => match uf_step cap s out with None => None | Some (size, out') => unicode_format_go fu cap (skipn size s) out' end end.
Proof.
  rewrite unicode_format_go_S. destruct s as [|bt t]; [reflexivity|]. unfold uf_step.
  destruct (length out + 10 <=? cap)%nat; [|reflexivity]. destruct (bt <? RuneSelf).
  - destruct (append_uint 8 bt 16); reflexivity.
  - destruct (Utf8.decode (bt :: t)) as [c size]. destruct (c =? Utf8.RuneError); [reflexivity|]. destruct (append_uint 8 c 16); reflexivity.
Qed.

Lemma bind_while_more {S R A} (c : S -> M bool) (b : S -> M (ctl S R)) (p : S -> M S) (K : S + R -> M A) f f' s B :
  bind (while f c b p s) K = Ret B -> (f <= f')%nat -> bind (while f' c b p s) K = Ret B.
Proof.
  intros H Hle. destruct (while f c b p s) as [lr| |] eqn:E; try discriminate.
  replace f' with (f + (f' - f))%nat by lia. rewrite (while_more c b p (f' - f) f s lr E). exact H.
Qed.
Lemma bytes_skipn (s : list Z) k : bytes s -> bytes (skipn k s).
Proof. intros Hb. unfold bytes in *. rewrite <- (firstn_skipn k s) in Hb. apply Forall_app in Hb. apply Hb. Qed.
Ltac fmt_done := rewrite <- ?app_assoc; cbn [app]; repeat f_equal; first [reflexivity | pad_side].

Ltac uf_shape pk c b p K fuel :=
  lazymatch goal with Hb : bytes ?s, Hm : unicode_format_go _ ?cap ?s [] = Some ?B |- _ = Ret ?B =>
    let ST := constr:(fun (out : list Z) (f0 : Z) (k : nat) => pk (pad_to cap out) (Z.of_nat (length out)) f0 (Z.of_nat k)) in
    let H1 := fresh "H1" in let H2 := fresh "H2" in
    assert (H1 : forall k out f0 size out', (k < length s)%nat -> uf_step cap (skipn k s) out = Some (size, out') ->
       exists f1, iter1 c b p (ST out f0 k) = Ret (inl (ST out' f1 (k + size)%nat)));
    [ let k := fresh "k" in let out := fresh "out" in let f0 := fresh "f0" in let size := fresh "size" in let out' := fresh "out'" in
      let Hk := fresh "Hk" in let Hstep := fresh "Hstep" in
      intros k out f0 size out' Hk Hstep; cbv beta; eexists; iter_open;
      assert (Hl : (Z.of_nat k <? zlen s) = true) by (apply Z.ltb_lt; unfold zlen; lia); rewrite Hl;
      pose proof (nth_byte s k Hb Hk) as Hbt; pose proof (bytes_skipn s k Hb) as Hsb;
      rewrite (m_get_nat s _ k) by lia; rewrite ?(m_slice_suffix s _ k) by lia;
      unfold uf_step in Hstep; rewrite (skipn_cons_nth s k Hk) in Hstep; rewrite <- (skipn_cons_nth s k Hk) in Hstep;
      destruct (Nat.leb_spec (length out + 10) cap) as [Hroom|]; [|discriminate Hstep];
      unfold RuneSelf in Hstep; unfold std_utf8_DecodeRune;
      destruct (nth k s 0 <? 128) eqn:Ea;
      [ destruct (append_uint 8 (nth k s 0) 16) as [d|] eqn:Ed; [|discriminate Hstep]; injection Hstep as <- <-;
        pose proof (append_uint_length _ _ _ _ Ed) as Hdl; assert (Hdb : bytes d) by (eapply append_uint_bytes; [|exact Ed]; lia);
        fmt_iter s 8%nat fuel; rewrite ?Ed; cbn [lift]; fmt_iter s 8%nat fuel; fmt_done
      | destruct (Utf8.decode (skipn k s)) as [cc w] eqn:Edec;
        assert (Hc : 0 <= cc < 4294967296) by
          (destruct (decode_range _ _ _ Edec) as [H|(b0 & t0 & E & Hneg)]; [exact H|exfalso; rewrite (skipn_cons_nth s k Hk) in E; injection E as E _; lia]);
        unfold Utf8.RuneError in Hstep;
        destruct (cc =? 65533) eqn:Ec;
        [ injection Hstep as <- <-; fmt_iter s 8%nat fuel; unfold FFFD8; fmt_done
        | destruct (append_uint 8 cc 16) as [d|] eqn:Ed; [|discriminate Hstep]; injection Hstep as <- <-;
          pose proof (append_uint_length _ _ _ _ Ed) as Hdl; assert (Hdb : bytes d) by (eapply append_uint_bytes; [|exact Ed]; lia);
          rewrite (wrap_small 64 cc) by (change (2 ^ 64) with 18446744073709551616; lia);
          fmt_iter s 8%nat fuel; rewrite ?Ed; cbn [lift]; fmt_iter s 8%nat fuel; fmt_done ] ]
    | ];
    assert (H2 : forall k out f0, (length s <= k)%nat -> iter1 c b p (ST out f0 k) = Ret (inr (inl (ST out f0 k))));
    [ intros; cbv beta; iter_open; unfold zlen; repeat break_if; zb; try reflexivity; exfalso; lia | ];
    apply (bind_while_more c b p K (S (length s)) fuel); [|lia];
    exact (rune_while ST c b p K s (uf_step cap) (fun fu s0 out => unicode_format_go fu cap s0 out) (pad_to cap)
             (fun _ _ => eq_refl) (fun fu s0 out => unicode_go_step fu cap s0 out) H1 H2 (fun _ _ _ => eq_refl)
             (S (length s)) 0%nat [] 0 B Hm)
  end.

(* UnicodeFormat: every byte string, every fuel above its length (and above 8: toUpper runs over the eight digits with the
   caller's fuel).  The model's answer on byte strings is total (Proofs/CodecFormat.v); the generated loop is shown to reach
   it, one rune per iteration. *)
Theorem code_UnicodeFormat : forall fuel s, bytes s -> (length s < fuel)%nat -> (8 < fuel)%nat -> g_UnicodeFormat fuel s = lift (unicode_format s).
Proof.
  intros fuel s Hb Hf Hf8. unfold g_UnicodeFormat. repeat autounfold with go2v_aux. step_code.
  unfold std_utf8_RuneCount. rewrite m_make_ok by lia. step_code.
  pose proof (unicode_format_shape s Hb) as Hm. rewrite Hm. cbn [lift]. unfold unicode_format in Hm.
  replace (Z.to_nat (Z.of_nat (Utf8.rune_count s) * 10)) with (Utf8.rune_count s * 10)%nat by lia.
  rewrite make_pad. set (cap := (Utf8.rune_count s * 10)%nat) in *.
  match goal with |- match while _ ?c ?b ?p ?s0 with Ret a => @?K a | Panic => Panic | NoFuel => NoFuel end = _ =>
    change (bind (while fuel c b p s0) K = Ret (s_unicode_format s));
    first [ solve [uf_shape (fun (B : list Z) (j f i : Z) => (B, j, f, i)) c b p K fuel]
          | solve [uf_shape (fun (B : list Z) (j f i : Z) => (B, j, i)) c b p K fuel] ]
  end.
Qed.

(* ---- Utf16Format: the buffer grows by append; what was written is the whole buffer *)
Lemma app_esc_split (l : list Z) : l ++ [92; 117; 48; 48; 48; 48] = (l ++ [92; 117]) ++ [48; 48; 48; 48].
Proof. rewrite <- app_assoc. reflexivity. Qed.
Lemma m_slice_app_tail (pre d : list Z) a b : a = Z.of_nat (length pre) -> b = a + Z.of_nat (length d) -> m_slice (pre ++ d) a b = Ret d.
Proof.
  intros -> ->. rewrite m_slice_in by (unfold zlen; rewrite ?app_length; lia). f_equal.
  replace (Z.to_nat (Z.of_nat (length pre) + Z.of_nat (length d)) - Z.to_nat (Z.of_nat (length pre)))%nat with (length d) by lia.
  rewrite Nat2Z.id, skipn_app, skipn_all, Nat.sub_diag. cbn [skipn app]. apply firstn_all.
Qed.
Lemma splice_app_tail (pre d x : list Z) a b : a = Z.of_nat (length pre) -> b = a + Z.of_nat (length d) -> splice (pre ++ d) a b x = pre ++ x.
Proof.
  intros -> ->. unfold splice. rewrite Nat2Z.id.
  replace (Z.to_nat (Z.of_nat (length pre) + Z.of_nat (length d))) with (length (pre ++ d)) by (rewrite app_length; lia).
  rewrite firstn_app, firstn_all, Nat.sub_diag, skipn_all. cbn [firstn]. rewrite !app_nil_r. reflexivity.
Qed.
Lemma m_copy_app_tail (pre d lit : list Z) a b : a = Z.of_nat (length pre) -> b = a + Z.of_nat (length d) -> length lit = length d ->
  m_copy (pre ++ d) a b lit = Ret (pre ++ lit, Z.of_nat (length lit)).
Proof.
  intros -> -> Hl. rewrite m_copy_in by (unfold zlen; rewrite ?app_length; lia). rewrite Nat2Z.id.
  replace (Z.to_nat (Z.of_nat (length pre) + Z.of_nat (length d))) with (length (pre ++ d)) by (rewrite app_length; lia).
  rewrite firstn_app, firstn_all, Nat.sub_diag, skipn_all. cbn [firstn]. rewrite !app_nil_r.
  rewrite skipn_app, skipn_all, Nat.sub_diag. cbn [skipn app].
  rewrite firstn_all2 by (rewrite app_length; lia). rewrite gocopy_same by lia. rewrite Hl, Nat.min_id. reflexivity.
Qed.
Lemma m_make_cap_0 c : 0 <= c -> m_make_cap 0 c = Ret [].
Proof. intros H. unfold m_make_cap. destruct (Z.ltb_spec c 0); [lia|]. reflexivity. Qed.

Definition u16f_step (s out : list Z) : option (nat * list Z) :=
  match s with
  | [] => None
  | bt :: t =>
      if bt <? RuneSelf then
        match append_uint 4 bt 16 with None => None | Some d => Some (1%nat, out ++ u_esc (to_upper d)) end
      else
        let (c, size) := Utf8.decode s in
        if c =? Utf8.RuneError then Some (size, out ++ u_esc FFFD4)
        else if ((0 <=? c) && (c <? 55296)) || ((57344 <=? c) && (c <? 65536)) then
          match append_uint 4 c 16 with None => None | Some d => Some (size, out ++ u_esc (to_upper d)) end
        else if (65536 <=? c) && (c <=? MaxRune) then
          let (r1, r2) := utf16_encode c in
          match append_uint 4 r1 16, append_uint 4 r2 16 with
          | Some d1, Some d2 => Some (size, out ++ u_esc (to_upper d1) ++ u_esc (to_upper d2))
          | _, _ => None
          end
        else Some (size, out ++ u_esc FFFD4)
  end.
Lemma utf16_go_step fu s out :
  utf16_format_go (S fu) s out =
  match s with [] => Some out | _ :: _ => match u16f_step s out with None => None | Some (size, out') => utf16_format_go fu (skipn size s) out' end end.
Proof.
  rewrite utf16_format_go_S. destruct s as [|bt t]; [reflexivity|]. unfold u16f_step.
  destruct (bt <? RuneSelf).
  - destruct (append_uint 4 bt 16); reflexivity.
  - destruct (Utf8.decode (bt :: t)) as [c size]. cbv zeta. destruct (c =? Utf8.RuneError); [reflexivity|].
    destruct ((0 <=? c) && (c <? 55296) || (57344 <=? c) && (c <? 65536)); [destruct (append_uint 4 c 16); reflexivity|].
    destruct ((65536 <=? c) && (c <=? MaxRune)); [|reflexivity].
    destruct (utf16_encode c) as [r1 r2]. destruct (append_uint 4 r1 16); [|reflexivity]. destruct (append_uint 4 r2 16); reflexivity.
Qed.

Ltac u16f_iter :=
  repeat first
    [ erewrite m_slice_app_tail by pad_side
    | rewrite code_appendUint by (first [lia | (cbn [length]; lia)])
    | erewrite splice_app_tail by pad_side
    | rewrite code_toUpper by (first [eassumption | pad_side])
    | erewrite m_copy_app_tail by pad_side
    | rewrite app_esc_split
    | progress step_code ].
Ltac u16f_done := unfold u_esc, FFFD4; rewrite <- ?app_assoc; cbn [app]; repeat f_equal; first [reflexivity | pad_side].
(* the model side decides the branch; then the code is opened and evaluated along it *)
Ltac u16f_open s k Hl :=
  eexists; iter_open; rewrite Hl; rewrite (m_get_nat s _ k) by lia; rewrite ?(m_slice_suffix s _ k) by lia;
  unfold std_utf8_DecodeRune; rewrite ?app_esc_split.

Ltac u16f_shape pk c b p K fuel :=
  lazymatch goal with Hb : bytes ?s, Hm : utf16_format_go _ ?s [] = Some ?B |- _ = Ret ?B =>
    let ST := constr:(fun (out : list Z) (f0 : Z) (k : nat) => pk out (Z.of_nat (length out)) f0 (Z.of_nat k)) in
    let H1 := fresh "H1" in let H2 := fresh "H2" in
    assert (H1 : forall k out f0 size out', (k < length s)%nat -> u16f_step (skipn k s) out = Some (size, out') ->
       exists f1, iter1 c b p (ST out f0 k) = Ret (inl (ST out' f1 (k + size)%nat)));
    [ let k := fresh "k" in let out := fresh "out" in let f0 := fresh "f0" in let size := fresh "size" in let out' := fresh "out'" in
      let Hk := fresh "Hk" in let Hstep := fresh "Hstep" in
      intros k out f0 size out' Hk Hstep; cbv beta;
      assert (Hl : (Z.of_nat k <? zlen s) = true) by (apply Z.ltb_lt; unfold zlen; lia);
      pose proof (nth_byte s k Hb Hk) as Hbt; pose proof (bytes_skipn s k Hb) as Hsb;
      unfold u16f_step in Hstep; rewrite (skipn_cons_nth s k Hk) in Hstep; rewrite <- (skipn_cons_nth s k Hk) in Hstep;
      unfold RuneSelf, MaxRune, Utf8.RuneError in Hstep;
      destruct (nth k s 0 <? 128) eqn:Ea;
      [ destruct (append_uint 4 (nth k s 0) 16) as [d|] eqn:Ed; [|discriminate Hstep]; injection Hstep as <- <-;
        pose proof (append_uint_length _ _ _ _ Ed) as Hdl; assert (Hdb : bytes d) by (eapply append_uint_bytes; [|exact Ed]; lia);
        u16f_open s k Hl; rewrite ?Ea;
        u16f_iter; cbn [length]; rewrite ?Ed; cbn [lift]; u16f_iter; u16f_done
      | destruct (Utf8.decode (skipn k s)) as [cc w] eqn:Edec;
        assert (Hc : 0 <= cc < 4294967296) by
          (destruct (decode_range _ _ _ Edec) as [H|(b0 & t0 & E & Hneg)]; [exact H|exfalso; rewrite (skipn_cons_nth s k Hk) in E; injection E as E _; lia]);
        destruct (cc =? 65533) eqn:Ec;
        [ injection Hstep as <- <-; u16f_open s k Hl; rewrite ?Ea, ?Edec; step_code; rewrite ?Ec; u16f_iter; u16f_done
        | destruct ((0 <=? cc) && (cc <? 55296) || (57344 <=? cc) && (cc <? 65536)) eqn:Ebmp;
          [ destruct (append_uint 4 cc 16) as [d|] eqn:Ed; [|discriminate Hstep]; injection Hstep as <- <-;
            pose proof (append_uint_length _ _ _ _ Ed) as Hdl; assert (Hdb : bytes d) by (eapply append_uint_bytes; [|exact Ed]; lia);
            u16f_open s k Hl; rewrite ?Ea, ?Edec; step_code; rewrite ?Ec, ?Ebmp;
            rewrite (wrap_small 64 cc) by (change (2 ^ 64) with 18446744073709551616; lia);
            u16f_iter; cbn [length]; rewrite ?Ed; cbn [lift]; u16f_iter; u16f_done
          | destruct ((65536 <=? cc) && (cc <=? 1114111)) eqn:Esup;
            [ assert (Hcc : 65536 <= cc <= 1114111) by (apply andb_true_iff in Esup; destruct Esup; zb; lia);
              rewrite (utf16_encode_pair cc Hcc) in Hstep;
              assert (Hhi : 0 <= hi_s cc < 65536) by (unfold hi_s; lia_dm);
              assert (Hlo : 0 <= lo_s cc < 65536) by (unfold lo_s; lia_dm);
              destruct (append_uint 4 (hi_s cc) 16) as [d1|] eqn:Ed1; [|discriminate Hstep];
              destruct (append_uint 4 (lo_s cc) 16) as [d2|] eqn:Ed2; [|discriminate Hstep]; injection Hstep as <- <-;
              pose proof (append_uint_length _ _ _ _ Ed1) as Hdl1; assert (Hdb1 : bytes d1) by (eapply append_uint_bytes; [|exact Ed1]; lia);
              pose proof (append_uint_length _ _ _ _ Ed2) as Hdl2; assert (Hdb2 : bytes d2) by (eapply append_uint_bytes; [|exact Ed2]; lia);
              u16f_open s k Hl; rewrite ?Ea, ?Edec; step_code; rewrite ?Ec, ?Ebmp, ?Esup;
              change (std_utf16_EncodeRune cc) with (utf16_encode cc); rewrite (utf16_encode_pair cc Hcc); step_code;
              rewrite !(wrap_small 64) by (change (2 ^ 64) with 18446744073709551616; lia);
              u16f_iter; cbn [length]; rewrite ?Ed1; cbn [lift]; u16f_iter; cbn [length]; rewrite ?Ed2; cbn [lift]; u16f_iter;
              u16f_done
            | injection Hstep as <- <-; u16f_open s k Hl; rewrite ?Ea, ?Edec; step_code; rewrite ?Ec, ?Ebmp, ?Esup; u16f_iter; u16f_done ] ] ] ]
    | ];
    assert (H2 : forall k out f0, (length s <= k)%nat -> iter1 c b p (ST out f0 k) = Ret (inr (inl (ST out f0 k))));
    [ intros; cbv beta; iter_open; unfold zlen; repeat break_if; zb; try reflexivity; exfalso; lia | ];
    apply (bind_while_more c b p K (S (length s)) fuel); [|lia];
    exact (rune_while ST c b p K s u16f_step utf16_format_go (fun out => out)
             (fun _ _ => eq_refl) utf16_go_step H1 H2 (fun _ _ _ => eq_refl)
             (S (length s)) 0%nat [] 0 B Hm)
  end.

(* Utf16Format: every byte string, every fuel above its length (and above 4: toUpper over the four digits) *)
Theorem code_Utf16Format : forall fuel s, bytes s -> (length s < fuel)%nat -> (4 < fuel)%nat -> g_Utf16Format fuel s = lift (utf16_format s).
Proof.
  intros fuel s Hb Hf Hf4. unfold g_Utf16Format. repeat autounfold with go2v_aux. step_code.
  unfold std_utf8_RuneCount. rewrite m_make_cap_0 by lia. step_code.
  pose proof (utf16_format_shape s Hb) as Hm. rewrite Hm. cbn [lift]. unfold utf16_format in Hm.
  match goal with |- match while _ ?c ?b ?p ?s0 with Ret a => @?K a | Panic => Panic | NoFuel => NoFuel end = _ =>
    change (bind (while fuel c b p s0) K = Ret (s_utf16_format s));
    first [ solve [u16f_shape (fun (B : list Z) (j f i : Z) => (B, j, f, i)) c b p K fuel]
          | solve [u16f_shape (fun (B : list Z) (j f i : Z) => (B, j, i)) c b p K fuel] ]
  end.
Qed.

