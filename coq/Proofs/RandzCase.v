(* C20, part 5: for every well-formed case the model's output satisfies the judge (spec_ok) that the check applies to
   the implementation's output — the tie between the per-operation theorems and what Run/C20.v executes. *)
From Coq Require Import List ZArith Lia Bool.
From V Require Import Lib.Enc Lib.Utf8 Gen.Randz Model.Randz Proofs.RandzBase32 Proofs.RandzStr Proofs.RandzCount.
Import ListNotations.
Local Open Scope Z_scope.

Definition case_wf (c : ccase) : Prop :=
  match c with
  | CParse s => Forall is_byte s
  | CFormat id => id < 2 ^ 63
  | CIdgen => True
  | CStr n cs _ => Forall is_byte cs /\ Z.of_nat (length (Utf8.runes cs)) < 2 ^ 63
  | CCount _ _ _ => True
  | CBad => False
  end.

Theorem case_meets_spec c : case_wf c -> ok_case c (run_case c) = true.
Proof.
  destruct c as [s|id| |n cs ws|idt added diffs|]; cbn [case_wf run_case ok_case]; intros H.
  - apply parse_meets_spec. exact H.
  - destruct (Z_lt_le_dec id 0) as [Hn|Hp].
    + unfold ok_format. destruct (Z.ltb_spec id 0); [reflexivity|lia].
    + apply format_meets_spec. lia.
  - reflexivity.
  - destruct H as [Hb Hl]. apply str_meets_spec; assumption.
  - apply count_meets_spec.
  - contradiction.
Qed.
Example case_wf_inhabited : case_wf (CStr 3 [97; 98; 99] [27]) /\ case_wf (CFormat 1023) /\ case_wf (CParse [122; 122]).
Proof. repeat split; try (repeat constructor; unfold is_byte; lia); vm_compute; reflexivity. Qed.
