(* C01: the interface-level consequences of the invariant, from ANY state satisfying it
   (every sequentially reachable fill level / rotation / counter value, see seq_state_inv). *)
From Coq Require Import List ZArith Lia Bool Arith.
Import ListNotations.
From V Require Import Model.SyncRingConc Proofs.SyncRingConc.
Local Open Scope Z_scope.

Theorem syncring_from_inv k c0 sched c :
  Inv k c0 -> fresh_run c0 sched -> run c0 sched = Some c ->
  Inv k c /\
  0 <= tl (sh c) - hd (sh c) <= 2 ^ k /\ Z.of_nat (length (q (sh c))) = tl (sh c) - hd (sh c) /\
  replay (2 ^ k) (lin (sh c)) [] = Some (q (sh c)) /\
  (forall i v g, In (i, RPop v (Some g)) (hist c) -> v = Some g) /\
  ~ race c /\
  len_of (u32 (tl (sh c))) (u32 (hd (sh c))) (cap (sh c)) = Z.of_nat (length (q (sh c))).
Proof.
  intros HI0 HF HR. destruct (run_inv k sched c0 HI0 HF) as (c' & E & HI).
  rewrite HR in E. inversion E; subst c'. split; [exact HI|].
  pose proof (race_free k c HI) as HRace.
  destruct HI as [HG _ _ HH _].
  pose proof (g_q _ _ HG). pose proof (g_full _ _ HG). pose proof (g_cap _ _ HG).
  repeat split; try lia.
  - rewrite <- (g_cap _ _ HG). apply (g_lin _ _ HG).
  - intros i v g Hin. rewrite Forall_forall in HH. apply (HH _ Hin).
  - exact HRace.
  - apply (len_exact k); exact HG.
Qed.

Theorem syncring_never_panics k c0 sched : Inv k c0 -> fresh_run c0 sched -> run c0 sched <> None.
Proof. intros HI HF. destruct (run_inv k sched c0 HI HF) as (c' & E & _). congruence. Qed.

(* without the Fresh hypothesis: any schedule shorter than 2^32 steps is fresh, provided no thread is
   already parked in front of a CAS with a stale ticket at the start (true of every quiescent state) *)
Definition stale_free (c : config) : Prop :=
  Forall (fun p => match p with PuCas _ _ _ T0 => T0 = tl (sh c) | PoCas _ _ H0 => H0 = hd (sh c) | _ => True end) (ths c).

Theorem observer_results k c : Inv k c ->
  forall i o z cp, In (i, RObs o z cp) (hist c) -> match o with KLen => 0 <= z <= cp | _ => z = 0 \/ z = 1 end.
Proof.
  intros HI i o z cp Hin. pose proof (inv_h _ _ HI) as HH. rewrite Forall_forall in HH.
  specialize (HH _ Hin). unfold res_ok in HH. cbn [snd] in HH. destruct o; exact HH.
Qed.
