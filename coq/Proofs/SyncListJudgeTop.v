(* C11, refinement of the history judge: the judge accepts every run of the step model on a well-formed case. *)
From Coq Require Import List ZArith Lia Bool Arith.
Import ListNotations.
From V Require Import Lib.Enc Model.SyncListConc Proofs.SyncListConc Proofs.SyncListTop Run.C11
  Proofs.SyncListJudgeBase Proofs.SyncListJudgeSim Proofs.SyncListJudgeStep Proofs.SyncListJudgeLive.
Local Open Scope Z_scope.
Arguments Z.add : simpl never.
Arguments Z.sub : simpl never.
Arguments Z.of_nat : simpl never.

Definition progs_ok (progs : list (list Z)) : Prop := Forall (Forall (fun o => op_ok o = true)) progs.

(* ---- the whole schedule ---- *)
Lemma sim_run progs sched : progs_ok progs -> Forall (fun t => 0 <= t) sched -> forall c rts js, SIM progs c rts js ->
  let '(c', rts', toks) := gos c rts sched in
  exists js', SIM progs c' rts' js' /\
    forall k rest, judge_steps (length toks + S k) progs js (toks ++ -1 :: rest) = (js', rest).
Proof.
  intros Hwf. induction sched as [|x sched IH]; intros Hs c rts js HS; cbn [gos].
  - exists js. split; [exact HS|]. intros k rest. reflexivity.
  - inversion Hs as [|? ? Hx Hs']; subst.
    pose proof (sim_step progs c rts js x Hwf HS) as H1.
    destruct (go1 c rts x) as [[c1 rts1] toks1]. destruct H1 as (js1 & HS1 & Htok).
    specialize (IH Hs' c1 rts1 js1 HS1). destruct (gos c1 rts1 sched) as [[c2 rts2] toks2].
    destruct IH as (js2 & HS2 & HJ). exists js2. split; [exact HS2|]. intros k rest.
    destruct Htok as [[-> ->]|(it & -> & Htid & ->)].
    + cbn [app]. apply HJ.
    + replace (length (enc_item it ++ toks2) + S k)%nat with (S (length toks2 + S (k + (length (enc_item it) - 1))))%nat
        by (rewrite app_length; pose proof (enc_item_length it); lia).
      rewrite <- app_assoc, judge_steps_item by lia. apply HJ.
Qed.

(* ---- the initial state ---- *)
Lemma get_lists_length n : forall l, length (fst (get_lists n l)) = n.
Proof.
  induction n as [|n IH]; intros l; cbn [get_lists]; [reflexivity|].
  destruct (get_list l) as [a r]. specialize (IH r). destruct (get_lists n r) as [b r']. cbn [fst length] in *. rewrite IH. reflexivity.
Qed.
Definition t_init : tstate := {| t_next := O; t_cur := None; t_done := []; t_lasthead := -1 |}.
Lemma nth_error_repeat_inv {A} (x y : A) n i : nth_error (repeat x n) i = Some y -> y = x.
Proof. intros H. apply nth_error_In, repeat_spec in H. exact H. Qed.

Lemma sim_init progs npre : 
  SIM progs (seq_state npre (length progs)) (init_rts progs)
    {| j_q := map pre_val (seq 0 npre); j_ths := repeat t_init (length progs); j_ok := true |}.
Proof.
  constructor; cbn [j_q j_ok j_ths seq_state sh ths q head].
  - apply seq_state_inv.
  - reflexivity.
  - reflexivity.
  - unfold init_rts. rewrite map_length, repeat_length. reflexivity.
  - rewrite !repeat_length. reflexivity.
  - intros i p rt t Hp Hrt Ht. apply nth_error_repeat_inv in Hp. apply nth_error_repeat_inv in Ht. subst p t.
    unfold init_rts in Hrt. apply nth_error_map_inv in Hrt as (pr & Hpr & ->).
    unfold tsim, settled. cbn [r_prog r_yield r_wait r_res pc_idle andb Z.eqb t_init t_next t_cur t_done skipn].
    split; [symmetry; apply nth_error_nth; exact Hpr|]. split; [discriminate|]. reflexivity.
  - intros i j ti tj ri _ Hi _ Hr _. apply nth_error_repeat_inv in Hi. subst ti. discriminate.
Qed.

Lemma completion_nonneg n progs : Forall (fun t => 0 <= t) (completion n progs).
Proof.
  unfold completion. apply Forall_forall. intros t Ht. apply in_concat in Ht as (l & Hl & Ht).
  apply repeat_spec in Hl. subst l. apply in_map_iff in Ht as (k & <- & _). lia.
Qed.

(* ---- the checks after the trace ---- *)
Lemma check_threads_ok : forall jts rts tl, length jts = length rts ->
  (forall i t rt, nth_error jts i = Some t -> nth_error rts i = Some rt ->
     check_results (rev (t_done (finish t))) (rev (r_res rt)) = true) ->
  check_threads jts (flat_map (fun rt => put_list (rev (r_res rt))) rts ++ tl) = (true, tl).
Proof.
  induction jts as [|t jts IH]; intros [|rt rts] tl Hlen H; cbn [length] in Hlen; try discriminate.
  - reflexivity.
  - cbn [flat_map check_threads]. rewrite <- app_assoc, get_list_put_list.
    rewrite (H 0%nat t rt eq_refl eq_refl).
    rewrite (IH rts tl); [reflexivity|lia|]. intros i t' rt' A B. apply (H (S i)); assumption.
Qed.

Lemma sumw_all_idle l : forallb pc_idle l = true -> sumw l = 0.
Proof.
  induction l as [|p l IH]; cbn [forallb sumw]; [reflexivity|]. intros H. apply andb_true_iff in H as [H1 H2].
  rewrite (IH H2). destruct p; try discriminate. reflexivity.
Qed.

Lemma nth_firstn_lt {A} (l : list A) : forall k j d, (j < k)%nat -> nth j (firstn k l) d = nth j l d.
Proof.
  induction l as [|a l IH]; intros [|k] [|j] d H; cbn [firstn nth]; try lia; auto. apply IH. lia.
Qed.
Lemma nth_skipn_add {A} (l : list A) : forall a j d, nth j (skipn a l) d = nth (a + j) l d.
Proof.
  induction l as [|x l IH]; intros [|a] j d; cbn [skipn nth Nat.add]; auto.
  - destruct j; reflexivity.
Qed.
Lemma stored_q c : Inv c -> stored (sh c) = q (sh c).
Proof.
  intros HI. pose proof (i_ht _ HI) as Hht. pose proof (i_len _ HI) as Hlen. pose proof (i_q _ HI) as Hq.
  pose proof (i_vals _ HI) as Hv. pose proof (i_one _ HI) as Hone. unfold stored.
  set (f := fun o : option Z => match o with Some v => v | None => 0 end).
  assert (Hl : length (map f (firstn (tail (sh c) - head (sh c)) (skipn (S (head (sh c))) (vals (sh c))))) = length (q (sh c))).
  { rewrite map_length, firstn_length, skipn_length. lia. }
  apply (nth_ext _ _ 0 0 Hl). intros j Hj. rewrite Hl in Hj.
  change 0 with (f None) at 1. rewrite map_nth, nth_firstn_lt by lia. rewrite nth_skipn_add.
  rewrite (Hv j Hj). reflexivity.
Qed.

Lemma forallb_nth_error {A} (f : A -> bool) l i x : forallb f l = true -> nth_error l i = Some x -> f x = true.
Proof. intros H Hi. rewrite forallb_forall in H. apply H. eapply nth_error_In; eauto. Qed.

(* ---- the refinement theorem ---- *)
Theorem judge_accepts_model : forall args, wf_case args = true -> judge (put_list args ++ put_list (run_case args)) = [1].
Proof.
  intros args Hwf. destruct args as [|npre [|nt r]]; try discriminate.
  unfold judge. rewrite get_list_put_list, get_list_put_list_nil.
  unfold wf_case in Hwf. unfold run_case.
  pose proof (get_lists_length (Z.to_nat nt) r) as Hn.
  destruct (get_lists (Z.to_nat nt) r) as [progs r1]. cbn [fst] in Hn.
  destruct (get_list r1) as [sched r2].
  change (map (fun pr => {| r_prog := pr; r_wait := 0; r_left := 0; r_yield := false; r_res := [] |}) progs) with (init_rts progs).
  rewrite go_gos in Hwf |- *.
  rewrite <- Hn in *. set (n := length progs) in *.
  assert (Hpo : forallb (forallb op_ok) progs = true /\ forallb (fun t => 0 <=? t) sched = true /\
                let '(c, rts', _) := gos (seq_state (Z.to_nat npre) n) (init_rts progs) (sched ++ completion n progs) in
                quiescent c rts' = true).
  { apply andb_true_iff in Hwf as [Hwf H3]. apply andb_true_iff in Hwf as [H1 H2]. split; [exact H1|]. split; [exact H2|].
    apply orb_true_iff in H3 as [H3|H3].
    - (* no blocking PopWait: quiescence is a theorem *)
      apply completion_quiescent. apply Forall_forall. intros l Hl. apply Forall_forall. intros o Ho.
      rewrite forallb_forall in H3. specialize (H3 _ Hl). rewrite forallb_forall in H3. apply H3, Ho.
    - destruct (gos (seq_state (Z.to_nat npre) n) (init_rts progs) (sched ++ completion n progs)) as [[c rts'] toks]. exact H3. }
  clear Hwf. destruct Hpo as (Hp1 & Hp2 & Hq).
  assert (Hprogs : progs_ok progs).
  { apply Forall_forall. intros l Hl. apply Forall_forall. intros o Ho.
    rewrite forallb_forall in Hp1. specialize (Hp1 _ Hl). rewrite forallb_forall in Hp1. apply Hp1, Ho. }
  assert (Hsched : Forall (fun t => 0 <= t) (sched ++ completion n progs)).
  { apply Forall_app. split; [|apply completion_nonneg]. apply Forall_forall. intros t Ht.
    rewrite forallb_forall in Hp2. apply Z.leb_le, Hp2, Ht. }
  pose proof (sim_run progs _ Hprogs Hsched _ _ _ (sim_init progs (Z.to_nat npre))) as HR. fold n in HR.
  destruct (gos (seq_state (Z.to_nat npre) n) (init_rts progs) (sched ++ completion n progs)) as [[c rts'] toks].
  destruct HR as (js & HS & HJ).
  fold t_init.
  rewrite (flat_map_ext _ (fun rt => put_list (rev (r_res rt)))) by (intros rt; unfold rev'; rewrite <- rev_alt; reflexivity).
  unfold rev'. rewrite <- !rev_alt, app_nil_r, rev_involutive.
  set (tl := [-2; len (sh c)] ++ put_list (stored (sh c))).
  set (res := flat_map (fun rt => put_list (rev (r_res rt))) rts').
  assert (Hfuel : (length (toks ++ [(-1)%Z] ++ res ++ tl) + 1 = length toks + S (S (length (res ++ tl))))%nat)
    by (rewrite !app_length; cbn [length]; lia).
  rewrite Hfuel. change ([-1] ++ res ++ tl) with (-1 :: res ++ tl). rewrite HJ.
  unfold quiescent in Hq. apply andb_true_iff in Hq as [Hq1 Hq2].
  pose proof (s_inv _ _ _ _ HS) as HI.
  assert (Hct : check_threads (j_ths js) (res ++ tl) = (true, tl)).
  { unfold res. apply check_threads_ok.
    - rewrite (s_len1 _ _ _ _ HS), (s_len2 _ _ _ _ HS). reflexivity.
    - intros i t rt Ht Hrt.
      destruct (nth_error (ths c) i) as [p|] eqn:Hp;
        [|apply nth_error_None in Hp; apply nth_error_some_lt in Ht; rewrite (s_len2 _ _ _ _ HS) in Ht; lia].
      pose proof (s_t _ _ _ _ HS _ _ _ _ Hp Hrt Ht) as (_ & _ & H3).
      unfold settled in H3. rewrite (forallb_nth_error _ _ _ _ Hq1 Hp), (forallb_nth_error _ _ _ _ Hq2 Hrt) in H3. cbn [andb] in H3.
      apply done_ok_finish. exact H3. }
  rewrite Hct. unfold tl. cbn [app].
  rewrite get_list_put_list_nil. cbn [fst].
  rewrite (s_q _ _ _ _ HS), (s_ok _ _ _ _ HS), (stored_q c HI), list_eqb_refl.
  pose proof (i_cnt _ HI) as A. pose proof (i_ht _ HI) as B. pose proof (i_q _ HI) as C.
  rewrite (sumw_all_idle _ Hq1) in A.
  replace (len (sh c) =? Z.of_nat (length (q (sh c)))) with true by (symmetry; apply Z.eqb_eq; lia).
  reflexivity.
Qed.
Print Assumptions judge_accepts_model.
