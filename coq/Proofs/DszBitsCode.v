(* C16 — the code GENERATED from dsz/bits.go, type Bits (coq/Gen/DszBitsCode.v) is equal to the hand-written model of
   Model/Bits.v (record bits = word list + cached length; b_add / b_remove update the cached length exactly when the
   membership changed).  Conversions and tactics: Proofs/BitsCode.v.  wfd b = every word in [0, 2^64). *)
From Coq Require Import List ZArith NArith Lia Bool Arith.
From V Require Import Lib.GoSem Proofs.GoSemFacts Gen.BitsCode Gen.DszBitsCode Model.Bits Proofs.BitsCode.
Import ListNotations.
Local Open Scope Z_scope.

Definition to_bits (b : Bits) : bits := {| words := ns (Bits_set b); cached := Bits_length b |}.
Definition of_bits (m : bits) : Bits := mkBits (cached m) (zs (words m)).
Definition wfd (b : Bits) : Prop := Forall word_ok (Bits_set b).

Lemma to_of_bits m : to_bits (of_bits m) = m.
Proof. destruct m as [w c]. unfold to_bits, of_bits. cbn [Bits_set Bits_length words cached]. rewrite ns_zs. reflexivity. Qed.
Lemma of_to_bits b : wfd b -> of_bits (to_bits b) = b.
Proof. destruct b as [c l]. unfold wfd, of_bits, to_bits. cbn [Bits_set Bits_length words cached]. intros H. rewrite zs_ns; trivial. Qed.
Lemma wfd_of_bits m : wfd (of_bits m) <-> words_ok (words m).
Proof. destruct m as [w c]. exact (wf_of_model w). Qed.

Ltac unfold_dsz :=
  repeat autounfold with go2v;
  cbv beta iota zeta delta [of_bits bind mmap lift m_get m_set m_make fst snd words cached
    b_add b_remove add remove contains grow cap widx bidx mask].
Ltac crush_dsz := intros; unfold_dsz; repeat step; finish.

Lemma dsz_Grow_N w c n : g_Bits_Grow (of_bits {| words := w; cached := c |}) (Z.of_N n) =
  Ret (of_bits {| words := grow w n; cached := c |}).
Proof. crush_dsz. Qed.
Lemma dsz_Add_N w c n : g_Bits_Add (of_bits {| words := w; cached := c |}) (Z.of_N n) =
  Ret (of_bits (fst (b_add {| words := w; cached := c |} n))).
Proof. crush_dsz. Qed.
Lemma dsz_Remove_N w c n : words_ok w -> g_Bits_Remove (of_bits {| words := w; cached := c |}) (Z.of_N n) =
  Ret (of_bits (fst (b_remove {| words := w; cached := c |} n))).
Proof. crush_dsz. Qed.
Lemma dsz_Contains_N w c n : g_Bits_Contains (of_bits {| words := w; cached := c |}) (Z.of_N n) = Ret (contains w n).
Proof. crush_dsz. Qed.
Lemma dsz_Len_N w c : g_Bits_Len (of_bits {| words := w; cached := c |}) = Ret c.
Proof. crush_dsz. Qed.
Lemma dsz_Cap_N w c : g_Bits_Cap (of_bits {| words := w; cached := c |}) = Ret (Z.of_N (cap w)).
Proof. crush_dsz. Qed.

Ltac to_bits_N b n Hb Hn :=
  rewrite <- (of_to_bits b Hb) at 1; try rewrite <- (Z2N.id n Hn) at 1; destruct (to_bits b) as [w c] eqn:Eb;
  assert (Hw : words_ok w) by (apply (wfd_of_bits {| words := w; cached := c |}); rewrite <- Eb, of_to_bits; assumption).

Theorem dsz_Grow : forall b n, wfd b -> 0 <= n ->
  g_Bits_Grow b n = Ret (of_bits {| words := grow (words (to_bits b)) (Z.to_N n); cached := cached (to_bits b) |}).
Proof. intros b n Hb Hn. to_bits_N b n Hb Hn. apply dsz_Grow_N. Qed.
Theorem dsz_Add : forall b n, wfd b -> 0 <= n -> g_Bits_Add b n = Ret (of_bits (fst (b_add (to_bits b) (Z.to_N n)))).
Proof. intros b n Hb Hn. to_bits_N b n Hb Hn. apply dsz_Add_N. Qed.
Theorem dsz_Remove : forall b n, wfd b -> 0 <= n -> g_Bits_Remove b n = Ret (of_bits (fst (b_remove (to_bits b) (Z.to_N n)))).
Proof. intros b n Hb Hn. to_bits_N b n Hb Hn. apply dsz_Remove_N, Hw. Qed.
Theorem dsz_Contains : forall b n, wfd b -> 0 <= n -> g_Bits_Contains b n = Ret (contains (words (to_bits b)) (Z.to_N n)).
Proof. intros b n Hb Hn. to_bits_N b n Hb Hn. apply dsz_Contains_N. Qed.
Theorem dsz_Len : forall b, g_Bits_Len b = Ret (cached (to_bits b)).
Proof. intros [c l]. reflexivity. Qed.
Theorem dsz_Cap : forall b, wfd b -> g_Bits_Cap b = Ret (Z.of_N (cap (words (to_bits b)))).
Proof. intros b Hb. rewrite <- (of_to_bits b Hb) at 1. destruct (to_bits b) as [w c]. apply dsz_Cap_N. Qed.
(* wfd is an invariant *)
Theorem dsz_wf : forall b n, wfd b ->
  wfd (of_bits {| words := grow (words (to_bits b)) n; cached := cached (to_bits b) |}) /\
  wfd (of_bits (fst (b_add (to_bits b) n))) /\ wfd (of_bits (fst (b_remove (to_bits b) n))).
Proof.
  intros b n Hb. assert (Hw : words_ok (words (to_bits b))) by (apply wfd_of_bits; rewrite of_to_bits; assumption).
  rewrite !wfd_of_bits. unfold b_add, b_remove. pose proof (add_ok _ n Hw). pose proof (remove_ok _ n Hw).
  destruct (add _ n), (remove _ n). cbn [fst words] in *. repeat split; [apply grow_ok|..]; assumption.
Qed.
