(* C12: the lock discipline of the GENERATED skeletons (re-checked against mapz/safekv.go + mapz/iter.go on every run). *)
From Coq Require Import List Bool.
From V Require Import Gen.SafeKVSkel Model.SafeKV.
Lemma all_methods_well_locked : forallb well_locked all_skels = true.
Proof. vm_compute. reflexivity. Qed.
(* every method is one critical section: what "each call takes effect atomically" needs besides the lock discipline *)
Lemma all_methods_one_section : forallb one_section all_skels = true.
Proof. vm_compute. reflexivity. Qed.
