(* C01, refinement model -> judge: how one thread's relation [TRcore] evolves (operation start, retry of a wait
   loop, intermediate step, linearisation point, return). *)
From Coq Require Import List ZArith Lia Bool Arith.
Import ListNotations.
From V Require Import Lib.Enc Model.SyncRingConc Model.SyncRingJudge Proofs.SyncRingConc Run.C01 Proofs.SyncRingJudgeSim.
Local Open Scope Z_scope.
Arguments Z.add : simpl never.
Arguments Z.sub : simpl never.
Arguments Z.mul : simpl never.
Arguments Z.modulo : simpl never.
Arguments Z.div : simpl never.
Arguments Z.pow : simpl never.
Arguments Z.of_nat : simpl never.
Arguments Z.to_nat : simpl never.

Definition is_idle (p : pc) : bool := match p with Idle => true | _ => false end.

(* the pieces of Run.C01.go *)
Definition rt_begin (rt : rthread) (x : Z) (more : list Z) : rthread :=
  if is_wait x then {| r_prog := more; r_wait := x; r_left := tries_of x; r_yield := false; r_res := r_res rt |}
  else {| r_prog := more; r_wait := 0; r_left := 0; r_yield := false; r_res := r_res rt |}.
Definition rt_start (p : pc) (rt : rthread) : option (op * rthread) :=
  if negb (is_idle p) then Some (OpPop, rt)
  else if negb (r_wait rt =? 0) then Some (attempt_of (r_wait rt), rt)
  else match r_prog rt with
       | [] => None
       | x :: more => Some (if is_wait x then attempt_of x else dec_op x, rt_begin rt x more)
       end.
Definition rt_after (rt1 : rthread) (r : res) : rthread :=
  if (r_wait rt1 =? 0) || res_success r || (r_left rt1 =? 0)
  then {| r_prog := r_prog rt1; r_wait := 0; r_left := 0; r_yield := false; r_res := rev_append (enc_res r) (r_res rt1) |}
  else if r_left rt1 <? 0
  then {| r_prog := r_prog rt1; r_wait := r_wait rt1; r_left := -1; r_yield := true; r_res := r_res rt1 |}
  else {| r_prog := r_prog rt1; r_wait := r_wait rt1; r_left := r_left rt1 - 1; r_yield := false; r_res := r_res rt1 |}.
Definition rt_unyield (rt : rthread) : rthread :=
  {| r_prog := r_prog rt; r_wait := r_wait rt; r_left := r_left rt; r_yield := false; r_res := r_res rt |}.

(* an operation in flight, with its record named *)
Definition TRmid (cap : Z) (p : pc) (rt : rthread) (t : tstate) (prog : list Z) (r : oprec) : Prop :=
  exists ress,
    rev (r_res rt) = flat_map enc_res ress /\
    r_prog rt = skipn (t_next t) prog /\
    Forall2 (res_fits cap) (rev (t_done t)) ress /\
    t_cur t = Some r /\ rec_pc r p /\ o_wait r = negb (r_wait rt =? 0) /\
    (r_wait rt <> 0 -> o_left r = r_left rt /\ att_ok rt r).

Lemma TRmid_intro cap p rt t prog r : TRmid cap p rt t prog r -> TRcore cap p rt t prog.
Proof.
  intros (ress & H1 & H2 & H3 & H4 & H5 & H6 & H7). exists ress, ress. rewrite H4.
  destruct p; try (cbn [rec_pc] in H5; contradiction);
    (split; [exact H1|split; [exact H2|split; [exact H3|split; [reflexivity|split; [exact H5|split; [exact H6|exact H7]]]]]]).
Qed.
Lemma TRmid_elim cap p rt t prog : p <> Idle -> TRcore cap p rt t prog -> exists r, TRmid cap p rt t prog r.
Proof.
  intros Hp (ress & dn & H1 & H2 & H3 & H4). destruct (t_cur t) as [r|] eqn:E.
  - exists r. destruct p; try congruence; destruct H4 as (-> & H5 & H6 & H7); exists dn;
      (split; [exact H1|split; [exact H2|split; [exact H3|split; [exact E|split; [exact H5|split; [exact H6|exact H7]]]]]]).
  - destruct H4 as (? & _). contradiction.
Qed.
Lemma TRcore_inflight cap p rt t prog : TRcore cap p rt t prog -> p <> Idle -> exists r, t_cur t = Some r.
Proof.
  intros H Hp. destruct (TRmid_elim _ _ _ _ _ Hp H) as (r & ress & _ & _ & _ & E & _). eauto.
Qed.

(* an intermediate step: the pc changes, the record does not *)
Lemma TRmid_move cap p p' rt t prog r : TRmid cap p rt t prog r -> rec_pc r p' -> TRmid cap p' rt t prog r.
Proof.
  intros (ress & H1 & H2 & H3 & H4 & H5 & H6 & H7) H. exists ress.
  split; [exact H1|split; [exact H2|split; [exact H3|split; [exact H4|split; [exact H|split; [exact H6|exact H7]]]]]].
Qed.

(* the record is replaced at the linearisation point *)
Lemma TRmid_lp cap p p' rt t prog r r' :
  TRmid cap p rt t prog r -> rec_pc r' p' -> o_wait r' = o_wait r -> o_left r' = o_left r -> (att_ok rt r -> att_ok rt r') ->
  TRmid cap p' rt {| t_next := t_next t; t_cur := Some r'; t_done := t_done t |} prog r'.
Proof.
  intros (ress & H1 & H2 & H3 & H4 & H5 & H6 & H7) Hp Hw Hl Ha. exists ress. cbn [t_next t_cur t_done].
  split; [exact H1|split; [exact H2|split; [exact H3|split; [reflexivity|split; [exact Hp|split; [congruence|]]]]]].
  intros E. destruct (H7 E) as [A B]. split; [congruence|auto].
Qed.

(* the operation returns: either it is over, or (wait loop) another attempt will follow *)
Lemma TRmid_return cap p rt t prog r x :
  TRmid cap p rt t prog r -> res_fits cap r x ->
  (res_success x = false -> o_lp r = false) -> (res_success x = true -> o_lp r = true) ->
  TRcore cap Idle (rt_after rt x) t prog.
Proof.
  intros (ress & H1 & H2 & H3 & H4 & H5 & H6 & H7) Hfit Hfail Hsucc. unfold rt_after.
  destruct ((r_wait rt =? 0) || res_success x || (r_left rt =? 0)) eqn:Edone.
  - exists (ress ++ [x]), ress. cbn [r_res r_prog r_wait]. rewrite H4. repeat split; auto.
    + rewrite rev_append_rev, rev_app_distr, rev_involutive, H1, flat_map_app. cbn [flat_map]. rewrite app_nil_r. reflexivity.
    + exists x. split; auto.
    + apply orb_true_iff in Edone. destruct Edone as [Edone|E3].
      * apply orb_true_iff in Edone. destruct Edone as [E1|E2].
        -- rewrite H6, E1. reflexivity.
        -- rewrite (Hsucc E2). cbn [negb]. rewrite andb_false_r. reflexivity.
      * destruct (r_wait rt =? 0) eqn:E1; [rewrite H6; reflexivity|].
        apply Z.eqb_neq in E1. destruct (H7 E1) as [El _]. rewrite El, E3. cbn [negb]. apply andb_false_r.
  - apply orb_false_iff in Edone. destruct Edone as [Edone E3]. apply orb_false_iff in Edone. destruct Edone as [E1 E2].
    assert (Hw : r_wait rt <> 0) by (apply Z.eqb_neq; exact E1). destruct (H7 Hw) as [El Ha].
    apply Z.eqb_neq in E3.
    destruct (r_left rt <? 0) eqn:Eneg; exists ress, ress; cbn [r_res r_prog r_wait r_left]; rewrite H4, E1;
      repeat split; auto; try (rewrite H6, E1; reflexivity); try congruence; rewrite El, Eneg; reflexivity.
Qed.

Definition start_pc (o : op) : pc := match o with OpPush v => PuLoadTail v | OpPop => PoLoadHead | OpObs k => ObsFirst k end.

(* a retry of the same PushWait / PopWait call *)
Definition retry_rec (r : oprec) : oprec :=
  {| o_push := o_push r; o_val := o_val r; o_lp := false; o_got := o_got r; o_excuse := o_excuse r;
     o_wait := true; o_left := if o_left r <? 0 then -1 else o_left r - 1 |}.
Lemma TRcore_retry cap rt t prog r :
  TRcore cap Idle rt t prog -> r_wait rt <> 0 -> t_cur t = Some r ->
  o_wait r && negb (o_lp r) && negb (o_left r =? 0) = true /\
  TRmid cap (start_pc (attempt_of (r_wait rt))) rt {| t_next := t_next t; t_cur := Some (retry_rec r); t_done := t_done t |} prog (retry_rec r).
Proof.
  intros (ress & dn & H1 & H2 & H3 & H4) Hw Hc. rewrite Hc in H4. apply Z.eqb_neq in Hw. rewrite Hw in H4.
  destruct H4 as (-> & A & B & C & D & E). split.
  - rewrite A, B. apply Z.eqb_neq in C. rewrite C. reflexivity.
  - exists dn. cbn [t_next t_cur t_done retry_rec o_wait o_left]. rewrite Hw. repeat split; auto.
    + unfold att_ok in E. destruct (attempt_of (r_wait rt)); cbn [start_pc rec_pc retry_rec o_push o_val o_lp]; tauto.
Qed.

Lemma skipn_cons_nth {A} (l : list A) n x m : skipn n l = x :: m -> nth_error l n = Some x /\ skipn (S n) l = m.
Proof.
  revert l; induction n as [|n IH]; intros [|a l] H; cbn [skipn nth_error] in *; try discriminate.
  - inversion H; subst. split; auto.
  - apply IH in H. exact H.
Qed.
Lemma is_wait_nonzero x : is_wait x = true -> x =? 0 = false.
Proof. intros H. destruct (Z.eqb_spec x 0) as [->|]; [cbv in H; discriminate H|reflexivity]. Qed.

(* the start of a new operation *)
Lemma TRcore_begin cap rt t prog x more rnew :
  TRcore cap Idle rt t prog -> r_wait rt = 0 -> r_prog rt = x :: more ->
  rec_pc rnew (start_pc (if is_wait x then attempt_of x else dec_op x)) ->
  o_wait rnew = is_wait x -> o_left rnew = tries_of x ->
  (is_wait x = true -> match attempt_of x with
                       | OpPush v => o_push rnew = true /\ o_val rnew = v /\ 0 <= v
                       | OpPop => o_push rnew = false /\ 0 <= o_val rnew
                       | OpObs _ => False end) ->
  match t_cur t with Some r => o_wait r && negb (o_lp r) && negb (o_left r =? 0) | None => false end = false /\
  nth_error prog (t_next (finish t)) = Some x /\
  TRmid cap (start_pc (if is_wait x then attempt_of x else dec_op x)) (rt_begin rt x more)
        {| t_next := S (t_next (finish t)); t_cur := Some rnew; t_done := t_done (finish t) |} prog rnew.
Proof.
  intros (ress & dn & H1 & H2 & H3 & H4) Hw Hp Hrec Hwait Hleft Hatt.
  assert (Hn : t_next (finish t) = t_next t) by (unfold finish; destruct (t_cur t); reflexivity).
  rewrite Hp in H2. symmetry in H2. apply skipn_cons_nth in H2. destruct H2 as [Hx Hm].
  assert (HD : Forall2 (res_fits cap) (rev (t_done (finish t))) ress).
  { unfold finish. destruct (t_cur t) as [r|].
    - rewrite Hw in H4. cbn in H4. destruct H4 as ((y & -> & Hy) & _). cbn [t_done rev]. apply Forall2_app; auto.
    - destruct H4 as (_ & _ & ->). exact H3. }
  split; [|split].
  - destruct (t_cur t) as [r|]; auto. rewrite Hw in H4. cbn in H4. apply H4.
  - rewrite Hn. exact Hx.
  - exists ress. cbn [t_next t_cur t_done]. rewrite Hn. unfold rt_begin.
    destruct (is_wait x) eqn:Ew; cbn [r_res r_prog r_wait r_left]; repeat split; auto; try congruence.
    + rewrite Hwait, (is_wait_nonzero x Ew). reflexivity.
    + unfold att_ok. cbn [r_wait]. apply Hatt. reflexivity.
Qed.
