(* C06 — end to end: on the trie of every pattern set, for every text, the scopes find emits are sorted by stop, non-empty
   and inside the text, so mergeScopes terminates and Replace never slices out of range: Replace returns the text with
   every merged region replaced by one copy of repl; the merged regions cover exactly the bytes covered by occurrences. *)
From Coq Require Import List ZArith Lia Bool Arith.
From V Require Import Lib.Utf8 Model.Trie Proofs.TrieTable Proofs.TrieInsert Proofs.TrieRunes Proofs.TrieBuild Proofs.TrieFind Proofs.TrieOcc
  Proofs.TrieTop Proofs.TrieMerge Proofs.TrieReplace.
Import ListNotations.
Local Open Scope Z_scope.

Module M := V.Model.Trie.

Lemma stop_sorted_app (l1 l2 : list (Z * Z)) : stop_sorted l1 -> stop_sorted l2 ->
  (forall a b, In a l1 -> In b l2 -> snd a <= snd b) -> stop_sorted (l1 ++ l2).
Proof.
  induction l1 as [|a l1 IH]; intros H1 H2 H; cbn [app]; [exact H2|].
  destruct l1 as [|b l1]; cbn [app].
  - destruct l2 as [|c l2]; [exact I|]. cbn [stop_sorted]. split; [apply H; left; reflexivity|exact H2].
  - cbn [stop_sorted] in H1. destruct H1 as [Hab H1]. cbn [stop_sorted]. split; [exact Hab|].
    apply IH; auto. intros x y Hx Hy. apply H; [right; exact Hx|exact Hy].
Qed.
Lemma stop_sorted_const {X} (f : X -> Z) (i : Z) (l : list X) : stop_sorted (map (fun u => (f u, i)) l).
Proof.
  induction l as [|a l IH]; cbn [map]; [exact I|]. destruct l as [|b l]; cbn [map]; [exact I|].
  cbn [stop_sorted snd]. split; [lia|exact IH].
Qed.

Lemma afind_stop_sorted T0 : forall toks x i, Forall (fun rw => (1 <= snd rw)%nat) toks -> stop_sorted (afind T0 x i toks).
Proof.
  induction toks as [|[v w] rest IH]; intros x i Hp; cbn [afind]; [exact I|]. inversion Hp as [|? ? H1 H2]; subst. cbv zeta.
  apply stop_sorted_app.
  - apply stop_sorted_const.
  - apply IH. exact H2.
  - intros a [s e] Ha Hb. apply in_map_iff in Ha. destruct Ha as (u & <- & _). cbn [snd].
    (* later scopes stop later *)
    clear -Hb H2. revert Hb. generalize (x ++ [v]). generalize (i + Z.of_nat w). clear x. induction rest as [|[v' w'] rest IHr]; intros z y Hb; [destruct Hb|].
    inversion H2 as [|? ? H3 H4]; subst. cbn [afind] in Hb. cbv zeta in Hb. apply in_app_or in Hb. destruct Hb as [Hb|Hb].
    + apply in_map_iff in Hb. destruct Hb as (u' & E & _). inversion E; subst. lia.
    + apply IHr in Hb; auto. lia.
Qed.

Theorem replace_correct ps text repl T : Forall is_bytes ps -> is_bytes text -> built ps T ->
  exists sc m, M.find T text = Ok sc /\ (forall s e, In (s, e) sc <-> occurrence ps text s e) /\
    merge_scopes sc = Some m /\
    M.replace T text repl = Ok (splicez text repl 0 m) /\
    goodz 0 (Z.of_nat (length text)) m /\
    (forall i, covered m i <-> covered sc i) /\
    (forall o, In o sc -> exists x, In x m /\ inside o x) /\
    (forall x, In x m -> exists o, In o sc /\ inside o x).
Proof.
  intros Hps Hb E. destruct (built_facts ps T E) as [HS HF]. pose proof (INS_inserts ps) as HI.
  pose proof (find_sim (inserts ps) T (ins_wf _ _ HI) HS HF (INS_end_nonroot ps _ HI) text) as Ef.
  set (sc := afind (inserts ps) [] 0 (tokens text)) in *.
  assert (Hocc : forall s e, In (s, e) sc <-> occurrence ps text s e) by (intros s e; apply (afind_bytes ps Hps text Hb)).
  assert (Hss : stop_sorted sc) by (apply afind_stop_sorted, tokens_width_pos).
  assert (Hsl : forall s e, In (s, e) sc -> 0 <= s /\ s < e /\ e <= Z.of_nat (length text)).
  { intros s e H. apply Hocc in H. destruct (occurrence_slice ps text s e H) as (p & _ & Hne & Es).
    destruct H as (p' & _ & Hne' & Hs0 & He & _). unfold slice in Es.
    destruct (Z.leb_spec 0 s); [|discriminate]. destruct (Z.leb_spec s e); [|discriminate].
    destruct (Z.leb_spec e (Z.of_nat (length text))); [|discriminate].
    destruct p'; [congruence|]. cbn [length] in He. lia. }
  assert (Hwf : wf sc).
  { unfold wf. rewrite Forall_forall. intros [s e] H. cbn [fst snd]. apply Hsl in H. lia. }
  assert (Hin : in_text (Z.of_nat (length text)) sc).
  { intros [s e] H. cbn [fst snd]. apply Hsl in H. lia. }
  destruct (replace_total text repl sc Hss Hwf Hin) as (m & Em & Er & Hg & Hc & Hi1 & Hi2).
  exists sc, m. split; [exact Ef|]. split; [exact Hocc|]. split; [exact Em|]. split.
  - unfold M.replace, with_merged. rewrite Ef, Em, Er. reflexivity.
  - auto.
Qed.
