(* C07 — basic facts: parseUint (the uint64 model [pu], the plain value [pus]), checked slices, the buffer operations. *)
From Coq Require Import List ZArith Lia Bool Arith.
From V Require Import Lib.Utf8 Gen.Codec Model.Codec.
Import ListNotations.
Local Open Scope Z_scope.
Arguments Z.mul : simpl never.
Arguments Z.add : simpl never.
Arguments Z.sub : simpl never.
Arguments Z.modulo : simpl never.
Arguments Z.div : simpl never.
Arguments Z.of_nat : simpl never.
Arguments Z.pow : simpl never.

(* ---- the constants the generator read from the source are the ones the proofs were written for ---- *)
Lemma oct_consts : (Z.to_nat oct_W, Z.to_nat oct_P, oct_prefix, oct_base, maxval oct_bits) = (4%nat, 1%nat, [92], 8, 255).
Proof. reflexivity. Qed.
Lemma hex_consts : (Z.to_nat hex_W, Z.to_nat hex_P, hex_prefix, hex_base, maxval hex_bits) = (4%nat, 2%nat, [92; 120], 16, 255).
Proof. reflexivity. Qed.
Lemma uni_consts : (Z.to_nat uni_W, Z.to_nat uni_P, uni_prefix, uni_base, maxval uni_bits) = (10%nat, 2%nat, [92; 85], 16, 4294967295).
Proof. reflexivity. Qed.
Lemma u16_consts : (u16_surr1, u16_surr2, u16_surr3, maxval 16) = (55296, 56320, 57344, 65535).
Proof. reflexivity. Qed.

Lemma octal_parse_eq dl src : octal_parse dl src = esc_parse 4 1 [92] 8 255 byte_emit dl src.
Proof. reflexivity. Qed.
Lemma hex_parse_eq dl src : hex_parse dl src = esc_parse 4 2 [92; 120] 16 255 byte_emit dl src.
Proof. reflexivity. Qed.
Lemma unicode_parse_eq dl src : unicode_parse dl src = esc_parse 10 2 [92; 85] 16 4294967295 unicode_emit dl src.
Proof. reflexivity. Qed.

(* ---- digits ---- *)
Lemma digit_range c d : digit c = Some d -> 0 <= d < 36.
Proof.
  unfold digit. destruct ((48 <=? c) && (c <=? 57)) eqn:E.
  - apply andb_prop in E. destruct E as [E1 E2]. apply Z.leb_le in E1, E2. intros H; inversion H; subst. lia.
  - cbv zeta. destruct ((97 <=? lower c) && (lower c <=? 122)) eqn:E'; [|discriminate].
    apply andb_prop in E'. destruct E' as [E1 E2]. apply Z.leb_le in E1, E2. intros H; inversion H; subst. lia.
Qed.
Lemma digit_not_backslash c d : digit c = Some d -> c <> 92.
Proof. intros H E. subst c. vm_compute in H. discriminate. Qed.

(* the index parseUint reports lies inside the digit string *)
Lemma pu_index base maxv : forall ds n j v j' ok, pu base maxv n j ds = (v, j', ok) -> (j <= j' <= j + length ds)%nat.
Proof.
  induction ds as [|c t IH]; intros n j v j' ok H; cbn [pu length] in *.
  - inversion H; subst. lia.
  - destruct (digit c); [|inversion H; subst; lia].
    destruct (base <=? z); [inversion H; subst; lia|].
    destruct (cutoff base <=? n); [inversion H; subst; lia|].
    cbv zeta in H. destruct (_ || _); [inversion H; subst; lia|]. apply IH in H. lia.
Qed.

(* parseUint without the uint64 machinery: what it computes whenever the bound fits in 32 bits *)
Fixpoint pui (base maxv n : Z) (j : nat) (ds : list Z) : Z * nat * bool :=
  match ds with
  | [] => (n, j, true)
  | c :: t =>
      match digit c with
      | None => (0, j, false)
      | Some dg => if base <=? dg then (0, j, false)
                   else let n1 := n * base + dg in
                        if maxv <? n1 then (maxv, j, false) else pui base maxv n1 (S j) t
      end
  end.

Lemma cutoff_big base n : 2 <= base <= 36 -> 0 <= n < 4294967296 -> (cutoff base <=? n) = false.
Proof.
  intros Hb Hn. apply Z.leb_gt. unfold cutoff, two64.
  assert (H : 18446744073709551615 / 36 <= (18446744073709551616 - 1) / base).
  { change (18446744073709551616 - 1) with 18446744073709551615. apply Z.div_le_compat_l; lia. }
  assert (H2 : 18446744073709551615 / 36 = 512409557603043100) by reflexivity. lia.
Qed.

Lemma pu_pui base maxv : 2 <= base <= 36 -> 0 <= maxv < 4294967296 ->
  forall ds n j, 0 <= n <= maxv -> pu base maxv n j ds = pui base maxv n j ds.
Proof.
  intros Hb Hm. induction ds as [|c t IH]; intros n j Hn; cbn [pu pui]; [reflexivity|].
  destruct (digit c) as [dg|] eqn:Ed; [|reflexivity]. pose proof (digit_range _ _ Ed) as Hd.
  destruct (Z.leb_spec base dg); [reflexivity|].
  rewrite cutoff_big by lia. cbv zeta.
  assert (Hnb : 0 <= n * base < 154618822656) by nia.
  assert (E1 : (n * base) mod two64 = n * base) by (apply Z.mod_small; unfold two64; lia).
  rewrite E1.
  assert (E2 : (n * base + dg) mod two64 = n * base + dg) by (apply Z.mod_small; unfold two64; lia).
  rewrite E2.
  destruct (Z.ltb_spec (n * base + dg) (n * base)); [lia|]. cbn [orb].
  destruct (Z.ltb_spec maxv (n * base + dg)); [reflexivity|]. apply IH. lia.
Qed.

Lemma pui_index base maxv : forall ds n j v j' ok, pui base maxv n j ds = (v, j', ok) -> (j <= j' <= j + length ds)%nat.
Proof.
  induction ds as [|c t IH]; intros n j v j' ok H; cbn [pui length] in *.
  - inversion H; subst. lia.
  - destruct (digit c); [|inversion H; subst; lia].
    destruct (base <=? z); [inversion H; subst; lia|].
    cbv zeta in H. destruct (maxv <? n * base + z); [inversion H; subst; lia|]. apply IH in H. lia.
Qed.

(* [pui] against the plain value [pus]: success = all digits good, same value; failure at index j' = no value, and
   the bytes before j' are digits (so none of them is a backslash) *)
Lemma pui_ok base maxv : forall ds n j v j', pui base maxv n j ds = (v, j', true) -> pus base maxv n ds = Some v /\ j' = (j + length ds)%nat.
Proof.
  induction ds as [|c t IH]; intros n j v j' H; cbn [pui pus length] in *.
  - inversion H; subst. split; [reflexivity|lia].
  - destruct (digit c); [|discriminate]. destruct (base <=? z); [discriminate|].
    cbv zeta in *. destruct (maxv <? n * base + z); [discriminate|]. apply IH in H. destruct H as [H1 H2]. split; [exact H1|lia].
Qed.
Lemma pui_fail base maxv : forall ds n j v j', pui base maxv n j ds = (v, j', false) ->
  pus base maxv n ds = None /\ Forall (fun c => c <> 92) (firstn (j' - j) ds).
Proof.
  induction ds as [|c t IH]; intros n j v j' H; cbn [pui pus length] in *; [discriminate|].
  destruct (digit c) as [dg|] eqn:Ed; [|inversion H; subst; rewrite Nat.sub_diag; split; [reflexivity|constructor]].
  destruct (base <=? dg); [inversion H; subst; rewrite Nat.sub_diag; split; [reflexivity|constructor]|].
  cbv zeta in *. destruct (maxv <? n * base + dg); [inversion H; subst; rewrite Nat.sub_diag; split; [reflexivity|constructor]|].
  pose proof (pui_index _ _ _ _ _ _ _ _ H) as Hj. apply IH in H. destruct H as [H1 H2]. split; [exact H1|].
  replace (j' - j)%nat with (S (j' - S j)) by lia. cbn [firstn]. constructor; [eapply digit_not_backslash; eauto|exact H2].
Qed.
Lemma pus_some_pui base maxv : forall ds n j v, pus base maxv n ds = Some v -> pui base maxv n j ds = (v, (j + length ds)%nat, true).
Proof.
  induction ds as [|c t IH]; intros n j v H; cbn [pui pus length] in *.
  - inversion H; subst. rewrite Nat.add_0_r. reflexivity.
  - destruct (digit c); [|discriminate]. destruct (base <=? z); [discriminate|].
    cbv zeta in *. destruct (maxv <? n * base + z); [discriminate|]. rewrite (IH _ (S j) _ H). f_equal. f_equal. lia.
Qed.
Lemma pus_bound base maxv : forall ds n v, 0 <= n <= maxv -> 0 <= base -> pus base maxv n ds = Some v -> 0 <= v <= maxv.
Proof.
  induction ds as [|c t IH]; intros n v Hn Hb H; cbn [pus] in H.
  - inversion H; subst. exact Hn.
  - destruct (digit c) as [dg|] eqn:Ed; [|discriminate]. pose proof (digit_range _ _ Ed). destruct (base <=? dg); [discriminate|].
    cbv zeta in H. destruct (Z.ltb_spec maxv (n * base + dg)); [discriminate|]. eapply IH; [|exact Hb|exact H]. nia.
Qed.

(* ---- slices ---- *)
Lemma slice_length l a b x : slice l a b = Some x -> length x = (b - a)%nat.
Proof.
  unfold slice. destruct ((a <=? b)%nat && (b <=? length l)%nat) eqn:E; [|discriminate].
  apply andb_prop in E. destruct E as [E1 E2]. apply Nat.leb_le in E1, E2. intros H; inversion H; subst.
  rewrite firstn_length, skipn_length. lia.
Qed.
Lemma slice_some l a b : (a <= b <= length l)%nat -> slice l a b = Some (firstn (b - a) (skipn a l)).
Proof.
  intros H. unfold slice. destruct (Nat.leb_spec a b); [|lia]. destruct (Nat.leb_spec b (length l)); [|lia]. reflexivity.
Qed.
Lemma slice_ex l a b : (a <= b <= length l)%nat -> exists x, slice l a b = Some x.
Proof. intros H. rewrite slice_some by exact H. eauto. Qed.
Lemma slice_app_mid (A B C : list Z) : slice (A ++ B ++ C) (length A) (length A + length B) = Some B.
Proof.
  unfold slice. rewrite !app_length.
  destruct (Nat.leb_spec (length A) (length A + length B)); [|lia].
  destruct (Nat.leb_spec (length A + length B) (length A + (length B + length C))); [|lia]. cbn [andb].
  rewrite skipn_app, skipn_all, Nat.sub_diag. cbn [skipn app].
  replace (length A + length B - length A)%nat with (length B) by lia.
  rewrite firstn_app, firstn_all, Nat.sub_diag. cbn [firstn]. rewrite app_nil_r. reflexivity.
Qed.

(* ---- buffer operations never fail and never overrun when the destination is at least as long as the source and
        the write cursor is not ahead of the literal-run cursor ---- *)
Lemma finish_total dl src f out : (length src <= dl)%nat -> (f <= length src)%nat -> (length out <= f)%nat ->
  exists r, finish dl src f out = Some r /\ (length r <= length src)%nat.
Proof.
  intros Hd Hf Ho. unfold finish. destruct (Nat.ltb_spec f (length src)) as [H|H]; [|exists out; split; auto; lia].
  rewrite slice_some by lia. unfold copy_into.
  destruct (Nat.leb_spec (length out) dl); [|lia]. eexists. split; [reflexivity|].
  rewrite app_length, firstn_length, firstn_length, skipn_length. lia.
Qed.
Lemma flush_total dl src f i out : (length src <= dl)%nat -> (f <= i <= length src)%nat -> (length out <= f)%nat ->
  exists o, flush dl src f i out = Some o /\ (length o <= i)%nat /\ (length o <= if (f <? i)%nat then i else f)%nat.
Proof.
  intros Hd Hi Ho. unfold flush. destruct (Nat.ltb_spec f i); [|exists out; split; auto; lia].
  rewrite slice_some by lia. unfold copy_into. destruct (Nat.leb_spec (length out) dl); [|lia]. eexists. split; [reflexivity|].
  rewrite app_length, firstn_length, firstn_length, skipn_length. lia.
Qed.

(* the exact values, for the refinement proofs: nothing is cut when the destination is long enough *)
Lemma finish_exact dl src f out : (length src <= dl)%nat -> (f <= length src)%nat -> (length out <= f)%nat ->
  finish dl src f out = Some (out ++ skipn f src).
Proof.
  intros Hd Hf Ho. unfold finish. destruct (Nat.ltb_spec f (length src)) as [H|H].
  - rewrite slice_some by lia. unfold copy_into. destruct (Nat.leb_spec (length out) dl); [|lia].
    rewrite (firstn_all2 (n := length src - f)) by (rewrite skipn_length; lia).
    rewrite firstn_all2 by (rewrite skipn_length; lia). reflexivity.
  - rewrite skipn_all2 by lia. rewrite app_nil_r. reflexivity.
Qed.
Lemma flush_exact dl src f i out : (length src <= dl)%nat -> (f <= i <= length src)%nat -> (length out <= f)%nat ->
  flush dl src f i out = Some (out ++ firstn (i - f) (skipn f src)).
Proof.
  intros Hd Hi Ho. unfold flush. destruct (Nat.ltb_spec f i) as [H|H].
  - rewrite slice_some by lia. unfold copy_into. destruct (Nat.leb_spec (length out) dl); [|lia].
    rewrite (firstn_all2 (n := dl - length out)) by (rewrite firstn_length, skipn_length; lia). reflexivity.
  - replace (i - f)%nat with 0%nat by lia. cbn [firstn]. rewrite app_nil_r. reflexivity.
Qed.

(* ---- [pus base maxv 0 ds = Some v] says: ds is a string of digits of the base (either case) with value v <= maxv ---- *)
Definition digits_of (base : Z) (ds dv : list Z) : Prop := Forall2 (fun c d => digit c = Some d /\ d < base) ds dv.
Definition value_from (base n : Z) (dv : list Z) : Z := fold_left (fun m d => m * base + d) dv n.
Lemma value_from_mono base : 1 <= base -> forall dv n, 0 <= n -> Forall (fun d => 0 <= d) dv -> n <= value_from base n dv.
Proof.
  intros Hb. induction dv as [|d dv IH]; intros n Hn Hd; [cbn; lia|]. inversion Hd; subst. cbn [value_from fold_left].
  fold (value_from base (n * base + d) dv). specialize (IH (n * base + d) ltac:(nia) ltac:(assumption)). nia.
Qed.
Lemma pus_of_digits base maxv : 1 <= base -> forall ds dv n, 0 <= n -> digits_of base ds dv -> value_from base n dv <= maxv ->
  pus base maxv n ds = Some (value_from base n dv).
Proof.
  intros Hb. induction ds as [|c ds IH]; intros dv n Hn Hf Hv; inversion Hf as [|? d ? dv' [Hc Hd] Hf']; subst; [reflexivity|].
  cbn [pus]. rewrite Hc. destruct (Z.leb_spec base d); [lia|]. cbv zeta.
  pose proof (digit_range _ _ Hc) as Hr.
  assert (Hpos : Forall (fun d => 0 <= d) dv').
  { clear -Hf'. induction Hf' as [|? ? ? ? [Hx _] _ IH']; constructor; [pose proof (digit_range _ _ Hx); lia|exact IH']. }
  cbn [value_from fold_left] in Hv |- *. fold (value_from base (n * base + d) dv') in Hv |- *.
  pose proof (value_from_mono base Hb dv' (n * base + d) ltac:(nia) Hpos).
  destruct (Z.ltb_spec maxv (n * base + d)); [lia|]. apply IH; [nia|exact Hf'|exact Hv].
Qed.
Lemma digits_of_pus base maxv : forall ds n v, pus base maxv n ds = Some v -> n <= maxv ->
  exists dv, digits_of base ds dv /\ value_from base n dv = v /\ v <= maxv.
Proof.
  induction ds as [|c ds IH]; intros n v H Hn; cbn [pus] in H.
  - inversion H; subst. exists []. split; [constructor|]. split; [reflexivity|exact Hn].
  - destruct (digit c) as [d|] eqn:Ed; [|discriminate]. destruct (Z.leb_spec base d); [discriminate|].
    cbv zeta in H. destruct (Z.ltb_spec maxv (n * base + d)); [discriminate|].
    destruct (IH _ _ H ltac:(lia)) as (dv & Hf & Hv & Hm). exists (d :: dv). split; [constructor; [split; assumption|exact Hf]|].
    split; [exact Hv|exact Hm].
Qed.
Theorem pus_wellformed base maxv ds v : 1 <= base -> 0 <= maxv ->
  pus base maxv 0 ds = Some v <-> exists dv, digits_of base ds dv /\ value_from base 0 dv = v /\ v <= maxv.
Proof.
  intros Hb Hm. split.
  - intros H. apply (digits_of_pus base maxv ds 0 v H Hm).
  - intros (dv & Hf & Hv & Hle). subst v. apply pus_of_digits; [exact Hb|lia|exact Hf|exact Hle].
Qed.
