(* C07 — the parsers never panic, never produce more than they read, and return backslash-free input unchanged.
   Generic loop (OctalParse / HexParse / UnicodeParse) once, then the three instances; Utf16Parse separately. *)
From Coq Require Import List ZArith Lia Bool Arith.
From V Require Import Lib.Utf8 Gen.Codec Model.Codec Proofs.CodecBase.
Import ListNotations.
Local Open Scope Z_scope.
Arguments Z.mul : simpl never.
Arguments Z.add : simpl never.
Arguments Z.sub : simpl never.
Arguments Z.modulo : simpl never.
Arguments Z.div : simpl never.
Arguments Z.of_nat : simpl never.
Arguments Z.pow : simpl never.

Section Esc.
Variable W P : nat.
Variable prefix : list Z.
Variable base maxv : Z.
Variable emit : Z -> option (list Z).
Variable dl : nat.
Hypothesis P_pos : (1 <= P)%nat.
Hypothesis P_lt_W : (P < W)%nat.
Hypothesis prefix_len : length prefix = P.
Hypothesis prefix_bs : nth 0 prefix 0 = 92.
Hypothesis emit_len : forall v bs, emit v = Some bs -> (1 <= length bs <= W)%nat.
Local Notation gparse := (gparse W P prefix base maxv emit dl).
Local Notation esc_parse := (esc_parse W P prefix base maxv emit dl).
Local Notation pfx_ok := (pfx_ok P prefix).

Lemma gparse_total src : (length src <= dl)%nat -> forall fuel i f out,
  (f <= i <= length src)%nat -> (length out <= f)%nat -> (length src - i < fuel)%nat ->
  exists r, gparse fuel src i f out = Some r /\ (length r <= length src)%nat.
Proof.
  intros Hd. induction fuel as [|fu IH]; intros i f out Hi Ho Hf; [lia|]. cbn [Model.Codec.gparse].
  destruct (Nat.leb_spec (length src) i); [apply finish_total; lia|].
  destruct (Nat.ltb_spec (length src - i) W); [apply finish_total; lia|].
  unfold Model.Codec.pfx_ok. rewrite slice_some by lia.
  destruct (list_eq_dec Z.eq_dec _ prefix); [|apply IH; lia].
  destruct (slice_ex src (i + P) (i + W)) as [ds Hds]; [lia|]. rewrite Hds.
  pose proof (slice_length _ _ _ _ Hds) as Hl.
  destruct (pu base maxv 0 0%nat ds) as [[v j] ok] eqn:Ep. pose proof (pu_index _ _ _ _ _ _ _ _ Ep) as Hj.
  destruct ok; cbn [negb]; [|apply IH; lia].
  destruct (emit v) as [bs|] eqn:Ee; [|apply IH; lia]. pose proof (emit_len _ _ Ee) as Hbs.
  destruct (flush_total dl src f i out Hd ltac:(lia) Ho) as (out1 & -> & Hl1 & _).
  unfold write. destruct (Nat.leb_spec (length out1 + length bs) dl); [|lia].
  apply IH; try lia. rewrite app_length. lia.
Qed.

(* every input: a result, never longer than the input, never a panic *)
Theorem esc_parse_total src : (length src <= dl)%nat -> exists out, esc_parse src = Some out /\ (length out <= length src)%nat.
Proof. intros Hd. unfold Model.Codec.esc_parse. apply gparse_total; cbn [length]; lia. Qed.

Lemma slice_hd src i p : slice src i (i + P) = Some p -> nth_error src i = Some (nth 0 p 0).
Proof.
  unfold slice. destruct (Nat.leb_spec i (i + P)); [|lia]. destruct (Nat.leb_spec (i + P) (length src)); [|discriminate]. cbn [andb].
  intros E. injection E as E'. subst p. replace (i + P - i)%nat with P by lia. destruct P as [|P']; [lia|].
  destruct (skipn i src) as [|x t] eqn:Es.
  - pose proof (skipn_length i src) as Hl. rewrite Es in Hl. cbn [length] in Hl. lia.
  - cbn [firstn nth]. rewrite <- (firstn_skipn i src) at 1. rewrite nth_error_app2 by (rewrite firstn_length; lia).
    rewrite firstn_length, Nat.min_l by lia. rewrite Nat.sub_diag, Es. reflexivity.
Qed.

(* input without a backslash comes back unchanged *)
Lemma gparse_no_backslash src : (length src <= dl)%nat -> backslash_free src -> forall fuel i,
  (i <= length src)%nat -> (length src - i < fuel)%nat -> gparse fuel src i 0 [] = Some src.
Proof.
  intros Hd Hnb. induction fuel as [|fu IH]; intros i Hi Hf; [lia|]. cbn [Model.Codec.gparse].
  assert (Hfin : finish dl src 0 [] = Some src) by (rewrite finish_exact by (cbn [length]; lia); reflexivity).
  destruct (Nat.leb_spec (length src) i); [exact Hfin|].
  destruct (Nat.ltb_spec (length src - i) W); [exact Hfin|].
  unfold Model.Codec.pfx_ok. destruct (slice_ex src i (i + P)) as [p Hp]; [lia|]. rewrite Hp.
  destruct (list_eq_dec Z.eq_dec p prefix) as [E|_]; [|apply IH; lia].
  exfalso. apply slice_hd in Hp. rewrite E, prefix_bs in Hp. unfold backslash_free in Hnb. rewrite Forall_forall in Hnb.
  apply (Hnb 92); auto. eapply nth_error_In; eauto.
Qed.
Theorem esc_parse_no_backslash src : (length src <= dl)%nat -> backslash_free src -> esc_parse src = Some src.
Proof. intros Hd H. unfold Model.Codec.esc_parse. apply gparse_no_backslash; auto; lia. Qed.
End Esc.

(* ---- the three instances ---- *)
Lemma byte_emit_len v bs : byte_emit v = Some bs -> (1 <= length bs <= 4)%nat.
Proof. unfold byte_emit. intros E. inversion E. cbn [length]. lia. Qed.
Lemma encode_len r : (1 <= length (encode r) <= 4)%nat.
Proof. unfold encode. repeat match goal with |- context [if ?c then _ else _] => destruct c end; cbn [length]; lia. Qed.
Lemma encode_rune_len r : (1 <= length (encode_rune r) <= 4)%nat.
Proof. unfold encode_rune. destruct (_ || _); apply encode_len. Qed.
Lemma unicode_emit_len v bs : unicode_emit v = Some bs -> (1 <= length bs <= 10)%nat.
Proof.
  unfold unicode_emit. destruct (MaxRune <? v); [discriminate|]. intros E. inversion E.
  destruct (v <? RuneSelf); [cbn [length]; lia|]. pose proof (encode_rune_len v). lia.
Qed.

Theorem octal_parse_total dl src : (length src <= dl)%nat -> exists out, octal_parse dl src = Some out /\ (length out <= length src)%nat.
Proof. rewrite octal_parse_eq. apply esc_parse_total; try reflexivity; try lia. apply byte_emit_len. Qed.
Theorem hex_parse_total dl src : (length src <= dl)%nat -> exists out, hex_parse dl src = Some out /\ (length out <= length src)%nat.
Proof. rewrite hex_parse_eq. apply esc_parse_total; try reflexivity; try lia. apply byte_emit_len. Qed.
Theorem unicode_parse_total dl src : (length src <= dl)%nat -> exists out, unicode_parse dl src = Some out /\ (length out <= length src)%nat.
Proof. rewrite unicode_parse_eq. apply esc_parse_total; try reflexivity; try lia. apply unicode_emit_len. Qed.

Theorem octal_parse_no_backslash dl src : (length src <= dl)%nat -> backslash_free src -> octal_parse dl src = Some src.
Proof. rewrite octal_parse_eq. apply esc_parse_no_backslash; try reflexivity; lia. Qed.
Theorem hex_parse_no_backslash dl src : (length src <= dl)%nat -> backslash_free src -> hex_parse dl src = Some src.
Proof. rewrite hex_parse_eq. apply esc_parse_no_backslash; try reflexivity; lia. Qed.
Theorem unicode_parse_no_backslash dl src : (length src <= dl)%nat -> backslash_free src -> unicode_parse dl src = Some src.
Proof. rewrite unicode_parse_eq. apply esc_parse_no_backslash; try reflexivity; lia. Qed.

(* ---- Utf16Parse ---- *)
Lemma is_u_some src i : (i + 1 < length src)%nat -> exists b, is_u src i = Some b.
Proof.
  intros H. unfold is_u. destruct (nth_error src i) eqn:E0; [|apply nth_error_None in E0; lia].
  destruct (nth_error src (i + 1)) eqn:E1; [|apply nth_error_None in E1; lia]. eauto.
Qed.

(* a code unit below 0x10000 takes at most three bytes; a decoded pair takes four *)
Lemma encode_rune_bmp_len r : 0 <= r < 65536 -> (1 <= length (encode_rune r) <= 3)%nat.
Proof.
  intros H. unfold encode_rune, encode, RuneError.
  destruct (_ || _).
  - cbn. lia.
  - destruct (r <? 128); [cbn; lia|]. destruct (r <? 2048); [cbn; lia|]. destruct (Z.ltb_spec r 65536); [cbn; lia|lia].
Qed.
Lemma pu16_bound ds v j : pu 16 65535 0 0%nat ds = (v, j, true) -> 0 <= v <= 65535.
Proof.
  intros H. rewrite pu_pui in H by lia. apply pui_ok in H. destruct H as [H _]. eapply pus_bound; [| |exact H]; lia.
Qed.
Lemma utf16_decode_range a b : 55296 <= a < 56320 -> 56320 <= b < 57344 ->
  utf16_decode a b = 65536 + (a - 55296) * 1024 + (b - 56320) /\ 65536 <= utf16_decode a b <= 1114111.
Proof.
  intros Ha Hb. unfold utf16_decode.
  destruct (Z.leb_spec 55296 a); [|lia]. destruct (Z.ltb_spec a 56320); [|lia].
  destruct (Z.leb_spec 56320 b); [|lia]. destruct (Z.ltb_spec b 57344); [|lia]. cbn [andb]. lia.
Qed.
Lemma encode_rune_valid r : valid_scalar r -> encode_rune r = encode r.
Proof.
  intros H. unfold encode_rune.
  destruct (Z.ltb_spec r 0); [destruct H; lia|]. destruct (Z.ltb_spec 1114111 r); [destruct H; lia|]. cbn [orb].
  destruct (Z.leb_spec 55296 r); [|reflexivity]. destruct (Z.leb_spec r 57343); [destruct H; lia|reflexivity].
Qed.
Lemma encode_supp_len r : 65536 <= r <= 1114111 -> length (encode_rune r) = 4%nat.
Proof.
  intros H. rewrite encode_rune_valid by (right; lia). unfold encode.
  destruct (Z.ltb_spec r 128); [lia|]. destruct (Z.ltb_spec r 2048); [lia|]. destruct (Z.ltb_spec r 65536); [lia|reflexivity].
Qed.

Lemma uparse_total dl src : (length src <= dl)%nat -> forall fuel i f out,
  (f <= i <= length src)%nat -> (length out <= f)%nat -> (length src - i < fuel)%nat ->
  exists r, uparse dl fuel src i f out = Some r /\ (length r <= length src)%nat.
Proof.
  intros Hd. induction fuel as [|fu IH]; intros i f out Hi Ho Hf; [lia|]. cbn [uparse].
  change (maxval 16) with 65535. change u16_surr1 with 55296. change u16_surr2 with 56320. change u16_surr3 with 57344.
  destruct (Nat.leb_spec (length src) i); [apply finish_total; lia|].
  destruct (Nat.ltb_spec (length src - i) 6); [apply finish_total; lia|].
  destruct (is_u_some src i ltac:(lia)) as [b Hb]. rewrite Hb. destruct b; [|apply IH; lia].
  destruct (slice_ex src (i + 2) (i + 6)) as [ds Hds]; [lia|]. rewrite Hds. pose proof (slice_length _ _ _ _ Hds) as Hl.
  destruct (pu 16 65535 0 0%nat ds) as [[n1 j] ok] eqn:Ep. pose proof (pu_index _ _ _ _ _ _ _ _ Ep) as Hj.
  destruct ok; cbn [negb]; [|apply IH; lia].
  pose proof (pu16_bound _ _ _ Ep) as Hn1.
  destruct (flush_total dl src f i out Hd ltac:(lia) Ho) as (out1 & Ef & Hl1 & Hl1'). rewrite Ef.
  assert (Hf1 : ((if (f <? i)%nat then i else f) <= i)%nat) by (destruct (Nat.ltb_spec f i); lia).
  destruct ((n1 <? 55296) || (57344 <=? n1)).
  - unfold write. pose proof (encode_rune_bmp_len n1 ltac:(lia)).
    destruct (Nat.leb_spec (length out1 + length (encode_rune n1)) dl); [|lia].
    apply IH; try lia. rewrite app_length. lia.
  - destruct ((55296 <=? n1) && (n1 <? 56320)) eqn:Eh; [|apply IH; lia].
    apply andb_prop in Eh. destruct Eh as [Eh1 Eh2]. apply Z.leb_le in Eh1. apply Z.ltb_lt in Eh2.
    destruct (Nat.ltb_spec (length src - (i + 6)) 6); [apply finish_total; lia|].
    destruct (is_u_some src (i + 6) ltac:(lia)) as [b2 Hb2]. rewrite Hb2. destruct b2; [|apply IH; lia].
    destruct (slice_ex src (i + 6 + 2) (i + 6 + 6)) as [ds2 Hds2]; [lia|]. rewrite Hds2. pose proof (slice_length _ _ _ _ Hds2) as Hl2.
    destruct (pu 16 65535 0 0%nat ds2) as [[n2 j2] ok2] eqn:Ep2. pose proof (pu_index _ _ _ _ _ _ _ _ Ep2) as Hj2.
    destruct ok2; cbn [negb]; [|apply IH; lia].
    destruct ((56320 <=? n2) && (n2 <? 57344)) eqn:El; [|apply IH; lia].
    apply andb_prop in El. destruct El as [El1 El2]. apply Z.leb_le in El1. apply Z.ltb_lt in El2.
    destruct (utf16_decode_range n1 n2 ltac:(lia) ltac:(lia)) as [_ Hr].
    unfold write. rewrite (encode_supp_len _ Hr). destruct (Nat.leb_spec (length out1 + 4) dl); [|lia].
    apply IH; try lia. rewrite app_length, (encode_supp_len _ Hr). lia.
Qed.

Theorem utf16_parse_total dl src : (length src <= dl)%nat -> exists out, utf16_parse dl src = Some out /\ (length out <= length src)%nat.
Proof. intros Hd. unfold utf16_parse. apply uparse_total; cbn [length]; lia. Qed.

Lemma uparse_no_backslash dl src : (length src <= dl)%nat -> backslash_free src -> forall fuel i,
  (i <= length src)%nat -> (length src - i < fuel)%nat -> uparse dl fuel src i 0 [] = Some src.
Proof.
  intros Hd Hnb. induction fuel as [|fu IH]; intros i Hi Hf; [lia|]. cbn [uparse].
  assert (Hfin : finish dl src 0 [] = Some src) by (rewrite finish_exact by (cbn [length]; lia); reflexivity).
  destruct (Nat.leb_spec (length src) i); [exact Hfin|].
  destruct (Nat.ltb_spec (length src - i) 6); [exact Hfin|].
  unfold is_u. destruct (nth_error src i) as [c0|] eqn:E0; [|apply nth_error_None in E0; lia].
  destruct (nth_error src (i + 1)) as [c1|] eqn:E1; [|apply nth_error_None in E1; lia].
  assert (c0 <> 92) by (unfold backslash_free in Hnb; rewrite Forall_forall in Hnb; apply Hnb; eapply nth_error_In; eauto).
  destruct (Z.eqb_spec c0 92); [contradiction|]. cbn [andb]. apply IH; lia.
Qed.
Theorem utf16_parse_no_backslash dl src : (length src <= dl)%nat -> backslash_free src -> utf16_parse dl src = Some src.
Proof. intros Hd H. unfold utf16_parse. apply uparse_no_backslash; auto; lia. Qed.
