(* C15, part 2: the hex codec against its positional specification (decoded prefix, error kind and offending byte, with
   encoding/hex's precedence), the round trip, HexDecodeInPlace on one buffer, and the IPv4 round trip. *)
From Coq Require Import List ZArith Lia Bool Arith.
From V Require Import Lib.Enc Gen.StrzStd Model.Strconv Model.Hex.
Import ListNotations.
Local Open Scope Z_scope.
Arguments Z.mul : simpl never.
Arguments Z.add : simpl never.
Arguments Z.sub : simpl never.
Arguments Z.div : simpl never.
Arguments Z.modulo : simpl never.
Arguments Z.pow : simpl never.

Lemma from_hex_range c x : from_hex c = Some x -> 0 <= x < 16.
Proof.
  unfold from_hex.
  destruct (Z.leb_spec 48 c); destruct (Z.leb_spec c 57); cbn [andb]; try (intros E; inversion E; lia).
  all: destruct (Z.leb_spec 97 c); destruct (Z.leb_spec c 102); cbn [andb]; try (intros E; inversion E; lia).
  all: destruct (Z.leb_spec 65 c); destruct (Z.leb_spec c 70); cbn [andb]; try (intros E; inversion E; lia); discriminate.
Qed.
Lemma nibbles x y : 0 <= x < 16 -> 0 <= y < 16 -> Z.lor (Z.shiftl x 4) y = 16 * x + y.
Proof.
  intros Hx Hy.
  assert (F : forallb (fun a => forallb (fun b => Z.lor (Z.shiftl (Z.of_nat a) 4) (Z.of_nat b) =? 16 * Z.of_nat a + Z.of_nat b) (seq 0 16)) (seq 0 16) = true)
    by (vm_compute; reflexivity).
  rewrite forallb_forall in F. specialize (F (Z.to_nat x) ltac:(apply in_seq; lia)).
  rewrite forallb_forall in F. specialize (F (Z.to_nat y) ltac:(apply in_seq; lia)).
  rewrite !Z2Nat.id in F by lia. apply Z.eqb_eq. exact F.
Qed.

Lemma first_bad_shift src : forall i, first_bad src (S i) = option_map (fun '(p, c) => (S p, c)) (first_bad src i).
Proof. induction src as [|c t IH]; intros i; cbn [first_bad option_map]; auto. destruct (from_hex c); auto. Qed.
Lemma div2_SS p : (S (S p) / 2 = S (p / 2))%nat.
Proof. replace (S (S p)) with (1 * 2 + p)%nat by lia. rewrite Nat.div_add_l by lia. lia. Qed.

(* hexDecode = the specification: complete pairs before the first invalid character and that character; else ErrLength on
   odd length; else success *)
Theorem decode_spec : forall src acc, hex_decode src acc = (acc ++ fst (hex_spec src), snd (hex_spec src)).
Proof.
  assert (G : forall n src, (length src <= n)%nat -> forall acc, hex_decode src acc = (acc ++ fst (hex_spec src), snd (hex_spec src))).
  { induction n as [|n IH]; intros src Hn acc.
    - destruct src; [|cbn in Hn; lia]. cbn. rewrite app_nil_r. reflexivity.
    - destruct src as [|a [|b rest]].
      + cbn. rewrite app_nil_r. reflexivity.
      + unfold hex_spec. cbn [hex_decode first_bad pairs length Nat.odd]. destruct (from_hex a); cbn [fst snd Nat.div firstn]; rewrite ?app_nil_r; reflexivity.
      + cbn [hex_decode]. unfold hex_spec. cbn [first_bad pairs].
        destruct (from_hex a) as [x|] eqn:Ea; [|cbn [fst snd]; change (0 / 2)%nat with 0%nat; cbn [firstn]; rewrite app_nil_r; reflexivity].
        destruct (from_hex b) as [y|] eqn:Eb; [|cbn [fst snd]; change (1 / 2)%nat with 0%nat; cbn [firstn]; rewrite app_nil_r; reflexivity].
        rewrite (nibbles x y (from_hex_range a x Ea) (from_hex_range b y Eb)).
        rewrite IH by (cbn [length] in Hn; lia). unfold hex_spec. rewrite !first_bad_shift.
        destruct (first_bad rest 0) as [[p c]|]; cbn [option_map fst snd].
        * rewrite div2_SS. cbn [firstn]. rewrite <- app_assoc. reflexivity.
        * cbn [length Nat.odd]. rewrite <- app_assoc. reflexivity. }
  intros src acc. apply (G (length src)). lia.
Qed.
Corollary hex_decode_is_spec src : hex_decode src [] = hex_spec src.
Proof. rewrite decode_spec. cbn [app]. destruct (hex_spec src); reflexivity. Qed.

(* hexEncode = two hextable characters per byte, high nibble first *)
Lemma hex_encode_is_spec src : hex_encode src = flat_map (fun b => [hexchar (b / 16); hexchar (b mod 16)]) src.
Proof.
  unfold hex_encode. induction src as [|b t IH]; [reflexivity|]. cbn [flat_map]. rewrite IH.
  rewrite Z.shiftr_div_pow2 by lia. change 15 with (Z.ones 4). rewrite Z.land_ones by lia. reflexivity.
Qed.

Lemma from_hex_table n : 0 <= n < 16 -> from_hex (hexchar n) = Some n.
Proof.
  intros H.
  assert (F : forallb (fun a => match from_hex (hexchar (Z.of_nat a)) with Some v => v =? Z.of_nat a | None => false end) (seq 0 16) = true)
    by (vm_compute; reflexivity).
  rewrite forallb_forall in F. specialize (F (Z.to_nat n) ltac:(apply in_seq; lia)). rewrite Z2Nat.id in F by lia.
  destruct (from_hex (hexchar n)); [apply Z.eqb_eq in F; congruence|discriminate].
Qed.
Theorem decode_encode : forall src acc, Forall (fun b => 0 <= b < 256) src -> hex_decode (hex_encode src) acc = (acc ++ src, NoErr).
Proof.
  intros src. rewrite hex_encode_is_spec.
  induction src as [|b t IH]; intros acc Hb; [cbn; rewrite app_nil_r; reflexivity|]. inversion Hb as [|? ? Hb1 Hb2]; subst.
  cbn [flat_map app hex_decode].
  assert (H1 : 0 <= b / 16 < 16) by (split; [apply Z.div_pos; lia|apply Z.div_lt_upper_bound; lia]).
  assert (H2 : 0 <= b mod 16 < 16) by (apply Z.mod_pos_bound; lia).
  rewrite (from_hex_table _ H1), (from_hex_table _ H2), (nibbles _ _ H1 H2).
  replace (16 * (b / 16) + b mod 16) with b by (rewrite (Z.div_mod b 16) at 1 by lia; lia).
  rewrite IH by auto. rewrite <- app_assoc. reflexivity.
Qed.

(* ---- IPv4ToLong(LongToIPv4(x)) = x *)
Definition nodot (s : list Z) : bool := forallb (fun c => negb (c =? 46)) s.
Lemma split_dot_nodot a : nodot a = true -> forall cur, split_dot a cur = [cur ++ a].
Proof.
  induction a as [|c t IH]; intros Hn cur; cbn [split_dot]; [rewrite app_nil_r; reflexivity|].
  cbn [nodot forallb] in Hn. apply andb_prop in Hn. destruct Hn as [Hc Ht]. apply negb_true_iff in Hc. rewrite Hc.
  rewrite IH by exact Ht. rewrite <- app_assoc. reflexivity.
Qed.
Lemma split_dot_app a r : nodot a = true -> forall cur, split_dot (a ++ 46 :: r) cur = (cur ++ a) :: split_dot r [].
Proof.
  induction a as [|c t IH]; intros Hn cur; cbn [split_dot app]; [rewrite app_nil_r; reflexivity|].
  cbn [nodot forallb] in Hn. apply andb_prop in Hn. destruct Hn as [Hc Ht]. apply negb_true_iff in Hc. rewrite Hc.
  rewrite IH by exact Ht. rewrite <- app_assoc. reflexivity.
Qed.
(* the decimal text of a byte has no dot and ParseInt(_, 10, 32) reads it back: one sweep over the 256 byte values *)
Lemma byte_text_sweep : forallb (fun n => nodot (dec_byte_text (Z.of_nat n)) && (parse_int_val (dec_byte_text (Z.of_nat n)) 10 32 =? Z.of_nat n)) (seq 0 256) = true.
Proof. vm_compute. reflexivity. Qed.
Lemma byte_text b : 0 <= b < 256 -> nodot (dec_byte_text b) = true /\ parse_int_val (dec_byte_text b) 10 32 = b.
Proof.
  intros H. pose proof byte_text_sweep as F. rewrite forallb_forall in F. specialize (F (Z.to_nat b) ltac:(apply in_seq; lia)).
  rewrite Z2Nat.id in F by lia. apply andb_prop in F. destruct F as [F1 F2]. apply Z.eqb_eq in F2. auto.
Qed.

Theorem ipv4_roundtrip x : 0 <= x < 2 ^ 32 -> ipv4_to_long (long_to_ipv4 x) = x.
Proof.
  intros H. unfold ipv4_to_long, long_to_ipv4, bytes_of_long.
  set (a := (x / 2 ^ 24) mod 256). set (b := (x / 2 ^ 16) mod 256). set (c := (x / 2 ^ 8) mod 256). set (d := x mod 256).
  assert (Ha : 0 <= a < 256) by (apply Z.mod_pos_bound; lia). assert (Hb : 0 <= b < 256) by (apply Z.mod_pos_bound; lia).
  assert (Hc : 0 <= c < 256) by (apply Z.mod_pos_bound; lia). assert (Hd : 0 <= d < 256) by (apply Z.mod_pos_bound; lia).
  destruct (byte_text a Ha) as [Na Pa]. destruct (byte_text b Hb) as [Nb Pb].
  destruct (byte_text c Hc) as [Nc Pc]. destruct (byte_text d Hd) as [Nd Pd].
  cbn [app]. rewrite split_dot_app by exact Na. rewrite split_dot_app by exact Nb. rewrite split_dot_app by exact Nc.
  rewrite split_dot_nodot by exact Nd. cbn [app fold_left]. rewrite Pa, Pb, Pc, Pd.
  unfold a, b, c, d, u32.
  change (2 ^ 32) with 4294967296 in *. change (2 ^ 24) with 16777216. change (2 ^ 16) with 65536. change (2 ^ 8) with 256.
  Z.div_mod_to_equations. lia.
Qed.

(* ---- digest helpers: definitional (the digest itself is a parameter of the model) *)
Lemma digest_helper_def (H : Z -> list Z -> list Z) alg data :
  digest_helper H alg data = hex_encode (H alg data) /\
  forall chunks, digest_stream H alg chunks false = Some (digest_helper H alg (concat chunks)).
Proof. split; [reflexivity|intros chunks; reflexivity]. Qed.
