(* C07 — format shape: the four Format loops (strconv digits, zero padding, upper-casing, buffer of RuneCount*W bytes,
   ASCII fast path, RuneError literal, utf16.EncodeRune) never panic and write exactly the fixed-width upper-case
   escapes of the bytes / runes: X_format s = Some (s_X_format s). *)
From Coq Require Import List ZArith Lia Bool Arith ZifyBool.
From V Require Import Lib.Utf8 Proofs.Utf8Facts Model.Codec Proofs.CodecBase Proofs.CodecUtf8.
Import ListNotations.
Local Open Scope Z_scope.
Arguments Z.mul : simpl never.
Arguments Z.add : simpl never.
Arguments Z.sub : simpl never.
Arguments Z.div : simpl never.
Arguments Z.modulo : simpl never.
Arguments Z.of_nat : simpl never.
Ltac Zify.zify_post_hook ::= Z.div_mod_to_equations.

(* ---- appendUint = fixed-width digits ---- *)
Fixpoint fixr (base : Z) (w : nat) (v : Z) (acc : list Z) : list Z :=
  match w with O => acc | S w' => fixr base w' (v / base) (digit_char (v mod base) :: acc) end.
Fixpoint lt_pow (base : Z) (w : nat) (v : Z) : Prop :=                      (* v < base^w *)
  match w with O => v = 0 | S w' => lt_pow base w' (v / base) end.

Lemma fixr_zero base : 1 < base -> forall w acc, fixr base w 0 acc = repeat 48 w ++ acc.
Proof.
  intros Hb. induction w as [|w IH]; intros acc; [reflexivity|]. cbn [fixr].
  rewrite Z.div_0_l, Z.mod_0_l by lia. change (digit_char 0) with 48. rewrite IH.
  change (48 :: acc) with ([48] ++ acc). rewrite app_assoc. f_equal.
  clear. induction w; [reflexivity|]. cbn [repeat app]. f_equal. exact IHw.
Qed.
Lemma fmt_pad base : 1 < base -> forall w v acc fuel, 0 <= v -> lt_pow base (S w) v -> (S w <= fuel)%nat ->
  let r := fmt_digits fuel base v acc in
  (length r <= S w + length acc)%nat /\ repeat 48 (S w + length acc - length r) ++ r = fixr base (S w) v acc.
Proof.
  intros Hb. induction w as [|w IH]; intros v acc fuel Hv Hlt Hf; (destruct fuel as [|fu]; [lia|]); cbn [fmt_digits].
  - cbn [lt_pow] in Hlt. rewrite Hlt. cbn [Z.eqb fixr length]. split; [lia|].
    replace (1 + length acc - S (length acc))%nat with 0%nat by lia. reflexivity.
  - change (lt_pow base (S (S w)) v) with (lt_pow base (S w) (v / base)) in Hlt.
    destruct (Z.eqb_spec (v / base) 0) as [E|E].
    + cbn [length]. split; [lia|]. cbn [fixr]. rewrite E. fold (fixr base (S w) 0 (digit_char (v mod base) :: acc)).
      change (fixr base w (0 / base) (digit_char (0 mod base) :: digit_char (v mod base) :: acc)) with (fixr base (S w) 0 (digit_char (v mod base) :: acc)).
      rewrite fixr_zero by exact Hb. f_equal. f_equal. lia.
    + assert (Hq : 0 <= v / base) by (apply Z.div_pos; lia).
      destruct (IH (v / base) (digit_char (v mod base) :: acc) fu Hq Hlt ltac:(lia)) as [L1 L2]. cbn [length] in L1, L2.
      split; [lia|]. replace (S (S w) + length acc - _)%nat with (S w + S (length acc) - length (fmt_digits fu base (v / base) (digit_char (v mod base) :: acc)))%nat by lia.
      rewrite L2. reflexivity.
Qed.
Lemma append_uint_fix base w v : 1 < base -> 0 <= v -> lt_pow base (S w) v -> (S w <= 64)%nat ->
  append_uint (S w) v base = Some (fixr base (S w) v []).
Proof.
  intros Hb Hv Hlt Hw. unfold append_uint, format_bits.
  destruct (fmt_pad base Hb w v [] 64%nat Hv Hlt Hw) as [L1 L2]. cbn [length] in L1, L2. rewrite Nat.add_0_r in *.
  destruct (Nat.leb_spec (length (fmt_digits 64 base v [])) (S w)); [|lia]. rewrite L2. reflexivity.
Qed.

Lemma upper_digit_char d : 0 <= d < 16 -> upper (digit_char d) = hexd d.
Proof.
  intros H. assert (F : forallb (fun k => upper (digit_char (Z.of_nat k)) =? hexd (Z.of_nat k)) (seq 0 16) = true) by (vm_compute; reflexivity).
  rewrite forallb_forall in F. specialize (F (Z.to_nat d) ltac:(apply in_seq; lia)). rewrite Z2Nat.id in F by lia. apply Z.eqb_eq. exact F.
Qed.

Ltac digits := f_equal; repeat (apply (f_equal2 (@cons Z)); [first [apply (f_equal hexd); lia | lia]|]); try reflexivity.
(* two, four, eight hex digits *)
Lemma hexfmt2 v : 0 <= v < 256 -> option_map to_upper (append_uint 2 v 16) = Some (hex2 v).
Proof.
  intros Hv. rewrite append_uint_fix; [|lia|lia|cbn [lt_pow]; lia|lia]. cbn [option_map fixr to_upper map hex2].
  rewrite !upper_digit_char by lia. digits.
Qed.
Lemma hexfmt4 v : 0 <= v < 65536 -> option_map to_upper (append_uint 4 v 16) = Some (hex4 v).
Proof.
  intros Hv. rewrite append_uint_fix; [|lia|lia|cbn [lt_pow]; lia|lia]. cbn [option_map fixr to_upper map hex4].
  rewrite !upper_digit_char by lia. digits.
Qed.
Lemma hexfmt8 v : 0 <= v < 4294967296 -> option_map to_upper (append_uint 8 v 16) = Some (hex8 v).
Proof.
  intros Hv. rewrite append_uint_fix; [|lia|lia|cbn [lt_pow]; lia|lia]. cbn [option_map fixr to_upper map hex8 hex4 app].
  rewrite !upper_digit_char by lia.
  digits.
Qed.
Lemma octfmt3 v : 0 <= v < 256 -> append_uint 3 v 8 = Some (tl (esc_o v)).
Proof.
  intros Hv. rewrite append_uint_fix; [|lia|lia|cbn [lt_pow]; lia|lia]. cbn [fixr esc_o tl].
  assert (D : forall d, 0 <= d < 8 -> digit_char d = 48 + d) by (intros d Hd; unfold digit_char; destruct (Z.ltb_spec d 10); lia).
  rewrite !D by lia. digits.
Qed.

Lemma pad_exact cap out : cap = length out -> pad_to cap out = out.
Proof. intros ->. unfold pad_to. rewrite Nat.sub_diag. cbn [repeat]. apply app_nil_r. Qed.

(* ---- OctalFormat, HexFormat ---- *)
Lemma octal_format_go_shape : forall s cap out, bytes s -> cap = (length out + 4 * length s)%nat ->
  octal_format_go cap s out = Some (out ++ s_octal_format s).
Proof.
  induction s as [|c t IH]; intros cap out Hb Hc; cbn [octal_format_go].
  - rewrite pad_exact by (cbn [length] in Hc; lia). unfold s_octal_format. cbn [map concat]. rewrite app_nil_r. reflexivity.
  - inversion Hb as [|? ? Hc0 Ht]; subst. unfold is_byte in Hc0. cbn [length].
    destruct (Nat.leb_spec (length out + 4) (length out + 4 * S (length t))); [|lia].
    rewrite octfmt3 by lia. rewrite IH; [|exact Ht|rewrite app_length; cbn [length esc_o tl]; lia].
    unfold s_octal_format. cbn [map concat]. rewrite <- app_assoc. reflexivity.
Qed.
Theorem octal_format_shape s : bytes s -> octal_format s = Some (s_octal_format s).
Proof. intros H. unfold octal_format. rewrite octal_format_go_shape; [reflexivity|exact H|cbn [length]; lia]. Qed.

Lemma hex_format_go_shape : forall s cap out, bytes s -> cap = (length out + 4 * length s)%nat ->
  hex_format_go cap s out = Some (out ++ s_hex_format s).
Proof.
  induction s as [|c t IH]; intros cap out Hb Hc; cbn [hex_format_go].
  - rewrite pad_exact by (cbn [length] in Hc; lia). unfold s_hex_format. cbn [map concat]. rewrite app_nil_r. reflexivity.
  - inversion Hb as [|? ? Hc0 Ht]; subst. unfold is_byte in Hc0. cbn [length].
    destruct (Nat.leb_spec (length out + 4) (length out + 4 * S (length t))); [|lia].
    pose proof (hexfmt2 c Hc0) as Hh. destruct (append_uint 2 c 16) as [d|]; [|discriminate]. cbn [option_map] in Hh. inversion Hh as [Hd]. rewrite Hd.
    rewrite IH; [|exact Ht|rewrite app_length; cbn [length hex2]; lia].
    unfold s_hex_format. cbn [map concat]. rewrite <- app_assoc. reflexivity.
Qed.
Theorem hex_format_shape s : bytes s -> hex_format s = Some (s_hex_format s).
Proof. intros H. unfold hex_format. rewrite hex_format_go_shape; [reflexivity|exact H|cbn [length]; lia]. Qed.

(* ---- the rune loops ---- *)
Lemma decode_ascii b t : b < 128 -> decode (b :: t) = (b, 1%nat).
Proof. intros H. cbn [decode]. destruct (Z.ltb_spec b 128); [reflexivity|lia]. Qed.
Lemma decode_range s c w : decode s = (c, w) -> 0 <= c < 4294967296 \/ (exists b t, s = b :: t /\ b < 0).
Proof.
  destruct s as [|b0 t]; [intros H; inversion H; unfold RuneError; lia|]. unfold decode, inr, cont, RuneError.
  intros H. destruct (Z.ltb_spec b0 0); [right; eauto|]. left.
  destruct t as [|b1 [|b2 [|b3 t]]]; brk; inversion H; subst; lia.
Qed.

Lemma unicode_format_go_S fu cap s out : unicode_format_go (S fu) cap s out =
      match s with
      | [] => Some (pad_to cap out)
      | bt :: t =>
          if (length out + 10 <=? cap)%nat then
            if bt <? RuneSelf then
              match append_uint 8 bt 16 with
              | None => None
              | Some d => unicode_format_go fu cap t (out ++ 92 :: 85 :: to_upper d)
              end
            else
              let (c, size) := decode s in
              if c =? RuneError then unicode_format_go fu cap (skipn size s) (out ++ 92 :: 85 :: FFFD8)
              else match append_uint 8 c 16 with
                   | None => None
                   | Some d => unicode_format_go fu cap (skipn size s) (out ++ 92 :: 85 :: to_upper d)
                   end
          else None
      end.
Proof. destruct s; reflexivity. Qed.
Lemma utf16_format_go_S fu s out : utf16_format_go (S fu) s out =
      match s with
      | [] => Some out
      | bt :: t =>
          if bt <? RuneSelf then
            match append_uint 4 bt 16 with
            | None => None
            | Some d => utf16_format_go fu t (out ++ u_esc (to_upper d))
            end
          else
            let (c, size) := decode s in
            let rest := skipn size s in
            if c =? RuneError then utf16_format_go fu rest (out ++ u_esc FFFD4)
            else if ((0 <=? c) && (c <? 55296)) || ((57344 <=? c) && (c <? 65536)) then
              match append_uint 4 c 16 with
              | None => None
              | Some d => utf16_format_go fu rest (out ++ u_esc (to_upper d))
              end
            else if (65536 <=? c) && (c <=? MaxRune) then
              let (r1, r2) := utf16_encode c in
              match append_uint 4 r1 16, append_uint 4 r2 16 with
              | Some d1, Some d2 => utf16_format_go fu rest (out ++ u_esc (to_upper d1) ++ u_esc (to_upper d2))
              | _, _ => None
              end
            else utf16_format_go fu rest (out ++ u_esc FFFD4)
      end.
Proof. destruct s; reflexivity. Qed.

Lemma unicode_format_go_shape : forall fu s cap out, bytes s -> (length s <= fu)%nat ->
  cap = (length out + 10 * length (decode_all_fuel fu s))%nat ->
  unicode_format_go (S fu) cap s out = Some (out ++ concat (map esc_U (map fst (decode_all_fuel fu s)))).
Proof.
  induction fu as [|fu IH]; intros s cap out Hb Hl Hc.
  - destruct s; [|cbn [length] in Hl; lia]. cbn [unicode_format_go decode_all_fuel map concat length] in *.
    rewrite pad_exact by lia. rewrite app_nil_r. reflexivity.
  - rewrite unicode_format_go_S. destruct s as [|bt t] eqn:Es.
    { cbn [decode_all_fuel map concat length] in *. rewrite pad_exact by lia. rewrite app_nil_r. reflexivity. }
    rewrite <- Es in *. assert (Hne : s <> []) by (subst; discriminate).
    assert (Hbt : 0 <= bt < 256) by (subst s; inversion Hb; assumption).
    cbn [decode_all_fuel] in Hc |- *. rewrite Es in Hc |- *. rewrite <- Es in Hc |- *.
    destruct (decode s) as [c size] eqn:Ed. cbn [length map fst concat] in Hc |- *.
    pose proof (decode_width s Hne) as Hw. rewrite Ed in Hw. cbn [snd] in Hw. rewrite Nat.max_l in * by lia.
    destruct (Nat.leb_spec (length out + 10) cap); [|lia]. unfold RuneSelf.
    destruct (Z.ltb_spec bt 128) as [Ha|Ha].
    + rewrite Es, decode_ascii in Ed by exact Ha. inversion Ed; subst c size. rewrite Es in *. cbn [skipn] in *.
      pose proof (hexfmt8 bt ltac:(lia)) as Hh. destruct (append_uint 8 bt 16) as [d|]; [|discriminate]. cbn [option_map] in Hh. inversion Hh as [Hd]. rewrite Hd.
      rewrite IH; [|inversion Hb; assumption|cbn [length] in Hl; lia|rewrite app_length; cbn [length hex8 hex4 app]; lia].
      unfold esc_U. rewrite <- app_assoc. reflexivity.
    + assert (Hl' : (length (skipn size s) <= fu)%nat) by (rewrite skipn_length; lia).
      destruct (Z.eqb_spec c RuneError) as [->|Hc'].
      * rewrite IH; [|apply bytes_skipn; exact Hb|exact Hl'|rewrite app_length; cbn [length FFFD8]; lia].
        rewrite <- app_assoc. reflexivity.
      * assert (Hr : 0 <= c < 4294967296).
        { destruct (decode_range _ _ _ Ed) as [R|(b & t' & E & Hneg)]; [exact R|]. rewrite Es in E. inversion E; subst. lia. }
        pose proof (hexfmt8 c Hr) as Hh. destruct (append_uint 8 c 16) as [d|]; [|discriminate]. cbn [option_map] in Hh. inversion Hh as [Hd]. rewrite Hd.
        rewrite IH; [|apply bytes_skipn; exact Hb|exact Hl'|rewrite app_length; cbn [length hex8 hex4 app]; lia].
        unfold esc_U. rewrite <- app_assoc. reflexivity.
Qed.
Theorem unicode_format_shape s : bytes s -> unicode_format s = Some (s_unicode_format s).
Proof.
  intros H. unfold unicode_format, rune_count, s_unicode_format, runes, decode_all.
  rewrite unicode_format_go_shape; [reflexivity|exact H|lia|cbn [length]; lia].
Qed.

Lemma utf16_encode_pair c : 65536 <= c <= 1114111 -> utf16_encode c = (hi_s c, lo_s c).
Proof.
  intros H. unfold utf16_encode, MaxRune, hi_s, lo_s. destruct (Z.ltb_spec c 65536); [lia|]. destruct (Z.ltb_spec 1114111 c); [lia|]. cbn [orb].
  f_equal. f_equal. apply Z.mod_small. lia.
Qed.

Lemma utf16_format_go_shape : forall fu s out, bytes s -> (length s <= fu)%nat ->
  utf16_format_go (S fu) s out = Some (out ++ concat (map esc_u (map fst (decode_all_fuel fu s)))).
Proof.
  induction fu as [|fu IH]; intros s out Hb Hl.
  - destruct s; [|cbn [length] in Hl; lia]. cbn. rewrite app_nil_r. reflexivity.
  - rewrite utf16_format_go_S. destruct s as [|bt t] eqn:Es.
    { cbn. rewrite app_nil_r. reflexivity. }
    rewrite <- Es in *. assert (Hne : s <> []) by (subst; discriminate).
    assert (Hbt : 0 <= bt < 256) by (subst s; inversion Hb; assumption).
    cbn [decode_all_fuel]. rewrite Es. rewrite <- Es.
    destruct (decode s) as [c size] eqn:Ed. cbn [map fst concat].
    pose proof (decode_width s Hne) as Hw. rewrite Ed in Hw. cbn [snd] in Hw. rewrite Nat.max_l by lia.
    unfold RuneSelf, MaxRune.
    destruct (Z.ltb_spec bt 128) as [Ha|Ha].
    + rewrite Es, decode_ascii in Ed by exact Ha. inversion Ed; subst c size. rewrite Es in *. cbn [skipn].
      pose proof (hexfmt4 bt ltac:(lia)) as Hh. destruct (append_uint 4 bt 16) as [d|]; [|discriminate]. cbn [option_map] in Hh. inversion Hh as [Hd]. rewrite Hd.
      rewrite IH; [|inversion Hb; assumption|cbn [length] in Hl; lia].
      unfold esc_u, u_esc. destruct (Z.ltb_spec bt 65536); [|lia]. rewrite <- app_assoc. reflexivity.
    + assert (Hl' : (length (skipn size s) <= fu)%nat) by (rewrite skipn_length; lia).
      assert (Hv : valid_scalar c) by (replace c with (fst (decode s)) by (rewrite Ed; reflexivity); apply decode_valid; assumption).
      cbv zeta.
      destruct (Z.eqb_spec c RuneError) as [->|Hc'].
      * rewrite IH; [|apply bytes_skipn; exact Hb|exact Hl']. rewrite <- app_assoc. reflexivity.
      * destruct (((0 <=? c) && (c <? 55296)) || ((57344 <=? c) && (c <? 65536))) eqn:Ebmp.
        -- assert (Hr : 0 <= c < 65536) by lia.
           pose proof (hexfmt4 c Hr) as Hh. destruct (append_uint 4 c 16) as [d|]; [|discriminate]. cbn [option_map] in Hh. inversion Hh as [Hd]. rewrite Hd.
           rewrite IH; [|apply bytes_skipn; exact Hb|exact Hl'].
           unfold esc_u, u_esc. destruct (Z.ltb_spec c 65536); [|lia]. rewrite <- app_assoc. reflexivity.
        -- assert (Hr : 65536 <= c <= 1114111) by (unfold valid_scalar in Hv; lia).
           destruct (Z.leb_spec 65536 c); [|lia]. destruct (Z.leb_spec c 1114111); [|lia]. cbn [andb].
           rewrite utf16_encode_pair by exact Hr.
           assert (Hh1 : 55296 <= hi_s c < 56320) by (unfold hi_s; lia).
           assert (Hl1 : 56320 <= lo_s c < 57344) by (unfold lo_s; lia).
           pose proof (hexfmt4 (hi_s c) ltac:(lia)) as Hh. destruct (append_uint 4 (hi_s c) 16) as [d1|]; [|discriminate]. cbn [option_map] in Hh. inversion Hh as [Hd1]. rewrite Hd1.
           pose proof (hexfmt4 (lo_s c) ltac:(lia)) as Hg. destruct (append_uint 4 (lo_s c) 16) as [d2|]; [|discriminate]. cbn [option_map] in Hg. inversion Hg as [Hd2]. rewrite Hd2.
           rewrite IH; [|apply bytes_skipn; exact Hb|exact Hl'].
           unfold esc_u, u_esc. destruct (Z.ltb_spec c 65536); [lia|]. rewrite <- !app_assoc. reflexivity.
Qed.
Theorem utf16_format_shape s : bytes s -> utf16_format s = Some (s_utf16_format s).
Proof.
  intros H. unfold utf16_format, s_utf16_format, runes, decode_all. rewrite utf16_format_go_shape; [reflexivity|exact H|lia].
Qed.

(* ---- what the escapes look like: fixed width, upper-case digits, surrogate pairs above U+FFFF ---- *)
Definition upper_hex (c : Z) : Prop := 48 <= c <= 57 \/ 65 <= c <= 70.
Definition octal_digit (c : Z) : Prop := 48 <= c <= 55.
Lemma hexd_upper n : 0 <= n < 16 -> upper_hex (hexd n).
Proof. intros H. unfold upper_hex, hexd. destruct (Z.ltb_spec n 10); lia. Qed.
Lemma hex4_upper v : 0 <= v < 65536 -> Forall upper_hex (hex4 v).
Proof. intros H. unfold hex4. repeat (apply Forall_cons; [apply hexd_upper; lia|]). apply Forall_nil. Qed.
Theorem esc_shapes :
  (forall b, 0 <= b < 256 -> exists d1 d2 d3, esc_o b = [92; d1; d2; d3] /\ octal_digit d1 /\ octal_digit d2 /\ octal_digit d3) /\
  (forall b, 0 <= b < 256 -> exists d1 d2, esc_x b = [92; 120; d1; d2] /\ upper_hex d1 /\ upper_hex d2) /\
  (forall r, 0 <= r <= 1114111 -> exists ds, esc_U r = 92 :: 85 :: ds /\ length ds = 8%nat /\ Forall upper_hex ds) /\
  (forall r, 0 <= r < 65536 -> exists ds, esc_u r = 92 :: 117 :: ds /\ length ds = 4%nat /\ Forall upper_hex ds) /\
  (forall r, 65536 <= r <= 1114111 -> exists hi lo dh dl', esc_u r = (92 :: 117 :: dh) ++ (92 :: 117 :: dl') /\
     dh = hex4 hi /\ dl' = hex4 lo /\ Forall upper_hex dh /\ Forall upper_hex dl' /\
     55296 <= hi < 56320 /\ 56320 <= lo < 57344 /\ r = 65536 + (hi - 55296) * 1024 + (lo - 56320)).
Proof.
  repeat split.
  - intros b Hb. unfold esc_o. do 3 eexists. split; [reflexivity|]. unfold octal_digit. lia.
  - intros b Hb. unfold esc_x, hex2. cbn [app]. do 2 eexists. split; [reflexivity|]. split; apply hexd_upper; lia.
  - intros r Hr. unfold esc_U. cbn [app]. eexists. split; [reflexivity|]. split; [reflexivity|].
    unfold hex8. apply Forall_app. split; apply hex4_upper; lia.
  - intros r Hr. unfold esc_u. destruct (Z.ltb_spec r 65536); [|lia]. cbn [app]. eexists. split; [reflexivity|]. split; [reflexivity|apply hex4_upper; lia].
  - intros r Hr. unfold esc_u. destruct (Z.ltb_spec r 65536); [lia|].
    exists (hi_s r), (lo_s r), (hex4 (hi_s r)), (hex4 (lo_s r)). unfold hi_s, lo_s.
    split; [reflexivity|]. split; [reflexivity|]. split; [reflexivity|].
    split; [apply hex4_upper; lia|]. split; [apply hex4_upper; lia|]. lia.
Qed.
