(* C12: run-level statements about Run/C12.v. *)
From Coq Require Import List ZArith Bool Arith.
From V Require Import Lib.Enc Gen.SafeKVSkel Model.SafeKV Run.C12 Proofs.SafeKVExec.
Import ListNotations.
Local Open Scope Z_scope.

(* mode 0: for every sequential case the model's output (sub 0) is the specification's output (sub 1) *)
Theorem entry_seq_model_is_spec cap ops : entry 0 (0 :: cap :: ops) = entry 1 (0 :: cap :: ops).
Proof.
  unfold entry. destruct (dec_calls (length ops) ops) as [cs|]; [|reflexivity].
  cbn [Z.eqb]. apply run_model_is_spec.
Qed.
