(* C05 — list-order toolkit: StronglySorted under append / map / rev / filter / flat_map, and the fact the order
   theorems rest on: two lists that are strictly sorted by the same asymmetric relation and have the same elements are
   the same list. *)
From Coq Require Import List ZArith Lia Bool Arith Sorted.
Import ListNotations.

Section SS.
Context {A : Type}.
Variable R : A -> A -> Prop.

Lemma ss_app l1 l2 : StronglySorted R l1 -> StronglySorted R l2 -> (forall a b, In a l1 -> In b l2 -> R a b) ->
  StronglySorted R (l1 ++ l2).
Proof.
  induction l1 as [|x l1 IH]; intros H1 H2 Hc; cbn [app]; [exact H2|].
  inversion H1 as [|? ? S1 F1]; subst. constructor.
  - apply IH; auto. intros a b Ha Hb. apply Hc; [right; exact Ha|exact Hb].
  - apply Forall_app. split; [exact F1|]. apply Forall_forall. intros b Hb. apply Hc; [left; reflexivity|exact Hb].
Qed.

Lemma ss_in x l : StronglySorted R (x :: l) -> forall y, In y l -> R x y.
Proof. intros H y Hy. inversion H as [|? ? _ F]; subst. rewrite Forall_forall in F. apply F. exact Hy. Qed.

Lemma ss_cons x l : StronglySorted R l -> (forall y, In y l -> R x y) -> StronglySorted R (x :: l).
Proof. intros H F. constructor; [exact H|apply Forall_forall; exact F]. Qed.

Lemma ss_filter (P : A -> bool) l : StronglySorted R l -> StronglySorted R (filter P l).
Proof.
  induction l as [|x l IH]; intros H; cbn [filter]; [constructor|]. inversion H as [|? ? S F]; subst.
  destruct (P x); [|apply IH; exact S]. apply ss_cons; [apply IH; exact S|].
  intros y Hy. apply filter_In in Hy. rewrite Forall_forall in F. apply F. tauto.
Qed.

(* uniqueness *)
Hypothesis asym : forall x y, R x y -> R y x -> False.

Theorem ss_unique : forall l1 l2, StronglySorted R l1 -> StronglySorted R l2 -> (forall x, In x l1 <-> In x l2) -> l1 = l2.
Proof.
  induction l1 as [|a l1 IH]; intros [|b l2] H1 H2 Hi.
  - reflexivity.
  - exfalso. apply (proj2 (Hi b)). left. reflexivity.
  - exfalso. apply (proj1 (Hi a)). left. reflexivity.
  - assert (E : a = b).
    { destruct (proj1 (Hi a) (or_introl eq_refl)) as [E|Ha]; [symmetry; exact E|].
      destruct (proj2 (Hi b) (or_introl eq_refl)) as [E|Hb]; [exact E|].
      exfalso. apply (asym a b); [apply (ss_in a l1 H1); exact Hb|apply (ss_in b l2 H2); exact Ha]. }
    subst b. f_equal. inversion H1 as [|? ? S1 F1]; inversion H2 as [|? ? S2 F2]; subst. apply IH; auto.
    intros x. split; intros Hx.
    + destruct (proj1 (Hi x) (or_intror Hx)) as [<-|H]; [|exact H].
      exfalso. apply (asym a a); apply (ss_in a l1 H1); exact Hx.
    + destruct (proj2 (Hi x) (or_intror Hx)) as [<-|H]; [|exact H].
      exfalso. apply (asym a a); apply (ss_in a l2 H2); exact Hx.
Qed.

Lemma ss_nodup l : StronglySorted R l -> NoDup l.
Proof.
  induction l as [|a l IH]; intros H; [constructor|]. inversion H as [|? ? S F]; subst. constructor; [|apply IH; exact S].
  intros Hin. apply (asym a a); apply (ss_in a l H); exact Hin.
Qed.
End SS.

Lemma ss_map {A B} (R : A -> A -> Prop) (R' : B -> B -> Prop) (f : A -> B) l :
  StronglySorted R l -> (forall a b, In a l -> In b l -> R a b -> R' (f a) (f b)) -> StronglySorted R' (map f l).
Proof.
  induction l as [|x l IH]; intros H Hf; cbn [map]; [constructor|]. inversion H as [|? ? S F]; subst.
  apply ss_cons.
  - apply IH; [exact S|]. intros a b Ha Hb. apply Hf; right; assumption.
  - intros y Hy. apply in_map_iff in Hy. destruct Hy as (z & <- & Hz). rewrite Forall_forall in F.
    apply Hf; [left; reflexivity|right; exact Hz|apply F; exact Hz].
Qed.

Lemma ss_rev {A} (R : A -> A -> Prop) l : StronglySorted R l -> StronglySorted (fun a b => R b a) (rev l).
Proof.
  induction l as [|x l IH]; intros H; cbn [rev]; [constructor|]. inversion H as [|? ? S F]; subst.
  apply ss_app; [apply IH; exact S|constructor; [constructor|constructor]|].
  intros a b Ha [<-|[]]. apply in_rev in Ha. rewrite Forall_forall in F. apply F. exact Ha.
Qed.

Lemma ss_impl {A} (R R' : A -> A -> Prop) l :
  StronglySorted R l -> (forall a b, In a l -> In b l -> R a b -> R' a b) -> StronglySorted R' l.
Proof. intros H Hf. rewrite <- (map_id l). apply (ss_map R R' (fun x => x)); assumption. Qed.

Lemma ss_flat_map {A B} (RA : A -> A -> Prop) (RB : B -> B -> Prop) (f : A -> list B) l :
  StronglySorted RA l -> (forall a, In a l -> StronglySorted RB (f a)) ->
  (forall a a' b b', In a l -> In a' l -> RA a a' -> In b (f a) -> In b' (f a') -> RB b b') ->
  StronglySorted RB (flat_map f l).
Proof.
  induction l as [|x l IH]; intros H Hs Hc; cbn [flat_map]; [constructor|]. inversion H as [|? ? S F]; subst.
  apply ss_app.
  - apply Hs. left. reflexivity.
  - apply IH; [exact S| |].
    + intros a Ha. apply Hs. right. exact Ha.
    + intros a a' b b' Ha Ha'. apply Hc; right; assumption.
  - intros b b' Hb Hb'. apply in_flat_map in Hb'. destruct Hb' as (a' & Ha' & Hb'). rewrite Forall_forall in F.
    apply (Hc x a' b b'); [left; reflexivity|right; exact Ha'|apply F; exact Ha'|exact Hb|exact Hb'].
Qed.

Lemma ss_seq : forall n a, StronglySorted lt (seq a n).
Proof.
  induction n as [|n IH]; intros a; cbn [seq]; [constructor|]. apply ss_cons; [apply IH|].
  intros y Hy. apply in_seq in Hy. lia.
Qed.
