(* C17 — the translator tie for strz/strs.go: every function of coq/Gen/StrsCode.v (GENERATED from the current Go source by
   gen/trans*.go on every run, area StrsCode) equals the hand-written model function of Model/Strs.v the property theorems
   are about.  Loops: equality for EVERY fuel with the model's fuelled loop run on the same fuel (NoFuel = Stuck), then the
   model's own fuel S (length s).  Go `int` is an unbounded Z in the translation, the hand model wraps at 64 bits where an
   int expression of the code can leave the int64 range: the theorems carry exactly the premise "that expression does not
   wrap" (sub_no_wrap, mask_no_wrap), and lemmas give the simple sufficient domains.
   Proof scheme per loop (survives harmless rewrites of the body): the loop's components are taken OUT of the goal, facts
   about ONE evaluation of the condition / body / post step are proved by unfolding + rewriting the checked reads into their
   values + case analysis, then the components are made opaque and the induction on fuel uses those facts only. *)
From Coq Require Import List ZArith Lia Bool Arith.
From V Require Import Lib.Utf8 Proofs.Utf8Facts Model.Strs Proofs.StrsBasic Proofs.StrsRunes.
From V Require Import Lib.GoSem Lib.GoSemStd Lib.GoSemStr Proofs.GoSemFacts Gen.StrsCode.
Import ListNotations GoNotations.
Local Open Scope Z_scope.
Arguments Z.mul : simpl never.
Arguments Z.add : simpl never.
Arguments Z.sub : simpl never.
Arguments Z.of_nat : simpl never.
Arguments Z.to_nat : simpl never.

(* the hand model's three-valued result as the monad of generated code *)
Definition to_M (r : Strs.res) : M (list Z) :=
  match r with Strs.Ret b => Ret b | Strs.Panic => Panic | Strs.Stuck => NoFuel end.
(* ... as the outcome of a loop body that returns it *)
Definition to_ret {S} (r : Strs.res) : M (ctl S (list Z)) :=
  match r with Strs.Ret b => Ret (Return b) | Strs.Panic => Panic | Strs.Stuck => NoFuel end.

Lemma to_M_bind r f : to_M (Strs.bind r f) = bind (to_M r) (fun b => to_M (f b)).
Proof. destruct r; reflexivity. Qed.

(* ---------------------------------------------------------------- checked reads of the code = reads of the model *)
Lemma zlen_eq s : GoSem.zlen s = Z.of_nat (length s).
Proof. reflexivity. Qed.

Lemma m_get_nat s i : (i < length s)%nat -> m_get s (Z.of_nat i) = Ret (nth i s 0).
Proof.
  intros H. unfold m_get, get_at. replace (0 <=? Z.of_nat i) with true by (symmetry; apply Z.leb_le; lia).
  rewrite Nat2Z.id. destruct (nth_error s i) eqn:En.
  - cbn [lift]. f_equal. symmetry. apply nth_error_nth. exact En.
  - apply nth_error_None in En. lia.
Qed.

Lemma m_slice_nat s a b : m_slice s (Z.of_nat a) (Z.of_nat b) = to_M (sl s a b).
Proof.
  unfold m_slice, slice, sl. rewrite !Nat2Z.id.
  replace (0 <=? Z.of_nat a) with true by (symmetry; apply Z.leb_le; lia). cbn [andb].
  destruct (Nat.leb_spec a b) as [H1|H1].
  - replace (Z.of_nat a <=? Z.of_nat b) with true by (symmetry; apply Z.leb_le; lia). cbn [andb].
    destruct (Nat.leb_spec b (length s)) as [H2|H2].
    + replace (Z.of_nat b <=? Z.of_nat (length s)) with true by (symmetry; apply Z.leb_le; lia). reflexivity.
    + replace (Z.of_nat b <=? Z.of_nat (length s)) with false by (symmetry; apply Z.leb_gt; lia). reflexivity.
  - replace (Z.of_nat a <=? Z.of_nat b) with false by (symmetry; apply Z.leb_gt; lia). reflexivity.
Qed.

Lemma m_slice_z s a b : 0 <= a -> m_slice s a (Z.of_nat b) = to_M (sl s (Z.to_nat a) b).
Proof. intros H. rewrite <- (Z2Nat.id a) at 1 by exact H. apply m_slice_nat. Qed.

Lemma m_slice_0 s b : m_slice s 0 (Z.of_nat b) = to_M (sl s 0 b).
Proof. exact (m_slice_z s 0 b (Z.le_refl 0)). Qed.

Lemma m_slice_tail s i : (i <= length s)%nat -> m_slice s (Z.of_nat i) (GoSem.zlen s) = Ret (skipn i s).
Proof.
  intros H. rewrite zlen_eq, m_slice_nat. unfold sl.
  replace ((i <=? length s)%nat && (length s <=? length s)%nat) with true
    by (symmetry; apply andb_true_iff; split; apply Nat.leb_le; lia).
  cbn [to_M]. f_equal. apply firstn_all2. rewrite skipn_length. lia.
Qed.

Lemma skipn_nth_cons (s : list Z) i : (i < length s)%nat -> skipn i s = nth i s 0 :: skipn (S i) s.
Proof.
  revert i. induction s as [|x t IH]; intros i H; cbn [length] in H; [lia|].
  destruct i as [|i]; [reflexivity|]. cbn [skipn nth]. apply IH. lia.
Qed.

(* the scanning step of Sub / Mask, as the code writes it: i++ for an ASCII byte, else += the decoded width *)
Lemma adv_skipn s i : (i < length s)%nat ->
  adv (skipn i s) = if nth i s 0 <? 128 then 1%nat else snd (decode (skipn i s)).
Proof. intros H. rewrite (skipn_nth_cons s i H) at 1. cbn [adv]. rewrite <- (skipn_nth_cons s i H). reflexivity. Qed.

Lemma decode_rune_nat t : std_utf8_DecodeRune t = (fst (decode t), Z.of_nat (snd (decode t))).
Proof. unfold std_utf8_DecodeRune. destruct (decode t). reflexivity. Qed.

Lemma str_rune_at_nat s i : str_rune_at s (Z.of_nat i) = (fst (decode (skipn i s)), Z.of_nat (snd (decode (skipn i s)))).
Proof. unfold str_rune_at. rewrite Nat2Z.id. apply decode_rune_nat. Qed.

(* utf8.RuneCountInString: the translator's model and the hand model's counting loop *)
Lemma rune_count_std s : std_utf8_RuneCount s = rune_count_z s.
Proof.
  unfold std_utf8_RuneCount, rune_count. rewrite decode_all_chunks, map_length. symmetry. apply rune_count_chunks.
Qed.

Lemma bytes_eqb_nil s : bytes_eqb s [] = match s with [] => true | _ => false end.
Proof. destruct s; reflexivity. Qed.

Ltac ltb_true := match goal with |- context [?a <? ?b] => replace (a <? b) with true by (symmetry; apply Z.ltb_lt; lia) end.
Ltac ltb_false := match goal with |- context [?a <? ?b] => replace (a <? b) with false by (symmetry; apply Z.ltb_ge; lia) end.
Ltac zbools := repeat match goal with
  | H : (_ && _) = true |- _ => apply andb_true_iff in H; destruct H
  | H : (_ || _) = false |- _ => apply orb_false_iff in H; destruct H
  | H : (_ <=? _) = true |- _ => apply Z.leb_le in H
  | H : (_ <=? _) = false |- _ => apply Z.leb_gt in H
  | H : (_ <? _) = true |- _ => apply Z.ltb_lt in H
  | H : (_ <? _) = false |- _ => apply Z.ltb_ge in H
  | H : (_ =? _) = true |- _ => apply Z.eqb_eq in H
  | H : (_ =? _) = false |- _ => apply Z.eqb_neq in H
  | H : (_ <? _)%nat = true |- _ => apply Nat.ltb_lt in H
  | H : (_ <? _)%nat = false |- _ => apply Nat.ltb_ge in H
  end.
(* decide a comparison of the code from the hypotheses *)
Ltac decide_cmp := repeat match goal with
  | |- context [?a <? ?b] => first [replace (a <? b) with true by (symmetry; apply Z.ltb_lt; lia) | replace (a <? b) with false by (symmetry; apply Z.ltb_ge; lia)]
  | |- context [?a <=? ?b] => first [replace (a <=? b) with true by (symmetry; apply Z.leb_le; lia) | replace (a <=? b) with false by (symmetry; apply Z.leb_gt; lia)]
  | |- context [?a =? ?b] => first [replace (a =? b) with true by (symmetry; apply Z.eqb_eq; lia) | replace (a =? b) with false by (symmetry; apply Z.eqb_neq; lia)]
  end.

(* ================================================================ Len, UcFirst, LcFirst *)
Theorem code_Len s : g_Len s = Ret (len s).
Proof. unfold g_Len, len. rewrite rune_count_std. reflexivity. Qed.

Lemma wrap8_id b : 0 <= b < 256 -> wrap 8 b = b.
Proof. intros H. unfold wrap. apply Z.mod_small. change (2 ^ 8) with 256. lia. Qed.

Lemma slice_tail1 b t : m_slice (b :: t) 1 (GoSem.zlen (b :: t)) = Ret t.
Proof. apply (m_slice_tail (b :: t) 1). cbn [length]. lia. Qed.

(* both sides are split on the model's condition, then every comparison of the code is decided by lia: the polarity of the
   test, the order of the branches, `b -= 32` vs `b - 32` do not matter *)
Ltac first_byte b t :=
  repeat autounfold with go2v;
  replace (GoSem.zlen (b :: t) =? 0) with false by (symmetry; apply Z.eqb_neq; rewrite zlen_eq; cbn [length]; lia);
  change (m_get (b :: t) 0) with (Ret (A := Z) b); cbn [bind];
  match goal with |- _ = Ret (if ?c1 && ?c2 then _ else _) => destruct c1 eqn:E1; destruct c2 eqn:E2 end; zbools; cbn [andb];
  decide_cmp; cbn [andb orb negb]; try reflexivity;
  rewrite ?slice_tail1; cbn [bind]; rewrite wrap8_id by lia; unfold str_of_byte; decide_cmp; reflexivity.

Theorem code_UcFirst s : g_UcFirst s = Ret (uc_first s).
Proof. unfold g_UcFirst. destruct s as [|b t]; [reflexivity|]. cbn [uc_first]. first_byte b t. Qed.

Theorem code_LcFirst s : g_LcFirst s = Ret (lc_first s).
Proof. unfold g_LcFirst. destruct s as [|b t]; [reflexivity|]. cbn [lc_first]. first_byte b t. Qed.

(* ================================================================ Sub *)
(* the one int expression of Sub that can leave the int64 range: start+length (the hand model wraps it) *)
Definition sub_no_wrap (start length_ : Z) : Prop := wrap64 (start + length_) = start + length_.
Lemma sub_no_wrap_dom start length_ : - two63 <= start + length_ < two63 -> sub_no_wrap start length_.
Proof. apply wrap64_id. Qed.

(* the model's Sub with its loop fuel as a parameter (Model.Strs.sub is the instance S (length s)) *)
Definition sub_fuel (fuel : nat) (s : list Z) (start length_ : Z) : Strs.res :=
  if (start <? 0) || (length_ <? -1) || (match s with [] => true | _ => false end) then Strs.Ret s
  else if length_ =? 0 then Strs.Ret []
  else sub_go s start length_ fuel 0 0 (-1).
Lemma sub_fuel_model s start length_ : sub_fuel (S (length s)) s start length_ = sub s start length_.
Proof. reflexivity. Qed.

(* one scanning step, in either of the two forms the code may use (with or without the join point) *)
Lemma scan_step {R} s i (k : Z -> M R) : (i < length s)%nat ->
  (do v <- m_get s (Z.of_nat i);;
   if v <? 128 then k (Z.of_nat i + 1)
   else (do t <- m_slice s (Z.of_nat i) (GoSem.zlen s);; let '(_, w) := std_utf8_DecodeRune t in k (Z.of_nat i + w)))
  = k (Z.of_nat (i + adv (skipn i s))).
Proof.
  intros H. rewrite m_get_nat by exact H. cbn [bind]. rewrite adv_skipn by exact H.
  destruct (nth i s 0 <? 128).
  - f_equal. lia.
  - rewrite m_slice_tail by lia. cbn [bind]. rewrite decode_rune_nat. f_equal. lia.
Qed.

Ltac open_loop :=
  match goal with |- context [while _ ?c ?b ?p _] =>
    let C := fresh "C" in let B := fresh "B" in let P := fresh "P" in set (C := c); set (B := b); set (P := p) end;
  match goal with |- bind _ ?k = _ => let K := fresh "K" in set (K := k) end.

Theorem code_Sub_fuel fuel s start length_ : sub_no_wrap start length_ ->
  g_Sub fuel s start length_ = to_M (sub_fuel fuel s start length_).
Proof.
  intros Hw. unfold g_Sub, sub_fuel. rewrite bytes_eqb_nil.
  destruct ((start <? 0) || (length_ <? -1) || (match s with [] => true | _ => false end)); [reflexivity|].
  destruct (length_ =? 0); [reflexivity|].
  cbv zeta. open_loop.
  (* one evaluation of each loop component *)
  assert (HC : forall bg ct i, C (bg, ct, i) = Ret (i <? GoSem.zlen s)) by reflexivity.
  assert (HP : forall st, P st = Ret st) by (intros [[? ?] ?]; reflexivity).
  assert (HB : forall bg ct i, (i < length s)%nat ->
    B (bg, ct, Z.of_nat i) =
    let nx b := Ret (Next (b, ct + 1, Z.of_nat (i + adv (skipn i s)))) in
    if ct =? start then (if length_ =? -1 then to_ret (sl s i (length s)) else nx (Z.of_nat i))
    else if (0 <=? bg) && (wrap64 (start + length_) =? ct) then to_ret (sl s (Z.to_nat bg) i) else nx bg).
  { intros bg ct i Hi. unfold B. rewrite Hw. cbv zeta.
    destruct (ct =? start).
    - destruct (length_ =? -1).
      + rewrite m_slice_tail by lia. unfold sl.
        replace ((i <=? length s)%nat && (length s <=? length s)%nat) with true
          by (symmetry; apply andb_true_iff; split; apply Nat.leb_le; lia).
        cbn [bind to_ret]. rewrite firstn_all2 by (rewrite skipn_length; lia). reflexivity.
      + rewrite <- (scan_step s i (fun j => Ret (Next (Z.of_nat i, ct + 1, j)))) by exact Hi. reflexivity.
    - destruct ((0 <=? bg) && (start + length_ =? ct)) eqn:E.
      + zbools. rewrite m_slice_z by lia. destruct (sl s (Z.to_nat bg) i); reflexivity.
      + rewrite <- (scan_step s i (fun j => Ret (Next (bg, ct + 1, j)))) by exact Hi. reflexivity. }
  assert (HK : forall bg ct i, K (Datatypes.inl (bg, ct, i)) = to_M (if bg <? 0 then Strs.Ret [] else sl s (Z.to_nat bg) (length s))).
  { intros bg ct i. unfold K. destruct (bg <? 0) eqn:E; zbools; decide_cmp; cbv beta iota; [reflexivity|].
    rewrite zlen_eq, m_slice_z by lia. destruct (sl s (Z.to_nat bg) (length s)); reflexivity. }
  assert (HR : forall v, K (Datatypes.inr v) = Ret v) by reflexivity.
  clearbody C B P K.
  change (while fuel C B P (-1, 0, 0)) with (while fuel C B P (-1, 0, Z.of_nat 0)).
  generalize 0%nat as i. generalize 0 as ct. generalize (-1) as bg.
  induction fuel as [|f IH]; intros bg ct i; [reflexivity|].
  rewrite while_step, HC. cbn [bind sub_go]. rewrite zlen_eq.
  destruct (Nat.ltb_spec i (length s)) as [Hi|Hi].
  - ltb_true. rewrite HB by exact Hi. cbv zeta.
    destruct (ct =? start).
    + destruct (length_ =? -1).
      * destruct (sl s i (length s)); cbn [to_ret bind to_M]; try reflexivity. apply HR.
      * cbn [bind]. rewrite HP. cbn [bind]. apply IH.
    + destruct ((0 <=? bg) && (wrap64 (start + length_) =? ct)).
      * destruct (sl s (Z.to_nat bg) i); cbn [to_ret bind to_M]; try reflexivity. apply HR.
      * cbn [bind]. rewrite HP. cbn [bind]. apply IH.
  - ltb_false. cbn [bind]. apply HK.
Qed.

(* the model's own fuel *)
Corollary code_Sub s start length_ : sub_no_wrap start length_ ->
  g_Sub (S (length s)) s start length_ = to_M (sub s start length_).
Proof. intros H. rewrite code_Sub_fuel by exact H. reflexivity. Qed.

(* ================================================================ SubByDisplay *)
Definition sub_by_display_fuel (fuel : nat) (s : list Z) (limit : Z) : Strs.res :=
  if Strs.zlen s <=? limit then Strs.Ret s else sbd_go s limit fuel 0 0.
Lemma sub_by_display_fuel_model s limit : sub_by_display_fuel (S (length s)) s limit = sub_by_display s limit.
Proof. reflexivity. Qed.

Theorem code_SubByDisplay_fuel fuel s limit :
  g_SubByDisplay fuel s limit = to_M (sub_by_display_fuel fuel s limit).
Proof.
  unfold g_SubByDisplay, sub_by_display_fuel. change (Strs.zlen s) with (GoSem.zlen s).
  destruct (GoSem.zlen s <=? limit); [reflexivity|].
  cbv zeta. open_loop.
  assert (HC : forall i d, C (i, d) = Ret (i <? GoSem.zlen s)) by reflexivity.
  assert (HB : forall i d, (i < length s)%nat ->
    B (Z.of_nat i, d) =
    let d' := d + disp (fst (decode (skipn i s))) in
    if limit <? d' then to_ret (sl s 0 i) else Ret (Next (Z.of_nat i, d'))).
  { (* the model's test is split first, the code's comparisons are then decided by lia: polarity / branch order are free *)
    intros i d Hi. unfold B. rewrite str_rune_at_nat. cbn [fst]. cbv zeta. unfold disp.
    destruct (fst (decode (skipn i s)) <? 128) eqn:Ev; zbools; decide_cmp; cbv beta iota;
    (match goal with |- context [limit <? ?x] => destruct (limit <? x) eqn:El end; zbools; decide_cmp; cbv beta iota; [|reflexivity]);
    rewrite m_slice_0; destruct (sl s 0 i); reflexivity. }
  assert (HP : forall i d, P (Z.of_nat i, d) = Ret (Z.of_nat (i + snd (decode (skipn i s))), d)).
  { intros i d. unfold P. rewrite str_rune_at_nat. cbn [snd]. do 2 f_equal. lia. }
  assert (HK : forall i d, K (Datatypes.inl (i, d)) = Ret s) by reflexivity.
  assert (HR : forall v, K (Datatypes.inr v) = Ret v) by reflexivity.
  clearbody C B P K.
  change (while fuel C B P (0, 0)) with (while fuel C B P (Z.of_nat 0, 0)). generalize 0%nat as i. generalize 0 as d.
  induction fuel as [|f IH]; intros d i; [reflexivity|].
  rewrite while_step, HC. cbn [bind sbd_go]. rewrite zlen_eq.
  destruct (Nat.ltb_spec i (length s)) as [Hi|Hi].
  - ltb_true. rewrite HB by exact Hi. cbv zeta.
    destruct (decode (skipn i s)) as [v w] eqn:Ed. cbn [fst].
    destruct (limit <? d + disp v).
    + destruct (sl s 0 i); cbn [to_ret bind to_M]; try reflexivity. apply HR.
    + cbn [bind]. rewrite HP, Ed. cbn [bind snd]. apply IH.
  - ltb_false. cbn [bind]. apply HK.
Qed.

Corollary code_SubByDisplay s limit : g_SubByDisplay (S (length s)) s limit = to_M (sub_by_display s limit).
Proof. rewrite code_SubByDisplay_fuel. reflexivity. Qed.

(* ================================================================ Mask *)
(* the int expressions of Mask that can leave the int64 range (the hand model wraps them): l-start, l-start-end, l-end *)
Definition mask_no_wrap (str : list Z) (start end_ : Z) : Prop :=
  let l := rune_count_z str in
  start <= l -> end_ <= l ->       (* the code computes them only behind `if start > l || end > l { return str }` *)
  wrap64 (l - start) = l - start /\ wrap64 (l - start - end_) = l - start - end_ /\ wrap64 (l - end_) = l - end_.
(* the domain of c17_mask_spec (non-negative start, end; a string shorter than 2^63) is inside *)
Lemma mask_no_wrap_dom str start end_ : Strs.zlen str <= maxint -> 0 <= start -> 0 <= end_ -> mask_no_wrap str start end_.
Proof.
  intros Hl Hs He. unfold mask_no_wrap. cbv zeta.
  pose proof (chunks_length str) as Hc. rewrite rune_count_chunks. unfold Strs.zlen, maxint in *. intros H1 H2.
  repeat split; apply wrap64_id; unfold two63; lia.
Qed.

Definition mask_fuel (fuel : nat) (str msk : list Z) (start end_ : Z) : Strs.res :=
  let l := rune_count_z str in
  if (l <? start) || (l <? end_) then Strs.Ret str else
  let ml := wrap64 (wrap64 (l - start) - end_) in
  if ml <=? 0 then Strs.Ret str else
  Strs.bind (if rune_count_z msk =? 1 then repeat_str msk ml else Strs.Ret msk) (fun msk' =>
  if ml =? l then Strs.Ret msk' else
  let e := wrap64 (l - end_) in
  match idx_go str start e fuel 0 0 0 0 with
  | None => Strs.Stuck
  | Some (si, ei) =>
      let ei' := if (ei =? 0)%nat then length str else ei in
      Strs.bind (sl str 0 si) (fun a => Strs.bind (sl str ei' (length str)) (fun b => Strs.Ret (a ++ msk' ++ b)))
  end).
Lemma mask_fuel_model str msk start end_ : mask_fuel (S (length str)) str msk start end_ = mask str msk start end_.
Proof. reflexivity. Qed.

(* strings.Repeat as the translator models it = the hand model's repeat_str (which is stated for count >= 1) *)
Lemma repeat_std m c : 1 <= c -> std_strings_Repeat m c = to_M (repeat_str m c).
Proof.
  intros H. unfold std_strings_Repeat, repeat_str. replace (c =? 0) with false by (symmetry; apply Z.eqb_neq; lia).
  destruct (c =? 1); [reflexivity|]. replace (c <? 0) with false by (symmetry; apply Z.ltb_ge; lia).
  change std_maxint with maxint. change std_alloc_limit with alloc_limit. change (Strs.zlen m) with (GoSem.zlen m).
  destruct (maxint <? GoSem.zlen m * c); [reflexivity|]. destruct m; [reflexivity|].
  destruct (alloc_limit <? GoSem.zlen (z :: m) * c); reflexivity.
Qed.

(* the tail of Mask: from `if ml == l` on, for the mask m that is spliced in *)
Definition mask_cut (str m : list Z) (si ei : nat) : Strs.res :=
  let ei' := if (ei =? 0)%nat then length str else ei in
  Strs.bind (sl str 0 si) (fun a => Strs.bind (sl str ei' (length str)) (fun b => Strs.Ret (a ++ m ++ b))).

Ltac mask_tail fuel str start m :=
  cbv beta;
  match goal with |- context [if ?c then Strs.Ret _ else _] => destruct c; [reflexivity|] end;
  open_loop;
  match goal with |- bind (while _ ?C ?B ?P _) ?K = to_M (match idx_go _ _ ?e _ _ _ _ _ with _ => _ end) =>
  assert (HC : forall si ei ct i, C (si, ei, ct, i) = Ret (i <? GoSem.zlen str)) by reflexivity;
  assert (HP : forall st, P st = Ret st) by (intros [[[? ?] ?] ?]; reflexivity);
  assert (HB : forall si ei ct i, (i < length str)%nat ->
    B (Z.of_nat si, Z.of_nat ei, ct, Z.of_nat i) =
    Ret (Next (Z.of_nat (if ct =? start then i else si),
               Z.of_nat (if ct =? start then ei else if ct =? e then i else ei), ct + 1,
               Z.of_nat (i + adv (skipn i str)))))
   by (intros si ei ct i Hi; unfold B; cbv beta;
       destruct (ct =? start); [|destruct (ct =? e)];
       match goal with |- _ = Ret (Next (?a, ?b, ?c, _)) =>
         rewrite <- (scan_step str i (fun j => Ret (Next (a, b, c, j)))) by exact Hi; reflexivity end);
  assert (HK : forall si ei ct i, K (Datatypes.inl (Z.of_nat si, Z.of_nat ei, ct, i)) = to_M (mask_cut str m si ei))
   by (intros si ei ct i; unfold K, mask_cut; cbv beta zeta; rewrite zlen_eq;
       destruct (Nat.eqb_spec ei 0) as [->|Hne];
       [ change (Z.of_nat 0 =? 0) with true; cbv iota | replace (Z.of_nat ei =? 0) with false by (symmetry; apply Z.eqb_neq; lia) ];
       rewrite m_slice_0, m_slice_nat;
       (destruct (sl str 0 si); [|reflexivity|reflexivity]); cbn [to_M bind Strs.bind];
       match goal with |- context [sl ?x ?y ?z] => destruct (sl x y z) end; cbn [to_M bind Strs.bind]; try reflexivity;
       rewrite app_assoc; reflexivity);
  clearbody C B P K;
  assert (HL : forall f ct si ei i, bind (while f C B P (Z.of_nat si, Z.of_nat ei, ct, Z.of_nat i)) K =
     to_M (match idx_go str start e f i ct si ei with None => Strs.Stuck | Some (si', ei') => mask_cut str m si' ei' end))
   by (let f := fresh "f" in let IH := fresh "IH" in
       induction f as [|f IH]; intros ct si ei i; [reflexivity|];
       rewrite while_step, HC; cbn [bind idx_go]; rewrite zlen_eq;
       destruct (Nat.ltb_spec i (length str)) as [Hi|Hi];
       [ ltb_true; rewrite HB by exact Hi; cbn [bind]; rewrite HP; cbn [bind]; apply IH
       | ltb_false; cbn [bind]; apply HK ]);
  exact (HL fuel 0 0%nat 0%nat 0%nat)
  end.

Theorem code_Mask_fuel fuel str msk start end_ : mask_no_wrap str start end_ ->
  g_Mask fuel str msk start end_ = to_M (mask_fuel fuel str msk start end_).
Proof.
  intros W. unfold g_Mask, mask_fuel. rewrite !rune_count_std. cbv zeta.
  destruct ((rune_count_z str <? start) || (rune_count_z str <? end_)) eqn:Eg; [reflexivity|]. zbools.
  destruct W as (W1 & W2 & W3); [lia|lia|]. rewrite W1, W2, W3.
  destruct (rune_count_z str - start - end_ <=? 0) eqn:Eml; [reflexivity|]. zbools.
  destruct (rune_count_z msk =? 1).
  - rewrite repeat_std by lia. destruct (repeat_str msk (rune_count_z str - start - end_)) as [m| |]; [|reflexivity|reflexivity].
    cbn [to_M bind Strs.bind]. mask_tail fuel str start m.
  - cbn [Strs.bind]. mask_tail fuel str start msk.
Qed.

Corollary code_Mask str msk start end_ : mask_no_wrap str start end_ ->
  g_Mask (S (length str)) str msk start end_ = to_M (mask str msk start end_).
Proof. intros H. rewrite code_Mask_fuel by exact H. reflexivity. Qed.

(* ================================================================ Rev *)
Lemma zupd_length (l : list Z) i x : length (GoSem.upd l i x) = length l.
Proof. revert i; induction l as [|a l IH]; intros [|i]; cbn [GoSem.upd length]; auto. Qed.
Lemma nth_zupd (l : list Z) i j x : (i < length l)%nat -> nth j (GoSem.upd l i x) 0 = if Nat.eqb j i then x else nth j l 0.
Proof.
  revert i j; induction l as [|a l IH]; intros [|i] [|j] H; cbn [GoSem.upd nth length Nat.eqb] in *; try lia; auto.
  apply IH. lia.
Qed.
Lemma m_set_nat l i x : (i < length l)%nat -> m_set l (Z.of_nat i) x = Ret (GoSem.upd l i x).
Proof.
  intros H. unfold m_set, set_at. replace (0 <=? Z.of_nat i) with true by (symmetry; apply Z.leb_le; lia).
  replace (Z.of_nat i <? Z.of_nat (length l)) with true by (symmetry; apply Z.ltb_lt; lia). rewrite Nat2Z.id. reflexivity.
Qed.

(* the state of the two-index swapping loop after k iterations over the rune list l (n = length l) *)
Definition rev_inv (l : list Z) (k : nat) (cur : list Z) : Prop :=
  length cur = length l /\ (k <= length l)%nat /\
  forall idx, (idx < length l)%nat ->
    nth idx cur 0 = if ((idx <? k) || (length l - 1 - k <? idx))%nat then nth (length l - 1 - idx) l 0 else nth idx l 0.

Lemma rev_inv_done l k cur : rev_inv l k cur -> (length l - 1 - k <= k)%nat -> cur = rev l.
Proof.
  intros (Hlen & Hk & Hp) Hd. apply (nth_ext _ _ 0 0); [rewrite rev_length; exact Hlen|].
  intros idx Hi. rewrite Hlen in Hi. rewrite (Hp idx Hi), rev_nth by exact Hi.
  replace (length l - S idx)%nat with (length l - 1 - idx)%nat by lia.
  destruct ((idx <? k) || (length l - 1 - k <? idx))%nat eqn:E; [reflexivity|].
  apply orb_false_iff in E. destruct E as [E1 E2]. apply Nat.ltb_ge in E1, E2. f_equal. lia.
Qed.

Lemma rev_inv_step l k cur : rev_inv l k cur -> (k < length l - 1 - k)%nat ->
  rev_inv l (S k) (GoSem.upd (GoSem.upd cur k (nth (length l - 1 - k) cur 0)) (length l - 1 - k) (nth k cur 0)).
Proof.
  intros (Hlen & Hk & Hp) Hlt. repeat split.
  - rewrite !zupd_length. exact Hlen.
  - lia.
  - intros idx Hi. rewrite nth_zupd by (rewrite zupd_length; lia). rewrite nth_zupd by lia.
    rewrite (Hp k) by lia. rewrite (Hp (length l - 1 - k)%nat) by lia. rewrite (Hp idx) by exact Hi.
    replace ((k <? k) || (length l - 1 - k <? k))%nat with false
      by (symmetry; apply orb_false_iff; split; apply Nat.ltb_ge; lia).
    replace ((length l - 1 - k <? k) || (length l - 1 - k <? length l - 1 - k))%nat with false
      by (symmetry; apply orb_false_iff; split; apply Nat.ltb_ge; lia).
    destruct (Nat.eqb_spec idx (length l - 1 - k)) as [->|N1].
    + replace ((length l - 1 - k <? S k) || (length l - 1 - S k <? length l - 1 - k))%nat with true
        by (symmetry; apply orb_true_iff; right; apply Nat.ltb_lt; lia).
      f_equal. lia.
    + destruct (Nat.eqb_spec idx k) as [->|N2].
      * replace ((k <? S k) || (length l - 1 - S k <? k))%nat with true
          by (symmetry; apply orb_true_iff; left; apply Nat.ltb_lt; lia).
        reflexivity.
      * replace ((idx <? S k) || (length l - 1 - S k <? idx))%nat with ((idx <? k) || (length l - 1 - k <? idx))%nat; [reflexivity|].
        destruct (Nat.ltb_spec idx k), (Nat.ltb_spec (length l - 1 - k) idx), (Nat.ltb_spec idx (S k)),
          (Nat.ltb_spec (length l - 1 - S k) idx); cbn [orb]; try reflexivity; lia.
Qed.

Lemma runes_length_le s : (length (runes s) <= length s)%nat.
Proof. rewrite runes_chunks, map_length. apply chunks_length. Qed.

(* enough fuel: more than the number of runes *)
Theorem code_Rev_fuel fuel s : (length (runes s) < fuel)%nat -> g_Rev fuel s = Ret (rev_str s).
Proof.
  intros Hf. unfold g_Rev, rev_str, std_runes. cbv zeta. set (l := runes s) in *. open_loop.
  assert (HK : forall cur i j, K (Datatypes.inl (cur, i, j)) = Ret (concat (map encode_rune cur))) by reflexivity.
  destruct (while_rule C B P
    (fun m st => exists k cur, st = (cur, Z.of_nat k, GoSem.zlen l - 1 - Z.of_nat k) /\ rev_inv l k cur /\ m = (length l - k)%nat)
    (fun out => exists i j, out = Datatypes.inl (rev l, i, j))) with (fuel := fuel) (m := length l) (s := (l, 0, GoSem.zlen l - 1))
    as (out & Hw & (i & j & ->)).
  - intros m st (k & cur & -> & Hinv & ->). unfold C, B, P. rewrite zlen_eq.
    destruct (Z.of_nat k <? Z.of_nat (length l) - 1 - Z.of_nat k) eqn:E; zbools.
    + pose proof Hinv as (Hlen & Hk & _).
      replace (Z.of_nat (length l) - 1 - Z.of_nat k) with (Z.of_nat (length l - 1 - k)) by lia.
      rewrite !m_get_nat by lia. cbn [bind]. rewrite m_set_nat by lia. cbn [bind].
      rewrite m_set_nat by (rewrite zupd_length; lia). cbn [bind].
      exists (length l - S k)%nat. split; [lia|].
      exists (S k), (GoSem.upd (GoSem.upd cur k (nth (length l - 1 - k) cur 0)) (length l - 1 - k) (nth k cur 0)).
      split; [|split; [apply rev_inv_step; [exact Hinv|lia]|reflexivity]].
      f_equal; [f_equal|]; lia.
    + exists (Z.of_nat k), (Z.of_nat (length l) - 1 - Z.of_nat k). do 3 f_equal. apply (rev_inv_done l k); [exact Hinv|lia].
  - exists 0%nat, l. split; [f_equal; lia|]. split; [|lia]. split; [reflexivity|]. split; [lia|]. intros idx Hi.
    replace ((idx <? 0) || (length l - 1 - 0 <? idx))%nat with false; [reflexivity|].
    symmetry. apply orb_false_iff. split; apply Nat.ltb_ge; lia.
  - exact Hf.
  - rewrite Hw. cbn [bind]. apply HK.
Qed.

(* the fuel the other loops of the area run on suffices *)
Corollary code_Rev s : g_Rev (S (length s)) s = Ret (rev_str s).
Proof. apply code_Rev_fuel. pose proof (runes_length_le s). lia. Qed.
