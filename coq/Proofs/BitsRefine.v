(* C16: operation-sequence refinement.  For every kind (setz.Bits, setz.Bitmap, dsz.Bits) and every operation list,
   the word-array model [run] produces exactly the outputs of the set-of-N specification [s_run].
   The abstraction relation [R] ties a [bits] (word list + cached length) to an [sset] (strictly ascending member list
   + capacity):  elems = mlist 0 words,  cached = Len (population count),  scap = 64 * number of words. *)
From Coq Require Import List ZArith NArith Lia Bool Arith ZifyN ZifyNat ZifyBool Sorted Permutation.
From V Require Import Lib.Enc Model.Bits.
From V Require Import Proofs.BitsBasic Proofs.BitsBulk Proofs.BitsIter.
Import ListNotations.
Local Open Scope N_scope.
Ltac Zify.zify_post_hook ::= Z.div_mod_to_equations.

(* ---------------------------------------------------------------- strictly ascending lists as sets *)
Lemma sorted_ext : forall l1 l2, StronglySorted N.lt l1 -> StronglySorted N.lt l2 ->
  (forall p, In p l1 <-> In p l2) -> l1 = l2.
Proof.
  induction l1 as [|a l1 IH]; intros l2 S1 S2 H.
  - destruct l2 as [|b l2]; [reflexivity|]. exfalso. apply (H b). left; reflexivity.
  - destruct l2 as [|b l2]; [exfalso; apply (H a); left; reflexivity|].
    inversion S1 as [|? ? S1' A1]; subst. inversion S2 as [|? ? S2' A2]; subst.
    rewrite Forall_forall in A1, A2.
    assert (a = b).
    { destruct (proj1 (H a) (or_introl eq_refl)) as [E|Hin]; [auto|].
      destruct (proj2 (H b) (or_introl eq_refl)) as [E|Hin2]; [auto|].
      specialize (A1 _ Hin2). specialize (A2 _ Hin). lia. }
    subst b. f_equal. apply IH; auto. intros p. split; intros Hp.
    + destruct (proj1 (H p) (or_intror Hp)) as [E|Hin]; auto. subst p. specialize (A1 _ Hp). lia.
    + destruct (proj2 (H p) (or_intror Hp)) as [E|Hin]; auto. subst p. specialize (A2 _ Hp). lia.
Qed.

Lemma s_mem_In x l : s_mem x l = true <-> In x l.
Proof.
  unfold s_mem. rewrite existsb_exists. split.
  - intros (y & Hy & E). apply N.eqb_eq in E. subst; auto.
  - intros H. exists x. split; auto. apply N.eqb_refl.
Qed.
Lemma s_mem_ext x l (b : bool) : (In x l <-> b = true) -> s_mem x l = b.
Proof. intros H. destruct b; [apply s_mem_In, H; reflexivity|]. destruct (s_mem x l) eqn:E; auto. apply s_mem_In, H in E. discriminate. Qed.

Lemma s_insert_In x l y : In y (s_insert x l) <-> y = x \/ In y l.
Proof.
  induction l as [|a l IH]; cbn [s_insert In]; [intuition|].
  destruct (N.ltb_spec x a); cbn [In]; [intuition|].
  destruct (N.eqb_spec x a); cbn [In]; [subst; intuition|]. rewrite IH. intuition.
Qed.
Lemma s_insert_sorted x l : StronglySorted N.lt l -> StronglySorted N.lt (s_insert x l).
Proof.
  induction l as [|a l IH]; intros S; cbn [s_insert]; [repeat constructor|].
  inversion S as [|? ? S' A]; subst.
  destruct (N.ltb_spec x a) as [Hlt|Hge].
  - constructor; auto. constructor; auto. eapply Forall_impl; [|exact A]. cbv beta. intros; lia.
  - destruct (N.eqb_spec x a) as [->|Hne]; auto. constructor; auto.
    apply Forall_forall. intros y Hy. apply s_insert_In in Hy. destruct Hy as [->|Hy]; [lia|].
    rewrite Forall_forall in A. auto.
Qed.
Lemma s_delete_In x l y : StronglySorted N.lt l -> (In y (s_delete x l) <-> y <> x /\ In y l).
Proof.
  induction l as [|a l IH]; intros S; cbn [s_delete In]; [intuition|].
  inversion S as [|? ? S' A]; subst. rewrite Forall_forall in A.
  destruct (N.eqb_spec x a) as [->|Hne].
  - split; [intros H; split; auto; specialize (A _ H); lia|]. intros [H1 [H2|H2]]; [congruence|auto].
  - cbn [In]. rewrite IH by auto. split; [intros [->|[H1 H2]]; auto|]. intros [H1 [H2|H2]]; auto.
Qed.
Lemma s_delete_sorted x l : StronglySorted N.lt l -> StronglySorted N.lt (s_delete x l).
Proof.
  induction l as [|a l IH]; intros S; cbn [s_delete]; [constructor|].
  inversion S as [|? ? S' A]; subst. destruct (N.eqb_spec x a); auto. constructor; auto.
  rewrite Forall_forall in *. intros y Hy. apply s_delete_In in Hy; auto. apply A. tauto.
Qed.
Lemma s_union_In : forall b a y, In y (s_union a b) <-> In y a \/ In y b.
Proof.
  unfold s_union. induction b as [|x b IH]; intros a y; cbn [fold_left In]; [tauto|].
  rewrite IH, s_insert_In. intuition.
Qed.
Lemma s_union_sorted : forall b a, StronglySorted N.lt a -> StronglySorted N.lt (s_union a b).
Proof.
  unfold s_union. induction b as [|x b IH]; intros a S; cbn [fold_left]; auto. apply IH, s_insert_sorted, S.
Qed.

(* ---------------------------------------------------------------- the member list of a word array *)
Lemma mlist_In set p : In p (mlist 0 set) <-> mem set p = true.
Proof. destruct (len_spec set) as (_ & _ & H). apply H. Qed.
Lemma mlist_sorted0 set : StronglySorted N.lt (mlist 0 set).
Proof. apply mlist_sorted. Qed.
Lemma s_mem_mlist set n : s_mem n (mlist 0 set) = mem set n.
Proof. apply s_mem_ext. apply mlist_In. Qed.
Lemma mlist_ext s1 s2 : (forall p, mem s1 p = mem s2 p) -> mlist 0 s1 = mlist 0 s2.
Proof. intros H. apply sorted_ext; auto using mlist_sorted0. intros p. rewrite !mlist_In, H. reflexivity. Qed.

(* Iter (the resumable (i, j, read) iterator drained from a fresh state) yields exactly the member list *)
Lemma enumerate_mlist set : enumerate set = mlist 0 set.
Proof.
  unfold enumerate. replace (64 * length set + 1)%nat with (length set * 64 + 1)%nat by lia.
  destruct (iter_enumerates set) as [A B]. cbv zeta in A, B.
  apply sorted_ext; auto using mlist_sorted0. intros p. rewrite A, mlist_In. reflexivity.
Qed.

(* ---------------------------------------------------------------- word counts (Cap) *)
Lemma cap_mul set : cap set = N.of_nat (length set) * 64.
Proof. unfold cap. rewrite N.shiftl_mul_pow2. reflexivity. Qed.
Lemma add_length set n : length (fst (add set n)) = Nat.max (length set) (widx n + 1).
Proof.
  unfold add. destruct (Nat.leb_spec (length set) (widx n)); cbn [fst].
  - rewrite upd_length, app_length, repeat_length. lia.
  - destruct (N.land _ _ =? 0); cbn [fst]; rewrite ?upd_length; lia.
Qed.
Lemma remove_length set n : length (fst (remove set n)) = length set.
Proof. unfold remove. destruct (_ && _); cbn [fst]; rewrite ?upd_length; reflexivity. Qed.
Lemma grow_length set n : length (grow set n) = Nat.max (length set) (widx n + 1).
Proof. unfold grow. destruct (Nat.leb_spec (length set) (widx n)); rewrite ?app_length, ?repeat_length; lia. Qed.
Lemma inter_length : forall b o, length (inter b o) = length b.
Proof. induction b as [|x b IH]; intros [|y o]; cbn [inter length]; auto. Qed.
Lemma cap_max_need len n : N.of_nat (Nat.max len (widx n + 1)) * 64 = N.max (N.of_nat len * 64) (need n).
Proof. unfold need. rewrite widx_div. lia. Qed.
Lemma grow_mem set n p : mem (grow set n) p = mem set p.
Proof. unfold grow, mem. destruct (length set <=? widx n)%nat; [rewrite nth_grow|]; reflexivity. Qed.

(* ---------------------------------------------------------------- Range / All: the double loop with early stop *)
Definition cut (k calls : nat) (l : list N) : list N := match k with O => l | _ => firstn (k - calls) l end.

Lemma range_word_spec w base k : forall js calls, (k = 0 \/ calls < k)%nat ->
  range_word js w base k calls =
    let ms := map (fun j => base + j) (filter (N.testbit w) js) in
    if (0 <? k)%nat && (k <=? calls + length ms)%nat then (firstn (k - calls) ms, k, true)
    else (ms, (calls + length ms)%nat, false).
Proof.
  induction js as [|j r IH]; intros calls Hk; cbv zeta; cbn [range_word filter map length].
  - rewrite Nat.add_0_r. destruct (Nat.ltb_spec 0 k), (Nat.leb_spec k calls); cbn [andb]; try reflexivity; lia.
  - change (N.shiftl 1 j) with (mask j). rewrite land_mask_zero, negb_involutive.
    cbv zeta in IH. set (ms := map (fun j0 => base + j0) (filter (N.testbit w) r)) in *.
    destruct (N.testbit w j) eqn:Eb; cbn [map length]; fold ms.
    + destruct (Nat.ltb_spec 0 k) as [Hk0|Hk0]; cbn [andb].
      * destruct (Nat.leb_spec k (S calls)) as [H1|H1].
        -- assert (k = S calls) by lia. subst k.
           destruct (Nat.leb_spec (S calls) (calls + S (length ms))); [|lia].
           replace (S calls - calls)%nat with 1%nat by lia. reflexivity.
        -- rewrite (IH (S calls)) by lia.
           destruct (Nat.ltb_spec 0 k); [|lia]. cbn [andb].
           replace (calls + S (length ms))%nat with (S calls + length ms)%nat by lia.
           destruct (Nat.leb_spec k (S calls + length ms)).
           ++ replace (k - calls)%nat with (S (k - S calls)) by lia. reflexivity.
           ++ reflexivity.
      * assert (k = 0%nat) by lia. subst k. rewrite (IH (S calls)) by lia. cbn [Nat.ltb Nat.leb andb].
        replace (calls + S (length ms))%nat with (S calls + length ms)%nat by lia. reflexivity.
    + apply IH, Hk.
Qed.

Lemma range_loop_spec k : forall set i calls, (k = 0 \/ calls < k)%nat -> range_loop set i k calls = cut k calls (mlist i set).
Proof.
  induction set as [|w t IH]; intros i calls Hk; cbn [range_loop mlist].
  - unfold cut. destruct k; [reflexivity|]. destruct (S k - calls)%nat; reflexivity.
  - rewrite range_word_spec by auto. cbv zeta. rewrite N.shiftl_mul_pow2. replace (i * 2 ^ 6) with (64 * i) by lia.
    set (ms := map (fun j => 64 * i + j) (filter (N.testbit w) bits64)). clearbody ms.
    destruct (Nat.ltb_spec 0 k) as [Hk0|Hk0]; cbn [andb].
    + destruct (Nat.leb_spec k (calls + length ms)) as [H1|H1].
      * unfold cut. destruct k as [|k']; [lia|]. rewrite firstn_app.
        replace (S k' - calls - length ms)%nat with 0%nat by lia. cbn [firstn]. rewrite app_nil_r. reflexivity.
      * rewrite IH by lia. unfold cut. destruct k as [|k']; [lia|]. rewrite firstn_app.
        rewrite (firstn_all2 ms) by lia. f_equal. f_equal. lia.
    + assert (k = 0%nat) by lia. subst k. rewrite IH by lia. unfold cut. reflexivity.
Qed.

Lemma enumerate_stop_mlist set k : enumerate_stop set k = match k with O => mlist 0 set | _ => firstn k (mlist 0 set) end.
Proof. unfold enumerate_stop. rewrite range_loop_spec by lia. unfold cut. destruct k; [reflexivity|]. rewrite Nat.sub_0_r. reflexivity. Qed.

(* ---------------------------------------------------------------- the abstraction relation *)
Definition R (b : bits) (s : sset) : Prop :=
  elems s = mlist 0 (words b) /\ cached b = Z.of_nat (len (words b)) /\ scap s = cap (words b).
Definition R2 (st : bits * bits) (ss : sset * sset) : Prop := R (fst st) (fst ss) /\ R (snd st) (snd ss).

Lemma R_empty : R2 (empty, empty) (s_empty, s_empty).
Proof. split; repeat split. Qed.
Lemma R_sel t st ss : R2 st ss -> R (sel t st) (sel t ss).
Proof. intros [A B]. destruct t; auto. Qed.
Lemma R_upd2 t st ss b s : R2 st ss -> R b s -> R2 (upd2 t st b) (upd2 t ss s).
Proof. intros [A B] H. destruct t; split; cbn [upd2 fst snd]; auto. Qed.

Lemma R_add b s n : R b s ->
  R (fst (b_add b n)) {| elems := s_insert n (elems s); scap := N.max (scap s) (need n) |} /\
  snd (b_add b n) = negb (s_mem n (elems s)).
Proof.
  intros (E & C & K). unfold b_add.
  pose proof (add_spec (words b) n) as [Hf Hm]. pose proof (add_len (words b) n) as Hl.
  pose proof (add_length (words b) n) as Hn.
  destruct (add (words b) n) as [w ch]. cbn [fst snd] in *. split; [|rewrite E, s_mem_mlist; exact Hf].
  split; [|split]; cbn [elems scap words cached].
  - apply sorted_ext; [apply s_insert_sorted; rewrite E; apply mlist_sorted0|apply mlist_sorted0|].
    intros p. rewrite s_insert_In, E, !mlist_In, Hm. destruct (N.eqb_spec p n) as [->|Hne]; cbn [orb]; intuition congruence.
  - rewrite Hl, C. destruct ch; lia.
  - rewrite K, !cap_mul, Hn. symmetry. apply cap_max_need.
Qed.

Lemma R_remove b s n : R b s ->
  R (fst (b_remove b n)) {| elems := s_delete n (elems s); scap := scap s |} /\
  snd (b_remove b n) = s_mem n (elems s).
Proof.
  intros (E & C & K). unfold b_remove.
  pose proof (remove_spec (words b) n) as [Hf Hm]. pose proof (remove_len (words b) n) as Hl.
  pose proof (remove_length (words b) n) as Hn.
  destruct (remove (words b) n) as [w ch]. cbn [fst snd] in *. split; [|rewrite E, s_mem_mlist; exact Hf].
  split; [|split]; cbn [elems scap words cached].
  - apply sorted_ext; [apply s_delete_sorted; rewrite E; apply mlist_sorted0|apply mlist_sorted0|].
    intros p. rewrite s_delete_In by (rewrite E; apply mlist_sorted0). rewrite E, !mlist_In, Hm.
    destruct (N.eqb_spec p n) as [->|Hne]; cbn [negb andb]; intuition congruence.
  - rewrite <- Hl in C. rewrite C. destruct ch; lia.
  - rewrite K, !cap_mul, Hn. reflexivity.
Qed.

Lemma R_grow b s n : R b s ->
  R {| words := grow (words b) n; cached := cached b |} {| elems := elems s; scap := N.max (scap s) (need n) |}.
Proof.
  intros (E & C & K). split; [|split]; cbn [elems scap words cached].
  - rewrite E. apply mlist_ext. intros p. symmetry. apply grow_mem.
  - rewrite C. f_equal. apply len_ext. intros p. symmetry. apply grow_mem.
  - rewrite K, !cap_mul, grow_length. symmetry. apply cap_max_need.
Qed.

Lemma filter_sorted_In (f : N -> bool) l : StronglySorted N.lt l ->
  StronglySorted N.lt (filter f l) /\ forall p, In p (filter f l) <-> In p l /\ f p = true.
Proof. intros S. split; [apply sorted_filter, S|]. intros p. apply filter_In. Qed.

Lemma R_diff b s b' s' : R b s -> R b' s' ->
  R (recount (diff (words b) (words b'))) {| elems := s_diff (elems s) (elems s'); scap := scap s |}.
Proof.
  intros (E & C & K) (E' & _ & _). split; [|split]; cbn [elems scap words cached recount]; [|reflexivity|].
  - unfold s_diff. destruct (filter_sorted_In (fun x => negb (s_mem x (elems s'))) (elems s)) as [S I]; [rewrite E; apply mlist_sorted0|].
    apply sorted_ext; auto using mlist_sorted0. intros p. rewrite I, E, E', s_mem_mlist, !mlist_In, diff_spec.
    destruct (mem (words b) p), (mem (words b') p); cbn; intuition congruence.
  - rewrite K, !cap_mul, diff_length. reflexivity.
Qed.
Lemma R_inter b s b' s' : R b s -> R b' s' ->
  R (recount (inter (words b) (words b'))) {| elems := s_inter (elems s) (elems s'); scap := scap s |}.
Proof.
  intros (E & C & K) (E' & _ & _). split; [|split]; cbn [elems scap words cached recount]; [|reflexivity|].
  - unfold s_inter. destruct (filter_sorted_In (fun x => s_mem x (elems s')) (elems s)) as [S I]; [rewrite E; apply mlist_sorted0|].
    apply sorted_ext; auto using mlist_sorted0. intros p. rewrite I, E, E', s_mem_mlist, !mlist_In, inter_spec.
    destruct (mem (words b) p), (mem (words b') p); cbn; intuition congruence.
  - rewrite K, !cap_mul, inter_length. reflexivity.
Qed.
Lemma R_merge b s b' s' : R b s -> R b' s' ->
  R (recount (merge (words b) (words b'))) {| elems := s_union (elems s) (elems s'); scap := N.max (scap s) (scap s') |}.
Proof.
  intros (E & C & K) (E' & _ & K'). split; [|split]; cbn [elems scap words cached recount]; [|reflexivity|].
  - apply sorted_ext; [apply s_union_sorted; rewrite E; apply mlist_sorted0|apply mlist_sorted0|].
    intros p. rewrite s_union_In, E, E', !mlist_In, merge_spec.
    destruct (mem (words b) p), (mem (words b') p); cbn; intuition congruence.
  - rewrite K, K', !cap_mul, merge_length. lia.
Qed.

(* ---------------------------------------------------------------- one step, then every sequence *)
Lemma step_refines k st ss o : R2 st ss ->
  R2 (fst (step k st o)) (fst (s_step k ss o)) /\ snd (step k st o) = snd (s_step k ss o).
Proof.
  intros H. destruct o as [t n|t n|t n|t|t|t n|t|t c|t c|t|t|t|t]; cbn [step s_step].
  - pose proof (R_add _ _ n (R_sel t _ _ H)) as [A B]. destruct (b_add (sel t st) n) as [b ch]. cbn [fst snd] in *.
    split; [apply R_upd2; auto|]. rewrite B. reflexivity.
  - pose proof (R_remove _ _ n (R_sel t _ _ H)) as [A B]. destruct (b_remove (sel t st) n) as [b ch]. cbn [fst snd] in *.
    split; [apply R_upd2; auto|]. rewrite B. reflexivity.
  - split; auto. cbn [snd]. destruct (R_sel t _ _ H) as (E & _ & _). rewrite E, s_mem_mlist, contains_mem. reflexivity.
  - split; auto. cbn [snd]. destruct (R_sel t _ _ H) as (E & C & _). rewrite E, mlist_length.
    destruct k; cbn [len_of]; rewrite ?C; reflexivity.
  - split; auto. cbn [snd]. destruct (R_sel t _ _ H) as (_ & _ & K). rewrite K. reflexivity.
  - split; [|reflexivity]. cbn [fst]. apply R_upd2; auto. apply R_grow, R_sel, H.
  - split; auto. cbn [snd]. destruct (R_sel t _ _ H) as (E & _ & _). rewrite E, enumerate_mlist. reflexivity.
  - split; auto. cbn [snd]. destruct (R_sel t _ _ H) as (E & _ & _). rewrite E, enumerate_stop_mlist. reflexivity.
  - split; auto. cbn [snd]. destruct (R_sel t _ _ H) as (E & _ & _). rewrite E, enumerate_stop_mlist. reflexivity.
  - split; [|reflexivity]. cbn [fst]. apply R_upd2; auto. apply R_diff; apply R_sel, H.
  - split; [|reflexivity]. cbn [fst]. apply R_upd2; auto. apply R_inter; apply R_sel, H.
  - split; [|reflexivity]. cbn [fst]. apply R_upd2; auto. apply R_merge; apply R_sel, H.
  - split; [|reflexivity]. cbn [fst]. apply R_upd2; auto. apply R_sel, H.
Qed.

Lemma run_refines k : forall ops st ss, R2 st ss -> run k st ops = s_run k ss ops.
Proof.
  induction ops as [|o r IH]; intros st ss H; cbn [run s_run]; [reflexivity|].
  destruct (step_refines k st ss o H) as [A B].
  destruct (step k st o) as [st' out]. destruct (s_step k ss o) as [ss' out']. cbn [fst snd] in *.
  rewrite B. f_equal. apply IH, A.
Qed.

(* C16: for every kind and every operation sequence from two empty sets, model output = set-specification output *)
Theorem bits_refines_set k ops : run k (empty, empty) ops = s_run k (s_empty, s_empty) ops.
Proof. apply run_refines, R_empty. Qed.

(* Grow and Cap never change membership (and Cap is a pure observer) *)
Theorem grow_cap_neutral set n : (forall p, mem (grow set n) p = mem set p) /\ len (grow set n) = len set /\
  cap (grow set n) = N.max (cap set) (need n).
Proof.
  split; [intros p; apply grow_mem|]. split; [apply len_ext; intros p; apply grow_mem|].
  rewrite !cap_mul, grow_length. apply cap_max_need.
Qed.

(* Range / All with a callback that stops at its k-th call yield the first k members (k = 0: all of them),
   and Iter yields the same list as an uninterrupted Range *)
Theorem range_all_spec set k :
  enumerate_stop set k = match k with O => enumerate set | _ => firstn k (enumerate set) end.
Proof. rewrite enumerate_mlist. apply enumerate_stop_mlist. Qed.
Print Assumptions bits_refines_set.
