(* C05 — BuildFailureLinks of the executable model (Model.Trie.build: node table, ring queue, fuelled loops) refines the
   abstract breadth-first construction of Proofs/TrieAbs.v: on every well-formed table without fail links it terminates
   within its fuel and sets the fail link of every non-root node to its longest proper suffix that is a trie word;
   children, sizes, end flags and keys are unchanged. *)
From Coq Require Import List ZArith Lia Bool Arith FinFun.
From V Require Import Gen.Trie Model.Trie Proofs.TrieTable Proofs.TrieInsert Proofs.TrieQueue Proofs.TrieAbs.
Import ListNotations.

Module M := V.Model.Trie.
Module A := V.Proofs.TrieAbs.

Lemma nodup_app_words (a b : list word) : NoDup a -> NoDup b -> (forall x, In x a -> In x b -> False) -> NoDup (a ++ b).
Proof.
  induction a as [|x a IH]; intros Ha Hb Hd; cbn [app]; auto. inversion Ha; subst. constructor.
  - intros Hin. apply in_app_or in Hin. destruct Hin as [Hin|Hin]; [contradiction|]. apply (Hd x); auto. left; auto.
  - apply IH; auto. intros y Hy1 Hy2. apply (Hd y); auto. right; auto.
Qed.

Lemma getF_app F1 F2 w : A.getF (F1 ++ F2) w = match A.getF F1 w with Some v => Some v | None => A.getF F2 w end.
Proof. induction F1 as [|[k v] F1 IH]; cbn [app A.getF]; [reflexivity|]. destruct (A.word_eq_dec k w); [reflexivity|exact IH]. Qed.

Section Build.
Variable T0 : trie.
Hypothesis HW : WF T0.
(* only the root's fail link has to be nil before the build: stale links of other nodes (a rebuild) are never read *)
Hypothesis Hroot0 : fail_of T0 [] = None.

Definition inT0 (w : word) : bool := inT T0 w.
Definition kids0 (w : word) : list Z := kids_of T0 w.
Lemma inT_nil : inT0 [] = true.
Proof. exact (wf_root T0 HW). Qed.
Lemma inT_prefix : forall w c, inT0 (w ++ [c]) = true -> inT0 w = true.
Proof. exact (wf_prefix T0 HW). Qed.
Lemma kids_spec : forall w c, In c (kids0 w) <-> inT0 (w ++ [c]) = true.
Proof. exact (wf_kids T0 HW). Qed.

Notation lps := (A.lps inT0).

(* only fail links differ from T0 *)
Definition SE (T : trie) : Prop :=
  forall w, option_map (fun n => (kids n, nsize n, isEnd n)) (get T w) = option_map (fun n => (kids n, nsize n, isEnd n)) (get T0 w).
Definition R (T : trie) (F : A.fmap) : Prop :=
  fail_of T [] = None /\ forall w u, A.getF F w = Some u -> fail_of T w = Some u.

Lemma SE_refl : SE T0.
Proof. intros w. reflexivity. Qed.
Lemma SE_kids T w : SE T -> kids_of T w = kids0 w.
Proof. intros H. specialize (H w). unfold kids0, kids_of. destruct (get T w), (get T0 w); cbn in H; congruence. Qed.
Lemma SE_inT T w : SE T -> inT T w = inT0 w.
Proof. intros H. specialize (H w). unfold inT0, inT. destruct (get T w), (get T0 w); cbn in H; congruence. Qed.
Lemma SE_size T w : SE T -> size_of T w = size_of T0 w.
Proof. intros H. specialize (H w). unfold size_of. destruct (get T w), (get T0 w); cbn in H; congruence. Qed.
Lemma SE_end T w : SE T -> is_end T w = is_end T0 w.
Proof. intros H. specialize (H w). unfold is_end. destruct (get T w), (get T0 w); cbn in H; congruence. Qed.
Lemma SE_set_fail T w f : SE T -> SE (set_fail T w f).
Proof.
  intros H v. unfold set_fail. rewrite get_upd. destruct (weqb w v); [|apply H].
  rewrite <- (H v). destruct (get T v); reflexivity.
Qed.
Lemma fail_set_fail T w f v : fail_of (set_fail T w f) v = if weqb w v then (if inT T v then Some f else None) else fail_of T v.
Proof.
  unfold fail_of, set_fail, inT. rewrite get_upd. destruct (weqb w v); [|reflexivity]. destruct (get T v); reflexivity.
Qed.
Lemma set_fail_length T w f : length (set_fail T w f) = length T.
Proof. apply upd_length. Qed.

(* ---- the inner loop ---- *)
Lemma chain_ok T F c : SE T -> R T F -> A.getF F [] = None -> forall fuel u,
  (forall x, x <> [] -> inT0 x = true -> length x <= length u -> A.getF F x = Some (lps x)) ->
  inT0 u = true -> length u + 2 <= fuel ->
  M.chain_find fuel T (Some u) c = Some (A.chain_find inT0 fuel F (Some u) c).
Proof.
  intros HS [HR0 HR] Hroot. induction fuel as [|k IH]; intros u HF Hu Hf; [lia|].
  cbn [M.chain_find A.chain_find]. rewrite (SE_kids T u HS).
  destruct (0 <=? index (kids0 u) c)%Z eqn:E.
  - apply (index_iff _ _ (wf_sorted T0 HW u)) in E as Hin.
    assert (Ez : (0 <= index (kids0 u) c)%Z) by (apply Z.leb_le; exact E).
    destruct (index_found _ _ (wf_sorted T0 HW u) Ez) as [_ En]. unfold kids0 in *. rewrite En.
    apply kids_spec in Hin. unfold inT0 in *. rewrite Hin. reflexivity.
  - assert (Hn : inT0 (u ++ [c]) = false).
    { destruct (inT0 (u ++ [c])) eqn:E2; [|reflexivity]. apply kids_spec in E2.
      apply (index_iff _ _ (wf_sorted T0 HW u)) in E2. unfold kids0 in E. congruence. }
    rewrite Hn. destruct u as [|a t].
    + rewrite HR0, Hroot. destruct k; [cbn in Hf; lia|]. reflexivity.
    + rewrite (HR (a :: t) (lps (a :: t))) by (apply HF; auto; discriminate).
      rewrite (HF (a :: t)) by (auto; discriminate). pose proof (A.lps_shorter inT0 a t) as Hs. apply IH.
      * intros x Hx HT Hl. apply HF; auto. cbn [length]. lia.
      * apply A.lps_inT; [exact inT_nil|discriminate].
      * cbn [length] in Hf. lia.
Qed.

Lemma chain_value a t F T c cfuel : SE T -> R T F -> A.Hyp inT0 (a :: t) F -> length (a :: t) + 1 <= cfuel ->
  M.chain_find cfuel T (fail_of T (a :: t)) c = Some (lps ((a :: t) ++ [c])).
Proof.
  intros HS HR HH Hf. pose proof HH as (H1 & H2 & H3). rewrite (proj2 HR (a :: t) _ H2).
  pose proof (A.lps_shorter inT0 a t) as Hs. set (u := lps (a :: t)) in *.
  assert (HF : forall x, x <> [] -> inT0 x = true -> length x <= length u -> A.getF F x = Some (lps x))
    by (intros x Hx HT Hl; apply H3; auto; cbn [length]; lia).
  assert (Hu : inT0 u = true) by (apply A.lps_inT; [exact inT_nil|discriminate]).
  rewrite (chain_ok T F c HS HR H1 cfuel u HF Hu) by (cbn [length] in Hf; lia). f_equal.
  rewrite (A.chain_find_cf inT0 inT_nil F c H1 cfuel u HF Hu).
  rewrite (A.cf_best inT0 inT_nil inT_prefix c cfuel u) by (cbn [length] in Hf; lia).
  rewrite (A.lps_snoc inT0 inT_nil inT_prefix a t c (S (length u))) by (unfold u; lia). fold u.
  rewrite (A.cf_best inT0 inT_nil inT_prefix c (S (length u)) u) by lia. reflexivity.
Qed.

(* ---- one popped node: all its children ---- *)
Lemma process_sim a t cfuel : length (a :: t) + 1 <= cfuel -> forall cs T F q l,
  SE T -> R T F -> A.Hyp inT0 (a :: t) F -> Inv q l -> (forall c, In c cs -> In c (kids0 (a :: t))) ->
  exists T' q', M.process cfuel T q (a :: t) cs = Some (T', q') /\ SE T' /\
    R T' (fold_left (A.assign inT0 (a :: t)) cs F) /\ Inv q' (l ++ map (fun c => (a :: t) ++ [c]) cs) /\ length T' = length T.
Proof.
  intros Hf. induction cs as [|c cs IH]; intros T F q l HS HR HH HI Hcs; cbn [M.process fold_left map].
  - exists T, q. rewrite app_nil_r. auto.
  - rewrite (chain_value a t F T c cfuel HS HR HH Hf).
    set (v := lps ((a :: t) ++ [c])). set (x := (a :: t) ++ [c]).
    assert (Hx : inT0 x = true) by (apply kids_spec; apply Hcs; left; reflexivity).
    destruct (IH (set_fail T x v) (A.assign inT0 (a :: t) F c) (q_push q x) (l ++ [x])) as (T' & q' & E & S' & R' & I' & L').
    + apply SE_set_fail. exact HS.
    + destruct HR as [HR0 HR]. split.
      * rewrite fail_set_fail. change (weqb x []) with false. exact HR0.
      * intros w u0 Hg. rewrite fail_set_fail. destruct (weqb x w) eqn:Ew.
        -- apply weqb_eq in Ew. subst w. rewrite (SE_inT T x HS), Hx. unfold x in Hg. rewrite A.getF_assign_eq in Hg.
           rewrite (A.assign_value inT0 inT_nil inT_prefix a t F c HH) in Hg. exact Hg.
        -- rewrite A.getF_assign in Hg; [apply HR; exact Hg|]. intros Ec. fold x in Ec. subst w. rewrite weqb_refl in Ew. discriminate.
    + apply A.Hyp_assign. exact HH.
    + apply push_spec. exact HI.
    + intros c' Hc'. apply Hcs. right. exact Hc'.
    + exists T', q'. split; [exact E|]. split; [exact S'|]. split; [exact R'|]. split.
      * rewrite <- app_assoc in I'. exact I'.
      * rewrite L'. apply set_fail_length.
Qed.

(* ---- the outer loop ---- *)
(* bookkeeping for termination: every word enters the queue once *)
Record Extra (done queue : list word) : Prop := {
  e_nodup : NoDup (done ++ queue);
  e_done : forall x, In x done -> inT0 x = true /\ x <> [];
  e_parent : forall x, In x (done ++ queue) -> length x = 1 \/ exists p c, x = p ++ [c] /\ In p done
}.

Lemma kids0_nodup w : NoDup (kids0 w).
Proof.
  pose proof (wf_sorted T0 HW w) as Hs. fold (kids0 w) in Hs. apply (NoDup_nth _ 0%Z). intros i j Hi Hj E.
  destruct (Nat.lt_trichotomy i j) as [H|[H|H]]; [|exact H|].
  - specialize (Hs i j H Hj). lia.
  - specialize (Hs j i H Hi). lia.
Qed.
Lemma children_nodup w : NoDup (A.children kids0 w).
Proof.
  unfold A.children. apply Injective_map_NoDup; [|apply kids0_nodup].
  intros x y E. apply app_inj_tail in E. apply E.
Qed.

Lemma queue_inT done queue F : A.BInv inT0 kids0 done queue F -> forall x, In x queue -> inT0 x = true /\ x <> [].
Proof.
  intros HB x Hx. pose proof (A.b_queue _ _ _ _ _ HB x Hx) as Ha. unfold A.assigned in Ha.
  destruct (A.getF F x) as [u|] eqn:E; [|congruence]. destruct (A.b_ok _ _ _ _ _ HB _ _ E) as (_ & H1 & H2). auto.
Qed.

Lemma Extra_step done curr rest F : A.BInv inT0 kids0 done (curr :: rest) F -> Extra done (curr :: rest) ->
  Extra (curr :: done) (rest ++ A.children kids0 curr).
Proof.
  intros HB [N D P]. destruct (queue_inT _ _ _ HB curr (or_introl eq_refl)) as [Hc Hne].
  assert (Hcnd : ~ In curr done) by (apply NoDup_remove_2 in N; intros H; apply N; apply in_or_app; left; exact H).
  assert (Hnew : forall x, In x (A.children kids0 curr) -> ~ In x (done ++ curr :: rest)).
  { intros x Hx Hin. apply A.in_children in Hx. destruct Hx as (c & Hc' & ->).
    destruct (P _ Hin) as [Hl|(p & c' & E & Hp)].
    - rewrite app_length in Hl. cbn in Hl. destruct curr; [congruence|cbn in Hl; lia].
    - apply app_inj_tail in E. destruct E as [<- _]. contradiction. }
  constructor.
  - (* NoDup (curr :: done ++ rest ++ children) *)
    cbn [app]. apply NoDup_remove_1 in N as N1. constructor.
    + rewrite !in_app_iff. intros [H|[H|H]].
      * contradiction.
      * apply NoDup_remove_2 in N. apply N. apply in_or_app. right. exact H.
      * apply A.children_length in H. lia.
    + rewrite app_assoc. apply nodup_app_words; [exact N1|apply children_nodup|].
      intros x H1 H2. apply (Hnew x H2). apply in_app_or in H1. apply in_or_app. destruct H1; [left|right; right]; auto.
  - intros x [<-|Hx]; [auto|apply D; exact Hx].
  - intros x Hx. cbn [app] in Hx. destruct Hx as [<-|Hx].
    + destruct (P curr) as [H|(p & c & E & Hp)]; [apply in_or_app; right; left; reflexivity|left; exact H|].
      right. exists p, c. split; [exact E|right; exact Hp].
    + rewrite app_assoc in Hx. apply in_app_or in Hx. destruct Hx as [Hx|Hx].
      * destruct (P x) as [H|(p & c & E & Hp)].
        -- apply in_app_or in Hx. apply in_or_app. destruct Hx; [left|right; right]; auto.
        -- left; exact H.
        -- right. exists p, c. split; [exact E|right; exact Hp].
      * apply A.in_children in Hx. destruct Hx as (c & _ & ->). right. exists curr, c. split; [reflexivity|left; reflexivity].
Qed.

Lemma Extra_bound done queue F : A.BInv inT0 kids0 done queue F -> Extra done queue -> length done + length queue + 1 <= length T0.
Proof.
  intros HB [N D P].
  assert (Hin : incl ([] :: done ++ queue) (map fst T0)).
  { intros x [<-|Hx]; [apply inT_keys; exact inT_nil|]. apply inT_keys. apply in_app_or in Hx. destruct Hx as [Hx|Hx].
    - apply D. exact Hx.
    - apply (queue_inT _ _ _ HB x Hx). }
  assert (Hnd : NoDup ([] :: done ++ queue)).
  { constructor; [|exact N]. intros Hx. apply in_app_or in Hx. destruct Hx as [Hx|Hx].
    - destruct (D _ Hx) as [_ H]. congruence.
    - destruct (queue_inT _ _ _ HB _ Hx) as [_ H]. congruence. }
  pose proof (NoDup_incl_length Hnd Hin) as Hl. cbn [length] in Hl. rewrite app_length, map_length in Hl. lia.
Qed.

Definition FailOK (T : trie) : Prop := forall v, inT0 v = true -> v <> [] -> fail_of T v = Some (lps v).

Lemma bfs_sim : forall fuel T q done l F,
  SE T -> R T F -> A.BInv inT0 kids0 done l F -> Inv q l -> Extra done l -> length T0 <= fuel + length done ->
  exists T', M.bfs fuel T q = Some T' /\ SE T' /\ FailOK T' /\ length T' = length T /\ fail_of T' [] = None.
Proof.
  induction fuel as [|k IH]; intros T q done l F HS HR HB HI HE Hf.
  - pose proof (Extra_bound _ _ _ HB HE). lia.
  - cbn [M.bfs]. pose proof (pop_spec q l HI) as Hp. destruct l as [|curr rest].
    + rewrite Hp. exists T. split; [reflexivity|]. split; [exact HS|]. split; [|split; [reflexivity|exact (proj1 HR)]].
      intros v HT Hne. destruct (A.getF F v) as [u|] eqn:Ev.
      * rewrite (proj2 HR v u Ev). destruct (A.b_ok _ _ _ _ _ HB _ _ Ev) as (-> & _ & _). reflexivity.
      * exfalso. assert (Hun : ~ A.assigned F v) by (unfold A.assigned; intros H; apply H; exact Ev).
        destruct (A.unassigned_behind inT0 kids0 inT_prefix kids_spec _ _ _ HB (length v) v (le_n _) HT Hne Hun) as (x & [] & _).
    + destruct Hp as [Hp1 Hp2]. destruct (q_pop q) as [q' o]. cbn [fst snd] in Hp1, Hp2. subst o.
      destruct (A.BInv_Hyp inT0 kids0 inT_prefix kids_spec _ _ _ _ HB) as (HH & HTc & Hne).
      destruct curr as [|a t]; [congruence|].
      rewrite (SE_kids T (a :: t) HS).
      destruct (process_sim a t (S (length (a :: t))) ltac:(lia) (kids0 (a :: t)) T F q' rest HS HR HH Hp2 ltac:(auto))
        as (T' & q'' & E & S' & R' & I' & L').
      rewrite E.
      destruct (IH T' q'' ((a :: t) :: done) (rest ++ A.children kids0 (a :: t)) (A.process inT0 kids0 F (a :: t))) as (T'' & E2 & S2 & F2 & L2 & Z2).
      * exact S'.
      * exact R'.
      * apply (A.bfs_step inT0 kids0 inT_nil inT_prefix kids_spec). exact HB.
      * exact I'.
      * apply (Extra_step _ _ _ F); auto.
      * cbn [length]. lia.
      * exists T''. split; [exact E2|]. split; [exact S2|]. split; [exact F2|]. split; [rewrite L2; exact L'|exact Z2].
Qed.

(* ---- the initial loop over the root's children ---- *)
Lemma init_sim : forall cs T q l F,
  SE T -> R T F -> Inv q l -> (forall c, In c cs -> inT0 [c] = true) -> NoDup cs -> (forall c, In c cs -> A.getF F [c] = None) ->
  let st := fold_left (fun (st : trie * queue) c => (set_fail (fst st) [c] [], q_push (snd st) [c])) cs (T, q) in
  SE (fst st) /\ R (fst st) (map (fun w => (w, [])) (map (fun c => [c]) cs) ++ F) /\ Inv (snd st) (l ++ map (fun c => [c]) cs) /\
  length (fst st) = length T.
Proof.
  induction cs as [|c cs IH]; intros T q l F HS HR HI Hin Hnd Hun; cbn [fold_left map app fst snd].
  - rewrite app_nil_r. auto.
  - inversion Hnd as [|? ? Hc Hnd']; subst.
    destruct (IH (set_fail T [c] []) (q_push q [c]) (l ++ [[c]]) (([c], []) :: F)) as (S' & R' & I' & L').
    + apply SE_set_fail. exact HS.
    + destruct HR as [HR0 HR]. split.
      * rewrite fail_set_fail. cbn [weqb]. exact HR0.
      * intros w u Hg. rewrite fail_set_fail. cbn [A.getF] in Hg. destruct (A.word_eq_dec [c] w) as [<-|Hne].
        -- rewrite weqb_refl, (SE_inT T [c] HS), (Hin c (or_introl eq_refl)). exact Hg.
        -- rewrite (weqb_neq _ _ Hne). apply HR. exact Hg.
    + apply push_spec. exact HI.
    + intros c' Hc'. apply Hin. right. exact Hc'.
    + exact Hnd'.
    + intros c' Hc'. cbn [A.getF]. destruct (A.word_eq_dec [c] [c']) as [E|_]; [inversion E; subst; contradiction|].
      apply Hun. right. exact Hc'.
    + split; [exact S'|]. split; [|split; [rewrite <- app_assoc in I'; exact I'|rewrite L'; apply set_fail_length]].
      destruct R' as [R0' R']. split; [exact R0'|]. intros w u Hg. apply R'. rewrite <- Hg.
      cbn [A.getF]. rewrite !getF_app. cbn [A.getF]. rewrite A.getF_map0.
      destruct (A.word_eq_dec [c] w); destruct (in_dec A.word_eq_dec w (map (fun c0 : Z => [c0]) cs)); reflexivity.
Qed.

Lemma q_init_Inv : Inv q_init [].
Proof.
  unfold Inv, q_init. cbn [qnodes qhd qtl qcp length]. change (Z.to_nat queue_init_cap) with 10. rewrite repeat_length.
  repeat split; try lia.
Qed.

Theorem build_correct_gen : exists T', M.build T0 = Some T' /\ SE T' /\ FailOK T' /\ length T' = length T0 /\ fail_of T' [] = None.
Proof.
  unfold M.build, M.init_links. fold (kids0 []).
  pose proof (init_sim (kids0 []) T0 q_init [] [] SE_refl) as HI.
  destruct HI as (S1 & R1 & I1 & L1).
  - split; [exact Hroot0|intros w u Hg; discriminate Hg].
  - exact q_init_Inv.
  - intros c Hc. apply kids_spec in Hc. exact Hc.
  - apply kids0_nodup.
  - reflexivity.
  - destruct (fold_left _ (kids0 []) (T0, q_init)) as [T1 q1]. cbn [fst snd] in *. rewrite app_nil_r in R1.
    change (map (fun c => [c]) (kids0 [])) with (A.children kids0 []) in R1, I1. cbn [app] in I1.
    destruct (bfs_sim (S (length T0)) T1 q1 [] (A.children kids0 []) (map (fun w => (w, [])) (A.children kids0 [])))
      as (T' & E & S' & F' & L' & Z').
    + exact S1.
    + exact R1.
    + apply A.init_BInv; [exact inT_nil|exact kids_spec].
    + exact I1.
    + constructor.
      * cbn [app]. apply children_nodup.
      * intros x [].
      * intros x Hx. cbn [app] in Hx. left. apply A.children_length in Hx. exact Hx.
    + cbn [length]. lia.
    + exists T'. split; [exact E|]. split; [exact S'|]. split; [exact F'|]. split; [rewrite L'; exact L1|exact Z'].
Qed.
End Build.

(* the first build: no node has a fail link yet *)
Theorem build_correct (T0 : trie) (HW : WF T0) (Hnofail : forall w, fail_of T0 w = None) :
  exists T', M.build T0 = Some T' /\ SE T0 T' /\ FailOK T0 T' /\ length T' = length T0.
Proof. destruct (build_correct_gen T0 HW (Hnofail [])) as (T' & E & S' & F' & L' & _). exists T'. auto. Qed.

(* ---- every pattern set ---- *)
Theorem build_inserts_correct (ps : list (list Z)) :
  let T0 := inserts ps in
  exists T', M.build T0 = Some T' /\
    (forall v, inT T0 v = true -> v <> [] -> fail_of T' v = Some (A.lps (inT T0) v)) /\
    (forall w, kids_of T' w = kids_of T0 w /\ size_of T' w = size_of T0 w /\ is_end T' w = is_end T0 w /\ inT T' w = inT T0 w) /\
    length T' = length T0.
Proof.
  cbv zeta. pose proof (INS_inserts ps) as HI.
  destruct (build_correct (inserts ps) (ins_wf _ _ HI) (ins_fail _ _ HI)) as (T' & E & S' & F' & L').
  exists T'. split; [exact E|]. split; [exact F'|]. split; [|exact L'].
  intros w. split; [apply (SE_kids (inserts ps) T' w S')|]. split; [apply (SE_size (inserts ps) T' w S')|].
  split; [apply (SE_end (inserts ps) T' w S')|apply (SE_inT (inserts ps) T' w S')].
Qed.
