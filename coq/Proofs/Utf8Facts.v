From V Require Import Lib.Utf8.
From Coq Require Import List ZArith Lia Bool.
Import ListNotations.
Local Open Scope Z_scope.
Arguments Z.mul : simpl never.
Arguments Z.add : simpl never.
Arguments Z.sub : simpl never.
Arguments Z.div : simpl never.
Arguments Z.modulo : simpl never.

Ltac arith := Z.div_mod_to_equations; lia.

Theorem decode_encode r t : valid_scalar r -> decode (encode r ++ t) = (r, length (encode r)).
Proof.
  intros Hv. unfold encode.
  destruct (Z.ltb_spec r 128) as [H1|H1].
  - cbn [app decode]. destruct (Z.ltb_spec r 128); [reflexivity|lia].
  - destruct (Z.ltb_spec r 2048) as [H2|H2].
    + cbn [app decode length]. 
      assert (B0 : 194 <= 192 + r / 64 <= 223) by arith.
      assert (B1 : 128 <= 128 + r mod 64 <= 191) by arith.
      destruct (Z.ltb_spec (192 + r / 64) 128); [lia|].
      unfold inr, cont.
      destruct (Z.leb_spec 194 (192 + r / 64)); [|lia]. destruct (Z.leb_spec (192 + r / 64) 223); [|lia]. cbn [andb].
      destruct (Z.leb_spec 128 (128 + r mod 64)); [|lia]. destruct (Z.leb_spec (128 + r mod 64) 191); [|lia]. cbn [andb].
      f_equal. arith.
    + destruct (Z.ltb_spec r 65536) as [H3|H3].
      * cbn [app decode length].
        assert (B0 : 224 <= 224 + r / 4096 <= 239) by arith.
        assert (B1 : 128 <= 128 + (r / 64) mod 64 <= 191) by arith.
        assert (B2 : 128 <= 128 + r mod 64 <= 191) by arith.
        destruct (Z.ltb_spec (224 + r / 4096) 128); [lia|].
        unfold inr, cont.
        destruct (Z.leb_spec 194 (224 + r / 4096)); [|lia]. destruct (Z.leb_spec (224 + r / 4096) 223); [lia|]. cbn [andb].
        destruct (Z.leb_spec 224 (224 + r / 4096)); [|lia]. destruct (Z.leb_spec (224 + r / 4096) 239); [|lia]. cbn [andb].
        assert (L : (if 224 + r / 4096 =? 224 then 160 else 128) <= 128 + (r / 64) mod 64).
        { destruct (Z.eqb_spec (224 + r / 4096) 224); [|lia]. arith. }
        assert (U : 128 + (r / 64) mod 64 <= (if 224 + r / 4096 =? 237 then 159 else 191)).
        { destruct (Z.eqb_spec (224 + r / 4096) 237); [|lia]. destruct Hv; arith. }
        destruct (Z.leb_spec (if 224 + r / 4096 =? 224 then 160 else 128) (128 + (r / 64) mod 64)); [|lia].
        destruct (Z.leb_spec (128 + (r / 64) mod 64) (if 224 + r / 4096 =? 237 then 159 else 191)); [|lia]. cbn [andb].
        destruct (Z.leb_spec 128 (128 + r mod 64)); [|lia]. destruct (Z.leb_spec (128 + r mod 64) 191); [|lia]. cbn [andb].
        f_equal. arith.
      * cbn [app decode length].
        assert (Hr : r <= 1114111) by (destruct Hv; lia).
        assert (B0 : 240 <= 240 + r / 262144 <= 244) by arith.
        assert (B1 : 128 <= 128 + (r / 4096) mod 64 <= 191) by arith.
        assert (B2 : 128 <= 128 + (r / 64) mod 64 <= 191) by arith.
        assert (B3 : 128 <= 128 + r mod 64 <= 191) by arith.
        destruct (Z.ltb_spec (240 + r / 262144) 128); [lia|].
        unfold inr, cont.
        destruct (Z.leb_spec 194 (240 + r / 262144)); [|lia]. destruct (Z.leb_spec (240 + r / 262144) 223); [lia|]. cbn [andb].
        destruct (Z.leb_spec 224 (240 + r / 262144)); [|lia]. destruct (Z.leb_spec (240 + r / 262144) 239); [lia|]. cbn [andb].
        destruct (Z.leb_spec 240 (240 + r / 262144)); [|lia]. destruct (Z.leb_spec (240 + r / 262144) 244); [|lia]. cbn [andb].
        assert (L : (if 240 + r / 262144 =? 240 then 144 else 128) <= 128 + (r / 4096) mod 64).
        { destruct (Z.eqb_spec (240 + r / 262144) 240); [|lia]. arith. }
        assert (U : 128 + (r / 4096) mod 64 <= (if 240 + r / 262144 =? 244 then 143 else 191)).
        { destruct (Z.eqb_spec (240 + r / 262144) 244); [|lia]. arith. }
        destruct (Z.leb_spec (if 240 + r / 262144 =? 240 then 144 else 128) (128 + (r / 4096) mod 64)); [|lia].
        destruct (Z.leb_spec (128 + (r / 4096) mod 64) (if 240 + r / 262144 =? 244 then 143 else 191)); [|lia]. cbn [andb].
        destruct (Z.leb_spec 128 (128 + (r / 64) mod 64)); [|lia]. destruct (Z.leb_spec (128 + (r / 64) mod 64) 191); [|lia]. cbn [andb].
        destruct (Z.leb_spec 128 (128 + r mod 64)); [|lia]. destruct (Z.leb_spec (128 + r mod 64) 191); [|lia]. cbn [andb].
        f_equal. arith.
Qed.

(* decoding always consumes at least one byte of non-empty input and at most four: cursors always advance *)
Lemma decode_width s : s <> [] -> (1 <= snd (decode s) <= 4)%nat /\ (snd (decode s) <= length s)%nat.
Proof.
  intros Hs. destruct s as [|b0 t]; [congruence|]. cbn [decode].
  destruct (b0 <? 128); [cbn; lia|].
  destruct (inr 194 223 b0).
  - destruct t as [|b1 t]; [cbn; lia|]. destruct (cont b1); cbn; lia.
  - destruct (inr 224 239 b0).
    + destruct t as [|b1 [|b2 t]]; try (cbn; lia).
      match goal with |- context [if ?c then _ else _] => destruct c end; cbn; lia.
    + destruct (inr 240 244 b0); [|cbn; lia].
      destruct t as [|b1 [|b2 [|b3 t]]]; try (cbn; lia).
      match goal with |- context [if ?c then _ else _] => destruct c end; cbn; lia.
Qed.
Print Assumptions decode_encode.

(* the decoder looks only at the bytes of the rune it reports: this is the hypothesis sz_local of
   MaskRunes_proto / the width function of SubRunes_proto, for the real UTF-8 decoder *)
Ltac brk := repeat match goal with
  | |- context [if ?c then _ else _] => destruct c eqn:?
  | H : context [if ?c then _ else _] |- _ => destruct c eqn:?
  end.

Theorem decode_local r x : r <> [] -> (snd (decode (r ++ x)) <= length r)%nat -> decode r = decode (r ++ x).
Proof.
  intros Hne Hw.
  destruct r as [|b0 [|b1 [|b2 [|b3 r']]]]; [congruence| | | |].
  - (* one byte available *)
    cbn [app] in *. destruct x as [|x0 [|x1 [|x2 x']]]; cbn [decode length snd] in *; brk; cbn [snd] in *; try reflexivity; try lia.
  - cbn [app] in *. destruct x as [|x0 [|x1 x']]; cbn [decode length snd] in *; brk; cbn [snd] in *; try reflexivity; try lia.
  - cbn [app] in *. destruct x as [|x0 x']; cbn [decode length snd] in *; brk; cbn [snd] in *; try reflexivity; try lia.
  - cbn [app decode]. reflexivity.
Qed.
Corollary width_pos s : s <> [] -> (1 <= width s <= length s)%nat.
Proof. intros H. unfold width. pose proof (decode_width s H). lia. Qed.
Corollary width_local r x : r <> [] -> (width (r ++ x) <= length r)%nat -> width r = width (r ++ x).
Proof. intros H1 H2. unfold width in *. rewrite (decode_local r x H1 H2). reflexivity. Qed.
Print Assumptions decode_local.
