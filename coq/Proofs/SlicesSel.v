(* C14: the append-into-dst selection loop (Diff, Intersect, Unique, UniqueByKey, Filter) on the heap.
   One invariant covers every dst layout the property speaks about: dst in another array than s1 (nil, own buffer of
   any capacity, s2[:0]) and dst starting at s1's first element (s1[:0], s1, s1[:0:c]); in the second case the write
   cursor len(dst) never exceeds the read cursor i, so no element is overwritten before it was read. *)
From Coq Require Import List ZArith Bool Arith Lia.
From V Require Import Model.Slices Proofs.SlicesBase.
Import ListNotations.

Lemma append1_spec m dst v : wfs m dst ->
  forall m' d', append1 m dst v = (m', d') ->
  slice_vals m' d' = slice_vals m dst ++ [v] /\ wfs m' d' /\ length m <= length m' /\
  (forall a, a < length m -> a <> arr dst -> arr_of m' a = arr_of m a) /\
  (len dst < cap dst ->
     d' = mkS (arr dst) (off dst) (S (len dst)) (cap dst) /\ length m' = length m /\
     arr_of m' (arr dst) = upd (arr_of m (arr dst)) (off dst + len dst) v) /\
  (cap dst <= len dst -> arr d' = length m /\ forall a, a < length m -> arr_of m' a = arr_of m a).
Proof.
  intros (W1 & W2 & W3) m' d' E. unfold append1 in E. destruct (Nat.ltb_spec (len dst) (cap dst)) as [Hc|Hc].
  - injection E as <- <-. cbn [arr off len cap].
    assert (Ea : arr_of (set_arr m (arr dst) (upd (arr_of m (arr dst)) (off dst + len dst) v)) (arr dst)
                 = upd (arr_of m (arr dst)) (off dst + len dst) v) by (apply arr_of_set_same; exact W1).
    repeat split.
    + unfold slice_vals. cbn [arr off len]. rewrite Ea. apply window_upd_snoc. lia.
    + cbn [arr]. rewrite set_arr_length. exact W1.
    + cbn [len cap]. lia.
    + cbn [arr off cap]. rewrite Ea, upd_length. exact W3.
    + rewrite set_arr_length. lia.
    + intros a Ha Hn. apply arr_of_set_other. congruence.
    + apply set_arr_length.
    + exact Ea.
    + lia.
    + lia.
  - injection E as <- <-. cbn [arr off len cap].
    assert (Hl : length (slice_vals m dst) = len dst) by (apply slice_vals_length; repeat split; assumption).
    repeat split.
    + unfold slice_vals at 1. cbn [arr off len]. rewrite arr_of_app_new.
      replace (S (len dst)) with (length (slice_vals m dst ++ [v])) by (rewrite app_length; cbn [length]; lia).
      apply window_all.
    + cbn [arr]. rewrite app_length. cbn [length]. lia.
    + cbn [len cap]. lia.
    + cbn [arr off cap]. rewrite arr_of_app_new, app_length. cbn [length]. lia.
    + rewrite app_length. lia.
    + intros a Ha Hn. apply arr_of_app_l. exact Ha.
    + lia.
    + lia.
    + lia.
    + intros a Ha. apply arr_of_app_l. exact Ha.
Qed.

Section Sel.
Variable St : Type.
Variable step : St -> Z -> St * bool.
Local Notation kept := (Slices.kept St step).
Local Notation sel_loop := (Slices.sel_loop St step).
Variable s1 : slice.

Lemma sel_inv : forall n st m dst i,
  i + n = len s1 -> arr s1 < length m -> off s1 + len s1 <= length (arr_of m (arr s1)) ->
  wfs m dst ->
  (arr dst <> arr s1 \/ (arr dst = arr s1 /\ off dst = off s1 /\ len dst <= i)) ->
  exists m' d', sel_loop n st m s1 dst i = Some (m', d') /\
    slice_vals m' d' = slice_vals m dst ++ kept st (window (arr_of m (arr s1)) (off s1 + i) n) /\
    wfs m' d' /\ length m <= length m' /\
    (arr dst = arr s1 -> off dst = off s1 -> len dst <= i -> i + n <= cap dst ->
       arr d' = arr dst /\ off d' = off dst /\ cap d' = cap dst /\ len d' <= i + n /\ length m' = length m).
Proof.
  induction n as [|n IH]; intros st m dst i Hn Ha Hb Wd Hl.
  - exists m, dst. cbn [Slices.sel_loop Slices.kept window]. rewrite window_0. cbn [Slices.kept]. rewrite app_nil_r.
    repeat split; auto; try lia. all: destruct Wd as (?&?&?); auto.
  - cbn [Slices.sel_loop]. unfold sread. destruct (Nat.ltb_spec i (len s1)) as [Hi|Hi]; [|lia].
    destruct (nth_error (arr_of m (arr s1)) (off s1 + i)) as [x|] eqn:Ex.
    2:{ apply nth_error_None in Ex. lia. }
    rewrite (window_cons _ _ _ _ Ex). cbn [Slices.kept]. destruct (step st x) as [st' b]. destruct b.
    + destruct (append1 m dst x) as [m1 d1] eqn:Eap.
      destruct (append1_spec m dst x Wd m1 d1 Eap) as (V1 & W1 & L1 & O1 & P1 & S1).
      assert (Harr : forall o k, off s1 + S i <= o ->
                window (arr_of m1 (arr s1)) o k = window (arr_of m (arr s1)) o k /\
                length (arr_of m1 (arr s1)) = length (arr_of m (arr s1))).
      { intros o k Ho. destruct (Nat.ltb_spec (len dst) (cap dst)) as [Hc|Hc].
        - destruct (P1 Hc) as (_ & _ & Eu). destruct Hl as [Hne|(He & Hoff & Hw)].
          + rewrite (O1 (arr s1) Ha (not_eq_sym Hne)). auto.
          + rewrite <- He, Eu, upd_length. split; [|reflexivity]. apply window_upd_before. lia.
        - destruct (S1 Hc) as (_ & Es). rewrite (Es _ Ha). auto. }
      destruct (IH st' m1 d1 (S i)) as (m' & d' & E & V & W & L & Al).
      * lia.
      * lia.
      * rewrite (proj2 (Harr (off s1 + S i) 0 (le_n _))). exact Hb.
      * exact W1.
      * destruct (Nat.ltb_spec (len dst) (cap dst)) as [Hc|Hc].
        -- destruct (P1 Hc) as (-> & _ & _). cbn [arr off len]. destruct Hl as [Hne|(He & Hoff & Hw)]; [left; exact Hne|right; repeat split; auto; lia].
        -- destruct (S1 Hc) as (Ea1 & _). left. rewrite Ea1. lia.
      * exists m', d'. split; [exact E|]. split.
        { rewrite V, V1. rewrite <- app_assoc. cbn [app]. f_equal. f_equal. f_equal.
          replace (off s1 + S i) with (S (off s1 + i)) by lia. apply Harr. lia. }
        split; [exact W|]. split; [lia|].
        intros A1 A2 A3 A4. assert (Hc : len dst < cap dst) by lia.
        destruct (P1 Hc) as (Ed & El & _). subst d1. cbn [arr off len cap] in Al.
        destruct (Al A1 A2 ltac:(lia) ltac:(lia)) as (B1 & B2 & B3 & B4 & B5). repeat split; auto; lia.
    + destruct (IH st' m dst (S i)) as (m' & d' & E & V & W & L & Al); auto; try lia.
      exists m', d'. split; [exact E|]. split.
      { rewrite V. f_equal. f_equal. f_equal. lia. }
      split; [exact W|]. split; [exact L|].
      intros A1 A2 A3 A4. destruct (Al A1 A2 ltac:(lia) ltac:(lia)) as (B1 & B2 & B3 & B4 & B5). repeat split; auto; lia.
Qed.

(* the loop as the functions call it: all of s1, dst emptied *)
Theorem sel_spec st m dst : wfs m s1 -> wfs m dst ->
  (arr dst <> arr s1 \/ off dst = off s1) ->
  exists m' d', sel_loop (len s1) st m s1 (reslice0 dst) 0 = Some (m', d') /\
    slice_vals m' d' = kept st (slice_vals m s1) /\ wfs m' d' /\ length m <= length m' /\
    (arr dst = arr s1 -> len s1 <= cap dst ->
       arr d' = arr s1 /\ off d' = off s1 /\ cap d' = cap dst /\ len d' <= len s1 /\ length m' = length m).
Proof.
  intros (A1 & A2 & A3) (D1 & D2 & D3) Hl.
  destruct (sel_inv (len s1) st m (reslice0 dst) 0) as (m' & d' & E & V & W & L & Al); unfold reslice0; cbn [arr off len cap]; try lia.
  - repeat split; cbn [arr off len cap]; auto; lia.
  - exists m', d'. split; [exact E|]. split.
    { rewrite V. unfold slice_vals at 1. cbn [arr off len]. rewrite window_0. cbn [app]. rewrite Nat.add_0_r. reflexivity. }
    split; [exact W|]. split; [exact L|].
    intros B1 B2. destruct Hl as [Hl|Hl]; [congruence|].
    unfold reslice0 in Al; cbn [arr off len cap] in Al. destruct (Al B1 Hl ltac:(lia) ltac:(lia)) as (C1 & C2 & C3 & C4 & C5).
    repeat split; auto; try lia; congruence.
Qed.
End Sel.

(* ---- the stateless decisions give List.filter; the len(seen) trick gives first occurrences *)
Lemma kept_pstep p l : kept unit (pstep p) tt l = filter p l.
Proof. induction l as [|x l IH]; cbn [kept pstep filter]; [reflexivity|]. destruct (p x); rewrite IH; reflexivity. Qed.
Lemma rejected_pstep p l : rejected unit (pstep p) tt l = filter (fun x => negb (p x)) l.
Proof. induction l as [|x l IH]; cbn [rejected pstep filter]; [reflexivity|]. destruct (p x); cbn [negb]; rewrite IH; reflexivity. Qed.

Theorem unique_kept key : forall l seen, kept ustate (ustep key) (seen, length seen) l = firsts key seen l.
Proof.
  induction l as [|v t IH]; intros seen; cbn [kept firsts]; [reflexivity|]. unfold ustep at 1.
  destruct (memz (key v) seen).
  - rewrite Nat.ltb_irrefl. apply IH.
  - cbn [length]. destruct (Nat.ltb_spec (length seen) (S (length seen))); [|lia]. f_equal. apply (IH (key v :: seen)).
Qed.

Lemma memz_In k l : memz k l = true <-> In k l.
Proof.
  unfold memz. rewrite existsb_exists. split.
  - intros (x & Hx & E). apply Z.eqb_eq in E. subst. exact Hx.
  - intros H. exists k. split; [exact H|apply Z.eqb_refl].
Qed.

(* what "first occurrences" means: keys pairwise different, every element's key is represented, and an element is
   dropped only because an earlier element had its key *)
Lemma firsts_spec key : forall l seen,
  NoDup (map key (firsts key seen l)) /\
  (forall v, In v (firsts key seen l) -> In v l /\ ~ In (key v) seen) /\
  (forall v, In v l -> In (key v) seen \/ In (key v) (map key (firsts key seen l))).
Proof.
  induction l as [|v t IH]; intros seen; cbn [firsts]; [cbn [map]; split; [constructor|split; intros ? []]|].
  destruct (memz (key v) seen) eqn:Em.
  - apply memz_In in Em. destruct (IH seen) as (A & B & C). repeat split; auto.
    + right. apply B; auto.
    + apply B; auto.
    + intros w [<-|Hw]; auto.
  - assert (Hin : ~ In (key v) seen) by (intros H; apply memz_In in H; congruence).
    destruct (IH (key v :: seen)) as (A & B & C). cbn [map]. repeat split.
    + constructor; auto. intros H. apply in_map_iff in H. destruct H as (w & Ew & Hw). apply B in Hw. destruct Hw as [_ Hw]. apply Hw. left. auto.
    + destruct H as [<-|H]; [left; reflexivity|right; apply B; auto].
    + destruct H as [<-|H]; auto. apply B in H. intros H'. apply (proj2 H). right; auto.
    + intros w [<-|Hw]; [right; left; reflexivity|]. destruct (C w Hw) as [[E|H]|H]; auto; right; [left; auto|right; auto].
Qed.
(* the kept elements appear in the order of the input *)
Lemma firsts_subseq key : forall l seen, exists keep : list bool,
  length keep = length l /\ firsts key seen l = map fst (filter snd (combine l keep)).
Proof.
  induction l as [|v t IH]; intros seen; [exists []; split; reflexivity|]. cbn [firsts].
  destruct (memz (key v) seen).
  - destruct (IH seen) as (k & L & E). exists (false :: k). cbn [length combine filter snd]. split; [lia|exact E].
  - destruct (IH (key v :: seen)) as (k & L & E). exists (true :: k). cbn [length combine filter snd map fst]. split; [lia|]. f_equal. exact E.
Qed.
