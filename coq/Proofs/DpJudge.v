(* C18: the executable judges of Model/Dp.v (what Run/C18.v's sub 2 applies to the implementation's output) mean the
   property, and they accept the model's output for every tie-breaker and every map order. *)
From Coq Require Import List ZArith Lia Bool Arith Permutation Sorted.
From V Require Import Model.Dp Proofs.DpKnapsack Proofs.DpSolvers Proofs.DpBest.
Import ListNotations.
Arguments Z.add : simpl never.
Arguments Z.sub : simpl never.

(* ---- selections = sub-sequences of [a; a+1; ...; a+n-1] ---- *)
Lemma nil_in_subseqs {A} (l : list A) : In [] (subseqs l).
Proof. induction l as [|x t IH]; cbn [subseqs]; [left; reflexivity|]. apply in_or_app. right. exact IH. Qed.

Lemma subseqs_seq_iff : forall n a s,
  In s (subseqs (seq a n)) <-> StronglySorted lt s /\ Forall (fun i => a <= i < a + n) s.
Proof.
  induction n as [|n IH]; intros a s; cbn [seq subseqs].
  - split.
    + intros [<-|[]]. split; constructor.
    + intros [_ Hb]. destruct s as [|x s]; [left; reflexivity|]. inversion Hb; subst. lia.
  - rewrite in_app_iff, in_map_iff. split.
    + intros [(s' & <- & Hin)|Hin].
      * apply IH in Hin. destruct Hin as [Hs Hb]. split.
        -- constructor; [exact Hs|]. eapply Forall_impl; [|exact Hb]. cbn beta. intros; lia.
        -- constructor; [lia|]. eapply Forall_impl; [|exact Hb]. cbn beta. intros; lia.
      * apply IH in Hin. destruct Hin as [Hs Hb]. split; [exact Hs|]. eapply Forall_impl; [|exact Hb]. cbn beta. intros; lia.
    + intros [Hs Hb]. destruct s as [|x s]; [right; apply nil_in_subseqs|].
      inversion Hs as [|? ? Hs' Hlt]; subst. inversion Hb as [|? ? Hx Hb']; subst.
      destruct (Nat.eq_dec x a) as [->|Hne].
      * left. exists s. split; [reflexivity|]. apply IH. split; [exact Hs'|].
        rewrite Forall_forall in *. intros i Hi. specialize (Hlt i Hi). specialize (Hb' i Hi). lia.
      * right. apply IH. split; [exact Hs|]. constructor; [lia|].
        rewrite Forall_forall in *. intros i Hi. specialize (Hlt i Hi). specialize (Hb' i Hi). lia.
Qed.

Lemma increasing_iff : forall s lo, increasing lo s = true <-> StronglySorted lt s /\ Forall (fun i => lo <= i) s.
Proof.
  induction s as [|i t IH]; intros lo; cbn [increasing].
  - split; [intros _; split; constructor|reflexivity].
  - rewrite andb_true_iff, Nat.leb_le, IH. split.
    + intros (Hlo & Hs & Hb). split; [|constructor; [lia|eapply Forall_impl; [|exact Hb]; cbn beta; intros; lia]].
      constructor; [exact Hs|]. eapply Forall_impl; [|exact Hb]. cbn beta. intros; lia.
    + intros (Hs & Hb). inversion Hs as [|? ? Hs' Hlt]; subst. inversion Hb; subst. split; [lia|]. split; [exact Hs'|].
      eapply Forall_impl; [|exact Hlt]. cbn beta. intros; lia.
Qed.
Lemma sel_ok_iff n s : sel_ok n s = true <-> StronglySorted lt s /\ Forall (fun i => i < n) s.
Proof.
  unfold sel_ok. rewrite andb_true_iff, increasing_iff, forallb_forall. split.
  - intros ((Hs & _) & Hb). split; [exact Hs|]. apply Forall_forall. intros i Hi. apply Nat.ltb_lt. apply Hb. exact Hi.
  - intros (Hs & Hb). rewrite Forall_forall in Hb. split; [split; [exact Hs|apply Forall_forall; intros; lia]|].
    intros i Hi. apply Nat.ltb_lt. apply Hb. exact Hi.
Qed.
Lemma sel_in_subseqs n s : sel_ok n s = true <-> In s (subseqs (seq 0 n)).
Proof.
  rewrite sel_ok_iff, subseqs_seq_iff. split; intros [Hs Hb]; (split; [exact Hs|]); (eapply Forall_impl; [|exact Hb]); cbn beta; intros; lia.
Qed.

(* ---- Knapsack ---- *)
Lemma knap_ok_iff W items r : knap_ok W items r = true <->
  valid items (length items) W r /\ forall s, valid items (length items) W s -> (value items s <= value items r)%Z.
Proof.
  unfold knap_ok, valid. rewrite !andb_true_iff, sel_ok_iff, Nat.leb_le, forallb_forall. split.
  - intros ((Hsel & Hw) & Hall). split; [tauto|]. intros s (Hs & Hb & Hws).
    assert (Hin : In s (subseqs (seq 0 (length items)))) by (apply sel_in_subseqs, sel_ok_iff; split; assumption).
    specialize (Hall s Hin). apply orb_true_iff in Hall. destruct Hall as [H|H].
    + apply negb_true_iff, Nat.leb_gt in H. lia.
    + apply Z.leb_le. exact H.
  - intros ((Hs & Hb & Hw) & Hopt). split; [tauto|]. intros s Hin. apply sel_in_subseqs, sel_ok_iff in Hin. destruct Hin as [Hs' Hb'].
    destruct (Nat.leb_spec (weight items s) W) as [Hle|Hgt]; cbn [negb orb]; [|reflexivity].
    apply Z.leb_le. apply Hopt. repeat split; assumption.
Qed.
(* the judge accepts the model's answer: every item list, limit, tie-breaker *)
Theorem knap_ok_model brk W items : knap_ok W items (knapsack brk W items) = true.
Proof. apply knap_ok_iff. apply (knapsack_optimal brk items W). Qed.

(* ---- FindDpSolvers ---- *)
Lemma totals_iff vals t : In t (totals vals) <-> attainable vals (length vals) t.
Proof.
  unfold totals, attainable, dvalid. rewrite in_map_iff. split.
  - intros (s & <- & Hin). exists s. split; [|reflexivity]. apply sel_in_subseqs, sel_ok_iff in Hin. exact Hin.
  - intros (s & Hv & <-). exists s. split; [reflexivity|]. apply sel_in_subseqs, sel_ok_iff. exact Hv.
Qed.
Lemma mem_iff x l : mem x l = true <-> In x l.
Proof.
  unfold mem. rewrite existsb_exists. split.
  - intros (y & Hy & E). apply Z.eqb_eq in E. subst. exact Hy.
  - intros H. exists x. split; [exact H|apply Z.eqb_refl].
Qed.
Lemma nodupb_iff l : nodupb l = true <-> NoDup l.
Proof.
  induction l as [|x t IH]; cbn [nodupb]; [split; [constructor|reflexivity]|].
  rewrite andb_true_iff, negb_true_iff, IH. split.
  - intros [Hm Hn]. constructor; [|exact Hn]. intros Hin. apply mem_iff in Hin. congruence.
  - intros H. inversion H; subst. split; [|assumption]. destruct (mem x t) eqn:E; [|reflexivity]. apply mem_iff in E. contradiction.
Qed.
Lemma over_dec (l : list Z) maxV : (exists t, In t l /\ (maxV < t)%Z) \/ ~ (exists t, In t l /\ (maxV < t)%Z).
Proof.
  destruct (existsb (fun t => (maxV <? t)%Z) l) eqn:E.
  - left. apply existsb_exists in E. destruct E as (t & Hin & Ht). apply Z.ltb_lt in Ht. eauto.
  - right. intros (t & Hin & Ht). assert (existsb (fun t => (maxV <? t)%Z) l = true); [|congruence].
    apply existsb_exists. exists t. split; [exact Hin|apply Z.ltb_lt; exact Ht].
Qed.
(* a non-empty finite set of totals above maxV has a least element *)
Lemma least_exists maxV (l : list Z) : (exists t, In t l /\ (maxV < t)%Z) ->
  exists m, In m l /\ (maxV < m)%Z /\ forall x, In x l -> (maxV < x)%Z -> (m <= x)%Z.
Proof.
  induction l as [|a l IH]; intros (t & Hin & Hgt); [destruct Hin|].
  destruct (Z.ltb_spec maxV a) as [Ha|Ha].
  - destruct (over_dec l maxV) as [Hex|Hno].
    + destruct (IH Hex) as (m & Hm & Hmg & Hmin). destruct (Z.le_gt_cases a m).
      * exists a. split; [left; reflexivity|]. split; [exact Ha|]. intros x [<-|Hx] Hxg; [lia|]. specialize (Hmin x Hx Hxg). lia.
      * exists m. split; [right; exact Hm|]. split; [exact Hmg|]. intros x [<-|Hx] Hxg; [lia|]. auto.
    + exists a. split; [left; reflexivity|]. split; [exact Ha|]. intros x [<-|Hx] Hxg; [lia|]. exfalso. apply Hno. exists x. auto.
  - destruct Hin as [<-|Hin]; [lia|]. destruct (IH (ex_intro _ t (conj Hin Hgt))) as (m & Hm & Hmg & Hmin).
    exists m. split; [right; exact Hm|]. split; [exact Hmg|]. intros x [<-|Hx] Hxg; [lia|]. auto.
Qed.

Local Open Scope Z_scope.
Lemma solvers_ok_iff maxV allow vals dp : solvers_ok maxV allow vals dp = true <-> solvers_prop maxV allow vals dp.
Proof.
  unfold solvers_ok, solvers_prop. cbv zeta. rewrite !andb_true_iff, nodupb_iff. split.
  - intros ((((Hnd & Hcells) & Hatt) & Hno) & Hleast).
    assert (Hok : cells_ok vals (length vals) dp).
    { unfold cells_ok. apply Forall_forall. intros c Hc. rewrite forallb_forall in Hcells. specialize (Hcells c Hc).
      apply andb_true_iff in Hcells. destruct Hcells as [H1 H2]. apply sel_ok_iff in H1. apply Z.eqb_eq in H2. split; [exact H1|exact H2]. }
    split; [exact Hnd|]. split; [exact Hok|]. split; [|split].
    + intros t Ht. split.
      * intros Hat. apply totals_iff in Hat. rewrite forallb_forall in Hatt. specialize (Hatt t Hat). apply orb_true_iff in Hatt.
        destruct Hatt as [H|H]; [apply Z.ltb_lt in H; lia|]. apply mem_iff in H. apply has_keys. exact H.
      * intros Hh. apply has_In in Hh. destruct Hh as (s & Hin). unfold cells_ok in Hok. rewrite Forall_forall in Hok.
        destruct (Hok _ Hin) as [Hv Et]. cbn [fst snd] in *. exists s. auto.
    + intros -> t Hh. cbn [orb] in Hno. rewrite forallb_forall in Hno. apply Z.leb_le. apply Hno. apply has_keys. exact Hh.
    + intros -> t (Hat & Hgt & Hmin). cbn [negb orb] in Hleast. rewrite forallb_forall in Hleast.
      specialize (Hleast t (proj2 (totals_iff vals t) Hat)). apply orb_true_iff in Hleast.
      destruct Hleast as [H|H]; [apply negb_true_iff, Z.ltb_ge in H; lia|].
      apply existsb_exists in H. destruct H as (k & Hk & Hb). apply andb_true_iff in Hb. destruct Hb as [H1 H2]. apply Z.ltb_lt in H1. apply Z.leb_le in H2.
      assert (Hkat : attainable vals (length vals) k).
      { apply has_keys, has_In in Hk. destruct Hk as (s & Hin). unfold cells_ok in Hok. rewrite Forall_forall in Hok.
        destruct (Hok _ Hin) as [Hv Et]. cbn [fst snd] in *. exists s. auto. }
      specialize (Hmin k Hkat H1). assert (k = t) by lia. subst k. apply has_keys. exact Hk.
  - intros (Hnd & Hok & Hatt & Hno & Hleast). unfold cells_ok in Hok. rewrite Forall_forall in Hok.
    repeat split.
    + exact Hnd.
    + apply forallb_forall. intros c Hc. destruct (Hok c Hc) as [Hv Et]. apply andb_true_iff. split; [apply sel_ok_iff; exact Hv|apply Z.eqb_eq; exact Et].
    + apply forallb_forall. intros t Ht. destruct (Z.ltb_spec maxV t); cbn [orb]; [reflexivity|].
      apply mem_iff, has_keys. apply Hatt; [lia|]. apply totals_iff. exact Ht.
    + destruct allow; cbn [orb]; [reflexivity|]. apply forallb_forall. intros k Hk. apply Z.leb_le. apply (Hno eq_refl). apply has_keys. exact Hk.
    + destruct allow; cbn [negb orb]; [|reflexivity]. apply forallb_forall. intros t Ht.
      destruct (Z.ltb_spec maxV t) as [Hgt|Hle]; cbn [negb orb]; [|reflexivity].
      destruct (least_exists maxV (totals vals) (ex_intro _ t (conj Ht Hgt))) as (m & Hm & Hmg & Hmin).
      assert (Hl : least_over vals (length vals) maxV m).
      { split; [apply totals_iff; exact Hm|]. split; [exact Hmg|]. intros t' Hat Hg'. apply Hmin; [apply totals_iff; exact Hat|exact Hg']. }
      apply existsb_exists. exists m. split; [apply has_keys; apply (Hleast eq_refl); exact Hl|].
      apply andb_true_iff. split; [apply Z.ltb_lt; exact Hmg|apply Z.leb_le; apply Hmin; assumption].
Qed.

(* the judge accepts the model's map: every tie-breaker, every iteration order in every round *)
Theorem solvers_ok_model vals : Forall (fun v => 0 < v) vals ->
  forall brk maxV allow ord, (forall k dp, Permutation (ord k dp) dp) -> 0 <= maxV ->
  solvers_ok maxV allow vals (find_dp_solvers brk maxV allow ord vals) = true.
Proof.
  intros Hpos brk maxV allow ord Hord HM. apply solvers_ok_iff. unfold solvers_prop, find_dp_solvers. cbv zeta.
  destruct (solvers_sound_complete vals Hpos brk maxV allow ord Hord (length vals) (le_n _)) as (Hok & Hnd & Hatt).
  split; [exact Hnd|]. split; [exact Hok|]. split; [exact Hatt|]. split.
  - intros Ha t. apply (solvers_no_over vals brk maxV allow ord HM Ha).
  - intros Ha t. apply (solvers_least_over vals Hpos brk maxV allow ord Hord HM Ha).
Qed.

(* ---- Best / BestAllowMinOverflow ---- *)
Lemma best_ok_iff q keys r : best_ok q keys r = true <-> is_best q keys r.
Proof.
  unfold best_ok, is_best. destruct r as [b|].
  - rewrite !andb_true_iff, mem_iff, Z.leb_le, forallb_forall. split.
    + intros ((H1 & H2) & H3). split; [exact H1|]. split; [exact H2|]. intros k Hk Hle. specialize (H3 k Hk). apply orb_true_iff in H3.
      destruct H3 as [H|H]; [apply negb_true_iff, Z.leb_gt in H; lia|apply Z.leb_le; exact H].
    + intros (H1 & H2 & H3). split; [split; assumption|]. intros k Hk. destruct (Z.leb_spec k q); cbn [negb orb]; [|reflexivity].
      apply Z.leb_le. auto.
  - rewrite forallb_forall. split; intros H k Hk; [apply Z.ltb_lt|apply Z.ltb_lt]; auto.
Qed.
Lemma best_over_ok_iff q keys r : best_over_ok q keys r = true <-> is_best_over q keys r.
Proof.
  unfold best_over_ok, is_best_over. destruct r as [b|].
  - rewrite andb_true_iff, mem_iff. split.
    + intros [H1 H2]. split; [exact H1|]. apply orb_true_iff in H2. destruct H2 as [H2|H2].
      * apply orb_true_iff in H2. destruct H2 as [H2|H2]; [left; apply Z.eqb_eq; exact H2|right; left].
        apply andb_true_iff in H2. destruct H2 as [H2 H3]. apply andb_true_iff in H2. destruct H2 as [H2 H4].
        apply Z.ltb_lt in H2. apply negb_true_iff in H4. rewrite forallb_forall in H3. split; [exact H2|]. split.
        -- intros Hin. apply mem_iff in Hin. congruence.
        -- intros k Hk Hg. specialize (H3 k Hk). apply orb_true_iff in H3. destruct H3 as [H|H]; [apply negb_true_iff, Z.ltb_ge in H; lia|apply Z.leb_le; exact H].
      * right; right. apply andb_true_iff in H2. destruct H2 as [H2 H3]. apply andb_true_iff in H2. destruct H2 as [H2 H4].
        apply Z.ltb_lt in H2. rewrite forallb_forall in H3, H4. split; [exact H2|]. split; intros k Hk; apply Z.leb_le; auto.
    + intros [H1 H2]. split; [exact H1|]. destruct H2 as [->|[(H2 & H3 & H4)|(H2 & H3 & H4)]].
      * rewrite Z.eqb_refl. reflexivity.
      * apply orb_true_iff. left. apply orb_true_iff. right. rewrite !andb_true_iff. split; [split|].
        -- apply Z.ltb_lt; exact H2.
        -- apply negb_true_iff. destruct (mem q keys) eqn:E; [apply mem_iff in E; contradiction|reflexivity].
        -- apply forallb_forall. intros k Hk. destruct (Z.ltb_spec q k); cbn [negb orb]; [|reflexivity]. apply Z.leb_le. auto.
      * apply orb_true_iff. right. rewrite !andb_true_iff. split; [split|].
        -- apply Z.ltb_lt; exact H2.
        -- apply forallb_forall. intros k Hk. apply Z.leb_le. auto.
        -- apply forallb_forall. intros k Hk. apply Z.leb_le. auto.
  - destruct keys; split; intros H; try reflexivity; try discriminate.
Qed.
Theorem best_ok_model q keys : (forall k, In k keys -> q - k < maxint) -> best_ok q keys (best q keys) = true.
Proof. intros H. apply best_ok_iff. apply best_spec. exact H. Qed.
Theorem best_over_ok_model q keys : (forall k, In k keys -> q - k < maxint) -> best_over_ok q keys (best_over q keys) = true.
Proof. intros H. apply best_over_ok_iff. apply best_over_spec. exact H. Qed.
