(* C18: GetMaximalCliques.  (1) the top-level aliasing X = P[:0] is harmless; (2) the fuel |P|+1 always suffices on a
   graph without self-loops; (3) bron_kerbosch_exact: on a simple undirected graph every maximal clique is reported
   exactly once and nothing else is reported, for every order in which Go's map iteration hands out the vertices. *)
From Coq Require Import List Lia Bool Arith Permutation.
From V Require Import Model.Dp Model.Clique.
Import ListNotations.

(* ---- (1) the shared backing array ---- *)
Lemma updn_same : forall l i, updn l i (nth i l 0) = l.
Proof. induction l as [|a l IH]; intros [|i]; cbn [updn nth]; [reflexivity|reflexivity|reflexivity|]. rewrite IH. reflexivity. Qed.
Lemma skipn_nth_cons (l : list nat) k : k < length l -> skipn k l = nth k l 0 :: skipn (S k) l.
Proof.
  revert k. induction l as [|a l IH]; intros k H; [cbn [length] in H; lia|]. destruct k as [|k]; [reflexivity|].
  cbn [skipn nth]. apply IH. cbn [length] in H. lia.
Qed.
Lemma firstn_S_snoc (l : list nat) k : k < length l -> firstn (S k) l = firstn k l ++ [nth k l 0].
Proof.
  revert k. induction l as [|a l IH]; intros k H; [cbn [length] in H; lia|]. destruct k as [|k]; [reflexivity|].
  cbn [firstn nth app]. f_equal. apply IH. cbn [length] in H. lia.
Qed.
Lemma top_loop_pure g f : forall iters buf k acc, k + iters = length buf ->
  top_loop g f buf k iters acc = bk_loop (bk g f) g [] (skipn k buf) (firstn k buf) acc.
Proof.
  induction iters as [|m IH]; intros buf k acc Hk; cbn [top_loop].
  - rewrite skipn_all2 by lia. reflexivity.
  - rewrite (skipn_nth_cons buf k) by lia. cbn [bk_loop app]. rewrite <- (skipn_nth_cons buf k) by lia.
    destruct (bk g f [nth k buf 0] (inter g (skipn k buf) (nth k buf 0)) (inter g (firstn k buf) (nth k buf 0))) as [cs|]; [|reflexivity].
    rewrite updn_same. rewrite IH by lia. rewrite firstn_S_snoc by lia. reflexivity.
Qed.
(* writing v into slot k of the array it was just read from changes nothing: the aliased top-level call behaves as the
   recursion on separate lists does *)
Theorem top_alias_harmless g order : max_cliques g order = bk g (S (length order)) [] order [].
Proof.
  unfold max_cliques. destruct order as [|v t]; [reflexivity|]. set (order := v :: t).
  rewrite top_loop_pure by (cbn [Nat.add]; reflexivity). cbn [skipn firstn]. reflexivity.
Qed.

(* ---- vocabulary ---- *)
Definition sym (g : graph) : Prop := forall u v, nbr g u v = nbr g v u.
Definition irrefl (g : graph) : Prop := forall v, nbr g v v = false.
Definition cliqueP (g : graph) (C : list nat) : Prop := forall u w, In u C -> In w C -> u <> w -> nbr g u w = true.
(* C is a maximal clique of the graph on the vertices 0..n-1 *)
Definition maxcliqueP (g : graph) (n : nat) (C : list nat) : Prop :=
  cliqueP g C /\ (forall u, In u C -> u < n) /\ forall v, v < n -> ~ In v C -> exists u, In u C /\ nbr g v u = false.
Definition same (a b : list nat) : Prop := forall x, In x a <-> In x b.
(* no two entries of the list are the same vertex set *)
Fixpoint nodupS (cs : list (list nat)) : Prop :=
  match cs with [] => True | c :: t => (forall c', In c' t -> ~ same c c') /\ nodupS t end.

Lemma nodupS_app a b : nodupS a -> nodupS b -> (forall x y, In x a -> In y b -> ~ same x y) -> nodupS (a ++ b).
Proof.
  induction a as [|c a IH]; intros Ha Hb Hab; cbn [app nodupS]; [exact Hb|]. destruct Ha as [Hc Ha]. split.
  - intros c' Hin. apply in_app_or in Hin. destruct Hin as [Hin|Hin]; [apply Hc; exact Hin|apply Hab; [left; reflexivity|exact Hin]].
  - apply IH; auto. intros x y Hx Hy. apply Hab; [right; exact Hx|exact Hy].
Qed.

Lemma NoDup_app_snoc (l : list nat) x : NoDup l -> ~ In x l -> NoDup (l ++ [x]).
Proof.
  induction l as [|a l IH]; intros Hn Hx; cbn [app]; [constructor; [intros []|constructor]|]. inversion Hn; subst. constructor.
  - intros Hin. apply in_app_or in Hin. destruct Hin as [Hin|[<-|[]]]; [contradiction|apply Hx; left; reflexivity].
  - apply IH; auto. intros Hin. apply Hx. right; exact Hin.
Qed.

(* ---- (2) + (3) ---- *)
Section BK.
Variable g : graph.
Variable n : nat.
Hypothesis Hsym : sym g.
Hypothesis Hirr : irrefl g.

Definition inv (R P X : list nat) : Prop :=
  NoDup P /\ NoDup R /\ (forall x, In x P -> ~ In x X) /\ (forall x, In x R -> ~ In x (P ++ X)) /\ cliqueP g R /\
  (forall v r, In v (P ++ X) -> In r R -> nbr g v r = true) /\
  (forall v, v < n -> (forall r, In r R -> nbr g v r = true) -> ~ In v R -> In v (P ++ X)) /\
  (forall x, In x (R ++ P ++ X) -> x < n).

(* what a call BronKerbosch(R, P, X) must report: exactly the maximal cliques C with R <= C <= R + P *)
Definition bk_ok (R P : list nat) (cs : list (list nat)) : Prop :=
  (forall c, In c cs -> NoDup c /\ maxcliqueP g n c /\ incl R c /\ incl c (R ++ P)) /\
  (forall C, maxcliqueP g n C -> incl R C -> incl C (R ++ P) -> exists c, In c cs /\ same c C) /\
  nodupS cs.
(* what the loop over P must add: those among them that contain a vertex of P *)
Definition loop_ok (R P : list nat) (cs : list (list nat)) : Prop :=
  (forall c, In c cs -> NoDup c /\ maxcliqueP g n c /\ incl R c /\ incl c (R ++ P) /\ exists v, In v P /\ In v c) /\
  (forall C, maxcliqueP g n C -> incl R C -> incl C (R ++ P) -> (exists v, In v P /\ In v C) -> exists c, In c cs /\ same c C) /\
  nodupS cs.

Lemma inter_In a v x : In x (inter g a v) <-> In x a /\ nbr g v x = true.
Proof. unfold inter. apply filter_In. Qed.
Lemma inter_length_le a v : length (inter g a v) <= length a.
Proof. unfold inter. induction a as [|x a IH]; cbn [filter length]; [lia|]. destruct (nbr g v x); cbn [length]; lia. Qed.
Lemma inter_self a v : inter g (v :: a) v = inter g a v.
Proof. unfold inter. cbn [filter]. rewrite Hirr. reflexivity. Qed.
Lemma inter_nodup a v : NoDup a -> NoDup (inter g a v).
Proof. unfold inter. apply NoDup_filter. Qed.

(* the invariant goes down into the recursive call ... *)
Lemma inv_down R v P' X : inv R (v :: P') X -> inv (R ++ [v]) (inter g (v :: P') v) (inter g X v).
Proof.
  intros (HP & HR & HPX & HRPX & HcR & Hadj & Hcov & Hlt). rewrite inter_self. inversion HP as [|? ? HvP HP']; subst.
  assert (HvR : ~ In v R) by (intros Hin; apply (HRPX v Hin); left; reflexivity).
  assert (HvAdj : forall r, In r R -> nbr g v r = true) by (intros r Hr; apply Hadj; [left; reflexivity|exact Hr]).
  unfold inv. repeat split.
  - apply inter_nodup. exact HP'.
  - apply NoDup_app_snoc; auto.
  - intros x Hx Hx'. apply inter_In in Hx. apply inter_In in Hx'. apply (HPX x); [right; tauto|tauto].
  - intros x Hx Hin. apply in_app_or in Hx. apply in_app_or in Hin. destruct Hx as [Hx|[<-|[]]].
    + apply (HRPX x Hx). destruct Hin as [Hin|Hin]; apply inter_In in Hin; apply in_or_app; [left; right; tauto|right; tauto].
    + destruct Hin as [Hin|Hin]; apply inter_In in Hin; destruct Hin as [Hin Hn]; [contradiction|]. apply (HPX v); [left; reflexivity|exact Hin].
  - intros u w Hu Hw Hne. apply in_app_or in Hu. apply in_app_or in Hw.
    destruct Hu as [Hu|[<-|[]]]; destruct Hw as [Hw|[<-|[]]].
    + apply HcR; auto.
    + rewrite Hsym. apply HvAdj. exact Hu.
    + apply HvAdj. exact Hw.
    + congruence.
  - intros w r Hw Hr. apply in_app_or in Hr.
    assert (Hw' : In w (P' ++ X) /\ nbr g v w = true).
    { apply in_app_or in Hw. destruct Hw as [Hw|Hw]; apply inter_In in Hw; split; try tauto; apply in_or_app; tauto. }
    destruct Hw' as [Hw1 Hw2]. destruct Hr as [Hr|[<-|[]]].
    + apply Hadj; [|exact Hr]. apply in_app_or in Hw1. apply in_or_app. destruct Hw1; [left; right|right]; assumption.
    + rewrite Hsym. exact Hw2.
  - intros w Hw Hall Hnin.
    assert (HwR : ~ In w R) by (intros H; apply Hnin; apply in_or_app; left; exact H).
    assert (Hwv : w <> v) by (intros ->; apply Hnin; apply in_or_app; right; left; reflexivity).
    assert (Hin : In w ((v :: P') ++ X)) by (apply Hcov; auto; intros r Hr; apply Hall; apply in_or_app; left; exact Hr).
    assert (Hnv : nbr g v w = true) by (rewrite Hsym; apply Hall; apply in_or_app; right; left; reflexivity).
    cbn [app] in Hin. destruct Hin as [->|Hin]; [congruence|]. apply in_app_or in Hin. apply in_or_app.
    destruct Hin as [Hin|Hin]; [left|right]; apply inter_In; tauto.
  - intros x Hx. apply Hlt. apply in_app_or in Hx. destruct Hx as [Hx|Hx].
    + apply in_app_or in Hx. destruct Hx as [Hx|[<-|[]]]; [apply in_or_app; left; exact Hx|apply in_or_app; right; left; reflexivity].
    + apply in_or_app. right. apply in_app_or in Hx. destruct Hx as [Hx|Hx]; apply inter_In in Hx; apply in_or_app; [left; right; tauto|right; tauto].
Qed.
(* ... and along the loop: P = P[1:]; X = append(X, v) *)
Lemma inv_next R v P' X : inv R (v :: P') X -> inv R P' (X ++ [v]).
Proof.
  intros (HP & HR & HPX & HRPX & HcR & Hadj & Hcov & Hlt). inversion HP as [|? ? HvP HP']; subst.
  assert (Hsame : forall x, In x (P' ++ X ++ [v]) <-> In x ((v :: P') ++ X)).
  { intros x. rewrite !in_app_iff. cbn [In]. tauto. }
  unfold inv. repeat split; auto.
  - intros x Hx Hin. apply in_app_or in Hin. destruct Hin as [Hin|[<-|[]]]; [apply (HPX x); [right; exact Hx|exact Hin]|contradiction].
  - intros x Hx Hin. apply (HRPX x Hx). apply Hsame. exact Hin.
  - intros w r Hw Hr. apply Hadj; [apply Hsame; exact Hw|exact Hr].
  - intros w Hw Hall Hnin. apply Hsame. apply Hcov; auto.
  - intros x Hx. apply Hlt. rewrite !in_app_iff in *. cbn [In] in *. tauto.
Qed.

Lemma loop_correct f (rec : list nat -> list nat -> list nat -> option (list (list nat))) R :
  (forall R' P' X', length P' < f -> inv R' P' X' -> exists cs, rec R' P' X' = Some cs /\ bk_ok R' P' cs) ->
  forall P X acc, length P <= f -> inv R P X ->
  exists cs, bk_loop rec g R P X acc = Some (acc ++ cs) /\ loop_ok R P cs.
Proof.
  intros Hrec. induction P as [|v P' IH]; intros X acc Hlen Hinv; cbn [bk_loop].
  - exists []. rewrite app_nil_r. split; [reflexivity|]. split; [|split].
    + intros c [].
    + intros C _ _ _ (v & [] & _).
    + exact I.
  - assert (Hdown := inv_down R v P' X Hinv). assert (Hnext := inv_next R v P' X Hinv).
    destruct (Hrec (R ++ [v]) (inter g (v :: P') v) (inter g X v)) as (cv & Ecv & (Sv & Cv & Nv)); auto.
    { rewrite inter_self. pose proof (inter_length_le P' v). cbn [length] in Hlen. lia. }
    rewrite Ecv. destruct (IH (X ++ [v]) (acc ++ cv)) as (cs' & Ecs & (S' & C' & N')); auto.
    { cbn [length] in Hlen. lia. }
    exists (cv ++ cs'). rewrite app_assoc. split; [exact Ecs|].
    destruct Hinv as (HP & HR & HPX & HRPX & HcR & Hadj & Hcov & Hlt). inversion HP as [|? ? HvP HP']; subst.
    assert (HvR : ~ In v R) by (intros Hin; apply (HRPX v Hin); left; reflexivity).
    assert (Hcv_v : forall c, In c cv -> In v c) by (intros c Hc; destruct (Sv c Hc) as (_ & _ & Hi & _); apply Hi; apply in_or_app; right; left; reflexivity).
    assert (Hcs_nv : forall c, In c cs' -> ~ In v c).
    { intros c Hc Hin. destruct (S' c Hc) as (_ & _ & _ & Hi & _). specialize (Hi v Hin). apply in_app_or in Hi. tauto. }
    split; [|split].
    + (* soundness *)
      intros c Hc. apply in_app_or in Hc. destruct Hc as [Hc|Hc].
      * destruct (Sv c Hc) as (H1 & H2 & H3 & H4). split; [exact H1|]. split; [exact H2|]. split; [|split].
        -- intros x Hx. apply H3. apply in_or_app. left; exact Hx.
        -- intros x Hx. specialize (H4 x Hx). rewrite inter_self in H4. rewrite !in_app_iff in *. cbn [In] in *.
           destruct H4 as [[H4|[H4|[]]]|H4]; [tauto|tauto|]. apply inter_In in H4. tauto.
        -- exists v. split; [left; reflexivity|apply Hcv_v; exact Hc].
      * destruct (S' c Hc) as (H1 & H2 & H3 & H4 & (w & Hw1 & Hw2)). split; [exact H1|]. split; [exact H2|]. split; [exact H3|]. split.
        -- intros x Hx. specialize (H4 x Hx). rewrite !in_app_iff in *. cbn [In]. tauto.
        -- exists w. split; [right; exact Hw1|exact Hw2].
    + (* completeness *)
      intros C HC HRC HCP (w & Hw1 & Hw2). destruct (in_dec Nat.eq_dec v C) as [HvC|HvC].
      * destruct (Cv C HC) as (c & Hc & Hs).
        -- intros x Hx. apply in_app_or in Hx. destruct Hx as [Hx|[<-|[]]]; [apply HRC; exact Hx|exact HvC].
        -- intros x Hx. rewrite inter_self. destruct (Nat.eq_dec x v) as [->|Hne]; [apply in_or_app; left; apply in_or_app; right; left; reflexivity|].
           specialize (HCP x Hx). rewrite !in_app_iff in *. cbn [In] in *. destruct HCP as [H|[H|H]]; [tauto|congruence|].
           right. apply inter_In. split; [exact H|]. destruct HC as (HcC & _). apply HcC; auto.
        -- exists c. split; [apply in_or_app; left; exact Hc|exact Hs].
      * destruct (C' C HC HRC) as (c & Hc & Hs).
        -- intros x Hx. specialize (HCP x Hx). rewrite !in_app_iff in *. cbn [In] in *. destruct HCP as [H|[H|H]]; [tauto|subst; contradiction|tauto].
        -- exists w. split; [|exact Hw2]. destruct Hw1 as [<-|Hw1]; [contradiction|exact Hw1].
        -- exists c. split; [apply in_or_app; right; exact Hc|exact Hs].
    + (* no vertex set twice *)
      apply nodupS_app; auto. intros x y Hx Hy Hs. apply (Hcs_nv y Hy). apply Hs. apply Hcv_v. exact Hx.
Qed.

Theorem bk_correct : forall fuel R P X, length P < fuel -> inv R P X -> exists cs, bk g fuel R P X = Some cs /\ bk_ok R P cs.
Proof.
  induction fuel as [|f IH]; intros R P X Hlen Hinv; [lia|]. cbn [bk].
  destruct (loop_correct f (bk g f) R IH P X [] ltac:(lia) Hinv) as (cs & Ecs & (Snd & Cpl & Nd)). cbn [app] in Ecs.
  destruct Hinv as (HP & HR & HPX & HRPX & HcR & Hadj & Hcov & Hlt).
  destruct P as [|p P'].
  - destruct X as [|x X'].
    + (* report R *)
      exists [R]. split; [reflexivity|]. split; [|split].
      * intros c [<-|[]]. split; [exact HR|]. split; [|split; [apply incl_refl|rewrite app_nil_r; apply incl_refl]].
        split; [exact HcR|]. split; [intros u Hu; apply Hlt; apply in_or_app; left; exact Hu|].
        intros v Hv Hnin. destruct (forallb (fun r => nbr g v r) R) eqn:E.
        -- exfalso. rewrite forallb_forall in E. apply (Hcov v Hv E Hnin).
        -- assert (Hex : existsb (fun r => negb (nbr g v r)) R = true).
           { clear -E. induction R as [|r R IH]; [discriminate E|]. cbn [forallb existsb] in *. destruct (nbr g v r); cbn [negb andb orb] in *; auto. }
           apply existsb_exists in Hex. destruct Hex as (u & Hu & Hn). exists u. split; [exact Hu|]. apply negb_true_iff in Hn. exact Hn.
      * intros C HC HRC HCR. exists R. split; [left; reflexivity|]. intros x. split; [apply HRC|]. intros Hx. specialize (HCR x Hx).
        rewrite app_nil_r in HCR. exact HCR.
      * split; [intros c' []|exact I].
    + (* nothing to report: R is not maximal, x extends it *)
      exists cs. split; [exact Ecs|]. split; [|split].
      * intros c Hc. destruct (Snd c Hc) as (H1 & H2 & H3 & H4 & _). auto.
      * intros C HC HRC HCR. exfalso. destruct HC as (HcC & HCn & Hmax).
        assert (Hxn : x < n) by (apply Hlt; apply in_or_app; right; left; reflexivity).
        assert (HxR : ~ In x R) by (intros H; apply (HRPX x H); left; reflexivity).
        assert (HxC : ~ In x C) by (intros H; specialize (HCR x H); rewrite app_nil_r in HCR; contradiction).
        destruct (Hmax x Hxn HxC) as (u & Hu & Hn). specialize (HCR u Hu). rewrite app_nil_r in HCR.
        rewrite (Hadj x u) in Hn; [discriminate|left; reflexivity|exact HCR].
      * exact Nd.
  - exists cs. split; [exact Ecs|]. split; [|split].
    + intros c Hc. destruct (Snd c Hc) as (H1 & H2 & H3 & H4 & _). auto.
    + intros C HC HRC HCP. destruct (existsb (fun v => existsb (Nat.eqb v) C) (p :: P')) eqn:E.
      * apply existsb_exists in E. destruct E as (v & Hv & Hv'). apply existsb_exists in Hv'. destruct Hv' as (w & Hw & Ew). apply Nat.eqb_eq in Ew. subst w.
        apply Cpl; auto. exists v. auto.
      * (* C inside R: but p extends R *)
        exfalso. assert (HCR : forall x, In x C -> In x R).
        { intros x Hx. specialize (HCP x Hx). apply in_app_or in HCP. destruct HCP as [H|H]; [exact H|]. exfalso.
          assert (existsb (fun v => existsb (Nat.eqb v) C) (p :: P') = true); [|congruence].
          apply existsb_exists. exists x. split; [exact H|]. apply existsb_exists. exists x. split; [exact Hx|apply Nat.eqb_refl]. }
        destruct HC as (HcC & HCn & Hmax).
        assert (Hpn : p < n) by (apply Hlt; apply in_or_app; right; left; reflexivity).
        assert (HpR : ~ In p R) by (intros H; apply (HRPX p H); left; reflexivity).
        assert (HpC : ~ In p C) by (intros H; apply HpR; apply HCR; exact H).
        destruct (Hmax p Hpn HpC) as (u & Hu & Hn). rewrite (Hadj p u) in Hn; [discriminate|left; reflexivity|apply HCR; exact Hu].
    + exact Nd.
Qed.

(* GetMaximalCliques: every maximal clique exactly once (as a vertex set), and nothing else *)
Theorem bron_kerbosch_exact order : Permutation order (seq 0 n) ->
  exists cs, max_cliques g order = Some cs /\
    (forall c, In c cs -> NoDup c /\ maxcliqueP g n c) /\
    (forall C, maxcliqueP g n C -> exists c, In c cs /\ same c C) /\
    nodupS cs.
Proof.
  intros Hperm. rewrite top_alias_harmless.
  assert (Hin : forall x, In x order <-> x < n).
  { intros x. split; intros H.
    - apply (Permutation_in _ Hperm) in H. apply in_seq in H. lia.
    - apply (Permutation_in _ (Permutation_sym Hperm)). apply in_seq. lia. }
  assert (Hinv : inv [] order []).
  { unfold inv. repeat split.
    - eapply Permutation_NoDup; [apply Permutation_sym; exact Hperm|apply seq_NoDup].
    - constructor.
    - intros x _ [].
    - intros x [].
    - intros u w [].
    - intros v r _ [].
    - intros v Hv _ _. rewrite app_nil_r. apply Hin. exact Hv.
    - intros x Hx. cbn [app] in Hx. rewrite app_nil_r in Hx. apply Hin. exact Hx. }
  destruct (bk_correct (S (length order)) [] order [] ltac:(lia) Hinv) as (cs & E & (Snd & Cpl & Nd)).
  exists cs. split; [exact E|]. split; [|split; [|exact Nd]].
  - intros c Hc. destruct (Snd c Hc) as (H1 & H2 & _). auto.
  - intros C0 HC. apply Cpl; [exact HC|intros x []|]. intros x Hx. cbn [app]. apply Hin. destruct HC as (_ & Hn & _). apply Hn. exact Hx.
Qed.
End BK.

(* (2) the fuel suffices on every graph without self-loops, whatever P and X are *)
Theorem bk_fuel g : irrefl g -> forall fuel R P X, length P < fuel -> bk g fuel R P X <> None.
Proof.
  intros Hirr. induction fuel as [|f IH]; intros R P X Hlen; [lia|]. cbn [bk].
  assert (L : forall P X acc, length P <= f -> bk_loop (bk g f) g R P X acc <> None).
  { induction P0 as [|v P' IHP]; intros X0 acc Hl; cbn [bk_loop]; [discriminate|].
    destruct (bk g f (R ++ [v]) (inter g (v :: P') v) (inter g X0 v)) as [cs|] eqn:E.
    - apply IHP. cbn [length] in Hl. lia.
    - exfalso. revert E. apply IH. rewrite (inter_self g Hirr). pose proof (inter_length_le g P' v). cbn [length] in Hl. lia. }
  destruct P as [|p P']; [destruct X; [discriminate|apply L; cbn [length]; lia]|apply L; lia].
Qed.

(* the hypotheses of bron_kerbosch_exact are satisfiable: the single edge 0-1 *)
Example bk_example : sym [[1]; [0]] /\ irrefl [[1]; [0]] /\ Permutation [1; 0] (seq 0 2).
Proof.
  assert (Hbig : forall u v, 2 <= u -> nbr [[1]; [0]] u v = false).
  { intros u v Hu. unfold nbr. rewrite nth_overflow by (cbn [length]; lia). reflexivity. }
  assert (Hbig' : forall u v, u < 2 -> 2 <= v -> nbr [[1]; [0]] u v = false).
  { intros u v Hu Hv. unfold nbr. destruct u as [|[|u]]; [| |lia]; cbn [nth existsb]; rewrite orb_false_r; apply Nat.eqb_neq; lia. }
  split; [|split].
  - intros u v. destruct (le_lt_dec 2 u) as [Hu|Hu]; destruct (le_lt_dec 2 v) as [Hv|Hv].
    + rewrite !Hbig by assumption. reflexivity.
    + rewrite (Hbig u v Hu), (Hbig' v u Hv Hu). reflexivity.
    + rewrite (Hbig v u Hv), (Hbig' u v Hu Hv). reflexivity.
    + destruct u as [|[|u]]; [| |lia]; (destruct v as [|[|v]]; [| |lia]); reflexivity.
  - intros v. destruct (le_lt_dec 2 v) as [Hv|Hv]; [apply Hbig; exact Hv|]. destruct v as [|[|v]]; [| |lia]; reflexivity.
  - apply perm_swap.
Qed.
