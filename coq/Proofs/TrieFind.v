(* C05 — the matching walk of the executable model (Match / find: goto with fail fallback, output chain) over a table
   whose fail links are right (FailOK, established by Proofs/TrieBuild.v) computes the abstract walk of Proofs/TrieAbs.v:
   after reading the runes x the state is the longest suffix of x in the trie and the chain reports exactly the
   end-marked suffixes of x, longest first.  Rune level, with the byte offsets the model computes through `size`. *)
From Coq Require Import List ZArith Lia Bool Arith.
From V Require Import Model.Trie Proofs.TrieTable Proofs.TrieInsert Proofs.TrieAbs Proofs.TrieAbsFind Proofs.TrieBuild.
Import ListNotations.

Module M := V.Model.Trie.
Module A := V.Proofs.TrieAbs.
Module AF := V.Proofs.TrieAbsFind.

Section Find.
Variable T0 T : trie.
Hypothesis HW : WF T0.
Hypothesis HS : SE T0 T.
Hypothesis HF : FailOK T0 T.
Hypothesis HE : forall w, is_end T0 w = true -> w <> [].

Notation inT0 := (inT0 T0).
Notation kids0 := (kids0 T0).
Notation lps := (A.lps inT0).
Notation lsuf := (A.lsuf inT0).
Definition isEnd0 (w : list Z) : bool := is_end T0 w.

Let inT_nil := inT_nil T0 HW.
Let inT_prefix := inT_prefix T0 HW.
Let kids_spec := kids_spec T0 HW.

Lemma isEnd_inT : forall w, isEnd0 w = true -> inT0 w = true /\ w <> [].
Proof.
  intros w H. split; [|apply HE; exact H]. unfold isEnd0, is_end in H. unfold TrieBuild.inT0, inT. destruct (get T0 w); [reflexivity|discriminate].
Qed.

Lemma best_inT (x v : list Z) : A.best inT0 x = Some v -> inT0 v = true.
Proof.
  revert v. induction x as [|b t IH]; cbn [A.best]; intros v H.
  - rewrite inT_nil in H. inversion H; subst. exact inT_nil.
  - destruct (inT0 (b :: t)) eqn:E; [inversion H; subst; exact E|apply IH, H].
Qed.
Lemma lsuf_inT x : inT0 (lsuf x) = true.
Proof. unfold A.lsuf. destruct (A.best_inT_some inT0 inT_nil x) as [v Hv]. rewrite Hv. eapply best_inT; eauto. Qed.
Lemma lsuf_length x : length (lsuf x) <= length x.
Proof. unfold A.lsuf. destruct (A.best_inT_some inT0 inT_nil x) as [v Hv]. rewrite Hv. eapply A.best_length; eauto. Qed.

(* ---- the transition ---- *)
Lemma goto_sim v : forall fuel nd, inT0 nd = true -> length nd < fuel ->
  exists n idx, M.goto fuel T nd v = Ok (n, idx) /\
    ((0 <=? idx)%Z = true -> child_at T n idx = A.cf inT0 fuel nd v) /\
    ((0 <=? idx)%Z = false -> n = [] /\ A.cf inT0 fuel nd v = []).
Proof.
  induction fuel as [|k IH]; intros nd Hin Hf; [lia|]. cbn [M.goto A.cf].
  rewrite (SE_kids T0 T nd HS).
  destruct (0 <=? index (kids0 nd) v)%Z eqn:E.
  - rewrite orb_true_r. exists nd, (index (kids0 nd) v). split; [reflexivity|]. split; [|congruence]. intros _.
    apply (index_iff _ _ (wf_sorted T0 HW nd)) in E as Hk.
    assert (Ez : (0 <= index (kids0 nd) v)%Z) by (apply Z.leb_le; exact E).
    destruct (index_found _ _ (wf_sorted T0 HW nd) Ez) as [_ En].
    unfold child_at. rewrite (SE_kids T0 T nd HS). unfold TrieBuild.kids0 in *. rewrite En.
    apply kids_spec in Hk. unfold TrieBuild.inT0 in *. rewrite Hk. reflexivity.
  - assert (Hn : inT0 (nd ++ [v]) = false).
    { destruct (inT0 (nd ++ [v])) eqn:E2; [|reflexivity]. apply kids_spec in E2.
      apply (index_iff _ _ (wf_sorted T0 HW nd)) in E2. unfold TrieBuild.kids0 in E. congruence. }
    rewrite Hn. rewrite orb_false_r. destruct nd as [|a t].
    + cbn [is_root]. exists [], (index (kids0 []) v). split; [reflexivity|]. split; [congruence|]. intros _. auto.
    + cbn [is_root]. rewrite (HF (a :: t) Hin ltac:(discriminate)).
      apply IH.
      * apply A.lps_inT; [exact inT_nil|discriminate].
      * pose proof (A.lps_shorter inT0 a t). cbn [length] in Hf. lia.
Qed.

(* the node after reading one more rune *)
Lemma step_sim x v : exists n idx, M.goto (S (length (lsuf x))) T (lsuf x) v = Ok (n, idx) /\
  ((0 <=? idx)%Z = true -> child_at T n idx = lsuf (x ++ [v])) /\
  ((0 <=? idx)%Z = false -> n = [] /\ lsuf (x ++ [v]) = []).
Proof.
  destruct (goto_sim v (S (length (lsuf x))) (lsuf x) (lsuf_inT x) ltac:(lia)) as (n & idx & E & H1 & H2).
  exists n, idx. split; [exact E|].
  pose proof (A.goto_lsuf inT0 inT_nil inT_prefix x v) as G. unfold A.goto in G. rewrite G in H1, H2. auto.
Qed.

(* ---- the output chain ---- *)
Definition ends (x : list Z) : list (list Z) := filter isEnd0 (A.suffixes x).

Lemma ends_chain x : ends x = filter isEnd0 (A.chain inT0 (S (length x)) (lsuf x)).
Proof.
  unfold ends. rewrite (A.outputs_complete inT0 inT_nil x). symmetry. apply (AF.filter_isEnd inT0 isEnd0 isEnd_inT).
Qed.
Lemma chain_fuel f1 f2 u : length u < f1 -> length u < f2 -> inT0 u = true -> A.chain inT0 f1 u = A.chain inT0 f2 u.
Proof. intros H1 H2 Hu. rewrite !(A.chain_spec inT0 inT_nil) by auto. reflexivity. Qed.

Lemma outputs_sim i : forall fuel tmp acc, inT0 tmp = true -> length tmp < fuel ->
  M.outputs fuel T tmp i acc = Ok (rev (map (fun u => ((i - size_of T0 u)%Z, i)) (filter isEnd0 (A.chain inT0 fuel tmp))) ++ acc).
Proof.
  induction fuel as [|k IH]; intros tmp acc Hin Hf; [lia|]. cbn [M.outputs A.chain].
  destruct tmp as [|a t]; [reflexivity|].
  rewrite (HF (a :: t) Hin ltac:(discriminate)). rewrite (SE_end T0 T (a :: t) HS), (SE_size T0 T (a :: t) HS).
  rewrite IH.
  - cbn [filter]. fold (isEnd0 (a :: t)). destruct (isEnd0 (a :: t)); cbn [map rev]; rewrite <- ?app_assoc; reflexivity.
  - apply A.lps_inT; [exact inT_nil|discriminate].
  - pose proof (A.lps_shorter inT0 a t). cbn [length] in Hf. lia.
Qed.

Lemma any_output_sim : forall fuel tmp, inT0 tmp = true -> length tmp < fuel ->
  M.any_output fuel T tmp = Ok (existsb isEnd0 (A.chain inT0 fuel tmp)).
Proof.
  induction fuel as [|k IH]; intros tmp Hin Hf; [lia|]. cbn [M.any_output A.chain].
  destruct tmp as [|a t]; [reflexivity|]. cbn [existsb]. rewrite (SE_end T0 T (a :: t) HS). fold (isEnd0 (a :: t)).
  destruct (isEnd0 (a :: t)); [reflexivity|]. cbn [orb].
  rewrite (HF (a :: t) Hin ltac:(discriminate)). apply IH.
  - apply A.lps_inT; [exact inT_nil|discriminate].
  - pose proof (A.lps_shorter inT0 a t). cbn [length] in Hf. lia.
Qed.

(* ---- find ---- *)
Fixpoint afind (x : list Z) (i : Z) (toks : list (Z * nat)) : list (Z * Z) :=
  match toks with
  | [] => []
  | (v, w) :: rest =>
      let x' := x ++ [v] in let i' := (i + Z.of_nat w)%Z in
      map (fun u => ((i' - size_of T0 u)%Z, i')) (ends x') ++ afind x' i' rest
  end.

Theorem find_go_sim : forall toks x i acc, M.find_go T (lsuf x) i toks acc = Ok (rev acc ++ afind x i toks).
Proof.
  induction toks as [|[v w] rest IH]; intros x i acc; cbn [M.find_go afind].
  - rewrite app_nil_r. reflexivity.
  - destruct (step_sim x v) as (n & idx & E & H1 & H2). rewrite E. cbv zeta.
    destruct (0 <=? idx)%Z eqn:Ei.
    + rewrite (H1 eq_refl). rewrite outputs_sim by (auto using lsuf_inT).
      rewrite IH. f_equal. rewrite rev_app_distr, rev_involutive, <- app_assoc. f_equal. f_equal. f_equal.
      rewrite ends_chain. f_equal. apply chain_fuel; auto using lsuf_inT. pose proof (lsuf_length (x ++ [v])). lia.
    + destruct (H2 eq_refl) as [-> Hl]. rewrite <- Hl at 1. rewrite IH. f_equal. f_equal.
      rewrite ends_chain, Hl. reflexivity.
Qed.

Fixpoint amatch (x : list Z) (toks : list (Z * nat)) : bool :=
  match toks with
  | [] => false
  | (v, _) :: rest => (match ends (x ++ [v]) with [] => false | _ => true end) || amatch (x ++ [v]) rest
  end.

Lemma existsb_filter {X} (f : X -> bool) l : existsb f l = match filter f l with [] => false | _ => true end.
Proof. induction l as [|a l IH]; cbn [existsb filter]; [reflexivity|]. destruct (f a); [reflexivity|exact IH]. Qed.

Theorem match_go_sim : forall toks x, M.match_go T (lsuf x) toks = Ok (amatch x toks).
Proof.
  induction toks as [|[v w] rest IH]; intros x; cbn [M.match_go amatch]; [reflexivity|].
  destruct (step_sim x v) as (n & idx & E & H1 & H2). rewrite E.
  destruct (0 <=? idx)%Z eqn:Ei.
  - rewrite (H1 eq_refl). rewrite any_output_sim by (auto using lsuf_inT).
    rewrite existsb_filter. rewrite ends_chain.
    rewrite (chain_fuel (S (length (lsuf (x ++ [v])))) (S (length (x ++ [v]))) (lsuf (x ++ [v]))); auto using lsuf_inT.
    2:{ pose proof (lsuf_length (x ++ [v])). lia. }
    destruct (filter isEnd0 (A.chain inT0 (S (length (x ++ [v]))) (lsuf (x ++ [v])))); [apply IH|reflexivity].
  - destruct (H2 eq_refl) as [-> Hl]. rewrite <- Hl at 1. rewrite IH. rewrite ends_chain, Hl. reflexivity.
Qed.

Lemma lsuf_nil : lsuf [] = [].
Proof. unfold A.lsuf. cbn [A.best]. rewrite inT_nil. reflexivity. Qed.

Theorem find_sim text : M.find T text = Ok (afind [] 0 (tokens text)).
Proof. unfold M.find. rewrite <- lsuf_nil at 1. rewrite find_go_sim. reflexivity. Qed.
Theorem match_sim text : M.match_ T text = Ok (amatch [] (tokens text)).
Proof. unfold M.match_. rewrite <- lsuf_nil at 1. apply match_go_sim. Qed.

Lemma amatch_afind : forall toks x i, amatch x toks = match afind x i toks with [] => false | _ => true end.
Proof.
  induction toks as [|[v w] rest IH]; intros x i; cbn [amatch afind]; [reflexivity|].
  destruct (ends (x ++ [v])); cbn [map app orb]; [apply IH|reflexivity].
Qed.
End Find.
