(* C12: the invariant of the RWMutex step machine (Model/SafeKV.v) for well-locked method skeletons. *)
From Coq Require Import List Arith Lia Bool ZArith.
From V Require Import Lib.Enc Gen.SafeKVSkel Model.SafeKV.
Import ListNotations.

Definition code (t : thread) : list item := map E (cur t) ++ rest t.

Definition isR (t : thread) : bool := match hold t with Some R => true | _ => false end.
Definition isW (t : thread) : bool := match hold t with Some W => true | _ => false end.
Definition cntR (l : list thread) : nat := length (filter isR l).
Definition cntW (l : list thread) : nat := length (filter isW l).

(* per-thread facts: the remaining code is well-locked from the lock state the thread is in; a reader's section has seen
   only its snapshot and the map still is that snapshot; a writer's section: the map is its own writes applied to the snapshot *)
Definition tok (m : map_) (t : thread) : Prop :=
  wl (hold t) (code t) = true /\
  match hold t with
  | Some R => m = snap t /\ Forall (fun x => x = snap t) (seen t) /\ done_ t = []
  | Some W => m = apply_all (done_ t) (snap t)
  | None => True
  end.

Record Inv (c : config) : Prop := {
  i_t : Forall (tok (mp c)) (ths c);
  i_r : readers (lk c) = cntR (ths c);
  i_w : (if writer (lk c) then 1 else 0) = cntW (ths c);
  i_ex : writer (lk c) = true -> readers (lk c) = 0
}.

(* ---------------------------------------------------------------- list lemmas *)
Lemma cnt_upd (f : thread -> bool) l i t t' : nth_error l i = Some t ->
  length (filter f (upd l i t')) + (if f t then 1 else 0) = length (filter f l) + (if f t' then 1 else 0).
Proof.
  revert i; induction l as [|a l IH]; intros [|i] H; cbn [nth_error upd] in *; try discriminate.
  - inversion H; subst. cbn [filter]. destruct (f t), (f t'); cbn [length]; lia.
  - specialize (IH i H). cbn [filter]. destruct (f a); cbn [length]; lia.
Qed.
Lemma upd_same {A} (l : list A) i t : nth_error l i = Some t -> upd l i t = l.
Proof.
  revert i; induction l as [|a l IH]; intros [|i] H; cbn [nth_error upd] in *; try discriminate; auto.
  - inversion H; reflexivity.
  - f_equal. apply IH; auto.
Qed.
Lemma Forall_upd_others {A} (P : A -> Prop) l i x :
  (forall j y, j <> i -> nth_error l j = Some y -> P y) -> P x -> Forall P (upd l i x).
Proof.
  revert i; induction l as [|a l IH]; intros [|i] H Hx; cbn [upd]; constructor; auto.
  - apply Forall_forall. intros y Hy. apply In_nth_error in Hy as [j Hj]. apply (H (S j)); [lia|exact Hj].
  - apply (H 0); [lia|reflexivity].
  - apply IH; auto. intros j y Hj Hy. apply (H (S j)); [lia|exact Hy].
Qed.
Lemma filter_one {A} (f : A -> bool) l i a : nth_error l i = Some a -> f a = true -> 1 <= length (filter f l).
Proof.
  revert i; induction l as [|x l IH]; intros [|i] H Ha; cbn [nth_error] in *; try discriminate.
  - inversion H; subst. cbn [filter]. rewrite Ha. cbn; lia.
  - cbn [filter]. specialize (IH i H Ha). destruct (f x); cbn [length]; lia.
Qed.
Lemma filter_two {A} (f : A -> bool) l i j a b :
  i <> j -> nth_error l i = Some a -> nth_error l j = Some b -> f a = true -> f b = true -> 2 <= length (filter f l).
Proof.
  revert i j; induction l as [|x l IH]; intros [|i] [|j] Hij Hi Hj Ha Hb; cbn [nth_error] in *; try discriminate; try lia.
  - inversion Hi; subst. cbn [filter]. rewrite Ha. cbn [length]. pose proof (filter_one f l j b Hj Hb). lia.
  - inversion Hj; subst. cbn [filter]. rewrite Hb. cbn [length]. pose proof (filter_one f l i a Hi Ha). lia.
  - assert (i <> j) by lia. specialize (IH i j H Hi Hj Ha Hb). cbn [filter]. destruct (f x); cbn [length]; lia.
Qed.
Lemma apply_all_snoc fs f m : apply_all (fs ++ [f]) m = f (apply_all fs m).
Proof. unfold apply_all. rewrite fold_left_app. reflexivity. Qed.
Lemma apply_all_app a b m : apply_all (a ++ b) m = apply_all b (apply_all a m).
Proof. unfold apply_all. apply fold_left_app. Qed.

(* ---------------------------------------------------------------- lock discipline lemmas *)
Lemma wl_body h b t : forallb (acc_ok h) b = true -> wl h t = true -> wl h (map E b ++ t) = true.
Proof.
  induction b as [|e b IH]; intros Hb Ht; cbn [map app]; auto. cbn [forallb] in Hb. apply andb_prop in Hb as [He Hb].
  destruct e; cbn [acc_ok] in He; try discriminate; cbn [wl acc_ok]; rewrite ?He; cbn [andb]; apply IH; auto.
Qed.
Lemma wl_star h b r : wl h (Star b :: r) = true -> wl h (map E b ++ Star b :: r) = true /\ wl h r = true.
Proof. intros H. pose proof H as H'. cbn [wl] in H. apply andb_prop in H as [Hb Hr]. split; auto. apply wl_body; auto. Qed.
Lemma wl_nil h : wl h [] = true -> h = None.
Proof. destruct h; cbn; congruence. Qed.

Section Methods.
Variable methods : list (list item).
Hypothesis methods_ok : forallb well_locked methods = true.
Local Notation step := (step methods).
Local Notation run := (run methods).

Lemma method_wl k : wl None (nth k methods []) = true.
Proof.
  destruct (nth_in_or_default k methods []) as [Hin|E0]; [|rewrite E0; reflexivity].
  rewrite forallb_forall in methods_ok. apply methods_ok, Hin.
Qed.

(* a step that only changes the code of thread i (control decision, CallUser, starting a method) *)
Lemma code_step_inv c i t t' :
  Inv c -> nth_error (ths c) i = Some t ->
  hold t' = hold t -> snap t' = snap t -> seen t' = seen t -> done_ t' = done_ t -> wl (hold t') (code t') = true ->
  Inv {| lk := lk c; mp := mp c; ths := upd (ths c) i t' |}.
Proof.
  intros [Ht Hr Hw Hex] Hi Eh Es Ee Ed Hwl.
  assert (Hti : tok (mp c) t) by (rewrite Forall_forall in Ht; apply Ht; eapply nth_error_In; eauto).
  pose proof (cnt_upd isR (ths c) i t t' Hi) as CR. pose proof (cnt_upd isW (ths c) i t t' Hi) as CW.
  unfold isR, isW in CR, CW. rewrite Eh in CR, CW.
  constructor; cbn [lk mp ths]; unfold cntR, cntW, isR, isW in *; auto; try lia.
  apply Forall_upd_others.
  - intros j y _ Hy. rewrite Forall_forall in Ht. apply Ht. eapply nth_error_In; eauto.
  - destruct Hti as [_ Hg]. split; auto. rewrite Eh, Es, Ee, Ed. exact Hg.
Qed.

Lemma exec_inv c i t e cd rs ch l' m' t' :
  Inv c -> nth_error (ths c) i = Some t -> wl (hold t) (E e :: map E cd ++ rs) = true ->
  exec_ev (lk c) (mp c) t e cd rs ch = (l', m', t') ->
  Inv {| lk := l'; mp := m'; ths := upd (ths c) i t' |}.
Proof.
  intros HI Hi Hwl Hex0. pose proof HI as [Ht Hr Hw Hex].
  assert (Hti : tok (mp c) t) by (rewrite Forall_forall in Ht; apply Ht; eapply nth_error_In; eauto).
  assert (Hothers : forall j y, j <> i -> nth_error (ths c) j = Some y -> tok (mp c) y)
    by (intros j y _ Hy; rewrite Forall_forall in Ht; apply Ht; eapply nth_error_In; eauto).
  pose proof (cnt_upd isR (ths c) i t) as CR. pose proof (cnt_upd isW (ths c) i t) as CW.
  unfold cntR, cntW in *. destruct Hti as [_ Hg].
  destruct t as [cu rs0 h sn se dn]. cbn [hold snap seen done_] in *. unfold isR, isW in *. cbn [hold] in CR, CW.
  destruct e as [mo|mo|lo|lo|]; cbn [wl acc_ok] in Hwl; cbn [exec_ev hold snap seen done_] in Hex0.
  - (* Acq *)
    destruct h; [discriminate|]. destruct mo.
    + destruct (negb (writer (lk c))) eqn:Ew; inversion Hex0; subst; clear Hex0.
      * match goal with |- Inv {| lk := _; mp := _; ths := upd _ _ ?t' |} => specialize (CR t' Hi); specialize (CW t' Hi) end. cbn [hold] in *.
        constructor; cbn [lk mp ths writer readers]; unfold cntR, cntW, isR, isW; auto; try lia.
        -- apply Forall_upd_others; auto. split; [exact Hwl|]. cbn [hold snap seen done_]. auto.
        -- intros E0. rewrite E0 in Ew. discriminate.
      * rewrite (upd_same _ _ _ Hi). destruct c; exact HI.
    + destruct (negb (writer (lk c)) && (readers (lk c) =? 0)) eqn:Ew; inversion Hex0; subst; clear Hex0.
      * apply andb_prop in Ew. destruct Ew as [Ew Er]. apply Nat.eqb_eq in Er. apply negb_true_iff in Ew.
        match goal with |- Inv {| lk := _; mp := _; ths := upd _ _ ?t' |} => specialize (CR t' Hi); specialize (CW t' Hi) end. cbn [hold] in *.
        rewrite Ew in Hw. constructor; cbn [lk mp ths writer readers]; unfold cntR, cntW, isR, isW; auto; try lia.
        apply Forall_upd_others; auto. split; [exact Hwl|]. cbn [hold snap done_]. reflexivity.
      * rewrite (upd_same _ _ _ Hi). destruct c; exact HI.
  - (* Rel *)
    destruct h as [[|]|]; destruct mo; try discriminate; inversion Hex0; subst; clear Hex0;
      match goal with |- Inv {| lk := _; mp := _; ths := upd _ _ ?t' |} => specialize (CR t' Hi); specialize (CW t' Hi) end; cbn [hold] in *;
      constructor; cbn [lk mp ths writer readers]; unfold cntR, cntW, isR, isW; auto; try lia.
    all: try (apply Forall_upd_others; auto; split; [exact Hwl|exact I]).
    all: try discriminate.
    all: try (intros E0; specialize (Hex E0); lia).
    all: try (destruct (writer (lk c)); lia).
  - (* Rd *)
    apply andb_prop in Hwl as [Ha Hwl]. destruct h as [mh|]; [|discriminate]. inversion Hex0; subst; clear Hex0.
    match goal with |- Inv {| lk := _; mp := _; ths := upd _ _ ?t' |} => specialize (CR t' Hi); specialize (CW t' Hi) end. cbn [hold] in *.
    constructor; cbn [lk mp ths]; unfold cntR, cntW, isR, isW; auto; try (destruct mh; lia).
    apply Forall_upd_others; auto. split; [exact Hwl|]. cbn [hold snap seen done_]. destruct mh; auto.
    destruct Hg as (E1 & E2 & E3). repeat split; auto. apply Forall_app. split; auto.
  - (* Wr: only under the write lock, and then nobody else holds anything *)
    apply andb_prop in Hwl as [Ha Hwl]. destruct h as [[|]|]; try discriminate. inversion Hex0; subst; clear Hex0.
    match goal with |- Inv {| lk := _; mp := _; ths := upd _ _ ?t' |} => specialize (CR t' Hi); specialize (CW t' Hi) end. cbn [hold] in *.
    assert (Hwr : writer (lk c) = true).
    { destruct (writer (lk c)); auto. exfalso.
      assert (1 <= length (filter isW (ths c))) by (eapply filter_one; eauto; reflexivity). unfold isW in *. lia. }
    constructor; cbn [lk mp ths]; unfold cntR, cntW, isR, isW; auto; try lia.
    apply Forall_upd_others.
    + intros j y Hj Hy. destruct (Hothers j y Hj Hy) as [Hwy Hgy]. split; auto.
      destruct (hold y) as [[|]|] eqn:Ehy; auto.
      * exfalso. assert (1 <= length (filter isR (ths c))) by (eapply filter_one; eauto; unfold isR; rewrite Ehy; reflexivity).
        specialize (Hex Hwr). unfold isR in *. lia.
      * exfalso. assert (2 <= length (filter isW (ths c))).
        { eapply (filter_two _ _ i j); eauto; unfold isW; cbn [hold]; rewrite ?Ehy; reflexivity. }
        rewrite Hwr in Hw. unfold isW in *. lia.
    + split; [exact Hwl|]. cbn [hold snap done_]. rewrite apply_all_snoc, <- Hg. reflexivity.
  - (* CallUser *)
    inversion Hex0; subst; clear Hex0. destruct c as [lkc mpc thsc]. cbn [lk mp ths] in *.
    apply (code_step_inv {| lk := lkc; mp := mpc; ths := thsc |} i _ _ HI Hi); auto.
Qed.

Theorem step_inv c ch : Inv c -> Inv (step c ch).
Proof.
  intros HI. unfold SafeKV.step. destruct (nth_error (ths c) (tid ch)) as [t|] eqn:Hi; [|exact HI].
  assert (Hti : tok (mp c) t) by (destruct HI as [Ht _ _ _]; rewrite Forall_forall in Ht; apply Ht; eapply nth_error_In; eauto).
  destruct Hti as [Hwl _]. unfold code in Hwl. unfold tstep.
  destruct (cur t) as [|e cd] eqn:Ec.
  - cbn [map app] in Hwl. destruct (rest t) as [|[e|b] r] eqn:Er.
    + (* idle: start a method *)
      apply wl_nil in Hwl. apply (code_step_inv c (tid ch) t _ HI Hi); auto. unfold with_code, code. cbn [cur rest hold map app].
      rewrite Hwl. apply method_wl.
    + destruct (exec_ev (lk c) (mp c) t e [] r ch) as [[l' m'] t'] eqn:Ex.
      eapply (exec_inv c (tid ch) t e [] r ch); eauto.
    + apply wl_star in Hwl as [H1 H2]. destruct (again ch).
      * apply (code_step_inv c (tid ch) t _ HI Hi); auto.
      * apply (code_step_inv c (tid ch) t _ HI Hi); auto.
  - cbn [map app] in Hwl. destruct (exec_ev (lk c) (mp c) t e cd (rest t) ch) as [[l' m'] t'] eqn:Ex.
    eapply (exec_inv c (tid ch) t e cd (rest t) ch); eauto.
Qed.

Lemma run_inv sched : forall c, Inv c -> Inv (run c sched).
Proof. induction sched as [|e t IH]; intros c H; cbn [SafeKV.run fold_left]; auto. apply IH, step_inv, H. Qed.
End Methods.

Lemma init_inv n m0 : Inv (init n m0).
Proof.
  assert (HR : cntR (repeat idle n) = 0) by (unfold cntR; induction n; cbn; auto).
  assert (HW : cntW (repeat idle n) = 0) by (unfold cntW; induction n; cbn; auto).
  constructor; cbn [init lk mp ths writer readers]; auto; try discriminate.
  apply Forall_forall. intros t Ht. apply repeat_spec in Ht. subst. split; [reflexivity|exact I].
Qed.
