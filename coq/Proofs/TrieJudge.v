(* C05 — the judge of the differential run accepts the model: on every canonical case (insert the patterns, build, query)
   the four outputs of the executable model satisfy exactly the conditions Model/TrieCase.c05_ok checks on the
   implementation's outputs (Match equal, FindAll / PrefixSearch multiset-equal to the specification's lists in the reading
   the judge selects, FuzzySearch within the inserted patterns). *)
From Coq Require Import List ZArith Lia Bool Arith Permutation.
From V Require Import Lib.Utf8 Model.Trie Proofs.TrieInsert Proofs.TrieRunes Proofs.TrieOcc Proofs.TrieTop Proofs.TrieFuzzy Proofs.TrieValid.
Import ListNotations.

Module M := V.Model.Trie.

(* ---- perm_b decides multiset equality ---- *)
Lemma remove1_in x : forall b, In x b -> exists b', remove1 x b = Some b' /\ Permutation b (x :: b').
Proof.
  induction b as [|y b IH]; intros Hin; [destruct Hin|]. cbn [remove1]. destruct (beqb x y) eqn:E.
  - apply beqb_eq in E. subst y. exists b. split; [reflexivity|apply Permutation_refl].
  - destruct Hin as [->|Hin]; [rewrite (proj2 (beqb_eq x x) eq_refl) in E; discriminate|].
    destruct (IH Hin) as (b' & E' & P). rewrite E'. exists (y :: b'). split; [reflexivity|].
    apply (perm_trans (perm_skip y P)). apply perm_swap.
Qed.
Lemma perm_b_complete : forall a b, Permutation a b -> perm_b a b = true.
Proof.
  induction a as [|x a IH]; intros b P.
  - apply Permutation_nil in P. subst b. reflexivity.
  - cbn [perm_b]. assert (Hin : In x b) by (apply (Permutation_in _ P); left; reflexivity).
    destruct (remove1_in x b Hin) as (b' & E & P'). rewrite E. apply IH.
    apply (Permutation_cons_inv (a := x)). apply (perm_trans P P').
Qed.

(* ---- the specification's occurrence list has no duplicates ---- *)
Lemma occs_nodup al ps t : NoDup (occs al ps t).
Proof.
  unfold occs.
  assert (G : forall (f : nat -> list (nat * nat)) l, NoDup l -> (forall e, NoDup (f e)) -> (forall e x, In x (f e) -> snd x = e) -> NoDup (flat_map f l)).
  { intros f. induction l as [|e l IH]; intros Hn Hf Hs; cbn [flat_map]; [constructor|]. inversion Hn; subst.
    apply TrieAbsFind.nodup_app; [apply Hf|apply IH; auto|].
    intros x Hx1 Hx2. apply in_flat_map in Hx2. destruct Hx2 as (e' & He' & Hx). apply Hs in Hx1. apply Hs in Hx. subst. contradiction. }
  apply G; [apply seq_NoDup| |].
  - intros e. unfold occs_ending.
    assert (G2 : forall (g : nat -> list (nat * nat)) l, NoDup l -> (forall s, NoDup (g s)) -> (forall s x, In x (g s) -> fst x = s) -> NoDup (flat_map g l)).
    { intros g. induction l as [|s l IH]; intros Hn Hg Hs; cbn [flat_map]; [constructor|]. inversion Hn; subst.
      apply TrieAbsFind.nodup_app; [apply Hg|apply IH; auto|].
      intros x Hx1 Hx2. apply in_flat_map in Hx2. destruct Hx2 as (s' & Hs' & Hx). apply Hs in Hx1. apply Hs in Hx. subst. contradiction. }
    apply G2; [apply seq_NoDup| |].
    + intros s. destruct (existsb _ _); [constructor; [intros []|constructor]|constructor].
    + intros s x Hx. destruct (existsb _ _); [destruct Hx as [<-|[]]; reflexivity|destruct Hx].
  - intros e x Hx. unfold occs_ending in Hx. apply in_flat_map in Hx. destruct Hx as (s & _ & Hx).
    destruct (existsb _ _); [destruct Hx as [<-|[]]; reflexivity|destruct Hx].
Qed.

Lemma dedup_nodup l : NoDup (dedup l).
Proof.
  induction l as [|x l IH]; cbn [dedup]; [constructor|]. destruct (memb x l) eqn:E; [exact IH|].
  constructor; [|exact IH]. intros Hin. apply (proj1 (dedup_in x l)) in Hin. apply (proj2 (memb_iff x l)) in Hin. rewrite Hin in E. discriminate.
Qed.
Lemma spec_prefix_nodup al ps key : NoDup (spec_prefix al ps key).
Proof. unfold spec_prefix. apply NoDup_filter. unfold patterns. apply dedup_nodup. Qed.

Definition zz (se : nat * nat) : Z * Z := (Z.of_nat (fst se), Z.of_nat (snd se)).

Theorem model_accepted ps text T : Forall is_bytes ps -> is_bytes text -> built ps T ->
  M.match_ T text = Ok (spec_match (mode_of ps) ps text) /\
  (exists l, M.find_all T text = Ok l /\ perm_b l (spec_find_all (mode_of ps) ps text) = true) /\
  (exists l, M.prefix_search T text = Ok l /\ perm_b l (spec_prefix (negb (valid_utf8 text)) ps text) = true) /\
  (exists l, M.fuzzy_search T text = Ok l /\ forallb (fun x => memb x (patterns ps)) l = true).
Proof.
  intros Hps Hb E.
  (* the reading the judge selects yields the aligned lists *)
  assert (Hocc : occs (mode_of ps) ps text = occs true ps text).
  { destruct (mode_of ps) eqn:Em; [reflexivity|]. pose proof (proj1 (judge_plain_is_aligned ps text Hps Hb) Em) as H. rewrite Em in H. exact H. }
  assert (Hpre : spec_prefix (negb (valid_utf8 text)) ps text = spec_prefix true ps text).
  { destruct (valid_utf8 text) eqn:Ev; [|reflexivity]. cbn [negb]. apply spec_prefix_valid_eq; assumption. }
  split; [|split; [|split]].
  - destruct (match_iff_occurs ps text T Hps Hb E) as (b & Eb & Hbi). rewrite Eb. f_equal.
    unfold spec_match. rewrite Hocc. destruct (occs true ps text) as [|[s e] l] eqn:Eo.
    + destruct b; [|reflexivity]. destruct (proj1 Hbi eq_refl) as (s & e & Ho). apply occurrence_occs in Ho. rewrite Eo in Ho. destruct Ho as (_ & _ & []).
    + destruct b; [reflexivity|]. assert (true = true -> False); [|tauto]. intros _.
      assert (Ho : occurrence ps text (Z.of_nat s) (Z.of_nat e)).
      { apply occurrence_occs. split; [lia|]. split; [lia|]. rewrite !Nat2Z.id, Eo. left. reflexivity. }
      assert (false = true) by (apply Hbi; eauto). discriminate.
  - destruct (find_all_correct ps text T Hps Hb E) as (sc & l & Ef & Hn & Hi & El & F2). exists l. split; [exact El|].
    apply perm_b_complete. unfold spec_find_all. rewrite Hocc.
    (* sc is a permutation of the specification's occurrences; the slices are the same strings *)
    assert (P : Permutation sc (map zz (occs true ps text))).
    { apply NoDup_Permutation; [exact Hn| |].
      - apply FinFun.Injective_map_NoDup; [|apply occs_nodup]. intros [a b] [c d] H. unfold zz in H. cbn [fst snd] in H. inversion H. f_equal; lia.
      - intros [s e]. rewrite Hi, occurrence_occs, in_map_iff. split.
        + intros (Hs & He & Hin). exists (Z.to_nat s, Z.to_nat e). split; [unfold zz; cbn [fst snd]; f_equal; lia|exact Hin].
        + intros ([a b] & Ez & Hin). unfold zz in Ez. cbn [fst snd] in Ez. inversion Ez; subst. rewrite !Nat2Z.id. split; [lia|]. split; [lia|exact Hin]. }
    assert (Hl : l = map (fun se => firstn (Z.to_nat (snd se - fst se)) (skipn (Z.to_nat (fst se)) text)) sc).
    { clear -F2. induction F2 as [|[s e] x sc l [Hs _] _ IH]; [reflexivity|]. cbn [map fst snd] in *. f_equal; [|exact IH].
      unfold slice in Hs. destruct ((0 <=? s)%Z && (s <=? e)%Z && (e <=? Z.of_nat (length text))%Z); [|discriminate]. inversion Hs. reflexivity. }
    rewrite Hl. apply (Permutation_map (fun se => firstn (Z.to_nat (snd se - fst se)) (skipn (Z.to_nat (fst se)) text))) in P.
    rewrite map_map in P. apply (perm_trans P). apply Permutation_refl'. apply map_ext. intros [s e]. unfold sub, zz. cbn [fst snd].
    rewrite Nat2Z.id. f_equal. lia.
  - destruct (prefix_search_spec ps text T Hps Hb E) as (l & El & Hn & Hi). exists l. split; [exact El|].
    apply perm_b_complete. rewrite Hpre. apply NoDup_Permutation; [exact Hn|apply spec_prefix_nodup|exact Hi].
  - destruct (fuzzy_search_sound ps text T Hps Hb E) as (l & El & Hl). exists l. split; [exact El|].
    apply forallb_forall. intros x Hx. apply memb_iff. apply patterns_in. apply Hl. exact Hx.
Qed.

(* ---- the same statement on the integer encoding Run/C05.v executes: sub 2 answers 1 on the model's own output ---- *)
From V Require Import Lib.Enc Model.TrieCase.
Local Open Scope Z_scope.

Lemma get_list_put (x rest : list Z) : get_list (put_list x ++ rest) = (x, rest).
Proof.
  unfold get_list, put_list. cbn [app]. rewrite Nat2Z.id. f_equal.
  - rewrite firstn_app, Nat.sub_diag, firstn_all. cbn [firstn]. apply app_nil_r.
  - rewrite skipn_app, skipn_all, Nat.sub_diag. reflexivity.
Qed.
Lemma get_lists_put : forall (l : list (list Z)) rest, get_lists (length l) (put_lists l ++ rest) = (l, rest).
Proof.
  induction l as [|x l IH]; intros rest; [reflexivity|]. cbn [length get_lists put_lists]. rewrite <- app_assoc, get_list_put, IH. reflexivity.
Qed.
Lemma get_strings_enc (l : list (list Z)) rest : get_strings (Z.of_nat (length l) :: (put_lists l ++ rest)) = (Some l, rest).
Proof.
  unfold get_strings. destruct (Z.ltb_spec (Z.of_nat (length l)) 0); [lia|]. rewrite Nat2Z.id, get_lists_put. reflexivity.
Qed.

Lemma run_ops_inserts : forall ps T, run_ops T (map OInsert ps ++ [OBuild]) = M.build (fold_left insert ps T).
Proof.
  induction ps as [|p ps IH]; intros T; cbn [map app run_ops fold_left].
  - destruct (M.build T); reflexivity.
  - apply IH.
Qed.
Lemma inserted_inserts ps : inserted (map OInsert ps ++ [OBuild]) = ps.
Proof. induction ps as [|p ps IH]; cbn [map app inserted]; [reflexivity|]. rewrite IH. reflexivity. Qed.
Lemma canonical_inserts ps : canonical (map OInsert ps ++ [OBuild]) = true.
Proof. unfold canonical. rewrite rev_app_distr. reflexivity. Qed.

Theorem judge_accepts_model ps text : Forall is_bytes ps -> is_bytes text ->
  let ops := map OInsert ps ++ [OBuild] in
  c05_ok ops text (c05_model ops text) = true.
Proof.
  intros Hps Hb ops. destruct (built_exists ps) as (T & E).
  destruct (model_accepted ps text T Hps Hb E) as (Hm & (l1 & E1 & P1) & (l2 & E2 & P2) & (l3 & E3 & P3)).
  unfold c05_model, c05_ok, ops. rewrite run_ops_inserts, canonical_inserts, inserted_inserts. cbn [negb].
  unfold built, inserts in E. rewrite E. rewrite Hm, E1, E2, E3.
  cbn [enc_bool_res enc_list_res cat_opts out_of app].
  rewrite !get_strings_enc. rewrite Z.eqb_refl, P1, P2, P3. reflexivity.
Qed.
