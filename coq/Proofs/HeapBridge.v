(* C04 — the executable loops (int indices, checked accesses, fuel, generic container) compute exactly the pure
   loops whenever the indices are in range: they never panic and never run out of fuel there.
   Generic part: any container whose Less/Swap agree with an array view [arr] on in-range indices and keep an
   invariant [Inv]; then the instance for the plain slice ([lessL]/[swapL]). *)
From Coq Require Import List Arith ZArith Lia Bool PeanoNat.
From V Require Import Model.Heap Proofs.HeapSift.
Import ListNotations.

Lemma nthZ_ok {X : Type} (dx : X) (s : list X) (a : nat) : a < length s -> nthZ s (Z.of_nat a) = Ok (nth a s dx).
Proof.
  intros H. unfold nthZ. destruct (Z.ltb_spec (Z.of_nat a) 0); [lia|].
  rewrite Nat2Z.id. rewrite (nth_error_nth' s dx H). reflexivity.
Qed.
Lemma nthZ_bad {X : Type} (s : list X) (z : Z) : (z < 0 \/ Zlen s <= z)%Z -> nthZ s z = Panic.
Proof.
  intros H. unfold nthZ, Zlen in *. destruct (Z.ltb_spec z 0); [reflexivity|].
  destruct (nth_error s (Z.to_nat z)) eqn:E; [|reflexivity].
  assert (Z.to_nat z < length s) by (apply nth_error_Some; congruence). lia.
Qed.

Section Pure.
Variable A : Type.
Variable d : A.
Variable lt : A -> A -> bool.
Local Notation swap := (Heap.swap A d).
Local Notation down_go := (Heap.down_go A d lt).
Local Notation up_go := (Heap.up_go A d lt).

(* more fuel than needed changes nothing *)
Lemma down_go_fuel : forall f s i n, n <= i + f -> down_go (S f) s i n = down_go f s i n.
Proof.
  induction f as [|f IH]; intros s i n H.
  - cbn [Heap.down_go]. destruct (Nat.leb_spec n (2 * i + 1)); [reflexivity|lia].
  - remember (S f) as f1. cbn [Heap.down_go]. subst f1.
    destruct (Nat.leb_spec n (2 * i + 1)); [cbn [Heap.down_go]; destruct (Nat.leb_spec n (2 * i + 1)); [reflexivity|lia]|].
    change (down_go (S f) s i n) with
      (if n <=? 2 * i + 1 then (s, i) else
       let j := if (2 * i + 1 + 1 <? n) && lt (nth (2 * i + 1 + 1) s d) (nth (2 * i + 1) s d) then 2 * i + 1 + 1 else 2 * i + 1 in
       if lt (nth j s d) (nth i s d) then down_go f (swap s i j) j n else (s, i)).
    destruct (Nat.leb_spec n (2 * i + 1)); [lia|]. cbv zeta.
    set (j := if (2 * i + 1 + 1 <? n) && lt (nth (2 * i + 1 + 1) s d) (nth (2 * i + 1) s d) then 2 * i + 1 + 1 else 2 * i + 1).
    assert (Hj : 2 * i + 1 <= j) by (unfold j; destruct ((2 * i + 1 + 1 <? n) && _); lia).
    destruct (lt (nth j s d) (nth i s d)); [|reflexivity]. apply IH. lia.
Qed.
Lemma down_go_fuel_ge : forall f f' s i n, n <= i + f -> f <= f' -> down_go f' s i n = down_go f s i n.
Proof.
  intros f f' s i n H Hle. induction Hle as [|f' Hle IH]; [reflexivity|]. rewrite down_go_fuel by lia. exact IH.
Qed.
Lemma up_go_fuel : forall f s j, j <= f -> up_go (S f) s j = up_go f s j.
Proof.
  induction f as [|f IH]; intros s j H.
  - assert (j = 0) by lia. subst j. reflexivity.
  - remember (S f) as f1. cbn [Heap.up_go]. subst f1.
    change (up_go (S f) s j) with
      (if ((j - 1) / 2 =? j) || negb (lt (nth j s d) (nth ((j - 1) / 2) s d)) then s else up_go f (swap s ((j - 1) / 2) j) ((j - 1) / 2)).
    destruct (((j - 1) / 2 =? j) || negb (lt (nth j s d) (nth ((j - 1) / 2) s d))); [reflexivity|].
    apply IH. assert ((j - 1) / 2 <= j - 1) by (apply Nat.div_le_upper_bound; lia). lia.
Qed.
Lemma up_go_fuel_ge : forall f f' s j, j <= f -> f <= f' -> up_go f' s j = up_go f s j.
Proof.
  intros f f' s j H Hle. induction Hle as [|f' Hle IH]; [reflexivity|]. rewrite up_go_fuel by lia. exact IH.
Qed.
End Pure.

Section Bridge.
Variable S : Type.
Variable less : S -> Z -> Z -> res bool.
Variable swp : S -> Z -> Z -> res S.
Variable A : Type.
Variable d : A.
Variable lt : A -> A -> bool.
Variable arr : S -> list A.
Variable Inv : S -> Prop.
Local Notation swap := (Heap.swap A d).
Local Notation down_go := (Heap.down_go A d lt).
Local Notation up_go := (Heap.up_go A d lt).
Local Notation build_from := (Heap.build_from A d lt).
Local Notation gdown_go := (Heap.gdown_go S less swp).
Local Notation gdown := (Heap.gdown S less swp).
Local Notation gup_go := (Heap.gup_go S less swp).
Local Notation gfix := (Heap.gfix S less swp).
Local Notation gbuild_from := (Heap.gbuild_from S less swp).

Hypothesis less_ok : forall s a b, Inv s -> a < length (arr s) -> b < length (arr s) ->
  less s (Z.of_nat a) (Z.of_nat b) = Ok (lt (nth a (arr s) d) (nth b (arr s) d)).
Hypothesis swp_ok : forall s a b, Inv s -> a < length (arr s) -> b < length (arr s) ->
  exists s', swp s (Z.of_nat a) (Z.of_nat b) = Ok s' /\ arr s' = swap (arr s) a b /\ Inv s'.

Lemma gdown_go_ok : forall f s i n, Inv s -> n <= length (arr s) -> n <= i + f ->
  exists s', gdown_go (Datatypes.S f) s (Z.of_nat i) (Z.of_nat n) = Ok (s', Z.of_nat (snd (down_go f (arr s) i n))) /\
             arr s' = fst (down_go f (arr s) i n) /\ Inv s'.
Proof.
  induction f as [|f IH]; intros s i n HI Hn Hf.
  - exists s. cbn [Heap.gdown_go Heap.down_go fst snd].
    destruct (Z.geb_spec (2 * Z.of_nat i + 1) (Z.of_nat n)); [|lia]. cbn [orb]. auto.
  - remember (Datatypes.S f) as f1. cbn [Heap.gdown_go]. subst f1.
    change (down_go (Datatypes.S f) (arr s) i n) with
      (if n <=? 2 * i + 1 then (arr s, i) else
       let j := if (2 * i + 1 + 1 <? n) && lt (nth (2 * i + 1 + 1) (arr s) d) (nth (2 * i + 1) (arr s) d) then 2 * i + 1 + 1 else 2 * i + 1 in
       if lt (nth j (arr s) d) (nth i (arr s) d) then down_go f (swap (arr s) i j) j n else (arr s, i)).
    replace (2 * Z.of_nat i + 1)%Z with (Z.of_nat (2 * i + 1)) by lia.
    destruct (Nat.leb_spec n (2 * i + 1)) as [H1|H1].
    + destruct (Z.geb_spec (Z.of_nat (2 * i + 1)) (Z.of_nat n)); [|lia]. cbn [orb fst snd]. exists s. auto.
    + destruct (Z.geb_spec (Z.of_nat (2 * i + 1)) (Z.of_nat n)); [lia|].
      destruct (Z.ltb_spec (Z.of_nat (2 * i + 1)) 0); [lia|]. cbn [orb]. cbv zeta.
      replace (Z.of_nat (2 * i + 1) + 1)%Z with (Z.of_nat (2 * i + 1 + 1)) by lia.
      assert (Ej : (if (Z.of_nat (2 * i + 1 + 1) <? Z.of_nat n)%Z then less s (Z.of_nat (2 * i + 1 + 1)) (Z.of_nat (2 * i + 1)) else Ok false) =
                   Ok ((2 * i + 1 + 1 <? n) && lt (nth (2 * i + 1 + 1) (arr s) d) (nth (2 * i + 1) (arr s) d))).
      { destruct (Nat.ltb_spec (2 * i + 1 + 1) n) as [H2|H2].
        - destruct (Z.ltb_spec (Z.of_nat (2 * i + 1 + 1)) (Z.of_nat n)); [|lia]. rewrite less_ok by (auto; lia). reflexivity.
        - destruct (Z.ltb_spec (Z.of_nat (2 * i + 1 + 1)) (Z.of_nat n)); [lia|]. reflexivity. }
      rewrite Ej. cbn [bind].
      set (b := (2 * i + 1 + 1 <? n) && lt (nth (2 * i + 1 + 1) (arr s) d) (nth (2 * i + 1) (arr s) d)).
      set (j := if b then 2 * i + 1 + 1 else 2 * i + 1).
      replace (if b then Z.of_nat (2 * i + 1 + 1) else Z.of_nat (2 * i + 1)) with (Z.of_nat j) by (unfold j; destruct b; reflexivity).
      assert (Hj : 2 * i + 1 <= j /\ j < n).
      { unfold j, b. destruct (Nat.ltb_spec (2 * i + 1 + 1) n); cbn [andb]; [destruct (lt _ _)|]; lia. }
      rewrite less_ok by (auto; lia). cbn [bind].
      destruct (lt (nth j (arr s) d) (nth i (arr s) d)).
      * destruct (swp_ok s i j HI ltac:(lia) ltac:(lia)) as (s1 & E1 & A1 & I1). rewrite E1. cbn [bind].
        destruct (IH s1 j n I1) as (s' & E' & A' & I').
        { rewrite A1, swap_length. exact Hn. } { lia. }
        rewrite A1 in E', A'. exists s'. auto.
      * exists s. cbn [fst snd]. auto.
Qed.

Lemma gup_go_ok : forall f s j, Inv s -> j < length (arr s) -> j <= f ->
  exists s', gup_go (Datatypes.S f) s (Z.of_nat j) = Ok s' /\ arr s' = up_go f (arr s) j /\ Inv s'.
Proof.
  induction f as [|f IH]; intros s j HI Hj Hf.
  - assert (j = 0) by lia. subst j. exists s. cbn. auto.
  - remember (Datatypes.S f) as f1. cbn [Heap.gup_go]. subst f1.
    change (up_go (Datatypes.S f) (arr s) j) with
      (if ((j - 1) / 2 =? j) || negb (lt (nth j (arr s) d) (nth ((j - 1) / 2) (arr s) d)) then arr s
       else up_go f (swap (arr s) ((j - 1) / 2) j) ((j - 1) / 2)).
    destruct j as [|j'].
    + cbn. exists s. auto.
    + set (j := Datatypes.S j') in *.
      assert (Eq : Z.quot (Z.of_nat j - 1) 2 = Z.of_nat ((j - 1) / 2)).
      { rewrite Z.quot_div_nonneg by lia. rewrite Nat2Z.inj_div. f_equal. lia. }
      rewrite Eq. set (i := (j - 1) / 2) in *.
      assert (Hi : i < j) by (unfold i; assert ((j - 1) / 2 <= j - 1) by (apply Nat.div_le_upper_bound; lia); lia).
      destruct (Z.eqb_spec (Z.of_nat i) (Z.of_nat j)); [lia|].
      destruct (Nat.eqb_spec i j); [lia|]. cbn [orb].
      rewrite less_ok by (auto; lia). cbn [bind].
      destruct (lt (nth j (arr s) d) (nth i (arr s) d)); cbn [negb].
      * destruct (swp_ok s i j HI ltac:(lia) ltac:(lia)) as (s1 & E1 & A1 & I1). rewrite E1. cbn [bind].
        destruct (IH s1 i I1) as (s' & E' & A' & I').
        { rewrite A1, swap_length. lia. } { lia. }
        rewrite A1 in A'. exists s'. auto.
      * exists s. auto.
Qed.

Lemma down_go_length : forall f (l : list A) i n, i < n -> n <= length l -> length (fst (down_go f l i n)) = length l.
Proof.
  induction f as [|f IH]; intros l i n Hi Hn; cbn [Heap.down_go fst]; [reflexivity|].
  destruct (Nat.leb_spec n (2 * i + 1)); [reflexivity|].
  set (j := if (2 * i + 1 + 1 <? n) && lt (nth (2 * i + 1 + 1) l d) (nth (2 * i + 1) l d) then 2 * i + 1 + 1 else 2 * i + 1).
  assert (Hj : j < n) by (unfold j; destruct (Nat.ltb_spec (2 * i + 1 + 1) n); cbn [andb]; [destruct (lt _ _)|]; lia).
  destruct (lt (nth j l d) (nth i l d)); [|reflexivity]. rewrite IH by (rewrite ?swap_length; lia). apply swap_length.
Qed.

(* fix: down, and up only when nothing moved *)
Lemma gfix_ok f s i n : Inv s -> n <= length (arr s) -> i < n -> n <= i + f -> i <= f ->
  exists s', gfix (Datatypes.S f) s (Z.of_nat i) (Z.of_nat n) = Ok s' /\
             arr s' = (let r := down_go f (arr s) i n in if i <? snd r then fst r else up_go f (fst r) i) /\ Inv s'.
Proof.
  intros HI Hn Hi Hf Hf2. unfold Heap.gfix, Heap.gdown.
  destruct (gdown_go_ok f s i n HI Hn Hf) as (s1 & E1 & A1 & I1). rewrite E1. cbn [bind fst snd].
  cbv zeta. set (r := down_go f (arr s) i n) in *.
  replace (Z.of_nat (snd r) >? Z.of_nat i)%Z with (i <? snd r).
  2:{ destruct (Nat.ltb_spec i (snd r)); destruct (Z.gtb_spec (Z.of_nat (snd r)) (Z.of_nat i)); auto; lia. }
  destruct (i <? snd r).
  - exists s1. auto.
  - assert (L1 : length (arr s1) = length (arr s)).
    { rewrite A1. unfold r. apply down_go_length; lia. }
    destruct (gup_go_ok f s1 i I1) as (s' & E' & A' & I'); [lia|lia|].
    rewrite A1 in A'. exists s'. auto.
Qed.

(* build: k rounds of down from k-1 to 0, all with the bound n = len *)
Lemma gbuild_from_ok : forall k s, Inv s -> k <= length (arr s) ->
  exists s', gbuild_from (Datatypes.S (length (arr s))) k s (Z.of_nat (length (arr s))) = Ok s' /\
             arr s' = build_from k (arr s) /\ Inv s'.
Proof.
  induction k as [|k IH]; intros s HI Hk; cbn [Heap.gbuild_from Heap.build_from].
  - exists s. auto.
  - unfold Heap.gdown.
    destruct (gdown_go_ok (length (arr s)) s k (length (arr s)) HI ltac:(lia) ltac:(lia)) as (s1 & E1 & A1 & I1).
    rewrite E1. cbn [bind fst snd].
    assert (L1 : length (arr s1) = length (arr s)) by (rewrite A1; apply down_go_length; lia).
    destruct (IH s1 I1 ltac:(lia)) as (s' & E' & A' & I'). rewrite L1 in E'. rewrite A1 in A'. exists s'. auto.
Qed.
(* the same with the fuel the operations pass (S len) and the fuel the pure definitions use *)
Local Notation down := (Heap.down A d lt).
Local Notation up := (Heap.up A d lt).
Local Notation fix_ := (Heap.fix_ A d lt).
Local Notation build := (Heap.build A d lt).
Lemma gdown_ok s i n : Inv s -> n <= length (arr s) ->
  exists s', gdown (Datatypes.S (length (arr s))) s (Z.of_nat i) (Z.of_nat n) = Ok (s', snd (down (arr s) i n)) /\
             arr s' = fst (down (arr s) i n) /\ Inv s'.
Proof.
  intros HI Hn. unfold Heap.gdown.
  destruct (gdown_go_ok (length (arr s)) s i n HI Hn ltac:(lia)) as (s' & E & A1 & I1).
  rewrite E. cbn [bind fst snd]. unfold Heap.down.
  rewrite (down_go_fuel_ge A d lt n (length (arr s)) (arr s) i n) in A1 |- * by lia.
  destruct (down_go n (arr s) i n) as [s2 i2]. cbn [fst snd] in *. exists s'. split; [|auto]. f_equal. f_equal.
  destruct (Nat.ltb_spec i i2); destruct (Z.gtb_spec (Z.of_nat i2) (Z.of_nat i)); auto; lia.
Qed.
Lemma gup_ok s j : Inv s -> j < length (arr s) ->
  exists s', gup_go (Datatypes.S (length (arr s))) s (Z.of_nat j) = Ok s' /\ arr s' = up (arr s) j /\ Inv s'.
Proof.
  intros HI Hj. destruct (gup_go_ok (length (arr s)) s j HI Hj ltac:(lia)) as (s' & E & A1 & I1).
  exists s'. split; [exact E|]. split; [|exact I1]. rewrite A1. unfold Heap.up.
  rewrite (up_go_fuel_ge A d lt j (length (arr s))) by lia. rewrite (up_go_fuel_ge A d lt j (Datatypes.S j)) by lia. reflexivity.
Qed.
Lemma gfix_ok' s i n : Inv s -> n <= length (arr s) -> i < n ->
  exists s', gfix (Datatypes.S (length (arr s))) s (Z.of_nat i) (Z.of_nat n) = Ok s' /\ arr s' = fix_ (arr s) i n /\ Inv s'.
Proof.
  intros HI Hn Hi. destruct (gfix_ok (length (arr s)) s i n HI Hn Hi ltac:(lia) ltac:(lia)) as (s' & E & A1 & I1).
  exists s'. split; [exact E|]. split; [|exact I1]. rewrite A1. cbv zeta. unfold Heap.fix_, Heap.down, Heap.up.
  rewrite (down_go_fuel_ge A d lt n (length (arr s)) (arr s) i n) by lia.
  destruct (down_go n (arr s) i n) as [s2 i2]. cbn [fst snd].
  destruct (i <? i2); [reflexivity|].
  rewrite (up_go_fuel_ge A d lt i (length (arr s))) by lia. rewrite (up_go_fuel_ge A d lt i (Datatypes.S i)) by lia. reflexivity.
Qed.
Lemma gbuild_ok s : Inv s ->
  exists s', Heap.gbuild S less swp (Datatypes.S (length (arr s))) s (Zlen (arr s)) = Ok s' /\ arr s' = build (arr s) /\ Inv s'.
Proof.
  intros HI. unfold Heap.gbuild, Heap.build, Zlen.
  assert (E2 : Z.to_nat (Z.of_nat (length (arr s)) / 2) = length (arr s) / 2).
  { change 2%Z with (Z.of_nat 2). rewrite <- Nat2Z.inj_div. apply Nat2Z.id. }
  rewrite E2. apply gbuild_from_ok; auto. apply Nat.div_le_upper_bound; lia.
Qed.
End Bridge.

(* ------------------------------------------------------------------ the plain slice *)
Section ListInst.
Variable A : Type.
Variable d : A.
Variable lt : A -> A -> bool.
Local Notation swap := (Heap.swap A d).
Local Notation lessL := (Heap.lessL A lt).
Local Notation swapL := (Heap.swapL A).

Lemma lessL_ok (s : list A) a b : True -> a < length s -> b < length s ->
  lessL s (Z.of_nat a) (Z.of_nat b) = Ok (lt (nth a s d) (nth b s d)).
Proof. intros _ Ha Hb. unfold Heap.lessL. rewrite (nthZ_ok d), (nthZ_ok d) by auto. reflexivity. Qed.
Lemma swapL_ok (s : list A) a b : True -> a < length s -> b < length s ->
  exists s', swapL s (Z.of_nat a) (Z.of_nat b) = Ok s' /\ s' = swap s a b /\ True.
Proof.
  intros _ Ha Hb. unfold Heap.swapL. rewrite (nthZ_ok d), (nthZ_ok d) by auto. cbn [bind]. rewrite !Nat2Z.id.
  eexists. split; [reflexivity|]. split; auto.
Qed.
End ListInst.
