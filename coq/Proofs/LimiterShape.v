(* C19: the statement shapes of goz.Limiter / goz.Recover the event model relies on (regenerated from the source). *)
From Coq Require Import List ZArith Bool.
From V Require Import Lib.Enc Gen.ConstsGoz Model.Limiter.
Lemma code_shape : code_shape_ok = true.
Proof. vm_compute. reflexivity. Qed.

