(* C05 — Insert: from the empty trie every sequence of inserts yields a well-formed table (Proofs/TrieTable.WF);
   isEnd marks exactly the rune words of the inserted non-empty patterns; no fail link is set; the size field of a
   node is the byte length of its word. *)
From Coq Require Import List ZArith Lia Bool Arith.
From V Require Import Lib.Utf8 Proofs.Utf8Facts Model.Trie Proofs.TrieTable.
Import ListNotations.
Local Open Scope Z_scope.

Definition add_child (T : trie) (cur : word) (r : Z) (sz : Z) : trie :=
  upd T cur (set_kids (insert_at (find_child_index (kids_of T cur) r) r (kids_of T cur)))
    ++ [(cur ++ [r], mkNode [] None sz false)].

Lemma get_add_child T cur r sz w : get (add_child T cur r sz) w =
  if weqb cur w then option_map (set_kids (insert_at (find_child_index (kids_of T cur) r) r (kids_of T cur))) (get T w)
  else match get T w with Some x => Some x | None => if weqb (cur ++ [r]) w then Some (mkNode [] None sz false) else None end.
Proof.
  unfold add_child. rewrite get_app, get_upd. destruct (weqb cur w) eqn:E.
  - destruct (get T w); cbn [option_map]; [reflexivity|]. apply weqb_eq in E. subst w.
    rewrite (weqb_neq (cur ++ [r]) cur (snoc_neq_self cur r)). reflexivity.
  - reflexivity.
Qed.

Lemma inT_add_child T cur r sz w : inT T cur = true ->
  inT (add_child T cur r sz) w = inT T w || weqb (cur ++ [r]) w.
Proof.
  intros Hc. unfold inT in *. rewrite get_add_child. destruct (weqb cur w) eqn:E.
  - apply weqb_eq in E. subst w. destruct (get T cur); [reflexivity|discriminate].
  - destruct (get T w); [reflexivity|]. destruct (weqb (cur ++ [r]) w); reflexivity.
Qed.
Lemma is_end_add_child T cur r sz w : is_end (add_child T cur r sz) w = is_end T w.
Proof.
  unfold is_end. rewrite get_add_child. destruct (weqb cur w).
  - destruct (get T w); reflexivity.
  - destruct (get T w); [reflexivity|]. destruct (weqb (cur ++ [r]) w); reflexivity.
Qed.
Lemma fail_add_child T cur r sz w : fail_of (add_child T cur r sz) w = fail_of T w.
Proof.
  unfold fail_of. rewrite get_add_child. destruct (weqb cur w).
  - destruct (get T w); reflexivity.
  - destruct (get T w); [reflexivity|]. destruct (weqb (cur ++ [r]) w); reflexivity.
Qed.
Lemma size_add_child T cur r sz w : inT T (cur ++ [r]) = false ->
  size_of (add_child T cur r sz) w = if weqb (cur ++ [r]) w then sz else size_of T w.
Proof.
  intros Hn. unfold size_of. rewrite get_add_child. destruct (weqb cur w) eqn:E.
  - apply weqb_eq in E. subst w. rewrite (weqb_neq (cur ++ [r]) cur (snoc_neq_self cur r)). destruct (get T cur); reflexivity.
  - destruct (weqb (cur ++ [r]) w) eqn:E2.
    + apply weqb_eq in E2. subst w. unfold inT in Hn. destruct (get T (cur ++ [r])); [discriminate|reflexivity].
    + destruct (get T w); reflexivity.
Qed.

Lemma is_end_set_end T cur w : inT T cur = true -> is_end (upd T cur set_end) w = is_end T w || weqb cur w.
Proof.
  intros Hc. unfold is_end, inT in *. rewrite get_upd. destruct (weqb cur w) eqn:E.
  - apply weqb_eq in E. subst w. destruct (get T cur); [cbn; rewrite orb_true_r; reflexivity|discriminate].
  - rewrite orb_false_r. reflexivity.
Qed.
Lemma fail_upd_keep T cur f w : (forall n, fail (f n) = fail n) -> fail_of (upd T cur f) w = fail_of T w.
Proof.
  intros H. unfold fail_of. rewrite get_upd. destruct (weqb cur w); [destruct (get T w); cbn [option_map]; rewrite ?H|]; reflexivity.
Qed.
Lemma size_upd_keep T cur f w : (forall n, nsize (f n) = nsize n) -> size_of (upd T cur f) w = size_of T w.
Proof.
  intros H. unfold size_of. rewrite get_upd. destruct (weqb cur w); [destruct (get T w); cbn [option_map]; rewrite ?H|]; reflexivity.
Qed.

(* byte length of a word *)
Definition SZ (w : word) : Z := Z.of_nat (length (wbytes w)).
Lemma wbytes_snoc w r : wbytes (w ++ [r]) = wbytes w ++ write_rune r.
Proof. unfold wbytes. rewrite map_app, concat_app. cbn [map concat]. rewrite app_nil_r. reflexivity. Qed.
Lemma SZ_snoc w r : SZ (w ++ [r]) = SZ w + Z.of_nat (length (write_rune r)).
Proof. unfold SZ. rewrite wbytes_snoc, app_length. lia. Qed.

Lemma weqb_swap_iff (a b : word) : weqb a b = weqb b a.
Proof. apply weqb_sym. Qed.

Theorem insert_go_spec : forall toks T cur i, WF T -> inT T cur = true ->
  let T' := insert_go T cur i toks in
  WF T' /\
  (forall w, inT T w = true -> inT T' w = true) /\
  (forall w, is_end T' w = is_end T w || weqb (cur ++ map fst toks) w) /\
  ((forall w, fail_of T w = None) -> forall w, fail_of T' w = None) /\
  ((forall w, inT T w = true -> size_of T w = SZ w) -> i = SZ cur ->
   Forall (fun rw => length (write_rune (fst rw)) = snd rw) toks ->
   forall w, inT T' w = true -> size_of T' w = SZ w).
Proof.
  induction toks as [|[r wd] rest IH]; intros T cur i HW Hc; cbn [insert_go map fst].
  - rewrite app_nil_r. cbv zeta. split; [apply WF_upd_keep; auto|]. split; [intros w H; rewrite inT_upd; exact H|].
    split; [intros w; apply is_end_set_end; exact Hc|]. split.
    + intros H w. rewrite fail_upd_keep by reflexivity. apply H.
    + intros H _ _ w Hw. rewrite inT_upd in Hw. rewrite size_upd_keep by reflexivity. apply H. exact Hw.
  - cbv zeta. rewrite (insert_test (kids_of T cur) r (wf_sorted T HW cur)).
    replace (cur ++ r :: map fst rest) with ((cur ++ [r]) ++ map fst rest) by (rewrite <- app_assoc; reflexivity).
    destruct (in_dec Z.eq_dec r (kids_of T cur)) as [Hin|Hnin]; cbn [negb].
    + (* the child exists *)
      assert (Hc2 : inT T (cur ++ [r]) = true) by (apply (wf_kids T HW); exact Hin).
      destruct (IH T (cur ++ [r]) (i + Z.of_nat wd) HW Hc2) as (A & B & C & D & E).
      split; [exact A|]. split; [exact B|]. split; [exact C|]. split; [exact D|].
      intros Hs Hi Hf w Hw. inversion Hf as [|? ? Hr Hf']; subst. cbn [fst snd] in Hr. apply E; auto.
      rewrite SZ_snoc, Hr. reflexivity.
    + (* a new child *)
      fold (add_child T cur r (i + Z.of_nat wd)).
      assert (HW2 : WF (add_child T cur r (i + Z.of_nat wd))) by (apply WF_add_child; auto).
      assert (Hnew : inT T (cur ++ [r]) = false).
      { destruct (inT T (cur ++ [r])) eqn:E; [|reflexivity]. exfalso. apply Hnin. apply (wf_kids T HW). exact E. }
      assert (Hc2 : inT (add_child T cur r (i + Z.of_nat wd)) (cur ++ [r]) = true)
        by (rewrite inT_add_child by exact Hc; rewrite weqb_refl, orb_true_r; reflexivity).
      destruct (IH (add_child T cur r (i + Z.of_nat wd)) (cur ++ [r]) (i + Z.of_nat wd) HW2 Hc2) as (A & B & C & D & E).
      split; [exact A|]. split; [|split; [|split]].
      * intros w Hw. apply B. rewrite inT_add_child by exact Hc. rewrite Hw. reflexivity.
      * intros w. rewrite C, is_end_add_child. reflexivity.
      * intros H w. apply D. intros v. rewrite fail_add_child. apply H.
      * intros Hs Hi Hf w Hw. inversion Hf as [|? ? Hr Hf']; subst. cbn [fst snd] in Hr. apply E; auto.
        -- intros v Hv. rewrite size_add_child by exact Hnew. rewrite inT_add_child in Hv by exact Hc.
           destruct (weqb (cur ++ [r]) v) eqn:Ev.
           ++ apply weqb_eq in Ev. subst v. rewrite SZ_snoc, Hr. reflexivity.
           ++ rewrite orb_false_r in Hv. apply Hs. exact Hv.
        -- rewrite SZ_snoc, Hr. reflexivity.
Qed.

(* ---- tokens: widths are at least one, so the fuel (the length) suffices and the widths add up ---- *)
Lemma decode_rune_width s : s <> [] -> (1 <= snd (decode_rune s) <= length s)%nat.
Proof.
  intros Hs. destruct s as [|b t]; [congruence|]. unfold decode_rune.
  destruct (b <? Gen.Trie.rune_self); [cbn; lia|].
  pose proof (decode_width (b :: t) ltac:(discriminate)) as [H1 H2].
  destruct (decode (b :: t)) as [r w]. cbn [snd] in *.
  destruct ((r =? RuneError) && Nat.eqb w 1); cbn [snd length] in *; lia.
Qed.

Lemma tokens_nonempty p : p <> [] -> tokens p <> [].
Proof.
  intros H. destruct p as [|b t]; [congruence|]. unfold tokens. cbn [length tokens_fuel].
  destruct (decode_rune (b :: t)). discriminate.
Qed.
Lemma runes_of_nonempty p : p <> [] -> runes_of p <> [].
Proof.
  intros H. unfold runes_of. pose proof (tokens_nonempty p H). destruct (tokens p); [congruence|discriminate].
Qed.

(* widths reported by the decoder are the byte lengths of what writeRune writes back (proved for byte strings in TrieRunes.v) *)
Definition tok_ok (p : bytes) : Prop := Forall (fun rw => length (write_rune (fst rw)) = snd rw) (tokens p).

Record INS (ps : list bytes) (T : trie) : Prop := {
  ins_wf : WF T;
  ins_end : forall w, is_end T w = true <-> exists p, In p ps /\ p <> [] /\ runes_of p = w;
  ins_fail : forall w, fail_of T w = None;
  ins_size : Forall tok_ok ps -> forall w, inT T w = true -> size_of T w = SZ w
}.

Lemma INS_empty : INS [] empty_trie.
Proof.
  constructor.
  - exact WF_empty.
  - intros w. unfold is_end, empty_trie. cbn [get]. destruct (weqb [] w); cbn [isEnd]; (split; [discriminate|intros (p & [] & _)]).
  - intros w. unfold fail_of, empty_trie. cbn [get]. destruct (weqb [] w); reflexivity.
  - intros _ w Hw. unfold inT, empty_trie in Hw. cbn [get] in Hw. destruct (weqb [] w) eqn:E; [|discriminate].
    apply weqb_eq in E. subst w. reflexivity.
Qed.

Lemma INS_insert ps T p : INS ps T -> INS (ps ++ [p]) (insert T p).
Proof.
  intros [HW HE HF HS]. destruct p as [|b t].
  - cbn [insert]. constructor; auto.
    + intros w. rewrite HE. split; intros (p & Hp & Hne & Hr); exists p; (split; [|split; auto]).
      * apply in_or_app. left. exact Hp.
      * apply in_app_or in Hp. destruct Hp as [Hp|[<-|[]]]; [exact Hp|congruence].
    + intros Hf. apply HS. rewrite Forall_app in Hf. tauto.
  - unfold insert.
    destruct (insert_go_spec (tokens (b :: t)) T [] 0 HW (wf_root T HW)) as (A & B & C & D & E).
    cbn [app] in C. fold (runes_of (b :: t)) in C.
    constructor.
    + exact A.
    + intros w. rewrite C, orb_true_iff, HE, weqb_eq. split.
      * intros [(p & Hp & Hne & Hr)|H].
        -- exists p. split; [apply in_or_app; left; exact Hp|auto].
        -- exists (b :: t). split; [apply in_or_app; right; left; reflexivity|]. split; [discriminate|exact H].
      * intros (p & Hp & Hne & Hr). apply in_app_or in Hp. destruct Hp as [Hp|[<-|[]]].
        -- left. exists p. auto.
        -- right. exact Hr.
    + apply D. exact HF.
    + intros Hf. rewrite Forall_app in Hf. destruct Hf as [Hf1 Hf2]. inversion Hf2; subst. apply E; auto.
Qed.

Lemma INS_inserts_from : forall qs ps T, INS ps T -> INS (ps ++ qs) (fold_left insert qs T).
Proof.
  induction qs as [|q qs IH]; intros ps T H; cbn [fold_left].
  - rewrite app_nil_r. exact H.
  - replace (ps ++ q :: qs) with ((ps ++ [q]) ++ qs) by (rewrite <- app_assoc; reflexivity).
    apply IH. apply INS_insert. exact H.
Qed.
Theorem INS_inserts ps : INS ps (inserts ps).
Proof. apply (INS_inserts_from ps [] empty_trie INS_empty). Qed.

(* the root is never an end node *)
Lemma INS_end_nonroot ps T : INS ps T -> forall w, is_end T w = true -> w <> [].
Proof.
  intros H w Hw. apply (ins_end ps T H) in Hw. destruct Hw as (p & _ & Hne & <-). apply runes_of_nonempty. exact Hne.
Qed.

(* every node is a prefix of the rune word of an inserted pattern *)
Lemma insert_go_inT : forall toks T cur i w, WF T -> inT T cur = true ->
  inT (insert_go T cur i toks) w = true -> inT T w = true \/ exists ext, cur ++ map fst toks = w ++ ext.
Proof.
  induction toks as [|[r wd] rest IH]; intros T cur i w HW Hc Hin; cbn [insert_go map fst] in *.
  - rewrite inT_upd in Hin. left. exact Hin.
  - cbv zeta in Hin. rewrite (insert_test (kids_of T cur) r (wf_sorted T HW cur)) in Hin.
    replace (cur ++ r :: map fst rest) with ((cur ++ [r]) ++ map fst rest) by (rewrite <- app_assoc; reflexivity).
    destruct (in_dec Z.eq_dec r (kids_of T cur)) as [Hk|Hnk]; cbn [negb] in Hin.
    + apply IH in Hin; auto. apply (wf_kids T HW). exact Hk.
    + fold (add_child T cur r (i + Z.of_nat wd)) in Hin.
      apply IH in Hin.
      * destruct Hin as [Hin|Hin]; [|right; exact Hin]. rewrite inT_add_child in Hin by exact Hc.
        apply orb_true_iff in Hin. destruct Hin as [Hin|Hin]; [left; exact Hin|]. apply weqb_eq in Hin. subst w.
        right. exists (map fst rest). reflexivity.
      * apply WF_add_child; auto.
      * rewrite inT_add_child by exact Hc. rewrite weqb_refl, orb_true_r. reflexivity.
Qed.

Lemma inserts_words : forall qs ps T, WF T ->
  (forall w, inT T w = true -> w = [] \/ exists p ext, In p ps /\ runes_of p = w ++ ext) ->
  forall w, inT (fold_left insert qs T) w = true -> w = [] \/ exists p ext, In p (ps ++ qs) /\ runes_of p = w ++ ext.
Proof.
  induction qs as [|q qs IH]; intros ps T HW H w Hin; cbn [fold_left] in Hin.
  - rewrite app_nil_r. apply H. exact Hin.
  - replace (ps ++ q :: qs) with ((ps ++ [q]) ++ qs) by (rewrite <- app_assoc; reflexivity).
    apply (IH (ps ++ [q]) (insert T q)); auto.
    + destruct q as [|b t]; [exact HW|]. unfold insert. apply (insert_go_spec (tokens (b :: t)) T [] 0 HW (wf_root T HW)).
    + intros v Hv. destruct q as [|b t].
      * cbn [insert] in Hv. destruct (H v Hv) as [->|(p & ext & Hp & E)]; [left; reflexivity|].
        right. exists p, ext. split; [apply in_or_app; left; exact Hp|exact E].
      * unfold insert in Hv. apply insert_go_inT in Hv; [|exact HW|exact (wf_root T HW)].
        destruct Hv as [Hv|(ext & E)].
        -- destruct (H v Hv) as [->|(p & ext & Hp & E)]; [left; reflexivity|].
           right. exists p, ext. split; [apply in_or_app; left; exact Hp|exact E].
        -- right. exists (b :: t), ext. split; [apply in_or_app; right; left; reflexivity|]. exact E.
Qed.
Theorem inserts_nodes ps w : inT (inserts ps) w = true -> w = [] \/ exists p ext, In p ps /\ runes_of p = w ++ ext.
Proof.
  intros H. apply (inserts_words ps [] empty_trie WF_empty); [|exact H].
  intros v Hv. left. unfold inT, empty_trie in Hv. cbn [get] in Hv. destruct (weqb [] v) eqn:E; [|discriminate].
  apply weqb_eq in E. auto.
Qed.
