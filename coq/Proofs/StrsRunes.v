(* C17: chunks vs. the decoder of Lib.Utf8 (range-over-string), valid UTF-8, SubByDisplay, Rev, RemoveRunes,
   and "results are valid UTF-8". *)
From Coq Require Import List ZArith Lia Bool Arith.
From V Require Import Lib.Utf8 Proofs.Utf8Facts Model.Strs Proofs.StrsBasic.
Import ListNotations.
Local Open Scope Z_scope.
Arguments Z.mul : simpl never.
Arguments Z.add : simpl never.
Arguments Z.sub : simpl never.
Arguments Z.div : simpl never.
Arguments Z.modulo : simpl never.
Arguments Z.of_nat : simpl never.
Arguments Z.to_nat : simpl never.

Definition bytes (s : list Z) : Prop := Forall (fun b => 0 <= b < 256) s.

Ltac brk := repeat match goal with
  | |- context [if ?c then _ else _] => destruct c eqn:?
  | H : context [if ?c then _ else _] |- _ => destruct c eqn:?
  end.
Ltac bools := repeat match goal with
  | H : (_ && _) = true |- _ => apply andb_true_iff in H; destruct H
  | H : (_ <=? _) = true |- _ => apply Z.leb_le in H
  | H : (_ <=? _) = false |- _ => apply Z.leb_gt in H
  | H : (_ <? _) = true |- _ => apply Z.ltb_lt in H
  | H : (_ <? _) = false |- _ => apply Z.ltb_ge in H
  | H : (_ =? _) = true |- _ => apply Z.eqb_eq in H
  | H : (_ =? _) = false |- _ => apply Z.eqb_neq in H
  end.
(* split the remaining `if c then _ else _` inside hypotheses *)
Ltac hyp_ifs := repeat match goal with
  | H : context [if ?c then _ else _] |- _ => let E := fresh "Eb" in destruct c eqn:E; try rewrite E in *
  end; bools.

(* ---- the decoder on the head chunk ---- *)
(* a rune decoded from two or more bytes is >= 128 (so its display width is 2, like that of an invalid byte) *)
Lemma decode_disp R : R <> [] -> disp (fst (decode R)) = cdisp (firstn (width R) R).
Proof.
  intros Hne. destruct R as [|b0 t]; [congruence|]. unfold width, disp. cbn [decode].
  destruct (b0 <? 128) eqn:E0; [cbn [fst snd firstn cdisp]; rewrite E0; reflexivity|].
  assert (Hbad : cdisp (firstn 1 (b0 :: t)) = 2) by (cbn [firstn cdisp]; rewrite E0; reflexivity).
  assert (Hre : (RuneError <? 128) = false) by reflexivity.
  destruct (inr 194 223 b0) eqn:E1.
  - destruct t as [|b1 t]; [cbn [fst snd]; rewrite Hre; exact (eq_sym Hbad)|].
    destruct (cont b1) eqn:E2; cbn [fst snd]; [|rewrite Hre; exact (eq_sym Hbad)].
    unfold inr, cont in *. bools. cbn [firstn cdisp].
    destruct (Z.ltb_spec ((b0 mod 32) * 64 + b1 mod 64) 128); [arith|reflexivity].
  - destruct (inr 224 239 b0) eqn:E3.
    + destruct t as [|b1 [|b2 t]]; try (cbn [fst snd]; rewrite Hre; exact (eq_sym Hbad)).
      destruct (inr _ _ b1 && cont b2) eqn:E4; cbn [fst snd]; [|rewrite Hre; exact (eq_sym Hbad)].
      unfold inr, cont in *. bools. cbn [firstn cdisp].
      destruct (Z.ltb_spec ((b0 mod 16) * 4096 + (b1 mod 64) * 64 + b2 mod 64) 128); [|reflexivity].
      exfalso. hyp_ifs; arith.
    + destruct (inr 240 244 b0) eqn:E5; [|cbn [fst snd]; rewrite Hre; exact (eq_sym Hbad)].
      destruct t as [|b1 [|b2 [|b3 t]]]; try (cbn [fst snd]; rewrite Hre; exact (eq_sym Hbad)).
      destruct (inr _ _ b1 && cont b2 && cont b3) eqn:E4; cbn [fst snd]; [|rewrite Hre; exact (eq_sym Hbad)].
      unfold inr, cont in *. bools. cbn [firstn cdisp].
      destruct (Z.ltb_spec ((b0 mod 8) * 262144 + (b1 mod 64) * 4096 + (b2 mod 64) * 64 + b3 mod 64) 128); [|reflexivity].
      exfalso. hyp_ifs; arith.
Qed.

(* a well-formed rune is re-encoded to exactly the bytes it was decoded from *)
Lemma encode_decode R : R <> [] -> bytes R ->
  (fst (decode R) =? RuneError) && (Nat.eqb (snd (decode R)) 1) = false ->
  encode_rune (fst (decode R)) = firstn (snd (decode R)) R /\ valid_scalar (fst (decode R)).
Proof.
  intros Hne Hb Hv. destruct R as [|b0 t]; [congruence|]. inversion Hb as [|? ? Hb0 Hbt]; subst.
  cbn [decode] in *. unfold encode_rune.
  destruct (b0 <? 128) eqn:E0.
  - cbn [fst snd firstn] in *. bools. unfold valid_scalar.
    destruct (Z.ltb_spec b0 0); [lia|]. destruct (Z.ltb_spec 1114111 b0); [lia|].
    destruct (Z.leb_spec 55296 b0); [lia|]. cbn [orb andb]. unfold encode.
    destruct (Z.ltb_spec b0 128); [|lia]. split; [reflexivity|lia].
  - destruct (inr 194 223 b0) eqn:E1.
    + destruct t as [|b1 t]; [cbn [fst snd] in Hv; discriminate Hv|].
      destruct (cont b1) eqn:E2; cbn [fst snd] in *; [|discriminate Hv].
      unfold inr, cont in *. bools. set (v := (b0 mod 32) * 64 + b1 mod 64).
      assert (Hvr : 128 <= v < 2048) by (unfold v; arith).
      destruct (Z.ltb_spec v 0); [lia|]. destruct (Z.ltb_spec 1114111 v); [lia|].
      destruct (Z.leb_spec 55296 v); [lia|]. cbn [orb andb]. unfold encode, valid_scalar.
      destruct (Z.ltb_spec v 128); [lia|]. destruct (Z.ltb_spec v 2048); [|lia]. cbn [firstn].
      split; [|lia]. f_equal; [unfold v; arith|]. f_equal. unfold v; arith.
    + destruct (inr 224 239 b0) eqn:E3.
      * destruct t as [|b1 [|b2 t]]; try (cbn [fst snd] in Hv; discriminate Hv).
        match type of Hv with context [if ?c then _ else _] => destruct c eqn:E4 end; cbn [fst snd] in *; [|discriminate Hv].
        cbn [fst snd]. unfold inr, cont in *. bools.
        set (v := (b0 mod 16) * 4096 + (b1 mod 64) * 64 + b2 mod 64).
        assert (Hlo : (if b0 =? 224 then 160 else 128) <= b1) by assumption.
        assert (Hhi : b1 <= (if b0 =? 237 then 159 else 191)) by assumption.
        assert (Hvr : 2048 <= v < 65536 /\ ~ (55296 <= v <= 57343)).
        { unfold v. hyp_ifs; arith. }
        destruct (Z.ltb_spec v 0); [lia|]. destruct (Z.ltb_spec 1114111 v); [lia|].
        assert (Es : (55296 <=? v) && (v <=? 57343) = false).
        { destruct (Z.leb_spec 55296 v); destruct (Z.leb_spec v 57343); cbn [andb]; auto. lia. }
        rewrite Es. cbn [orb]. unfold encode, valid_scalar.
        destruct (Z.ltb_spec v 128); [lia|]. destruct (Z.ltb_spec v 2048); [lia|]. destruct (Z.ltb_spec v 65536); [|lia]. cbn [firstn].
        split; [|lia]. clear Hvr Es. f_equal; [unfold v; arith|]. f_equal; [unfold v; hyp_ifs; arith|]. f_equal. unfold v; arith.
      * destruct (inr 240 244 b0) eqn:E5; [|cbn [fst snd] in Hv; discriminate Hv].
        destruct t as [|b1 [|b2 [|b3 t]]]; try (cbn [fst snd] in Hv; discriminate Hv).
        match type of Hv with context [if ?c then _ else _] => destruct c eqn:E4 end; cbn [fst snd] in *; [|discriminate Hv].
        cbn [fst snd]. unfold inr, cont in *. bools.
        set (v := (b0 mod 8) * 262144 + (b1 mod 64) * 4096 + (b2 mod 64) * 64 + b3 mod 64).
        assert (Hlo : (if b0 =? 240 then 144 else 128) <= b1) by assumption.
        assert (Hhi : b1 <= (if b0 =? 244 then 143 else 191)) by assumption.
        assert (Hvr : 65536 <= v <= 1114111).
        { unfold v. hyp_ifs; arith. }
        destruct (Z.ltb_spec v 0); [lia|]. destruct (Z.ltb_spec 1114111 v); [lia|].
        destruct (Z.leb_spec 55296 v); [|lia]. destruct (Z.leb_spec v 57343); [lia|]. cbn [orb andb]. unfold encode, valid_scalar.
        destruct (Z.ltb_spec v 128); [lia|]. destruct (Z.ltb_spec v 2048); [lia|]. destruct (Z.ltb_spec v 65536); [lia|]. cbn [firstn].
        split; [|lia]. clear Hvr. f_equal; [unfold v; arith|]. f_equal; [unfold v; hyp_ifs; arith|]. f_equal; [unfold v; arith|]. f_equal. unfold v; arith.
Qed.

(* ---- chunks and the decoder ---- *)
Lemma decode_chunk R : R <> [] -> decode (firstn (width R) R) = decode R.
Proof.
  intros Hne. pose proof (width_pos R Hne) as Hw.
  rewrite <- (firstn_skipn (width R) R) at 3.
  apply decode_local.
  - intros E. apply (f_equal (@length Z)) in E. rewrite firstn_length in E. cbn [length] in E. lia.
  - rewrite firstn_skipn. rewrite firstn_length. fold (width R). lia.
Qed.
Lemma crune_head R : R <> [] -> crune (firstn (adv R) R) = fst (decode R).
Proof. intros H. unfold crune. rewrite adv_width by exact H. rewrite decode_chunk by exact H. reflexivity. Qed.

Definition cinfo (c : list Z) : Z * nat := (crune c, length c).
Lemma decode_all_fuel_chunks : forall fuel r, (length r <= fuel)%nat ->
  decode_all_fuel fuel r = map cinfo (chunks_fuel fuel r).
Proof.
  induction fuel as [|f IH]; intros r Hr; [reflexivity|]. cbn [decode_all_fuel chunks_fuel].
  destruct r as [|a r']; [reflexivity|]. set (R := a :: r') in *.
  assert (HR : R <> []) by discriminate. pose proof (adv_pos R HR) as Ha. pose proof (adv_width R HR) as Hw.
  destruct (decode R) as [v w] eqn:Ed. cbn [map]. f_equal.
  - unfold cinfo. rewrite crune_head by exact HR. rewrite Ed. cbn [fst]. f_equal.
    rewrite firstn_length. unfold width in Hw. rewrite Ed in Hw. cbn [snd] in Hw. lia.
  - unfold width in Hw. rewrite Ed in Hw. cbn [snd] in Hw. rewrite <- Hw. rewrite Nat.max_l by lia.
    apply IH. rewrite skipn_length. unfold R in *. cbn [length] in *. lia.
Qed.
Lemma decode_all_chunks s : decode_all s = map cinfo (chunks s).
Proof. apply decode_all_fuel_chunks. lia. Qed.
Lemma runes_chunks s : runes s = map crune (chunks s).
Proof. unfold runes. rewrite decode_all_chunks, map_map. reflexivity. Qed.

Definition okc (c : list Z) : bool := negb ((crune c =? RuneError) && Nat.eqb (length c) 1).
Lemma valid_utf8_chunks s : valid_utf8 s = forallb okc (chunks s).
Proof.
  unfold valid_utf8. rewrite decode_all_chunks. induction (chunks s) as [|c cs IH]; [reflexivity|].
  cbn [map forallb]. rewrite IH. reflexivity.
Qed.

Lemma bytes_app a b : bytes (a ++ b) <-> bytes a /\ bytes b.
Proof. apply Forall_app. Qed.
Lemma bytes_chunks s : bytes s -> Forall bytes (chunks s).
Proof.
  intros Hb. rewrite <- (chunks_concat s) in Hb. induction (chunks s) as [|c cs IH]; [constructor|].
  cbn [concat] in Hb. apply bytes_app in Hb. destruct Hb. constructor; auto.
Qed.

(* a chunk of a valid string is the encoding of the rune it stands for *)
Lemma chunk_encode_fuel : forall fuel r, (length r <= fuel)%nat -> bytes r ->
  Forall (fun c => okc c = true -> encode_rune (crune c) = c /\ valid_scalar (crune c)) (chunks_fuel fuel r).
Proof.
  induction fuel as [|f IH]; intros r Hr Hb; [constructor|]. cbn [chunks_fuel].
  destruct r as [|a r']; [constructor|]. set (R := a :: r') in *.
  assert (HR : R <> []) by discriminate. pose proof (adv_pos R HR) as Ha. pose proof (adv_width R HR) as Hw.
  constructor.
  - intros Hok. unfold okc in Hok. apply negb_true_iff in Hok.
    rewrite crune_head in * by exact HR.
    assert (Hl : length (firstn (adv R) R) = snd (decode R)) by (rewrite firstn_length; unfold width in Hw; lia).
    rewrite Hl in Hok. destruct (encode_decode R HR Hb Hok) as [E V]. split; [|exact V].
    rewrite E. unfold width in Hw. rewrite Hw. reflexivity.
  - apply IH; [rewrite skipn_length; unfold R in *; cbn [length] in *; lia|].
    rewrite <- (firstn_skipn (adv R) R) in Hb. apply bytes_app in Hb. tauto.
Qed.
Lemma chunk_encode s : bytes s -> valid_utf8 s = true -> Forall (fun c => encode_rune (crune c) = c /\ valid_scalar (crune c)) (chunks s).
Proof.
  intros Hb Hv. rewrite valid_utf8_chunks in Hv. pose proof (chunk_encode_fuel (length s) s (le_n _) Hb) as H.
  fold (chunks s) in H. rewrite forallb_forall in Hv. rewrite Forall_forall in *. intros c Hc. apply H; auto.
Qed.

(* ---- SubByDisplay ---- *)
Lemma sbd_go_spec s limit : forall rs ps fuel dpl,
  s = concat ps ++ concat rs -> chunks (concat rs) = rs -> (length (concat rs) < fuel)%nat ->
  sbd_go s limit fuel (length (concat ps)) dpl = Ret (concat ps ++ concat (fit rs (limit - dpl))).
Proof.
  induction rs as [|r rs' IH]; intros ps fuel dpl Hs Hr Hf; (destruct fuel as [|f]; [lia|]); cbn [sbd_go].
  - cbn [concat] in Hs. rewrite app_nil_r in Hs. rewrite Hs, Nat.ltb_irrefl. cbn [fit concat]. rewrite app_nil_r. reflexivity.
  - set (R := concat (r :: rs')) in *.
    destruct (chunks_head r rs' R eq_refl Hr) as (HRne & Hlr & Hcr & Ers).
    pose proof (adv_pos R HRne) as Hsz. pose proof (adv_width R HRne) as Hw.
    assert (Hi : (length (concat ps) < length s)%nat) by (rewrite Hs, app_length; destruct R; [congruence|cbn [length]; lia]).
    destruct (Nat.ltb_spec (length (concat ps)) (length s)); [|lia].
    assert (Hsk : skipn (length (concat ps)) s = R) by (rewrite Hs; apply skipn_len_app).
    rewrite Hsk. pose proof (decode_disp R HRne) as Hd. destruct (decode R) as [v w] eqn:Ed. cbn [fst] in Hd.
    assert (Ew : w = length r) by (unfold width in Hw; rewrite Ed in Hw; cbn [snd] in Hw; lia).
    assert (Er : firstn (width R) R = r).
    { rewrite <- Hw, <- Hlr. unfold R. cbn [concat]. apply firstn_len_app. }
    rewrite Er in Hd. rewrite Hd. cbn [fit].
    destruct (Z.ltb_spec limit (dpl + cdisp r)); destruct (Z.leb_spec (cdisp r) (limit - dpl)); try lia.
    + cbn [concat]. rewrite app_nil_r. rewrite Hs. apply sl_prefix.
    + subst w. replace (length (concat ps) + length r)%nat with (length (concat (ps ++ [r]))) by (rewrite concat_snoc, app_length; reflexivity).
      rewrite (IH (ps ++ [r]) f).
      * rewrite concat_snoc. cbn [concat]. rewrite <- !app_assoc.
        replace (limit - (dpl + cdisp r)) with (limit - dpl - cdisp r) by lia. reflexivity.
      * rewrite concat_snoc, <- app_assoc. exact Hs.
      * exact Ers.
      * unfold R in Hf. cbn [concat] in Hf. rewrite app_length in Hf. lia.
Qed.

Lemma cdisp_pos c : 1 <= cdisp c <= 2.
Proof. destruct c as [|b [|b' t]]; cbn [cdisp]; try lia. destruct (b <? 128); lia. Qed.
Lemma cwidth_nonneg cs : 0 <= cwidth cs.
Proof. induction cs as [|c t IH]; cbn [cwidth]; [lia|]. pose proof (cdisp_pos c). lia. Qed.
Lemma fit_all cs limit : cwidth cs <= limit -> fit cs limit = cs.
Proof.
  revert limit. induction cs as [|c t IH]; intros limit H; cbn [fit cwidth] in *; [reflexivity|].
  pose proof (cwidth_nonneg t). destruct (Z.leb_spec (cdisp c) limit); [|lia]. f_equal. apply IH. lia.
Qed.
(* fit is the longest prefix of whole runes whose display width does not exceed the limit *)
Lemma fit_longest cs limit : 0 <= limit -> exists k, fit cs limit = firstn k cs /\ cwidth (firstn k cs) <= limit /\
  ((k < length cs)%nat -> limit < cwidth (firstn (S k) cs)).
Proof.
  revert limit. induction cs as [|c t IH]; intros limit Hl; cbn [fit].
  - exists 0%nat. cbn [firstn cwidth length]. repeat split; lia.
  - destruct (Z.leb_spec (cdisp c) limit) as [Hc|Hc].
    + destruct (IH (limit - cdisp c) ltac:(lia)) as (k & E & W & N). exists (S k). cbn [firstn cwidth length]. rewrite E.
      repeat split; [lia|]. intros Hk. specialize (N ltac:(lia)). cbn [firstn cwidth] in N. lia.
    + exists 0%nat. cbn [firstn cwidth length]. repeat split; [lia|]. intros _. pose proof (cwidth_nonneg (firstn 0 t)). cbn [firstn cwidth] in *. lia.
Qed.

(* in a valid string every rune occupies at least as many bytes as its display width *)
Lemma okc_cdisp c : c <> [] -> okc c = true -> cdisp c <= Z.of_nat (length c).
Proof.
  intros Hne Hok. destruct c as [|b [|b' t]]; [congruence| |cbn [cdisp length]; lia].
  cbn [cdisp length]. destruct (b <? 128) eqn:E; [lia|]. exfalso.
  unfold okc, crune in Hok. cbn [decode length] in Hok. rewrite E in Hok.
  destruct (inr 194 223 b); [discriminate Hok|]. destruct (inr 224 239 b); [discriminate Hok|]. destruct (inr 240 244 b); discriminate Hok.
Qed.
Lemma valid_cwidth_le cs : Forall (fun c => c <> []) cs -> forallb okc cs = true -> cwidth cs <= Z.of_nat (length (concat cs)).
Proof.
  induction cs as [|c t IH]; intros Hne Hok; cbn [cwidth concat length]; [lia|].
  inversion Hne; subst. cbn [forallb] in Hok. apply andb_true_iff in Hok. destruct Hok as [Ho1 Ho2].
  rewrite app_length. pose proof (okc_cdisp c ltac:(assumption) Ho1). specialize (IH ltac:(assumption) Ho2). lia.
Qed.

(* any byte string longer than the limit: the longest fitting prefix of whole runes; never a panic *)
Theorem sub_by_display_long s limit : limit < zlen s ->
  sub_by_display s limit = Ret (spec_sub_by_display s limit).
Proof.
  intros H. unfold sub_by_display, spec_sub_by_display. destruct (Z.leb_spec (zlen s) limit); [lia|].
  pose proof (sbd_go_spec s limit (chunks s) [] (S (length s)) 0) as G. cbn [concat app length] in G.
  rewrite G; [| symmetry; apply chunks_concat | rewrite chunks_concat; reflexivity | rewrite chunks_concat; lia ].
  replace (limit - 0) with limit by lia. reflexivity.
Qed.
(* valid UTF-8, every limit >= 0 *)
Theorem sub_by_display_spec s limit : valid_utf8 s = true -> 0 <= limit ->
  sub_by_display s limit = Ret (spec_sub_by_display s limit).
Proof.
  intros Hv Hl. destruct (Z.lt_ge_cases limit (zlen s)) as [H|H]; [apply sub_by_display_long; exact H|].
  unfold sub_by_display, spec_sub_by_display. destruct (Z.leb_spec (zlen s) limit); [|lia].
  rewrite fit_all; [rewrite chunks_concat; reflexivity|].
  rewrite valid_utf8_chunks in Hv. pose proof (valid_cwidth_le (chunks s) (chunks_nonempty s) Hv) as W.
  rewrite chunks_concat in W. unfold zlen in *. lia.
Qed.
Theorem sub_by_display_no_panic s limit : exists b, sub_by_display s limit = Ret b.
Proof.
  destruct (Z.lt_ge_cases limit (zlen s)) as [H|H]; [eexists; apply sub_by_display_long; exact H|].
  unfold sub_by_display. destruct (Z.leb_spec (zlen s) limit); [eauto|lia].
Qed.

(* ---- Rev ---- *)
Theorem rev_spec s : bytes s -> valid_utf8 s = true -> rev_str s = spec_rev s.
Proof.
  intros Hb Hv. unfold rev_str, spec_rev. rewrite runes_chunks. pose proof (chunk_encode s Hb Hv) as H.
  rewrite <- map_rev, map_map. f_equal. rewrite <- (map_id (rev (chunks s))) at 2. apply map_ext_in.
  intros c Hc. apply in_rev in Hc. rewrite Forall_forall in H. apply H. exact Hc.
Qed.

(* ---- RemoveRunes ---- *)
Section Remove.
Variable p : Z -> bool.
Definition keep (c : list Z) : bool := negb (p (crune c)).

Lemma rr_grown s : forall rs ps fuel buf,
  s = concat ps ++ concat rs -> chunks (concat rs) = rs -> (length (concat rs) < fuel)%nat ->
  Forall (fun c => encode_rune (crune c) = c) rs ->
  rr_go p s fuel (length (concat ps)) true buf = Ret (buf ++ concat (filter keep rs)).
Proof.
  induction rs as [|r rs' IH]; intros ps fuel buf Hs Hr Hf Henc; (destruct fuel as [|f]; [lia|]); cbn [rr_go].
  - cbn [concat] in Hs. rewrite app_nil_r in Hs. rewrite Hs, Nat.ltb_irrefl. cbn [filter concat]. rewrite app_nil_r. reflexivity.
  - set (R := concat (r :: rs')) in *.
    destruct (chunks_head r rs' R eq_refl Hr) as (HRne & Hlr & Hcr & Ers).
    pose proof (adv_pos R HRne) as Hsz. pose proof (adv_width R HRne) as Hw.
    assert (Hi : (length (concat ps) < length s)%nat) by (rewrite Hs, app_length; destruct R; [congruence|cbn [length]; lia]).
    destruct (Nat.ltb_spec (length (concat ps)) (length s)); [|lia].
    assert (Hsk : skipn (length (concat ps)) s = R) by (rewrite Hs; apply skipn_len_app).
    rewrite Hsk. pose proof (crune_head R HRne) as Hcr'. destruct (decode R) as [v w] eqn:Ed. cbn [fst] in Hcr'.
    assert (Ew : w = length r) by (unfold width in Hw; rewrite Ed in Hw; cbn [snd] in Hw; lia).
    assert (Er : firstn (adv R) R = r) by (rewrite <- Hlr; unfold R; cbn [concat]; apply firstn_len_app).
    rewrite Er in Hcr'. subst w v. apply Forall_cons_iff in Henc. destruct Henc as [He Henc'].
    replace (length (concat ps) + length r)%nat with (length (concat (ps ++ [r]))) by (rewrite concat_snoc, app_length; reflexivity).
    rewrite (IH (ps ++ [r]) f); auto.
    + cbn [filter]. unfold keep at 2. destruct (p (crune r)); cbn [negb concat]; [reflexivity|]. rewrite He, <- app_assoc. reflexivity.
    + rewrite concat_snoc, <- app_assoc. exact Hs.
    + unfold R in Hf. cbn [concat] in Hf. rewrite app_length in Hf. lia.
Qed.

Lemma rr_fresh s : forall rs ps fuel,
  s = concat ps ++ concat rs -> chunks (concat rs) = rs -> (length (concat rs) < fuel)%nat ->
  Forall (fun c => encode_rune (crune c) = c) rs ->
  rr_go p s fuel (length (concat ps)) false [] = Ret (concat ps ++ concat (filter keep rs)).
Proof.
  induction rs as [|r rs' IH]; intros ps fuel Hs Hr Hf Henc; (destruct fuel as [|f]; [lia|]); cbn [rr_go].
  - cbn [concat] in Hs. rewrite app_nil_r in Hs. rewrite Hs, Nat.ltb_irrefl. cbn [filter concat]. rewrite app_nil_r. reflexivity.
  - set (R := concat (r :: rs')) in *.
    destruct (chunks_head r rs' R eq_refl Hr) as (HRne & Hlr & Hcr & Ers).
    pose proof (adv_pos R HRne) as Hsz. pose proof (adv_width R HRne) as Hw.
    assert (Hi : (length (concat ps) < length s)%nat) by (rewrite Hs, app_length; destruct R; [congruence|cbn [length]; lia]).
    destruct (Nat.ltb_spec (length (concat ps)) (length s)); [|lia].
    assert (Hsk : skipn (length (concat ps)) s = R) by (rewrite Hs; apply skipn_len_app).
    rewrite Hsk. pose proof (crune_head R HRne) as Hcr'. destruct (decode R) as [v w] eqn:Ed. cbn [fst] in Hcr'.
    assert (Ew : w = length r) by (unfold width in Hw; rewrite Ed in Hw; cbn [snd] in Hw; lia).
    assert (Er : firstn (adv R) R = r) by (rewrite <- Hlr; unfold R; cbn [concat]; apply firstn_len_app).
    rewrite Er in Hcr'. subst w v. apply Forall_cons_iff in Henc. destruct Henc as [He Henc'].
    replace (length (concat ps) + length r)%nat with (length (concat (ps ++ [r]))) by (rewrite concat_snoc, app_length; reflexivity).
    cbn [filter]. unfold keep at 1. destruct (p (crune r)); cbn [negb].
    + rewrite Hs at 1. rewrite sl_prefix. cbn [bind app].
      rewrite (rr_grown s rs' (ps ++ [r]) f (concat ps)); auto.
      * rewrite concat_snoc, <- app_assoc. exact Hs.
      * unfold R in Hf. cbn [concat] in Hf. rewrite app_length in Hf. lia.
    + rewrite (IH (ps ++ [r]) f); auto.
      * rewrite concat_snoc. cbn [concat]. rewrite <- app_assoc. reflexivity.
      * rewrite concat_snoc, <- app_assoc. exact Hs.
      * unfold R in Hf. cbn [concat] in Hf. rewrite app_length in Hf. lia.
Qed.

(* exactly the runes selected by the predicate are deleted (valid UTF-8) *)
Theorem remove_runes_spec s : bytes s -> valid_utf8 s = true -> remove_runes p s = Ret (spec_remove_runes p s).
Proof.
  intros Hb Hv. unfold remove_runes, spec_remove_runes.
  pose proof (rr_fresh s (chunks s) [] (S (length s))) as G. cbn [concat app length] in G. apply G.
  - symmetry. apply chunks_concat.
  - rewrite chunks_concat. reflexivity.
  - rewrite chunks_concat. lia.
  - pose proof (chunk_encode s Hb Hv) as H. eapply Forall_impl; [|exact H]. cbn beta. tauto.
Qed.

(* any byte string: no panic (the only slice is s[:i] at the loop index) *)
Theorem remove_runes_no_panic s : exists b, remove_runes p s = Ret b.
Proof.
  unfold remove_runes.
  assert (G : forall fuel i grown buf, (i <= length s)%nat -> (length s - i < fuel)%nat -> exists b, rr_go p s fuel i grown buf = Ret b).
  { induction fuel as [|f IH]; intros i grown buf Hi Hf; [lia|]. cbn [rr_go].
    destruct (Nat.ltb_spec i (length s)); [|destruct grown; eauto].
    assert (Hne : skipn i s <> []) by (intros E; apply (f_equal (@length Z)) in E; rewrite skipn_length in E; cbn [length] in E; lia).
    pose proof (width_pos _ Hne) as Hw. unfold width in Hw. rewrite skipn_length in Hw.
    destruct (decode (skipn i s)) as [v w]. cbn [snd] in Hw.
    destruct grown; [apply IH; lia|]. destruct (p v); [|apply IH; lia].
    rewrite sl_ok by lia. cbn [bind]. apply IH; lia. }
  apply G; lia.
Qed.
End Remove.

(* ---- results are valid UTF-8 ---- *)
Definition good (c : list Z) : Prop := encode_rune (crune c) = c /\ valid_scalar (crune c).
Definition goodstr (x : list Z) : Prop := exists L, Forall good L /\ x = concat L.

Lemma encode_rune_valid r : valid_scalar r -> encode_rune r = encode r.
Proof.
  intros Hv. unfold encode_rune, valid_scalar in *.
  destruct (Z.ltb_spec r 0); [lia|]. destruct (Z.ltb_spec 1114111 r); [lia|].
  destruct (Z.leb_spec 55296 r); destruct (Z.leb_spec r 57343); cbn [orb andb]; try reflexivity; lia.
Qed.
Lemma encode_nonempty r : encode r <> [].
Proof. unfold encode. destruct (r <? 128); [discriminate|]. destruct (r <? 2048); [discriminate|]. destruct (r <? 65536); discriminate. Qed.
Lemma encode_len r : (1 <= length (encode r) <= 4)%nat /\ (r = RuneError -> length (encode r) = 3%nat).
Proof.
  split; [unfold encode; destruct (r <? 128); [cbn; lia|]; destruct (r <? 2048); [cbn; lia|]; destruct (r <? 65536); cbn; lia|].
  intros ->. reflexivity.
Qed.

Lemma good_head c t : good c -> c <> [] /\ decode (c ++ t) = (crune c, length c) /\ okc c = true.
Proof.
  intros [He Hv]. rewrite encode_rune_valid in He by exact Hv. set (r := crune c) in *.
  split; [rewrite <- He; apply encode_nonempty|]. split.
  - rewrite <- He at 1 2. apply decode_encode. exact Hv.
  - unfold okc. fold r. destruct (Z.eqb_spec r RuneError) as [E|E]; [|reflexivity].
    rewrite <- He. rewrite (proj2 (encode_len r) E). reflexivity.
Qed.

Lemma good_chunks L : Forall good L -> chunks (concat L) = L /\ forallb okc L = true.
Proof.
  induction L as [|c t IH]; intros H; [split; reflexivity|]. inversion H as [|? ? Hc Ht]; subst.
  destruct (IH Ht) as [I1 I2]. destruct (good_head c (concat t) Hc) as (Hne & Hd & Hok).
  cbn [concat forallb]. rewrite Hok, I2. split; [|reflexivity].
  assert (Hn : c ++ concat t <> []) by (destruct c; [congruence|discriminate]).
  rewrite (chunks_cons _ Hn). rewrite (adv_width _ Hn). unfold width. rewrite Hd. cbn [snd].
  rewrite firstn_len_app, skipn_len_app, I1. reflexivity.
Qed.
Lemma goodstr_valid x : goodstr x -> valid_utf8 x = true.
Proof. intros (L & HL & ->). rewrite valid_utf8_chunks. destruct (good_chunks L HL) as [-> H]. exact H. Qed.
Lemma valid_goodstr s : bytes s -> valid_utf8 s = true -> goodstr s.
Proof. intros Hb Hv. exists (chunks s). split; [apply chunk_encode; auto|symmetry; apply chunks_concat]. Qed.
Lemma goodstr_app a b : goodstr a -> goodstr b -> goodstr (a ++ b).
Proof. intros (L1 & H1 & ->) (L2 & H2 & ->). exists (L1 ++ L2). split; [apply Forall_app; auto|rewrite concat_app; reflexivity]. Qed.
Lemma goodstr_nil : goodstr [].
Proof. exists []. split; [constructor|reflexivity]. Qed.
Lemma goodstr_repeat m n : goodstr m -> goodstr (concat (repeat m n)).
Proof. intros H. induction n as [|n IH]; cbn [repeat concat]; [apply goodstr_nil|apply goodstr_app; auto]. Qed.
Lemma goodstr_sub L : Forall good L -> forall L', (forall c, In c L' -> In c L) -> goodstr (concat L').
Proof. intros H L' Hin. exists L'. split; [|reflexivity]. rewrite Forall_forall in *. auto. Qed.

Lemma In_firstn {A} n (l : list A) x : In x (firstn n l) -> In x l.
Proof. intros H. rewrite <- (firstn_skipn n l). apply in_or_app. left; exact H. Qed.
Lemma In_skipn {A} n (l : list A) x : In x (skipn n l) -> In x l.
Proof. intros H. rewrite <- (firstn_skipn n l). apply in_or_app. right; exact H. Qed.

Section ValidResults.
Variable s : list Z.
Hypothesis Hb : bytes s.
Hypothesis Hv : valid_utf8 s = true.
Let HG : Forall good (chunks s) := chunk_encode s Hb Hv.

Theorem sub_valid start length_ : valid_utf8 (spec_sub s start length_) = true.
Proof.
  apply goodstr_valid. unfold spec_sub. destruct (length_ =? 0); [apply goodstr_nil|].
  destruct (length_ =? -1); apply (goodstr_sub _ HG); unfold firstz, skipz; intros c Hc.
  - eapply In_skipn; eauto.
  - apply In_firstn in Hc. eapply In_skipn; eauto.
Qed.
Theorem mask_valid msk start end_ : bytes msk -> valid_utf8 msk = true -> valid_utf8 (spec_mask s msk start end_) = true.
Proof.
  intros Hbm Hvm. apply goodstr_valid. unfold spec_mask.
  destruct (_ <=? _); [apply valid_goodstr; auto|].
  apply goodstr_app; [apply (goodstr_sub _ HG); unfold firstz; intros c Hc; eapply In_firstn; eauto|].
  apply goodstr_app; [|apply (goodstr_sub _ HG); unfold skipz; intros c Hc; eapply In_skipn; eauto].
  destruct (_ =? _)%nat; [apply goodstr_repeat|]; apply valid_goodstr; auto.
Qed.
Theorem sub_by_display_valid limit : valid_utf8 (spec_sub_by_display s limit) = true.
Proof.
  apply goodstr_valid. unfold spec_sub_by_display. apply (goodstr_sub _ HG).
  generalize (chunks s) limit. induction l as [|c t IH]; intros lim x Hx; cbn [fit] in Hx; [destruct Hx|].
  destruct (cdisp c <=? lim); [|destruct Hx]. destruct Hx as [<-|Hx]; [left; reflexivity|right; eapply IH; eauto].
Qed.
Theorem rev_valid : valid_utf8 (spec_rev s) = true.
Proof. apply goodstr_valid. unfold spec_rev. apply (goodstr_sub _ HG). intros c Hc. apply in_rev. exact Hc. Qed.
Theorem remove_runes_valid p : valid_utf8 (spec_remove_runes p s) = true.
Proof.
  apply goodstr_valid. unfold spec_remove_runes. apply (goodstr_sub _ HG). intros c Hc. apply filter_In in Hc. tauto.
Qed.
End ValidResults.

(* hypotheses of the theorems above are satisfiable: "a€" is a valid byte string *)
Example valid_example : bytes [97; 226; 130; 172] /\ valid_utf8 [97; 226; 130; 172] = true.
Proof. split; [repeat constructor; lia|reflexivity]. Qed.
