(* C12: the generated skeletons, interpreted with the effect table (exec_call = what sub 0 of the run executes), compute
   exactly the plain-map specification (sem = sub 1), for every call and every map. *)
From Coq Require Import List ZArith Lia Bool Arith.
From V Require Import Lib.Enc Gen.SafeKVSkel Model.SafeKV.
Import ListNotations.

Lemma repeat_snoc {A} (x : A) n : repeat x n ++ [x] = repeat x (S n).
Proof. induction n; cbn [repeat app]; [reflexivity|]. rewrite IHn. reflexivity. Qed.
Lemma nth_repeat_lt {A} (x d : A) n i : i < n -> nth i (repeat x n) d = x.
Proof. revert i; induction n; intros [|i] H; cbn [repeat nth]; try lia; auto. apply IHn. lia. Qed.

(* a Star part that runs exactly N times under an invariant P *)
Lemma run_star_inv (P : nat -> map_ -> list map_ -> Prop) c b N :
  (forall it m obs, P it m obs -> it < N ->
     again_ c obs it = true /\ P (S it) (fst (run_body c it b m obs)) (snd (run_body c it b m obs))) ->
  (forall m obs, P N m obs -> again_ c obs N = false) ->
  forall k it m obs fuel, it + k = N -> k <= fuel -> P it m obs ->
  exists m' obs', run_star fuel c it b m obs = Some (m', obs', N) /\ P N m' obs'.
Proof.
  intros Hstep Hend. induction k as [|k IH]; intros it m obs fuel Hk Hf HP.
  - assert (it = N) by lia. subst it. exists m, obs. split; auto.
    destruct fuel; cbn [run_star]; rewrite (Hend _ _ HP); reflexivity.
  - destruct fuel as [|fuel]; [lia|]. cbn [run_star]. destruct (Hstep it m obs HP ltac:(lia)) as [Ha HP'].
    rewrite Ha. destruct (run_body c it b m obs) as [m1 obs1]. cbn [fst snd] in HP'.
    apply IH; auto; lia.
Qed.

(* ---------------------------------------------------------------- list facts used by the iteration results *)
Lemma flat_map_nth_seq {A B} (f : A -> list B) (l : list A) (d : A) :
  flat_map (fun j => f (nth j l d)) (seq 0 (length l)) = flat_map f l.
Proof.
  assert (G : forall k, flat_map (fun j => f (nth j l d)) (seq k (length l - k)) = flat_map f (skipn k l)).
  { intros k. remember (length l - k) as n eqn:En. revert k En. induction n as [|n IH]; intros k En.
    - rewrite skipn_all2 by lia. reflexivity.
    - cbn [seq flat_map]. rewrite (IH (S k)) by lia.
      assert (Hk : k < length l) by lia. clear -Hk. revert k Hk. induction l as [|a l IHl]; intros [|k] Hk; cbn [length] in *; try lia.
      + reflexivity.
      + cbn [nth skipn]. apply IHl. lia. }
  specialize (G 0). rewrite Nat.sub_0_r in G. exact G.
Qed.
Lemma flat_map_nth_error_seq {A B} (f : A -> list B) (l : list A) :
  flat_map (fun j => match nth_error l j with Some a => f a | None => [] end) (seq 0 (length l)) = flat_map f l.
Proof.
  assert (G : forall k, flat_map (fun j => match nth_error l j with Some a => f a | None => [] end) (seq k (length l - k)) = flat_map f (skipn k l)).
  { intros k. remember (length l - k) as n eqn:En. revert k En. induction n as [|n IH]; intros k En.
    - rewrite skipn_all2 by lia. reflexivity.
    - cbn [seq flat_map]. rewrite (IH (S k)) by lia.
      assert (Hk : k < length l) by lia. clear -Hk. revert k Hk. induction l as [|a l IHl]; intros [|k] Hk; cbn [length] in *; try lia.
      + reflexivity.
      + cbn [nth_error skipn]. apply IHl. lia. }
  specialize (G 0). rewrite Nat.sub_0_r in G. exact G.
Qed.
Lemma flat_map_ext_seq {B} (f g : nat -> list B) a n : (forall j, a <= j < a + n -> f j = g j) -> flat_map f (seq a n) = flat_map g (seq a n).
Proof.
  revert a; induction n as [|n IH]; intros a H; cbn [seq flat_map]; [reflexivity|]. rewrite H by lia. f_equal. apply IH. intros j Hj. apply H. lia.
Qed.
Lemma flat_map_singleton {A B} (f : A -> B) l : flat_map (fun x => [f x]) l = map f l.
Proof. induction l; cbn; congruence. Qed.

(* ---------------------------------------------------------------- straight-line calls *)
Ltac straight := intros; unfold exec_call; cbn [skel_of]; unfold skel_Get, skel_Set, skel_Has, skel_Contains, skel_Len, skel_Clear, skel_Map;
  cbn [run_items do_ev wr app]; cbn [result sem obs_at nth]; try reflexivity.

Lemma exec_get k m : exec_call (CGet k) m = Some (sem (CGet k) m).          Proof. straight. Qed.
Lemma exec_set k v m : exec_call (CSet k v) m = Some (sem (CSet k v) m).    Proof. straight. Qed.
Lemma exec_has k m : exec_call (CHas k) m = Some (sem (CHas k) m).          Proof. straight. Qed.
Lemma exec_contains k m : exec_call (CContains k) m = Some (sem (CContains k) m).  Proof. straight. Qed.
Lemma exec_len m : exec_call CLen m = Some (sem CLen m).                    Proof. straight. Qed.
Lemma exec_clear m : exec_call CClear m = Some (sem CClear m).              Proof. straight. Qed.
Lemma exec_map f a b m : exec_call (CMap f a b) m = Some (sem (CMap f a b) m).  Proof. straight. Qed.

(* ---------------------------------------------------------------- one optional part: SetNx, SetX, GetWithLock *)
Lemma exec_setnx k v m : exec_call (CSetNx k v) m = Some (sem (CSetNx k v) m).
Proof.
  unfold exec_call. cbn [skel_of]. unfold skel_SetNx, call_fuel. cbn [run_items do_ev app run_star again_ last_obs last Nat.eqb andb].
  destruct (has m k) eqn:Eh; cbn [negb run_body do_ev wr app run_star again_ Nat.eqb andb run_items result sem obs_at nth]; rewrite Eh; reflexivity.
Qed.
Lemma exec_setx k v m : exec_call (CSetX k v) m = Some (sem (CSetX k v) m).
Proof.
  unfold exec_call. cbn [skel_of]. unfold skel_SetX, call_fuel. cbn [run_items do_ev app run_star again_ last_obs last Nat.eqb andb].
  destruct (has m k) eqn:Eh; cbn [negb run_body do_ev wr app run_star again_ Nat.eqb andb run_items result sem obs_at nth]; rewrite Eh; reflexivity.
Qed.
Lemma exec_getwithlock k m : exec_call (CGetWithLock k) m = Some (sem (CGetWithLock k) m).
Proof.
  unfold exec_call. cbn [skel_of]. unfold skel_GetWithLock, call_fuel. cbn [run_items do_ev app run_star again_ last_obs last Nat.eqb andb].
  destruct (has m k) eqn:Eh; cbn [negb run_body do_ev wr app run_star again_ Nat.eqb andb run_items result sem obs_at nth]; reflexivity.
Qed.

(* ---------------------------------------------------------------- Delete: one write per key *)
Lemma fold_del_firstn ks : forall it m, it < length ks ->
  del (fold_left del (firstn it ks) m) (nth it ks 0%Z) = fold_left del (firstn (S it) ks) m.
Proof.
  induction ks as [|a ks IH]; intros [|it] m H; cbn [length] in H; try lia; cbn [firstn fold_left nth]; auto. apply IH. lia.
Qed.
Lemma exec_delete ks m : exec_call (CDelete ks) m = Some (sem (CDelete ks) m).
Proof.
  unfold exec_call. cbn [skel_of]. unfold skel_Delete, call_fuel. cbn [run_items do_ev app].
  destruct (run_star_inv (fun it m' obs => m' = fold_left del (firstn it ks) m) (CDelete ks) [Rd Hdr; Wr Entries] (length ks))
    with (k := length ks) (it := 0) (m := m) (obs := @nil map_) (fuel := S (S (length m + length ks))) as (m' & obs' & Hr & HP); auto; try lia.
  - intros it m1 obs HP Hlt. split; [cbn [again_]; apply Nat.ltb_lt; auto|]. cbn [run_body do_ev wr fst snd]. subst m1.
    apply fold_del_firstn; auto.
  - intros m1 obs _. cbn [again_]. apply Nat.ltb_irrefl.
  - rewrite Hr. cbn [run_items do_ev result sem]. rewrite HP, firstn_all. reflexivity.
Qed.

(* ---------------------------------------------------------------- iterations over the map: Keys, Values, Range, All *)
Lemma obs_at_repeat m n i : i < n -> obs_at (repeat m n) i = m.
Proof. intros H. unfold obs_at. apply nth_repeat_lt; auto. Qed.

Lemma keys_loop m : exists obs', run_star (call_fuel CKeys m) CKeys 0 [Rd Entries] m (repeat m 4) = Some (m, obs', length m) /\ obs' = repeat m (4 + length m).
Proof.
  destruct (run_star_inv (fun it m' obs => m' = m /\ obs = repeat m (4 + it)) CKeys [Rd Entries] (length m))
    with (k := length m) (it := 0) (m := m) (obs := repeat m 4) (fuel := call_fuel CKeys m) as (m' & obs' & Hr & HP1 & HP2); auto; try (unfold call_fuel; lia).
  - intros it m1 obs [-> ->] Hlt. split.
    + cbn [again_]. rewrite obs_at_repeat by lia. apply Nat.ltb_lt; auto.
    + cbn [run_body do_ev fst snd]. split; auto. rewrite repeat_snoc. reflexivity.
  - intros m1 obs [-> ->]. cbn [again_]. rewrite obs_at_repeat by lia. apply Nat.ltb_irrefl.
  - subst m'. exists obs'. auto.
Qed.
Lemma values_loop m : exists obs', run_star (call_fuel CValues m) CValues 0 [Rd Entries] m (repeat m 4) = Some (m, obs', length m) /\ obs' = repeat m (4 + length m).
Proof.
  destruct (run_star_inv (fun it m' obs => m' = m /\ obs = repeat m (4 + it)) CValues [Rd Entries] (length m))
    with (k := length m) (it := 0) (m := m) (obs := repeat m 4) (fuel := call_fuel CValues m) as (m' & obs' & Hr & HP1 & HP2); auto; try (unfold call_fuel; lia).
  - intros it m1 obs [-> ->] Hlt. split.
    + cbn [again_]. rewrite obs_at_repeat by lia. apply Nat.ltb_lt; auto.
    + cbn [run_body do_ev fst snd]. split; auto. rewrite repeat_snoc. reflexivity.
  - intros m1 obs [-> ->]. cbn [again_]. rewrite obs_at_repeat by lia. apply Nat.ltb_irrefl.
  - subst m'. exists obs'. auto.
Qed.

Lemma exec_keys m : exec_call CKeys m = Some (sem CKeys m).
Proof.
  unfold exec_call. cbn [skel_of]. unfold skel_Keys. cbn [run_items do_ev app].
  change [m; m; m; m] with (repeat m 4). destruct (keys_loop m) as (obs' & Hr & ->). rewrite Hr. cbn [run_items do_ev result sem].
  do 3 f_equal.
  rewrite (flat_map_ext_seq _ (fun j => match nth_error m j with Some a => (let (k, _) := a in [k]) | None => [] end)).
  - rewrite (flat_map_nth_error_seq (fun a : Z * Z => let (k, _) := a in [k]) m). clear. induction m as [|[a b] t IH]; cbn; congruence.
  - intros j Hj. rewrite obs_at_repeat by lia. reflexivity.
Qed.
Lemma exec_values m : exec_call CValues m = Some (sem CValues m).
Proof.
  unfold exec_call. cbn [skel_of]. unfold skel_Values. cbn [run_items do_ev app].
  change [m; m; m; m] with (repeat m 4). destruct (values_loop m) as (obs' & Hr & ->). rewrite Hr. cbn [run_items do_ev result sem].
  do 4 f_equal.
  rewrite (flat_map_ext_seq _ (fun j => match nth_error m j with Some a => (let (_, v) := a in [v]) | None => [] end)).
  - rewrite (flat_map_nth_error_seq (fun a : Z * Z => let (_, v) := a in [v]) m). clear. induction m as [|[a b] t IH]; cbn; congruence.
  - intros j Hj. rewrite obs_at_repeat by lia. reflexivity.
Qed.

Definition iter_count (stop : nat) (m : map_) : nat := match stop with O => length m | _ => Nat.min stop (length m) end.
Lemma iter_loop c stop m : (c = CRange stop \/ c = CAll stop) ->
  exists obs', run_star (call_fuel c m) c 0 [Rd Entries; CallUser] m (repeat m 2) = Some (m, obs', iter_count stop m) /\
               obs' = repeat m (2 + iter_count stop m).
Proof.
  intros Hc.
  assert (Hag : forall obs it, again_ c obs it = (it <? length (obs_at obs 1)) && ((stop =? 0) || (it <? stop))) by (destruct Hc; subst; reflexivity).
  assert (Hfu : iter_count stop m <= call_fuel c m) by (unfold iter_count, call_fuel; destruct stop; lia).
  destruct (run_star_inv (fun it m' obs => m' = m /\ obs = repeat m (2 + it)) c [Rd Entries; CallUser] (iter_count stop m))
    with (k := iter_count stop m) (it := 0) (m := m) (obs := repeat m 2) (fuel := call_fuel c m) as (m' & obs' & Hr & HP1 & HP2); auto.
  - intros it m1 obs [-> ->] Hlt. split.
    + rewrite Hag, obs_at_repeat by lia. unfold iter_count in Hlt. apply andb_true_intro. split.
      * apply Nat.ltb_lt. destruct stop; lia.
      * destruct stop; cbn [Nat.eqb orb]; auto. apply Nat.ltb_lt. lia.
    + cbn [run_body do_ev fst snd]. split; auto. rewrite repeat_snoc. reflexivity.
  - intros m1 obs [-> ->]. rewrite Hag, obs_at_repeat by lia. unfold iter_count. destruct stop as [|s].
    + rewrite Nat.ltb_irrefl. reflexivity.
    + cbn [Nat.eqb orb]. destruct (Nat.ltb_spec (Nat.min (S s) (length m)) (length m)); cbn [andb]; auto.
      apply Nat.ltb_ge. lia.
  - subst m'. exists obs'. auto.
Qed.
Lemma flat_pairs m : flat_map (fun j => nth_pair m j) (seq 0 (length m)) = flat m.
Proof.
  unfold nth_pair, flat.
  rewrite (flat_map_nth_error_seq (fun a : Z * Z => let (k, v) := a in [k; v]) m). clear. induction m as [|[a b] t IH]; cbn; congruence.
Qed.
Lemma exec_iter c stop m : (c = CRange stop \/ c = CAll stop) -> exec_call c m = Some (sem c m).
Proof.
  intros Hc. unfold exec_call.
  assert (Hsk : skel_of c = [E (Acq R); E (Rd Hdr); E (Rd Entries); Star [Rd Entries; CallUser]; E (Rel R)]) by (destruct Hc; subst; reflexivity).
  rewrite Hsk. cbn [run_items do_ev app]. change [m; m] with (repeat m 2).
  destruct (iter_loop c stop m Hc) as (obs' & Hr & ->). rewrite Hr. cbn [run_items do_ev].
  assert (Hres : result c (repeat m (2 + iter_count stop m)) (iter_count stop m) = iter_result stop m).
  { assert (R0 : result c (repeat m (2 + iter_count stop m)) (iter_count stop m) =
                 match stop with
                 | O => put_list (flat_map (fun j => nth_pair (obs_at (repeat m (2 + iter_count stop m)) (2 + j)) j) (seq 0 (iter_count stop m)))
                 | _ => [Z.of_nat (iter_count stop m); 1%Z]
                 end) by (destruct Hc; subst; reflexivity).
    rewrite R0. unfold iter_result. destruct stop as [|s]; [|reflexivity]. cbn [iter_count]. f_equal.
    rewrite (flat_map_ext_seq _ (fun j => nth_pair m j)); [apply flat_pairs|]. intros j Hj. rewrite obs_at_repeat by lia. reflexivity. }
  rewrite Hres. destruct Hc; subst; reflexivity.
Qed.

(* ---------------------------------------------------------------- GetWithMap: one lookup per key of the argument *)
Lemma zinsert_length x l : length (zinsert x l) = S (length l).
Proof. induction l as [|y t IH]; cbn [zinsert length]; auto. destruct (x <=? y)%Z; cbn [length]; auto. Qed.
Lemma zsort_length l : length (zsort l) = length l.
Proof. induction l as [|x t IH]; cbn [zsort fold_right length]; auto. fold (zsort t). rewrite zinsert_length, IH. reflexivity. Qed.
Lemma zdedup_cons_length : forall l x, length (zdedup (x :: l)) <= S (length l).
Proof.
  induction l as [|y t IH]; intros x; [cbn; lia|].
  change (zdedup (x :: y :: t)) with (if (x =? y)%Z then zdedup (y :: t) else x :: zdedup (y :: t)).
  specialize (IH y). destruct (x =? y)%Z; cbn [length]; lia.
Qed.
Lemma zdedup_length l : length (zdedup l) <= length l.
Proof. destruct l as [|x l]; [cbn; lia|]. apply zdedup_cons_length. Qed.

Lemma exec_getwithmap ks m : exec_call (CGetWithMap ks) m = Some (sem (CGetWithMap ks) m).
Proof.
  unfold exec_call. cbn [skel_of]. unfold skel_GetWithMap. cbn [run_items do_ev app].
  set (L := zdedup (zsort ks)).
  assert (HL : length L <= length ks) by (unfold L; rewrite <- (zsort_length ks); apply zdedup_length).
  destruct (run_star_inv (fun it m' obs => m' = m /\ obs = repeat m (2 * it)) (CGetWithMap ks) [Rd Hdr; Rd Entries] (length L))
    with (k := length L) (it := 0) (m := m) (obs := @nil map_) (fuel := call_fuel (CGetWithMap ks) m) as (m' & obs' & Hr & -> & ->); auto;
    try (unfold call_fuel; lia).
  - intros it m1 obs [-> ->] Hlt. split; [cbn [again_]; fold L; apply Nat.ltb_lt; auto|].
    cbn [run_body do_ev fst snd]. split; auto. rewrite <- app_assoc. cbn [app].
    replace (2 * S it) with (S (S (2 * it))) by lia. rewrite <- !repeat_snoc, <- app_assoc. reflexivity.
  - intros m1 obs _. cbn [again_]. fold L. apply Nat.ltb_irrefl.
  - rewrite Hr. cbn [run_items do_ev result sem]. fold L. do 3 f_equal.
    rewrite (flat_map_ext_seq _ (fun j => (fun k => [k; match get m k with Some v => v | None => (-1)%Z end]) (nth j L 0%Z))).
    + apply (flat_map_nth_seq (fun k => [k; match get m k with Some v => v | None => (-1)%Z end]) L 0%Z).
    + intros j Hj. cbv zeta. rewrite obs_at_repeat by lia. reflexivity.
Qed.

(* ---------------------------------------------------------------- all calls, all operation sequences *)
Theorem exec_call_is_sem c m : exec_call c m = Some (sem c m).
Proof.
  destruct c.
  - apply exec_get. - apply exec_set. - apply exec_setnx. - apply exec_setx. - apply exec_delete. - apply exec_has.
  - apply exec_contains. - apply exec_len. - apply exec_keys. - apply exec_values.
  - apply (exec_iter _ stop). left; reflexivity. - apply (exec_iter _ stop). right; reflexivity.
  - apply exec_getwithmap. - apply exec_getwithlock. - apply exec_clear. - apply exec_map.
Qed.

Theorem run_model_is_spec cs : forall m, run_model cs m = run_spec cs m.
Proof.
  induction cs as [|c t IH]; intros m; cbn [run_model run_spec]; [reflexivity|].
  rewrite exec_call_is_sem. destruct (sem c m) as [m' r]. rewrite IH. reflexivity.
Qed.
