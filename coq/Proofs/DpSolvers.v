(* C18: FindDpSolvers — for every map iteration order in every round and every tie-breaker: each cell is a selection of
   distinct items with exactly its key as total; the keys <= maxValue are exactly the attainable totals; keys above
   maxValue exist only with allowOverOnce, and then the least attainable total above maxValue is a key.
   Ported from DpSolversRound_proto.v / DpSolversCompose_proto.v (tie-breaker, key uniqueness and the overflow clause added). *)
From Coq Require Import List ZArith Lia Bool Arith Permutation Sorted.
From V Require Import Model.Dp.
Import ListNotations.
Local Open Scope Z_scope.
Arguments Z.add : simpl never.
Arguments Z.sub : simpl never.

Lemma has_In t dp : has t dp = true <-> exists sel, In (t, sel) dp.
Proof.
  unfold has. rewrite existsb_exists. split.
  - intros ([c s] & Hin & E). cbn [fst] in E. apply Z.eqb_eq in E. subst. eauto.
  - intros (sel & Hin). exists (t, sel). split; auto. cbn [fst]. apply Z.eqb_refl.
Qed.
Lemma has_keys t dp : has t dp = true <-> In t (map fst dp).
Proof.
  rewrite has_In, in_map_iff. split.
  - intros (s & H). exists (t, s). auto.
  - intros ([k s] & E & H). cbn [fst] in E. subst. eauto.
Qed.
Lemma lookup_has k dp : (exists s, lookup k dp = Some s) <-> has k dp = true.
Proof.
  induction dp as [|[k' s'] t IH]; cbn [lookup has existsb fst].
  - split; [intros [s H]; discriminate H|discriminate].
  - destruct (Z.eqb_spec k' k); cbn [orb]; [split; eauto|]. exact IH.
Qed.
Lemma lookup_none k dp : lookup k dp = None <-> has k dp = false.
Proof.
  pose proof (lookup_has k dp) as H. destruct (lookup k dp) as [s|]; destruct (has k dp); split; intros E; auto; try discriminate.
  - destruct H as [H _]. specialize (H (ex_intro _ s eq_refl)). discriminate.
  - destruct H as [_ H]. destruct (H eq_refl) as [s H']. discriminate.
Qed.
Lemma lookup_In k s dp : lookup k dp = Some s -> In (k, s) dp.
Proof.
  induction dp as [|[k' s'] t IH]; cbn [lookup]; [discriminate|]. destruct (Z.eqb_spec k' k).
  - intros E. inversion E; subst. left. reflexivity.
  - intros E. right. auto.
Qed.

Section Items.
Variable vals : list Z.
Hypothesis vals_pos : Forall (fun v => 0 < v) vals.
Local Notation vl := (dvl vals).
Local Notation total := (total vals).
Local Notation attainable := (attainable vals).
Local Notation cells_ok := (cells_ok vals).

Lemma total_app a b : total (a ++ b) = total a + total b.
Proof. induction a as [|x a IH]; cbn [app]; [reflexivity|]. change (total (x :: a ++ b)) with (vl x + total (a ++ b)). change (total (x :: a)) with (vl x + total a). lia. Qed.
Lemma total_snoc s k : total (s ++ [k]) = total s + vl k.
Proof. rewrite total_app. cbn [Dp.total fold_right]. lia. Qed.

Lemma sorted_snoc s k : StronglySorted lt s -> Forall (fun i => (i < k)%nat) s -> StronglySorted lt (s ++ [k]).
Proof.
  induction s as [|a s IH]; intros Hs Hk; cbn [app]; [repeat constructor|].
  inversion Hs; subst. inversion Hk; subst. constructor; [apply IH; auto|]. apply Forall_app. split; auto.
Qed.
Lemma dvalid_mono k s : dvalid k s -> dvalid (S k) s.
Proof. intros [H1 H2]. split; auto. eapply Forall_impl; [|exact H2]. cbn beta. intros; lia. Qed.
Lemma dvalid_le k n s : (k <= n)%nat -> dvalid k s -> dvalid n s.
Proof. intros Hle [H1 H2]. split; auto. eapply Forall_impl; [|exact H2]. cbn beta. intros; lia. Qed.
Lemma dvalid_snoc k s : dvalid k s -> dvalid (S k) (s ++ [k]).
Proof.
  intros [H1 H2]. split; [apply sorted_snoc; auto|]. apply Forall_app. split.
  - eapply Forall_impl; [|exact H2]. cbn beta. intros; lia.
  - repeat constructor.
Qed.
Lemma sorted_snoc_inv (s : list nat) x : StronglySorted lt (s ++ [x]) -> StronglySorted lt s /\ Forall (fun i => (i < x)%nat) s.
Proof.
  induction s as [|a s IH]; cbn [app]; intros H; [split; constructor|]. inversion H as [|? ? Hs Hall]; subst.
  destruct (IH Hs) as [I1 I2]. split.
  - constructor; auto. apply Forall_app in Hall. tauto.
  - constructor; auto. apply Forall_app in Hall. destruct Hall as [_ Hx]. inversion Hx; auto.
Qed.
Lemma dvalid_split k s : dvalid (S k) s -> dvalid k s \/ exists s', s = s' ++ [k] /\ dvalid k s'.
Proof.
  intros [Hs Hb]. destruct s as [|a s0] using rev_ind; [left; split; constructor|]. clear IHs0.
  destruct (sorted_snoc_inv _ _ Hs) as [Hs' Hlt]. apply Forall_app in Hb. destruct Hb as [Hb Ha]. inversion Ha as [|? ? Ha' _]; subst.
  destruct (Nat.eq_dec a k) as [->|Hne].
  - right. exists s0. split; auto. split; auto.
  - left. split; auto. apply Forall_app. split; [|constructor; [lia|constructor]].
    eapply Forall_impl; [|exact Hlt]. cbv beta. intros; lia.
Qed.
(* a non-empty selection ends with its largest index *)
Lemma dvalid_last n s : dvalid n s -> s <> [] -> exists k s', (k < n)%nat /\ s = s' ++ [k] /\ dvalid k s'.
Proof.
  intros [Hs Hb] Hne. destruct s as [|a s0] using rev_ind; [congruence|]. clear IHs0.
  destruct (sorted_snoc_inv _ _ Hs) as [Hs' Hlt]. apply Forall_app in Hb. destruct Hb as [_ Ha]. inversion Ha; subst.
  exists a, s0. repeat split; auto.
Qed.
Lemma vl_pos i : (i < length vals)%nat -> 0 < vl i.
Proof. intros H. unfold dvl. rewrite Forall_forall in vals_pos. apply vals_pos. apply nth_In. exact H. Qed.
Lemma vl_nonneg i : 0 <= vl i.
Proof.
  unfold dvl. destruct (Nat.lt_ge_cases i (length vals)).
  - rewrite Forall_forall in vals_pos. specialize (vals_pos (nth i vals 0) (nth_In _ _ H)). lia.
  - rewrite nth_overflow by lia. lia.
Qed.
Lemma total_nonneg s : 0 <= total s.
Proof. induction s as [|i s IH]; cbn [Dp.total fold_right]; [lia|]. fold (total s). pose proof (vl_nonneg i). lia. Qed.

Lemma cells_ok_mono k dp : cells_ok k dp -> cells_ok (S k) dp.
Proof. unfold Dp.cells_ok. apply Forall_impl. intros c [H1 H2]. split; auto. apply dvalid_mono; auto. Qed.

Section Round.
Variable brk : breaker.
Variables (maxV : Z) (k : nat) (allow : bool) (dp : list dcell).
Local Notation rgo := (round_go brk maxV (vl k) k allow dp).

(* one step of the walk, as a relation: the entry is skipped, or its cell is added, or it only updates ovf *)
Lemma rgo_step cur s t tmp ovf :
  exists tmp' ovf', rgo (@cons dcell (cur, s) t) tmp ovf = rgo t tmp' ovf' /\
    (tmp' = tmp \/ tmp' = @cons dcell (cur + vl k, s ++ [k]) tmp) /\
    (ovf' = ovf \/ (ovf' = cur + vl k /\ maxV < cur + vl k /\ allow = true)) /\
    (* not skipped and new => added *)
    ((maxV <? cur + vl k) && (negb allow || ((0 <? ovf) && (ovf <? cur + vl k))) = false ->
       has (cur + vl k) dp = false -> tmp' = @cons dcell (cur + vl k, s ++ [k]) tmp) /\
    (* added => within the limit or overflow allowed *)
    (tmp' <> tmp -> cur + vl k <= maxV \/ allow = true).
Proof.
  cbn [round_go]. destruct ((maxV <? cur + vl k) && (negb allow || ((0 <? ovf) && (ovf <? cur + vl k)))) eqn:Eskip.
  - exists tmp, ovf. repeat split; auto; try (intros; congruence).
  - set (ovf' := if maxV <? cur + vl k then cur + vl k else ovf).
    assert (Hovf : ovf' = ovf \/ (ovf' = cur + vl k /\ maxV < cur + vl k /\ allow = true)).
    { unfold ovf'. destruct (Z.ltb_spec maxV (cur + vl k)); [|left; reflexivity]. right. repeat split; auto.
      cbn [andb] in Eskip. destruct allow; [reflexivity|discriminate Eskip]. }
    assert (Hadd : cur + vl k <= maxV \/ allow = true).
    { destruct (Z.ltb_spec maxV (cur + vl k)); [|left; lia]. right. cbn [andb] in Eskip. destruct allow; [reflexivity|discriminate Eskip]. }
    destruct (lookup (cur + vl k) dp) as [old|] eqn:El.
    + assert (Hh : has (cur + vl k) dp = true) by (apply lookup_has; eauto).
      destruct brk as [f|].
      * destruct (f old (s ++ [k])).
        -- exists ((cur + vl k, s ++ [k]) :: tmp), ovf'. repeat split; auto; try (intros; congruence).
        -- exists tmp, ovf'. repeat split; auto; try (intros; congruence).
      * exists tmp, ovf'. repeat split; auto; try (intros; congruence).
    + exists ((cur + vl k, s ++ [k]) :: tmp), ovf'. repeat split; auto; try (intros; congruence).
Qed.

(* every cell the round produces is a genuine selection with the right total, whatever the order *)
Lemma round_sound : forall (entries : list dcell) tmp ovf,
  cells_ok k entries -> cells_ok (S k) tmp -> cells_ok (S k) (fst (rgo entries tmp ovf)).
Proof.
  induction entries as [|[cur s] t IH]; intros tmp ovf He Ht; [exact Ht|].
  inversion He as [|? ? [Hv Htot] He']; subst. cbn [fst snd] in *.
  destruct (rgo_step cur s t tmp ovf) as (tmp' & ovf' & -> & [->| ->] & _); apply IH; auto.
  constructor; auto. cbn [fst snd]. split; [apply dvalid_snoc; auto|]. rewrite total_snoc. lia.
Qed.

Lemma round_keep : forall (entries : list dcell) tmp ovf x, has x tmp = true -> has x (fst (rgo entries tmp ovf)) = true.
Proof.
  induction entries as [|[c s] t IH]; intros tmp ovf x Hx; [exact Hx|].
  destruct (rgo_step c s t tmp ovf) as (tmp' & ovf' & -> & [->| ->] & _); apply IH; auto.
  unfold has in *. cbn [existsb]. rewrite Hx. apply orb_true_r.
Qed.

(* no total within the limit is missed, whatever the order *)
Lemma round_complete : forall (entries : list dcell) tmp ovf cur s,
  In (cur, s) entries -> cur + vl k <= maxV ->
  has (cur + vl k) dp = true \/ has (cur + vl k) (fst (rgo entries tmp ovf)) = true.
Proof.
  induction entries as [|[c s0] t IH]; intros tmp ovf cur s Hin Hle; [contradiction|].
  destruct (rgo_step c s0 t tmp ovf) as (tmp' & ovf' & -> & _ & _ & Hnew & _).
  destruct Hin as [E|Hin]; [|eapply IH; eauto]. inversion E; subst c s0.
  destruct (has (cur + vl k) dp) eqn:Eh; [left; reflexivity|]. right.
  rewrite Hnew; auto.
  - apply round_keep. unfold has. cbn [existsb fst]. rewrite Z.eqb_refl. reflexivity.
  - destruct (Z.ltb_spec maxV (cur + vl k)); [lia|reflexivity].
Qed.

(* where the keys of the result come from *)
Lemma round_keys : forall (entries : list dcell) tmp ovf x, has x (fst (rgo entries tmp ovf)) = true ->
  has x tmp = true \/ exists cur s, In (cur, s) entries /\ x = cur + vl k /\ (x <= maxV \/ allow = true).
Proof.
  induction entries as [|[c s0] t IH]; intros tmp ovf x Hx; [left; exact Hx|].
  destruct (rgo_step c s0 t tmp ovf) as (tmp' & ovf' & E & Ht & _ & _ & Hadd). rewrite E in Hx.
  destruct (IH _ _ _ Hx) as [H|(cur & s & Hin & Hx' & Hb)].
  - destruct Ht as [->| ->]; [left; exact H|]. unfold has in H. cbn [existsb fst] in H. apply orb_true_iff in H.
    destruct H as [H|H]; [|left; exact H]. apply Z.eqb_eq in H. right. exists c, s0. split; [left; reflexivity|]. split; [lia|].
    rewrite <- H. apply Hadd. intros E'. apply (f_equal (@length dcell)) in E'. cbn [length] in E'. lia.
  - right. exists cur, s. split; [right; exact Hin|]. auto.
Qed.

(* the new keys are pairwise distinct when the walked keys are *)
Lemma round_nodup : forall (entries : list dcell) tmp ovf, NoDup (map fst entries) -> NoDup (map fst tmp) ->
  (forall x, has x tmp = true -> forall cur s, In (cur, s) entries -> x <> cur + vl k) ->
  NoDup (map fst (fst (rgo entries tmp ovf))).
Proof.
  induction entries as [|[c s0] t IH]; intros tmp ovf He Ht Hd; [exact Ht|].
  cbn [map fst] in He. inversion He as [|? ? Hnin He']; subst.
  destruct (rgo_step c s0 t tmp ovf) as (tmp' & ovf' & -> & [->| ->] & _).
  - apply IH; auto. intros x Hx cur s Hin. apply (Hd x Hx cur s). right; exact Hin.
  - apply IH; auto.
    + cbn [map fst]. constructor; auto. intros Hin. apply has_keys in Hin. apply (Hd _ Hin c s0); [left; reflexivity|reflexivity].
    + intros x Hx cur s Hin. unfold has in Hx. cbn [existsb fst] in Hx. apply orb_true_iff in Hx. destruct Hx as [Hx|Hx].
      * apply Z.eqb_eq in Hx. intros E. apply Hnin. replace c with cur by lia. apply in_map_iff. exists (cur, s). auto.
      * apply (Hd x Hx cur s). right; exact Hin.
Qed.

(* the overflow variable stays 0 or a total that some walked entry produced above the limit *)
Lemma round_ovf (Q : Z -> Prop) : forall (entries : list dcell) tmp ovf,
  (forall cur (s : list nat), In (cur, s) entries -> maxV < cur + vl k -> Q (cur + vl k)) ->
  (ovf = 0 \/ Q ovf) -> let o := snd (rgo entries tmp ovf) in o = 0 \/ Q o.
Proof.
  induction entries as [|[c s0] t IH]; intros tmp ovf HQ Ho; [exact Ho|]. cbv zeta.
  destruct (rgo_step c s0 t tmp ovf) as (tmp' & ovf' & -> & _ & Hov & _).
  apply IH; [intros cur s Hin Hgt'; apply (HQ cur s); [right; exact Hin|exact Hgt']|]. destruct Hov as [->|(-> & Hgt & _)]; [exact Ho|].
  right. apply (HQ c s0); [left; reflexivity|exact Hgt].
Qed.

(* with overflow allowed, a total above the limit that is <= every total above the limit reachable in this round
   (and <= the current overflow value) becomes a key *)
Lemma round_least star : allow = true -> forall (entries : list dcell) tmp ovf cur s,
  (forall c s', In (c, s') entries -> maxV < c + vl k -> star <= c + vl k) ->
  (ovf = 0 \/ star <= ovf) -> In (cur, s) entries -> cur + vl k = star -> maxV < star ->
  has star dp = true \/ has star (fst (rgo entries tmp ovf)) = true.
Proof.
  intros Hallow. induction entries as [|[c s0] t IH]; intros tmp ovf cur s Hmin Ho Hin Ecur Hgt; [contradiction|].
  destruct (rgo_step c s0 t tmp ovf) as (tmp' & ovf' & -> & _ & Hov & Hnew & _).
  destruct Hin as [E|Hin].
  - inversion E; subst c s0. destruct (has star dp) eqn:Eh; [left; reflexivity|]. right.
    rewrite Hnew; [| |rewrite Ecur; exact Eh].
    + apply round_keep. unfold has. cbn [existsb fst]. rewrite Ecur, Z.eqb_refl. reflexivity.
    + rewrite Hallow. cbn [negb orb]. destruct (Z.ltb_spec 0 ovf); cbn [andb]; [|apply andb_false_r].
      destruct (Z.ltb_spec ovf (cur + vl k)); [lia|apply andb_false_r].
  - apply (IH tmp' ovf' cur s); auto.
    + intros c' s' Hin' Hgt'. apply (Hmin c' s'); [right; exact Hin'|exact Hgt'].
    + destruct Hov as [->|(-> & Hgt' & _)]; [exact Ho|]. right. apply (Hmin c s0); [left; reflexivity|exact Hgt'].
Qed.
End Round.

Lemma has_merge t dp tmp : has t (merge dp tmp) = true <-> has t dp = true \/ has t tmp = true.
Proof.
  unfold merge. rewrite (has_In t (tmp ++ _)). split.
  - intros (sel & Hin). apply in_app_or in Hin. destruct Hin as [Hin|Hin].
    + right. apply has_In. eauto.
    + left. apply filter_In in Hin. apply has_In. exists sel. tauto.
  - intros [H|H].
    + destruct (has t tmp) eqn:Et.
      * apply has_In in Et. destruct Et as (sel & Hin). exists sel. apply in_or_app. left; auto.
      * apply has_In in H. destruct H as (sel & Hin). exists sel. apply in_or_app. right. apply filter_In. split; auto.
        cbn [fst]. rewrite Et. reflexivity.
    + apply has_In in H. destruct H as (sel & Hin). exists sel. apply in_or_app. left; auto.
Qed.
Lemma nodup_app {A} (a b : list A) : NoDup a -> NoDup b -> (forall x, In x a -> ~ In x b) -> NoDup (a ++ b).
Proof.
  induction a as [|x a IH]; intros Ha Hb Hd; cbn [app]; [exact Hb|]. inversion Ha; subst. constructor.
  - intros Hin. apply in_app_or in Hin. destruct Hin as [Hin|Hin]; [contradiction|]. apply (Hd x); [left; reflexivity|exact Hin].
  - apply IH; auto. intros y Hy. apply Hd. right; exact Hy.
Qed.
Lemma merge_nodup dp tmp : NoDup (map fst dp) -> NoDup (map fst tmp) -> NoDup (map fst (merge dp tmp)).
Proof.
  intros Hd Ht. unfold merge. rewrite map_app. apply nodup_app; auto.
  - induction dp as [|c dp IH]; cbn [filter map]; [constructor|]. inversion Hd; subst.
    destruct (negb (has (fst c) tmp)); [|auto]. cbn [map]. constructor; auto.
    intros Hin. apply in_map_iff in Hin. destruct Hin as (d & E & Hin). apply filter_In in Hin. apply H1. apply in_map_iff. exists d. tauto.
  - intros x Hx Hx'. apply in_map_iff in Hx'. destruct Hx' as (d & E & Hin). apply filter_In in Hin. destruct Hin as [_ Hn].
    apply has_keys in Hx. rewrite <- E in Hx. rewrite Hx in Hn. discriminate Hn.
Qed.

Section Compose.
Variable brk : breaker.
Variable maxV : Z.
Variable allow : bool.
Variable ord : nat -> list dcell -> list dcell.                       (* Go's map iteration order in round k *)
Hypothesis ord_perm : forall k dp, Permutation (ord k dp) dp.
Hypothesis HM : 0 <= maxV.
Local Notation solve := (solve brk maxV allow ord vals).

Lemma ord_same k dp c : In c (ord k dp) <-> In c dp.
Proof. split; apply Permutation_in; [apply ord_perm|apply Permutation_sym, ord_perm]. Qed.

Lemma solve_S k : solve (S k) =
  (merge (fst (solve k)) (fst (round_go brk maxV (vl k) k allow (fst (solve k)) (ord k (fst (solve k))) [] (snd (solve k)))),
   snd (round_go brk maxV (vl k) k allow (fst (solve k)) (ord k (fst (solve k))) [] (snd (solve k)))).
Proof. cbn [Dp.solve]. destruct (solve k) as [dp ovf]. cbn [fst snd]. destruct (round_go _ _ _ _ _ _ _ _ _) as [tmp o]. reflexivity. Qed.

(* each cell is a genuine selection; a total within the limit is a key iff it is attainable; keys are distinct *)
Theorem solvers_sound_complete : forall n, (n <= length vals)%nat ->
  cells_ok n (fst (solve n)) /\ NoDup (map fst (fst (solve n))) /\
  (forall t, t <= maxV -> (attainable n t <-> has t (fst (solve n)) = true)).
Proof.
  induction n as [|k IH]; intros Hn.
  - cbn [Dp.solve fst]. split; [|split].
    + constructor; [|constructor]. cbn [fst snd]. split; [split; constructor|reflexivity].
    + cbn [map fst]. constructor; [intros []|constructor].
    + intros t Ht. unfold has. cbn [existsb fst]. rewrite orb_false_r, Z.eqb_eq. split.
      * intros (s & [_ Hb] & Etot). destruct s as [|i s]; [cbn in Etot; auto|]. inversion Hb; lia.
      * intros <-. exists []. split; [split; constructor|reflexivity].
  - destruct (IH ltac:(lia)) as (Iok & Ind & Iatt). rewrite solve_S. cbn [fst].
    set (dp := fst (solve k)) in *. set (ovf := snd (solve k)).
    set (tmp := fst (round_go brk maxV (vl k) k allow dp (ord k dp) [] ovf)).
    assert (Hent : cells_ok k (ord k dp)).
    { unfold Dp.cells_ok in *. rewrite Forall_forall in *. intros c Hc. apply Iok. apply ord_same in Hc. exact Hc. }
    assert (Htmp : cells_ok (S k) tmp) by (apply round_sound; [exact Hent|constructor]).
    assert (Hok : cells_ok (S k) (merge dp tmp)).
    { unfold merge. apply Forall_app. split; auto. apply cells_ok_mono in Iok. unfold Dp.cells_ok in *. rewrite Forall_forall in *.
      intros c Hc. apply filter_In in Hc. apply Iok. tauto. }
    split; [exact Hok|]. split.
    + apply merge_nodup; [exact Ind|]. apply round_nodup.
      * eapply Permutation_NoDup; [apply Permutation_sym, Permutation_map, ord_perm|exact Ind].
      * constructor.
      * intros x Hx. discriminate Hx.
    + intros t Ht. rewrite has_merge. split.
      * intros (s & Hv & Etot). destruct (dvalid_split k s Hv) as [Hv'|(s' & -> & Hv')].
        -- left. apply Iatt; auto. exists s. auto.
        -- rewrite total_snoc in Etot.
           assert (Hcur : has (total s') dp = true).
           { apply Iatt; [pose proof (vl_nonneg k); lia|]. exists s'. auto. }
           apply has_In in Hcur. destruct Hcur as (sel & Hin).
           destruct (round_complete brk maxV k allow dp (ord k dp) [] ovf (total s') sel) as [H|H].
           ++ apply ord_same. exact Hin.
           ++ lia.
           ++ left. rewrite <- Etot. exact H.
           ++ right. rewrite <- Etot. exact H.
      * intros H. assert (Hh : has t (merge dp tmp) = true) by (apply has_merge; exact H).
        apply has_In in Hh. destruct Hh as (sel & Hin). unfold Dp.cells_ok in Hok. rewrite Forall_forall in Hok.
        destruct (Hok _ Hin) as [Hv Etot]. cbn [fst snd] in *. exists sel. auto.
Qed.

Lemma solve_keys_mono t : forall n m, (n <= m)%nat -> has t (fst (solve n)) = true -> has t (fst (solve m)) = true.
Proof.
  intros n m Hle. induction Hle as [|m Hle IH]; [auto|]. intros H. rewrite solve_S. cbn [fst]. apply has_merge. left. auto.
Qed.

(* without allowOverOnce no key exceeds maxValue *)
Theorem solvers_no_over : allow = false -> forall n t, has t (fst (solve n)) = true -> t <= maxV.
Proof.
  intros Ha. induction n as [|k IH]; intros t Ht.
  - cbn [Dp.solve fst] in Ht. unfold has in Ht. cbn [existsb fst] in Ht. rewrite orb_false_r in Ht. apply Z.eqb_eq in Ht. lia.
  - rewrite solve_S in Ht. cbn [fst] in Ht. apply has_merge in Ht. destruct Ht as [Ht|Ht]; [auto|].
    apply round_keys in Ht. destruct Ht as [Ht|(cur & s & _ & _ & [Hle|Hallow])]; [discriminate Ht|lia|congruence].
Qed.

(* the overflow variable is 0 or an attainable total above maxValue *)
Lemma solve_ovf : forall n, (n <= length vals)%nat ->
  snd (solve n) = 0 \/ (maxV < snd (solve n) /\ attainable (length vals) (snd (solve n))).
Proof.
  induction n as [|k IH]; intros Hn; [left; reflexivity|]. rewrite solve_S. cbn [snd].
  destruct (solvers_sound_complete k ltac:(lia)) as (Iok & _ & _).
  apply (round_ovf brk maxV k allow (fst (solve k)) (fun o => maxV < o /\ attainable (length vals) o)); [|apply IH; lia].
  intros cur s Hin Hgt. split; [exact Hgt|]. apply ord_same in Hin. unfold Dp.cells_ok in Iok. rewrite Forall_forall in Iok.
  destruct (Iok _ Hin) as [Hv Et]. cbn [fst snd] in *. exists (s ++ [k]). split.
  - apply (dvalid_le (S k)); [lia|]. apply dvalid_snoc. exact Hv.
  - rewrite total_snoc. lia.
Qed.

(* with allowOverOnce the least attainable total above maxValue is a key *)
Theorem solvers_least_over : allow = true -> forall t, least_over vals (length vals) maxV t ->
  has t (fst (solve (length vals))) = true.
Proof.
  intros Ha t ((s & Hv & Et) & Hgt & Hleast).
  assert (Hne : s <> []) by (intros ->; cbn in Et; lia).
  destruct (dvalid_last _ _ Hv Hne) as (k & s' & Hk & -> & Hv'). rewrite total_snoc in Et.
  assert (Hpre : total s' <= maxV).
  { destruct (Z.le_gt_cases (total s') maxV); auto. exfalso.
    assert (Hat : attainable (length vals) (total s')) by (exists s'; split; [apply (dvalid_le k); [lia|exact Hv']|reflexivity]).
    specialize (Hleast _ Hat ltac:(lia)). pose proof (vl_pos k Hk). lia. }
  destruct (solvers_sound_complete k ltac:(lia)) as (Iok & _ & Iatt).
  assert (Hcur : has (total s') (fst (solve k)) = true) by (apply Iatt; [exact Hpre|exists s'; auto]).
  apply has_In in Hcur. destruct Hcur as (sel & Hin).
  apply (solve_keys_mono t (S k)); [lia|]. rewrite solve_S. cbn [fst]. apply has_merge.
  apply (round_least brk maxV k allow (fst (solve k)) t Ha (ord k (fst (solve k))) [] (snd (solve k)) (total s') sel); auto.
  - intros c s0 Hin' Hgt'. apply Hleast; [|exact Hgt']. apply ord_same in Hin'. unfold Dp.cells_ok in Iok. rewrite Forall_forall in Iok.
    destruct (Iok _ Hin') as [Hv0 Et0]. cbn [fst snd] in *. exists (s0 ++ [k]). split.
    + apply (dvalid_le (S k)); [lia|]. apply dvalid_snoc. exact Hv0.
    + rewrite total_snoc. lia.
  - destruct (solve_ovf k ltac:(lia)) as [->|[Ho Hat]]; [left; reflexivity|]. right. apply Hleast; auto.
  - apply ord_same. exact Hin.
Qed.
End Compose.
End Items.

(* the statements as used in Props/C18.v *)
Corollary solvers_no_over' vals brk maxV ord : 0 <= maxV ->
  forall n t, has t (fst (solve brk maxV false ord vals n)) = true -> t <= maxV.
Proof. intros HM. exact (solvers_no_over vals brk maxV false ord HM eq_refl). Qed.
Corollary solvers_least_over' vals : Forall (fun v => 0 < v) vals ->
  forall brk maxV ord, (forall k dp, Permutation (ord k dp) dp) -> 0 <= maxV ->
  forall t, least_over vals (length vals) maxV t -> has t (find_dp_solvers brk maxV true ord vals) = true.
Proof. intros Hp brk maxV ord Ho HM. exact (solvers_least_over vals Hp brk maxV true ord Ho HM eq_refl). Qed.
(* the hypotheses are satisfiable *)
Example solvers_example : Forall (fun v => 0 < v) [2; 3] /\ (forall (k : nat) (dp : list dcell), Permutation ((fun _ d => d) k dp) dp)
  /\ least_over [2; 3] 2 4 5.
Proof.
  split; [repeat constructor|]. split; [intros; apply Permutation_refl|].
  split; [exists [0%nat; 1%nat]; split; [split; repeat constructor|reflexivity]|]. split; [lia|].
  intros t' (s & [Hs Hb] & <-) Hgt.
  destruct s as [|a [|b [|c s]]].
  - cbn in Hgt. lia.
  - inversion Hb; subst. destruct a as [|[|a]]; cbn in *; lia.
  - inversion Hb as [|? ? Ha Hb']; subst. inversion Hb' as [|? ? Hb0 _]; subst. inversion Hs as [|? ? _ Hlt]; subst. inversion Hlt; subst.
    destruct a as [|[|a]]; destruct b as [|[|b]]; cbn in *; lia.
  - exfalso. inversion Hb as [|? ? Ha Hb']; subst. inversion Hb' as [|? ? Hb0 Hb'']; subst. inversion Hb'' as [|? ? Hc _]; subst.
    inversion Hs as [|? ? Hs' Hlt]; subst. inversion Hlt as [|? ? Hab Hlt']; subst. inversion Hlt'; subst.
    inversion Hs' as [|? ? _ Hlt2]; subst. inversion Hlt2; subst. lia.
Qed.
