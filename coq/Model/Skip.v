(* C02 — listz.SkipList / listz.SkipListWithCmp (skip.go, skip_cmp.go, iter.go), algorithm-level model.

   State: one key list per level (level 0 first; the head node is implicit, a node is identified by its key),
   a value store, the `level` and `len` fields, whether the private *rand.Rand is set.  `levels = []` is
   `head.next == nil` (the zero value); after Init/Clear it has maxLevel entries.
   All three top-down searches are the code's loops: `cur` is carried across levels (None = &s.head),
   update[i] is filled per level.  An index expression on the head tower (`s.head.next[i]`) that Go would
   reject is a panic (= None): the loops index the head first at i = level-1, so they panic iff
   level > len(head.next); the level-0 walks index head.next[0].
   The tower height of a new node is computed from the raw Uint64() word, which is an input (list of words;
   an exhausted list yields 0).
   The comparator is a Section variable; SkipList[K] is the instance with the built-in order of K.

   Second half: the specification, a strictly sorted association list (OMap), and its run function. *)
From Coq Require Import List ZArith Bool Arith Sorted.
From V Require Import Gen.SkipConsts.
Import ListNotations.

Section Skip.
Variables K V : Type.
Variable cmp : K -> K -> comparison.   (* sign of s.cmp(a, b) / of the built-in order *)
Variable v0 : V.                       (* Go zero value of V *)

Definition keqb (a b : K) : bool := match cmp a b with Eq => true | _ => false end.
Definition kltb (a b : K) : bool := match cmp a b with Lt => true | _ => false end.

(* ---------------------------------------------------------------- one chain *)
(* the part of a chain strictly after node c / up to and including c *)
Fixpoint after (c : K) (l : list K) : list K :=
  match l with [] => [] | x :: t => if keqb x c then t else after c t end.
Fixpoint through (c : K) (l : list K) : list K :=
  match l with [] => [] | x :: t => if keqb x c then [x] else x :: through c t end.
Definition nexts (cur : option K) (l : list K) : list K := match cur with None => l | Some c => after c l end.

(* for cur.next[i] != nil { next := cur.next[i]; if next.key > key {break}; if next.key == key {hit}; cur = next } *)
Fixpoint walk (key : K) (cur : option K) (rest : list K) : option K * bool :=
  match rest with
  | [] => (cur, false)
  | n :: t => match cmp n key with Gt => (cur, false) | Eq => (cur, true) | Lt => walk key (Some n) t end
  end.

(* GetNode / set / RangeWithStart: levels n-1 .. 0, stops at the first hit; returns (hit, update[0..n)) *)
Fixpoint search (key : K) (levels : list (list K)) (n : nat) (cur : option K) : bool * list (option K) :=
  match n with
  | O => (false, [])
  | S i =>
      let '(cur', hit) := walk key cur (nexts cur (nth i levels [])) in
      if hit then (true, [])
      else let '(h, us) := search key levels i cur' in if h then (true, []) else (false, us ++ [cur'])
  end.

(* Remove: never stops early, records curLevel at the first hit; returns (curLevel, update[0..n)) *)
Fixpoint rsearch (key : K) (levels : list (list K)) (n : nat) (cur : option K) (curLevel : nat) : nat * list (option K) :=
  match n with
  | O => (curLevel, [])
  | S i =>
      let '(cur', hit) := walk key cur (nexts cur (nth i levels [])) in
      let cl := if hit && (curLevel =? 0)%nat then S i else curLevel in
      let '(cl', us) := rsearch key levels i cur' cl in (cl', us ++ [cur'])
  end.

(* node.next[i] = update[i].next[i]; update[i].next[i] = node *)
Definition ins_after (cur : option K) (key : K) (l : list K) : list K :=
  match cur with None => key :: l | Some c => through c l ++ key :: after c l end.
Definition splice (key : K) (h : nat) (us : list (option K)) (levels : list (list K)) : list (list K) :=
  map (fun j => if (j <? h)%nat then ins_after (nth j us None) key (nth j levels []) else nth j levels [])
      (seq 0 (length levels)).

(* update[i].next[i] = cur.next[i], cur being the node that holds key *)
Definition unsplice (u : option K) (key : K) (l : list K) : list K :=
  match u with None => [] | Some c => through c l end ++ after key l.

(* for s.level > 1 && s.head.next[s.level-1] == nil { s.level-- } *)
Fixpoint shrink (fuel : nat) (levels : list (list K)) (level : nat) : nat :=
  match fuel with
  | O => level
  | S f => if (1 <? level)%nat && (match nth (level - 1) levels [] with [] => true | _ => false end)
           then shrink f levels (level - 1) else level
  end.

(* ---------------------------------------------------------------- the value store (node.val, keyed by node) *)
Definition vget (k : K) (l : list (K * V)) : option V :=
  match find (fun p => keqb (fst p) k) l with Some p => Some (snd p) | None => None end.
Definition vgetd (k : K) (l : list (K * V)) : V := match vget k l with Some v => v | None => v0 end.
Definition vdel (k : K) (l : list (K * V)) : list (K * V) := filter (fun p => negb (keqb (fst p) k)) l.
Definition vset (k : K) (v : V) (l : list (K * V)) : list (K * V) := (k, v) :: vdel k l.

(* ---------------------------------------------------------------- randomLevel *)
Definition maxL : nat := Z.to_nat skip_maxLevel.
Definition bitlen (k : Z) : Z := if (k <=? 0)%Z then 0%Z else (Z.log2 k + 1)%Z.          (* bits.Len64 *)
Definition random_level (w : Z) : nat :=                                                  (* w = r.Uint64() *)
  Z.to_nat (Z.land (skip_maxLevel - bitlen (Z.land w skip_zoneMask)) skip_levelMask + 1).

(* ---------------------------------------------------------------- the structure *)
Inductive variant := Plain | WithCmp.     (* SkipList / SkipListWithCmp: lazyInit, Clear guard differ *)

Record sk := mk { levels : list (list K); vals : list (K * V); level : nat; len : Z; has_rand : bool }.
Definition zero : sk := mk [] [] 0 0 false.                          (* var s SkipList[K,V] *)
Definition fresh : sk := mk (repeat [] maxL) [] 1 0 true.            (* after Init() *)
Definition is_zero (s : sk) : bool := match levels s with [] => true | _ => false end.   (* s.head.next == nil *)
Definition keys0 (s : sk) : list K := nth 0 (levels s) [].
Definition pairs (s : sk) : list (K * V) := map (fun k => (k, vgetd k (vals s))) (keys0 s).
Definition head_ok (s : sk) : bool := (level s <=? length (levels s))%nat.   (* the search loops do not index past head.next *)

(* mode 0 Set, 1 SetX, 2 SetNx *)
Definition set_ (vr : variant) (s0 : sk) (key : K) (val : V) (mode : nat) (rnd : list Z) : option (sk * bool * list Z) :=
  let s := match vr with Plain => if is_zero s0 then fresh else s0 | WithCmp => s0 end in    (* s.lazyInit() *)
  if negb (head_ok s) then None else
  let '(hit, us) := search key (levels s) (level s) None in
  if hit then
    if (mode =? 2)%nat then Some (s, false, rnd)
    else Some (mk (levels s) (vset key val (vals s)) (level s) (len s) (has_rand s), true, rnd)
  else if (mode =? 1)%nat then Some (s, false, rnd)
  else if negb (has_rand s) then None                                   (* randomLevel(nil) *)
  else
    let rh := random_level (hd 0%Z rnd) in
    let h := if (level s <? rh)%nat then S (level s) else rh in         (* if level > s.level { level = s.level + 1 ... } *)
    if (length (levels s) <? h)%nat then None else                      (* s.head.next[i], i < level *)
    let us' := us ++ repeat None (h - level s) in                       (* update[i] = &s.head *)
    Some (mk (splice key h us' (levels s)) (vset key val (vals s)) (Nat.max (level s) h) (len s + 1) (has_rand s),
          true, tl rnd).

Definition remove_ (s : sk) (key : K) : option (sk * option V) :=
  if negb (head_ok s) then None else
  let '(cl, us) := rsearch key (levels s) (level s) None 0 in
  if (cl =? 0)%nat then Some (s, None) else
  let lv' := map (fun j => if (j <? cl)%nat then unsplice (nth j us None) key (nth j (levels s) []) else nth j (levels s) [])
                 (seq 0 (length (levels s))) in
  let level' := if (level s <=? cl)%nat then shrink (level s) lv' (level s) else level s in
  Some (mk lv' (vdel key (vals s)) level' (len s - 1) (has_rand s), Some (vgetd key (vals s))).

Definition clear_ (vr : variant) (s : sk) : sk :=
  match vr with
  | Plain => if is_zero s then s else mk (repeat [] maxL) [] 1 0 (has_rand s)
  | WithCmp => mk (repeat [] maxL) [] 1 0 (has_rand s)
  end.

(* GetNode: the node (stored key, value, key of Next()) *)
Definition get_node (s : sk) (key : K) : option (option (K * V * option K)) :=
  if negb (head_ok s) then None else
  let '(hit, _) := search key (levels s) (level s) None in
  if hit then
    match find (fun x => keqb x key) (keys0 s) with
    | Some k' => Some (Some (k', vgetd k' (vals s), hd_error (after k' (keys0 s))))
    | None => Some None
    end
  else Some None.

(* the callback: called with (call index, key, value); the visited list is what it was called on *)
Fixpoint visit (f : nat -> K -> V -> bool) (i : nat) (l : list (K * V)) : list (K * V) :=
  match l with [] => [] | (k, v) :: t => if f i k v then (k, v) :: visit f (S i) t else [(k, v)] end.

(* Range / All / Keys / Values / Head: `if s.len == 0 { return }`, then s.head.next[0] *)
Definition level0_guard {A} (s : sk) (dflt : A) (body : A) : option A :=
  if (len s =? 0)%Z then Some dflt else if is_zero s then None else Some body.

Definition pairs_after (s : sk) (cur : option K) : list (K * V) :=
  map (fun k => (k, vgetd k (vals s))) (nexts cur (keys0 s)).

Definition range_start (vr : variant) (s : sk) (start : K) (f : nat -> K -> V -> bool) : option (list (K * V)) :=
  if (len s =? 0)%Z then Some [] else               (* both variants: `if s.len == 0 { return }` (7fd87eb, 830a627) *)
  if negb (head_ok s) then None else
  let '(hit, us) := search start (levels s) (level s) None in
  if hit then
    match find (fun x => keqb x start) (keys0 s) with
    | Some k' =>
        let v := vgetd k' (vals s) in
        if f 0%nat k' v then Some ((k', v) :: visit f 1 (pairs_after s (Some k'))) else Some [(k', v)]
    | None => None
    end
  else
    let cur := nth 0 us None in
    match cur with
    | None => if is_zero s then None else Some (visit f 0 (pairs_after s None))       (* s.head.next[0] *)
    | Some _ => Some (visit f 0 (pairs_after s cur))
    end.

Definition range_range (vr : variant) (s : sk) (start stop : K) (f : nat -> K -> V -> bool) : option (list (K * V)) :=
  match range_start vr s start (fun i k v => if kltb k stop then f i k v else false) with
  | Some l => Some (filter (fun p => kltb (fst p) stop) l)        (* the calls that reach the user's callback *)
  | None => None
  end.

(* tower height of a node = number of levels whose chain holds it *)
Definition height (s : sk) (k : K) : nat := length (filter (fun l => existsb (fun x => keqb x k) l) (levels s)).

(* ---------------------------------------------------------------- operations and results *)
Inductive op :=
| OInit | OSet (k : K) (v : V) | OSetNx (k : K) (v : V) | OSetX (k : K) (v : V)
| OGet (k : K) | OGetNode (k : K) | ONodeSet (k : K) (v : V) | OLen | OHead | OWalk
| ORemove (k : K) | OClear
| ORange (f : nat -> K -> V -> bool) | OAll (f : nat -> K -> V -> bool) | OKeys | OValues
| ORangeStart (s : K) (f : nat -> K -> V -> bool) | ORangeRange (s e : K) (f : nat -> K -> V -> bool)
| OShape.

Inductive res :=
| RUnit | RBool (b : bool) | RVal (v : option V) | RNode (n : option (K * V * option K)) | RLen (n : Z)
| RPairs (l : list (K * V)) | RKeys (l : list K) | RVals (l : list V) | RShape (lv : nat) (hs : list nat).

Definition step (vr : variant) (s : sk) (o : op) (rnd : list Z) : option (sk * res * list Z) :=
  match o with
  | OInit => Some (fresh, RUnit, rnd)
  | OSet k v => match set_ vr s k v 0 rnd with Some (s', _, r') => Some (s', RUnit, r') | None => None end
  | OSetX k v => match set_ vr s k v 1 rnd with Some (s', b, r') => Some (s', RBool b, r') | None => None end
  | OSetNx k v => match set_ vr s k v 2 rnd with Some (s', b, r') => Some (s', RBool b, r') | None => None end
  | OGet k => match get_node s k with
              | Some (Some (_, v, _)) => Some (s, RVal (Some v), rnd)
              | Some None => Some (s, RVal None, rnd)
              | None => None end
  | OGetNode k => match get_node s k with Some n => Some (s, RNode n, rnd) | None => None end
  | ONodeSet k v => match get_node s k with
              | Some (Some (k', _, _)) => Some (mk (levels s) (vset k' v (vals s)) (level s) (len s) (has_rand s), RBool true, rnd)
              | Some None => Some (s, RBool false, rnd)
              | None => None end
  | OLen => Some (s, RLen (len s), rnd)
  | OHead => match level0_guard s None (match pairs s with [] => None | (k, v) :: _ => Some (k, v, hd_error (tl (keys0 s))) end) with
             | Some n => Some (s, RNode n, rnd) | None => None end
  | OWalk => match level0_guard s [] (pairs s) with Some l => Some (s, RPairs l, rnd) | None => None end
  | ORemove k => match remove_ s k with Some (s', v) => Some (s', RVal v, rnd) | None => None end
  | OClear => Some (clear_ vr s, RUnit, rnd)
  | ORange f | OAll f => match level0_guard s [] (visit f 0 (pairs s)) with Some l => Some (s, RPairs l, rnd) | None => None end
  | OKeys => match level0_guard s [] (keys0 s) with Some l => Some (s, RKeys l, rnd) | None => None end
  | OValues => match level0_guard s [] (map snd (pairs s)) with Some l => Some (s, RVals l, rnd) | None => None end
  | ORangeStart st f => match range_start vr s st f with Some l => Some (s, RPairs l, rnd) | None => None end
  | ORangeRange st e f => match range_range vr s st e f with Some l => Some (s, RPairs l, rnd) | None => None end
  | OShape => Some (s, RShape (level s) (map (height s) (keys0 s)), rnd)
  end.

(* None = the Go code panics somewhere in the sequence *)
Fixpoint run (vr : variant) (s : sk) (ops : list op) (rnd : list Z) : option (list res) :=
  match ops with
  | [] => Some []
  | o :: t => match step vr s o rnd with
              | Some (s', r, rnd') => match run vr s' t rnd' with Some rs => Some (r :: rs) | None => None end
              | None => None
              end
  end.

(* the state after a sequence (None = a panic on the way) *)
Fixpoint exec (vr : variant) (s : sk) (ops : list op) (rnd : list Z) : option sk :=
  match ops with
  | [] => Some s
  | o :: t => match step vr s o rnd with Some (s', _, rnd') => exec vr s' t rnd' | None => None end
  end.

(* what "total-order comparator" means: antisymmetric (equivalent keys are equal), total, transitive *)
Definition total_order : Prop :=
  (forall a b, cmp a b = Eq -> a = b) /\
  (forall a b, cmp b a = CompOpp (cmp a b)) /\
  (forall a b c, cmp a b = Lt -> cmp b c = Lt -> cmp a c = Lt).

(* the representation invariant of an initialised list (what Proofs/ shows every operation preserves) *)
Definition inv (s : sk) : Prop :=
  (forall j, StronglySorted (fun a b => cmp a b = Lt) (nth j (levels s) [])) /\      (* every level strictly ascending *)
  (forall j, incl (nth (S j) (levels s) []) (nth j (levels s) [])) /\                (* level j+1 is a sub-chain of level j *)
  (forall j, (level s <= j)%nat -> nth j (levels s) [] = []) /\                      (* nothing at or above `level` *)
  (1 <= level s <= length (levels s))%nat /\
  length (levels s) = maxL /\
  len s = Z.of_nat (length (keys0 s)) /\
  (level s = 1%nat \/ nth (level s - 1) (levels s) [] <> []) /\                       (* the top level is in use *)
  has_rand s = true.

(* ================================================================ specification: sorted association list *)
Definition omap := list (K * V).

Fixpoint s_insert (k : K) (v : V) (m : omap) : omap :=
  match m with
  | [] => [(k, v)]
  | (k', v') :: t => match cmp k k' with Lt => (k, v) :: m | Eq => (k', v) :: t | Gt => (k', v') :: s_insert k v t end
  end.
Definition s_find (k : K) (m : omap) : option (K * V) := find (fun p => keqb (fst p) k) m.
Definition s_mem (k : K) (m : omap) : bool := match s_find k m with Some _ => true | None => false end.
Definition s_remove (k : K) (m : omap) : omap := filter (fun p => negb (keqb (fst p) k)) m.
Definition s_from (start : K) (m : omap) : omap := filter (fun p => negb (kltb (fst p) start)) m.         (* keys >= start *)
Definition s_between (start stop : K) (m : omap) : omap :=
  filter (fun p => negb (kltb (fst p) start) && kltb (fst p) stop) m.                                     (* keys in [start, stop) *)
Definition s_node (k : K) (m : omap) : option (K * V * option K) :=
  match s_find k m with
  | Some (k', v) => Some (k', v, hd_error (map fst (filter (fun p => kltb k' (fst p)) m)))
  | None => None
  end.

Definition s_step (m : omap) (o : op) : omap * res :=
  match o with
  | OInit => ([], RUnit)
  | OSet k v => (s_insert k v m, RUnit)
  | OSetX k v => if s_mem k m then (s_insert k v m, RBool true) else (m, RBool false)
  | OSetNx k v => if s_mem k m then (m, RBool false) else (s_insert k v m, RBool true)
  | OGet k => (m, RVal (match s_find k m with Some p => Some (snd p) | None => None end))
  | OGetNode k => (m, RNode (s_node k m))
  | ONodeSet k v => if s_mem k m then (s_insert k v m, RBool true) else (m, RBool false)
  | OLen => (m, RLen (Z.of_nat (length m)))
  | OHead => (m, RNode (match m with [] => None | (k, v) :: t => Some (k, v, hd_error (map fst t)) end))
  | OWalk => (m, RPairs m)
  | ORemove k => (s_remove k m, RVal (match s_find k m with Some p => Some (snd p) | None => None end))
  | OClear => ([], RUnit)
  | ORange f | OAll f => (m, RPairs (visit f 0 m))
  | OKeys => (m, RKeys (map fst m))
  | OValues => (m, RVals (map snd m))
  | ORangeStart st f => (m, RPairs (visit f 0 (s_from st m)))
  | ORangeRange st e f => (m, RPairs (visit f 0 (s_between st e m)))
  | OShape => (m, RShape 0 (map (fun _ => 0%nat) m))       (* the specification does not constrain tower heights *)
  end.

Fixpoint s_run (m : omap) (ops : list op) : list res :=
  match ops with
  | [] => []
  | o :: t => let '(m', r) := s_step m o in r :: s_run m' t
  end.

(* Scope of the SkipListWithCmp statement: before the first Init the list has no comparator (and no random
   source), so it is not written (Set/SetNx would dereference nil).  Every other call is in scope. *)
Definition pre_init_ok (o : op) : bool :=
  match o with
  | OSet _ _ | OSetNx _ _ => false
  | _ => true
  end.
Fixpoint cmp_scope (ops : list op) : bool :=
  match ops with
  | [] => true
  | OInit :: _ => true
  | o :: t => pre_init_ok o && cmp_scope t
  end.

(* results compared up to the shape observation (heights are not part of the ordered-map behaviour) *)
Definition erase (r : res) : res := match r with RShape _ hs => RShape 0 (map (fun _ => 0%nat) hs) | _ => r end.

End Skip.

Arguments mk {K V}.
Arguments levels {K V}.
Arguments vals {K V}.
Arguments level {K V}.
Arguments len {K V}.
Arguments has_rand {K V}.
Arguments is_zero {K V}.
Arguments head_ok {K V}.
Arguments zero {K V}.
Arguments fresh {K V}.
Arguments OInit {K V}.
Arguments OLen {K V}.
Arguments OHead {K V}.
Arguments OWalk {K V}.
Arguments OClear {K V}.
Arguments OKeys {K V}.
Arguments OValues {K V}.
Arguments OShape {K V}.
Arguments OSet {K V}.
Arguments OSetNx {K V}.
Arguments OSetX {K V}.
Arguments OGet {K V}.
Arguments OGetNode {K V}.
Arguments ONodeSet {K V}.
Arguments ORemove {K V}.
Arguments ORange {K V}.
Arguments OAll {K V}.
Arguments ORangeStart {K V}.
Arguments ORangeRange {K V}.
Arguments RUnit {K V}.
Arguments RBool {K V}.
Arguments RVal {K V}.
Arguments RNode {K V}.
Arguments RLen {K V}.
Arguments RPairs {K V}.
Arguments RKeys {K V}.
Arguments RVals {K V}.
Arguments RShape {K V}.
