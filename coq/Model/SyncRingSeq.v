(* C10 — ringz.SyncRing (ringz/sync.go) used from ONE goroutine: executable sequential model.
   head, tail and every slot's sequence number are stored as 32-bit values (all arithmetic through u32),
   the slot index is `pos & mask`, every index expression is checked (None = panic), Init truncates the
   requested capacity with uint32(cap) and rounds with the code's loop (constants from Gen/Ringz.v).
   A CompareAndSwap in a single goroutine always succeeds (the value was loaded two lines above), so it is
   modelled as the store.  The concurrent model (C01) lives in Model/SyncRingConc.v and is not used here.
   No proofs in this file. *)
From Coq Require Import List ZArith Bool.
From V Require Import Gen.Ringz Model.RingSeq.
Import ListNotations.
Local Open Scope Z_scope.

Definition M32 : Z := 2 ^ 32.
Definition u32 (x : Z) : Z := x mod M32.

Inductive sop :=
| SPush (v : Z) | SPop | SLen | SIsEmpty | SIsFull | SCap
| SInit (c : Z)                 (* Init on a ring that is already in use (keeps head/tail — see notes/C10.md) *)
| SDump
| SPushWait (v : Z) (timed : bool)   (* PushWait(v, 0) / PushWait(v, 1ns): one attempt / two attempts *)
| SPopWait (timed : bool).

Record sring := { slots : list (Z * Z); shead : Z; stail : Z; scap : Z; smask : Z }.

Fixpoint supd (l : list (Z * Z)) (i : nat) (x : Z * Z) : list (Z * Z) :=
  match l, i with [], _ => [] | _ :: t, O => x :: t | h :: t, S j => h :: supd t j x end.

(* roundupPowOfTwo (sync.go:200-206): for i := x; i != 0; pos++ { i >>= 1 }; return 1 << pos   (uint32) *)
Fixpoint bits_loop (fuel : nat) (i pos : Z) : option Z :=
  match fuel with
  | O => None
  | S f => if i =? roundup_stop then Some pos else bits_loop f (Z.shiftr i roundup_shift) (pos + 1)
  end.
Definition roundup (x : Z) : option Z :=
  match bits_loop 40 x 0 with None => None | Some pos => Some (u32 (Z.shiftl roundup_base pos)) end.

(* the capacity computed by Init (sync.go:30-42); None = panic, NOFUEL never happens (Proofs: roundup_fuel) *)
Definition init_cap (c : Z) : option (option Z) :=
  if c <=? sync_panic_bound then None
  else if sync_small_request =? c then Some (Some sync_min_cap)
  else let c0 := u32 c in
       if 0 <? Z.land c0 (u32 (c0 - 1)) then Some (roundup c0) else Some (Some c0).

(* [i; i+1; ...], n elements *)
Fixpoint zseq (n : nat) (i : Z) : list Z := match n with O => [] | S k => i :: zseq k (i + 1) end.
(* for i := range r.values { r.values[i].pos = uint32(i) } *)
Definition fresh_slots (c : Z) : list (Z * Z) := map (fun i => (0, u32 i)) (zseq (Z.to_nat c) 0).

(* Init on a ring with the given head/tail (zero for NewSync): head and tail are NOT written *)
Inductive ires := IPanic | INoFuel | IOk (r : sring).
Definition init_on (h t : Z) (c : Z) : ires :=
  match init_cap c with
  | None => IPanic
  | Some None => INoFuel
  | Some (Some c32) => IOk {| slots := fresh_slots c32; shead := h; stail := t; scap := c32; smask := u32 (c32 - 1) |}
  end.
Definition sinit (c : Z) : ires := init_on 0 0 c.

(* the harness's counter injection: a quiescent ring whose counters stand at n (what n push/pop pairs produce,
   Proofs: pairs_reach): slot (p & mask) carries sequence number u32 p for the cap positions p in [n, n+cap) *)
Definition inject (r : sring) (n : Z) : sring :=
  {| slots := map (fun i => (0, u32 (n + ((i - n) mod scap r)))) (zseq (Z.to_nat (scap r)) 0);
     shead := u32 n; stail := u32 n; scap := scap r; smask := smask r |}.

Definition slot_at (r : sring) (pos : Z) : option (nat * (Z * Z)) :=
  let i := Z.to_nat (Z.land pos (smask r)) in
  match nth_error (slots r) i with None => None | Some s => Some (i, s) end.

(* Push (sync.go:77-94) *)
Definition spush (r : sring) (v : Z) : option (sring * bool) :=
  let pos := stail r in
  match slot_at r pos with
  | None => None
  | Some (i, (_, seq)) =>
      if negb (pos =? seq) then Some (r, false)
      else Some ({| slots := supd (slots r) i (v, u32 (seq + 1)); shead := shead r; stail := u32 (pos + 1);
                    scap := scap r; smask := smask r |}, true)
  end.

(* Pop (sync.go:98-117) *)
Definition spop (r : sring) : option (sring * (bool * Z)) :=
  let pos := shead r in
  match slot_at r pos with
  | None => None
  | Some (i, (val, seq)) =>
      if negb (u32 (pos + 1) =? seq) then Some (r, (false, 0))
      else Some ({| slots := supd (slots r) i (0, u32 (seq + smask r)); shead := u32 (pos + 1); stail := stail r;
                    scap := scap r; smask := smask r |}, (true, val))
  end.

Definition sis_empty (r : sring) : bool := shead r =? stail r.
Definition sis_full (r : sring) : bool := u32 (stail r - shead r) =? scap r.
Definition slen (r : sring) : Z := let l := u32 (stail r - shead r) in if scap r <? l then scap r else l.

Fixpoint flat (l : list (Z * Z)) : list Z := match l with [] => [] | (a, b) :: t => a :: b :: flat t end.
Definition sdump (r : sring) : list Z := shead r :: stail r :: smask r :: flat (slots r).

Inductive sres := SPanic | SNoFuel | SOk (r : sring) (x : res).

Definition sstep (r : sring) (o : sop) : sres :=
  match o with
  | SPush v => match spush r v with None => SPanic | Some (r', b) => SOk r' (RBool b) end
  | SPop => match spop r with None => SPanic | Some (r', (ok, v)) => SOk r' (RVal ok v) end
  | SLen => SOk r (RInt (slen r))
  | SIsEmpty => SOk r (RBool (sis_empty r))
  | SIsFull => SOk r (RBool (sis_full r))
  | SCap => SOk r (RInt (scap r))
  | SInit c => match init_on (shead r) (stail r) c with IPanic => SPanic | INoFuel => SNoFuel | IOk r' => SOk r' RUnit end
  | SDump => SOk r (RDump (sdump r))
  | SPushWait v timed =>
      match spush r v with
      | None => SPanic
      | Some (r', true) => SOk r' (RBool true)
      | Some (r', false) =>
          if timed then match spush r' v with None => SPanic | Some (r'', b) => SOk r'' (RBool b) end
          else SOk r' (RBool false)
      end
  | SPopWait timed =>
      match spop r with
      | None => SPanic
      | Some (r', (true, v)) => SOk r' (RVal true v)
      | Some (r', (false, _)) =>
          if timed then match spop r' with None => SPanic | Some (r'', (ok, v)) => SOk r'' (RVal ok v) end
          else SOk r' (RVal false 0)
      end
  end.

Inductive outcome := OutPanic | OutNoFuel | Out (l : list res).

Fixpoint srun_acc (r : sring) (ops : list sop) (acc : list res) : outcome :=
  match ops with
  | [] => Out (rev acc)
  | o :: t => match sstep r o with SPanic => OutPanic | SNoFuel => OutNoFuel | SOk r' x => srun_acc r' t (x :: acc) end
  end.
Definition srun (r : sring) (ops : list sop) : outcome := srun_acc r ops [].

(* the state after the operations *)
Fixpoint sexec (r : sring) (ops : list sop) : option sring :=
  match ops with
  | [] => Some r
  | o :: t => match sstep r o with SOk r' _ => sexec r' t | _ => None end
  end.

(* a case: NewSync(c), optionally the counter injection, then the operations *)
Definition sync_case (c : Z) (inj : option Z) (ops : list sop) : outcome :=
  match sinit c with
  | IPanic => OutPanic
  | INoFuel => OutNoFuel
  | IOk r => srun (match inj with None => r | Some n => inject r n end) ops
  end.

(* ---------------------------------------------------------------- specification *)
(* the smallest power of two >= max 2 c, by doubling (fuel 64 suffices for c < 2^62) *)
Fixpoint pow2_ge (fuel : nat) (p c : Z) : Z :=
  match fuel with O => p | S f => if c <=? p then p else pow2_ge f (2 * p) c end.
Definition spec_cap (c : Z) : Z := pow2_ge 64 2 c.

Definition sfstep (f : fifo) (o : sop) : option (fifo * res) :=
  match o with
  | SPush v | SPushWait v _ => fstep f (OPush v)
  | SPop | SPopWait _ => fstep f OPop
  | SLen => fstep f OLen
  | SIsEmpty => fstep f OIsEmpty
  | SIsFull => fstep f OIsFull
  | SCap => fstep f OCap
  | SInit c => if c <=? 0 then None else Some ({| fcap := spec_cap c; fq := [] |}, RUnit)
  | SDump => Some (f, RDump (repeat WILD (Z.to_nat (3 + 2 * fcap f))))
  end.
Fixpoint sfrun_acc (f : fifo) (ops : list sop) (acc : list res) : option (list res) :=
  match ops with
  | [] => Some (rev acc)
  | o :: t => match sfstep f o with None => None | Some (f', x) => sfrun_acc f' t (x :: acc) end
  end.
Definition sfifo_case (c : Z) (ops : list sop) : option (list res) :=
  if c <=? 0 then None else sfrun_acc {| fcap := spec_cap c; fq := [] |} ops [].
