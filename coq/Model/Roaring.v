(* C03: executable model of setz.RoaringBitmap (setz/roaring_bitmap.go, setz/iter.go) and its specification.
   The container map (a listz.SkipList keyed by the high 16 bits) is modelled as a key-sorted association list
   (the skip list itself is C02's business); a container is a sorted uint16 array or a 1024-word bitmap with a
   cached cardinality (Model/Bits.v).  The thresholds come from the source (Gen/Roaring.v).  No proofs here. *)
From Coq Require Import List ZArith NArith Bool Arith.
From V Require Import Lib.Enc Gen.Roaring Model.Bits.
Import ListNotations.
Local Open Scope N_scope.

(* ---- slices of uint16 as lists, indices in binary (N) so that the extracted model stays fast ---- *)
Fixpoint nthN (l : list N) (i : N) : N :=                                  (* values[i] *)
  match l with [] => 0 | x :: t => if i =? 0 then x else nthN t (N.pred i) end.
Fixpoint lenN (l : list N) : N := match l with [] => 0 | _ :: t => N.succ (lenN t) end.   (* len(values) *)
Fixpoint insert_at (l : list N) (p x : N) : list N :=                      (* append 0; copy(v[p+1:], v[p:]); v[p] = x *)
  match l with [] => [x] | y :: t => if p =? 0 then x :: l else y :: insert_at t (N.pred p) x end.
Fixpoint delete_at (l : list N) (p : N) : list N :=                        (* append(v[:p], v[p+1:]...) *)
  match l with [] => [] | y :: t => if p =? 0 then t else y :: delete_at t (N.pred p) end.

Fixpoint skipN (l : list N) (n : N) : list N :=                            (* v[n:] *)
  match l with [] => [] | _ :: t => if n =? 0 then l else skipN t (N.pred n) end.

(* ---- setz.search (roaring_bitmap.go:300-311): lower bound by bisection; fuel = len + 1 rounds.
   [w] is the cursor v[low:], carried along so that reading values[mid] costs mid - low list steps (an executable-model
   optimisation only: Proofs/RoaringArr.search_loop_spec is stated for w = v[low:]) ---- *)
Fixpoint search_loop (fuel : nat) (w : list N) (x : N) (low high : N) : N :=
  match fuel with
  | O => low
  | S f => if low <? high then
             let mid := N.shiftr (low + high) 1 in                         (* int(uint(low+high) >> 1) *)
             let w' := skipN w (mid - low) in                              (* v[mid:] *)
             if hd 0 w' <? x                                               (* values[mid] < x *)
             then search_loop f (tl w') x (mid + 1) high
             else search_loop f w x low mid
           else low
  end.
Definition search (v : list N) (n x : N) : N := search_loop (S (length v)) v x 0 n.     (* n = len(values) *)

(* ---- containers ---- *)
Inductive container := Arr (vs : list N) | Bmp (b : bits).

Definition a_found (v : list N) (n x p : N) : bool := (p <? n) && (nthN v p =? x).       (* pos < len && values[pos] == x *)
Definition a_contains (v : list N) (x : N) : bool := let n := lenN v in a_found v n x (search v n x).
Definition a_remove (v : list N) (x : N) : list N * bool :=
  let n := lenN v in let p := search v n x in if a_found v n x p then (delete_at v p, true) else (v, false).

(* the private Bitmap.add (bits.go:233-237): b.set[index] |= 1 << bit, no growth, no result *)
Definition set_bit (set : list N) (num : N) : list N :=
  let i := widx num in upd set i (N.lor (nth i set 0) (mask (bidx num))).

(* the conversion (roaring_bitmap.go:187-199): copy(buf, values); a zeroed bitmap of bmp_words words; add every buf value,
   then x; the cached cardinality is SET BY HAND to conv_len.  Returns the new container and the scratch buffer. *)
Definition convert (v buf : list N) (x : N) : bits * list N :=
  let buf' := firstn (length buf) v ++ skipn (length v) buf in
  let zero := repeat 0 (N.to_nat bmp_words) in
  ({| words := fold_left set_bit (buf' ++ [x]) zero; cached := conv_len |}, buf').

(* container.Add: (new container, changed?, scratch buffer) *)
Definition c_add (c : container) (x : N) (buf : list N) : container * bool * list N :=
  match c with
  | Arr v =>
      let n := lenN v in
      let p := search v n x in
      if a_found v n x p then (Arr v, false, buf)
      else if n <? arr_max then (Arr (insert_at v p x), true, buf)
      else let (b, buf') := convert v buf x in (Bmp b, true, buf')
  | Bmp b => let (b', ch) := b_add b x in (Bmp b', ch, buf)                  (* Bits.Add(uint(x)) on the embedded Bits *)
  end.
Definition c_remove (c : container) (x : N) : container * bool :=
  match c with
  | Arr v => let (v', ch) := a_remove v x in (Arr v', ch)
  | Bmp b => let (b', ch) := b_remove b x in (Bmp b', ch)
  end.
Definition c_contains (c : container) (x : N) : bool :=
  match c with Arr v => a_contains v x | Bmp b => contains (words b) x end.
Definition c_len (c : container) : Z :=
  match c with Arr v => Z.of_nat (length v) | Bmp b => cached b end.       (* the bitmap container answers with its CACHE *)

(* ---- the ordered map high -> container (specification of listz.SkipList: GetNode/Get, Set, Remove, Head/Next) ---- *)
Definition cmap := list (N * container).
Fixpoint m_get (k : N) (m : cmap) : option container :=
  match m with [] => None | (k', c) :: t => if k' =? k then Some c else if k <? k' then None else m_get k t end.
Fixpoint m_set (k : N) (c : container) (m : cmap) : cmap :=
  match m with
  | [] => [(k, c)]
  | (k', c') :: t => if k' =? k then (k, c) :: t else if k <? k' then (k, c) :: m else (k', c') :: m_set k c t
  end.
Fixpoint m_del (k : N) (m : cmap) : cmap :=
  match m with [] => [] | (k', c') :: t => if k' =? k then t else if k <? k' then m else (k', c') :: m_del k t end.

(* ---- RoaringBitmap ---- *)
Record rb := { conts : cmap; buf : list N; rlen : Z }.
Definition r_empty : rb := {| conts := []; buf := repeat 0 (N.to_nat buf_len); rlen := 0 |}.    (* the zero value *)

Definition hi (num : N) : N := N.land (N.shiftr num key_shift) 65535.    (* uint16(num >> 16) *)
Definition lo (num : N) : N := N.land num 65535.                         (* uint16(num) *)
Definition join (k v : N) : N := N.lor (N.shiftl k key_shift) v.         (* uint32(high)<<16 | uint32(low) *)

Definition r_add (r : rb) (num : N) : rb * bool :=
  match m_get (hi num) (conts r) with
  | None =>
      let '(c, _, buf') := c_add (Arr []) (lo num) (buf r) in
      ({| conts := m_set (hi num) c (conts r); buf := buf'; rlen := (rlen r + 1)%Z |}, true)
  | Some c =>
      let '(c', ok, buf') := c_add c (lo num) (buf r) in
      ({| conts := m_set (hi num) c' (conts r); buf := buf'; rlen := if ok then (rlen r + 1)%Z else rlen r |}, ok)
  end.
Definition r_remove (r : rb) (num : N) : rb * bool :=
  match m_get (hi num) (conts r) with
  | None => (r, false)
  | Some c =>
      let (c', ok) := c_remove c (lo num) in
      if ok then
        ({| conts := if (c_len c' =? 0)%Z then m_del (hi num) (conts r) else m_set (hi num) c' (conts r);
            buf := buf r; rlen := (rlen r - 1)%Z |}, true)
      else (r, false)
  end.
Definition r_contains (r : rb) (num : N) : bool :=
  match m_get (hi num) (conts r) with None => false | Some c => c_contains c (lo num) end.

(* ---- Range / All (roaring_bitmap.go:100-127, iter.go:24-52): buckets in key order; an array container is walked in index
   order, a bitmap container by the double loop of C16 (Model/Bits.range_loop); the callback returns false at its k-th call
   (k = 0: never), which ends the whole walk ---- *)
Definition c_elems (c : container) : list N :=
  match c with Arr v => v | Bmp b => range_loop (words b) 0 0 0 end.
Definition r_all (m : cmap) : list N := flat_map (fun kc => map (join (fst kc)) (c_elems (snd kc))) m.
Definition r_range (r : rb) (k : nat) : list N := match k with O => r_all (conts r) | _ => firstn k (r_all (conts r)) end.

(* ---- RoaringBitmapIter (roaring_bitmap.go:129-148).  Inner iterators: arrayContainerIter (index i, started at -1; we keep
   c = i + 1) and BitmapIter (Model/Bits.iter; [bnext] is Bits.next computed on the word suffix; proved equal to it). ---- *)
Inductive inner := IArr (c : N) | IBmp (it : iter).
Record riter := { nodes : cmap; inn : option inner }.

(* BitmapIter.Next on the word list: the inner loop over j < 64 of one word, then the outer loop over the remaining words *)
Fixpoint scan_bits (fuel : nat) (w : N) (j : N) : option N :=
  match fuel with
  | O => None
  | S f => if j <? 64 then (if negb (N.land w (N.shiftl 1 j) =? 0) then Some j else scan_bits f w (j + 1)) else None
  end.
Fixpoint scan_w (ws : list N) (i : nat) (j : N) : option (nat * N) :=
  match ws with
  | [] => None
  | w :: t => match scan_bits 65 w j with Some j' => Some (i, j') | None => scan_w t (S i) 0 end
  end.
Definition bnext (set : list N) (it : iter) : option iter :=
  let j0 := if rd it then bj it + 1 else bj it in
  match scan_w (skipn (wi it) set) (wi it) j0 with
  | Some (i, j) => Some {| wi := i; bj := j; rd := true |}
  | None => None
  end.
Definition c_iter (c : container) : inner :=
  match c with Arr _ => IArr 0 | Bmp _ => IBmp {| wi := O; bj := 0; rd := false |} end.
Definition inner_next (c : container) (i : inner) : option inner :=
  match c, i with
  | Arr v, IArr n => if n <? lenN v then Some (IArr (n + 1)) else None              (* if i.i < len-1 { i.i++; return true } *)
  | Bmp b, IBmp it => match bnext (words b) it with Some it' => Some (IBmp it') | None => None end
  | _, _ => None
  end.
Definition inner_value (c : container) (i : inner) : N :=
  match c, i with
  | Arr v, IArr n => nthN v (N.pred n)                                              (* values[i.i] *)
  | Bmp _, IBmp it => N.land (value it) 65535                                       (* uint16(BitmapIter.Value()) *)
  | _, _ => 0
  end.

(* Next: for i.node != nil { if i.iter == nil { i.iter = node.Value().Iter() }; if i.iter.Next() { return true };
         i.node = i.node.Next(); i.iter = nil }; return false *)
Fixpoint r_next (fuel : nat) (s : riter) : option riter :=
  match fuel with
  | O => None
  | S f =>
      match nodes s with
      | [] => None
      | (k, c) :: rest =>
          let cur := match inn s with Some i => i | None => c_iter c end in
          match inner_next c cur with
          | Some cur' => Some {| nodes := nodes s; inn := Some cur' |}
          | None => r_next f {| nodes := rest; inn := None |}
          end
      end
  end.
Definition r_value (s : riter) : N :=
  match nodes s, inn s with
  | (k, c) :: _, Some i => join k (inner_value c i)
  | _, _ => 0
  end.
Fixpoint r_drain (fuel : nat) (s : riter) : list N :=
  match fuel with
  | O => []
  | S f => match r_next (S (length (nodes s))) s with
           | Some s' => r_value s' :: r_drain f s'
           | None => []
           end
  end.
Definition r_iter (r : rb) : list N :=
  r_drain (S (Z.to_nat (rlen r))) {| nodes := conts r; inn := None |}.

(* ---- operations and the sequence runner ---- *)
Inductive rop := RAdd (n : N) | RRemove (n : N) | RContains (n : N) | RLen | RIter | RRange (k : nat) | RAll (k : nat) | RBuckets.

Definition r_step (r : rb) (o : rop) : rb * list Z :=
  match o with
  | RAdd n => let (r', ok) := r_add r n in (r', [zb ok])
  | RRemove n => let (r', ok) := r_remove r n in (r', [zb ok])
  | RContains n => (r, [zb (r_contains r n)])
  | RLen => (r, [rlen r])
  | RIter => (r, put_list (of_Ns (r_iter r)))
  | RRange k | RAll k => (r, put_list (of_Ns (r_range r k)))
  | RBuckets => (r, [Z.of_nat (length (conts r))])            (* containers.Len(): empty buckets must have been removed *)
  end.
Fixpoint r_run (r : rb) (ops : list rop) : list Z :=
  match ops with
  | [] => []
  | o :: t => let (r', out) := r_step r o in out ++ r_run r' t
  end.

(* ---- specification: a set of N as a strictly ascending list (s_insert / s_delete / s_mem of Model/Bits.v) ---- *)
Fixpoint dedup (l : list N) : list N :=          (* drop adjacent repetitions *)
  match l with
  | [] => []
  | x :: t => match t with [] => [x] | y :: _ => if x =? y then dedup t else x :: dedup t end
  end.
Definition s_buckets (s : list N) : nat := length (dedup (map hi s)).     (* number of distinct high parts *)
Definition sr_step (s : list N) (o : rop) : list N * list Z :=
  match o with
  | RAdd n => (s_insert n s, [zb (negb (s_mem n s))])
  | RRemove n => (s_delete n s, [zb (s_mem n s)])
  | RContains n => (s, [zb (s_mem n s)])
  | RLen => (s, [Z.of_nat (length s)])
  | RIter => (s, put_list (of_Ns s))
  | RRange k | RAll k => (s, put_list (of_Ns (match k with O => s | _ => firstn k s end)))
  | RBuckets => (s, [Z.of_nat (s_buckets s)])
  end.
Fixpoint sr_run (s : list N) (ops : list rop) : list Z :=
  match ops with
  | [] => []
  | o :: t => let (s', out) := sr_step s o in out ++ sr_run s' t
  end.
