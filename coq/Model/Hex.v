(* C15 — strz hex codec (copy of encoding/hex), HexDecodeInPlace, IPv4 helpers, and the digest / HMAC / base64 helpers
   whose cryptographic / encoding primitive is Go standard library (a Section variable here, answered by the Go oracle
   in the run).  Specification side: positional definition of hex decoding with encoding/hex's error precedence.
   No proofs here. *)
From Coq Require Import List ZArith Bool.
From V Require Import Lib.Enc Gen.StrzStd Model.Strconv.
Import ListNotations.
Local Open Scope Z_scope.

(* ------------------------------------------------------------------ hexEncode / hexDecode / fromHexChar *)
Definition from_hex (c : Z) : option Z :=
  if (48 <=? c) && (c <=? 57) then Some (c - 48)
  else if (97 <=? c) && (c <=? 102) then Some (c - 97 + 10)
  else if (65 <=? c) && (c <=? 70) then Some (c - 65 + 10)
  else None.
Definition hexchar (n : Z) : Z := nth (Z.to_nat n) g_hextable 0.
Definition hex_encode (src : list Z) : list Z :=
  flat_map (fun b => [hexchar (Z.shiftr b 4); hexchar (Z.land b 15)]) src.

Inductive herr := NoErr | InvalidByte (c : Z) | ErrLength.
(* the loop reads pairs; on the odd tail it checks the character before reporting the length *)
Fixpoint hex_decode (src : list Z) (acc : list Z) : list Z * herr :=
  match src with
  | [] => (acc, NoErr)
  | [c] => match from_hex c with None => (acc, InvalidByte c) | Some _ => (acc, ErrLength) end
  | a :: b :: rest =>
      match from_hex a with
      | None => (acc, InvalidByte a)
      | Some x => match from_hex b with
                  | None => (acc, InvalidByte b)
                  | Some y => hex_decode rest (acc ++ [Z.lor (Z.shiftl x 4) y])
                  end
      end
  end.

(* specification in the words of encoding/hex: the first invalid character wins, else odd length, else success;
   the decoded prefix is the complete pairs before the offending position *)
Fixpoint first_bad (src : list Z) (i : nat) : option (nat * Z) :=
  match src with [] => None | c :: t => match from_hex c with None => Some (i, c) | Some _ => first_bad t (S i) end end.
Fixpoint pairs (src : list Z) : list Z :=
  match src with
  | a :: b :: rest => match from_hex a, from_hex b with Some x, Some y => (16 * x + y) :: pairs rest | _, _ => [] end
  | _ => []
  end.
Definition hex_spec (src : list Z) : list Z * herr :=
  match first_bad src 0 with
  | Some (p, c) => (firstn (p / 2) (pairs src), InvalidByte c)
  | None => (pairs src, if Nat.odd (length src) then ErrLength else NoErr)
  end.

(* HexDecodeInPlace = hex.Decode(b, b): one buffer, read cursor j (pairs at j-1, j), write cursor i *)
Fixpoint setnth (l : list Z) (i : nat) (x : Z) : list Z :=
  match l, i with [], _ => [] | _ :: t, O => x :: t | h :: t, S j => h :: setnth t j x end.
Fixpoint inplace_go (fuel : nat) (buf : list Z) (i j : nat) : list Z * nat * herr :=
  match fuel with
  | O => (buf, i, NoErr)
  | S f =>
      if (j <? length buf)%nat then
        match from_hex (nth (j - 1) buf 0) with
        | None => (buf, i, InvalidByte (nth (j - 1) buf 0))
        | Some x => match from_hex (nth j buf 0) with
                    | None => (buf, i, InvalidByte (nth j buf 0))
                    | Some y => inplace_go f (setnth buf i (Z.lor (Z.shiftl x 4) y)) (S i) (S (S j))
                    end
        end
      else if Nat.odd (length buf) then
        match from_hex (nth (j - 1) buf 0) with
        | None => (buf, i, InvalidByte (nth (j - 1) buf 0))
        | Some _ => (buf, i, ErrLength)
        end
      else (buf, i, NoErr)
  end.
Definition hex_decode_inplace (buf : list Z) : list Z * nat * herr := inplace_go (S (length buf)) buf 0 1.

Definition herr_tokens (e : herr) : list Z :=
  match e with NoErr => [0; 0] | InvalidByte c => [1; c] | ErrLength => [2; 0] end.

(* ------------------------------------------------------------------ IPv4ToLong / LongToIPv4 *)
Definition u32 (x : Z) : Z := x mod 2 ^ 32.
(* decimal text of a byte (net.IP.String for an IPv4 address) *)
Definition dec_byte_text (b : Z) : list Z :=
  if b <? 10 then [48 + b]
  else if b <? 100 then [48 + b / 10; 48 + b mod 10]
  else [48 + b / 100; 48 + (b / 10) mod 10; 48 + b mod 10].
Definition bytes_of_long (x : Z) : list Z := [(x / 2 ^ 24) mod 256; (x / 2 ^ 16) mod 256; (x / 2 ^ 8) mod 256; x mod 256].
Definition long_to_ipv4 (x : Z) : list Z :=
  match bytes_of_long x with
  | [a; b; c; d] => dec_byte_text a ++ [46] ++ dec_byte_text b ++ [46] ++ dec_byte_text c ++ [46] ++ dec_byte_text d
  | _ => []
  end.
(* strings.Split(ip, ".") *)
Fixpoint split_dot (s : list Z) (cur : list Z) : list (list Z) :=
  match s with
  | [] => [cur]
  | c :: t => if c =? 46 then cur :: split_dot t [] else split_dot t (cur ++ [c])
  end.
(* long = long<<8 + uint32(n) per part, n from strconv.ParseInt(v, 10, 32) with the error dropped *)
Definition ipv4_to_long (s : list Z) : Z :=
  fold_left (fun acc part => u32 (u32 (acc * 256) + u32 (parse_int_val part 10 32))) (split_dot s []) 0.

(* ------------------------------------------------------------------ helpers over standard-library primitives *)
Section Primitives.
  Variable H : Z -> list Z -> list Z.               (* H alg data: the digest (crypto/md5, sha1, sha256, sha512 ...) *)
  Variable HM : Z -> list Z -> list Z -> list Z.    (* HM alg key data: crypto/hmac *)
  Variable B64E : Z -> list Z -> list Z.            (* encoding/base64 Encode for encoding id *)
  Variable B64D : Z -> list Z -> list Z * Z.        (* Decode: (bytes written, 0/1 error flag) *)

  Definition digest_helper (alg : Z) (data : list Z) : list Z := hex_encode (H alg data).
  Definition hmac_helper (alg : Z) (key data : list Z) : list Z := hex_encode (HM alg key data).
  (* XxxStream: io.Copy feeds the chunks to the hash; a reader error aborts with (nil, err) *)
  Definition digest_stream (alg : Z) (chunks : list (list Z)) (fails : bool) : option (list Z) :=
    if fails then None else Some (hex_encode (H alg (concat chunks))).
  Definition base64_encode (enc : Z) (data : list Z) : list Z := B64E enc data.
  Definition base64_decode (enc : Z) (text : list Z) : list Z * Z := B64D enc text.
End Primitives.

(* split data into chunks of the given sizes (the rest is the last chunk) *)
Fixpoint chunks_of (sizes : list Z) (data : list Z) : list (list Z) :=
  match sizes with
  | [] => match data with [] => [] | _ => [data] end
  | n :: t => match data with
              | [] => []
              | _ => firstn (Z.to_nat n) data :: chunks_of t (skipn (Z.to_nat n) data)
              end
  end.
