(* C19 — goz.Limiter / goz.Recover.

   The Limiter is a token channel of capacity [limit] plus a WaitGroup (goz.go:12-67):
     Go(fn):  l.c <- struct{}{} ; l.w.Add(1) ; go Recover(fn, l.panicHandler, l.done)      (Gen.ConstsGoz.go_shape = [1;2;3])
     done():  l.w.Done() ; <-l.c                                                            (done_shape = [4;5])
     Wait():  l.w.Wait()                                                                    (wait_shape = [6])
   Event model (one event = one observable step of one goroutine):
     Submit i    the caller of Go obtained a token and did Add(1); the goroutine for task i exists       (enabled iff tokens < limit)
     Start i     task i's function body begins
     Return i    the body returned            Panic i v   the body panicked with v; recover() handed v to the handler
     Cleanup i   l.done() ran: Done() and the token is given back (taken as one step; nothing observes the gap)
     WaitReturn  a Wait() call returns (enabled iff the WaitGroup counter is 0)
   [step] returns None when the event is not enabled: the real system cannot produce it in that state. *)
From Coq Require Import List Arith ZArith Bool.
From V Require Import Lib.Enc Gen.ConstsGoz.
Import ListNotations.

Inductive tstate := Pending | Spawned | Running | Ended | Finished.
Inductive ev :=
| Submit (i : nat) | Start (i : nat) | Return (i : nat) | Panic (i v : nat) | Cleanup (i : nat) | WaitReturn.

Record st := { limit : nat; tokens : nat; wg : nat; tasks : nat -> tstate; handled : list (nat * nat) }.

Definition set {A} (f : nat -> A) (i : nat) (x : A) : nat -> A := fun j => if Nat.eqb j i then x else f j.

Definition step (s : st) (e : ev) : option st :=
  match e with
  | Submit i =>
      match tasks s i with
      | Pending => if tokens s <? limit s
                   then Some {| limit := limit s; tokens := S (tokens s); wg := S (wg s);
                                tasks := set (tasks s) i Spawned; handled := handled s |}
                   else None                                   (* the send on the token channel blocks *)
      | _ => None
      end
  | Start i =>
      match tasks s i with
      | Spawned => Some {| limit := limit s; tokens := tokens s; wg := wg s; tasks := set (tasks s) i Running; handled := handled s |}
      | _ => None
      end
  | Return i =>
      match tasks s i with
      | Running => Some {| limit := limit s; tokens := tokens s; wg := wg s; tasks := set (tasks s) i Ended; handled := handled s |}
      | _ => None
      end
  | Panic i v =>
      match tasks s i with
      | Running => Some {| limit := limit s; tokens := tokens s; wg := wg s; tasks := set (tasks s) i Ended;
                           handled := handled s ++ [(i, v)] |}
      | _ => None
      end
  | Cleanup i =>
      match tasks s i with
      | Ended => Some {| limit := limit s; tokens := pred (tokens s); wg := pred (wg s);
                         tasks := set (tasks s) i Finished; handled := handled s |}
      | _ => None
      end
  | WaitReturn => if wg s =? 0 then Some s else None
  end.

Fixpoint accepts (s : st) (tr : list ev) : option st :=
  match tr with [] => Some s | e :: t => match step s e with None => None | Some s' => accepts s' t end end.

(* NewLimiter(n): `if limit < limiter_min { limit = limiter_default }`, constants regenerated from the source *)
Definition eff_limit (n : Z) : nat := Z.to_nat (if (n <? limiter_min)%Z then limiter_default else n).
Definition new_limiter (n : Z) : st :=
  {| limit := eff_limit n; tokens := 0; wg := 0; tasks := fun _ => Pending; handled := [] |}.

(* the statement shapes the event model relies on, regenerated from goz.go on every run *)
Definition code_shape_ok : bool :=
  list_eqb go_shape [1; 2; 3]%Z && list_eqb done_shape [4; 5]%Z && list_eqb wait_shape [6]%Z &&
  list_eqb recover_body_shape [20; 21]%Z && list_eqb recover_defer_shape [10; 11; 12; 13; 14]%Z &&
  limiter_cap_is_limit && (1 <=? limiter_default)%Z && (limiter_min =? 1)%Z.

(* counting over a finite universe of task ids *)
Definition is_active (t : tstate) : bool := match t with Spawned | Running | Ended => true | _ => false end.
Definition is_running (t : tstate) : bool := match t with Running => true | _ => false end.
Definition active (s : st) (ids : list nat) : nat := length (filter (fun i => is_active (tasks s i)) ids).
Definition running (s : st) (ids : list nat) : nat := length (filter (fun i => is_running (tasks s i)) ids).

(* ------------------------------------------------------------------------------------------------
   goz.Recover (goz.go:69-106) as a function from the outcomes of the callbacks to what runs.
   outcome: None = returned, Some v = panicked with v.  hnil = no handler configured (it prints instead). *)
Inductive rcev := RanFn | Handler (v : nat) | CleanupRan (i : nat) | HandlerCleanup (i v : nat).
Fixpoint run_cleanups (i : nat) (cs : list (option nat)) : list rcev :=
  match cs with
  | [] => []
  | None :: t => CleanupRan i :: run_cleanups (S i) t
  | Some v :: _ => [CleanupRan i; HandlerCleanup i v]      (* the inner deferred recover; the loop is abandoned *)
  end.
Definition recover_ (fn : option nat) (cleanups : list (option nat)) : list rcev :=
  RanFn :: (match fn with Some v => [Handler v] | None => [] end) ++ run_cleanups 0 cleanups.
Definition is_handler (e : rcev) : bool := match e with Handler _ | HandlerCleanup _ _ => true | _ => false end.

(* ------------------------------------------------------------------------------------------------
   Observed traces.  The harness stamps, with one global atomic counter: the return of Go / the first
   instruction of the body (whichever comes first is reported as SUBMIT), the first instruction of the body
   (START), the last instruction of a returning body (RETURN), the instruction before panic(v) (RAISE), the
   handler being called with v (PANIC), the call of Wait (WAITCALL) and its return (WAITRET).
   Cleanup is not observable; the acceptor places it immediately after RETURN / PANIC, the earliest possible
   moment, and SUBMIT at the latest possible one, so a correct Limiter is never rejected. *)
Definition E_SUBMIT : Z := 1.  Definition E_START : Z := 2.  Definition E_RETURN : Z := 3.
Definition E_PANIC : Z := 4.   Definition E_WAITRET : Z := 5. Definition E_WAITCALL : Z := 6.
Definition E_HANG : Z := 7.    Definition E_RAISE : Z := 8.

Definition oev := (Z * Z * Z)%type.           (* code, task id, value *)

Fixpoint dec_trace (l : list Z) : list oev :=
  match l with
  | c :: i :: v :: r => (c, i, v) :: dec_trace r
  | _ => []
  end.
Fixpoint enc_trace (l : list oev) : list Z :=
  match l with [] => [] | (c, i, v) :: r => c :: i :: v :: enc_trace r end.

(* model events an observed event stands for; None = an event that must not occur (HANG, unknown code) *)
Definition obs_events (e : oev) : option (list ev) :=
  let '(c, i, v) := e in
  let n := Z.to_nat i in
  if (c =? E_SUBMIT)%Z then Some [Submit n] else
  if (c =? E_START)%Z then Some [Start n] else
  if (c =? E_RETURN)%Z then Some [Return n; Cleanup n] else
  if (c =? E_PANIC)%Z then Some [Panic n (Z.to_nat v); Cleanup n] else
  if (c =? E_WAITRET)%Z then Some [WaitReturn] else
  if (c =? E_WAITCALL)%Z then Some [] else
  if (c =? E_RAISE)%Z then Some [] else None.

(* step-by-step acceptance; on rejection the index of the offending observed event *)
Fixpoint accept_obs (s : st) (k : Z) (tr : list oev) : st + Z :=
  match tr with
  | [] => inl s
  | e :: t =>
      match obs_events e with
      | None => inr k
      | Some evs => match accepts s evs with Some s' => accept_obs s' (k + 1)%Z t | None => inr k end
      end
  end.

(* ---- specification predicates on an observed trace (independent of [step]) ---- *)
Definition count_ev (c i : Z) (tr : list oev) : nat :=
  length (filter (fun e => let '(c', i', _) := e in (c' =? c)%Z && (i' =? i)%Z) tr).
Definition ids_of (tr : list oev) : list Z :=
  nodup Z.eq_dec (map (fun e => snd (fst e)) (filter (fun e => let '(c, _, _) := e in (c =? E_SUBMIT)%Z || (c =? E_START)%Z) tr)).

(* the number of bodies inside, after each event; never above lim *)
Fixpoint gauge_ok (lim cur : nat) (tr : list oev) : bool :=
  match tr with
  | [] => true
  | (c, _, _) :: t =>
      let cur' := if (c =? E_START)%Z then S cur else if (c =? E_RETURN)%Z || (c =? E_RAISE)%Z then pred cur else cur in
      (cur' <=? lim) && gauge_ok lim cur' t
  end.

(* position of the first event with the given code and id *)
Fixpoint pos_of (c i : Z) (k : nat) (tr : list oev) : option nat :=
  match tr with
  | [] => None
  | (c', i', _) :: t => if (c' =? c)%Z && (i' =? i)%Z then Some k else pos_of c i (S k) t
  end.
Definition end_pos (i : Z) (tr : list oev) : option nat :=
  match pos_of E_RETURN i 0 tr with Some p => Some p | None => pos_of E_PANIC i 0 tr end.

(* every task: submitted once, started once after that, ended once after that; a RAISE is answered by the handler with the same value *)
Definition task_once (tr : list oev) (i : Z) : bool :=
  (count_ev E_SUBMIT i tr =? 1) && (count_ev E_START i tr =? 1) &&
  (count_ev E_RETURN i tr + count_ev E_PANIC i tr =? 1) &&
  (count_ev E_RAISE i tr =? count_ev E_PANIC i tr) &&
  match pos_of E_SUBMIT i 0 tr, pos_of E_START i 0 tr, end_pos i tr with
  | Some a, Some b, Some c => (a <? b) && (b <? c) &&
      match pos_of E_RAISE i 0 tr with Some r => (b <? r) && (r <? c) | None => true end
  | _, _, _ => false
  end.
Definition raise_matches (tr : list oev) : bool :=
  forallb (fun e => let '(c, i, v) := e in
     if (c =? E_PANIC)%Z then existsb (fun e' => let '(c', i', v') := e' in (c' =? E_RAISE)%Z && (i' =? i)%Z && (v' =? v)%Z) tr else true) tr.

(* Wait: a WAITRET at position p, its WAITCALL at the latest earlier position q: every task submitted before q has ended before p *)
Fixpoint last_waitcall (k : nat) (best : option nat) (upto : nat) (tr : list oev) : option nat :=
  match tr with
  | [] => best
  | (c, _, _) :: t => if (upto <=? k) then best else last_waitcall (S k) (if (c =? E_WAITCALL)%Z then Some k else best) upto t
  end.
Definition wait_ok_at (tr : list oev) (p : nat) : bool :=
  match last_waitcall 0 None p tr with
  | None => false
  | Some q => forallb (fun i => match pos_of E_SUBMIT i 0 tr with
                                | Some a => if a <? q then match end_pos i tr with Some c => c <? p | None => false end else true
                                | None => true end) (ids_of tr)
  end.
Fixpoint waits_ok (tr all : list oev) (k : nat) : bool :=
  match tr with
  | [] => true
  | (c, _, _) :: t => (if (c =? E_WAITRET)%Z then wait_ok_at all k else true) && waits_ok t all (S k)
  end.
Definition no_hang (tr : list oev) : bool := forallb (fun e => negb (fst (fst e) =? E_HANG)%Z) tr.
Definition ends_with_waitret (tr : list oev) : bool :=
  match rev tr with (c, _, _) :: _ => (c =? E_WAITRET)%Z | [] => false end.

Definition trace_spec (n : Z) (tr : list oev) : bool :=
  no_hang tr && gauge_ok (eff_limit n) 0 tr && forallb (task_once tr) (ids_of tr) && raise_matches tr &&
  waits_ok tr tr 0 && ends_with_waitret tr &&
  match accept_obs (new_limiter n) 0 tr with
  | inl s => (tokens s =? 0) && (wg s =? 0) &&
             forallb (fun i => match tasks s (Z.to_nat i) with Finished => true | _ => false end) (ids_of tr)
  | inr _ => false
  end.

Definition n_panics (tr : list oev) : nat := length (filter (fun e => (fst (fst e) =? E_PANIC)%Z) tr).

(* ------------------------------------------------------------------------------------------------
   Deterministic scripts (family 0).  The harness drives the real Limiter from one script goroutine:
     [1; kind]  GO    hand a new task (id = number of tasks so far) to the single submitter goroutine, which calls l.Go;
                      skipped while a Wait is outstanding (Add at counter 0 during Wait is a WaitGroup misuse) or at 40 tasks.
                      kind mod 7: 0 returns; 1,4,5,6 panics (int / string / error / runtime error); 2 spawns a child then returns;
                      3 spawns a child then panics.  A body blocks until it is released.
     [2; k]     REL   release the (k mod m)-th of the m started, unreleased tasks (ascending id); a spawner submits its child
                      from inside the body when the model says a token is free and nothing is queued;
     [3; _]     WAIT  start a goroutine that calls l.Wait(); skipped when one is outstanding or a submission is queued.
   After the script: release everything (lowest id first), then Wait.
   The model predicts, with its own [step], which Go calls are admitted and when the queued ones are, hence the whole
   observed trace; the harness waits (10 s liveness bound) only for events the same rules predict. *)
Definition MAXTASKS : nat := 40.
Definition kind_panics (k : nat) : bool := match k with 1 | 3 | 4 | 5 | 6 => true | _ => false end.
Definition kind_spawns (k : nat) : bool := match k with 2 | 3 => true | _ => false end.
Definition panic_value (i : nat) : nat := 1000 + i.

Record sim := { s_lim : st; s_next : nat; s_queue : list nat; s_act : list nat; s_kind : nat -> nat;
                s_waiter : bool; s_out : list oev (* reversed *); s_maxin : nat; s_npanic : nat; s_bad : bool }.

Definition zi (i : nat) : Z := Z.of_nat i.
Definition let_in (m : sim) (i : nat) : option sim :=
  match accepts (s_lim m) [Submit i; Start i] with
  | Some l' => Some {| s_lim := l'; s_next := s_next m; s_queue := s_queue m; s_act := s_act m ++ [i]; s_kind := s_kind m;
                       s_waiter := s_waiter m; s_out := (E_START, zi i, 0%Z) :: (E_SUBMIT, zi i, 0%Z) :: s_out m;
                       s_maxin := s_maxin m; s_npanic := s_npanic m; s_bad := s_bad m |}
  | None => None
  end.
Definition with_maxin (m : sim) (x : nat) : sim :=
  {| s_lim := s_lim m; s_next := s_next m; s_queue := s_queue m; s_act := s_act m; s_kind := s_kind m; s_waiter := s_waiter m;
     s_out := s_out m; s_maxin := Nat.max (s_maxin m) x; s_npanic := s_npanic m; s_bad := s_bad m |}.
Definition mark_bad (m : sim) : sim :=
  {| s_lim := s_lim m; s_next := s_next m; s_queue := s_queue m; s_act := s_act m; s_kind := s_kind m; s_waiter := s_waiter m;
     s_out := s_out m; s_maxin := s_maxin m; s_npanic := s_npanic m; s_bad := true |}.

Definition op_go (m : sim) (kind : nat) : sim :=
  if s_waiter m || (MAXTASKS <=? s_next m) then m else
  let i := s_next m in
  let m1 := {| s_lim := s_lim m; s_next := S i; s_queue := s_queue m; s_act := s_act m; s_kind := set (s_kind m) i kind;
               s_waiter := s_waiter m; s_out := s_out m; s_maxin := s_maxin m; s_npanic := s_npanic m; s_bad := s_bad m |} in
  match s_queue m with
  | [] => match let_in m1 i with
          | Some m2 => with_maxin m2 (length (s_act m2))
          | None => {| s_lim := s_lim m1; s_next := s_next m1; s_queue := [i]; s_act := s_act m1; s_kind := s_kind m1;
                       s_waiter := s_waiter m1; s_out := s_out m1; s_maxin := s_maxin m1; s_npanic := s_npanic m1; s_bad := s_bad m1 |}
          end
  | q => {| s_lim := s_lim m1; s_next := s_next m1; s_queue := q ++ [i]; s_act := s_act m1; s_kind := s_kind m1;
            s_waiter := s_waiter m1; s_out := s_out m1; s_maxin := s_maxin m1; s_npanic := s_npanic m1; s_bad := s_bad m1 |}
  end.

Definition remove_id (i : nat) (l : list nat) : list nat := filter (fun j => negb (Nat.eqb j i)) l.

(* a spawner submits its child from inside the body, when nothing is queued and the model admits it *)
Definition rel_spawn (m : sim) (kind : nat) : sim :=
  if kind_spawns kind && (match s_queue m with [] => true | _ => false end) && (s_next m <? MAXTASKS) then
    let c := s_next m in
    let mc := {| s_lim := s_lim m; s_next := S c; s_queue := s_queue m; s_act := s_act m; s_kind := set (s_kind m) c 0;
                 s_waiter := s_waiter m; s_out := s_out m; s_maxin := s_maxin m; s_npanic := s_npanic m; s_bad := s_bad m |} in
    match let_in mc c with
    | Some m' => with_maxin m' (length (s_act m'))      (* the parent is still inside *)
    | None => m
    end
  else m.
(* the body of j ends *)
Definition rel_end (m1 : sim) (j kind : nat) : option sim :=
  let evs := if kind_panics kind then [Panic j (panic_value j); Cleanup j] else [Return j; Cleanup j] in
  let outs := if kind_panics kind
              then (E_PANIC, zi j, zi (panic_value j)) :: (E_RAISE, zi j, zi (panic_value j)) :: s_out m1
              else (E_RETURN, zi j, 0%Z) :: s_out m1 in
  match accepts (s_lim m1) evs with
  | None => None
  | Some l2 => Some {| s_lim := l2; s_next := s_next m1; s_queue := s_queue m1; s_act := remove_id j (s_act m1); s_kind := s_kind m1;
                       s_waiter := s_waiter m1; s_out := outs; s_maxin := s_maxin m1;
                       s_npanic := (if kind_panics kind then S (s_npanic m1) else s_npanic m1); s_bad := s_bad m1 |}
  end.
(* the freed token goes to the head of the queue, or an outstanding Wait returns *)
Definition rel_after (m2 : sim) : sim :=
  match s_queue m2 with
  | h :: q =>
      let m3 := {| s_lim := s_lim m2; s_next := s_next m2; s_queue := q; s_act := s_act m2; s_kind := s_kind m2;
                   s_waiter := s_waiter m2; s_out := s_out m2; s_maxin := s_maxin m2; s_npanic := s_npanic m2; s_bad := s_bad m2 |} in
      match let_in m3 h with
      | Some m4 => with_maxin m4 (length (s_act m4))
      | None => mark_bad m2
      end
  | [] =>
      if s_waiter m2 then
        match step (s_lim m2) WaitReturn with
        | Some l3 => {| s_lim := l3; s_next := s_next m2; s_queue := []; s_act := s_act m2; s_kind := s_kind m2;
                        s_waiter := false; s_out := (E_WAITRET, 0%Z, 0%Z) :: s_out m2; s_maxin := s_maxin m2;
                        s_npanic := s_npanic m2; s_bad := s_bad m2 |}
        | None => m2
        end
      else m2
  end.
Definition op_rel (m : sim) (k : nat) : sim :=
  match s_act m with
  | [] => m
  | a0 :: _ =>
      let j := nth (k mod length (s_act m)) (s_act m) a0 in
      let kind := s_kind m j in
      let m1 := rel_spawn m kind in
      match rel_end m1 j kind with
      | None => mark_bad m1
      | Some m2 => rel_after m2
      end
  end.

Definition op_wait (m : sim) : sim :=
  if s_waiter m then m else
  match s_queue m with
  | _ :: _ => m
  | [] =>
      let out1 := (E_WAITCALL, 0%Z, 0%Z) :: s_out m in
      match step (s_lim m) WaitReturn with
      | Some l' => {| s_lim := l'; s_next := s_next m; s_queue := []; s_act := s_act m; s_kind := s_kind m; s_waiter := false;
                      s_out := (E_WAITRET, 0%Z, 0%Z) :: out1; s_maxin := s_maxin m; s_npanic := s_npanic m; s_bad := s_bad m |}
      | None => {| s_lim := s_lim m; s_next := s_next m; s_queue := []; s_act := s_act m; s_kind := s_kind m; s_waiter := true;
                   s_out := out1; s_maxin := s_maxin m; s_npanic := s_npanic m; s_bad := s_bad m |}
      end
  end.

Fixpoint run_script (m : sim) (ops : list Z) : sim :=
  match ops with
  | c :: a :: r =>
      let m' := if (c =? 1)%Z then op_go m (Z.to_nat (a mod 7)) else
                if (c =? 2)%Z then op_rel m (Z.to_nat a) else
                if (c =? 3)%Z then op_wait m else m in
      run_script m' r
  | _ => m
  end.
Fixpoint drain (fuel : nat) (m : sim) : sim :=
  match fuel with
  | O => m
  | S f => match s_act m with [] => m | _ => drain f (op_rel m 0) end
  end.

Definition sim0 (n : Z) : sim :=
  {| s_lim := new_limiter n; s_next := 0; s_queue := []; s_act := []; s_kind := fun _ => 0; s_waiter := false;
     s_out := []; s_maxin := 0; s_npanic := 0; s_bad := false |}.

Definition simulate (n : Z) (ops : list Z) : list Z :=
  let m := drain (3 * MAXTASKS) (run_script (sim0 n) ops) in
  let m := op_wait m in
  if s_bad m || s_waiter m || negb (match s_queue m with [] => true | _ => false end) then [NOFUEL]
  else put_list (enc_trace (rev (s_out m))) ++ [zi (s_next m); zi (s_npanic m); zi (s_maxin m)].

(* family 0 judge: the observed trace satisfies the specification, and the final counters agree with it *)
Definition spec_script (n : Z) (out : list Z) : bool :=
  let '(tr, fin) := get_list out in
  let tr := dec_trace tr in
  match fin with
  | [nf; nh; mx] =>
      trace_spec n tr && (nf =? Z.of_nat (length (ids_of tr)))%Z && (nh =? Z.of_nat (n_panics tr))%Z &&
      (mx <=? Z.of_nat (eff_limit n))%Z
  | _ => false
  end.

(* ------------------------------------------------------------------------------------------------
   Stress runs (family 1): [s] submitter goroutines each submit [m] free-running tasks; task id panics iff
   (id * 7 + seed) mod pk = 0 (pk > 0); then the submitters are joined and Wait is called.  The case carries the
   observed trace and the largest number of bodies seen inside at once. *)
Definition stress_panics (seed pk : Z) (id : Z) : bool := (0 <? pk)%Z && (((id * 7 + seed) mod pk) =? 0)%Z.
Fixpoint count_upto (f : Z -> bool) (k : nat) : nat :=
  match k with O => 0 | S j => (if f (Z.of_nat j) then 1 else 0) + count_upto f j end.

Definition stress_model (n total : Z) (maxin : Z) (tr : list oev) : list Z :=
  match accept_obs (new_limiter n) 0 tr with
  | inr k => [0; k]%Z
  | inl s =>
      if (Z.of_nat (eff_limit n) <? maxin)%Z then [0; -1]%Z else
      [Z.of_nat (length (filter (fun i => match tasks s i with Finished => true | _ => false end) (seq 0 (Z.to_nat total))));
       Z.of_nat (length (handled s)); 1%Z]
  end.
Definition stress_spec (n total seed pk maxin : Z) (tr : list oev) (out : list Z) : bool :=
  trace_spec n tr && (maxin <=? Z.of_nat (eff_limit n))%Z && (Z.of_nat (length (ids_of tr)) =? total)%Z &&
  list_eqb out [total; Z.of_nat (count_upto (stress_panics seed pk) (Z.to_nat total)); 1%Z] &&
  forallb (fun e => let '(c, i, v) := e in
             if (c =? E_PANIC)%Z then stress_panics seed pk i && (v =? 1000 + i)%Z else true) tr.

(* ------------------------------------------------------------------------------------------------
   Wait(d) with a timeout (goz.go, Limiter.Wait, the `len(waitTime) > 0` branch): a helper goroutine calls l.w.Wait() and then
   signals on `quit`; the caller selects between `quit` and time.After(d).  Added on top of [ev] (nothing above changes; the run
   does not produce these events):
     WaitTimeoutReturn true    the quit branch: the helper's l.w.Wait() returned (enabled iff the counter is 0; as for WaitReturn
                               the hand-over to the caller is not a separate step)
     WaitTimeoutReturn false   the timer branch: enabled in every state — the call may return at any time, tasks still active
   The Go method returns nothing, so the caller cannot tell the branches apart; [ok] is the branch taken, not a result. *)
Inductive evt := Ev (e : ev) | WaitTimeoutReturn (ok : bool).
Definition step_t (s : st) (e : evt) : option st :=
  match e with
  | Ev e => step s e
  | WaitTimeoutReturn true => if wg s =? 0 then Some s else None
  | WaitTimeoutReturn false => Some s
  end.
Fixpoint accepts_t (s : st) (tr : list evt) : option st :=
  match tr with [] => Some s | e :: t => match step_t s e with None => None | Some s' => accepts_t s' t end end.
Definition base_events (tr : list evt) : list ev := flat_map (fun e => match e with Ev e => [e] | WaitTimeoutReturn _ => [] end) tr.
