(* C15 — strz.ParseUint (copy of strconv.ParseUint generalised to string|[]byte), as it is in strz/std_strconv.go,
   plus the specification: the same grammar layer with an UNBOUNDED left-to-right digit scan (no cutoff, no wrap-around).
   Also strconv.ParseInt(s, 10, 32) on top of it (standard library, used by IPv4ToLong).
   No proofs here. *)
From Coq Require Import List ZArith Bool.
From V Require Import Lib.Enc Gen.StrzStd.
Import ListNotations.
Local Open Scope Z_scope.

Definition M64 : Z := 2 ^ 64.
Definition w64 (x : Z) : Z := x mod M64.                  (* uint64 arithmetic result *)
Definition word_bits : Z := 64.                           (* typez.WordBits on a 64-bit build *)

Inductive presult := POk (n : Z) | PSyntax | PRange (maxVal : Z) | PBase | PBitSize.

Definition lower (c : Z) : Z := Z.lor c 32.               (* c | 32 *)
(* the digit value of a character: '0'..'9', or a letter (either case) as 10..35 *)
Definition digit_of (c : Z) : option Z :=
  if (48 <=? c) && (c <=? 57) then Some (c - 48)
  else if (97 <=? lower c) && (lower c <=? 122) then Some (lower c - 97 + 10)
  else None.

(* cutoff = maxUint64/base + 1: the smallest n such that n*base overflows; maxVal = uint64(1)<<uint(bitSize) - 1 *)
Definition cutoff (base : Z) : Z := g_max_uint64 / base + g_cutoff_add.
Definition maxval (bits : Z) : Z := w64 ((if bits <? 64 then w64 (2 ^ bits) else 0) - 1).

(* the digit loop on 64-bit words; inr (n, underscores) when the whole text was consumed *)
Fixpoint digit_loop (base0 : bool) (base bits : Z) (s : list Z) (n : Z) (us : bool) : presult + (Z * bool) :=
  match s with
  | [] => inr (n, us)
  | c :: t =>
      if (c =? 95) && base0 then digit_loop base0 base bits t n true
      else match digit_of c with
           | None => inl PSyntax
           | Some d =>
               if base mod 256 <=? d then inl PSyntax                        (* d >= byte(base) *)
               else if cutoff base <=? n then inl (PRange (maxval bits))     (* n*base overflows *)
               else let n' := w64 (n * base) in
                    let n1 := w64 (n' + d) in
                    if (n1 <? n') || (maxval bits <? n1) then inl (PRange (maxval bits))
                    else digit_loop base0 base bits t n1 us
           end
  end.

(* specification of the loop: unbounded integers; the first offending character is a syntax error, the first prefix
   whose value exceeds 2^bits - 1 a range error *)
Fixpoint spec_loop (base0 : bool) (base bits : Z) (s : list Z) (n : Z) (us : bool) : presult + (Z * bool) :=
  match s with
  | [] => inr (n, us)
  | c :: t =>
      if (c =? 95) && base0 then spec_loop base0 base bits t n true
      else match digit_of c with
           | None => inl PSyntax
           | Some d =>
               if base <=? d then inl PSyntax
               else let v := n * base + d in
                    if 2 ^ bits - 1 <? v then inl (PRange (2 ^ bits - 1)) else spec_loop base0 base bits t v us
           end
  end.

(* underscoreOK: underscores only between digits or between a base prefix and a digit *)
Inductive saw := SBegin | SDigit | SUnder | SOther.
Definition is_boxl (c : Z) : bool := (lower c =? 98) || (lower c =? 111) || (lower c =? 120).
Fixpoint us_scan (hex : bool) (s : list Z) (st : saw) : bool :=
  match s with
  | [] => match st with SUnder => false | _ => true end
  | c :: t =>
      if ((48 <=? c) && (c <=? 57)) || (hex && (97 <=? lower c) && (lower c <=? 102)) then us_scan hex t SDigit
      else if c =? 95 then match st with SDigit => us_scan hex t SUnder | _ => false end
      else match st with SUnder => false | _ => us_scan hex t SOther end
  end.
Definition underscore_ok (s : list Z) : bool :=
  let s := match s with c :: t => if (c =? 45) || (c =? 43) then t else s | [] => s end in
  match s with
  | 48 :: c1 :: t => if is_boxl c1 then us_scan (lower c1 =? 120) t SDigit else us_scan false s SBegin
  | _ => us_scan false s SBegin
  end.

(* the layer around the loop: empty text, base (incl. base 0 prefixes), bit size, the final underscore check.
   [loopf] is the digit loop: the Go one for the model, the unbounded one for the specification. *)
Definition parse_frame (loopf : bool -> Z -> Z -> list Z -> Z -> bool -> presult + (Z * bool))
                       (s : list Z) (base bitSize : Z) : presult :=
  match s with
  | [] => PSyntax
  | c0 :: _ =>
      let base0 := base =? 0 in
      let pre : option (Z * list Z) :=
        if (g_base_lo <=? base) && (base <=? g_base_hi) then Some (base, s)
        else if base0 then
          if c0 =? 48 then
            match s with
            | _ :: c1 :: ((_ :: _) as t) =>
                if lower c1 =? 98 then Some (2, t)
                else if lower c1 =? 111 then Some (8, t)
                else if lower c1 =? 120 then Some (16, t)
                else Some (8, tl s)
            | _ => Some (8, tl s)
            end
          else Some (10, s)
        else None in
      match pre with
      | None => PBase
      | Some (b, body) =>
          let bits := if bitSize =? 0 then word_bits else bitSize in
          if (bitSize <? g_bits_min) || (g_bits_max <? bitSize) then PBitSize
          else match loopf base0 b bits body 0 false with
               | inl e => e
               | inr (n, us) => if us && negb (underscore_ok s) then PSyntax else POk n
               end
      end
  end.

Definition parse_uint : list Z -> Z -> Z -> presult := parse_frame digit_loop.
Definition spec_parse_uint : list Z -> Z -> Z -> presult := parse_frame spec_loop.

(* value and error kind as the functions return them: (value, kind) with kind 0 ok 1 syntax 2 range 3 base 4 bit size *)
Definition presult_val (r : presult) : Z := match r with POk n => n | PRange m => m | _ => 0 end.
Definition presult_kind (r : presult) : Z :=
  match r with POk _ => 0 | PSyntax => 1 | PRange _ => 2 | PBase => 3 | PBitSize => 4 end.

(* strconv.ParseInt(s, base, bitSize), errors dropped as `n, _ :=` does: the value that is returned *)
Definition parse_int_val (s : list Z) (base bitSize : Z) : Z :=
  match s with
  | [] => 0
  | c0 :: t =>
      let neg := c0 =? 45 in
      let body := if (c0 =? 43) || neg then t else s in
      match parse_uint body base bitSize with
      | PSyntax | PBase | PBitSize => 0
      | r =>
          let un := presult_val r in
          let bits := if bitSize =? 0 then word_bits else bitSize in
          let co := 2 ^ (bits - 1) in
          if negb neg && (co <=? un) then co - 1
          else if neg && (co <? un) then - co
          else if neg then - un else un
      end
  end.
